import TruthModel.Model.LowerSem
import TruthModel.Lemmas.LowerJumps
import TruthModel.Lemmas.BodySim
import TruthModel.Lemmas.RegRename
/-
C02 — compiling expressions and statements preserves what the script does.

Proved (for every intrinsic table `I`, every store of integers, every difficulty, every fuel, every value of
the temp counter and of the label counter):

* `alternatives_sound`       the integer fallbacks of `discover_alternatives` compute what the operator
                             computes: `-1 * x = -x`, `-1 - x = ~x` over `Int32` (all 2^32 values), and
                             `a op= b` through the binop is the same statement.
* `lowerSet_sound`           `v = e`: executing the emitted code leaves `eval e` in `v`, changes no other
                             variable below the temp counter (so no register, no user local, no live
                             temporary), logs nothing, keeps the time.
* `lowerAssign_sound_partial` the same for `v = e` and `v op= e` as statements of the VM.
* `lowerCall_sound_partial`  an instruction call with arbitrarily complex arguments logs the same opcode and
                             the same argument values as the source call and changes no variable below the
                             temp counter.
* `lowerSetJ_eq`             the model with labels and jumps (`Model/LowerJumps.lean`, the one compared with the
                             real `Lowerer` on bodies with jumps) emits for integer expressions exactly what
                             the straight-line model (`Model/Lower.lean`) emits: the theorems above hold for it.
* `lowerCondJump_sound`      `if (c) goto L @ t` / `unless (c) goto L @ t` for EVERY integer condition - the six
                             comparisons of operands of any complexity, `&&` `||` `!` nested at will, any
                             other integer expression (`e != 0`), constants - and for the counting conditions
                             `--x`, `--x != 0`, `--x > 0`; under every intrinsic table in which the lowering
                             succeeds (a conditional jump per comparison, or only for some and the cmp + jmp
                             pair for the others, or the pair only; either counting jump): the emitted fragment
                             is left either by a jump to `L` or at its end, by the jump IFF the source
                             statement jumps (`unless`: through `negate_comparison` / the skip label); every
                             variable below the temp counter ends as the source leaves it (`--x` decrements
                             `x` exactly once, wrapping); nothing is logged; the time is kept; the labels of the
                             fragment are fresh and pairwise different.
* `lowerCondJump_reach`      the same inside any lowered stream `pre ++ code ++ post`, for the program-counter
                             machine `execJ` (through `Lower.execFrag_reach`, the generic link between the
                             structural execution of a fragment and the machine).
* `lowerTernary_sound`       `v = c ? l : r` (integer condition of any shape, integer branches of any
                             complexity): the fragment runs to its end, `v` gets the value of the branch the
                             source selects - the other branch need not evaluate -, nothing else below the temp
                             counter changes, nothing is logged, the time is kept.
* `nan_negation_witness`     negated FLOAT comparisons are unsound on NaN: `unless (A > B) goto L` with NaN
                             operands jumps in the source, the emitted `if (A <= B) goto L` does not (the open
                             finding `float-comparison-negated-by-compiler-sees-nan`).

"partial": the proved fragment is integer expressions (literals, registers and locals read as `int`,
`-x` `!x` `~x`, all 19 binary operators), from stores holding integers, and the lowered stream before
register assignment (temporaries are still variables).  The destination-reuse guard `expr_uses_var` is
used exactly where expected (`hb_same` in `binop_case`); removing it from the model breaks that step.
`C02_full`, `lowerCondJump_full`, `lowerTernary_full` state the whole property; what is missing is listed there
(floats, casts, difficulty switches, ternaries nested in operands / conditions / branches, register
assignment, whole bodies with loops).

THE COMPOSITION (sections 17-20; machines in `Model/BodySem.lean`, generic part in `Lemmas/LowerShape.lean`,
`Lemmas/BodyVM.lean`, `Lemmas/BodySim.lean`, `Lemmas/RegRename.lean`):

* `lowerBody_sound`          WHOLE FLAT BODIES.  `body` is a list of source statements: declarations, `=` and the eleven
                             assign-ops, calls with complex arguments, one ternary on the right of `=`, labels, `goto`,
                             `if|unless (c) goto L [@ t]` for every integer condition, counting jumps, relative time labels
                             `+n:`, scope ends (integer fragment `StmtOK`); labels defined once, jumps to labels below the
                             compiler's label counter, `n >= 0` in `+n:`, explicit jump times not after the time label of
                             the target (`BodyWF`).  Under every intrinsic table in which the body compiles, for every fuel
                             and every pair of related initial states: if the source machine `runJS` (AstVm::_run on the
                             flat list: wait-until-statement-time, first definition of a label, `time` := jump time or label
                             time, `real_time` stamps on the log, iteration limit) terminates, the timed program-counter
                             machine `execT` on `lowerBodyJ body` (`stepJ` per statement, waiting before instructions only)
                             terminates with the same log (opcode, argument values, `real_time` of every call), the same
                             value of every variable below the temp counter, and the same `time` / `real_time` once it has
                             waited for the end time of the body (`SimRel`; `lowerBody_sound_init` spells it out from the
                             usual start).  Forward simulation; its steps are the per-statement theorems above, transported
                             to a source machine that agrees with the target only below the INITIAL temp counter
                             (`stmtSim_int`; `lowerAssignJ_sound`, `lowerCallJ_sound`, `lowerCondGoto_sound_int` carry the
                             invariant `IntStore` along), glued by `Lower.body_sim` (source pc <-> position of the fragment
                             `Lower.frag_at`, labels `Lower.label_corr`, the timed machine inside a fragment
                             `Lower.execFrag_reachTn`, shape of every fragment `Lower.shape_lowerStmtJ`).
* `lowerBody_diverges`       the other direction: a source run that can make any number of steps (it exceeds every iteration
                             limit, `runJS_fuel_of_stepsS`) is matched by a target run that runs out of every fuel.
* `assign_preserves_exec`    COMPOSITION WITH REGISTER ASSIGNMENT (C05).  When `Regs.assign` (deep explicit scan, no
                             parameters) succeeds on a lowered stream with labels and jumps, the stream it emits
                             (`Lower.scanJ_of_assign`) runs in lock step with the stream before: same fuel, same log and
                             stamps, same time and real time, same final value of every register that is mentioned or is not
                             general-purpose - provided an annotation `D` of certainly-initialised locals satisfies
                             `Lower.InitOK` (single operands; every local read is in `D`; `D` only grows by what a statement
                             writes and loses a local at its `alloc`; `D` and the live map are consistent along every jump).
                             Uses exactly `C05.Inv.inj` (two live locals never share a register) and `C05.Inv.liveGood`
                             (nothing handed out is mentioned).  `assign_preserves_exec_straight`: for streams without jumps
                             all hypotheses are one decidable check (`straightOK`: written before read in stream order).
* `lowerBody_assigned_sound` both compositions: the script AFTER register assignment logs what the source logs and leaves
                             the mentioned and the non-general-purpose registers as the source does (`InitOK` for the
                             lowered stream is the remaining hypothesis).

* `lowerSetT_sound`, `lowerCondT_sound`, `lowerBodyT_sound`, `lowerBodyT_diverges` (section 21)   THE FRAGMENT EXTENDED BY
                             TERNARIES AT ANY DEPTH: `IntT` = integer expressions in which `c ? l : r` may occur anywhere - in
                             operands of binary / unary operators, in conditions (of jumps and of other ternaries), in
                             branches, in call arguments, on the right of every assign-op.  One induction on the fuel over the
                             NINE mutually recursive functions of `Model/LowerJumps.lean` (`soundT`: `lowerSetJ`,
                             `lowerOperandJ`, `lowerBinopJ`, `lowerUnopJ`, `lowerTernaryJ`, `lowerCondJ`, `lowerTempJ`,
                             `lowerCmpJ`, `lowerLogicJ`), stated with the structural execution `execFrag`; the label facts come
                             from `Lower.shapeAt`.  Only the branches the source selects have to evaluate.  `stmtSim_intT`
                             instantiates the whole-body simulation: `lowerBodyT_sound` / `lowerBodyT_diverges` are
                             `lowerBody_sound` / `lowerBody_diverges` for `StmtOKT` (which contains `StmtOK`:
                             `stmtOKT_of_stmtOK`).

Still NOT proved: `InitOK` for the fragments the compiler emits with labels of its own (it is not derived from the lowering);
floats, casts, difficulty switches (`lowerCondJump_full`, `lowerTernary_full`, `C02_full` stay as stated; of
`lowerTernary_full` the integer part - ternaries nested at will - is now `lowerSetT_sound`).  The hypothesis `BodyWF.jumpTimes` is necessary: after `goto L @ t` with `t`
later than the time label of `L`, a compiler-generated label sets the script time back (open finding
`script-time-ahead-of-time-labels-reset-by-compiler-label`, found by this proof and confirmed on the implementation).
-/
namespace TruthModel.C02
open TruthModel TruthModel.Regs TruthModel.Lower

/-! ## 1. alternatives -/

theorem neg_one_mul (x : Int32) : (-1 : Int32) * x = -x := by
  apply Int32.toInt_inj.mp
  simp [Int32.toInt_mul, Int32.toInt_neg]

theorem neg_one_sub (x : Int32) : (-1 : Int32) - x = ~~~x := by
  rw [Int32.not_eq_neg_sub, Int32.sub_eq_add_neg, Int32.sub_eq_add_neg, Int32.add_comm]

/-- what an alternative of a unary operator computes on `x` -/
def unAltValue (F : FloatOps) (alt : UnAlt) (op : UnOp) (x : Value) : Outcome (Option Value) :=
  match alt with
  | .intrinsic => unop F op x
  | .viaConstBinOp c bop => match binop F bop c x with
    | .ok v => .ok (some v)
    | .err e => .err e
    | .panic p => .panic p

/-- **alternatives_sound** (unary, integers): whichever alternative `discover_alternatives` selects for
`(op, int)`, it computes `op x` for every `x : Int32`. -/
theorem alternatives_sound (F : FloatOps) (I : Intrinsics) (op : UnOp) (alt : UnAlt) (x : Int32)
    (h : I.unAlt op .int = some alt) : unAltValue F alt op (.int x) = unop F op (.int x) := by
  unfold Intrinsics.unAlt at h
  split at h
  · simp only [Option.some.injEq] at h; subst h; rfl
  · cases op with
    | neg =>
      simp only [] at h
      split at h
      · simp only [Option.some.injEq] at h; subst h
        simp [unAltValue, minusOne, binop, binopInt, unop, neg_one_mul]
      · simp at h
    | bnot =>
      simp only [] at h
      split at h
      · simp only [Option.some.injEq] at h; subst h
        simp [unAltValue, binop, binopInt, unop, neg_one_sub]
      · simp at h
    | _ => simp at h

/-- `a op= b` through the binop (`AssignOp::ViaBinOp`) is literally `a = a op b` -/
theorem assignAlt_viaBinOp (I : Intrinsics) (op : AssignOp) (ty : RTy) (b : BinOp)
    (h : I.assignAlt op ty = some (.viaBinOp b)) : op.binop = some b := by
  unfold Intrinsics.assignAlt at h
  cases h1 : I.assignOp op ty with
  | some _ => simp [h1] at h
  | none =>
    cases h2 : op.binop with
    | none => simp [h1, h2] at h
    | some b' =>
      cases h3 : I.binOp b' ty with
      | none => simp [h1, h2, h3] at h
      | some _ => simp [h1, h2, h3] at h; rw [h]

/-- `=` is never compiled through a binop -/
theorem assignAlt_set (I : Intrinsics) (ty : RTy) (alt : AssignAlt) (h : I.assignAlt .set ty = some alt) :
    alt = .intrinsic := by
  unfold Intrinsics.assignAlt at h
  split at h
  · simp only [Option.some.injEq] at h; exact h.symm
  · simp [AssignOp.binop] at h

/-! ## 2. the proved fragment -/

/-- integer expressions: literals, variables read as `int`, `-x` `!x` `~x`, every binary operator -/
def IntOnly : SExpr → Prop
  | .litI _ => True
  | .var v => v.readTy = .int
  | .unop op e => (op = .neg ∨ op = .not ∨ op = .bnot) ∧ IntOnly e
  | .binop _ a b => IntOnly a ∧ IntOnly b
  | _ => False

/-- every variable holds an integer -/
def IntStore (σ : Store) : Prop := ∀ x, ∃ n, σ x = .int n

/-- registers, user locals and the temporaries allocated so far: everything below the temp counter -/
def below (g : Nat) : VarName → Prop
  | .reg _ => True
  | .loc d => d < g

/-- all locals of the expression are below the temp counter -/
def exprBelow (g : Nat) : SExpr → Prop
  | .var v => below g v.name
  | .unop _ e => exprBelow g e
  | .binop _ a b => exprBelow g a ∧ exprBelow g b
  | .litI _ => True
  | .litF _ => True
  | _ => False

theorem below_mono {g g' : Nat} {x : VarName} (h : g ≤ g') : below g x → below g' x := by
  cases x with
  | reg r => simp [below]
  | loc d =>
    intro hd
    exact Nat.lt_of_lt_of_le hd h

theorem exprBelow_mono {g g' : Nat} (h : g ≤ g') : ∀ {e : SExpr}, exprBelow g e → exprBelow g' e
  | .var _, hb => below_mono h hb
  | .unop _ e, hb => exprBelow_mono h (e := e) hb
  | .binop _ _ _, hb => ⟨exprBelow_mono h hb.1, exprBelow_mono h hb.2⟩
  | .litI _, _ => trivial
  | .litF _, _ => trivial
  | .ternary _ _ _, hb => hb.elim
  | .switch _, hb => hb.elim
  | .omitted, hb => hb.elim

theorem readAs_int (F : FloatOps) (n : Int32) : readAs F (.int n) .int = .ok (.int n) := rfl

theorem intOnly_ty : ∀ {e : SExpr}, IntOnly e → e.ty = .int
  | .litI _, _ => rfl
  | .var v, h => h
  | .unop op e, h => by
    rcases h.1 with rfl | rfl | rfl
    · simp [SExpr.ty, unopTy, intOnly_ty h.2]
    · simp [SExpr.ty, unopTy]
    · simp [SExpr.ty, unopTy]
  | .binop op a b, h => by
    simp only [SExpr.ty, intOnly_ty h.1]
    cases op <;> rfl

theorem intOnly_simpleTy {e : SExpr} (h : IntOnly e) : e.simpleTy = .int := by
  cases e <;> first
    | (simp [IntOnly] at h; done)
    | (simp only [SExpr.simpleTy]; exact intOnly_ty h)

/-- a non-simple integer expression is stored whole into an `int` temporary and read back as `int` -/
theorem intOnly_temp {e : SExpr} (h : IntOnly e) : e.temp.tmpExpr = e ∧ e.temp.tmpTy = .int ∧ e.temp.readTy = .int := by
  cases e with
  | unop op b =>
    have ht := intOnly_ty h
    rcases h.1 with rfl | rfl | rfl <;> simp [SExpr.temp, castSigil, ht]
  | litI _ => simp [SExpr.temp, SExpr.ty]
  | var v => simp [SExpr.temp, SExpr.ty]; exact h
  | binop op a b => simp [SExpr.temp]; exact intOnly_ty h
  | litF _ => simp [IntOnly] at h
  | ternary _ _ _ => simp [IntOnly] at h
  | switch _ => simp [IntOnly] at h
  | omitted => simp [IntOnly] at h

theorem binopInt_int (op : BinOp) (a b : Int32) (v : Value) (h : binopInt op a b = .ok v) : ∃ n, v = .int n := by
  cases op <;> simp only [binopInt] at h
  all_goals first
    | (split at h <;> simp only [Outcome.ok.injEq, reduceCtorEq] at h <;> exact ⟨_, h.symm⟩)
    | (simp only [Outcome.ok.injEq] at h; exact ⟨_, h.symm⟩)

/-- the value of an integer expression from an integer store is an integer -/
theorem evalS_int (F : FloatOps) (diff : Nat) (σ : Store) (hs : IntStore σ) :
    ∀ {e : SExpr} {v : Value}, IntOnly e → evalS F diff σ e = .ok v → ∃ n, v = .int n
  | .litI n, v, _, h => by simp only [evalS, Outcome.ok.injEq] at h; exact ⟨n, h.symm⟩
  | .var x, v, hi, h => by
    obtain ⟨n, hn⟩ := hs x.name
    simp only [evalS] at h
    split at h
    · rename_i s hsig
      have : s = .int := by simpa [IntOnly, VarRef.readTy, hsig] using hi
      subst this
      rw [hn, readAs_int] at h
      simp only [Outcome.ok.injEq] at h; exact ⟨n, h.symm⟩
    · simp only [Outcome.ok.injEq] at h; exact ⟨n, by rw [← h, hn]⟩
  | .unop op e, v, hi, h => by
    simp only [evalS] at h
    split at h
    · rename_i x hx
      obtain ⟨n, rfl⟩ := evalS_int F diff σ hs hi.2 hx
      rcases hi.1 with rfl | rfl | rfl <;>
        simp only [castSigil, unop, Outcome.ok.injEq] at h <;> exact ⟨_, h.symm⟩
    · cases h
    · cases h
  | .binop op a b, v, hi, h => by
    simp only [evalS] at h
    split at h
    · rename_i va ha
      split at h
      · rename_i vb hb
        obtain ⟨na, rfl⟩ := evalS_int F diff σ hs hi.1 ha
        obtain ⟨nb, rfl⟩ := evalS_int F diff σ hs hi.2 hb
        exact binopInt_int op na nb v h
      · cases h
      · cases h
    · cases h
    · cases h

/-- evaluation only looks at the variables of the expression -/
theorem evalS_congr (F : FloatOps) (diff : Nat) (σ τ : Store) :
    ∀ {e : SExpr}, IntOnly e → (∀ x, e.uses x = true → σ x = τ x) → evalS F diff σ e = evalS F diff τ e
  | .litI _, _, _ => rfl
  | .var v, _, h => by
    have : σ v.name = τ v.name := h v.name (by simp [SExpr.uses])
    simp only [evalS, this]
  | .unop op e, hi, h => by
    have := evalS_congr F diff σ τ hi.2 (fun x hx => h x (by simpa [SExpr.uses] using hx))
    simp only [evalS, this]
  | .binop op a b, hi, h => by
    have h1 := evalS_congr F diff σ τ hi.1 (fun x hx => h x (by simp [SExpr.uses, hx]))
    have h2 := evalS_congr F diff σ τ hi.2 (fun x hx => h x (by simp [SExpr.uses, hx]))
    simp only [evalS, h1, h2]

theorem uses_below {g : Nat} : ∀ {e : SExpr} {x : VarName}, exprBelow g e → e.uses x = true → below g x
  | .var v, x, hb, hu => by
    simp only [SExpr.uses, beq_iff_eq] at hu; subst hu; exact hb
  | .unop _ e, x, hb, hu => uses_below (e := e) hb (by simpa [SExpr.uses] using hu)
  | .binop _ a b, x, hb, hu => by
    simp only [SExpr.uses, Bool.or_eq_true] at hu
    cases hu with
    | inl hu => exact uses_below hb.1 hu
    | inr hu => exact uses_below hb.2 hu
  | .litI _, _, _, hu => by simp [SExpr.uses] at hu
  | .litF _, _, _, hu => by simp [SExpr.uses] at hu
  | .ternary _ _ _, _, hb, _ => hb.elim
  | .switch _, _, hb, _ => hb.elim
  | .omitted, _, hb, _ => hb.elim

/-! ## 3. execution lemmas -/

theorem exec_append (F : FloatOps) (diff : Nat) : ∀ (a b : List LStmt) (m : Machine),
    exec F diff m (a ++ b) = match exec F diff m a with
      | .ok m' => exec F diff m' b
      | .err c => .err c
      | .panic p => .panic p
  | [], b, m => by simp [exec]
  | s :: a, b, m => by
    simp only [List.cons_append, exec]
    cases execStmt F diff m s with
    | ok m' => exact exec_append F diff a b m'
    | err c => rfl
    | panic p => rfl

theorem exec_append_ok {F : FloatOps} {diff : Nat} {a b : List LStmt} {m m1 m2 : Machine}
    (h1 : exec F diff m a = .ok m1) (h2 : exec F diff m1 b = .ok m2) : exec F diff m (a ++ b) = .ok m2 := by
  rw [exec_append, h1]; exact h2

theorem exec_alloc (F : FloatOps) (diff : Nat) (m : Machine) (d : Def) (ty : RTy) (c : List LStmt) :
    exec F diff m (.alloc d ty :: c) = exec F diff m c := rfl

theorem exec_frees (F : FloatOps) (diff : Nat) (m : Machine) (o : Option Def) :
    exec F diff m (freeOf o) = .ok m := by
  cases o <;> rfl

/-- an argument that reads an integer -/
inductive IntAtom : Arg → Prop
  | imm (n : Int32) : IntAtom (.imm (.int n))
  | raw (r : Reg) : IntAtom (.raw r .int)
  | loc (d : Def) : IntAtom (.loc d .int)

def atomValue (σ : Store) : Arg → Value
  | .imm v => v
  | .raw r _ => σ (.reg r)
  | .loc d _ => σ (.loc d)
  | _ => .int 0

theorem readArg_intAtom (F : FloatOps) (diff : Nat) {σ : Store} (hs : IntStore σ) {a : Arg} (ha : IntAtom a) :
    readArg F diff σ a = .ok (atomValue σ a) := by
  cases ha with
  | imm n => rfl
  | raw r =>
    obtain ⟨n, hn⟩ := hs (.reg r)
    simp [readArg, selectArg, atomValue, hn, readAs_int]
  | loc d =>
    obtain ⟨n, hn⟩ := hs (.loc d)
    simp [readArg, selectArg, atomValue, hn, readAs_int]

theorem atomValue_congr {σ τ : Store} {a : Arg} (h : ∀ y, argVar a = some y → σ y = τ y) :
    atomValue σ a = atomValue τ a := by
  cases a <;> simp [atomValue, argVar] at * <;> exact h

theorem toArg_intAtom (v : VarRef) : IntAtom (v.toArg .int) := by
  cases hv : v.name <;> simp [VarRef.toArg, hv] <;> constructor

theorem argVar_toArg (v : VarRef) (ty : RTy) : argVar (v.toArg ty) = some v.name := by
  cases hv : v.name <;> simp [VarRef.toArg, hv, argVar]

theorem atomValue_toArg (σ : Store) (v : VarRef) (ty : RTy) : atomValue σ (v.toArg ty) = σ v.name := by
  cases hv : v.name <;> simp [VarRef.toArg, hv, atomValue]

/-- a simple integer expression is an integer atom with the same value, naming only its own variable -/
theorem simple_spec (F : FloatOps) (diff : Nat) {e : SExpr} {a : Arg} (hi : IntOnly e) (h : e.simple? = some a) :
    IntAtom a ∧ (∀ σ, IntStore σ → evalS F diff σ e = .ok (atomValue σ a)) ∧
      (∀ y, argVar a = some y → e.uses y = true) := by
  cases e with
  | litI n =>
    simp only [SExpr.simple?, Option.some.injEq] at h; subst h
    exact ⟨.imm n, fun _ _ => rfl, fun y hy => by simp [argVar] at hy⟩
  | var v =>
    simp only [SExpr.simple?, Option.some.injEq] at h; subst h
    have hr : v.readTy = .int := hi
    refine ⟨by rw [VarRef.lowered, hr]; exact toArg_intAtom v, ?_, ?_⟩
    · intro σ hs
      obtain ⟨n, hn⟩ := hs v.name
      simp only [evalS, VarRef.lowered, atomValue_toArg]
      cases hsig : v.sigil with
      | none => rfl
      | some s =>
        have : s = .int := by simpa [VarRef.readTy, hsig] using hr
        subst this
        simp [hn, readAs_int]
    · intro y hy
      rw [VarRef.lowered, argVar_toArg] at hy
      simp only [Option.some.injEq] at hy; subst hy
      simp [SExpr.uses]
  | unop op b => simp [SExpr.simple?] at h
  | binop op x y => simp [SExpr.simple?] at h
  | litF _ => simp [IntOnly] at hi
  | ternary _ _ _ => simp [IntOnly] at hi
  | switch _ => simp [IntOnly] at hi
  | omitted => simp [IntOnly] at hi

theorem upd_same (σ : Store) (x : VarName) (v : Value) : upd σ x v x = v := by simp [upd]
theorem upd_other (σ : Store) {x y : VarName} (v : Value) (h : y ≠ x) : upd σ x v y = σ y := by simp [upd, h]

theorem intStore_upd {σ : Store} (hs : IntStore σ) (x : VarName) (n : Int32) : IntStore (upd σ x (.int n)) := by
  intro y
  by_cases h : y = x
  · subst h; exact ⟨n, upd_same σ y _⟩
  · rw [upd_other σ _ h]; exact hs y

/-! ## 4. the primitives -/

theorem argVar_lowered (v : VarRef) : argVar v.lowered = some v.name := argVar_toArg v _

/-- `v = <atom>` -/
theorem exec_setAtom (F : FloatOps) (I : Intrinsics) (diff mask : Nat) (v : VarRef) (a : Arg) (c : List LStmt)
    (m : Machine) (hm : maskOn mask diff = true) (hs : IntStore m.store) (ha : IntAtom a)
    (h : lowerAssignAtom I mask v .set a = .ok c) :
    exec F diff m c = .ok { m with store := upd m.store v.name (atomValue m.store a) } := by
  unfold lowerAssignAtom at h
  cases halt : I.assignAlt .set v.readTy with
  | none => simp [halt] at h
  | some alt =>
    have := assignAlt_set I _ alt halt
    subst this
    simp only [halt, Outcome.ok.injEq] at h
    subst h
    simp [exec, execStmt, execInstr, hm, argVar_lowered, readArg_intAtom F diff hs ha]

/-- `v = <atom> op <atom>` -/
theorem exec_binopAtom (F : FloatOps) (I : Intrinsics) (diff mask : Nat) (v : VarRef) (op : BinOp) (ty : RTy)
    (a b : Arg) (c : List LStmt) (m : Machine) (r : Value)
    (hm : maskOn mask diff = true) (hs : IntStore m.store) (ha : IntAtom a) (hb : IntAtom b)
    (hr : binop F op (atomValue m.store a) (atomValue m.store b) = .ok r)
    (h : lowerBinopAtom I mask v op ty a b = .ok c) :
    exec F diff m c = .ok { m with store := upd m.store v.name r } := by
  unfold lowerBinopAtom at h
  cases hop : I.binOp op ty with
  | none => simp [hop] at h
  | some _ =>
    simp only [hop, Outcome.ok.injEq] at h
    subst h
    simp [exec, execStmt, execInstr, hm, argVar_lowered, readArg_intAtom F diff hs ha,
      readArg_intAtom F diff hs hb, hr]

/-- `v = op <atom>`, natively or through the fallback -/
theorem exec_unopAtom (F : FloatOps) (I : Intrinsics) (diff mask : Nat) (v : VarRef) (op : UnOp)
    (a : Arg) (c : List LStmt) (m : Machine) (x : Int32) (w : Value)
    (hm : maskOn mask diff = true) (hs : IntStore m.store) (ha : IntAtom a)
    (hx : atomValue m.store a = .int x) (hw : unop F op (.int x) = .ok (some w))
    (h : lowerUnopAtom I mask v op .int a = .ok c) :
    exec F diff m c = .ok { m with store := upd m.store v.name w } := by
  unfold lowerUnopAtom at h
  cases halt : I.unAlt op .int with
  | none => simp [halt] at h
  | some alt =>
    have hsound := alternatives_sound F I op alt x halt
    cases alt with
    | intrinsic =>
      simp only [halt, Outcome.ok.injEq] at h
      subst h
      simp [exec, execStmt, execInstr, hm, argVar_lowered, readArg_intAtom F diff hs ha, hx, hw]
    | viaConstBinOp k bop =>
      simp only [halt, Outcome.ok.injEq] at h
      subst h
      simp only [unAltValue, hw] at hsound
      have hk : readArg F diff m.store (.imm k) = .ok k := rfl
      cases hb : binop F bop k (.int x) with
      | ok r =>
        rw [hb] at hsound
        simp only [Outcome.ok.injEq, Option.some.injEq] at hsound
        subst hsound
        simp [exec, execStmt, execInstr, hm, argVar_lowered, readArg_intAtom F diff hs ha, hx, hk, hb]
      | err e => rw [hb] at hsound; cases hsound
      | panic q => rw [hb] at hsound; cases hsound

/-! ## 5. `v = e` -/

/-- what the code emitted for `v = e` guarantees -/
structure SetSpec (F : FloatOps) (diff g : Nat) (v : VarRef) (m : Machine) (code : List LStmt) (g' : Nat)
    (val : Value) : Prop where
  mono : g ≤ g'
  run : ∃ m', exec F diff m code = .ok m' ∧ m'.store v.name = val ∧
    (∀ x, x ≠ v.name → below g x → m'.store x = m.store x) ∧
    m'.log = m.log ∧ m'.time = m.time ∧ IntStore m'.store

/-- what the lowering of one operand guarantees -/
structure OSpec (F : FloatOps) (diff g : Nat) (v : VarRef) (guard : Bool) (e : SExpr) (m : Machine)
    (O : Operand) (val : Value) : Prop where
  mono : g ≤ O.gen
  atom : IntAtom O.atom
  run : ∃ m', exec F diff m O.code = .ok m' ∧ atomValue m'.store O.atom = val ∧
    (∀ x, below g x → (x ≠ v.name ∨ guard = false) → m'.store x = m.store x) ∧
    m'.log = m.log ∧ m'.time = m.time ∧ IntStore m'.store
  atomBelow : ∀ y, argVar O.atom = some y → below O.gen y
  atomV : argVar O.atom = some v.name → (e.simple? = none ∧ O.free = none) ∨ e.uses v.name = true
  freeAtom : ∀ d, O.free = some d → argVar O.atom = some (.loc g)
  tyInt : O.ty = .int

/-- the hypotheses under which an assignment is lowered -/
structure Ctx (F : FloatOps) (diff g mask : Nat) (v : VarRef) (e : SExpr) (m : Machine) (val : Value) : Prop where
  maskOn : maskOn mask diff = true
  vInt : v.readTy = .int
  vBelow : below g v.name
  intOnly : IntOnly e
  exprBelow : exprBelow g e
  intStore : IntStore m.store
  eval : evalS F diff m.store e = .ok val

theorem loc_not_below (g : Nat) : ¬ below g (.loc g) := by
  intro h; exact Nat.lt_irrefl g h

theorem ne_of_below {g : Nat} {x : VarName} (h : below g x) : x ≠ .loc g := by
  intro e; subst e; exact loc_not_below g h

theorem tmpVar_readTy (d : Def) (ty : RTy) : (tmpVar d ty).readTy = ty := rfl
theorem tmpVar_name (d : Def) (ty : RTy) : (tmpVar d ty).name = .loc d := rfl

/-- the statement proved by induction on the fuel, for the four mutually recursive functions -/
def SoundAt (F : FloatOps) (I : Intrinsics) (db ab diff fuel : Nat) : Prop :=
  (∀ g mask v e code g' m val, Ctx F diff g mask v e m val →
      lowerSet I db ab fuel g mask v e = .ok (code, g') → SetSpec F diff g v m code g' val) ∧
  (∀ g mask v guard e O m val, Ctx F diff g mask v e m val →
      lowerOperand I db ab fuel g mask v .int guard e = .ok O → OSpec F diff g v guard e m O val) ∧
  (∀ g mask v op a b code g' m val, Ctx F diff g mask v (.binop op a b) m val →
      lowerBinop I db ab fuel g mask v op a b = .ok (code, g') → SetSpec F diff g v m code g' val) ∧
  (∀ g mask v op b code g' m val, Ctx F diff g mask v (.unop op b) m val →
      lowerUnop I db ab fuel g mask v op b = .ok (code, g') → SetSpec F diff g v m code g' val)

theorem set_case {F : FloatOps} {I : Intrinsics} {db ab diff fuel : Nat} (ih : SoundAt F I db ab diff fuel)
    {g mask : Nat} {v : VarRef} {e : SExpr} {code : List LStmt} {g' : Nat} {m : Machine} {val : Value}
    (cx : Ctx F diff g mask v e m val) (h : lowerSet I db ab (fuel + 1) g mask v e = .ok (code, g')) :
    SetSpec F diff g v m code g' val := by
  simp only [lowerSet] at h
  cases hsim : e.simple? with
  | some a =>
    simp only [hsim] at h
    cases hat : lowerAssignAtom I mask v .set a with
    | ok c =>
      simp only [hat, Outcome.ok.injEq, Prod.mk.injEq] at h
      obtain ⟨rfl, rfl⟩ := h
      obtain ⟨hatom, hval, _⟩ := simple_spec F diff cx.intOnly hsim
      have hv := hval m.store cx.intStore
      rw [cx.eval] at hv
      simp only [Outcome.ok.injEq] at hv
      obtain ⟨n, hn⟩ := evalS_int F diff m.store cx.intStore cx.intOnly cx.eval
      refine ⟨Nat.le_refl _, _, exec_setAtom F I diff mask v a c m cx.maskOn cx.intStore hatom hat, ?_, ?_, rfl, rfl, ?_⟩
      · simp [upd_same, hv]
      · intro x hx _; exact upd_other _ _ hx
      · rw [← hv, hn]; exact intStore_upd cx.intStore _ _
    | err x => simp [hat] at h
    | panic x => simp [hat] at h
  | none =>
    simp only [hsim] at h
    obtain ⟨ht1, ht2, ht3⟩ := intOnly_temp cx.intOnly
    simp only [ht1, ht2, ht3, ne_eq, not_true_eq_false, ite_false] at h
    cases e with
    | binop op a b => exact ih.2.2.1 g mask v op a b code g' m val cx h
    | unop op b => exact ih.2.2.2 g mask v op b code g' m val cx h
    | litI _ => simp [SExpr.simple?] at hsim
    | var _ => simp [SExpr.simple?] at hsim
    | litF _ => exact absurd cx.intOnly (by simp [IntOnly])
    | ternary _ _ _ => exact absurd cx.intOnly (by simp [IntOnly])
    | switch _ => exact absurd cx.intOnly (by simp [IntOnly])
    | omitted => exact absurd cx.intOnly (by simp [IntOnly])

theorem operand_case {F : FloatOps} {I : Intrinsics} {db ab diff fuel : Nat} (ih : SoundAt F I db ab diff fuel)
    {g mask : Nat} {v : VarRef} {guard : Bool} {e : SExpr} {O : Operand} {m : Machine} {val : Value}
    (cx : Ctx F diff g mask v e m val)
    (h : lowerOperand I db ab (fuel + 1) g mask v .int guard e = .ok O) : OSpec F diff g v guard e m O val := by
  simp only [lowerOperand] at h
  cases hsim : e.simple? with
  | some a =>
    simp only [hsim, Outcome.ok.injEq] at h
    subst h
    obtain ⟨hatom, hval, huse⟩ := simple_spec F diff cx.intOnly hsim
    have hv := hval m.store cx.intStore
    rw [cx.eval] at hv
    simp only [Outcome.ok.injEq] at hv
    refine ⟨Nat.le_refl _, hatom, ⟨m, rfl, hv.symm, fun _ _ _ => rfl, rfl, rfl, cx.intStore⟩, ?_, ?_, ?_, intOnly_simpleTy cx.intOnly⟩
    · intro y hy; exact uses_below cx.exprBelow (huse y hy)
    · intro hy; exact Or.inr (huse _ hy)
    · intro d hd; cases hd
  | none =>
    simp only [hsim] at h
    obtain ⟨ht1, ht2, ht3⟩ := intOnly_temp cx.intOnly
    simp only [ht1, ht2, ht3, true_and] at h
    cases guard with
    | true =>
      simp only [if_true] at h
      cases hl : lowerSet I db ab fuel g mask v e with
      | ok r =>
        obtain ⟨c, g1⟩ := r
        simp only [hl, Outcome.ok.injEq] at h
        subst h
        obtain ⟨hmono, m', hex, hval, hframe, hlog, htime, hint⟩ := ih.1 g mask v e c g1 m val cx hl
        refine ⟨hmono, toArg_intAtom v, ⟨m', hex, by rw [atomValue_toArg]; exact hval, ?_, hlog, htime, hint⟩, ?_, ?_, ?_, rfl⟩
        · intro x hx hor
          cases hor with
          | inl hne => exact hframe x hne hx
          | inr hf => cases hf
        · intro y hy
          rw [argVar_toArg] at hy
          simp only [Option.some.injEq] at hy; subst hy
          exact below_mono hmono cx.vBelow
        · intro _; exact Or.inl ⟨hsim, rfl⟩
        · intro d hd; cases hd
      | err x => simp [hl] at h
      | panic x => simp [hl] at h
    | false =>
      simp only [Bool.false_eq_true, if_false] at h
      cases hl : lowerSet I db ab fuel (g + 1) mask (tmpVar g .int) e with
      | ok r =>
        obtain ⟨c, g1⟩ := r
        simp only [hl, Outcome.ok.injEq] at h
        subst h
        have cx' : Ctx F diff (g + 1) mask (tmpVar g .int) e m val :=
          ⟨cx.maskOn, rfl, Nat.lt_succ_self g, cx.intOnly, exprBelow_mono (Nat.le_succ g) cx.exprBelow,
            cx.intStore, cx.eval⟩
        obtain ⟨hmono, m', hex, hval, hframe, hlog, htime, hint⟩ :=
          ih.1 (g + 1) mask (tmpVar g .int) e c g1 m val cx' hl
        refine ⟨Nat.le_trans (Nat.le_succ g) hmono, .loc g, ⟨m', by rw [exec_alloc]; exact hex, hval, ?_, hlog, htime, hint⟩, ?_, ?_, ?_, rfl⟩
        · intro x hx _
          exact hframe x (ne_of_below hx) (below_mono (Nat.le_succ g) hx)
        · intro y hy
          simp only [argVar, Option.some.injEq] at hy; subst hy
          exact Nat.lt_of_lt_of_le (Nat.lt_succ_self g) hmono
        · intro hy
          simp only [argVar, Option.some.injEq] at hy
          exact absurd (hy ▸ cx.vBelow) (loc_not_below g)
        · intro d _; rfl
      | err x => simp [hl] at h
      | panic x => simp [hl] at h

theorem binopTy_int (op : BinOp) : binopTy op .int = .int := by cases op <;> rfl

theorem evalS_binop_inv {F : FloatOps} {diff : Nat} {σ : Store} {op : BinOp} {a b : SExpr} {val : Value}
    (h : evalS F diff σ (.binop op a b) = .ok val) :
    ∃ va vb, evalS F diff σ a = .ok va ∧ evalS F diff σ b = .ok vb ∧ binop F op va vb = .ok val := by
  simp only [evalS] at h
  cases ha : evalS F diff σ a with
  | ok va =>
    cases hb : evalS F diff σ b with
    | ok vb => simp only [ha, hb] at h; exact ⟨va, vb, rfl, rfl, h⟩
    | err c => simp [ha, hb] at h
    | panic p => simp [ha, hb] at h
  | err c => simp [ha] at h
  | panic p => simp [ha] at h

theorem binop_case {F : FloatOps} {I : Intrinsics} {db ab diff fuel : Nat} (ih : SoundAt F I db ab diff fuel)
    {g mask : Nat} {v : VarRef} {op : BinOp} {a b : SExpr} {code : List LStmt} {g' : Nat} {m : Machine} {val : Value}
    (cx : Ctx F diff g mask v (.binop op a b) m val)
    (h : lowerBinop I db ab (fuel + 1) g mask v op a b = .ok (code, g')) :
    SetSpec F diff g v m code g' val := by
  obtain ⟨hia, hib⟩ : IntOnly a ∧ IntOnly b := cx.intOnly
  obtain ⟨hba, hbb⟩ : exprBelow g a ∧ exprBelow g b := cx.exprBelow
  obtain ⟨va, vb, hea, heb, hop⟩ := evalS_binop_inv cx.eval
  simp only [lowerBinop, intOnly_ty hia, binopTy_int] at h
  cases hA : lowerOperand I db ab fuel g mask v .int (!b.uses v.name) a with
  | err x => simp [hA] at h
  | panic x => simp [hA] at h
  | ok A =>
    simp only [hA] at h
    have cxa : Ctx F diff g mask v a m va := ⟨cx.maskOn, cx.vInt, cx.vBelow, hia, hba, cx.intStore, hea⟩
    have SA := ih.2.1 g mask v (!b.uses v.name) a A m va cxa hA
    obtain ⟨m1, hex1, hval1, hframe1, hlog1, htime1, hint1⟩ := SA.run
    -- the value of `b` is not disturbed by the code of `a`: this is where the guard is needed
    have hb_same : evalS F diff m1.store b = .ok vb := by
      rw [← heb]
      apply evalS_congr F diff _ _ hib
      intro x hx
      apply hframe1 x (uses_below hbb hx)
      by_cases hxv : x = v.name
      · subst hxv; right; simp [hx]
      · left; exact hxv
    generalize hau : operandUses a v.name A.free = aUsesV at h
    cases hB : lowerOperand I db ab fuel A.gen mask v .int (!aUsesV) b with
    | err x => simp [hB] at h
    | panic x => simp [hB] at h
    | ok B =>
      simp only [hB] at h
      have cxb : Ctx F diff A.gen mask v b m1 vb :=
        ⟨cx.maskOn, cx.vInt, below_mono SA.mono cx.vBelow, hib, exprBelow_mono SA.mono hbb, hint1, hb_same⟩
      have SB := ih.2.1 A.gen mask v (!aUsesV) b B m1 vb cxb hB
      obtain ⟨m2, hex2, hval2, hframe2, hlog2, htime2, hint2⟩ := SB.run
      -- the atom of `a` still has its value after the code of `b`
      have hA_stable : atomValue m2.store A.atom = va := by
        rw [← hval1]
        apply atomValue_congr
        intro y hy
        apply hframe2 y (SA.atomBelow y hy)
        by_cases hyv : y = v.name
        · right
          subst hyv
          have : aUsesV = true := by
            rw [← hau]
            unfold operandUses
            rcases SA.atomV hy with ⟨h1, h2⟩ | h1
            · simp [h1, h2]
            · cases hs : a.simple? with
              | some _ => simpa using h1
              | none =>
                cases hf : A.free with
                | none => rfl
                | some d =>
                  have := SA.freeAtom d hf
                  rw [hy] at this
                  simp only [Option.some.injEq] at this
                  exact absurd (this ▸ cx.vBelow) (loc_not_below g)
          simp [this]
        · left; exact hyv
      cases hC : lowerBinopAtom I mask v op A.ty A.atom B.atom with
      | err x => simp [hC] at h
      | panic x => simp [hC] at h
      | ok c =>
        simp only [hC, Outcome.ok.injEq, Prod.mk.injEq] at h
        obtain ⟨rfl, rfl⟩ := h
        have hr : binop F op (atomValue m2.store A.atom) (atomValue m2.store B.atom) = .ok val := by
          rw [hA_stable, hval2]; exact hop
        have hex3 := exec_binopAtom F I diff mask v op A.ty A.atom B.atom c m2 val cx.maskOn hint2 SA.atom SB.atom hr hC
        obtain ⟨n, hn⟩ := evalS_int F diff m.store cx.intStore cx.intOnly cx.eval
        refine ⟨Nat.le_trans SA.mono SB.mono, ⟨{ m2 with store := upd m2.store v.name val }, ?_, ?_, ?_, ?_, ?_, ?_⟩⟩
        · exact exec_append_ok hex1 (exec_append_ok hex2 (exec_append_ok hex3
            (exec_append_ok (exec_frees F diff _ B.free) (exec_frees F diff _ A.free))))
        · exact upd_same _ _ _
        · intro x hx hxb
          show upd m2.store v.name val x = m.store x
          rw [upd_other _ _ hx, hframe2 x (below_mono SA.mono hxb) (Or.inl hx), hframe1 x hxb (Or.inl hx)]
        · show m2.log = m.log
          rw [hlog2, hlog1]
        · show m2.time = m.time
          rw [htime2, htime1]
        · show IntStore (upd m2.store v.name val)
          rw [hn]; exact intStore_upd hint2 _ _

theorem evalS_unop_inv {F : FloatOps} {diff : Nat} {σ : Store} {op : UnOp} {b : SExpr} {val : Value}
    (hop : op = .neg ∨ op = .not ∨ op = .bnot) (h : evalS F diff σ (.unop op b) = .ok val) :
    ∃ x, evalS F diff σ b = .ok x ∧ unop F op x = .ok (some val) := by
  simp only [evalS] at h
  cases hb : evalS F diff σ b with
  | ok x =>
    refine ⟨x, rfl, ?_⟩
    simp only [hb] at h
    rcases hop with rfl | rfl | rfl <;> simp only [castSigil] at h <;>
      (cases hu : unop F _ x with
        | ok o => cases o with
          | some w => simp only [hu, Outcome.ok.injEq] at h; rw [h]
          | none => simp [hu] at h
        | err c => simp [hu] at h
        | panic p => simp [hu] at h)
  | err c => simp [hb] at h
  | panic p => simp [hb] at h

theorem unop_case {F : FloatOps} {I : Intrinsics} {db ab diff fuel : Nat} (ih : SoundAt F I db ab diff fuel)
    {g mask : Nat} {v : VarRef} {op : UnOp} {b : SExpr} {code : List LStmt} {g' : Nat} {m : Machine} {val : Value}
    (cx : Ctx F diff g mask v (.unop op b) m val)
    (h : lowerUnop I db ab (fuel + 1) g mask v op b = .ok (code, g')) :
    SetSpec F diff g v m code g' val := by
  obtain ⟨hopk, hib⟩ : (op = .neg ∨ op = .not ∨ op = .bnot) ∧ IntOnly b := cx.intOnly
  have hbb : exprBelow g b := cx.exprBelow
  obtain ⟨x, heb, hu⟩ := evalS_unop_inv hopk cx.eval
  obtain ⟨nx, rfl⟩ := evalS_int F diff m.store cx.intStore hib heb
  have hty : unopTy op b.ty = .int := by
    rw [intOnly_ty hib]; rcases hopk with rfl | rfl | rfl <;> rfl
  simp only [lowerUnop, hty] at h
  cases hB : lowerOperand I db ab fuel g mask v .int true b with
  | err e => simp [hB] at h
  | panic e => simp [hB] at h
  | ok B =>
    simp only [hB] at h
    have cxb : Ctx F diff g mask v b m (.int nx) := ⟨cx.maskOn, cx.vInt, cx.vBelow, hib, hbb, cx.intStore, heb⟩
    have SB := ih.2.1 g mask v true b B m (.int nx) cxb hB
    obtain ⟨m1, hex1, hval1, hframe1, hlog1, htime1, hint1⟩ := SB.run
    rw [SB.tyInt] at h
    cases hC : lowerUnopAtom I mask v op .int B.atom with
    | err e => simp [hC] at h
    | panic e => simp [hC] at h
    | ok c =>
      simp only [hC, Outcome.ok.injEq, Prod.mk.injEq] at h
      obtain ⟨rfl, rfl⟩ := h
      have hex2 := exec_unopAtom F I diff mask v op B.atom c m1 nx val cx.maskOn hint1 SB.atom hval1 hu hC
      obtain ⟨n, hn⟩ := evalS_int F diff m.store cx.intStore cx.intOnly cx.eval
      refine ⟨SB.mono, ⟨{ m1 with store := upd m1.store v.name val }, ?_, ?_, ?_, ?_, ?_, ?_⟩⟩
      · exact exec_append_ok hex1 (exec_append_ok hex2 (exec_frees F diff _ B.free))
      · exact upd_same _ _ _
      · intro y hy hyb
        show upd m1.store v.name val y = m.store y
        rw [upd_other _ _ hy, hframe1 y hyb (Or.inl hy)]
      · exact hlog1
      · exact htime1
      · show IntStore (upd m1.store v.name val)
        rw [hn]; exact intStore_upd hint1 _ _

/-- all four functions are sound at every fuel -/
theorem soundAt (F : FloatOps) (I : Intrinsics) (db ab diff : Nat) : ∀ fuel, SoundAt F I db ab diff fuel
  | 0 => by
    refine ⟨?_, ?_, ?_, ?_⟩ <;> intros <;> simp_all [lowerSet, lowerOperand, lowerBinop, lowerUnop]
  | fuel + 1 => by
    have ih := soundAt F I db ab diff fuel
    exact ⟨fun _ _ _ _ _ _ _ _ cx h => set_case ih cx h, fun _ _ _ _ _ _ _ _ cx h => operand_case ih cx h,
      fun _ _ _ _ _ _ _ _ _ _ cx h => binop_case ih cx h, fun _ _ _ _ _ _ _ _ _ cx h => unop_case ih cx h⟩

/-- **lowerSet_sound**: `v = e` for an integer expression `e`, under every intrinsic table and fuel:
the emitted code runs to completion, leaves `eval e` in `v`, changes no other variable below the temp
counter, logs nothing and keeps the time. -/
theorem lowerSet_sound (F : FloatOps) (I : Intrinsics) (db ab diff fuel g mask : Nat) (v : VarRef) (e : SExpr)
    (code : List LStmt) (g' : Nat) (m : Machine) (val : Value) (cx : Ctx F diff g mask v e m val)
    (h : lowerSet I db ab fuel g mask v e = .ok (code, g')) : SetSpec F diff g v m code g' val :=
  (soundAt F I db ab diff fuel).1 g mask v e code g' m val cx h

/-! ## 6. assignment statements -/

/-- `v op= <atom>`, natively or as `v = v op <atom>` -/
theorem exec_opAtom (F : FloatOps) (I : Intrinsics) (diff mask : Nat) (v : VarRef) (op : AssignOp) (b : BinOp)
    (a : Arg) (c : List LStmt) (m : Machine) (r : Value)
    (hb : op.binop = some b) (hm : maskOn mask diff = true) (hs : IntStore m.store) (hv : v.readTy = .int)
    (ha : IntAtom a) (hr : binop F b (m.store v.name) (atomValue m.store a) = .ok r)
    (h : lowerAssignAtom I mask v op a = .ok c) :
    exec F diff m c = .ok { m with store := upd m.store v.name r } := by
  have hvl : IntAtom v.lowered := by rw [VarRef.lowered, hv]; exact toArg_intAtom v
  have hrv : readArg F diff m.store v.lowered = .ok (m.store v.name) := by
    rw [readArg_intAtom F diff hs hvl, VarRef.lowered, atomValue_toArg]
  unfold lowerAssignAtom at h
  cases halt : I.assignAlt op v.readTy with
  | none => simp [halt] at h
  | some alt =>
    cases alt with
    | intrinsic =>
      simp only [halt, Outcome.ok.injEq] at h
      subst h
      cases op <;> simp only [AssignOp.binop, Option.some.injEq, reduceCtorEq] at hb <;> subst hb <;>
        simp [exec, execStmt, execInstr, hm, argVar_lowered, AssignOp.binop, hrv, readArg_intAtom F diff hs ha, hr]
    | viaBinOp b' =>
      have := assignAlt_viaBinOp I op _ b' halt
      rw [hb] at this
      simp only [Option.some.injEq] at this
      subst this
      simp only [halt, Outcome.ok.injEq] at h
      subst h
      simp [exec, execStmt, execInstr, hm, argVar_lowered, hrv, readArg_intAtom F diff hs ha, hr]

theorem evalS_var (F : FloatOps) (diff : Nat) {σ : Store} (hs : IntStore σ) {v : VarRef} (hv : v.readTy = .int) :
    evalS F diff σ (.var v) = .ok (σ v.name) := by
  have h := (simple_spec F diff (e := .var v) (a := v.lowered) hv rfl).2.1 σ hs
  rw [h, VarRef.lowered, atomValue_toArg]

/-- **lowerAssign_sound_partial**: `v = e` and `v op= e` for integer `e` and an integer destination below
the temp counter: whenever the source statement runs (no division by zero), the emitted code runs, the
destination and every other variable below the temp counter end up as after the source statement, nothing
is logged and the time is kept. -/
theorem lowerAssign_sound_partial (F : FloatOps) (I : Intrinsics) (db ab diff g mask : Nat) (v : VarRef)
    (op : AssignOp) (e : SExpr) (code : List LStmt) (g' : Nat) (m msrc : Machine)
    (hm : maskOn mask diff = true) (hv : v.readTy = .int) (hvb : below g v.name) (hi : IntOnly e)
    (hb : exprBelow g e) (hs : IntStore m.store)
    (hsrc : runAssign F diff m v op e = .ok msrc)
    (h : lowerAssign I db ab g mask v op e = .ok (code, g')) :
    ∃ m', exec F diff m code = .ok m' ∧ (∀ x, below g x → m'.store x = msrc.store x) ∧
      m'.log = msrc.log ∧ m'.time = msrc.time := by
  unfold runAssign at hsrc
  cases hbop : op.binop with
  | none =>
    -- plain assignment
    have hop : op = .set := by cases op <;> simp [AssignOp.binop] at hbop <;> rfl
    subst hop
    simp only [hbop] at hsrc
    cases hev : evalS F diff m.store e with
    | ok val =>
      simp only [hev, Outcome.ok.injEq] at hsrc
      subst hsrc
      simp only [lowerAssign] at h
      obtain ⟨_, m', hex, hval, hframe, hlog, htime, _⟩ :=
        lowerSet_sound F I db ab diff _ g mask v e code g' m val ⟨hm, hv, hvb, hi, hb, hs, hev⟩ h
      refine ⟨m', hex, ?_, hlog, htime⟩
      intro x hx
      by_cases hxv : x = v.name
      · subst hxv; simp [upd_same, hval]
      · simp [upd_other _ _ hxv, hframe x hxv hx]
    | err c => simp [hev] at hsrc
    | panic p => simp [hev] at hsrc
  | some b =>
    have hne : op ≠ .set := by intro hh; subst hh; simp [AssignOp.binop] at hbop
    simp only [hbop, evalS_var F diff hs hv] at hsrc
    cases hev : evalS F diff m.store e with
    | err c => simp [hev] at hsrc
    | panic p => simp [hev] at hsrc
    | ok vb =>
      simp only [hev] at hsrc
      cases hr : binop F b (m.store v.name) vb with
      | err c => simp [hr] at hsrc
      | panic p => simp [hr] at hsrc
      | ok r =>
        simp only [hr, Outcome.ok.injEq] at hsrc
        subst hsrc
        have hl : lowerAssign I db ab g mask v op e =
            (match e.simple? with
            | some a => match lowerAssignAtom I mask v op a with
              | .ok c => .ok (c, g)
              | .err x => .err x
              | .panic x => .panic x
            | none =>
              match lowerSet I db ab (3 * e.size + 3) (g + 1) mask (tmpVar g e.temp.tmpTy) e.temp.tmpExpr with
              | .ok (c1, g1) =>
                match lowerAssignAtom I mask v op (.loc g e.temp.readTy) with
                | .ok c2 => .ok (.alloc g e.temp.tmpTy :: c1 ++ c2 ++ [.free g], g1)
                | .err x => .err x
                | .panic x => .panic x
              | .err x => .err x
              | .panic x => .panic x) := by
          cases op <;> first | exact absurd rfl hne | rfl
        rw [hl] at h
        cases hsim : e.simple? with
        | some a =>
          simp only [hsim] at h
          cases hat : lowerAssignAtom I mask v op a with
          | err x => simp [hat] at h
          | panic x => simp [hat] at h
          | ok c =>
            simp only [hat, Outcome.ok.injEq, Prod.mk.injEq] at h
            obtain ⟨rfl, rfl⟩ := h
            obtain ⟨hatom, hval, _⟩ := simple_spec F diff hi hsim
            have hva := hval m.store hs
            rw [hev] at hva
            simp only [Outcome.ok.injEq] at hva
            rw [hva] at hr
            exact ⟨_, exec_opAtom F I diff mask v op b a c m r hbop hm hs hv hatom hr hat, fun _ _ => rfl, rfl, rfl⟩
        | none =>
          simp only [hsim] at h
          obtain ⟨ht1, ht2, ht3⟩ := intOnly_temp hi
          simp only [ht1, ht2, ht3] at h
          cases hl1 : lowerSet I db ab (3 * e.size + 3) (g + 1) mask (tmpVar g .int) e with
          | err x => simp [hl1] at h
          | panic x => simp [hl1] at h
          | ok p =>
            obtain ⟨c1, g1⟩ := p
            simp only [hl1] at h
            cases hat : lowerAssignAtom I mask v op (.loc g .int) with
            | err x => simp [hat] at h
            | panic x => simp [hat] at h
            | ok c2 =>
              simp only [hat, Outcome.ok.injEq, Prod.mk.injEq] at h
              obtain ⟨rfl, rfl⟩ := h
              obtain ⟨_, m1, hex1, hval1, hframe1, hlog1, htime1, hint1⟩ :=
                lowerSet_sound F I db ab diff _ (g + 1) mask (tmpVar g .int) e c1 g1 m vb
                  ⟨hm, rfl, Nat.lt_succ_self g, hi, exprBelow_mono (Nat.le_succ g) hb, hs, hev⟩ hl1
              have hvsame : m1.store v.name = m.store v.name :=
                hframe1 _ (ne_of_below hvb) (below_mono (Nat.le_succ g) hvb)
              have hr1 : binop F b (m1.store v.name) (atomValue m1.store (.loc g .int)) = .ok r := by
                rw [hvsame]; simp only [atomValue]; rw [show m1.store (.loc g) = vb from hval1]; exact hr
              have hex2 := exec_opAtom F I diff mask v op b (.loc g .int) c2 m1 r hbop hm hint1 hv (.loc g) hr1 hat
              refine ⟨{ m1 with store := upd m1.store v.name r }, ?_, ?_, hlog1, htime1⟩
              · rw [List.cons_append, List.cons_append, exec_alloc]
                exact exec_append_ok (exec_append_ok hex1 hex2) rfl
              · intro x hx
                show upd m1.store v.name r x = upd m.store v.name r x
                by_cases hxv : x = v.name
                · subst hxv; simp [upd_same]
                · rw [upd_other _ _ hxv, upd_other _ _ hxv]
                  exact hframe1 x (ne_of_below hx) (below_mono (Nat.le_succ g) hx)

/-! ## 7. instruction calls -/

theorem evalArgs_congr (F : FloatOps) (diff : Nat) (σ τ : Store) (g : Nat) :
    ∀ (es : List SExpr), (∀ e ∈ es, IntOnly e) → (∀ e ∈ es, exprBelow g e) → (∀ x, below g x → σ x = τ x) →
      evalArgs F diff σ es = evalArgs F diff τ es
  | [], _, _, _ => rfl
  | e :: es, hi, hb, h => by
    have h1 : evalS F diff σ e = evalS F diff τ e :=
      evalS_congr F diff σ τ (hi e (by simp)) (fun x hx => h x (uses_below (hb e (by simp)) hx))
    have h2 := evalArgs_congr F diff σ τ g es (fun e he => hi e (by simp [he])) (fun e he => hb e (by simp [he])) h
    simp only [evalArgs, h1, h2]

theorem evalArgs_cons_inv {F : FloatOps} {diff : Nat} {σ : Store} {e : SExpr} {es : List SExpr} {vals : List Value}
    (h : evalArgs F diff σ (e :: es) = .ok vals) :
    ∃ v vs, vals = v :: vs ∧ evalS F diff σ e = .ok v ∧ evalArgs F diff σ es = .ok vs := by
  simp only [evalArgs] at h
  cases h1 : evalS F diff σ e with
  | ok v =>
    cases h2 : evalArgs F diff σ es with
    | ok vs => simp only [h1, h2, Outcome.ok.injEq] at h; exact ⟨v, vs, h.symm, rfl, rfl⟩
    | err c => simp [h1, h2] at h
    | panic p => simp [h1, h2] at h
  | err c => simp [h1] at h
  | panic p => simp [h1] at h

theorem exec_map_free (F : FloatOps) (diff : Nat) (m : Machine) : ∀ ds : List Def, exec F diff m (ds.map .free) = .ok m
  | [] => rfl
  | _ :: ds => by simp only [List.map_cons, exec, execStmt]; exact exec_map_free F diff m ds

/-- arguments: every atom reads, in the store after ALL the temporaries were computed, the value the source
argument has; nothing below the temp counter changed -/
theorem lowerArgs_sound (F : FloatOps) (I : Intrinsics) (db ab diff mask : Nat) (hm : maskOn mask diff = true) :
    ∀ (args : List SExpr) (g : Nat) (c : List LStmt) (as : List Arg) (ds : List Def) (g' : Nat) (m : Machine)
      (vals : List Value),
      (∀ e ∈ args, IntOnly e) → (∀ e ∈ args, exprBelow g e) → IntStore m.store →
      evalArgs F diff m.store args = .ok vals →
      lowerArgs I db ab mask g args = .ok (c, as, ds, g') →
      g ≤ g' ∧ ∃ m', exec F diff m c = .ok m' ∧ readArgs F diff m'.store as = .ok vals ∧
        (∀ x, below g x → m'.store x = m.store x) ∧ m'.log = m.log ∧ m'.time = m.time ∧ IntStore m'.store
  | [], g, c, as, ds, g', m, vals, _, _, hs, hev, h => by
    simp only [lowerArgs, Outcome.ok.injEq, Prod.mk.injEq] at h
    obtain ⟨rfl, rfl, rfl, rfl⟩ := h
    simp only [evalArgs, Outcome.ok.injEq] at hev
    subst hev
    exact ⟨Nat.le_refl _, m, rfl, rfl, fun _ _ => rfl, rfl, rfl, hs⟩
  | e :: es, g, c, as, ds, g', m, vals, hi, hb, hs, hev, h => by
    obtain ⟨v, vs, rfl, hev1, hev2⟩ := evalArgs_cons_inv hev
    have hie := hi e (by simp)
    have hbe := hb e (by simp)
    have hies : ∀ e' ∈ es, IntOnly e' := fun e' he => hi e' (by simp [he])
    have hbes : ∀ e' ∈ es, exprBelow g e' := fun e' he => hb e' (by simp [he])
    simp only [lowerArgs] at h
    cases hsim : e.simple? with
    | some a =>
      simp only [hsim] at h
      cases hrest : lowerArgs I db ab mask g es with
      | err x => simp [hrest] at h
      | panic x => simp [hrest] at h
      | ok r =>
        obtain ⟨c', as', ds', g1⟩ := r
        simp only [hrest, Outcome.ok.injEq, Prod.mk.injEq] at h
        obtain ⟨rfl, rfl, rfl, rfl⟩ := h
        obtain ⟨hmono, m', hex, hread, hframe, hlog, htime, hint⟩ :=
          lowerArgs_sound F I db ab diff mask hm es g c' as' ds' g1 m vs hies hbes hs hev2 hrest
        obtain ⟨hatom, hval, huse⟩ := simple_spec F diff hie hsim
        have hva := hval m.store hs
        rw [hev1] at hva
        simp only [Outcome.ok.injEq] at hva
        have hra : readArg F diff m'.store a = .ok v := by
          rw [readArg_intAtom F diff hint hatom, hva]
          congr 1
          exact atomValue_congr (fun y hy => hframe y (uses_below hbe (huse y hy)))
        exact ⟨hmono, m', hex, by simp only [readArgs, hra, hread], hframe, hlog, htime, hint⟩
    | none =>
      simp only [hsim] at h
      obtain ⟨ht1, ht2, ht3⟩ := intOnly_temp hie
      simp only [ht1, ht2, ht3] at h
      cases hl1 : lowerSet I db ab (3 * e.size + 3) (g + 1) mask (tmpVar g .int) e with
      | err x => simp [hl1] at h
      | panic x => simp [hl1] at h
      | ok p =>
        obtain ⟨c1, g1⟩ := p
        simp only [hl1] at h
        cases hrest : lowerArgs I db ab mask g1 es with
        | err x => simp [hrest] at h
        | panic x => simp [hrest] at h
        | ok r =>
          obtain ⟨c', as', ds', g2⟩ := r
          simp only [hrest, Outcome.ok.injEq, Prod.mk.injEq] at h
          obtain ⟨rfl, rfl, rfl, rfl⟩ := h
          obtain ⟨hmono1, m1, hex1, hval1, hframe1, hlog1, htime1, hint1⟩ :=
            lowerSet_sound F I db ab diff _ (g + 1) mask (tmpVar g .int) e c1 g1 m v
              ⟨hm, rfl, Nat.lt_succ_self g, hie, exprBelow_mono (Nat.le_succ g) hbe, hs, hev1⟩ hl1
          have hg1 : g ≤ g1 := Nat.le_trans (Nat.le_succ g) hmono1
          have hsame : ∀ x, below g x → m1.store x = m.store x :=
            fun x hx => hframe1 x (ne_of_below hx) (below_mono (Nat.le_succ g) hx)
          have hev2' : evalArgs F diff m1.store es = .ok vs := by
            rw [evalArgs_congr F diff m1.store m.store g es hies hbes hsame]; exact hev2
          obtain ⟨hmono2, m', hex2, hread, hframe2, hlog2, htime2, hint2⟩ :=
            lowerArgs_sound F I db ab diff mask hm es g1 c' as' ds' g2 m1 vs hies
              (fun e' he => exprBelow_mono hg1 (hbes e' he)) hint1 hev2' hrest
          have hkeep : m'.store (.loc g) = v := by
            rw [hframe2 (.loc g) (Nat.lt_of_lt_of_le (Nat.lt_succ_self g) hmono1)]; exact hval1
          have hra : readArg F diff m'.store (.loc g .int) = .ok v := by
            rw [readArg_intAtom F diff hint2 (.loc g)]; simp only [atomValue, hkeep]
          refine ⟨Nat.le_trans hg1 hmono2, m', ?_, by simp only [readArgs, hra, hread], ?_, ?_, ?_, hint2⟩
          · rw [List.cons_append, exec_alloc]; exact exec_append_ok hex1 hex2
          · intro x hx; rw [hframe2 x (below_mono hg1 hx), hsame x hx]
          · rw [hlog2, hlog1]
          · rw [htime2, htime1]

/-- **lowerCall_sound_partial**: an instruction call whose arguments are arbitrarily complex integer
expressions: whenever the source call runs, the emitted code runs, logs exactly the same opcode with the
same argument values (after whatever was logged before), keeps the time, and leaves every variable below
the temp counter as it was. -/
theorem lowerCall_sound_partial (F : FloatOps) (I : Intrinsics) (db ab diff g mask opcode : Nat)
    (args : List SExpr) (code : List LStmt) (g' : Nat) (m msrc : Machine)
    (hm : maskOn mask diff = true) (hi : ∀ e ∈ args, IntOnly e) (hb : ∀ e ∈ args, exprBelow g e)
    (hs : IntStore m.store) (hsrc : runCall F diff m opcode args = .ok msrc)
    (h : lowerCall I db ab g mask opcode args = .ok (code, g')) :
    ∃ m', exec F diff m code = .ok m' ∧ m'.log = msrc.log ∧ m'.time = msrc.time ∧
      (∀ x, below g x → m'.store x = msrc.store x) := by
  unfold runCall at hsrc
  cases hev : evalArgs F diff m.store args with
  | err c => simp [hev] at hsrc
  | panic p => simp [hev] at hsrc
  | ok vals =>
    simp only [hev, Outcome.ok.injEq] at hsrc
    subst hsrc
    unfold lowerCall at h
    cases hl : lowerArgs I db ab mask g args with
    | err x => simp [hl] at h
    | panic x => simp [hl] at h
    | ok r =>
      obtain ⟨c, as, ds, g1⟩ := r
      simp only [hl, Outcome.ok.injEq, Prod.mk.injEq] at h
      obtain ⟨rfl, rfl⟩ := h
      obtain ⟨_, m', hex, hread, hframe, hlog, htime, _⟩ :=
        lowerArgs_sound F I db ab diff mask hm args g c as ds g1 m vals hi hb hs hev hl
      have hins : exec F diff m' [.instr ⟨mask, .plain opcode, as⟩] =
          .ok { m' with log := m'.log ++ [(opcode, vals)] } := by
        simp [exec, execStmt, execInstr, hm, hread]
      refine ⟨{ m' with log := m'.log ++ [(opcode, vals)] }, ?_, ?_, htime, hframe⟩
      · exact exec_append_ok (exec_append_ok hex hins) (exec_map_free F diff _ _)
      · show m'.log ++ [(opcode, vals)] = m.log ++ [(opcode, vals)]
        rw [hlog]

/-! ## 8. the whole property (NOT proved) -/

/-- `AstVm::_run` on the statements the model has -/
def runStmt (F : FloatOps) (diff : Nat) (m : Machine) : SStmt → Outcome Machine
  | .decl _ _ none => .ok m
  | .decl d ty (some e) => runAssign F diff m ⟨.loc d, none, ty⟩ .set e
  | .assign op v e => runAssign F diff m v op e
  | .call opcode args => runCall F diff m opcode args
  | .scopeEnd _ => .ok m
  | .other => .err errUnmodelled

def runBody (F : FloatOps) (diff : Nat) : Machine → List SStmt → Outcome Machine
  | m, [] => .ok m
  | m, s :: rest => match runStmt F diff m s with
    | .ok m' => runBody F diff m' rest
    | .err c => .err c
    | .panic p => .panic p

mutual
/-- a local replaced by the register `assign_registers` recorded for it -/
def renameArg (ρ : Def → Option Reg) : Arg → Arg
  | .loc d ty => match ρ d with
    | some r => .raw r ty
    | none => .loc d ty
  | .switch cs => .switch (renameArgs ρ cs)
  | a => a
def renameArgs (ρ : Def → Option Reg) : List Arg → List Arg
  | [] => []
  | a :: as => renameArg ρ a :: renameArgs ρ as
end

def renameStmt (ρ : Def → Option Reg) : LStmt → LStmt
  | .instr i => .instr { i with args := renameArgs ρ i.args }
  | s => s

def recordedReg (locals : List LocalInfo) (d : Def) : Option Reg :=
  (locals.find? (·.d == d)).map (·.reg)

/-- **C02 as stated**, for the statements the model has (declarations, all twelve assignment
operators, instruction calls; int and float expressions with casts, sigils and difficulty switches), for
every intrinsic table, every scratch pool (`h`), every store and difficulty, *after* register assignment:
the compiled body performs the same calls with the same argument values at the same time and leaves every
register the source mentions, and every register that is not general-purpose, as the source does.

Not proved.  What is proved above is the fragment `IntOnly` before register assignment
(`lowerAssign_sound_partial`, `lowerCall_sound_partial`).  Missing for this statement: (1) floats, casts and
sigils (needs "static type = dynamic type" for stores typed like their variables; `FloatOps` stay
parameters); (2) difficulty switches in expressions (`lowerSwitch`, and `elaborate_diff_switches` - which
the search shows to be WRONG for a switch nested in a switch case, see the evidence); (3) the composition
with C05: renaming locals to registers preserves `exec` because `Regs.assign` never hands a live or
mentioned register out (`C05.assign_inv`); (4) statements with labels: ONE conditional / counting jump and ONE
ternary assignment over integers are proved below (`lowerCondJump_sound`, `lowerTernary_sound`, model
`Model/LowerJumps.lean`, compared with the real `Lowerer`); whole bodies in which jumps go backwards (loops,
`times`, which `desugar_blocks` produces - C06) are executed by `execJ` but no theorem composes the statements
of a body yet; float conditions (negated comparisons are unsound on NaN, `nan_negation_witness`) and
ternaries nested inside operands are stated in `lowerCondJump_full` / `lowerTernary_full`; all of these are
covered by the VM-against-VM search. -/
def C02_full : Prop :=
  ∀ (F : FloatOps) (I : Intrinsics) (db ab : Nat) (h : Hooks) (firstTemp : Nat) (body : List SStmt)
    (code : List LStmt) (res : Regs.Result) (diff : Nat) (σ : Store) (msrc : Machine),
    lowerBody I db ab 255 firstTemp body = .ok code →
    assign .deep h (tyOfTable (typeTable code)) [] (code.map (toRegsStmt I)) = .ok res →
    runBody F diff ⟨σ, [], 0⟩ body = .ok msrc →
    ∃ m', exec F diff ⟨σ, [], 0⟩ (code.map (renameStmt (recordedReg res.locals))) = .ok m' ∧
      m'.log = msrc.log ∧ m'.time = msrc.time ∧
      ∀ r, (r ∈ mentioned (code.map (toRegsStmt I)) ∨ (r ∉ h.general .int ∧ r ∉ h.general .float)) →
        m'.store (.reg r) = msrc.store (.reg r)

/-! ## 9. the hypotheses are satisfiable by non-trivial inputs -/

/-- every operator native -/
def allNative : Intrinsics := ⟨fun _ _ => some 1, fun _ _ => some 2, fun _ _ => some 3⟩
/-- only `=` and the binary operators: `-x`, `~x`, `a op= b` go through the fallbacks -/
def fallbacksOnly : Intrinsics :=
  ⟨fun op _ => if op = .set then some 1 else none, fun _ _ => some 2, fun _ _ => none⟩

def rA : VarRef := ⟨.reg 1000, none, .int⟩
def rB : VarRef := ⟨.reg 1001, some .int, .int⟩
/-- `A + B * -(A + 1)`: needs a temporary because the second operand uses the destination -/
def sampleExpr : SExpr :=
  .binop .add (.var rA) (.binop .mul (.var rB) (.unop .neg (.binop .add (.var rA) (.litI 1))))

example : IntOnly sampleExpr := by simp [sampleExpr, IntOnly, rA, rB, VarRef.readTy]
example : exprBelow 100 sampleExpr := by simp [sampleExpr, exprBelow, below, rA, rB]
example : IntStore (fun _ => .int 7) := fun _ => ⟨7, rfl⟩

/-- some float operations (never consulted by integer expressions) -/
def someFloats : FloatOps :=
  ⟨fun a _ => a, fun a _ => a, fun a _ => a, fun a _ => a, fun a _ => a, fun a => a, fun _ _ => false, fun _ _ => false,
   fun _ _ => false, fun _ => 0, fun _ => 0, fun _ a => a⟩

/-- all hypotheses of `lowerSet_sound` / `lowerAssign_sound_partial` hold for `A = A + B * -(A + 1)` from the
store "everything is 7" on difficulty 0 under the full mask: the source value is 7 + 7 * -(8) = -49 -/
example : Ctx someFloats 0 100 255 rA sampleExpr ⟨fun _ => .int 7, [], 0⟩ (.int (-49)) :=
  ⟨by decide, rfl, trivial, by simp [sampleExpr, IntOnly, rA, rB, VarRef.readTy],
   by simp [sampleExpr, exprBelow, below, rA, rB], fun _ => ⟨7, rfl⟩, by decide +kernel⟩

def codeLen : Outcome (List LStmt × Gen) → Option (Nat × Gen)
  | .ok (c, g) => some (c.length, g)
  | _ => none

/-- the lowering succeeds under both tables (`A = A + B * -(A+1)`); the fallback table needs no more
instructions (`-x` is one multiplication) and both use exactly one temporary -/
example : codeLen (lowerAssign allNative 255 0 100 255 rA .set sampleExpr) = some (6, 101) := by decide +kernel
example : codeLen (lowerAssign fallbacksOnly 255 0 100 255 rA .set sampleExpr) = some (6, 101) := by decide +kernel
example : codeLen (lowerAssign fallbacksOnly 255 0 100 255 rA .mul sampleExpr) = some (7, 101) := by decide +kernel
example : codeLen (lowerCall fallbacksOnly 255 0 100 255 200 [sampleExpr, .var rB, .unop .bnot (.var rA)]) =
    some (10, 102) := by decide +kernel

/-! ## 10. the model with jumps restricts to the straight-line model -/

def liftRes (lg : Nat) : Outcome (List LStmt × Gen) → Outcome (List JStmt × Gen × Nat)
  | .ok (c, g) => .ok (liftCode c, g, lg)
  | .err x => .err x
  | .panic x => .panic x

def liftOp (lg : Nat) : Outcome Operand → Outcome OperandJ
  | .ok O => .ok ⟨liftCode O.code, O.atom, O.ty, O.gen, lg, O.free⟩
  | .err x => .err x
  | .panic x => .panic x

/-- on integer expressions the four functions of `Model/LowerJumps.lean` emit what those of `Model/Lower.lean`
emit, and allocate no label -/
def BridgeAt (I : JIntrinsics) (db ab fuel : Nat) : Prop :=
  (∀ g lg t mask v e, IntOnly e →
    lowerSetJ I db ab fuel g lg t mask v e = liftRes lg (lowerSet I.base db ab fuel g mask v e)) ∧
  (∀ g lg t mask v ty guard e, IntOnly e →
    lowerOperandJ I db ab fuel g lg t mask v ty guard e = liftOp lg (lowerOperand I.base db ab fuel g mask v ty guard e)) ∧
  (∀ g lg t mask v op a b, IntOnly a → IntOnly b →
    lowerBinopJ I db ab fuel g lg t mask v op a b = liftRes lg (lowerBinop I.base db ab fuel g mask v op a b)) ∧
  (∀ g lg t mask v op b, IntOnly b →
    lowerUnopJ I db ab fuel g lg t mask v op b = liftRes lg (lowerUnop I.base db ab fuel g mask v op b))

theorem liftCode_append (a b : List LStmt) : liftCode (a ++ b) = liftCode a ++ liftCode b := by
  simp [liftCode]

theorem bridge_set {I : JIntrinsics} {db ab fuel : Nat} (ih : BridgeAt I db ab fuel) (g lg : Nat) (t : Int) (mask : Nat)
    (v : VarRef) (e : SExpr) (hi : IntOnly e) :
    lowerSetJ I db ab (fuel + 1) g lg t mask v e = liftRes lg (lowerSet I.base db ab (fuel + 1) g mask v e) := by
  simp only [lowerSetJ, lowerSet]
  cases hsim : e.simple? with
  | some a =>
    simp only []
    cases lowerAssignAtom I.base mask v .set a <;> rfl
  | none =>
    obtain ⟨ht1, ht2, ht3⟩ := intOnly_temp hi
    simp only [ht1, ht2, ht3, ne_eq, not_true_eq_false, ite_false]
    cases e with
    | binop op a b => exact ih.2.2.1 g lg t mask v op a b hi.1 hi.2
    | unop op b => exact ih.2.2.2 g lg t mask v op b hi.2
    | litI _ => simp [SExpr.simple?] at hsim
    | var _ => simp [SExpr.simple?] at hsim
    | litF _ => exact absurd hi (by simp [IntOnly])
    | ternary _ _ _ => exact absurd hi (by simp [IntOnly])
    | switch _ => exact absurd hi (by simp [IntOnly])
    | omitted => exact absurd hi (by simp [IntOnly])

theorem bridge_operand {I : JIntrinsics} {db ab fuel : Nat} (ih : BridgeAt I db ab fuel) (g lg : Nat) (t : Int) (mask : Nat)
    (v : VarRef) (ty : RTy) (guard : Bool) (e : SExpr) (hi : IntOnly e) :
    lowerOperandJ I db ab (fuel + 1) g lg t mask v ty guard e =
      liftOp lg (lowerOperand I.base db ab (fuel + 1) g mask v ty guard e) := by
  simp only [lowerOperandJ, lowerOperand]
  cases hsim : e.simple? with
  | some a => rfl
  | none =>
    obtain ⟨ht1, ht2, ht3⟩ := intOnly_temp hi
    simp only [ht1, ht2, ht3]
    by_cases hc : (RTy.int = ty ∧ True ∧ guard = true)
    · rw [if_pos hc, if_pos hc]
      rw [ih.1 g lg t mask v e hi]
      cases lowerSet I.base db ab fuel g mask v e with
      | ok r => obtain ⟨c, g1⟩ := r; rfl
      | err x => rfl
      | panic x => rfl
    · rw [if_neg hc, if_neg hc]
      rw [ih.1 (g + 1) lg t mask (tmpVar g .int) e hi]
      cases lowerSet I.base db ab fuel (g + 1) mask (tmpVar g .int) e with
      | ok r => obtain ⟨c, g1⟩ := r; rfl
      | err x => rfl
      | panic x => rfl

theorem bridge_binop {I : JIntrinsics} {db ab fuel : Nat} (ih : BridgeAt I db ab fuel) (g lg : Nat) (t : Int) (mask : Nat)
    (v : VarRef) (op : BinOp) (a b : SExpr) (hia : IntOnly a) (hib : IntOnly b) :
    lowerBinopJ I db ab (fuel + 1) g lg t mask v op a b = liftRes lg (lowerBinop I.base db ab (fuel + 1) g mask v op a b) := by
  simp only [lowerBinopJ, lowerBinop]
  rw [ih.2.1 g lg t mask v _ _ a hia]
  cases hA : lowerOperand I.base db ab fuel g mask v (binopTy op a.ty) (!b.uses v.name) a with
  | err x => rfl
  | panic x => rfl
  | ok A =>
    simp only [liftOp]
    rw [ih.2.1 A.gen lg t mask v _ _ b hib]
    cases hB : lowerOperand I.base db ab fuel A.gen mask v (binopTy op a.ty) (!operandUses a v.name A.free) b with
    | err x => rfl
    | panic x => rfl
    | ok B =>
      simp only [liftOp]
      cases hC : lowerBinopAtom I.base mask v op A.ty A.atom B.atom with
      | err x => rfl
      | panic x => rfl
      | ok c => simp [liftRes, liftCode, freeOfJ]

theorem bridge_unop {I : JIntrinsics} {db ab fuel : Nat} (ih : BridgeAt I db ab fuel) (g lg : Nat) (t : Int) (mask : Nat)
    (v : VarRef) (op : UnOp) (b : SExpr) (hib : IntOnly b) :
    lowerUnopJ I db ab (fuel + 1) g lg t mask v op b = liftRes lg (lowerUnop I.base db ab (fuel + 1) g mask v op b) := by
  simp only [lowerUnopJ, lowerUnop]
  rw [ih.2.1 g lg t mask v _ _ b hib]
  cases hB : lowerOperand I.base db ab fuel g mask v (unopTy op b.ty) true b with
  | err x => rfl
  | panic x => rfl
  | ok B =>
    simp only [liftOp]
    cases hC : lowerUnopAtom I.base mask v op B.ty B.atom with
    | err x => rfl
    | panic x => rfl
    | ok c => simp [liftRes, liftCode, freeOfJ]

theorem bridgeAt (I : JIntrinsics) (db ab : Nat) : ∀ fuel, BridgeAt I db ab fuel
  | 0 => by
    refine ⟨?_, ?_, ?_, ?_⟩ <;> intros <;>
      simp [lowerSetJ, lowerOperandJ, lowerBinopJ, lowerUnopJ, lowerSet, lowerOperand, lowerBinop, lowerUnop, liftRes, liftOp]
  | fuel + 1 => by
    have ih := bridgeAt I db ab fuel
    exact ⟨bridge_set ih, bridge_operand ih, bridge_binop ih, bridge_unop ih⟩

/-- **lowerSetJ_eq**: on integer expressions `Model/Lower.lean` is the restriction of `Model/LowerJumps.lean` -/
theorem lowerSetJ_eq (I : JIntrinsics) (db ab fuel g lg : Nat) (t : Int) (mask : Nat) (v : VarRef) (e : SExpr)
    (hi : IntOnly e) :
    lowerSetJ I db ab fuel g lg t mask v e = liftRes lg (lowerSet I.base db ab fuel g mask v e) :=
  (bridgeAt I db ab fuel).1 g lg t mask v e hi


/-! ## 11. conditional jumps: primitives and operands -/

theorem b2i_ne_zero (b : Bool) : (b2i b != 0) = b := by cases b <;> rfl

theorem dec_le_lt (x y : Int32) : decide (y ≤ x) = !decide (x < y) := by
  by_cases h : x < y
  · have : ¬ y ≤ x := Int32.not_le.mpr h
    simp [h, this]
  · have : y ≤ x := Int32.not_lt.mp h
    simp [h, this]

theorem dec_lt_le (x y : Int32) : decide (y < x) = !decide (x ≤ y) := by
  rw [dec_le_lt y x]; simp

/-- the comparison the compiler substitutes for `unless` yields the opposite truth value (integers) -/
theorem negateCmp_int (op op' : BinOp) (x y : Int32) (h : negateCmp op = some op') :
    ∃ r r', binopInt op x y = .ok (.int r) ∧ binopInt op' x y = .ok (.int r') ∧ (r' != 0) = !(r != 0) := by
  cases op <;> simp only [negateCmp, Option.some.injEq, reduceCtorEq] at h <;> subst h <;>
    refine ⟨_, _, rfl, rfl, ?_⟩ <;> simp only [b2i_ne_zero]
  · simp [bne]
  · simp [bne]
  · exact dec_le_lt x y
  · exact dec_lt_le x y
  · exact dec_le_lt y x
  · exact dec_lt_le y x

theorem isComparison_negate {op : BinOp} (h : isComparison op = true) : ∃ op', negateCmp op = some op' ∧ isComparison op' = true := by
  cases op <;> simp [isComparison] at h <;> exact ⟨_, rfl, rfl⟩

theorem isComparison_int {op : BinOp} (h : isComparison op = true) (x y : Int32) : ∃ r, binopInt op x y = .ok (.int r) := by
  cases op <;> simp [isComparison] at h <;> exact ⟨_, rfl⟩

/-- how a fragment is left by a conditional jump -/
def exitIf (b : Bool) (tgt : Goto) : Exit := if b then .jump tgt.l tgt.time else .fall

/-- the single conditional jump and the cmp + jmp pair, on integer atoms -/
theorem exec_condPrim (F : FloatOps) (diff mask : Nat) (op : BinOp) (a b : Arg) (tgt : Goto) (s : JM) (x y r : Int32)
    (hm : maskOn mask diff = true) (hs : IntStore s.m.store) (ha : IntAtom a) (hb : IntAtom b)
    (hx : atomValue s.m.store a = .int x) (hy : atomValue s.m.store b = .int y)
    (hr : binopInt op x y = .ok (.int r)) :
    execFrag F diff .run [.condJmp mask op .int a b tgt.l tgt.time] s = .ok (exitIf (r != 0) tgt, s) ∧
    execFrag F diff .run [.cmp mask .int a b, .cmpJmp mask op tgt.l tgt.time] s =
      .ok (exitIf (r != 0) tgt, { s with cmp := some (.int x, .int y) }) := by
  have hra := readArg_intAtom F diff hs ha
  have hrb := readArg_intAtom F diff hs hb
  rw [hx] at hra; rw [hy] at hrb
  by_cases hz : r = 0
  · subst hz
    constructor <;>
      simp [execFrag, stepJ, hm, hra, hrb, cmpFlow, binop, hr, exitIf]
  · have hnz : (r != 0) = true := by simp [bne, hz]
    constructor <;>
      simp [execFrag, stepJ, hm, hra, hrb, cmpFlow, binop, hr, exitIf, hz, hnz]

/-- `lower_cond_jump_intrinsic` on integer atoms: leaves by the jump iff `if`/`unless` says so -/
theorem exec_condJmpAtom (F : FloatOps) (I : JIntrinsics) (diff mask : Nat) (kw : Kw) (op : BinOp) (a b : Arg) (tgt : Goto)
    (c : List JStmt) (s : JM) (x y r : Int32)
    (hm : maskOn mask diff = true) (hs : IntStore s.m.store) (ha : IntAtom a) (hb : IntAtom b)
    (hx : atomValue s.m.store a = .int x) (hy : atomValue s.m.store b = .int y)
    (hr : binopInt op x y = .ok (.int r))
    (h : condJmpAtom I mask kw op .int .int a b tgt = .ok c) :
    labelsOf c = [] ∧ ∃ cmp', execFrag F diff .run c s = .ok (exitIf (kw.takes (r != 0)) tgt, ⟨s.m, cmp'⟩) := by
  -- the operator of the emitted jump and its value
  have key : ∀ op' r', binopInt op' x y = .ok (.int r') → (r' != 0) = kw.takes (r != 0) →
      (match I.condAlt op' .int with
        | none => (.err errUnsupported : Outcome (List JStmt))
        | some .intrinsic => .ok [.condJmp mask op' .int a b tgt.l tgt.time]
        | some .twoPart => .ok [.cmp mask .int a b, .cmpJmp mask op' tgt.l tgt.time]) = .ok c →
      labelsOf c = [] ∧ ∃ cmp', execFrag F diff .run c s = .ok (exitIf (kw.takes (r != 0)) tgt, ⟨s.m, cmp'⟩) := by
    intro op' r' hr' htr hc
    obtain ⟨h1, h2⟩ := exec_condPrim F diff mask op' a b tgt s x y r' hm hs ha hb hx hy hr'
    rw [htr] at h1 h2
    cases halt : I.condAlt op' .int with
    | none => simp [halt] at hc
    | some alt =>
      cases alt with
      | intrinsic =>
        simp only [halt, Outcome.ok.injEq] at hc; subst hc
        exact ⟨rfl, s.cmp, h1⟩
      | twoPart =>
        simp only [halt, Outcome.ok.injEq] at hc; subst hc
        exact ⟨rfl, _, h2⟩
  unfold condJmpAtom at h
  cases kw with
  | kif =>
    simp only [ne_eq, not_true_eq_false, ite_false] at h
    exact key op r hr (by simp [Kw.takes]) h
  | kunless =>
    simp only [] at h
    cases hneg : negateCmp op with
    | none => simp [hneg] at h
    | some op' =>
      simp only [hneg, ne_eq, not_true_eq_false, ite_false] at h
      obtain ⟨r0, r', h0, h', hrel⟩ := negateCmp_int op op' x y hneg
      rw [hr] at h0
      simp only [Outcome.ok.injEq, Value.int.injEq] at h0
      subst h0
      exact key op' r' h' (by simp [Kw.takes, hrel]) h

/-- what the lowering of one operand of a comparison guarantees -/
structure TSpec (F : FloatOps) (diff g lg : Nat) (s : JM) (O : OperandJ) (val : Value) : Prop where
  mono : g ≤ O.gen
  lgen : O.lgen = lg
  atom : IntAtom O.atom
  tyInt : O.ty = .int
  labels : labelsOf O.code = []
  atomBelow : ∀ y, argVar O.atom = some y → below O.gen y
  run : ∃ m', execFrag F diff .run O.code s = .ok (.fall, ⟨m', s.cmp⟩) ∧ atomValue m'.store O.atom = val ∧
    (∀ x, below g x → m'.store x = s.m.store x) ∧ m'.log = s.m.log ∧ m'.time = s.m.time ∧ IntStore m'.store

theorem temp_sound (F : FloatOps) (I : JIntrinsics) (db ab diff fuel g lg : Nat) (t : Int) (mask : Nat) (e : SExpr)
    (O : OperandJ) (s : JM) (val : Value)
    (hm : maskOn mask diff = true) (hi : IntOnly e) (hb : exprBelow g e) (hs : IntStore s.m.store)
    (hev : evalS F diff s.m.store e = .ok val)
    (h : lowerTempJ I db ab fuel g lg t mask e = .ok O) : TSpec F diff g lg s O val := by
  cases fuel with
  | zero => simp [lowerTempJ] at h
  | succ fuel =>
    simp only [lowerTempJ] at h
    cases hsim : e.simple? with
    | some a =>
      simp only [hsim, Outcome.ok.injEq] at h
      subst h
      obtain ⟨hatom, hval, huse⟩ := simple_spec F diff hi hsim
      have hv := hval s.m.store hs
      rw [hev] at hv
      simp only [Outcome.ok.injEq] at hv
      exact ⟨Nat.le_refl _, rfl, hatom, intOnly_simpleTy hi, rfl, fun y hy => uses_below hb (huse y hy),
        ⟨s.m, rfl, hv.symm, fun _ _ => rfl, rfl, rfl, hs⟩⟩
    | none =>
      simp only [hsim] at h
      obtain ⟨ht1, ht2, ht3⟩ := intOnly_temp hi
      simp only [ht1, ht2, ht3] at h
      rw [lowerSetJ_eq I db ab fuel (g + 1) lg t mask (tmpVar g .int) e hi] at h
      cases hl : lowerSet I.base db ab fuel (g + 1) mask (tmpVar g .int) e with
      | err x => simp [hl, liftRes] at h
      | panic x => simp [hl, liftRes] at h
      | ok r =>
        obtain ⟨c, g1⟩ := r
        simp only [hl, liftRes, Outcome.ok.injEq] at h
        subst h
        obtain ⟨hmono, m', hex, hval, hframe, hlog, htime, hint⟩ :=
          lowerSet_sound F I.base db ab diff fuel (g + 1) mask (tmpVar g .int) e c g1 s.m val
            ⟨hm, rfl, Nat.lt_succ_self g, hi, exprBelow_mono (Nat.le_succ g) hb, hs, hev⟩ hl
        refine ⟨Nat.le_trans (Nat.le_succ g) hmono, rfl, .loc g, rfl, ?_, ?_, ⟨m', ?_, hval, ?_, hlog, htime, hint⟩⟩
        · simp [labelsOf, labelsOf_lift]
        · intro y hy
          simp only [argVar, Option.some.injEq] at hy; subst hy
          exact Nat.lt_of_lt_of_le (Nat.lt_succ_self g) hmono
        · simp only [execFrag, stepJ, execStmt]
          exact execFrag_lift F diff s.cmp c s.m m' hex
        · intro x hx
          exact hframe x (ne_of_below hx) (below_mono (Nat.le_succ g) hx)


/-! ## 12. conditional jumps -/

/-- what the code of a conditional jump guarantees: it is left by the jump to the target iff `taken`, else at
its end; variables below the temp counter, log and time are as before; its labels are fresh and distinct -/
structure CondSpec (F : FloatOps) (diff g lg : Nat) (tgt : Goto) (taken : Bool) (s : JM) (code : List JStmt)
    (g' lg' : Nat) : Prop where
  mono : g ≤ g'
  lmono : lg ≤ lg'
  labels : ∀ l ∈ labelsOf code, lg ≤ l ∧ l < lg'
  nodup : (labelsOf code).Nodup
  run : ∃ s', execFrag F diff .run code s = .ok (exitIf taken tgt, s') ∧
    (∀ x, below g x → s'.m.store x = s.m.store x) ∧ s'.m.log = s.m.log ∧ s'.m.time = s.m.time ∧ IntStore s'.m.store

theorem binop_int (F : FloatOps) (op : BinOp) (x y : Int32) : binop F op (.int x) (.int y) = binopInt op x y := rfl

/-- `lower_cond_jump_comparison` on integer operands -/
theorem cmp_sound (F : FloatOps) (I : JIntrinsics) (db ab diff fuel g lg : Nat) (t : Int) (mask : Nat) (kw : Kw)
    (a : SExpr) (op : BinOp) (b : SExpr) (tgt : Goto) (code : List JStmt) (g' lg' : Nat) (s : JM) (x y r : Int32)
    (hm : maskOn mask diff = true) (hia : IntOnly a) (hib : IntOnly b) (hba : exprBelow g a) (hbb : exprBelow g b)
    (hs : IntStore s.m.store) (hea : evalS F diff s.m.store a = .ok (.int x)) (heb : evalS F diff s.m.store b = .ok (.int y))
    (hr : binopInt op x y = .ok (.int r))
    (h : lowerCmpJ I db ab fuel g lg t mask kw a op b tgt = .ok (code, g', lg')) :
    CondSpec F diff g lg tgt (kw.takes (r != 0)) s code g' lg' := by
  cases fuel with
  | zero => simp [lowerCmpJ] at h
  | succ fuel =>
    simp only [lowerCmpJ] at h
    cases hA : lowerTempJ I db ab fuel g lg t mask a with
    | err e => simp [hA] at h
    | panic e => simp [hA] at h
    | ok A =>
      simp only [hA] at h
      have SA := temp_sound F I db ab diff fuel g lg t mask a A s (.int x) hm hia hba hs hea hA
      obtain ⟨m1, hex1, hval1, hframe1, hlog1, htime1, hint1⟩ := SA.run
      have heb1 : evalS F diff m1.store b = .ok (.int y) := by
        rw [← heb]
        apply evalS_congr F diff _ _ hib
        intro z hz
        exact hframe1 z (uses_below hbb hz)
      rw [SA.lgen] at h
      cases hB : lowerTempJ I db ab fuel A.gen lg t mask b with
      | err e => simp [hB] at h
      | panic e => simp [hB] at h
      | ok B =>
        simp only [hB] at h
        have SB := temp_sound F I db ab diff fuel A.gen lg t mask b B ⟨m1, s.cmp⟩ (.int y) hm hib
          (exprBelow_mono SA.mono hbb) hint1 heb1 hB
        obtain ⟨m2, hex2, hval2, hframe2, hlog2, htime2, hint2⟩ := SB.run
        have hA_stable : atomValue m2.store A.atom = .int x := by
          rw [← hval1]
          apply atomValue_congr
          intro z hz
          exact hframe2 z (SA.atomBelow z hz)
        rw [SA.tyInt, SB.tyInt] at h
        cases hC : condJmpAtom I mask kw op .int .int A.atom B.atom tgt with
        | err e => simp [hC] at h
        | panic e => simp [hC] at h
        | ok c =>
          simp only [hC, Outcome.ok.injEq, Prod.mk.injEq] at h
          obtain ⟨rfl, rfl, rfl⟩ := h
          obtain ⟨hlabc, cmp', hex3⟩ := exec_condJmpAtom F I diff mask kw op A.atom B.atom tgt c ⟨m2, s.cmp⟩ x y r
            hm hint2 SA.atom SB.atom hA_stable hval2 hr hC
          have hlab : labelsOf (A.code ++ (B.code ++ (c ++ (freeOfJ B.free ++ freeOfJ A.free)))) = [] := by
            simp [labelsOf_append, SA.labels, SB.labels, hlabc, labelsOf_freeOfJ]
          refine ⟨Nat.le_trans SA.mono SB.mono, by rw [SB.lgen]; exact Nat.le_refl _, ?_, ?_, ⟨⟨m2, cmp'⟩, ?_, ?_, ?_, ?_, hint2⟩⟩
          · intro l hl; rw [hlab] at hl; cases hl
          · rw [hlab]; exact List.nodup_nil
          · exact execFrag_append_ok hex1 (execFrag_append_ok hex2 (execFrag_append_ok hex3
              (execFrag_append_ok (execFrag_frees F diff B.free _ _) (execFrag_frees F diff A.free _ _))))
          · intro z hz
            show m2.store z = s.m.store z
            rw [hframe2 z (below_mono SA.mono hz)]; exact hframe1 z hz
          · show m2.log = s.m.log
            rw [hlog2]; exact hlog1
          · show m2.time = s.m.time
            rw [htime2]; exact htime1

/-- any integer expression as a condition: `e != 0` -/
theorem fallback_sound (F : FloatOps) (I : JIntrinsics) (db ab diff fuel g lg : Nat) (t : Int) (mask : Nat) (kw : Kw)
    (e : SExpr) (tgt : Goto) (code : List JStmt) (g' lg' : Nat) (s : JM) (v : Int32)
    (hm : maskOn mask diff = true) (hi : IntOnly e) (hb : exprBelow g e) (hs : IntStore s.m.store)
    (hev : evalS F diff s.m.store e = .ok (.int v))
    (h : lowerCmpJ I db ab fuel g lg t mask kw e .ne (.litI 0) tgt = .ok (code, g', lg')) :
    CondSpec F diff g lg tgt (kw.takes (v != 0)) s code g' lg' := by
  have := cmp_sound F I db ab diff fuel g lg t mask kw e .ne (.litI 0) tgt code g' lg' s v 0 (b2i (v != 0))
    hm hi trivial hb trivial hs hev rfl rfl h
  rwa [b2i_ne_zero] at this

theorem logic_easy (kw : Kw) (op : BinOp) (va vb r : Int32)
    (heasy : (kw = .kif ∧ op = .lor) ∨ (kw = .kunless ∧ op = .land)) (hr : binopInt op va vb = .ok (.int r)) :
    kw.takes (r != 0) = (kw.takes (va != 0) || kw.takes (vb != 0)) := by
  rcases heasy with ⟨rfl, rfl⟩ | ⟨rfl, rfl⟩ <;>
    simp only [binopInt, Outcome.ok.injEq, Value.int.injEq] at hr <;> subst hr <;>
    by_cases hz : va = 0 <;> simp [Kw.takes, hz, bne]

theorem logic_hard (kw : Kw) (op : BinOp) (va vb r : Int32) (hop : op = .land ∨ op = .lor)
    (hne : ¬ ((kw = .kif ∧ op = .lor) ∨ (kw = .kunless ∧ op = .land))) (hr : binopInt op va vb = .ok (.int r)) :
    kw.takes (r != 0) = (!kw.negate.takes (va != 0) && !kw.negate.takes (vb != 0)) := by
  cases kw <;> rcases hop with rfl | rfl <;> simp at hne <;>
    simp only [binopInt, Outcome.ok.injEq, Value.int.injEq] at hr <;> subst hr <;>
    by_cases hz : va = 0 <;> simp [Kw.takes, Kw.negate, hz, bne]

theorem setTime_store (s : JM) (t : Int) : (s.setTime t).m.store = s.m.store := rfl
theorem setTime_log (s : JM) (t : Int) : (s.setTime t).m.log = s.m.log := rfl
theorem setTime_time (s : JM) (t : Int) : (s.setTime t).m.time = t := rfl

/-- the statement proved by induction on the fuel for `lower_cond_jump_non_count` and `lower_cond_jump_logic_binop` -/
def CondSoundAt (F : FloatOps) (I : JIntrinsics) (db ab diff fuel : Nat) : Prop :=
  (∀ g lg t mask kw e tgt code g' lg' s v, maskOn mask diff = true → IntOnly e → exprBelow g e → IntStore s.m.store →
    evalS F diff s.m.store e = .ok (.int v) → s.m.time = t → tgt.l < lg →
    lowerCondJ I db ab fuel g lg t mask kw e tgt = .ok (code, g', lg') →
    CondSpec F diff g lg tgt (kw.takes (v != 0)) s code g' lg') ∧
  (∀ g lg t mask kw a op b tgt code g' lg' s va vb r, maskOn mask diff = true → IntOnly a → IntOnly b →
    exprBelow g a → exprBelow g b → IntStore s.m.store →
    evalS F diff s.m.store a = .ok (.int va) → evalS F diff s.m.store b = .ok (.int vb) →
    (op = .land ∨ op = .lor) → binopInt op va vb = .ok (.int r) → s.m.time = t → tgt.l < lg →
    lowerLogicJ I db ab fuel g lg t mask kw a op b tgt = .ok (code, g', lg') →
    CondSpec F diff g lg tgt (kw.takes (r != 0)) s code g' lg')

theorem evalS_binop_int {F : FloatOps} {diff : Nat} {σ : Store} {op : BinOp} {a b : SExpr} {val : Value}
    (hs : IntStore σ) (hia : IntOnly a) (hib : IntOnly b) (h : evalS F diff σ (.binop op a b) = .ok val) :
    ∃ x y, evalS F diff σ a = .ok (.int x) ∧ evalS F diff σ b = .ok (.int y) ∧ binopInt op x y = .ok val := by
  obtain ⟨va, vb, hea, heb, hop⟩ := evalS_binop_inv h
  obtain ⟨x, rfl⟩ := evalS_int F diff σ hs hia hea
  obtain ⟨y, rfl⟩ := evalS_int F diff σ hs hib heb
  exact ⟨x, y, hea, heb, hop⟩

theorem cond_case {F : FloatOps} {I : JIntrinsics} {db ab diff fuel : Nat} (ih : CondSoundAt F I db ab diff fuel)
    (g lg : Nat) (t : Int) (mask : Nat) (kw : Kw) (e : SExpr) (tgt : Goto) (code : List JStmt) (g' lg' : Nat) (s : JM) (v : Int32)
    (hm : maskOn mask diff = true) (hi : IntOnly e) (hb : exprBelow g e) (hs : IntStore s.m.store)
    (hev : evalS F diff s.m.store e = .ok (.int v)) (ht : s.m.time = t) (htl : tgt.l < lg)
    (h : lowerCondJ I db ab (fuel + 1) g lg t mask kw e tgt = .ok (code, g', lg')) :
    CondSpec F diff g lg tgt (kw.takes (v != 0)) s code g' lg' := by
  have hty := intOnly_ty hi
  cases e with
  | binop op a b =>
    simp only [lowerCondJ] at h
    obtain ⟨x, y, hea, heb, hop⟩ := evalS_binop_int hs hi.1 hi.2 hev
    by_cases hc : isComparison op = true
    · rw [if_pos hc] at h
      exact cmp_sound F I db ab diff fuel g lg t mask kw a op b tgt code g' lg' s x y v hm hi.1 hi.2 hb.1 hb.2 hs hea heb hop h
    · rw [if_neg hc] at h
      by_cases hl : op = .land ∨ op = .lor
      · rw [if_pos hl] at h
        exact ih.2 g lg t mask kw a op b tgt code g' lg' s x y v hm hi.1 hi.2 hb.1 hb.2 hs hea heb hl hop ht htl h
      · rw [if_neg hl] at h
        simp only [hty, ne_eq, not_true_eq_false, ite_false] at h
        exact fallback_sound F I db ab diff fuel g lg t mask kw _ tgt code g' lg' s v hm hi hb hs hev h
  | unop op b =>
    rcases hi.1 with rfl | rfl | rfl
    · simp only [lowerCondJ, hty, ne_eq, not_true_eq_false, ite_false] at h
      exact fallback_sound F I db ab diff fuel g lg t mask kw _ tgt code g' lg' s v hm hi hb hs hev h
    · simp only [lowerCondJ] at h
      obtain ⟨x, heb, hu⟩ := evalS_unop_inv (Or.inr (Or.inl rfl)) hev
      obtain ⟨nx, rfl⟩ := evalS_int F diff s.m.store hs hi.2 heb
      simp only [unop, Outcome.ok.injEq, Option.some.injEq, Value.int.injEq] at hu
      subst hu
      have := ih.1 g lg t mask kw.negate b tgt code g' lg' s nx hm hi.2 hb hs heb ht htl h
      have hk : kw.negate.takes (nx != 0) = kw.takes (b2i (nx == 0) != 0) := by
        cases kw <;> simp only [Kw.takes, Kw.negate, b2i_ne_zero] <;> simp [bne]
      rwa [hk] at this
    · simp only [lowerCondJ, hty, ne_eq, not_true_eq_false, ite_false] at h
      exact fallback_sound F I db ab diff fuel g lg t mask kw _ tgt code g' lg' s v hm hi hb hs hev h
  | litI n =>
    simp only [lowerCondJ, hty, ne_eq, not_true_eq_false, ite_false] at h
    exact fallback_sound F I db ab diff fuel g lg t mask kw _ tgt code g' lg' s v hm hi hb hs hev h
  | var x =>
    simp only [lowerCondJ, hty, ne_eq, not_true_eq_false, ite_false] at h
    exact fallback_sound F I db ab diff fuel g lg t mask kw _ tgt code g' lg' s v hm hi hb hs hev h
  | litF _ => exact absurd hi (by simp [IntOnly])
  | ternary _ _ _ => exact absurd hi (by simp [IntOnly])
  | switch _ => exact absurd hi (by simp [IntOnly])
  | omitted => exact absurd hi (by simp [IntOnly])


theorem exitIf_true (tgt : Goto) : exitIf true tgt = .jump tgt.l tgt.time := rfl
theorem exitIf_false (tgt : Goto) : exitIf false tgt = .fall := rfl

theorem lowerJmp_ok {I : JIntrinsics} {mask : Nat} {tgt : Goto} {j : List JStmt} (h : lowerJmp I mask tgt = .ok j) :
    j = [.jmp mask tgt.l tgt.time] := by
  unfold lowerJmp at h
  cases hj : I.jmp with
  | none => simp [hj] at h
  | some _ => simp only [hj, Outcome.ok.injEq] at h; exact h.symm

theorem logic_case {F : FloatOps} {I : JIntrinsics} {db ab diff fuel : Nat} (ih : CondSoundAt F I db ab diff fuel)
    (g lg : Nat) (t : Int) (mask : Nat) (kw : Kw) (a : SExpr) (op : BinOp) (b : SExpr) (tgt : Goto) (code : List JStmt)
    (g' lg' : Nat) (s : JM) (va vb r : Int32)
    (hm : maskOn mask diff = true) (hia : IntOnly a) (hib : IntOnly b) (hba : exprBelow g a) (hbb : exprBelow g b)
    (hs : IntStore s.m.store) (hea : evalS F diff s.m.store a = .ok (.int va)) (heb : evalS F diff s.m.store b = .ok (.int vb))
    (hop : op = .land ∨ op = .lor) (hr : binopInt op va vb = .ok (.int r)) (ht : s.m.time = t) (htl : tgt.l < lg)
    (h : lowerLogicJ I db ab (fuel + 1) g lg t mask kw a op b tgt = .ok (code, g', lg')) :
    CondSpec F diff g lg tgt (kw.takes (r != 0)) s code g' lg' := by
  simp only [lowerLogicJ] at h
  by_cases heasy : (kw = .kif ∧ op = .lor) ∨ (kw = .kunless ∧ op = .land)
  · rw [if_pos heasy] at h
    rw [logic_easy kw op va vb r heasy hr]
    cases h1 : lowerCondJ I db ab fuel g lg t mask kw a tgt with
    | err x => simp [h1] at h
    | panic x => simp [h1] at h
    | ok r1 =>
      obtain ⟨c1, g1, lg1⟩ := r1
      simp only [h1] at h
      have S1 := ih.1 g lg t mask kw a tgt c1 g1 lg1 s va hm hia hba hs hea ht htl h1
      obtain ⟨s1, hex1, hframe1, hlog1, htime1, hint1⟩ := S1.run
      have heb1 : evalS F diff s1.m.store b = .ok (.int vb) := by
        rw [← heb]; apply evalS_congr F diff _ _ hib
        intro z hz; exact hframe1 z (uses_below hbb hz)
      cases h2 : lowerCondJ I db ab fuel g1 lg1 t mask kw b tgt with
      | err x => simp [h2] at h
      | panic x => simp [h2] at h
      | ok r2 =>
        obtain ⟨c2, g2, lg2⟩ := r2
        simp only [h2, Outcome.ok.injEq, Prod.mk.injEq] at h
        obtain ⟨rfl, rfl, rfl⟩ := h
        have S2 := ih.1 g1 lg1 t mask kw b tgt c2 g2 lg2 s1 vb hm hib (exprBelow_mono S1.mono hbb) hint1 heb1
          (by rw [htime1]; exact ht) (Nat.lt_of_lt_of_le htl S1.lmono) h2
        obtain ⟨s2, hex2, hframe2, hlog2, htime2, hint2⟩ := S2.run
        refine ⟨Nat.le_trans S1.mono S2.mono, Nat.le_trans S1.lmono S2.lmono, ?_, ?_, ?_⟩
        · intro l hl
          rw [labelsOf_append, List.mem_append] at hl
          rcases hl with hl | hl
          · have := S1.labels l hl; exact ⟨this.1, Nat.lt_of_lt_of_le this.2 S2.lmono⟩
          · have := S2.labels l hl; exact ⟨Nat.le_trans S1.lmono this.1, this.2⟩
        · rw [labelsOf_append]
          refine List.nodup_append.mpr ⟨S1.nodup, S2.nodup, ?_⟩
          intro x hx y hy hxy
          have h1' := (S1.labels x hx).2
          have h2' := (S2.labels y hy).1
          omega
        · cases htk : kw.takes (va != 0) with
          | true =>
            -- the first jump is taken; the label is not defined in the code of the second
            rw [htk, exitIf_true] at hex1
            refine ⟨s1, ?_, hframe1, hlog1, htime1, hint1⟩
            simp only [Bool.true_or, exitIf_true]
            refine execFrag_append_ok hex1 ?_
            apply execFrag_seek_skip
            intro l' hl' hEq
            have := (S2.labels l' hl').1
            have := S1.lmono
            omega
          | false =>
            rw [htk, exitIf_false] at hex1
            refine ⟨s2, ?_, ?_, by rw [hlog2, hlog1], by rw [htime2, htime1], hint2⟩
            · simp only [Bool.false_or]
              exact execFrag_append_ok hex1 hex2
            · intro z hz; rw [hframe2 z (below_mono S1.mono hz)]; exact hframe1 z hz
  · rw [if_neg heasy] at h
    rw [logic_hard kw op va vb r hop heasy hr]
    cases h1 : lowerCondJ I db ab fuel g (lg + 1) t mask kw.negate a ⟨lg, none⟩ with
    | err x => simp [h1] at h
    | panic x => simp [h1] at h
    | ok r1 =>
      obtain ⟨c1, g1, lg1⟩ := r1
      simp only [h1] at h
      have S1 := ih.1 g (lg + 1) t mask kw.negate a ⟨lg, none⟩ c1 g1 lg1 s va hm hia hba hs hea ht (Nat.lt_succ_self lg) h1
      obtain ⟨s1, hex1, hframe1, hlog1, htime1, hint1⟩ := S1.run
      have heb1 : evalS F diff s1.m.store b = .ok (.int vb) := by
        rw [← heb]; apply evalS_congr F diff _ _ hib
        intro z hz; exact hframe1 z (uses_below hbb hz)
      have hl1 := S1.lmono
      cases h2 : lowerCondJ I db ab fuel g1 lg1 t mask kw.negate b ⟨lg, none⟩ with
      | err x => simp [h2] at h
      | panic x => simp [h2] at h
      | ok r2 =>
        obtain ⟨c2, g2, lg2⟩ := r2
        simp only [h2] at h
        have S2 := ih.1 g1 lg1 t mask kw.negate b ⟨lg, none⟩ c2 g2 lg2 s1 vb hm hib (exprBelow_mono S1.mono hbb) hint1 heb1
          (by rw [htime1]; exact ht) (by show lg < lg1; omega) h2
        obtain ⟨s2, hex2, hframe2, hlog2, htime2, hint2⟩ := S2.run
        have hl2 := S2.lmono
        cases hj : lowerJmp I mask tgt with
        | err x => simp [hj] at h
        | panic x => simp [hj] at h
        | ok j =>
          simp only [hj, Outcome.ok.injEq, Prod.mk.injEq] at h
          obtain ⟨rfl, rfl, rfl⟩ := h
          have hjeq := lowerJmp_ok hj
          subst hjeq
          -- what follows the two conditions: `goto target; skip:`
          have htail_seek : ∀ s0 : JM, execFrag F diff (.seek lg none) ([JStmt.jmp mask tgt.l tgt.time] ++ [JStmt.label t lg]) s0 =
              .ok (.fall, s0.setTime t) := by
            intro s0; simp [execFrag]
          have htail_run : ∀ s0 : JM, execFrag F diff .run ([JStmt.jmp mask tgt.l tgt.time] ++ [JStmt.label t lg]) s0 =
              .ok (.jump tgt.l tgt.time, s0) := by
            intro s0
            have hne : ¬ lg = tgt.l := by omega
            simp [execFrag, stepJ, hm, hne]
          have hc2_skip : ∀ s0 : JM, execFrag F diff (.seek lg none) c2 s0 = .ok (.jump lg none, s0) := by
            intro s0
            apply execFrag_seek_skip
            intro l' hl' hEq
            have := (S2.labels l' hl').1
            omega
          refine ⟨Nat.le_trans S1.mono S2.mono, by omega, ?_, ?_, ?_⟩
          · intro l hl
            simp only [labelsOf_append, List.mem_append] at hl
            rcases hl with hl | hl | hl | hl
            · have := S1.labels l hl; omega
            · have := S2.labels l hl; omega
            · simp [labelsOf] at hl
            · simp only [labelsOf, List.mem_singleton] at hl; omega
          · simp only [labelsOf_append]
            refine List.nodup_append.mpr ⟨S1.nodup, List.nodup_append.mpr ⟨S2.nodup, by simp [labelsOf], ?_⟩, ?_⟩
            · intro x hx y hy hxy
              have := (S2.labels x hx).1
              simp only [labelsOf, List.nil_append, List.mem_singleton] at hy
              omega
            · intro x hx y hy hxy
              have h1' := S1.labels x hx
              simp only [List.mem_append, labelsOf, List.mem_singleton, List.not_mem_nil, false_or] at hy
              rcases hy with hy | hy
              · have := (S2.labels y hy).1; omega
              · omega
          · cases htk1 : kw.negate.takes (va != 0) with
            | true =>
              rw [htk1, exitIf_true] at hex1
              refine ⟨s1.setTime t, ?_, hframe1, hlog1, by rw [setTime_time]; exact ht.symm, hint1⟩
              simp only [Bool.not_true, Bool.false_and, exitIf_false]
              exact execFrag_append_ok hex1 (execFrag_append_ok (hc2_skip s1) (htail_seek s1))
            | false =>
              rw [htk1, exitIf_false] at hex1
              cases htk2 : kw.negate.takes (vb != 0) with
              | true =>
                rw [htk2, exitIf_true] at hex2
                refine ⟨s2.setTime t, ?_, ?_, by rw [setTime_log, hlog2, hlog1], by rw [setTime_time]; exact ht.symm, hint2⟩
                · simp only [Bool.not_false, Bool.not_true, Bool.and_false, exitIf_false]
                  exact execFrag_append_ok hex1 (execFrag_append_ok hex2 (htail_seek s2))
                · intro z hz
                  rw [setTime_store, hframe2 z (below_mono S1.mono hz)]; exact hframe1 z hz
              | false =>
                rw [htk2, exitIf_false] at hex2
                refine ⟨s2, ?_, ?_, by rw [hlog2, hlog1], by rw [htime2, htime1], hint2⟩
                · simp only [Bool.not_false, Bool.and_self, exitIf_true]
                  exact execFrag_append_ok hex1 (execFrag_append_ok hex2 (htail_run s2))
                · intro z hz
                  rw [hframe2 z (below_mono S1.mono hz)]; exact hframe1 z hz

/-- `lower_cond_jump_non_count` and `lower_cond_jump_logic_binop` are sound at every fuel -/
theorem condSoundAt (F : FloatOps) (I : JIntrinsics) (db ab diff : Nat) : ∀ fuel, CondSoundAt F I db ab diff fuel
  | 0 => by
    refine ⟨?_, ?_⟩ <;> intros <;> simp_all [lowerCondJ, lowerLogicJ]
  | fuel + 1 => by
    have ih := condSoundAt F I db ab diff fuel
    exact ⟨fun g lg t mask kw e tgt code g' lg' s v hm hi hb hs hev ht htl h =>
        cond_case ih g lg t mask kw e tgt code g' lg' s v hm hi hb hs hev ht htl h,
      fun g lg t mask kw a op b tgt code g' lg' s va vb r hm hia hib hba hbb hs hea heb hop hr ht htl h =>
        logic_case ih g lg t mask kw a op b tgt code g' lg' s va vb r hm hia hib hba hbb hs hea heb hop hr ht htl h⟩


/-! ## 13. counting jumps and the statement `if|unless (c) goto L @ t` -/

/-- the condition of a jump statement is in the proved fragment -/
def CondOK (g : Nat) : JCond → Prop
  | .expr e => IntOnly e ∧ exprBelow g e
  | .predec v _ => v.readTy = .int

/-- `if|unless (--x) goto L` / `(--x != 0)` / `(--x > 0)`: `x` is decremented exactly once (wrapping), the
fragment is left by the jump iff the flavour's test of the NEW value says so -/
theorem lowerCountJmp_sound (F : FloatOps) (I : JIntrinsics) (diff lg : Nat) (t : Int) (mask : Nat) (kw : Kw) (v : VarRef)
    (k : CountKind) (tgt : Goto) (code : List JStmt) (lg' : Nat) (s : JM) (n : Int32)
    (hm : maskOn mask diff = true) (hv : v.readTy = .int) (hs : IntStore s.m.store) (hn : s.m.store v.name = .int n)
    (ht : s.m.time = t) (htl : tgt.l < lg)
    (h : lowerCountJmp I lg t mask kw v k tgt = .ok (code, lg')) :
    lg ≤ lg' ∧ (∀ l ∈ labelsOf code, lg ≤ l ∧ l < lg') ∧ (labelsOf code).Nodup ∧
    ∃ s', execFrag F diff .run code s = .ok (exitIf (kw.takes (k.test (n - 1))) tgt, s') ∧
      s'.m.store = upd s.m.store v.name (.int (n - 1)) ∧ s'.m.log = s.m.log ∧ s'.m.time = s.m.time := by
  have hvl : IntAtom v.lowered := by rw [VarRef.lowered, hv]; exact toArg_intAtom v
  have hrv : readArg F diff s.m.store v.lowered = .ok (.int n) := by
    rw [readArg_intAtom F diff hs hvl, VarRef.lowered, atomValue_toArg, hn]
  unfold lowerCountJmp at h
  cases hk : I.countJmp k with
  | none => simp [hk] at h
  | some opc =>
    simp only [hk, hv, ne_eq, not_true_eq_false, ite_false] at h
    cases kw with
    | kif =>
      simp only [Outcome.ok.injEq, Prod.mk.injEq] at h
      obtain ⟨rfl, rfl⟩ := h
      refine ⟨Nat.le_refl _, by simp [labelsOf], by simp [labelsOf], ?_⟩
      cases htest : k.test (n - 1) <;>
        simp [execFrag, stepJ, hm, argVar_lowered, hrv, htest, Kw.takes, exitIf]
    | kunless =>
      simp only [] at h
      cases hj : lowerJmp I mask tgt with
      | err x => simp [hj] at h
      | panic x => simp [hj] at h
      | ok j =>
        have hjeq := lowerJmp_ok hj
        subst hjeq
        simp only [hj, Outcome.ok.injEq, Prod.mk.injEq] at h
        obtain ⟨rfl, rfl⟩ := h
        have hne : ¬ lg = tgt.l := by omega
        refine ⟨Nat.le_succ _, by simp [labelsOf], by simp [labelsOf], ?_⟩
        cases htest : k.test (n - 1)
        · -- the counter reached the end: fall into `goto target`
          refine ⟨⟨{ s.m with store := upd s.m.store v.name (.int (n - 1)) }, s.cmp⟩, ?_, rfl, rfl, rfl⟩
          simp [execFrag, stepJ, hm, argVar_lowered, hrv, htest, Kw.takes, exitIf, hne]
        · refine ⟨JM.setTime ⟨{ s.m with store := upd s.m.store v.name (.int (n - 1)) }, s.cmp⟩ t, ?_, rfl, rfl, ?_⟩
          · simp only [List.cons_append, List.nil_append, execFrag, stepJ, hm, argVar_lowered, hrv, htest, Kw.takes, exitIf]
            simp
          · simp [JM.setTime, ht]

/-- **lowerCondJump_sound**: `if (c) goto L @ t` / `unless (c) goto L @ t` for every integer condition (all
comparison and logical operators, `!`, any nesting, operands of any complexity, plain integer expressions,
constants) and for the counting conditions `--x`, `--x != 0`, `--x > 0`, under every intrinsic table in which the
lowering succeeds (one conditional jump per comparison or the cmp + jmp pair; either counting jump), every
store of integers, difficulty and value of the two counters: the emitted fragment is left EITHER by a jump to
`L` (carrying the time `t` of the statement, if given) OR at its end; by the jump IFF the source statement
jumps (`evalCond`: condition non-zero for `if`, zero for `unless`; for `--x` the flavour's test of the
decremented value); every variable below the temp counter ends as the source leaves it (unchanged, except `x`
of `--x`, decremented exactly once); nothing is logged; the time is kept; the labels the fragment defines are
fresh (≥ the label counter) and pairwise different. -/
theorem lowerCondJump_sound (F : FloatOps) (I : JIntrinsics) (db ab diff g lg : Nat) (t : Int) (mask : Nat) (kw : Kw)
    (c : JCond) (tgt : Goto) (code : List JStmt) (g' lg' : Nat) (s : JM) (taken : Bool) (σ' : Store)
    (hm : maskOn mask diff = true) (hc : CondOK g c) (hs : IntStore s.m.store) (ht : s.m.time = t) (htl : tgt.l < lg)
    (hsrc : evalCond F diff s.m.store c = .ok (taken, σ'))
    (h : lowerCondGoto I db ab g lg t mask kw c tgt = .ok (code, g', lg')) :
    g ≤ g' ∧ lg ≤ lg' ∧ (∀ l ∈ labelsOf code, lg ≤ l ∧ l < lg') ∧ (labelsOf code).Nodup ∧
    ∃ s', execFrag F diff .run code s = .ok (exitIf (kw.takes taken) tgt, s') ∧
      (∀ x, below g x → s'.m.store x = σ' x) ∧ s'.m.log = s.m.log ∧ s'.m.time = s.m.time := by
  cases c with
  | expr e =>
    obtain ⟨hi, hb⟩ := hc
    simp only [evalCond] at hsrc
    cases hev : evalS F diff s.m.store e with
    | err x => simp [hev] at hsrc
    | panic x => simp [hev] at hsrc
    | ok val =>
      obtain ⟨v, rfl⟩ := evalS_int F diff s.m.store hs hi hev
      simp only [hev, Outcome.ok.injEq, Prod.mk.injEq] at hsrc
      obtain ⟨rfl, rfl⟩ := hsrc
      simp only [lowerCondGoto] at h
      have S := (condSoundAt F I db ab diff (jumpFuel e)).1 g lg t mask kw e tgt code g' lg' s v hm hi hb hs hev ht htl h
      obtain ⟨s', hex, hframe, hlog, htime, _⟩ := S.run
      exact ⟨S.mono, S.lmono, S.labels, S.nodup, s', hex, hframe, hlog, htime⟩
  | predec v k =>
    have hv : v.readTy = .int := hc
    simp only [evalCond, evalS_var F diff hs hv] at hsrc
    obtain ⟨n, hn⟩ := hs v.name
    simp only [hn, Outcome.ok.injEq, Prod.mk.injEq] at hsrc
    obtain ⟨rfl, rfl⟩ := hsrc
    simp only [lowerCondGoto] at h
    cases hl : lowerCountJmp I lg t mask kw v k tgt with
    | err x => simp [hl] at h
    | panic x => simp [hl] at h
    | ok r =>
      obtain ⟨code', lg1⟩ := r
      simp only [hl, Outcome.ok.injEq, Prod.mk.injEq] at h
      obtain ⟨rfl, rfl, rfl⟩ := h
      obtain ⟨hlm, hlab, hnd, s', hex, hst, hlog, htime⟩ :=
        lowerCountJmp_sound F I diff lg t mask kw v k tgt code' lg1 s n hm hv hs hn ht htl hl
      exact ⟨Nat.le_refl _, hlm, hlab, hnd, s', hex, fun x _ => by rw [hst], hlog, htime⟩

/-- the same inside a whole lowered stream, for the program-counter machine `execJ` steps with (`Reach` is the
reflexive-transitive closure of its step function): if no label ≥ the label counter is defined before the
fragment, the machine started at the fragment either arrives at the statement after it (the source does not
jump) or at the place where the program defines `L`, with the time of the jump or of the label (the source
jumps) -/
theorem lowerCondJump_reach (F : FloatOps) (I : JIntrinsics) (db ab diff g lg : Nat) (t : Int) (mask : Nat) (kw : Kw)
    (c : JCond) (tgt : Goto) (code : List JStmt) (g' lg' : Nat) (s : JM) (taken : Bool) (σ' : Store) (pre post : List JStmt)
    (hm : maskOn mask diff = true) (hc : CondOK g c) (hs : IntStore s.m.store) (ht : s.m.time = t) (htl : tgt.l < lg)
    (hpre : ∀ l ∈ labelsOf pre, l < lg)
    (hsrc : evalCond F diff s.m.store c = .ok (taken, σ'))
    (h : lowerCondGoto I db ab g lg t mask kw c tgt = .ok (code, g', lg')) :
    ∃ s', (∀ x, below g x → s'.m.store x = σ' x) ∧ s'.m.log = s.m.log ∧ s'.m.time = s.m.time ∧
      (kw.takes taken = false → Reach F diff (pre ++ code ++ post) pre.length s (pre.length + code.length) s') ∧
      (kw.takes taken = true → ∀ i tl, findLabelJ (pre ++ code ++ post) tgt.l 0 = some (i, tl) →
        Reach F diff (pre ++ code ++ post) pre.length s i (s'.setTime (tgt.time.getD tl))) := by
  obtain ⟨_, _, hlab, hnd, s', hex, hframe, hlog, htime⟩ :=
    lowerCondJump_sound F I db ab diff g lg t mask kw c tgt code g' lg' s taken σ' hm hc hs ht htl hsrc h
  have hy : Hygienic pre code := ⟨hnd, fun l hl hp => by have := (hlab l hl).1; have := hpre l hp; omega⟩
  refine ⟨s', hframe, hlog, htime, ?_, ?_⟩
  · intro hk
    rw [hk, exitIf_false] at hex
    have := execFrag_reach F diff pre code post hy code.length 0 s s' .fall (by simp) (Nat.zero_le _) (by simpa using hex)
    simpa using this
  · intro hk i tl hi
    rw [hk, exitIf_true] at hex
    have := execFrag_reach F diff pre code post hy code.length 0 s s' (.jump tgt.l tgt.time) (by simp) (Nat.zero_le _)
      (by simpa using hex)
    simpa using this i tl hi


/-! ## 14. ternary -/

/-- the temp counter never decreases (no evaluation needed: also for code that is not executed) -/
def MonoAt (I : Intrinsics) (db ab fuel : Nat) : Prop :=
  (∀ g mask v e c g', IntOnly e → lowerSet I db ab fuel g mask v e = .ok (c, g') → g ≤ g') ∧
  (∀ g mask v ty guard e O, IntOnly e → lowerOperand I db ab fuel g mask v ty guard e = .ok O → g ≤ O.gen) ∧
  (∀ g mask v op a b c g', IntOnly a → IntOnly b → lowerBinop I db ab fuel g mask v op a b = .ok (c, g') → g ≤ g') ∧
  (∀ g mask v op b c g', IntOnly b → lowerUnop I db ab fuel g mask v op b = .ok (c, g') → g ≤ g')

theorem monoAt (I : Intrinsics) (db ab : Nat) : ∀ fuel, MonoAt I db ab fuel
  | 0 => by
    refine ⟨?_, ?_, ?_, ?_⟩ <;> intros <;> simp_all [lowerSet, lowerOperand, lowerBinop, lowerUnop]
  | fuel + 1 => by
    have ih := monoAt I db ab fuel
    refine ⟨?_, ?_, ?_, ?_⟩
    · intro g mask v e c g' hi h
      simp only [lowerSet] at h
      cases hsim : e.simple? with
      | some a =>
        simp only [hsim] at h
        cases hat : lowerAssignAtom I mask v .set a with
        | ok c' => simp only [hat, Outcome.ok.injEq, Prod.mk.injEq] at h; obtain ⟨_, rfl⟩ := h; exact Nat.le_refl _
        | err x => simp [hat] at h
        | panic x => simp [hat] at h
      | none =>
        simp only [hsim] at h
        obtain ⟨ht1, ht2, ht3⟩ := intOnly_temp hi
        simp only [ht1, ht2, ht3, ne_eq, not_true_eq_false, ite_false] at h
        cases e with
        | binop op a b => exact ih.2.2.1 g mask v op a b c g' hi.1 hi.2 h
        | unop op b => exact ih.2.2.2 g mask v op b c g' hi.2 h
        | litI _ => simp [SExpr.simple?] at hsim
        | var _ => simp [SExpr.simple?] at hsim
        | litF _ => exact absurd hi (by simp [IntOnly])
        | ternary _ _ _ => exact absurd hi (by simp [IntOnly])
        | switch _ => exact absurd hi (by simp [IntOnly])
        | omitted => exact absurd hi (by simp [IntOnly])
    · intro g mask v ty guard e O hi h
      simp only [lowerOperand] at h
      cases hsim : e.simple? with
      | some a => simp only [hsim, Outcome.ok.injEq] at h; subst h; exact Nat.le_refl _
      | none =>
        simp only [hsim] at h
        obtain ⟨ht1, ht2, ht3⟩ := intOnly_temp hi
        simp only [ht1, ht2, ht3] at h
        split at h
        · cases hl : lowerSet I db ab fuel g mask v e with
          | ok r =>
            obtain ⟨c, g1⟩ := r
            simp only [hl, Outcome.ok.injEq] at h; subst h
            exact ih.1 g mask v e c g1 hi hl
          | err x => simp [hl] at h
          | panic x => simp [hl] at h
        · cases hl : lowerSet I db ab fuel (g + 1) mask (tmpVar g .int) e with
          | ok r =>
            obtain ⟨c, g1⟩ := r
            simp only [hl, Outcome.ok.injEq] at h; subst h
            have := ih.1 (g + 1) mask (tmpVar g .int) e c g1 hi hl
            exact Nat.le_of_succ_le this
          | err x => simp [hl] at h
          | panic x => simp [hl] at h
    · intro g mask v op a b c g' hia hib h
      simp only [lowerBinop] at h
      cases hA : lowerOperand I db ab fuel g mask v (binopTy op a.ty) (!b.uses v.name) a with
      | err x => simp [hA] at h
      | panic x => simp [hA] at h
      | ok A =>
        simp only [hA] at h
        have h1 := ih.2.1 g mask v _ _ a A hia hA
        cases hB : lowerOperand I db ab fuel A.gen mask v (binopTy op a.ty) (!operandUses a v.name A.free) b with
        | err x => simp [hB] at h
        | panic x => simp [hB] at h
        | ok B =>
          simp only [hB] at h
          have h2 := ih.2.1 A.gen mask v _ _ b B hib hB
          cases hC : lowerBinopAtom I mask v op A.ty A.atom B.atom with
          | err x => simp [hC] at h
          | panic x => simp [hC] at h
          | ok c' =>
            simp only [hC, Outcome.ok.injEq, Prod.mk.injEq] at h
            obtain ⟨_, rfl⟩ := h
            exact Nat.le_trans h1 h2
    · intro g mask v op b c g' hib h
      simp only [lowerUnop] at h
      cases hB : lowerOperand I db ab fuel g mask v (unopTy op b.ty) true b with
      | err x => simp [hB] at h
      | panic x => simp [hB] at h
      | ok B =>
        simp only [hB] at h
        have h1 := ih.2.1 g mask v _ _ b B hib hB
        cases hC : lowerUnopAtom I mask v op B.ty B.atom with
        | err x => simp [hC] at h
        | panic x => simp [hC] at h
        | ok c' =>
          simp only [hC, Outcome.ok.injEq, Prod.mk.injEq] at h
          obtain ⟨_, rfl⟩ := h
          exact h1

/-- the code of `v = e` for an integer expression, as a fragment: whether or not it is executed it defines no
label, leaves the label counter alone and does not decrease the temp counter -/
theorem setJ_shape (I : JIntrinsics) (db ab fuel g lg : Nat) (t : Int) (mask : Nat) (v : VarRef) (e : SExpr)
    (code : List JStmt) (g' lg' : Nat) (hi : IntOnly e)
    (h : lowerSetJ I db ab fuel g lg t mask v e = .ok (code, g', lg')) :
    g ≤ g' ∧ lg = lg' ∧ labelsOf code = [] ∧ ∃ c, code = liftCode c ∧ lowerSet I.base db ab fuel g mask v e = .ok (c, g') := by
  rw [lowerSetJ_eq I db ab fuel g lg t mask v e hi] at h
  cases hl : lowerSet I.base db ab fuel g mask v e with
  | err x => simp [hl, liftRes] at h
  | panic x => simp [hl, liftRes] at h
  | ok r =>
    obtain ⟨c, g1⟩ := r
    simp only [hl, liftRes, Outcome.ok.injEq, Prod.mk.injEq] at h
    obtain ⟨rfl, rfl, rfl⟩ := h
    exact ⟨(monoAt I.base db ab fuel).1 g mask v e c g1 hi hl, rfl, labelsOf_lift c, c, rfl, rfl⟩

/-- `v = e` for an integer expression, executed as a fragment -/
theorem setJ_run (F : FloatOps) (I : JIntrinsics) (db ab diff fuel g lg : Nat) (t : Int) (mask : Nat) (v : VarRef) (e : SExpr)
    (code : List JStmt) (g' lg' : Nat) (s : JM) (val : Value) (cx : Ctx F diff g mask v e s.m val)
    (h : lowerSetJ I db ab fuel g lg t mask v e = .ok (code, g', lg')) :
    ∃ m', execFrag F diff .run code s = .ok (.fall, ⟨m', s.cmp⟩) ∧ m'.store v.name = val ∧
      (∀ x, x ≠ v.name → below g x → m'.store x = s.m.store x) ∧ m'.log = s.m.log ∧ m'.time = s.m.time ∧ IntStore m'.store := by
  obtain ⟨_, _, _, c, rfl, hl⟩ := setJ_shape I db ab fuel g lg t mask v e code g' lg' cx.intOnly h
  obtain ⟨_, m', hex, hval, hframe, hlog, htime, hint⟩ := lowerSet_sound F I.base db ab diff fuel g mask v e c g' s.m val cx hl
  exact ⟨m', execFrag_lift F diff s.cmp c s.m m' hex, hval, hframe, hlog, htime, hint⟩

theorem evalS_ternary_inv {F : FloatOps} {diff : Nat} {σ : Store} {c l r : SExpr} {val : Value}
    (h : evalS F diff σ (.ternary c l r) = .ok val) :
    ∃ vc, evalS F diff σ c = .ok (.int vc) ∧ evalS F diff σ (if vc = 0 then r else l) = .ok val := by
  simp only [evalS] at h
  cases hc : evalS F diff σ c with
  | ok x =>
    cases x with
    | int vc =>
      simp only [hc] at h
      refine ⟨vc, rfl, ?_⟩
      by_cases hz : vc = 0
      · simpa [hz] using h
      · simpa [hz] using h
    | float _ => simp [hc] at h
    | str _ => simp [hc] at h
  | err x => simp [hc] at h
  | panic x => simp [hc] at h

/-- **lowerTernary_sound** (as the expression compiler sees it): `v = c ? l : r` with an integer condition of any
shape and integer branches of any complexity, under every intrinsic table in which the lowering succeeds
(`unless (c) goto false; v = l; goto end; false: v = r; end:`): the emitted fragment runs to its end without
leaving, `v` holds the value of the branch the source selects - only the condition and THAT branch have to
evaluate (the other branch may divide by zero) -, no other variable below the temp counter changes, nothing is
logged, the time is kept, and the labels of the fragment are fresh and pairwise different. -/
theorem lowerTernarySet_sound (F : FloatOps) (I : JIntrinsics) (db ab diff fuel g lg : Nat) (t : Int) (mask : Nat) (v : VarRef)
    (c l r : SExpr) (code : List JStmt) (g' lg' : Nat) (s : JM) (val : Value)
    (hm : maskOn mask diff = true) (hv : v.readTy = .int) (hvb : below g v.name)
    (hic : IntOnly c) (hil : IntOnly l) (hir : IntOnly r)
    (hbc : exprBelow g c) (hbl : exprBelow g l) (hbr : exprBelow g r)
    (hs : IntStore s.m.store) (ht : s.m.time = t)
    (hev : evalS F diff s.m.store (.ternary c l r) = .ok val)
    (h : lowerSetJ I db ab fuel g lg t mask v (.ternary c l r) = .ok (code, g', lg')) :
    g ≤ g' ∧ lg ≤ lg' ∧ (∀ x ∈ labelsOf code, lg ≤ x ∧ x < lg') ∧ (labelsOf code).Nodup ∧
    ∃ s', execFrag F diff .run code s = .ok (.fall, s') ∧ s'.m.store v.name = val ∧
      (∀ x, x ≠ v.name → below g x → s'.m.store x = s.m.store x) ∧ s'.m.log = s.m.log ∧ s'.m.time = s.m.time ∧
      IntStore s'.m.store := by
  cases fuel with
  | zero => simp [lowerSetJ] at h
  | succ fuel =>
    have hty : (SExpr.ternary c l r).ty = l.ty := rfl
    simp only [lowerSetJ, SExpr.simple?, SExpr.temp, ne_eq, not_true_eq_false, ite_false] at h
    cases fuel with
    | zero => simp [lowerTernaryJ] at h
    | succ fuel =>
      simp only [lowerTernaryJ] at h
      obtain ⟨vc, hevc, hevb⟩ := evalS_ternary_inv hev
      cases h1 : lowerCondJ I db ab fuel g (lg + 2) t mask .kunless c ⟨lg, none⟩ with
      | err x => simp [h1] at h
      | panic x => simp [h1] at h
      | ok r1 =>
        obtain ⟨c1, g1, lg1⟩ := r1
        simp only [h1] at h
        have S1 := (condSoundAt F I db ab diff fuel).1 g (lg + 2) t mask .kunless c ⟨lg, none⟩ c1 g1 lg1 s vc hm hic hbc hs
          hevc ht (by show lg < lg + 2; omega) h1
        obtain ⟨s1, hex1, hframe1, hlog1, htime1, hint1⟩ := S1.run
        have hl1 := S1.lmono
        have hg1 := S1.mono
        cases h2 : lowerSetJ I db ab fuel g1 lg1 t mask v l with
        | err x => simp [h2] at h
        | panic x => simp [h2] at h
        | ok r2 =>
          obtain ⟨c2, g2, lg2⟩ := r2
          simp only [h2] at h
          obtain ⟨hg2, rfl, hlab2, cl, rfl, hcl⟩ := setJ_shape I db ab fuel g1 lg1 t mask v l c2 g2 lg2 hil h2
          cases hj : lowerJmp I mask ⟨lg + 1, none⟩ with
          | err x => simp [hj] at h
          | panic x => simp [hj] at h
          | ok j =>
            have hjeq := lowerJmp_ok hj
            subst hjeq
            simp only [hj] at h
            cases h3 : lowerSetJ I db ab fuel g2 lg1 t mask v r with
            | err x => simp [h3] at h
            | panic x => simp [h3] at h
            | ok r3 =>
              obtain ⟨c3, g3, lg3⟩ := r3
              simp only [h3, Outcome.ok.injEq, Prod.mk.injEq] at h
              obtain ⟨rfl, rfl, rfl⟩ := h
              obtain ⟨hg3, rfl, hlab3, cr, rfl, hcr⟩ := setJ_shape I db ab fuel g2 lg1 t mask v r c3 g3 lg3 hir h3
              -- labels of the whole fragment: those of the condition, `false` = lg and `end` = lg + 1
              have hlabs : labelsOf (c1 ++ (liftCode cl ++ ([JStmt.jmp mask (lg + 1) none] ++
                  (JStmt.label t lg :: (liftCode cr ++ [JStmt.label t (lg + 1)]))))) = labelsOf c1 ++ [lg, lg + 1] := by
                simp [labelsOf_append, labelsOf, hlab2, hlab3]
              refine ⟨by omega, by omega, ?_, ?_, ?_⟩
              · intro x hx
                rw [hlabs, List.mem_append] at hx
                rcases hx with hx | hx
                · have := S1.labels x hx; omega
                · simp only [List.mem_cons, List.not_mem_nil, or_false] at hx; omega
              · rw [hlabs]
                refine List.nodup_append.mpr ⟨S1.nodup, by simp, ?_⟩
                intro x hx y hy hxy
                have := S1.labels x hx
                simp only [List.mem_cons, List.not_mem_nil, or_false] at hy
                omega
              · by_cases hz : vc = 0
                · -- the condition is false: `unless` jumps to `false`, `v = r` runs
                  subst hz
                  simp only [if_true] at hevb
                  have htk : Kw.kunless.takes ((0 : Int32) != 0) = true := by decide
                  rw [htk, exitIf_true] at hex1
                  have hevr1 : evalS F diff s1.m.store r = .ok val := by
                    rw [← hevb]; apply evalS_congr F diff _ _ hir
                    intro z hz; exact hframe1 z (uses_below hbr hz)
                  have hg12 : g ≤ g2 := by omega
                  obtain ⟨m3, hex3, hval3, hframe3, hlog3, htime3, hint3⟩ :=
                    setJ_run F I db ab diff fuel g2 lg1 t mask v r (liftCode cr) g3 lg1 (s1.setTime t) val
                      ⟨hm, hv, below_mono hg12 hvb, hir, exprBelow_mono hg12 hbr, hint1, hevr1⟩ h3
                  refine ⟨⟨m3, s1.cmp⟩, ?_, hval3, ?_, by rw [hlog3]; exact hlog1, by rw [htime3]; exact ht.symm, hint3⟩
                  · refine execFrag_append_ok hex1 ?_
                    -- skip `v = l` and `goto end`, land on `false`
                    have hskip : execFrag F diff (.seek lg none) (liftCode cl) s1 = .ok (.jump lg none, s1) :=
                      execFrag_seek_skip F diff lg none _ s1 (by rw [hlab2]; intro l' hl'; cases hl')
                    refine execFrag_append_ok hskip ?_
                    show execFrag F diff (.seek lg none) ([JStmt.jmp mask (lg + 1) none] ++
                      (JStmt.label t lg :: (liftCode cr ++ [JStmt.label t (lg + 1)]))) s1 = _
                    simp only [List.cons_append, List.nil_append, execFrag, if_true, Option.getD_none]
                    refine execFrag_append_ok hex3 ?_
                    simp [modeOf, execFrag, stepJ, JM.setTime]
                  · intro x hx hxb
                    rw [hframe3 x hx (below_mono hg12 hxb)]
                    exact hframe1 x hxb
                · -- the condition is true: fall into `v = l`, then `goto end`
                  simp only [hz, if_false] at hevb
                  have htk : Kw.kunless.takes (vc != 0) = false := by simp [Kw.takes, bne, hz]
                  rw [htk, exitIf_false] at hex1
                  have hevl1 : evalS F diff s1.m.store l = .ok val := by
                    rw [← hevb]; apply evalS_congr F diff _ _ hil
                    intro z hz; exact hframe1 z (uses_below hbl hz)
                  obtain ⟨m2, hex2, hval2, hframe2, hlog2, htime2, hint2⟩ :=
                    setJ_run F I db ab diff fuel g1 lg1 t mask v l (liftCode cl) g2 lg1 s1 val
                      ⟨hm, hv, below_mono hg1 hvb, hil, exprBelow_mono hg1 hbl, hint1, hevl1⟩ h2
                  refine ⟨JM.setTime ⟨m2, s1.cmp⟩ t, ?_, hval2, ?_, by rw [setTime_log]; show m2.log = _; rw [hlog2]; exact hlog1,
                    by rw [setTime_time]; exact ht.symm, hint2⟩
                  · refine execFrag_append_ok hex1 (execFrag_append_ok hex2 ?_)
                    have hne : ¬ lg = lg + 1 := by omega
                    have hskip : execFrag F diff (.seek (lg + 1) none) (liftCode cr) ⟨m2, s1.cmp⟩ = .ok (.jump (lg + 1) none, ⟨m2, s1.cmp⟩) :=
                      execFrag_seek_skip F diff (lg + 1) none _ _ (by rw [hlab3]; intro l' hl'; cases hl')
                    show execFrag F diff .run ([JStmt.jmp mask (lg + 1) none] ++
                      (JStmt.label t lg :: (liftCode cr ++ [JStmt.label t (lg + 1)]))) ⟨m2, s1.cmp⟩ = _
                    simp only [List.cons_append, List.nil_append, execFrag, stepJ, hm, Bool.not_true, Bool.false_eq_true, if_false, hne]
                    refine execFrag_append_ok hskip ?_
                    simp [modeOf, execFrag]
                  · intro x hx hxb
                    show m2.store x = s.m.store x
                    rw [hframe2 x hx (below_mono hg1 hxb)]
                    exact hframe1 x hxb


/-- **lowerTernary_sound**: the statement `v = c ? l : r` (integer condition of any shape, integer branches of any
complexity, `v` an integer variable below the temp counter): whenever the source statement runs, the emitted
fragment runs to its end without leaving, and every variable below the temp counter, the log and the time
are as after the source statement; its labels are fresh and pairwise different. -/
theorem lowerTernary_sound (F : FloatOps) (I : JIntrinsics) (db ab diff g lg : Nat) (t : Int) (mask : Nat) (v : VarRef)
    (c l r : SExpr) (code : List JStmt) (g' lg' : Nat) (s : JM) (msrc : Machine)
    (hm : maskOn mask diff = true) (hv : v.readTy = .int) (hvb : below g v.name)
    (hic : IntOnly c) (hil : IntOnly l) (hir : IntOnly r)
    (hbc : exprBelow g c) (hbl : exprBelow g l) (hbr : exprBelow g r)
    (hs : IntStore s.m.store) (ht : s.m.time = t)
    (hsrc : runAssign F diff s.m v .set (.ternary c l r) = .ok msrc)
    (h : lowerAssignJ I db ab g lg t mask v .set (.ternary c l r) = .ok (code, g', lg')) :
    (∀ x ∈ labelsOf code, lg ≤ x ∧ x < lg') ∧ (labelsOf code).Nodup ∧
    ∃ s', execFrag F diff .run code s = .ok (.fall, s') ∧ (∀ x, below g x → s'.m.store x = msrc.store x) ∧
      s'.m.log = msrc.log ∧ s'.m.time = msrc.time := by
  simp only [runAssign, AssignOp.binop] at hsrc
  cases hev : evalS F diff s.m.store (.ternary c l r) with
  | err x => simp [hev] at hsrc
  | panic x => simp [hev] at hsrc
  | ok val =>
    simp only [hev, Outcome.ok.injEq] at hsrc
    subst hsrc
    simp only [lowerAssignJ] at h
    obtain ⟨_, _, hlab, hnd, s', hex, hval, hframe, hlog, htime, _⟩ :=
      lowerTernarySet_sound F I db ab diff _ g lg t mask v c l r code g' lg' s val hm hv hvb hic hil hir hbc hbl hbr hs ht hev h
    refine ⟨hlab, hnd, s', hex, ?_, hlog, htime⟩
    intro x hx
    by_cases hxv : x = v.name
    · subst hxv; simp [upd_same, hval]
    · simp [upd_other _ _ hxv, hframe x hxv hx]

/-! ## 15. what is NOT proved about jumps -/

mutual
/-- the variables occurring in an expression -/
def varRefs : SExpr → List VarRef
  | .var v => [v]
  | .unop _ e => varRefs e
  | .binop _ a b => varRefs a ++ varRefs b
  | .ternary c l r => varRefs c ++ varRefs l ++ varRefs r
  | .switch cs => varRefsList cs
  | _ => []
def varRefsList : List SExpr → List VarRef
  | [] => []
  | c :: cs => varRefs c ++ varRefsList cs
end

def tyOfRTy : RTy → Ty
  | .int => .int
  | .float => .float

/-- every variable of the condition holds a value of its own type and is below the temp counter -/
def CondTyped (σ : Store) (g : Nat) : JCond → Prop
  | .expr e => ∀ v ∈ varRefs e, (σ v.name).ty = tyOfRTy v.inherent ∧ below g v.name
  | .predec v _ => (σ v.name).ty = tyOfRTy v.inherent ∧ below g v.name

/-- float comparisons behave like an order (no NaN among the values compared): what `negate_comparison` needs -/
def FloatsOrdered (F : FloatOps) : Prop :=
  ∀ a b, F.le a b = !F.lt b a

/-- **conditional jumps as C02 states them** (NOT proved): ANY condition that the source evaluates - float
comparisons (given `FloatsOrdered`; `nan_negation_witness` shows that it cannot be dropped), casts and sigils,
difficulty switches and ternaries inside the condition -, from stores typed like their variables.
`lowerCondJump_sound` proves the integer fragment. -/
def lowerCondJump_full : Prop :=
  ∀ (F : FloatOps) (I : JIntrinsics) (db ab diff g lg : Nat) (t : Int) (mask : Nat) (kw : Kw) (c : JCond) (tgt : Goto)
    (code : List JStmt) (g' lg' : Nat) (s : JM) (taken : Bool) (σ' : Store),
    maskOn mask diff = true → FloatsOrdered F → CondTyped s.m.store g c → s.m.time = t → tgt.l < lg →
    evalCond F diff s.m.store c = .ok (taken, σ') →
    lowerCondGoto I db ab g lg t mask kw c tgt = .ok (code, g', lg') →
    ∃ s', execFrag F diff .run code s = .ok (exitIf (kw.takes taken) tgt, s') ∧
      (∀ x, below g x → s'.m.store x = σ' x) ∧ s'.m.log = s.m.log ∧ s'.m.time = s.m.time

/-- **ternaries as C02 states them** (NOT proved): `v op= e` for any assignment operator and any expression `e`
containing ternaries anywhere (in operands of operators, in conditions, in branches, in call arguments, in
difficulty switches), of either type.  `lowerTernary_sound` proves `v = c ? l : r` for integer `c`, `l`, `r`
without further ternaries. -/
def lowerTernary_full : Prop :=
  ∀ (F : FloatOps) (I : JIntrinsics) (db ab diff g lg : Nat) (t : Int) (mask : Nat) (v : VarRef) (op : AssignOp) (e : SExpr)
    (code : List JStmt) (g' lg' : Nat) (s : JM) (msrc : Machine),
    maskOn mask diff = true → FloatsOrdered F → CondTyped s.m.store g (.expr (.binop .add (.var v) e)) → s.m.time = t →
    runAssign F diff s.m v op e = .ok msrc →
    lowerAssignJ I db ab g lg t mask v op e = .ok (code, g', lg') →
    ∃ s', execFrag F diff .run code s = .ok (.fall, s') ∧ (∀ x, below g x → s'.m.store x = msrc.store x) ∧
      s'.m.log = msrc.log ∧ s'.m.time = msrc.time

/-! ## 16. the hypotheses are satisfiable; the NaN witness -/

/-- a native conditional jump for every comparison, both counting jumps -/
def jNative : JIntrinsics := ⟨allNative, some 1, fun _ _ => some 4, fun _ => none, fun _ => none, fun _ => some 5⟩
/-- no single conditional jump: the cmp + jmp pair; arithmetic through the fallbacks; only `--x > 0` -/
def jTwoPart : JIntrinsics :=
  ⟨fallbacksOnly, some 1, fun _ _ => none, fun _ => some 6, fun _ => some 7, fun k => if k = .gt then some 5 else none⟩

/-- `(A < B * -(A + 1) && !(A == 3)) || B` -/
def sampleCond : SExpr :=
  .binop .lor
    (.binop .land (.binop .lt (.var rA) (.binop .mul (.var rB) (.unop .neg (.binop .add (.var rA) (.litI 1)))))
      (.unop .not (.binop .eq (.var rA) (.litI 3))))
    (.var rB)

example : IntOnly sampleCond := by simp [sampleCond, IntOnly, rA, rB, VarRef.readTy]
example : exprBelow 100 sampleCond := by simp [sampleCond, exprBelow, below, rA, rB]
example : CondOK 100 (.expr sampleCond) :=
  ⟨by simp [sampleCond, IntOnly, rA, rB, VarRef.readTy], by simp [sampleCond, exprBelow, below, rA, rB]⟩
example : CondOK 100 (.predec rA .gt) := rfl

def shapeOf : Outcome (List JStmt × Gen × Nat) → Option (Nat × Gen × Nat)
  | .ok (c, g, lg) => some (c.length, g, lg)
  | _ => none

def exitOf : Outcome (Exit × JM) → Option Exit
  | .ok (e, _) => some e
  | _ => none

def takenOf : Outcome (Bool × Store) → Option Bool
  | .ok (b, _) => some b
  | _ => none

def codeOf : Outcome (List JStmt × Gen × Nat) → List JStmt
  | .ok (c, _, _) => c
  | _ => []

def all7 : JM := ⟨⟨fun _ => .int 7, [], 0⟩, none⟩

/-- the lowering succeeds under both tables and uses one temporary; `if` needs one skip label (for the `&&`),
`unless` two (the `||` is then the hard case as well) -/
example : shapeOf (lowerCondGoto jNative 255 0 100 1000 0 255 .kif (.expr sampleCond) ⟨7, none⟩) = some (10, 101, 1001) := by
  decide +kernel
example : shapeOf (lowerCondGoto jTwoPart 255 0 100 1000 0 255 .kunless (.expr sampleCond) ⟨7, some 30⟩) = some (15, 101, 1002) := by
  decide +kernel
/-- from the store "everything is 7" the condition is 7 (true): `if` jumps to label 7, `unless` falls through -/
example : takenOf (evalCond someFloats 0 all7.m.store (.expr sampleCond)) = some true := by decide +kernel
example : exitOf (execFrag someFloats 0 .run (codeOf (lowerCondGoto jNative 255 0 100 1000 0 255 .kif (.expr sampleCond) ⟨7, none⟩)) all7) =
    some (.jump 7 none) := by decide +kernel
example : exitOf (execFrag someFloats 0 .run (codeOf (lowerCondGoto jTwoPart 255 0 100 1000 0 255 .kunless (.expr sampleCond) ⟨7, some 30⟩)) all7) =
    some .fall := by decide +kernel
/-- `unless (--A > 0) goto 7` from A = 7: the counter becomes 6, no jump -/
example : exitOf (execFrag someFloats 0 .run (codeOf (lowerCondGoto jTwoPart 255 0 100 1000 0 255 .kunless (.predec rA .gt) ⟨7, none⟩)) all7) =
    some .fall := by decide +kernel
/-- `A = (A < B || !B) ? A / (B - 7) : A * B + 1` from "everything is 7": the condition is false, the first branch
(which divides by zero) is not evaluated -/
def sampleTernary : SExpr :=
  .ternary (.binop .lor (.binop .lt (.var rA) (.var rB)) (.unop .not (.var rB)))
    (.binop .div (.var rA) (.binop .sub (.var rB) (.litI 7)))
    (.binop .add (.binop .mul (.var rA) (.var rB)) (.litI 1))
example : shapeOf (lowerAssignJ jTwoPart 255 0 100 1000 0 255 rA .set sampleTernary) = some (15, 101, 1003) := by decide +kernel

def valueOf : Outcome Value → Option Int32
  | .ok (.int n) => some n
  | _ => none
example : valueOf (evalS someFloats 0 all7.m.store sampleTernary) = some 50 := by decide +kernel

/-- all comparisons false: every float is a NaN -/
def fA : VarRef := ⟨.reg 1010, none, .float⟩
def fB : VarRef := ⟨.reg 1011, none, .float⟩
def allNaN : JM := ⟨⟨fun _ => .float 0x7FC00000, [], 0⟩, none⟩

/-- **the NaN witness**: `unless (A > B) goto 7` where the comparisons of `A` and `B` are all false (NaN): the
source jumps (`A > B` is false), the emitted `if (A <= B) goto 7` does not.  Negated float comparisons are
sound only without NaN (`FloatsOrdered`); this is the open finding
`float-comparison-negated-by-compiler-sees-nan`. -/
theorem nan_negation_witness :
    takenOf (evalCond someFloats 0 allNaN.m.store (.expr (.binop .gt (.var fA) (.var fB)))) = some false ∧
    Kw.kunless.takes false = true ∧
    exitOf (execFrag someFloats 0 .run
      (codeOf (lowerCondGoto jNative 255 0 100 1000 0 255 .kunless (.expr (.binop .gt (.var fA) (.var fB))) ⟨7, none⟩)) allNaN) =
      some .fall := by
  refine ⟨by decide +kernel, rfl, by decide +kernel⟩

/-- **a jump instruction without a time argument loses the explicit time** (`JumpArgOrder::Loc`, e.g. TH06 ANM
`ins_5`): `goto L @ t` and `goto L` are encoded identically, so the written instruction cannot behave like the
source `goto L @ t` unless `t` happens to be the time of `L`.  `populate_time_args` drops the time without a
diagnostic (finding `explicit-jump-time-dropped-when-jump-has-no-time-argument`); the theorems above are about
the lowered stream BEFORE this encoding, where the time is still there. -/
theorem loc_order_drops_time (l : Nat) (t : Int) : jumpArgs .loc l (some t) = jumpArgs .loc l none := rfl

/-- with a time argument the two are different instructions (so the loss is specific to `Loc`) -/
example : jumpArgs .locTime 3 (some 10) ≠ jumpArgs .locTime 3 none := by simp [jumpArgs]

/-! ## 17. whole flat bodies: the statements -/

/-- the source machine of `Model/BodySem.lean` runs the statements `runStmt` runs -/
theorem runStmtS_eq (F : FloatOps) (diff : Nat) (m : Machine) (s : SStmt) : runStmtS F diff m s = runStmt F diff m s := by
  cases s with
  | decl d ty init => cases init <;> rfl
  | _ => rfl

theorem upd_agree {g0 : Nat} {σ τ : Store} (h : ∀ x, below g0 x → σ x = τ x) (n : VarName) (val : Value) :
    ∀ x, below g0 x → upd σ n val x = upd τ n val x := by
  intro x hx
  by_cases hxn : x = n
  · subst hxn; simp [upd_same]
  · rw [upd_other _ _ hxn, upd_other _ _ hxn]; exact h x hx

/-- the source statement only looks at the variables below the temp counter -/
theorem runAssign_congr (F : FloatOps) (diff g0 : Nat) {a b b' : Machine} {v : VarRef} {op : AssignOp} {e : SExpr}
    (hv : below g0 v.name) (hi : IntOnly e) (hb : exprBelow g0 e)
    (hst : ∀ x, below g0 x → a.store x = b.store x) (hlog : a.log = b.log) (htime : a.time = b.time)
    (h : runAssign F diff b v op e = .ok b') :
    ∃ a', runAssign F diff a v op e = .ok a' ∧ (∀ x, below g0 x → a'.store x = b'.store x) ∧ a'.log = b'.log ∧
      a'.time = b'.time := by
  have he : evalS F diff a.store e = evalS F diff b.store e :=
    evalS_congr F diff _ _ hi (fun x hx => hst x (uses_below hb hx))
  have hv' : evalS F diff a.store (.var v) = evalS F diff b.store (.var v) := by simp only [evalS, hst v.name hv]
  unfold runAssign at h ⊢
  rw [he, hv']
  cases hop : op.binop with
  | none =>
    simp only [hop] at h ⊢
    cases hx : evalS F diff b.store e with
    | ok x =>
      simp only [hx, Outcome.ok.injEq] at h ⊢
      subst h
      exact ⟨_, rfl, upd_agree hst _ _, hlog, htime⟩
    | err c => simp [hx] at h
    | panic p => simp [hx] at h
  | some bop =>
    simp only [hop] at h ⊢
    cases hy : evalS F diff b.store (.var v) with
    | ok va =>
      cases hx : evalS F diff b.store e with
      | ok vb =>
        simp only [hx, hy] at h ⊢
        cases hr : binop F bop va vb with
        | ok r =>
          simp only [hr, Outcome.ok.injEq] at h ⊢
          subst h
          exact ⟨_, rfl, upd_agree hst _ _, hlog, htime⟩
        | err c => simp [hr] at h
        | panic p => simp [hr] at h
      | err c => simp [hx, hy] at h
      | panic p => simp [hx, hy] at h
    | err c => cases hx : evalS F diff b.store e <;> simp [hx, hy] at h
    | panic p => cases hx : evalS F diff b.store e <;> simp [hx, hy] at h

theorem runCall_congr (F : FloatOps) (diff g0 : Nat) {a b b' : Machine} {opcode : Nat} {args : List SExpr}
    (hi : ∀ e ∈ args, IntOnly e) (hb : ∀ e ∈ args, exprBelow g0 e)
    (hst : ∀ x, below g0 x → a.store x = b.store x) (hlog : a.log = b.log) (htime : a.time = b.time)
    (h : runCall F diff b opcode args = .ok b') :
    ∃ a', runCall F diff a opcode args = .ok a' ∧ (∀ x, below g0 x → a'.store x = b'.store x) ∧ a'.log = b'.log ∧
      a'.time = b'.time := by
  have he := evalArgs_congr F diff a.store b.store g0 args hi hb hst
  unfold runCall at h ⊢
  rw [he]
  cases hx : evalArgs F diff b.store args with
  | ok vs =>
    simp only [hx, Outcome.ok.injEq] at h ⊢
    subst h
    exact ⟨_, rfl, hst, by simp [hlog], htime⟩
  | err c => simp [hx] at h
  | panic p => simp [hx] at h

theorem evalCond_congr (F : FloatOps) (diff g0 : Nat) {σ τ τ' : Store} {c : JCond} {taken : Bool}
    (hc : CondOK g0 c) (hcv : ∀ v k, c = .predec v k → below g0 v.name)
    (hst : ∀ x, below g0 x → σ x = τ x) (h : evalCond F diff τ c = .ok (taken, τ')) :
    ∃ σ', evalCond F diff σ c = .ok (taken, σ') ∧ ∀ x, below g0 x → σ' x = τ' x := by
  cases c with
  | expr e =>
    obtain ⟨hi, hb⟩ := hc
    have he : evalS F diff σ e = evalS F diff τ e := evalS_congr F diff _ _ hi (fun x hx => hst x (uses_below hb hx))
    simp only [evalCond] at h ⊢
    rw [he]
    repeat' split at h
    all_goals first
      | (cases h; done)
      | (simp only [Outcome.ok.injEq, Prod.mk.injEq] at h; obtain ⟨rfl, rfl⟩ := h; exact ⟨σ, rfl, hst⟩)
  | predec v k =>
    have hvb := hcv v k rfl
    have he : evalS F diff σ (.var v) = evalS F diff τ (.var v) := by simp only [evalS, hst v.name hvb]
    simp only [evalCond] at h ⊢
    rw [he]
    repeat' split at h
    all_goals first
      | (cases h; done)
      | (simp only [Outcome.ok.injEq, Prod.mk.injEq] at h; obtain ⟨rfl, rfl⟩ := h; exact ⟨_, rfl, upd_agree hst _ _⟩)


/-! ### the statements on the target side, with the invariant `IntStore` carried along -/

theorem liftCode_cons (s : LStmt) (c : List LStmt) : liftCode (s :: c) = .base s :: liftCode c := rfl

theorem binop_int_result {F : FloatOps} {b : BinOp} {x y : Int32} {r : Value} (h : binop F b (.int x) (.int y) = .ok r) :
    ∃ n, r = .int n := binopInt_int b x y r h

/-- `v = e` / `v op= e` in the model with labels (its own fuel), executed as a fragment; like
`lowerAssign_sound_partial`, and the store stays a store of integers -/
theorem lowerAssignJ_sound (F : FloatOps) (I : JIntrinsics) (db ab diff g lg : Nat) (t : Int) (mask : Nat) (v : VarRef)
    (op : AssignOp) (e : SExpr) (code : List JStmt) (g' lg' : Nat) (s : JM) (msrc : Machine)
    (hm : maskOn mask diff = true) (hv : v.readTy = .int) (hvb : below g v.name) (hi : IntOnly e)
    (hb : exprBelow g e) (hs : IntStore s.m.store)
    (hsrc : runAssign F diff s.m v op e = .ok msrc)
    (h : lowerAssignJ I db ab g lg t mask v op e = .ok (code, g', lg')) :
    ∃ m', execFrag F diff .run code s = .ok (.fall, ⟨m', s.cmp⟩) ∧ (∀ x, below g x → m'.store x = msrc.store x) ∧
      m'.log = msrc.log ∧ m'.time = msrc.time ∧ IntStore m'.store := by
  unfold runAssign at hsrc
  cases hbop : op.binop with
  | none =>
    have hop : op = .set := by cases op <;> simp [AssignOp.binop] at hbop <;> rfl
    subst hop
    simp only [hbop] at hsrc
    cases hev : evalS F diff s.m.store e with
    | ok val =>
      simp only [hev, Outcome.ok.injEq] at hsrc
      subst hsrc
      simp only [lowerAssignJ] at h
      obtain ⟨m', hex, hval, hframe, hlog, htime, hint⟩ :=
        setJ_run F I db ab diff _ g lg t mask v e code g' lg' s val ⟨hm, hv, hvb, hi, hb, hs, hev⟩ h
      refine ⟨m', hex, ?_, hlog, htime, hint⟩
      intro x hx
      by_cases hxv : x = v.name
      · subst hxv; simp [upd_same, hval]
      · simp [upd_other _ _ hxv, hframe x hxv hx]
    | err c => simp [hev] at hsrc
    | panic p => simp [hev] at hsrc
  | some b =>
    have hne : op ≠ .set := by intro hh; subst hh; simp [AssignOp.binop] at hbop
    simp only [hbop, evalS_var F diff hs hv] at hsrc
    cases hev : evalS F diff s.m.store e with
    | err c => simp [hev] at hsrc
    | panic p => simp [hev] at hsrc
    | ok vb =>
      simp only [hev] at hsrc
      cases hr : binop F b (s.m.store v.name) vb with
      | err c => simp [hr] at hsrc
      | panic p => simp [hr] at hsrc
      | ok r =>
        simp only [hr, Outcome.ok.injEq] at hsrc
        subst hsrc
        obtain ⟨nv, hnv⟩ := hs v.name
        obtain ⟨nb, rfl⟩ := evalS_int F diff s.m.store hs hi hev
        obtain ⟨nr, rfl⟩ : ∃ n, r = .int n := by rw [hnv] at hr; exact binop_int_result hr
        have hl : lowerAssignJ I db ab g lg t mask v op e =
            (match e.simple? with
            | some a => liftAtom (lowerAssignAtom I.base mask v op a) g lg
            | none =>
              match lowerSetJ I db ab (jumpFuel e) (g + 1) lg t mask (tmpVar g e.temp.tmpTy) e.temp.tmpExpr with
              | .ok (c1, g1, lg1) =>
                match lowerAssignAtom I.base mask v op (.loc g e.temp.readTy) with
                | .ok c2 => .ok (.base (.alloc g e.temp.tmpTy) :: c1 ++ liftCode c2 ++ [.base (.free g)], g1, lg1)
                | .err x => .err x
                | .panic x => .panic x
              | .err x => .err x
              | .panic x => .panic x) := by
          cases op <;> first | exact absurd rfl hne | rfl
        rw [hl] at h
        cases hsim : e.simple? with
        | some a =>
          simp only [hsim] at h
          cases hat : lowerAssignAtom I.base mask v op a with
          | err x => simp [hat, liftAtom] at h
          | panic x => simp [hat, liftAtom] at h
          | ok c =>
            simp only [hat, liftAtom, Outcome.ok.injEq, Prod.mk.injEq] at h
            obtain ⟨rfl, rfl, rfl⟩ := h
            obtain ⟨hatom, hval, _⟩ := simple_spec F diff hi hsim
            have hva := hval s.m.store hs
            rw [hev] at hva
            simp only [Outcome.ok.injEq] at hva
            rw [hva] at hr
            have hex := exec_opAtom F I.base diff mask v op b a c s.m (.int nr) hbop hm hs hv hatom hr hat
            exact ⟨_, execFrag_lift F diff s.cmp c s.m _ hex, fun _ _ => rfl, rfl, rfl, intStore_upd hs _ _⟩
        | none =>
          simp only [hsim] at h
          obtain ⟨ht1, ht2, ht3⟩ := intOnly_temp hi
          simp only [ht1, ht2, ht3] at h
          cases hl1 : lowerSetJ I db ab (jumpFuel e) (g + 1) lg t mask (tmpVar g .int) e with
          | err x => simp [hl1] at h
          | panic x => simp [hl1] at h
          | ok p =>
            obtain ⟨c1, g1, lg1⟩ := p
            simp only [hl1] at h
            cases hat : lowerAssignAtom I.base mask v op (.loc g .int) with
            | err x => simp [hat] at h
            | panic x => simp [hat] at h
            | ok c2 =>
              simp only [hat, Outcome.ok.injEq, Prod.mk.injEq] at h
              obtain ⟨rfl, rfl, rfl⟩ := h
              obtain ⟨_, _, _, c1', rfl, hl1'⟩ := setJ_shape I db ab _ (g + 1) lg t mask (tmpVar g .int) e c1 g1 lg1 hi hl1
              obtain ⟨_, m1, hex1, hval1, hframe1, hlog1, htime1, hint1⟩ :=
                lowerSet_sound F I.base db ab diff _ (g + 1) mask (tmpVar g .int) e c1' g1 s.m (.int nb)
                  ⟨hm, rfl, Nat.lt_succ_self g, hi, exprBelow_mono (Nat.le_succ g) hb, hs, hev⟩ hl1'
              have hvsame : m1.store v.name = s.m.store v.name :=
                hframe1 _ (ne_of_below hvb) (below_mono (Nat.le_succ g) hvb)
              have hr1 : binop F b (m1.store v.name) (atomValue m1.store (.loc g .int)) = .ok (.int nr) := by
                rw [hvsame]; simp only [atomValue]; rw [show m1.store (.loc g) = .int nb from hval1]; exact hr
              have hex2 := exec_opAtom F I.base diff mask v op b (.loc g .int) c2 m1 (.int nr) hbop hm hint1 hv (.loc g) hr1 hat
              have hcode : (JStmt.base (.alloc g .int) :: liftCode c1' ++ liftCode c2 ++ [JStmt.base (.free g)]) =
                  liftCode (.alloc g .int :: c1' ++ c2 ++ [.free g]) := by
                simp [liftCode]
              rw [hcode]
              refine ⟨{ m1 with store := upd m1.store v.name (.int nr) }, ?_, ?_, hlog1, htime1, intStore_upd hint1 _ _⟩
              · apply execFrag_lift
                rw [List.cons_append, List.cons_append, exec_alloc]
                exact exec_append_ok (exec_append_ok hex1 hex2) rfl
              · intro x hx
                show upd m1.store v.name (.int nr) x = upd s.m.store v.name (.int nr) x
                by_cases hxv : x = v.name
                · subst hxv; simp [upd_same]
                · rw [upd_other _ _ hxv, upd_other _ _ hxv]
                  exact hframe1 x (ne_of_below hx) (below_mono (Nat.le_succ g) hx)

/-- arguments of a call in the model with labels: straight-line code, as `lowerArgs_sound` describes it -/
theorem lowerArgsJ_sound (F : FloatOps) (I : JIntrinsics) (db ab diff : Nat) (t : Int) (mask : Nat) (hm : maskOn mask diff = true) :
    ∀ (args : List SExpr) (g lg : Nat) (cJ : List JStmt) (as : List Arg) (ds : List Def) (g' lg' : Nat) (m : Machine)
      (vals : List Value),
      (∀ e ∈ args, IntOnly e) → (∀ e ∈ args, exprBelow g e) → IntStore m.store →
      evalArgs F diff m.store args = .ok vals →
      lowerArgsJ I db ab t mask g lg args = .ok (cJ, as, ds, g', lg') →
      ∃ c, cJ = liftCode c ∧ g ≤ g' ∧ ∃ m', exec F diff m c = .ok m' ∧ readArgs F diff m'.store as = .ok vals ∧
        (∀ x, below g x → m'.store x = m.store x) ∧ m'.log = m.log ∧ m'.time = m.time ∧ IntStore m'.store
  | [], g, lg, cJ, as, ds, g', lg', m, vals, _, _, hs, hev, h => by
    simp only [lowerArgsJ, Outcome.ok.injEq, Prod.mk.injEq] at h
    obtain ⟨rfl, rfl, rfl, rfl, rfl⟩ := h
    simp only [evalArgs, Outcome.ok.injEq] at hev
    subst hev
    exact ⟨[], rfl, Nat.le_refl _, m, rfl, rfl, fun _ _ => rfl, rfl, rfl, hs⟩
  | e :: es, g, lg, cJ, as, ds, g', lg', m, vals, hi, hb, hs, hev, h => by
    obtain ⟨v, vs, rfl, hev1, hev2⟩ := evalArgs_cons_inv hev
    have hie := hi e (by simp)
    have hbe := hb e (by simp)
    have hies : ∀ e' ∈ es, IntOnly e' := fun e' he => hi e' (by simp [he])
    have hbes : ∀ e' ∈ es, exprBelow g e' := fun e' he => hb e' (by simp [he])
    simp only [lowerArgsJ] at h
    cases hsim : e.simple? with
    | some a =>
      simp only [hsim] at h
      cases hrest : lowerArgsJ I db ab t mask g lg es with
      | err x => simp [hrest] at h
      | panic x => simp [hrest] at h
      | ok r =>
        obtain ⟨c', as', ds', g1, lg1⟩ := r
        simp only [hrest, Outcome.ok.injEq, Prod.mk.injEq] at h
        obtain ⟨rfl, rfl, rfl, rfl, rfl⟩ := h
        obtain ⟨c, rfl, hmono, m', hex, hread, hframe, hlog, htime, hint⟩ :=
          lowerArgsJ_sound F I db ab diff t mask hm es g lg c' as' ds' g1 lg1 m vs hies hbes hs hev2 hrest
        obtain ⟨hatom, hval, huse⟩ := simple_spec F diff hie hsim
        have hva := hval m.store hs
        rw [hev1] at hva
        simp only [Outcome.ok.injEq] at hva
        have hra : readArg F diff m'.store a = .ok v := by
          rw [readArg_intAtom F diff hint hatom, hva]
          congr 1
          exact atomValue_congr (fun y hy => hframe y (uses_below hbe (huse y hy)))
        exact ⟨c, rfl, hmono, m', hex, by simp only [readArgs, hra, hread], hframe, hlog, htime, hint⟩
    | none =>
      simp only [hsim] at h
      obtain ⟨ht1, ht2, ht3⟩ := intOnly_temp hie
      simp only [ht1, ht2, ht3] at h
      cases hl1 : lowerSetJ I db ab (jumpFuel e) (g + 1) lg t mask (tmpVar g .int) e with
      | err x => simp [hl1] at h
      | panic x => simp [hl1] at h
      | ok p =>
        obtain ⟨c1, g1, lg1⟩ := p
        simp only [hl1] at h
        cases hrest : lowerArgsJ I db ab t mask g1 lg1 es with
        | err x => simp [hrest] at h
        | panic x => simp [hrest] at h
        | ok r =>
          obtain ⟨c', as', ds', g2, lg2⟩ := r
          simp only [hrest, Outcome.ok.injEq, Prod.mk.injEq] at h
          obtain ⟨rfl, rfl, rfl, rfl, rfl⟩ := h
          obtain ⟨_, _, _, c1', rfl, hl1'⟩ := setJ_shape I db ab _ (g + 1) lg t mask (tmpVar g .int) e c1 g1 lg1 hie hl1
          obtain ⟨hmono1, m1, hex1, hval1, hframe1, hlog1, htime1, hint1⟩ :=
            lowerSet_sound F I.base db ab diff _ (g + 1) mask (tmpVar g .int) e c1' g1 m v
              ⟨hm, rfl, Nat.lt_succ_self g, hie, exprBelow_mono (Nat.le_succ g) hbe, hs, hev1⟩ hl1'
          have hg1 : g ≤ g1 := Nat.le_trans (Nat.le_succ g) hmono1
          have hsame : ∀ x, below g x → m1.store x = m.store x :=
            fun x hx => hframe1 x (ne_of_below hx) (below_mono (Nat.le_succ g) hx)
          have hev2' : evalArgs F diff m1.store es = .ok vs := by
            rw [evalArgs_congr F diff m1.store m.store g es hies hbes hsame]; exact hev2
          obtain ⟨c2, rfl, hmono2, m', hex2, hread, hframe2, hlog2, htime2, hint2⟩ :=
            lowerArgsJ_sound F I db ab diff t mask hm es g1 lg1 c' as' ds' g2 lg2 m1 vs hies
              (fun e' he => exprBelow_mono hg1 (hbes e' he)) hint1 hev2' hrest
          have hkeep : m'.store (.loc g) = v := by
            rw [hframe2 (.loc g) (Nat.lt_of_lt_of_le (Nat.lt_succ_self g) hmono1)]; exact hval1
          have hra : readArg F diff m'.store (.loc g .int) = .ok v := by
            rw [readArg_intAtom F diff hint2 (.loc g)]; simp only [atomValue, hkeep]
          refine ⟨.alloc g .int :: c1' ++ c2, by simp [liftCode], Nat.le_trans hg1 hmono2, m', ?_,
            by simp only [readArgs, hra, hread], ?_, ?_, ?_, hint2⟩
          · rw [List.cons_append, exec_alloc]; exact exec_append_ok hex1 hex2
          · intro x hx; rw [hframe2 x (below_mono hg1 hx), hsame x hx]
          · rw [hlog2, hlog1]
          · rw [htime2, htime1]

/-- an instruction call in the model with labels, executed as a fragment -/
theorem lowerCallJ_sound (F : FloatOps) (I : JIntrinsics) (db ab diff g lg : Nat) (t : Int) (mask opcode : Nat)
    (args : List SExpr) (code : List JStmt) (g' lg' : Nat) (s : JM) (msrc : Machine)
    (hm : maskOn mask diff = true) (hi : ∀ e ∈ args, IntOnly e) (hb : ∀ e ∈ args, exprBelow g e)
    (hs : IntStore s.m.store) (hsrc : runCall F diff s.m opcode args = .ok msrc)
    (h : lowerCallJ I db ab g lg t mask opcode args = .ok (code, g', lg')) :
    ∃ m', execFrag F diff .run code s = .ok (.fall, ⟨m', s.cmp⟩) ∧ (∀ x, below g x → m'.store x = msrc.store x) ∧
      m'.log = msrc.log ∧ m'.time = msrc.time ∧ IntStore m'.store := by
  unfold runCall at hsrc
  cases hev : evalArgs F diff s.m.store args with
  | err c => simp [hev] at hsrc
  | panic p => simp [hev] at hsrc
  | ok vals =>
    simp only [hev, Outcome.ok.injEq] at hsrc
    subst hsrc
    unfold lowerCallJ at h
    cases hl : lowerArgsJ I db ab t mask g lg args with
    | err x => simp [hl] at h
    | panic x => simp [hl] at h
    | ok r =>
      obtain ⟨cJ, as, ds, g1, lg1⟩ := r
      simp only [hl, Outcome.ok.injEq, Prod.mk.injEq] at h
      obtain ⟨rfl, rfl, rfl⟩ := h
      obtain ⟨c, rfl, _, m', hex, hread, hframe, hlog, htime, hint⟩ :=
        lowerArgsJ_sound F I db ab diff t mask hm args g lg cJ as ds g1 lg1 s.m vals hi hb hs hev hl
      have hins : exec F diff m' [.instr ⟨mask, .plain opcode, as⟩] =
          .ok { m' with log := m'.log ++ [(opcode, vals)] } := by
        simp [exec, execStmt, execInstr, hm, hread]
      have hcode : liftCode c ++ [JStmt.base (.instr ⟨mask, .plain opcode, as⟩)] ++ liftCode (ds.reverse.map .free) =
          liftCode (c ++ [.instr ⟨mask, .plain opcode, as⟩] ++ ds.reverse.map .free) := by
        simp [liftCode]
      rw [hcode]
      refine ⟨{ m' with log := m'.log ++ [(opcode, vals)] }, ?_, hframe, ?_, htime, hint⟩
      · apply execFrag_lift
        exact exec_append_ok (exec_append_ok hex hins) (exec_map_free F diff _ _)
      · show m'.log ++ [(opcode, vals)] = s.m.log ++ [(opcode, vals)]
        rw [hlog]

/-- `if|unless (c) goto L @ t` as `lowerCondJump_sound`, and the store stays a store of integers -/
theorem lowerCondGoto_sound_int (F : FloatOps) (I : JIntrinsics) (db ab diff g lg : Nat) (t : Int) (mask : Nat) (kw : Kw)
    (c : JCond) (tgt : Goto) (code : List JStmt) (g' lg' : Nat) (s : JM) (taken : Bool) (σ' : Store)
    (hm : maskOn mask diff = true) (hc : CondOK g c) (hs : IntStore s.m.store) (ht : s.m.time = t) (htl : tgt.l < lg)
    (hsrc : evalCond F diff s.m.store c = .ok (taken, σ'))
    (h : lowerCondGoto I db ab g lg t mask kw c tgt = .ok (code, g', lg')) :
    ∃ s', execFrag F diff .run code s = .ok (exitIf (kw.takes taken) tgt, s') ∧
      (∀ x, below g x → s'.m.store x = σ' x) ∧ s'.m.log = s.m.log ∧ s'.m.time = s.m.time ∧ IntStore s'.m.store := by
  cases c with
  | expr e =>
    obtain ⟨hi, hb⟩ := hc
    simp only [evalCond] at hsrc
    cases hev : evalS F diff s.m.store e with
    | err x => simp [hev] at hsrc
    | panic x => simp [hev] at hsrc
    | ok val =>
      obtain ⟨v, rfl⟩ := evalS_int F diff s.m.store hs hi hev
      simp only [hev, Outcome.ok.injEq, Prod.mk.injEq] at hsrc
      obtain ⟨rfl, rfl⟩ := hsrc
      simp only [lowerCondGoto] at h
      have S := (condSoundAt F I db ab diff (jumpFuel e)).1 g lg t mask kw e tgt code g' lg' s v hm hi hb hs hev ht htl h
      exact S.run
  | predec v k =>
    have hv : v.readTy = .int := hc
    simp only [evalCond, evalS_var F diff hs hv] at hsrc
    obtain ⟨n, hn⟩ := hs v.name
    simp only [hn, Outcome.ok.injEq, Prod.mk.injEq] at hsrc
    obtain ⟨rfl, rfl⟩ := hsrc
    simp only [lowerCondGoto] at h
    cases hl : lowerCountJmp I lg t mask kw v k tgt with
    | err x => simp [hl] at h
    | panic x => simp [hl] at h
    | ok r =>
      obtain ⟨code', lg1⟩ := r
      simp only [hl, Outcome.ok.injEq, Prod.mk.injEq] at h
      obtain ⟨rfl, rfl, rfl⟩ := h
      obtain ⟨_, _, _, s', hex, hst, hlog, htime⟩ :=
        lowerCountJmp_sound F I diff lg t mask kw v k tgt code' lg1 s n hm hv hs hn ht htl hl
      exact ⟨s', hex, fun x _ => by rw [hst], hlog, htime, by rw [hst]; exact intStore_upd hs _ _⟩


/-! ### the fragment of a statement simulates the statement (`Lower.StmtSim`) -/

/-- right-hand sides of the proved fragment: an integer expression, or (for `=`) one ternary over integer expressions -/
def RhsOK (g0 : Nat) (op : AssignOp) (e : SExpr) : Prop :=
  (IntOnly e ∧ exprBelow g0 e) ∨
  (op = .set ∧ ∃ c l r, e = .ternary c l r ∧ (IntOnly c ∧ IntOnly l ∧ IntOnly r) ∧
    (exprBelow g0 c ∧ exprBelow g0 l ∧ exprBelow g0 r))

/-- the statements of the proved fragment: integer destinations below the temp counter, integer expressions over
variables below the temp counter (`IntOnly`, `exprBelow`), one ternary on the right of `=`; every condition of
`CondOK`, the counter of a counting jump below the temp counter; labels, gotos, time labels, scope ends -/
def StmtOK (g0 : Nat) : JSStmt → Prop
  | .base (.decl _ _ none) => True
  | .base (.decl d ty (some e)) => ty = .int ∧ d < g0 ∧ RhsOK g0 .set e
  | .base (.assign op v e) => v.readTy = .int ∧ below g0 v.name ∧ RhsOK g0 op e
  | .base (.call _ args) => ∀ e ∈ args, IntOnly e ∧ exprBelow g0 e
  | .base (.scopeEnd _) => True
  | .base .other => False
  | .label _ => True
  | .goto _ => True
  | .condGoto _ c _ => CondOK g0 c ∧ ∀ v k, c = .predec v k → below g0 v.name
  | .wait _ => True

theorem evalS_congr_rhs (F : FloatOps) (diff g0 : Nat) {σ τ : Store} {op : AssignOp} {e : SExpr} (hr : RhsOK g0 op e)
    (hst : ∀ x, below g0 x → σ x = τ x) : evalS F diff σ e = evalS F diff τ e := by
  rcases hr with ⟨hi, hb⟩ | ⟨_, c, l, r, rfl, ⟨hic, hil, hir⟩, ⟨hbc, hbl, hbr⟩⟩
  · exact evalS_congr F diff _ _ hi (fun x hx => hst x (uses_below hb hx))
  · have h1 := evalS_congr F diff σ τ hic (fun x hx => hst x (uses_below hbc hx))
    have h2 := evalS_congr F diff σ τ hil (fun x hx => hst x (uses_below hbl hx))
    have h3 := evalS_congr F diff σ τ hir (fun x hx => hst x (uses_below hbr hx))
    simp only [evalS, h1, h2, h3]

theorem runAssign_congr_rhs (F : FloatOps) (diff g0 : Nat) {a b b' : Machine} {v : VarRef} {op : AssignOp} {e : SExpr}
    (hv : below g0 v.name) (hr : RhsOK g0 op e)
    (hst : ∀ x, below g0 x → a.store x = b.store x) (hlog : a.log = b.log) (htime : a.time = b.time)
    (h : runAssign F diff b v op e = .ok b') :
    ∃ a', runAssign F diff a v op e = .ok a' ∧ (∀ x, below g0 x → a'.store x = b'.store x) ∧ a'.log = b'.log ∧
      a'.time = b'.time := by
  rcases hr with ⟨hi, hb⟩ | ⟨rfl, hrest⟩
  · exact runAssign_congr F diff g0 hv hi hb hst hlog htime h
  · have he : evalS F diff a.store e = evalS F diff b.store e := evalS_congr_rhs F diff g0 (Or.inr ⟨rfl, hrest⟩) hst
    simp only [runAssign, AssignOp.binop] at h ⊢
    rw [he]
    cases hx : evalS F diff b.store e with
    | ok x =>
      simp only [hx, Outcome.ok.injEq] at h ⊢
      subst h
      exact ⟨_, rfl, upd_agree hst _ _, hlog, htime⟩
    | err c => simp [hx] at h
    | panic p => simp [hx] at h

/-- an assignment statement of the fragment, from any source machine that agrees with the target below `g0` -/
theorem assign_sim (F : FloatOps) (I : JIntrinsics) (db ab diff g0 g lg : Nat) (t : Int) (mask : Nat) (v : VarRef) (op : AssignOp)
    (e : SExpr) (code : List JStmt) (g' lg' : Nat) (hm : maskOn mask diff = true) (hg : g0 ≤ g)
    (hv : v.readTy = .int) (hvb : below g0 v.name) (hrhs : RhsOK g0 op e)
    (h : lowerAssignJ I db ab g lg t mask v op e = .ok (code, g', lg'))
    (j : JM) (m m' : Machine) (hinv : IntStore j.m.store) (htj : j.m.time = t)
    (hst : ∀ x, below g0 x → j.m.store x = m.store x) (hlog : j.m.log = m.log) (htm : m.time = t)
    (hrun : runAssign F diff m v op e = .ok m') :
    ∃ j', execFrag F diff .run code j = .ok (.fall, j') ∧ IntStore j'.m.store ∧
      (∀ x, below g0 x → j'.m.store x = m'.store x) ∧ j'.m.log = m'.log ∧ j'.m.time = t := by
  obtain ⟨a', hra, hsta, hloga, htimea⟩ := runAssign_congr_rhs F diff g0 hvb hrhs hst hlog (by rw [htj, htm]) hrun
  have hm't : m'.time = t := by rw [runAssign_time hrun, htm]
  rcases hrhs with ⟨hi, hb⟩ | ⟨rfl, c, l, r, rfl, ⟨hic, hil, hir⟩, ⟨hbc, hbl, hbr⟩⟩
  · obtain ⟨m1, hex, hst1, hlog1, htime1, hint1⟩ :=
      lowerAssignJ_sound F I db ab diff g lg t mask v op e code g' lg' j a' hm hv (below_mono hg hvb) hi (exprBelow_mono hg hb) hinv hra h
    refine ⟨⟨m1, j.cmp⟩, hex, hint1, ?_, by rw [hlog1, hloga], by rw [htime1, htimea, hm't]⟩
    intro x hx
    rw [hst1 x (below_mono hg hx)]; exact hsta x hx
  · simp only [runAssign, AssignOp.binop] at hra
    cases hev : evalS F diff j.m.store (.ternary c l r) with
    | err x => simp [hev] at hra
    | panic x => simp [hev] at hra
    | ok val =>
      simp only [hev, Outcome.ok.injEq] at hra
      subst hra
      simp only [lowerAssignJ] at h
      obtain ⟨_, _, _, _, s', hex, hval, hframe, hlog1, htime1, hint1⟩ :=
        lowerTernarySet_sound F I db ab diff _ g lg t mask v c l r code g' lg' j val hm hv (below_mono hg hvb) hic hil hir
          (exprBelow_mono hg hbc) (exprBelow_mono hg hbl) (exprBelow_mono hg hbr) hinv htj hev h
      refine ⟨s', hex, hint1, ?_, by rw [hlog1]; exact hloga, by rw [htime1, htj]⟩
      intro x hx
      rw [← hsta x hx]
      by_cases hxv : x = v.name
      · subst hxv; simp [upd_same, hval]
      · simp [upd_other _ _ hxv, hframe x hxv (below_mono hg hx)]

theorem exitOf_if (b : Bool) (g : Goto) : Lower.exitOf (if b then some g else none) = exitIf b g := by
  cases b <;> rfl

/-- **stmtSim_int**: every statement of the fragment is simulated by its fragment (the per-statement theorems above,
transported to a source machine that agrees with the target below the INITIAL temp counter `g0`) -/
theorem stmtSim_int (F : FloatOps) (I : JIntrinsics) (db ab diff mask g0 lg0 : Nat) (hm : maskOn mask diff = true)
    {st : JSStmt} (hok : StmtOK g0 st) (htl : ∀ tg, jumpOfS st = some tg → tg.l < lg0)
    {g lg : Nat} {t : Int} {code : List JStmt} {g' lg' : Nat} (hg : g0 ≤ g) (hlg : lg0 ≤ lg)
    (h : lowerStmtJ I db ab g lg t mask st = .ok (code, g', lg')) :
    StmtSim F diff (below g0) IntStore st t code := by
  intro j m m' fl hinv htj hst hlog htm hrun
  cases st with
  | base s =>
    simp only [runStmtJ] at hrun
    cases hs : runStmtS F diff m s with
    | err x => simp [hs] at hrun
    | panic x => simp [hs] at hrun
    | ok m1 =>
      simp only [hs, Outcome.ok.injEq, Prod.mk.injEq] at hrun
      obtain ⟨rfl, rfl⟩ := hrun
      cases s with
      | decl d ty init =>
        cases init with
        | none =>
          simp only [lowerStmtJ, Outcome.ok.injEq, Prod.mk.injEq] at h
          obtain ⟨rfl, _, _⟩ := h
          simp only [runStmtS, Outcome.ok.injEq] at hs
          subst hs
          exact ⟨j, by simp [execFrag, stepJ, execStmt, Lower.exitOf], hinv, hst, hlog, htj⟩
        | some e =>
          obtain ⟨rfl, hd, hrhs⟩ := hok
          simp only [lowerStmtJ] at h
          cases h1 : lowerAssignJ I db ab g lg t mask ⟨.loc d, none, .int⟩ .set e with
          | err x => simp [h1] at h
          | panic x => simp [h1] at h
          | ok r =>
            obtain ⟨c, g1, lg1⟩ := r
            simp only [h1, Outcome.ok.injEq, Prod.mk.injEq] at h
            obtain ⟨rfl, _, _⟩ := h
            simp only [runStmtS] at hs
            obtain ⟨j', hex, h2, h3, h4, h5⟩ := assign_sim F I db ab diff g0 g lg t mask ⟨.loc d, none, .int⟩ .set e c g1 lg1 hm hg rfl hd hrhs
              h1 j m m1 hinv htj hst hlog htm hs
            exact ⟨j', by simpa [execFrag, stepJ, execStmt, Lower.exitOf] using hex, h2, h3, h4, h5⟩
      | assign op v e =>
        obtain ⟨hv, hvb, hrhs⟩ := hok
        simp only [lowerStmtJ] at h
        simp only [runStmtS] at hs
        exact assign_sim F I db ab diff g0 g lg t mask v op e code g' lg' hm hg hv hvb hrhs h j m m1 hinv htj hst hlog htm hs
      | call opcode args =>
        have hi : ∀ e ∈ args, IntOnly e := fun e he => (hok e he).1
        have hb : ∀ e ∈ args, exprBelow g0 e := fun e he => (hok e he).2
        simp only [lowerStmtJ] at h
        simp only [runStmtS] at hs
        obtain ⟨a', hra, hsta, hloga, htimea⟩ := runCall_congr F diff g0 hi hb hst hlog (by rw [htj, htm]) hs
        obtain ⟨m2, hex, hst2, hlog2, htime2, hint2⟩ :=
          lowerCallJ_sound F I db ab diff g lg t mask opcode args code g' lg' j a' hm hi (fun e he => exprBelow_mono hg (hb e he)) hinv hra h
        refine ⟨⟨m2, j.cmp⟩, hex, hint2, ?_, by rw [hlog2, hloga], ?_⟩
        · intro x hx; rw [hst2 x (below_mono hg hx)]; exact hsta x hx
        · have : m1.time = m.time := by
            simp only [runCall] at hs
            split at hs
            · simp only [Outcome.ok.injEq] at hs; subst hs; rfl
            · cases hs
            · cases hs
          rw [htime2, htimea, this, htm]
      | scopeEnd d =>
        simp only [lowerStmtJ, Outcome.ok.injEq, Prod.mk.injEq] at h
        obtain ⟨rfl, _, _⟩ := h
        simp only [runStmtS, Outcome.ok.injEq] at hs
        subst hs
        exact ⟨j, by simp [execFrag, stepJ, execStmt, Lower.exitOf], hinv, hst, hlog, htj⟩
      | other => exact hok.elim
  | label l =>
    simp only [lowerStmtJ, Outcome.ok.injEq, Prod.mk.injEq] at h
    obtain ⟨rfl, _, _⟩ := h
    simp only [runStmtJ, Outcome.ok.injEq, Prod.mk.injEq] at hrun
    obtain ⟨rfl, rfl⟩ := hrun
    exact ⟨j, by simp [execFrag, stepJ, Lower.exitOf], hinv, hst, hlog, htj⟩
  | goto tg =>
    simp only [lowerStmtJ] at h
    cases hj : lowerJmp I mask tg with
    | err x => simp [hj] at h
    | panic x => simp [hj] at h
    | ok c =>
      have := lowerJmp_ok hj
      subst this
      simp only [hj, Outcome.ok.injEq, Prod.mk.injEq] at h
      obtain ⟨rfl, _, _⟩ := h
      simp only [runStmtJ, Outcome.ok.injEq, Prod.mk.injEq] at hrun
      obtain ⟨rfl, rfl⟩ := hrun
      exact ⟨j, by simp [execFrag, stepJ, hm, Lower.exitOf], hinv, hst, hlog, htj⟩
  | condGoto kw c tg =>
    obtain ⟨hc, hcv⟩ := hok
    simp only [lowerStmtJ] at h
    simp only [runStmtJ] at hrun
    cases hev : evalCond F diff m.store c with
    | err x => simp [hev] at hrun
    | panic x => simp [hev] at hrun
    | ok r =>
      obtain ⟨taken, τ'⟩ := r
      simp only [hev, Outcome.ok.injEq, Prod.mk.injEq] at hrun
      obtain ⟨rfl, rfl⟩ := hrun
      obtain ⟨σ', hevj, hσ⟩ := evalCond_congr F diff g0 hc hcv hst hev
      have htl' : tg.l < lg := Nat.lt_of_lt_of_le (htl tg rfl) hlg
      have hcg : CondOK g c := by
        cases c with
        | expr e => exact ⟨hc.1, exprBelow_mono hg hc.2⟩
        | predec v k => exact hc
      obtain ⟨s', hex, hst', hlog', htime', hint'⟩ :=
        lowerCondGoto_sound_int F I db ab diff g lg t mask kw c tg code g' lg' j taken σ' hm hcg hinv htj htl' hevj h
      refine ⟨s', by rw [exitOf_if]; exact hex, hint', ?_, by rw [hlog']; exact hlog, by rw [htime', htj]⟩
      intro x hx
      rw [hst' x (below_mono hg hx)]; exact hσ x hx
  | wait n =>
    simp only [lowerStmtJ, Outcome.ok.injEq, Prod.mk.injEq] at h
    obtain ⟨rfl, _, _⟩ := h
    simp only [runStmtJ, Outcome.ok.injEq, Prod.mk.injEq] at hrun
    obtain ⟨rfl, rfl⟩ := hrun
    exact ⟨j, by simp [execFrag, Lower.exitOf], hinv, hst, hlog, htj⟩

/-! ## 18. whole flat bodies: the composition -/

/-- **lowerBody_sound** (C02 for whole flat bodies, before register assignment).  `body` is a flat list of source
statements - declarations, `=` and the eleven assign-ops, instruction calls with complex arguments, labels, `goto`,
`if|unless (c) goto L [@ t]` for every integer condition, counting jumps, relative time labels, scope ends; integer
fragment `StmtOK`; labels defined once, jumps to labels below the compiler's label counter, time labels that do not go
backwards, explicit jump times not after the time of the target label (`BodyWF`).  For EVERY intrinsic table in which
the body compiles, every difficulty the statement mask is on, every fuel and every pair of initial states related by
`SimRel` (same observable variables, integer store, same time / real time once waited for the first statement):
if the source machine `runJS` (AstVm on the source) terminates, then the timed program-counter machine `execT` on
`lowerBodyJ body` (AstVm on the raised compiled script) terminates, having logged the same calls - opcode, argument
values, and the same `real_time` stamp for every call - with every variable below the temp counter (every register,
every user local) holding the same value, and with the same `time` and `real_time` once it has waited for the time
at the end of the body (the compiled script never waits for a trailing time label). -/
theorem lowerBody_sound (F : FloatOps) (I : JIntrinsics) (db ab diff mask g0 lg0 : Nat) (t0 : Int) (body : List JSStmt)
    (P : List (Int × JStmt)) (hm : maskOn mask diff = true) (hok : ∀ st ∈ body, StmtOK g0 st) (wf : BodyWF lg0 t0 body)
    (hL : lowerBodyJ I db ab mask g0 lg0 t0 body = .ok P)
    (S0 : VM) (U0 : TVM) (hinit : SimRel (below g0) IntStore (timeAt t0 body 0) S0 U0)
    (fuel : Nat) (Sf : VM) (hrun : runJS F diff (stampBody t0 body) fuel 0 S0 = .ok Sf) :
    ∃ fuel' Uf, execT F diff P fuel' 0 U0 = .ok Uf ∧ SimRel (below g0) IntStore (endTime t0 body) Sf Uf := by
  have hsim : BodySim F diff (below g0) IntStore I db ab mask g0 lg0 body := by
    intro st hst g lg t code g' lg' hg hlg h
    exact stmtSim_int F I db ab diff mask g0 lg0 hm (hok st hst) (fun tg htg => wf.targetsLt st hst tg htg) hg hlg h
  obtain ⟨Uf, hreach, hR⟩ := body_sim hL wf hsim fuel 0 S0 U0 Sf hrun hinit
  have h0 : fragPos I db ab mask g0 lg0 t0 body 0 = 0 := by cases body <;> rfl
  rw [h0] at hreach
  obtain ⟨fuel', hf⟩ := execT_of_reachT hreach
  exact ⟨fuel', Uf, hf, hR⟩

/-- the usual start: both machines at time 0 with empty logs from the same store of integers -/
theorem simRel_init (g0 : Nat) (T : Int) (σ : Store) (hσ : IntStore σ) (hT : 0 ≤ T) :
    SimRel (below g0) IntStore T ⟨⟨σ, [], 0⟩, 0, []⟩ ⟨⟨⟨σ, [], 0⟩, 0, []⟩, none⟩ :=
  ⟨rfl, rfl, rfl, rfl, fun _ _ => rfl, hσ, hT⟩

/-- `lowerBody_sound` from the usual start, spelled out: same log, same stamps, same variables below the temp
counter; same time and real time after waiting for the end of the body -/
theorem lowerBody_sound_init (F : FloatOps) (I : JIntrinsics) (db ab diff mask g0 lg0 : Nat) (body : List JSStmt)
    (P : List (Int × JStmt)) (hm : maskOn mask diff = true) (hok : ∀ st ∈ body, StmtOK g0 st) (wf : BodyWF lg0 0 body)
    (hL : lowerBodyJ I db ab mask g0 lg0 0 body = .ok P) (σ : Store) (hσ : IntStore σ)
    (fuel : Nat) (Sf : VM) (hrun : runJS F diff (stampBody 0 body) fuel 0 ⟨⟨σ, [], 0⟩, 0, []⟩ = .ok Sf) :
    ∃ fuel' Uf, execT F diff P fuel' 0 ⟨⟨⟨σ, [], 0⟩, 0, []⟩, none⟩ = .ok Uf ∧
      Uf.vm.m.log = Sf.m.log ∧ Uf.vm.stamps = Sf.stamps ∧ (∀ x, below g0 x → Uf.vm.m.store x = Sf.m.store x) ∧
      (Uf.vm.waitTo (endTime 0 body)).m.time = (Sf.waitTo (endTime 0 body)).m.time ∧
      (Uf.vm.waitTo (endTime 0 body)).real = (Sf.waitTo (endTime 0 body)).real := by
  obtain ⟨fuel', Uf, hf, hR⟩ := lowerBody_sound F I db ab diff mask g0 lg0 0 body P hm hok wf hL _ _
    (simRel_init g0 _ σ hσ (le_timeAt body 0 0 wf.waits)) fuel Sf hrun
  exact ⟨fuel', Uf, hf, hR.log, hR.stamps, hR.store, hR.time, hR.real⟩


/-! ### the hypotheses of `lowerBody_sound` are satisfiable: a counting loop that jumps back in time -/

/-- `A = 3; lab0: ins_200(A + B * -(A + 1)); +5: if (--A > 0) goto lab0 @ 0; B = (A == 0) ? B - 1 : 9; ins_201(B);` -/
def sampleBody : List JSStmt :=
  [.base (.assign .set rA (.litI 3)), .label 0, .base (.call 200 [sampleExpr]), .wait 5,
   .condGoto .kif (.predec rA .gt) ⟨0, some 0⟩,
   .base (.assign .set rB (.ternary (.binop .eq (.var rA) (.litI 0)) (.binop .sub (.var rB) (.litI 1)) (.litI 9))),
   .base (.call 201 [.var rB])]

theorem sampleBody_ok : ∀ st ∈ sampleBody, StmtOK 100 st := by
  intro st hst
  simp only [sampleBody, List.mem_cons, List.not_mem_nil, or_false] at hst
  rcases hst with rfl | rfl | rfl | rfl | rfl | rfl | rfl
  · exact ⟨rfl, trivial, Or.inl ⟨trivial, trivial⟩⟩
  · trivial
  · intro e he
    simp only [List.mem_cons, List.not_mem_nil, or_false] at he
    subst he
    exact ⟨by simp [sampleExpr, IntOnly, rA, rB, VarRef.readTy], by simp [sampleExpr, exprBelow, below, rA, rB]⟩
  · trivial
  · exact ⟨rfl, fun v k h => by cases h; trivial⟩
  · exact ⟨rfl, trivial, Or.inr ⟨rfl, _, _, _, rfl, by simp [IntOnly, rA, rB, VarRef.readTy], by simp [exprBelow, below, rA, rB]⟩⟩
  · intro e he
    simp only [List.mem_cons, List.not_mem_nil, or_false] at he
    subst he
    exact ⟨rfl, trivial⟩

theorem sampleBody_wf : BodyWF 1000 0 sampleBody where
  nodup := by decide
  labelsLt := by decide
  targetsLt := by
    intro st hst g hg
    simp only [sampleBody, List.mem_cons, List.not_mem_nil, or_false] at hst
    rcases hst with rfl | rfl | rfl | rfl | rfl | rfl | rfl <;> simp [jumpOfS] at hg
    subst hg; decide
  waits := by
    intro n hn
    simp only [sampleBody, List.mem_cons, List.not_mem_nil, or_false] at hn
    rcases hn with hn | hn | hn | hn | hn | hn | hn <;> simp at hn
    subst hn; decide
  jumpTimes := by
    intro st hst g x hg hx i tl hf
    simp only [sampleBody, List.mem_cons, List.not_mem_nil, or_false] at hst
    rcases hst with rfl | rfl | rfl | rfl | rfl | rfl | rfl <;> simp [jumpOfS] at hg
    subst hg
    simp only [Option.some.injEq] at hx
    subst hx
    simp [sampleBody, stampBody, stmtTime, findLabelS] at hf
    omega

def bodyLen : Outcome (List (Int × JStmt)) → Option Nat
  | .ok P => some P.length
  | _ => none

/-- the body compiles under both tables (native jumps / the cmp + jmp pair with fallback arithmetic) -/
theorem sampleBody_lowers : bodyLen (lowerBodyJ jTwoPart 255 0 255 100 1000 0 sampleBody) = some 18 := by decide +kernel
example : bodyLen (lowerBodyJ jNative 255 0 255 100 1000 0 sampleBody) = some 17 := by decide +kernel

def runLog : Outcome VM → Option (List (Nat × List Value) × List Int × Int × Int)
  | .ok s => some (s.m.log, s.stamps, s.m.time, s.real)
  | _ => none

/-- the source run terminates: three calls of ins_200 at real times 0, 5, 10 (the jump goes back to time 0, the real
time does not), then ins_201(8) -/
theorem sampleBody_runs : runLog (runJS someFloats 0 (stampBody 0 sampleBody) 40 0 ⟨⟨fun _ => .int 7, [], 0⟩, 0, []⟩) =
    some ([(200, [.int (-25)]), (200, [.int (-19)]), (200, [.int (-13)]), (201, [.int 6])], [0, 5, 10, 15], 5, 15) := by
  decide +kernel

/-- `lowerBody_sound` applied: the compiled loop logs the same four calls at the same real times -/
example : ∃ P fuel' Uf, lowerBodyJ jTwoPart 255 0 255 100 1000 0 sampleBody = .ok P ∧
    execT someFloats 0 P fuel' 0 ⟨⟨⟨fun _ => .int 7, [], 0⟩, 0, []⟩, none⟩ = .ok Uf ∧
    Uf.vm.m.log = [(200, [.int (-25)]), (200, [.int (-19)]), (200, [.int (-13)]), (201, [.int 6])] ∧
    Uf.vm.stamps = [0, 5, 10, 15] := by
  cases hL : lowerBodyJ jTwoPart 255 0 255 100 1000 0 sampleBody with
  | err x => have := sampleBody_lowers; rw [hL] at this; cases this
  | panic x => have := sampleBody_lowers; rw [hL] at this; cases this
  | ok P =>
    cases hr : runJS someFloats 0 (stampBody 0 sampleBody) 40 0 ⟨⟨fun _ => .int 7, [], 0⟩, 0, []⟩ with
    | err x => have := sampleBody_runs; rw [hr] at this; cases this
    | panic x => have := sampleBody_runs; rw [hr] at this; cases this
    | ok Sf =>
      have hrun := sampleBody_runs
      rw [hr] at hrun
      simp only [runLog, Option.some.injEq, Prod.mk.injEq] at hrun
      obtain ⟨fuel', Uf, hf, hlog, hstamps, _⟩ := lowerBody_sound_init someFloats jTwoPart 255 0 0 255 100 1000 sampleBody P
        (by decide) sampleBody_ok sampleBody_wf hL (fun _ => .int 7) (fun _ => ⟨7, rfl⟩) 40 Sf hr
      exact ⟨P, fuel', Uf, rfl, hf, by rw [hlog, hrun.1], by rw [hstamps, hrun.2.1]⟩


section regassign
open TruthModel.C05

/-! ## 19. composition with register assignment (C05) -/

/-- the stream as `assign_registers` sees it -/
abbrev regsView (I : JIntrinsics) (order : JumpOrder) (P : List (Int × JStmt)) : List Regs.Stmt :=
  P.map (fun x => toRegsStmtJ I order x.1 x.2)

/-- **assign_preserves_exec** (C02 ∘ C05).  Let `assign_registers` (`Regs.assign`, the repaired explicit-register scan,
no parameters) succeed on a lowered stream `P` with labels and jumps.  Then `Lower.scanJ` - the same loop, keeping the
state in front of every statement - succeeds, the stream `P'` it rewrote IS the stream `assign_registers` emitted, and
for every annotation `D` of certainly-initialised locals that satisfies `InitOK` (every operand is a single operand;
every local read is initialised; scopes and initialisation are consistent along every jump), every fuel and state:
whatever the timed machine `execT` computes on `P` it computes, with the same fuel, on `P'`: same log with the same
`real_time` stamps, same `time` and `real_time`, and the same final value in every register that is mentioned in the
script or is not general-purpose.  (Locals and temporaries of `P` are variables of their own; in `P'` they live in
registers: two live locals never share one and no mentioned register is handed out - `C05.assign_inv`.) -/
theorem assign_preserves_exec (F : FloatOps) (diff : Nat) (h : Hooks) (hk : HooksOk h) (tyOf : Def → RTy) (I : JIntrinsics)
    (order : JumpOrder) (P : List (Int × JStmt)) (res : Regs.Result)
    (ha : assign .deep h tyOf [] (regsView I order P) = .ok res) :
    ∃ sts P', scanJ h tyOf (clashing (mentioned (regsView I order P)) []) I order (init h (mentioned (regsView I order P)) []) P
        = .ok (sts, P') ∧ res.stream = regsView I order P' ∧
      ∀ D, InitOK diff P sts D → ∀ (fuel : Nat) (s sf : TVM), execT F diff P fuel 0 s = .ok sf →
        ∃ uf, execT F diff P' fuel 0 s = .ok uf ∧ uf.vm.m.log = sf.vm.m.log ∧ uf.vm.stamps = sf.vm.stamps ∧
          uf.vm.m.time = sf.vm.m.time ∧ uf.vm.real = sf.vm.real ∧
          ∀ r, (r ∈ mentioned (regsView I order P) ∨ (r ∉ h.general .int ∧ r ∉ h.general .float)) →
            uf.vm.m.store (.reg r) = sf.vm.m.store (.reg r) := by
  obtain ⟨sts, P', hscan, hstream⟩ := scanJ_of_assign ha
  refine ⟨sts, P', hscan, hstream, ?_⟩
  intro D hD fuel s sf hrun
  have hinv := inv_init h tyOf (mentioned (regsView I order P)) [] hk
  have hlive0 : liveAt sts 0 = [] := by
    have := scanJ_head hscan
    simp [liveAt, this, init, initLive]
  have R0 : RelT h (mentioned (regsView I order P)) (liveAt sts 0) (D 0) s s :=
    ⟨rfl, rfl, rfl, rfl, rfl, ⟨by intro d r hl; rw [hlive0] at hl; simp [lookup] at hl, fun _ _ => rfl⟩⟩
  obtain ⟨uf, pcf, hf, Rf⟩ := assign_preserves_execT (F := F) hscan hinv
    (fun pc t st hp a ha r hr => regs_mentioned hp ha hr) hD fuel 0 s s sf hrun R0
  refine ⟨uf, hf, Rf.log, Rf.stamps, Rf.time, Rf.real, ?_⟩
  intro r hr
  apply Rf.store.reg
  intro hal
  rcases hr with hr | hr
  · exact hal.2 hr
  · rcases hal.1 with h1 | h1
    · exact hr.1 h1
    · exact hr.2 h1

/-- decidable form of the hypotheses of the jump-free case -/
def wbrFrom (diff : Nat) : List Def → List (Int × JStmt) → Bool
  | _, [] => true
  | D, (_, s) :: rest => (readLocs s).all (fun d => D.contains d) && wbrFrom diff (initStep diff D s) rest

/-- no jumps, single operands only, every local written before it is read (in stream order) -/
def straightOK (diff : Nat) (P : List (Int × JStmt)) : Bool :=
  P.all (fun x => (jumpOf x.2).isNone) && P.all (fun x => (stmtArgs x.2).all Arg.isAtom) && wbrFrom diff [] P

theorem wbrFrom_spec (diff : Nat) (P : List (Int × JStmt)) : ∀ (k pc : Nat), wbrFrom diff (linD diff P pc) (P.drop pc) = true →
    ∀ (t : Int) (s : JStmt), P[pc + k]? = some (t, s) → ∀ d ∈ readLocs s, d ∈ linD diff P (pc + k)
  | 0, pc, hw, t, s, hp, d, hd => by
    have hlt : pc < P.length := by
      rcases Nat.lt_or_ge pc P.length with h' | h'
      · exact h'
      · rw [Nat.add_zero, List.getElem?_eq_none h'] at hp; cases hp
    have hdrop : P.drop pc = (t, s) :: P.drop (pc + 1) := by
      rw [List.drop_eq_getElem_cons hlt]
      congr 1
      rw [Nat.add_zero, List.getElem?_eq_getElem hlt] at hp
      exact Option.some.inj hp
    rw [hdrop] at hw
    simp only [wbrFrom, Bool.and_eq_true, List.all_eq_true] at hw
    simpa using hw.1 d hd
  | k + 1, pc, hw, t, s, hp, d, hd => by
    have hlt : pc < P.length := by
      rcases Nat.lt_or_ge pc P.length with h' | h'
      · exact h'
      · rw [List.getElem?_eq_none (by omega)] at hp; cases hp
    have hdrop : P.drop pc = P[pc] :: P.drop (pc + 1) := List.drop_eq_getElem_cons hlt
    rw [hdrop] at hw
    simp only [wbrFrom, Bool.and_eq_true] at hw
    have hlin : linD diff P (pc + 1) = initStep diff (linD diff P pc) P[pc].2 := by
      simp [linD, List.getElem?_eq_getElem hlt]
    have := wbrFrom_spec diff P k (pc + 1) (by rw [hlin]; exact hw.2) t s (by rw [← hp]; congr 1; omega) d hd
    rw [show pc + (k + 1) = pc + 1 + k by omega]
    exact this

/-- **assign_preserves_exec_straight**: the jump-free case, all hypotheses decidable: a stream without jumps whose
operands are single operands and whose locals are written before they are read (`straightOK`) runs after register
assignment as before -/
theorem assign_preserves_exec_straight (F : FloatOps) (diff : Nat) (h : Hooks) (hk : HooksOk h) (tyOf : Def → RTy)
    (I : JIntrinsics) (order : JumpOrder) (P : List (Int × JStmt)) (res : Regs.Result)
    (ha : assign .deep h tyOf [] (regsView I order P) = .ok res) (hok : straightOK diff P = true) :
    ∃ P', res.stream = regsView I order P' ∧
      ∀ (fuel : Nat) (s sf : TVM), execT F diff P fuel 0 s = .ok sf →
        ∃ uf, execT F diff P' fuel 0 s = .ok uf ∧ uf.vm.m.log = sf.vm.m.log ∧ uf.vm.stamps = sf.vm.stamps ∧
          uf.vm.m.time = sf.vm.m.time ∧ uf.vm.real = sf.vm.real ∧
          ∀ r, (r ∈ mentioned (regsView I order P) ∨ (r ∉ h.general .int ∧ r ∉ h.general .float)) →
            uf.vm.m.store (.reg r) = sf.vm.m.store (.reg r) := by
  obtain ⟨sts, P', _, hstream, hall⟩ := assign_preserves_exec F diff h hk tyOf I order P res ha
  simp only [straightOK, Bool.and_eq_true, List.all_eq_true] at hok
  obtain ⟨⟨h1, h2⟩, h3⟩ := hok
  refine ⟨P', hstream, hall (linD diff P) (initOK_linear diff P sts ?_ ?_ ?_)⟩
  · intro pc t s hp
    have := h1 (t, s) (List.mem_of_getElem? hp)
    simpa using this
  · intro pc t s hp a ha
    exact h2 (t, s) (List.mem_of_getElem? hp) a ha
  · intro pc t s hp d hd
    have := wbrFrom_spec diff P pc 0 (by simpa [linD] using h3) t s (by simpa using hp) d hd
    simpa using this


/-- **lowerBody_assigned_sound** (C02 for flat integer bodies AFTER register assignment, the composition of
`lowerBody_sound` with `assign_preserves_exec`): the script `assign_registers` emits for the lowered body logs what
the source logs, at the same real times, and leaves every register that the script mentions or that is not
general-purpose with the value the source leaves in it.  What is still a hypothesis is `InitOK`: an annotation of
certainly-initialised locals for the lowered stream that is consistent along its jumps (for streams without jumps it is
decidable: `straightOK`). -/
theorem lowerBody_assigned_sound (F : FloatOps) (I : JIntrinsics) (order : JumpOrder) (db ab diff mask g0 lg0 : Nat)
    (body : List JSStmt) (P : List (Int × JStmt)) (h : Hooks) (hk : HooksOk h) (tyOf : Def → RTy) (res : Regs.Result)
    (hm : maskOn mask diff = true) (hok : ∀ st ∈ body, StmtOK g0 st) (wf : BodyWF lg0 0 body)
    (hL : lowerBodyJ I db ab mask g0 lg0 0 body = .ok P)
    (ha : assign .deep h tyOf [] (regsView I order P) = .ok res) :
    ∃ sts P', scanJ h tyOf (clashing (mentioned (regsView I order P)) []) I order (init h (mentioned (regsView I order P)) []) P
        = .ok (sts, P') ∧ res.stream = regsView I order P' ∧
      ∀ D, InitOK diff P sts D → ∀ (σ : Store), IntStore σ → ∀ (fuel : Nat) (Sf : VM),
        runJS F diff (stampBody 0 body) fuel 0 ⟨⟨σ, [], 0⟩, 0, []⟩ = .ok Sf →
        ∃ fuel' Uf, execT F diff P' fuel' 0 ⟨⟨⟨σ, [], 0⟩, 0, []⟩, none⟩ = .ok Uf ∧
          Uf.vm.m.log = Sf.m.log ∧ Uf.vm.stamps = Sf.stamps ∧
          (∀ r, (r ∈ mentioned (regsView I order P) ∨ (r ∉ h.general .int ∧ r ∉ h.general .float)) →
            Uf.vm.m.store (.reg r) = Sf.m.store (.reg r)) ∧
          (Uf.vm.waitTo (endTime 0 body)).m.time = (Sf.waitTo (endTime 0 body)).m.time ∧
          (Uf.vm.waitTo (endTime 0 body)).real = (Sf.waitTo (endTime 0 body)).real := by
  obtain ⟨sts, P', hscan, hstream, hall⟩ := assign_preserves_exec F diff h hk tyOf I order P res ha
  refine ⟨sts, P', hscan, hstream, ?_⟩
  intro D hD σ hσ fuel Sf hrun
  obtain ⟨fuel', Uf, hf, hlog, hstamps, hstore, htime, hreal⟩ :=
    lowerBody_sound_init F I db ab diff mask g0 lg0 body P hm hok wf hL σ hσ fuel Sf hrun
  obtain ⟨uf, hf', hlog', hstamps', htime', hreal', hregs⟩ := hall D hD fuel' _ Uf hf
  have hc := VM.waitTo_congr (a := uf.vm) (b := Uf.vm) (endTime 0 body) htime' hreal'
  refine ⟨fuel', uf, hf', by rw [hlog', hlog], by rw [hstamps', hstamps], ?_, by rw [hc.1, htime], by rw [hc.2, hreal]⟩
  intro r hr
  rw [hregs r hr]
  exact hstore (.reg r) trivial

/-! ### the hypotheses of section 19 are satisfiable -/

/-- `A = A + B * -(A + 1); ins_200(A + B * -(A + 1), B);`: two temporaries -/
def straightBody : List JSStmt := [.base (.assign .set rA sampleExpr), .base (.call 200 [sampleExpr, .var rB])]

def streamOf : Outcome (List (Int × JStmt)) → List (Int × JStmt)
  | .ok P => P
  | _ => []

def straightP : List (Int × JStmt) := streamOf (lowerBodyJ jNative 255 0 255 100 1000 0 straightBody)

/-- four general-purpose integer registers, two of them named by the script -/
def fourInts : Hooks := ⟨fun ty => match ty with | .int => [1000, 1001, 1002, 1003] | .float => [], fun _ => none⟩

theorem fourInts_ok : HooksOk fourInts := by unfold HooksOk; decide

example : straightP.length = 13 := by decide +kernel
theorem straightP_ok : straightOK 0 straightP = true := by decide +kernel

def assignedRegs : Outcome Regs.Result → Option (List Reg)
  | .ok r => some (r.locals.map (·.reg))
  | _ => none

/-- register assignment succeeds: both temporaries get 1002 one after the other, never 1000 / 1001 -/
theorem straightP_assigns :
    assignedRegs (assign .deep fourInts (tyOfTable (typeTableJ straightP)) [] (regsView jNative .locTime straightP)) =
      some [1002, 1002] := by decide +kernel

/-- `assign_preserves_exec_straight` applied -/
example : ∃ res P', assign .deep fourInts (tyOfTable (typeTableJ straightP)) [] (regsView jNative .locTime straightP) = .ok res ∧
    res.stream = regsView jNative .locTime P' ∧
    ∀ (fuel : Nat) (s sf : TVM), execT someFloats 0 straightP fuel 0 s = .ok sf →
      ∃ uf, execT someFloats 0 P' fuel 0 s = .ok uf ∧ uf.vm.m.log = sf.vm.m.log ∧
        uf.vm.m.store (.reg 1000) = sf.vm.m.store (.reg 1000) := by
  cases hres : assign .deep fourInts (tyOfTable (typeTableJ straightP)) [] (regsView jNative .locTime straightP) with
  | err x => have := straightP_assigns; rw [hres] at this; cases this
  | panic x => have := straightP_assigns; rw [hres] at this; cases this
  | ok res =>
    obtain ⟨P', hs, hall⟩ := assign_preserves_exec_straight someFloats 0 fourInts fourInts_ok _ jNative .locTime straightP res hres straightP_ok
    refine ⟨res, P', rfl, hs, ?_⟩
    intro fuel s sf hrun
    obtain ⟨uf, h1, h2, _, _, _, h3⟩ := hall fuel s sf hrun
    exact ⟨uf, h1, h2, h3 1000 (Or.inl (by decide +kernel))⟩


theorem straightP_lowers : lowerBodyJ jNative 255 0 255 100 1000 0 straightBody = .ok straightP := by
  have hlen : straightP.length = 13 := by decide +kernel
  unfold straightP at hlen ⊢
  cases h : lowerBodyJ jNative 255 0 255 100 1000 0 straightBody with
  | ok P => rfl
  | err x => rw [h] at hlen; cases hlen
  | panic x => rw [h] at hlen; cases hlen

/-- `lowerBody_assigned_sound` applied to the straight-line body: all hypotheses hold (`InitOK` by the linear analysis) -/
example : ∃ res P', assign .deep fourInts (tyOfTable (typeTableJ straightP)) [] (regsView jNative .locTime straightP) = .ok res ∧
    res.stream = regsView jNative .locTime P' ∧
    ∀ (fuel : Nat) (Sf : VM), runJS someFloats 0 (stampBody 0 straightBody) fuel 0 ⟨⟨fun _ => .int 7, [], 0⟩, 0, []⟩ = .ok Sf →
      ∃ fuel' Uf, execT someFloats 0 P' fuel' 0 ⟨⟨⟨fun _ => .int 7, [], 0⟩, 0, []⟩, none⟩ = .ok Uf ∧ Uf.vm.m.log = Sf.m.log ∧
        Uf.vm.m.store (.reg 1000) = Sf.m.store (.reg 1000) := by
  cases hres : assign .deep fourInts (tyOfTable (typeTableJ straightP)) [] (regsView jNative .locTime straightP) with
  | err x => have := straightP_assigns; rw [hres] at this; cases this
  | panic x => have := straightP_assigns; rw [hres] at this; cases this
  | ok res =>
    have hbody : ∀ st ∈ straightBody, StmtOK 100 st := by
      intro st hst
      simp only [straightBody, List.mem_cons, List.not_mem_nil, or_false] at hst
      rcases hst with rfl | rfl
      · exact ⟨rfl, trivial, Or.inl ⟨by simp [sampleExpr, IntOnly, rA, rB, VarRef.readTy], by simp [sampleExpr, exprBelow, below, rA, rB]⟩⟩
      · intro e he
        simp only [List.mem_cons, List.not_mem_nil, or_false] at he
        rcases he with rfl | rfl
        · exact ⟨by simp [sampleExpr, IntOnly, rA, rB, VarRef.readTy], by simp [sampleExpr, exprBelow, below, rA, rB]⟩
        · exact ⟨rfl, trivial⟩
    have hwf : BodyWF 1000 0 straightBody :=
      ⟨by decide, by decide,
       by intro st hst g hg; simp only [straightBody, List.mem_cons, List.not_mem_nil, or_false] at hst
          rcases hst with rfl | rfl <;> simp [jumpOfS] at hg,
       by intro n hn; simp [straightBody] at hn,
       by intro st hst g x hg; simp only [straightBody, List.mem_cons, List.not_mem_nil, or_false] at hst
          rcases hst with rfl | rfl <;> simp [jumpOfS] at hg⟩
    obtain ⟨sts, P', _, hs, hall⟩ := lowerBody_assigned_sound someFloats jNative .locTime 255 0 0 255 100 1000 straightBody straightP
      fourInts fourInts_ok _ res (by decide) hbody hwf straightP_lowers hres
    have hok := straightP_ok
    simp only [straightOK, Bool.and_eq_true, List.all_eq_true] at hok
    obtain ⟨⟨h1, h2⟩, h3⟩ := hok
    have hD : InitOK 0 straightP sts (linD 0 straightP) := by
      refine initOK_linear 0 straightP sts ?_ ?_ ?_
      · intro pc t s hp; simpa using h1 (t, s) (List.mem_of_getElem? hp)
      · intro pc t s hp a ha; exact h2 (t, s) (List.mem_of_getElem? hp) a ha
      · intro pc t s hp d hd
        simpa using wbrFrom_spec 0 straightP pc 0 (by simpa [linD] using h3) t s (by simpa using hp) d hd
    refine ⟨res, P', rfl, hs, ?_⟩
    intro fuel Sf hrun
    obtain ⟨fuel', Uf, hf, hlog, _, hregs, _⟩ := hall _ hD (fun _ => .int 7) (fun _ => ⟨7, rfl⟩) fuel Sf hrun
    exact ⟨fuel', Uf, hf, hlog, hregs 1000 (Or.inl (by decide +kernel))⟩

/-! a stream WITH a jump that satisfies `InitOK`: `L5: int x (local 7); x = 3; if (--x) goto L5;` - the local is written
before the counting jump reads it on every path, and nothing is live at the target of the jump -/
def loopP : List (Int × JStmt) :=
  [(0, .label 0 5), (0, .base (.alloc 7 .int)),
   (0, .base (.instr ⟨255, .assignOp .set .int, [.loc 7 .int, .imm (.int 3)]⟩)),
   (0, .countJmp 255 .ne (.loc 7 .int) 5 none)]

def loopD : Nat → List Def
  | 3 => [7]
  | 4 => [7]
  | _ => []

example (sts : List State) (hlive0 : ∀ st, sts[0]? = some st → st.live = []) : InitOK 0 loopP sts loopD where
  atoms := by
    intro pc t s hp a ha
    match pc with
    | 0 | 1 | 2 | 3 =>
      simp only [loopP, List.getElem?_cons_succ, List.getElem?_cons_zero, Option.some.injEq, Prod.mk.injEq] at hp
      obtain ⟨_, rfl⟩ := hp
      simp [stmtArgs] at ha <;> (first | (subst ha; rfl) | (rcases ha with rfl | rfl <;> rfl))
    | n + 4 => simp [loopP] at hp
  reads := by
    intro pc t s hp d hd
    match pc with
    | 0 | 1 | 2 | 3 =>
      simp only [loopP, List.getElem?_cons_succ, List.getElem?_cons_zero, Option.some.injEq, Prod.mk.injEq] at hp
      obtain ⟨_, rfl⟩ := hp
      simp [readLocs, readArgsOf, argLocs] at hd <;> simp [loopD, hd]
    | n + 4 => simp [loopP] at hp
  next := by
    intro pc t s hp d hd
    match pc with
    | 0 | 1 | 3 => simp [loopD] at hd <;> simp [loopD, hd]
    | 2 =>
      simp only [loopP, List.getElem?_cons_succ, List.getElem?_cons_zero, Option.some.injEq, Prod.mk.injEq] at hp
      obtain ⟨_, rfl⟩ := hp
      simp only [loopD, List.mem_cons, List.not_mem_nil, or_false] at hd
      subst hd
      left
      decide
    | n + 4 => simp [loopP] at hp
  alloc := by
    intro pc t d ty hp
    match pc with
    | 0 | 2 | 3 => simp [loopP] at hp
    | 1 => simp [loopD]
    | n + 4 => simp [loopP] at hp
  jump := by
    intro pc t s l tm i tl hp hj hf
    match pc with
    | 0 | 1 | 2 =>
      simp only [loopP, List.getElem?_cons_succ, List.getElem?_cons_zero, Option.some.injEq, Prod.mk.injEq] at hp
      obtain ⟨_, rfl⟩ := hp
      simp [jumpOf] at hj
    | 3 =>
      simp only [loopP, List.getElem?_cons_succ, List.getElem?_cons_zero, Option.some.injEq, Prod.mk.injEq] at hp
      obtain ⟨_, rfl⟩ := hp
      simp only [jumpOf, Option.some.injEq, Prod.mk.injEq] at hj
      obtain ⟨rfl, rfl⟩ := hj
      simp [loopP, findLabelJ] at hf
      obtain ⟨rfl, rfl⟩ := hf
      refine ⟨by simp [loopD], ?_⟩
      intro stp sti _ h0 d r hl
      rw [hlive0 sti h0] at hl
      simp [lookup] at hl
    | n + 4 => simp [loopP] at hp


end regassign

/-! ## 20. runs that do not stop -/

/-- a source machine that can make `n` steps has not stopped within the iteration limit `n` -/
theorem runJS_fuel_of_stepsS {F : FloatOps} {diff : Nat} {B : List (Int × JSStmt)} {n j pc pc' : Nat} {S S' : VM}
    (h : StepsS F diff B n j pc S pc' S') : ∀ fuel, fuel ≤ n → runJS F diff B fuel pc S = .panic "out of fuel" := by
  induction h with
  | refl pc S => intro fuel hf; have : fuel = 0 := by omega
                 subst this; rfl
  | step n j pc S pc1 S1 pc2 S2 hs _ ih =>
    intro fuel hf
    cases fuel with
    | zero => rfl
    | succ fuel => simp only [runJS, hs]; exact ih fuel (by omega)

/-- **lowerBody_diverges** (the other direction of `lowerBody_sound`): under the same hypotheses, if the source machine
can make any number of steps - it neither runs off the end of the body nor fails, so it exceeds every iteration limit
(`runJS_fuel_of_stepsS`) - then the compiled script does not stop either: `execT` runs out of every fuel. -/
theorem lowerBody_diverges (F : FloatOps) (I : JIntrinsics) (db ab diff mask g0 lg0 : Nat) (t0 : Int) (body : List JSStmt)
    (P : List (Int × JStmt)) (hm : maskOn mask diff = true) (hok : ∀ st ∈ body, StmtOK g0 st) (wf : BodyWF lg0 t0 body)
    (hL : lowerBodyJ I db ab mask g0 lg0 t0 body = .ok P)
    (S0 : VM) (U0 : TVM) (hinit : SimRel (below g0) IntStore (timeAt t0 body 0) S0 U0)
    (hdiv : ∀ n, ∃ j pc S, StepsS F diff (stampBody t0 body) n j 0 S0 pc S) :
    ∀ fuel, execT F diff P fuel 0 U0 = .panic "out of fuel" := by
  have hsim : BodySim F diff (below g0) IntStore I db ab mask g0 lg0 body := by
    intro st hst g lg t code g' lg' hg hlg h
    exact stmtSim_int F I db ab diff mask g0 lg0 hm (hok st hst) (fun tg htg => wf.targetsLt st hst tg htg) hg hlg h
  intro fuel
  obtain ⟨c, pc, U, hc, hr⟩ := body_diverges hL wf hsim S0 U0 hinit hdiv fuel
  exact execT_fuel_of_reachTn hr fuel hc

/-! ### the hypotheses of `lowerBody_diverges` are satisfiable: `lab0: A = A + 1; goto lab0;` -/

def foreverBody : List JSStmt := [.label 0, .base (.assign .add rA (.litI 1)), .goto ⟨0, none⟩]

def allSevenAt (n : Int32) : VM := ⟨⟨fun x => if x = .reg 1000 then .int n else .int 7, [], 0⟩, 0, []⟩

theorem forever_step0 (n : Int32) : stepS someFloats 0 (stampBody 0 foreverBody) 0 (allSevenAt n) = .ok (some (1, allSevenAt n)) := by
  simp [stepS, stampBody, foreverBody, stmtTime, runStmtJ, VM.waitTo, allSevenAt, VM.after]

theorem forever_step2 (n : Int32) : stepS someFloats 0 (stampBody 0 foreverBody) 2 (allSevenAt n) = .ok (some (0, allSevenAt n)) := by
  simp [stepS, stampBody, foreverBody, stmtTime, runStmtJ, VM.waitTo, allSevenAt, VM.after, findLabelS, VM.setTime]

theorem forever_step1 (n : Int32) : stepS someFloats 0 (stampBody 0 foreverBody) 1 (allSevenAt n) = .ok (some (2, allSevenAt (n + 1))) := by
  have : (fun x => if x = VarName.reg 1000 then Value.int (n + 1) else Value.int 7) =
      upd (fun x => if x = VarName.reg 1000 then Value.int n else Value.int 7) (.reg 1000) (.int (n + 1)) := by
    funext x; by_cases h : x = .reg 1000 <;> simp [upd, h]
  simp [stepS, stampBody, foreverBody, stmtTime, runStmtJ, runStmtS, runAssign, AssignOp.binop, evalS, rA, VM.waitTo, allSevenAt,
    VM.after, binop, binopInt, this]

theorem forever_runs : ∀ (n : Nat) (k : Int32) (pc : Nat), pc < 3 →
    ∃ j pc' S, StepsS someFloats 0 (stampBody 0 foreverBody) n j pc (allSevenAt k) pc' S
  | 0, k, pc, _ => ⟨0, pc, _, .refl _ _⟩
  | n + 1, k, pc, hpc => by
    match pc, hpc with
    | 0, _ =>
      obtain ⟨j, pc', S, h⟩ := forever_runs n k 1 (by omega)
      exact ⟨_, pc', S, .step _ _ _ _ _ _ _ _ (forever_step0 k) h⟩
    | 1, _ =>
      obtain ⟨j, pc', S, h⟩ := forever_runs n (k + 1) 2 (by omega)
      exact ⟨_, pc', S, .step _ _ _ _ _ _ _ _ (forever_step1 k) h⟩
    | 2, _ =>
      obtain ⟨j, pc', S, h⟩ := forever_runs n k 0 (by omega)
      exact ⟨_, pc', S, .step _ _ _ _ _ _ _ _ (forever_step2 k) h⟩

/-- the compiled loop does not stop -/
example : ∃ P, lowerBodyJ jNative 255 0 255 100 1000 0 foreverBody = .ok P ∧
    ∀ fuel, execT someFloats 0 P fuel 0 ⟨allSevenAt 7, none⟩ = .panic "out of fuel" := by
  have hlen : bodyLen (lowerBodyJ jNative 255 0 255 100 1000 0 foreverBody) = some 3 := by decide +kernel
  cases hL : lowerBodyJ jNative 255 0 255 100 1000 0 foreverBody with
  | err x => rw [hL] at hlen; cases hlen
  | panic x => rw [hL] at hlen; cases hlen
  | ok P =>
    refine ⟨P, rfl, ?_⟩
    have hok : ∀ st ∈ foreverBody, StmtOK 100 st := by
      intro st hst
      simp only [foreverBody, List.mem_cons, List.not_mem_nil, or_false] at hst
      rcases hst with rfl | rfl | rfl
      · trivial
      · exact ⟨rfl, trivial, Or.inl ⟨trivial, trivial⟩⟩
      · trivial
    have hwf : BodyWF 1000 0 foreverBody :=
      ⟨by decide, by decide,
       by intro st hst g hg; simp only [foreverBody, List.mem_cons, List.not_mem_nil, or_false] at hst
          rcases hst with rfl | rfl | rfl <;> simp [jumpOfS] at hg
          subst hg; decide,
       by intro n hn; simp [foreverBody] at hn,
       by intro st hst g x hg hx; simp only [foreverBody, List.mem_cons, List.not_mem_nil, or_false] at hst
          rcases hst with rfl | rfl | rfl <;> simp [jumpOfS] at hg
          subst hg; simp at hx⟩
    have hinit : SimRel (below 100) IntStore (timeAt 0 foreverBody 0) (allSevenAt 7) ⟨allSevenAt 7, none⟩ :=
      ⟨rfl, rfl, rfl, rfl, fun _ _ => rfl, fun x => by by_cases h : x = .reg 1000 <;> simp [allSevenAt, h], by decide⟩
    exact lowerBody_diverges someFloats jNative 255 0 0 255 100 1000 0 foreverBody P (by decide) hok hwf hL _ _ hinit
      (fun n => forever_runs n 7 0 (by omega))


/-! ## 21. the integer fragment with ternaries ANYWHERE (operands, conditions, branches, call arguments) -/

/-- integer expressions: literals, variables read as `int`, `-x` `!x` `~x`, every binary operator, and `c ? l : r`
at any depth -/
def IntT : SExpr → Prop
  | .litI _ => True
  | .var v => v.readTy = .int
  | .unop op e => (op = .neg ∨ op = .not ∨ op = .bnot) ∧ IntT e
  | .binop _ a b => IntT a ∧ IntT b
  | .ternary c l r => IntT c ∧ IntT l ∧ IntT r
  | _ => False

/-- all locals of the expression are below the temp counter -/
def belowT (g : Nat) : SExpr → Prop
  | .var v => below g v.name
  | .unop _ e => belowT g e
  | .binop _ a b => belowT g a ∧ belowT g b
  | .ternary c l r => belowT g c ∧ belowT g l ∧ belowT g r
  | .litI _ => True
  | .litF _ => True
  | _ => False

theorem intT_of_intOnly : ∀ {e : SExpr}, IntOnly e → IntT e
  | .litI _, _ => trivial
  | .var _, h => h
  | .unop _ _, h => ⟨h.1, intT_of_intOnly h.2⟩
  | .binop _ _ _, h => ⟨intT_of_intOnly h.1, intT_of_intOnly h.2⟩
  | .litF _, h => h.elim
  | .ternary _ _ _, h => h.elim
  | .switch _, h => h.elim
  | .omitted, h => h.elim

theorem belowT_of_exprBelow {g : Nat} : ∀ {e : SExpr}, exprBelow g e → belowT g e
  | .litI _, _ => trivial
  | .litF _, _ => trivial
  | .var _, h => h
  | .unop _ e, h => belowT_of_exprBelow (e := e) h
  | .binop _ _ _, h => ⟨belowT_of_exprBelow h.1, belowT_of_exprBelow h.2⟩
  | .ternary _ _ _, h => h.elim
  | .switch _, h => h.elim
  | .omitted, h => h.elim

theorem belowT_mono {g g' : Nat} (h : g ≤ g') : ∀ {e : SExpr}, belowT g e → belowT g' e
  | .var _, hb => below_mono h hb
  | .unop _ e, hb => belowT_mono h (e := e) hb
  | .binop _ _ _, hb => ⟨belowT_mono h hb.1, belowT_mono h hb.2⟩
  | .ternary _ _ _, hb => ⟨belowT_mono h hb.1, belowT_mono h hb.2.1, belowT_mono h hb.2.2⟩
  | .litI _, _ => trivial
  | .litF _, _ => trivial
  | .switch _, hb => hb.elim
  | .omitted, hb => hb.elim

theorem intT_ty : ∀ {e : SExpr}, IntT e → e.ty = .int
  | .litI _, _ => rfl
  | .var v, h => h
  | .unop op e, h => by
    rcases h.1 with rfl | rfl | rfl
    · simp [SExpr.ty, unopTy, intT_ty h.2]
    · simp [SExpr.ty, unopTy]
    · simp [SExpr.ty, unopTy]
  | .binop op a b, h => by
    simp only [SExpr.ty, intT_ty h.1]
    cases op <;> rfl
  | .ternary c l r, h => by simp only [SExpr.ty]; exact intT_ty h.2.1

/-- a simple expression of the fragment is in the old fragment -/
theorem intOnly_of_simple {e : SExpr} {a : Arg} (hi : IntT e) (h : e.simple? = some a) : IntOnly e := by
  cases e with
  | litI _ => trivial
  | var v => exact hi
  | _ => simp [SExpr.simple?] at h <;> exact hi.elim

theorem exprBelow_of_simple {g : Nat} {e : SExpr} {a : Arg} (hb : belowT g e) (h : e.simple? = some a) : exprBelow g e := by
  cases e with
  | litI _ => trivial
  | litF _ => trivial
  | var v => exact hb
  | _ => simp [SExpr.simple?] at h <;> exact hb.elim

theorem intT_simpleTy {e : SExpr} (h : IntT e) : e.simpleTy = .int := by
  cases e <;> first
    | (simp [IntT] at h; done)
    | (simp only [SExpr.simpleTy]; exact intT_ty h)

/-- a non-simple expression of the fragment is stored whole into an `int` temporary and read back as `int` -/
theorem intT_temp {e : SExpr} (h : IntT e) : e.temp.tmpExpr = e ∧ e.temp.tmpTy = .int ∧ e.temp.readTy = .int := by
  cases e with
  | unop op b =>
    have ht := intT_ty h
    rcases h.1 with rfl | rfl | rfl <;> simp [SExpr.temp, castSigil, ht]
  | litI _ => simp [SExpr.temp, SExpr.ty]
  | var v => simp [SExpr.temp, SExpr.ty]; exact h
  | binop op a b => simp [SExpr.temp]; exact intT_ty h
  | ternary c l r => simp [SExpr.temp]; exact intT_ty h
  | litF _ => simp [IntT] at h
  | switch _ => simp [IntT] at h
  | omitted => simp [IntT] at h

/-- the value of an expression of the fragment from an integer store is an integer -/
theorem evalS_intT (F : FloatOps) (diff : Nat) (σ : Store) (hs : IntStore σ) :
    ∀ {e : SExpr} {v : Value}, IntT e → evalS F diff σ e = .ok v → ∃ n, v = .int n
  | .litI n, v, _, h => by simp only [evalS, Outcome.ok.injEq] at h; exact ⟨n, h.symm⟩
  | .var x, v, hi, h => evalS_int F diff σ hs (e := .var x) hi h
  | .unop op e, v, hi, h => by
    simp only [evalS] at h
    split at h
    · rename_i x hx
      obtain ⟨n, rfl⟩ := evalS_intT F diff σ hs hi.2 hx
      rcases hi.1 with rfl | rfl | rfl <;>
        simp only [castSigil, unop, Outcome.ok.injEq] at h <;> exact ⟨_, h.symm⟩
    · cases h
    · cases h
  | .binop op a b, v, hi, h => by
    simp only [evalS] at h
    split at h
    · rename_i va ha
      split at h
      · rename_i vb hb
        obtain ⟨na, rfl⟩ := evalS_intT F diff σ hs hi.1 ha
        obtain ⟨nb, rfl⟩ := evalS_intT F diff σ hs hi.2 hb
        exact binopInt_int op na nb v h
      · cases h
      · cases h
    · cases h
    · cases h
  | .ternary c l r, v, hi, h => by
    obtain ⟨vc, _, hb⟩ := evalS_ternary_inv h
    by_cases hz : vc = 0
    · simp only [hz, if_true] at hb; exact evalS_intT F diff σ hs hi.2.2 hb
    · simp only [hz, if_false] at hb; exact evalS_intT F diff σ hs hi.2.1 hb

/-- evaluation only looks at the variables of the expression -/
theorem evalS_congrT (F : FloatOps) (diff : Nat) (σ τ : Store) :
    ∀ {e : SExpr}, IntT e → (∀ x, e.uses x = true → σ x = τ x) → evalS F diff σ e = evalS F diff τ e
  | .litI _, _, _ => rfl
  | .var v, _, h => by
    have : σ v.name = τ v.name := h v.name (by simp [SExpr.uses])
    simp only [evalS, this]
  | .unop op e, hi, h => by
    have := evalS_congrT F diff σ τ hi.2 (fun x hx => h x (by simpa [SExpr.uses] using hx))
    simp only [evalS, this]
  | .binop op a b, hi, h => by
    have h1 := evalS_congrT F diff σ τ hi.1 (fun x hx => h x (by simp [SExpr.uses, hx]))
    have h2 := evalS_congrT F diff σ τ hi.2 (fun x hx => h x (by simp [SExpr.uses, hx]))
    simp only [evalS, h1, h2]
  | .ternary c l r, hi, h => by
    have h1 := evalS_congrT F diff σ τ hi.1 (fun x hx => h x (by simp [SExpr.uses, hx]))
    have h2 := evalS_congrT F diff σ τ hi.2.1 (fun x hx => h x (by simp [SExpr.uses, hx]))
    have h3 := evalS_congrT F diff σ τ hi.2.2 (fun x hx => h x (by simp [SExpr.uses, hx]))
    simp only [evalS, h1, h2, h3]

theorem uses_belowT {g : Nat} : ∀ {e : SExpr} {x : VarName}, belowT g e → e.uses x = true → below g x
  | .var v, x, hb, hu => by
    simp only [SExpr.uses, beq_iff_eq] at hu; subst hu; exact hb
  | .unop _ e, x, hb, hu => uses_belowT (e := e) hb (by simpa [SExpr.uses] using hu)
  | .binop _ a b, x, hb, hu => by
    simp only [SExpr.uses, Bool.or_eq_true] at hu
    cases hu with
    | inl hu => exact uses_belowT hb.1 hu
    | inr hu => exact uses_belowT hb.2 hu
  | .ternary c l r, x, hb, hu => by
    simp only [SExpr.uses, Bool.or_eq_true] at hu
    rcases hu with (hu | hu) | hu
    · exact uses_belowT hb.1 hu
    · exact uses_belowT hb.2.1 hu
    · exact uses_belowT hb.2.2 hu
  | .litI _, _, _, hu => by simp [SExpr.uses] at hu
  | .litF _, _, _, hu => by simp [SExpr.uses] at hu
  | .switch _, _, hb, _ => hb.elim
  | .omitted, _, hb, _ => hb.elim

/-- evaluation in a store that agrees below the temp counter -/
theorem evalS_frameT (F : FloatOps) (diff g : Nat) {σ τ : Store} {e : SExpr} (hi : IntT e) (hb : belowT g e)
    (h : ∀ x, below g x → τ x = σ x) : evalS F diff τ e = evalS F diff σ e :=
  evalS_congrT F diff τ σ hi (fun x hx => h x (uses_belowT hb hx))


/-! ### what the fragments guarantee -/

/-- the hypotheses under which `v = e` is lowered, in the model with labels (the script time is the time of the
statement: the labels of ternaries carry it) -/
structure CtxT (F : FloatOps) (diff g mask : Nat) (t : Int) (v : VarRef) (e : SExpr) (s : JM) (val : Value) : Prop where
  maskOn : maskOn mask diff = true
  vInt : v.readTy = .int
  vBelow : below g v.name
  intT : IntT e
  belowT : belowT g e
  intStore : IntStore s.m.store
  time : s.m.time = t
  eval : evalS F diff s.m.store e = .ok val

/-- the fragment of `v = e` runs to its end, leaves `val` in `v` and nothing else below the temp counter changed -/
def RunSet (F : FloatOps) (diff g : Nat) (v : VarRef) (s : JM) (code : List JStmt) (val : Value) : Prop :=
  ∃ s', execFrag F diff .run code s = .ok (.fall, s') ∧ s'.m.store v.name = val ∧
    (∀ x, x ≠ v.name → below g x → s'.m.store x = s.m.store x) ∧ s'.m.log = s.m.log ∧ s'.m.time = s.m.time ∧
    IntStore s'.m.store

/-- an operand of a binary / unary operation (see `OSpec`) -/
structure RunOp (F : FloatOps) (diff g : Nat) (v : VarRef) (guard : Bool) (e : SExpr) (s : JM) (O : OperandJ) (val : Value) : Prop where
  atom : IntAtom O.atom
  run : ∃ s', execFrag F diff .run O.code s = .ok (.fall, s') ∧ atomValue s'.m.store O.atom = val ∧
    (∀ x, below g x → (x ≠ v.name ∨ guard = false) → s'.m.store x = s.m.store x) ∧ s'.m.log = s.m.log ∧
    s'.m.time = s.m.time ∧ IntStore s'.m.store
  atomBelow : ∀ y, argVar O.atom = some y → below O.gen y
  atomV : argVar O.atom = some v.name → (e.simple? = none ∧ O.free = none) ∨ e.uses v.name = true
  freeAtom : ∀ d, O.free = some d → argVar O.atom = some (.loc g)
  tyInt : O.ty = .int

/-- an operand of a comparison (see `TSpec`) -/
structure RunTemp (F : FloatOps) (diff g : Nat) (s : JM) (O : OperandJ) (val : Value) : Prop where
  atom : IntAtom O.atom
  tyInt : O.ty = .int
  atomBelow : ∀ y, argVar O.atom = some y → below O.gen y
  run : ∃ s', execFrag F diff .run O.code s = .ok (.fall, s') ∧ atomValue s'.m.store O.atom = val ∧
    (∀ x, below g x → s'.m.store x = s.m.store x) ∧ s'.m.log = s.m.log ∧ s'.m.time = s.m.time ∧ IntStore s'.m.store

/-- a conditional jump: left by the jump to the target iff `taken` -/
def RunCond (F : FloatOps) (diff g : Nat) (tgt : Goto) (taken : Bool) (s : JM) (code : List JStmt) : Prop :=
  ∃ s', execFrag F diff .run code s = .ok (exitIf taken tgt, s') ∧
    (∀ x, below g x → s'.m.store x = s.m.store x) ∧ s'.m.log = s.m.log ∧ s'.m.time = s.m.time ∧ IntStore s'.m.store

/-- the statement proved by induction on the fuel, for the nine mutually recursive functions -/
def SoundT (F : FloatOps) (I : JIntrinsics) (db ab diff fuel : Nat) : Prop :=
  (∀ g lg t mask v e code g' lg' s val, CtxT F diff g mask t v e s val →
      lowerSetJ I db ab fuel g lg t mask v e = .ok (code, g', lg') → RunSet F diff g v s code val) ∧
  (∀ g lg t mask v guard e O s val, CtxT F diff g mask t v e s val →
      lowerOperandJ I db ab fuel g lg t mask v .int guard e = .ok O → RunOp F diff g v guard e s O val) ∧
  (∀ g lg t mask v op a b code g' lg' s val, CtxT F diff g mask t v (.binop op a b) s val →
      lowerBinopJ I db ab fuel g lg t mask v op a b = .ok (code, g', lg') → RunSet F diff g v s code val) ∧
  (∀ g lg t mask v op b code g' lg' s val, CtxT F diff g mask t v (.unop op b) s val →
      lowerUnopJ I db ab fuel g lg t mask v op b = .ok (code, g', lg') → RunSet F diff g v s code val) ∧
  (∀ g lg t mask v c l r code g' lg' s val, CtxT F diff g mask t v (.ternary c l r) s val →
      lowerTernaryJ I db ab fuel g lg t mask v c l r = .ok (code, g', lg') → RunSet F diff g v s code val) ∧
  (∀ g lg t mask kw e tgt code g' lg' s n, maskOn mask diff = true → IntT e → belowT g e → IntStore s.m.store →
      evalS F diff s.m.store e = .ok (.int n) → s.m.time = t → tgt.l < lg →
      lowerCondJ I db ab fuel g lg t mask kw e tgt = .ok (code, g', lg') →
      RunCond F diff g tgt (kw.takes (n != 0)) s code) ∧
  (∀ g lg t mask e O s val, maskOn mask diff = true → IntT e → belowT g e → IntStore s.m.store →
      evalS F diff s.m.store e = .ok val → s.m.time = t →
      lowerTempJ I db ab fuel g lg t mask e = .ok O → RunTemp F diff g s O val) ∧
  (∀ g lg t mask kw a op b tgt code g' lg' s x y r, maskOn mask diff = true → IntT a → IntT b → belowT g a → belowT g b →
      IntStore s.m.store → evalS F diff s.m.store a = .ok (.int x) → evalS F diff s.m.store b = .ok (.int y) →
      binopInt op x y = .ok (.int r) → s.m.time = t → tgt.l < lg →
      lowerCmpJ I db ab fuel g lg t mask kw a op b tgt = .ok (code, g', lg') →
      RunCond F diff g tgt (kw.takes (r != 0)) s code) ∧
  (∀ g lg t mask kw a op b tgt code g' lg' s va vb r, maskOn mask diff = true → IntT a → IntT b → belowT g a → belowT g b →
      IntStore s.m.store → evalS F diff s.m.store a = .ok (.int va) → evalS F diff s.m.store b = .ok (.int vb) →
      (op = .land ∨ op = .lor) → binopInt op va vb = .ok (.int r) → s.m.time = t → tgt.l < lg →
      lowerLogicJ I db ab fuel g lg t mask kw a op b tgt = .ok (code, g', lg') →
      RunCond F diff g tgt (kw.takes (r != 0)) s code)

theorem execFrag_alloc (F : FloatOps) (diff : Nat) (d : Def) (ty : RTy) (c : List JStmt) (s : JM) :
    execFrag F diff .run (.base (.alloc d ty) :: c) s = execFrag F diff .run c s := by
  simp [execFrag, stepJ, execStmt]

/-- straight-line code on a state with a compare register -/
theorem execFrag_liftJ (F : FloatOps) (diff : Nat) (c : List LStmt) (s : JM) (m' : Machine) (h : exec F diff s.m c = .ok m') :
    execFrag F diff .run (liftCode c) s = .ok (.fall, ⟨m', s.cmp⟩) :=
  execFrag_lift F diff s.cmp c s.m m' h

theorem evalS_binop_intT (F : FloatOps) (diff : Nat) {σ : Store} {op : BinOp} {a b : SExpr} {val : Value}
    (hs : IntStore σ) (hia : IntT a) (hib : IntT b) (h : evalS F diff σ (.binop op a b) = .ok val) :
    ∃ x y, evalS F diff σ a = .ok (.int x) ∧ evalS F diff σ b = .ok (.int y) ∧ binopInt op x y = .ok val := by
  obtain ⟨va, vb, hea, heb, hop⟩ := evalS_binop_inv h
  obtain ⟨x, rfl⟩ := evalS_intT F diff σ hs hia hea
  obtain ⟨y, rfl⟩ := evalS_intT F diff σ hs hib heb
  exact ⟨x, y, hea, heb, hop⟩

section stepT
variable {F : FloatOps} {I : JIntrinsics} {db ab diff fuel : Nat} (ih : SoundT F I db ab diff fuel)
include ih

theorem setT_case {g lg : Nat} {t : Int} {mask : Nat} {v : VarRef} {e : SExpr} {code : List JStmt} {g' lg' : Nat} {s : JM}
    {val : Value} (cx : CtxT F diff g mask t v e s val)
    (h : lowerSetJ I db ab (fuel + 1) g lg t mask v e = .ok (code, g', lg')) : RunSet F diff g v s code val := by
  simp only [lowerSetJ] at h
  cases hsim : e.simple? with
  | some a =>
    simp only [hsim] at h
    cases hat : lowerAssignAtom I.base mask v .set a with
    | ok c =>
      simp only [hat, liftAtom, Outcome.ok.injEq, Prod.mk.injEq] at h
      obtain ⟨rfl, _, _⟩ := h
      have hio := intOnly_of_simple cx.intT hsim
      obtain ⟨hatom, hval, _⟩ := simple_spec F diff hio hsim
      have hv := hval s.m.store cx.intStore
      rw [cx.eval] at hv
      simp only [Outcome.ok.injEq] at hv
      obtain ⟨n, hn⟩ := evalS_intT F diff s.m.store cx.intStore cx.intT cx.eval
      have hex := exec_setAtom F I.base diff mask v a c s.m cx.maskOn cx.intStore hatom hat
      refine ⟨_, execFrag_liftJ F diff c s _ hex, ?_, ?_, rfl, rfl, ?_⟩
      · simp [upd_same, hv]
      · intro x hx _; exact upd_other _ _ hx
      · show IntStore (upd s.m.store v.name (atomValue s.m.store a))
        rw [← hv, hn]; exact intStore_upd cx.intStore _ _
    | err x => simp [hat, liftAtom] at h
    | panic x => simp [hat, liftAtom] at h
  | none =>
    simp only [hsim] at h
    obtain ⟨ht1, ht2, ht3⟩ := intT_temp cx.intT
    simp only [ht1, ht2, ht3, ne_eq, not_true_eq_false, ite_false] at h
    cases e with
    | binop op a b => exact ih.2.2.1 g lg t mask v op a b code g' lg' s val cx h
    | unop op b => exact ih.2.2.2.1 g lg t mask v op b code g' lg' s val cx h
    | ternary c l r => exact ih.2.2.2.2.1 g lg t mask v c l r code g' lg' s val cx h
    | litI _ => simp [SExpr.simple?] at hsim
    | var _ => simp [SExpr.simple?] at hsim
    | litF _ => exact absurd cx.intT (by simp [IntT])
    | switch _ => exact absurd cx.intT (by simp [IntT])
    | omitted => exact absurd cx.intT (by simp [IntT])

theorem operandT_case {g lg : Nat} {t : Int} {mask : Nat} {v : VarRef} {guard : Bool} {e : SExpr} {O : OperandJ} {s : JM}
    {val : Value} (cx : CtxT F diff g mask t v e s val)
    (h : lowerOperandJ I db ab (fuel + 1) g lg t mask v .int guard e = .ok O) : RunOp F diff g v guard e s O val := by
  simp only [lowerOperandJ] at h
  cases hsim : e.simple? with
  | some a =>
    simp only [hsim, Outcome.ok.injEq] at h
    subst h
    have hio := intOnly_of_simple cx.intT hsim
    obtain ⟨hatom, hval, huse⟩ := simple_spec F diff hio hsim
    have hv := hval s.m.store cx.intStore
    rw [cx.eval] at hv
    simp only [Outcome.ok.injEq] at hv
    refine ⟨hatom, ⟨s, rfl, hv.symm, fun _ _ _ => rfl, rfl, rfl, cx.intStore⟩, ?_, ?_, ?_, intT_simpleTy cx.intT⟩
    · intro y hy; exact uses_belowT cx.belowT (huse y hy)
    · intro hy; exact Or.inr (huse _ hy)
    · intro d hd; cases hd
  | none =>
    simp only [hsim] at h
    obtain ⟨ht1, ht2, ht3⟩ := intT_temp cx.intT
    simp only [ht1, ht2, ht3, true_and] at h
    cases guard with
    | true =>
      simp only [if_true] at h
      cases hl : lowerSetJ I db ab fuel g lg t mask v e with
      | ok r =>
        obtain ⟨c, g1, lg1⟩ := r
        simp only [hl, Outcome.ok.injEq] at h
        subst h
        have hmono := ((shapeAt I db ab fuel).1 _ _ _ _ _ _ _ _ _ hl).1
        obtain ⟨s', hex, hval, hframe, hlog, htime, hint⟩ := ih.1 g lg t mask v e c g1 lg1 s val cx hl
        refine ⟨toArg_intAtom v, ⟨s', hex, by rw [atomValue_toArg]; exact hval, ?_, hlog, htime, hint⟩, ?_, ?_, ?_, rfl⟩
        · intro x hx hor
          cases hor with
          | inl hne => exact hframe x hne hx
          | inr hf => cases hf
        · intro y hy
          rw [argVar_toArg] at hy
          simp only [Option.some.injEq] at hy; subst hy
          exact below_mono hmono cx.vBelow
        · intro _; exact Or.inl ⟨hsim, rfl⟩
        · intro d hd; cases hd
      | err x => simp [hl] at h
      | panic x => simp [hl] at h
    | false =>
      simp only [Bool.false_eq_true, if_false] at h
      cases hl : lowerSetJ I db ab fuel (g + 1) lg t mask (tmpVar g .int) e with
      | ok r =>
        obtain ⟨c, g1, lg1⟩ := r
        simp only [hl, Outcome.ok.injEq] at h
        subst h
        have hmono := ((shapeAt I db ab fuel).1 _ _ _ _ _ _ _ _ _ hl).1
        have cx' : CtxT F diff (g + 1) mask t (tmpVar g .int) e s val :=
          ⟨cx.maskOn, rfl, Nat.lt_succ_self g, cx.intT, belowT_mono (Nat.le_succ g) cx.belowT, cx.intStore, cx.time, cx.eval⟩
        obtain ⟨s', hex, hval, hframe, hlog, htime, hint⟩ := ih.1 (g + 1) lg t mask (tmpVar g .int) e c g1 lg1 s val cx' hl
        refine ⟨.loc g, ⟨s', by rw [execFrag_alloc]; exact hex, hval, ?_, hlog, htime, hint⟩, ?_, ?_, ?_, rfl⟩
        · intro x hx _
          exact hframe x (ne_of_below hx) (below_mono (Nat.le_succ g) hx)
        · intro y hy
          simp only [argVar, Option.some.injEq] at hy; subst hy
          exact Nat.lt_of_lt_of_le (Nat.lt_succ_self g) hmono
        · intro hy
          simp only [argVar, Option.some.injEq] at hy
          exact absurd (hy ▸ cx.vBelow) (loc_not_below g)
        · intro d _; rfl
      | err x => simp [hl] at h
      | panic x => simp [hl] at h

theorem binopT_case {g lg : Nat} {t : Int} {mask : Nat} {v : VarRef} {op : BinOp} {a b : SExpr} {code : List JStmt} {g' lg' : Nat}
    {s : JM} {val : Value} (cx : CtxT F diff g mask t v (.binop op a b) s val)
    (h : lowerBinopJ I db ab (fuel + 1) g lg t mask v op a b = .ok (code, g', lg')) : RunSet F diff g v s code val := by
  obtain ⟨hia, hib⟩ : IntT a ∧ IntT b := cx.intT
  obtain ⟨hba, hbb⟩ : belowT g a ∧ belowT g b := cx.belowT
  obtain ⟨va, vb, hea, heb, hop⟩ := evalS_binop_inv cx.eval
  simp only [lowerBinopJ, intT_ty hia, binopTy_int] at h
  cases hA : lowerOperandJ I db ab fuel g lg t mask v .int (!b.uses v.name) a with
  | err x => simp [hA] at h
  | panic x => simp [hA] at h
  | ok A =>
    simp only [hA] at h
    have hmonoA := ((shapeAt I db ab fuel).2.1 _ _ _ _ _ _ _ _ _ hA).1
    have cxa : CtxT F diff g mask t v a s va := ⟨cx.maskOn, cx.vInt, cx.vBelow, hia, hba, cx.intStore, cx.time, hea⟩
    have SA := ih.2.1 g lg t mask v (!b.uses v.name) a A s va cxa hA
    obtain ⟨s1, hex1, hval1, hframe1, hlog1, htime1, hint1⟩ := SA.run
    have hb_same : evalS F diff s1.m.store b = .ok vb := by
      rw [← heb]
      apply evalS_congrT F diff _ _ hib
      intro x hx
      apply hframe1 x (uses_belowT hbb hx)
      by_cases hxv : x = v.name
      · subst hxv; right; simp [hx]
      · left; exact hxv
    generalize hau : operandUses a v.name A.free = aUsesV at h
    cases hB : lowerOperandJ I db ab fuel A.gen A.lgen t mask v .int (!aUsesV) b with
    | err x => simp [hB] at h
    | panic x => simp [hB] at h
    | ok B =>
      simp only [hB] at h
      have cxb : CtxT F diff A.gen mask t v b s1 vb :=
        ⟨cx.maskOn, cx.vInt, below_mono hmonoA cx.vBelow, hib, belowT_mono hmonoA hbb, hint1, by rw [htime1]; exact cx.time, hb_same⟩
      have SB := ih.2.1 A.gen A.lgen t mask v (!aUsesV) b B s1 vb cxb hB
      obtain ⟨s2, hex2, hval2, hframe2, hlog2, htime2, hint2⟩ := SB.run
      have hA_stable : atomValue s2.m.store A.atom = va := by
        rw [← hval1]
        apply atomValue_congr
        intro y hy
        apply hframe2 y (SA.atomBelow y hy)
        by_cases hyv : y = v.name
        · right
          subst hyv
          have : aUsesV = true := by
            rw [← hau]
            unfold operandUses
            rcases SA.atomV hy with ⟨h1, h2⟩ | h1
            · simp [h1, h2]
            · cases hs : a.simple? with
              | some _ => simpa using h1
              | none =>
                cases hf : A.free with
                | none => rfl
                | some d =>
                  have := SA.freeAtom d hf
                  rw [hy] at this
                  simp only [Option.some.injEq] at this
                  exact absurd (this ▸ cx.vBelow) (loc_not_below g)
          simp [this]
        · left; exact hyv
      cases hC : lowerBinopAtom I.base mask v op A.ty A.atom B.atom with
      | err x => simp [hC] at h
      | panic x => simp [hC] at h
      | ok c =>
        simp only [hC, Outcome.ok.injEq, Prod.mk.injEq] at h
        obtain ⟨rfl, _, _⟩ := h
        have hr : binop F op (atomValue s2.m.store A.atom) (atomValue s2.m.store B.atom) = .ok val := by
          rw [hA_stable, hval2]; exact hop
        have hex3 := exec_binopAtom F I.base diff mask v op A.ty A.atom B.atom c s2.m val cx.maskOn hint2 SA.atom SB.atom hr hC
        obtain ⟨n, hn⟩ := evalS_intT F diff s.m.store cx.intStore cx.intT cx.eval
        refine ⟨⟨{ s2.m with store := upd s2.m.store v.name val }, s2.cmp⟩, ?_, ?_, ?_, ?_, ?_, ?_⟩
        · exact execFrag_append_ok hex1 (execFrag_append_ok hex2 (execFrag_append_ok (execFrag_liftJ F diff c s2 _ hex3)
            (execFrag_append_ok (execFrag_frees F diff B.free .fall _) (execFrag_frees F diff A.free .fall _))))
        · exact upd_same _ _ _
        · intro x hx hxb
          show upd s2.m.store v.name val x = s.m.store x
          rw [upd_other _ _ hx, hframe2 x (below_mono hmonoA hxb) (Or.inl hx), hframe1 x hxb (Or.inl hx)]
        · show s2.m.log = s.m.log
          rw [hlog2, hlog1]
        · show s2.m.time = s.m.time
          rw [htime2, htime1]
        · show IntStore (upd s2.m.store v.name val)
          rw [hn]; exact intStore_upd hint2 _ _

theorem unopT_case {g lg : Nat} {t : Int} {mask : Nat} {v : VarRef} {op : UnOp} {b : SExpr} {code : List JStmt} {g' lg' : Nat}
    {s : JM} {val : Value} (cx : CtxT F diff g mask t v (.unop op b) s val)
    (h : lowerUnopJ I db ab (fuel + 1) g lg t mask v op b = .ok (code, g', lg')) : RunSet F diff g v s code val := by
  obtain ⟨hopk, hib⟩ : (op = .neg ∨ op = .not ∨ op = .bnot) ∧ IntT b := cx.intT
  have hbb : belowT g b := cx.belowT
  obtain ⟨x, heb, hu⟩ := evalS_unop_inv hopk cx.eval
  obtain ⟨nx, rfl⟩ := evalS_intT F diff s.m.store cx.intStore hib heb
  have hty : unopTy op b.ty = .int := by
    rw [intT_ty hib]; rcases hopk with rfl | rfl | rfl <;> rfl
  simp only [lowerUnopJ, hty] at h
  cases hB : lowerOperandJ I db ab fuel g lg t mask v .int true b with
  | err e => simp [hB] at h
  | panic e => simp [hB] at h
  | ok B =>
    simp only [hB] at h
    have cxb : CtxT F diff g mask t v b s (.int nx) := ⟨cx.maskOn, cx.vInt, cx.vBelow, hib, hbb, cx.intStore, cx.time, heb⟩
    have SB := ih.2.1 g lg t mask v true b B s (.int nx) cxb hB
    obtain ⟨s1, hex1, hval1, hframe1, hlog1, htime1, hint1⟩ := SB.run
    rw [SB.tyInt] at h
    cases hC : lowerUnopAtom I.base mask v op .int B.atom with
    | err e => simp [hC] at h
    | panic e => simp [hC] at h
    | ok c =>
      simp only [hC, Outcome.ok.injEq, Prod.mk.injEq] at h
      obtain ⟨rfl, _, _⟩ := h
      have hex2 := exec_unopAtom F I.base diff mask v op B.atom c s1.m nx val cx.maskOn hint1 SB.atom hval1 hu hC
      obtain ⟨n, hn⟩ := evalS_intT F diff s.m.store cx.intStore cx.intT cx.eval
      refine ⟨⟨{ s1.m with store := upd s1.m.store v.name val }, s1.cmp⟩, ?_, ?_, ?_, ?_, ?_, ?_⟩
      · exact execFrag_append_ok hex1 (execFrag_append_ok (execFrag_liftJ F diff c s1 _ hex2) (execFrag_frees F diff B.free .fall _))
      · exact upd_same _ _ _
      · intro y hy hyb
        show upd s1.m.store v.name val y = s.m.store y
        rw [upd_other _ _ hy, hframe1 y hyb (Or.inl hy)]
      · exact hlog1
      · exact htime1
      · show IntStore (upd s1.m.store v.name val)
        rw [hn]; exact intStore_upd hint1 _ _

theorem tempT_case {g lg : Nat} {t : Int} {mask : Nat} {e : SExpr} {O : OperandJ} {s : JM} {val : Value}
    (hm : maskOn mask diff = true) (hi : IntT e) (hb : belowT g e) (hs : IntStore s.m.store)
    (hev : evalS F diff s.m.store e = .ok val) (ht : s.m.time = t)
    (h : lowerTempJ I db ab (fuel + 1) g lg t mask e = .ok O) : RunTemp F diff g s O val := by
  simp only [lowerTempJ] at h
  cases hsim : e.simple? with
  | some a =>
    simp only [hsim, Outcome.ok.injEq] at h
    subst h
    have hio := intOnly_of_simple hi hsim
    obtain ⟨hatom, hval, huse⟩ := simple_spec F diff hio hsim
    have hv := hval s.m.store hs
    rw [hev] at hv
    simp only [Outcome.ok.injEq] at hv
    exact ⟨hatom, intT_simpleTy hi, fun y hy => uses_belowT hb (huse y hy), ⟨s, rfl, hv.symm, fun _ _ => rfl, rfl, rfl, hs⟩⟩
  | none =>
    simp only [hsim] at h
    obtain ⟨ht1, ht2, ht3⟩ := intT_temp hi
    simp only [ht1, ht2, ht3] at h
    cases hl : lowerSetJ I db ab fuel (g + 1) lg t mask (tmpVar g .int) e with
    | err x => simp [hl] at h
    | panic x => simp [hl] at h
    | ok r =>
      obtain ⟨c, g1, lg1⟩ := r
      simp only [hl, Outcome.ok.injEq] at h
      subst h
      have hmono := ((shapeAt I db ab fuel).1 _ _ _ _ _ _ _ _ _ hl).1
      obtain ⟨s', hex, hval, hframe, hlog, htime, hint⟩ := ih.1 (g + 1) lg t mask (tmpVar g .int) e c g1 lg1 s val
        ⟨hm, rfl, Nat.lt_succ_self g, hi, belowT_mono (Nat.le_succ g) hb, hs, ht, hev⟩ hl
      refine ⟨.loc g, rfl, ?_, ⟨s', by rw [execFrag_alloc]; exact hex, hval, ?_, hlog, htime, hint⟩⟩
      · intro y hy
        simp only [argVar, Option.some.injEq] at hy; subst hy
        exact Nat.lt_of_lt_of_le (Nat.lt_succ_self g) hmono
      · intro x hx
        exact hframe x (ne_of_below hx) (below_mono (Nat.le_succ g) hx)

theorem cmpT_case {g lg : Nat} {t : Int} {mask : Nat} {kw : Kw} {a : SExpr} {op : BinOp} {b : SExpr} {tgt : Goto}
    {code : List JStmt} {g' lg' : Nat} {s : JM} {x y r : Int32}
    (hm : maskOn mask diff = true) (hia : IntT a) (hib : IntT b) (hba : belowT g a) (hbb : belowT g b)
    (hs : IntStore s.m.store) (hea : evalS F diff s.m.store a = .ok (.int x)) (heb : evalS F diff s.m.store b = .ok (.int y))
    (hr : binopInt op x y = .ok (.int r)) (ht : s.m.time = t) (_htl : tgt.l < lg)
    (h : lowerCmpJ I db ab (fuel + 1) g lg t mask kw a op b tgt = .ok (code, g', lg')) :
    RunCond F diff g tgt (kw.takes (r != 0)) s code := by
  simp only [lowerCmpJ] at h
  cases hA : lowerTempJ I db ab fuel g lg t mask a with
  | err e => simp [hA] at h
  | panic e => simp [hA] at h
  | ok A =>
    simp only [hA] at h
    have hmonoA := ((shapeAt I db ab fuel).2.2.2.2.2.2.2.1 _ _ _ _ _ _ hA).1
    have SA := ih.2.2.2.2.2.2.1 g lg t mask a A s (.int x) hm hia hba hs hea ht hA
    obtain ⟨s1, hex1, hval1, hframe1, hlog1, htime1, hint1⟩ := SA.run
    have heb1 : evalS F diff s1.m.store b = .ok (.int y) := by
      rw [← heb]; exact evalS_frameT F diff g hib hbb hframe1
    cases hB : lowerTempJ I db ab fuel A.gen A.lgen t mask b with
    | err e => simp [hB] at h
    | panic e => simp [hB] at h
    | ok B =>
      simp only [hB] at h
      have SB := ih.2.2.2.2.2.2.1 A.gen A.lgen t mask b B s1 (.int y) hm hib (belowT_mono hmonoA hbb) hint1 heb1
        (by rw [htime1]; exact ht) hB
      obtain ⟨s2, hex2, hval2, hframe2, hlog2, htime2, hint2⟩ := SB.run
      have hA_stable : atomValue s2.m.store A.atom = .int x := by
        rw [← hval1]
        apply atomValue_congr
        intro z hz
        exact hframe2 z (SA.atomBelow z hz)
      rw [SA.tyInt, SB.tyInt] at h
      cases hC : condJmpAtom I mask kw op .int .int A.atom B.atom tgt with
      | err e => simp [hC] at h
      | panic e => simp [hC] at h
      | ok c =>
        simp only [hC, Outcome.ok.injEq, Prod.mk.injEq] at h
        obtain ⟨rfl, _, _⟩ := h
        obtain ⟨_, cmp', hex3⟩ := exec_condJmpAtom F I diff mask kw op A.atom B.atom tgt c s2 x y r
          hm hint2 SA.atom SB.atom hA_stable hval2 hr hC
        refine ⟨⟨s2.m, cmp'⟩, ?_, ?_, ?_, ?_, hint2⟩
        · exact execFrag_append_ok hex1 (execFrag_append_ok hex2 (execFrag_append_ok hex3
            (execFrag_append_ok (execFrag_frees F diff B.free _ _) (execFrag_frees F diff A.free _ _))))
        · intro z hz
          show s2.m.store z = s.m.store z
          rw [hframe2 z (below_mono hmonoA hz)]; exact hframe1 z hz
        · show s2.m.log = s.m.log
          rw [hlog2]; exact hlog1
        · show s2.m.time = s.m.time
          rw [htime2]; exact htime1

theorem condT_case {g lg : Nat} {t : Int} {mask : Nat} {kw : Kw} {e : SExpr} {tgt : Goto} {code : List JStmt} {g' lg' : Nat}
    {s : JM} {n : Int32} (hm : maskOn mask diff = true) (hi : IntT e) (hb : belowT g e) (hs : IntStore s.m.store)
    (hev : evalS F diff s.m.store e = .ok (.int n)) (ht : s.m.time = t) (htl : tgt.l < lg)
    (h : lowerCondJ I db ab (fuel + 1) g lg t mask kw e tgt = .ok (code, g', lg')) :
    RunCond F diff g tgt (kw.takes (n != 0)) s code := by
  have hty := intT_ty hi
  have fallback : lowerCmpJ I db ab fuel g lg t mask kw e .ne (.litI 0) tgt = .ok (code, g', lg') →
      RunCond F diff g tgt (kw.takes (n != 0)) s code := by
    intro h
    have := ih.2.2.2.2.2.2.2.1 g lg t mask kw e .ne (.litI 0) tgt code g' lg' s n 0 (b2i (n != 0)) hm hi trivial hb trivial hs
      hev rfl rfl ht htl h
    rwa [b2i_ne_zero] at this
  cases e with
  | binop op a b =>
    simp only [lowerCondJ] at h
    obtain ⟨x, y, hea, heb, hop⟩ := evalS_binop_intT F diff hs hi.1 hi.2 hev
    by_cases hc : isComparison op = true
    · rw [if_pos hc] at h
      exact ih.2.2.2.2.2.2.2.1 g lg t mask kw a op b tgt code g' lg' s x y n hm hi.1 hi.2 hb.1 hb.2 hs hea heb hop ht htl h
    · rw [if_neg hc] at h
      by_cases hl : op = .land ∨ op = .lor
      · rw [if_pos hl] at h
        exact ih.2.2.2.2.2.2.2.2 g lg t mask kw a op b tgt code g' lg' s x y n hm hi.1 hi.2 hb.1 hb.2 hs hea heb hl hop ht htl h
      · rw [if_neg hl] at h
        simp only [hty, ne_eq, not_true_eq_false, ite_false] at h
        exact fallback h
  | unop op b =>
    rcases hi.1 with rfl | rfl | rfl
    · simp only [lowerCondJ, hty, ne_eq, not_true_eq_false, ite_false] at h
      exact fallback h
    · simp only [lowerCondJ] at h
      obtain ⟨x, heb, hu⟩ := evalS_unop_inv (Or.inr (Or.inl rfl)) hev
      obtain ⟨nx, rfl⟩ := evalS_intT F diff s.m.store hs hi.2 heb
      simp only [unop, Outcome.ok.injEq, Option.some.injEq, Value.int.injEq] at hu
      subst hu
      have := ih.2.2.2.2.2.1 g lg t mask kw.negate b tgt code g' lg' s nx hm hi.2 hb hs heb ht htl h
      have hk : kw.negate.takes (nx != 0) = kw.takes (b2i (nx == 0) != 0) := by
        cases kw <;> simp only [Kw.takes, Kw.negate, b2i_ne_zero] <;> simp [bne]
      rwa [hk] at this
    · simp only [lowerCondJ, hty, ne_eq, not_true_eq_false, ite_false] at h
      exact fallback h
  | litI k =>
    simp only [lowerCondJ, hty, ne_eq, not_true_eq_false, ite_false] at h
    exact fallback h
  | var x =>
    simp only [lowerCondJ, hty, ne_eq, not_true_eq_false, ite_false] at h
    exact fallback h
  | ternary c l r =>
    simp only [lowerCondJ, hty, ne_eq, not_true_eq_false, ite_false] at h
    exact fallback h
  | litF _ => exact absurd hi (by simp [IntT])
  | switch _ => exact absurd hi (by simp [IntT])
  | omitted => exact absurd hi (by simp [IntT])

theorem logicT_case {g lg : Nat} {t : Int} {mask : Nat} {kw : Kw} {a : SExpr} {op : BinOp} {b : SExpr} {tgt : Goto}
    {code : List JStmt} {g' lg' : Nat} {s : JM} {va vb r : Int32}
    (hm : maskOn mask diff = true) (hia : IntT a) (hib : IntT b) (hba : belowT g a) (hbb : belowT g b)
    (hs : IntStore s.m.store) (hea : evalS F diff s.m.store a = .ok (.int va)) (heb : evalS F diff s.m.store b = .ok (.int vb))
    (hop : op = .land ∨ op = .lor) (hr : binopInt op va vb = .ok (.int r)) (ht : s.m.time = t) (htl : tgt.l < lg)
    (h : lowerLogicJ I db ab (fuel + 1) g lg t mask kw a op b tgt = .ok (code, g', lg')) :
    RunCond F diff g tgt (kw.takes (r != 0)) s code := by
  have hcond := ih.2.2.2.2.2.1
  have hshape := (shapeAt I db ab fuel).2.2.2.2.2.2.1
  simp only [lowerLogicJ] at h
  by_cases heasy : (kw = .kif ∧ op = .lor) ∨ (kw = .kunless ∧ op = .land)
  · rw [if_pos heasy] at h
    unfold RunCond
    rw [logic_easy kw op va vb r heasy hr]
    cases h1 : lowerCondJ I db ab fuel g lg t mask kw a tgt with
    | err x => simp [h1] at h
    | panic x => simp [h1] at h
    | ok r1 =>
      obtain ⟨c1, g1, lg1⟩ := r1
      simp only [h1] at h
      obtain ⟨hg1, hl1, hsh1⟩ := hshape _ _ _ _ _ _ _ _ _ _ h1
      obtain ⟨s1, hex1, hframe1, hlog1, htime1, hint1⟩ := hcond g lg t mask kw a tgt c1 g1 lg1 s va hm hia hba hs hea ht htl h1
      have heb1 : evalS F diff s1.m.store b = .ok (.int vb) := by
        rw [← heb]; exact evalS_frameT F diff g hib hbb hframe1
      cases h2 : lowerCondJ I db ab fuel g1 lg1 t mask kw b tgt with
      | err x => simp [h2] at h
      | panic x => simp [h2] at h
      | ok r2 =>
        obtain ⟨c2, g2, lg2⟩ := r2
        simp only [h2, Outcome.ok.injEq, Prod.mk.injEq] at h
        obtain ⟨rfl, _, _⟩ := h
        obtain ⟨hg2, hl2, hsh2⟩ := hshape _ _ _ _ _ _ _ _ _ _ h2
        obtain ⟨s2, hex2, hframe2, hlog2, htime2, hint2⟩ := hcond g1 lg1 t mask kw b tgt c2 g2 lg2 s1 vb hm hib
          (belowT_mono hg1 hbb) hint1 heb1 (by rw [htime1]; exact ht) (Nat.lt_of_lt_of_le htl hl1) h2
        cases htk : kw.takes (va != 0) with
        | true =>
          rw [htk, exitIf_true] at hex1
          refine ⟨s1, ?_, hframe1, hlog1, htime1, hint1⟩
          simp only [Bool.true_or, exitIf_true]
          refine execFrag_append_ok hex1 ?_
          apply execFrag_seek_skip
          intro l' hl' hEq
          have := (hsh2.range l' hl').1
          omega
        | false =>
          rw [htk, exitIf_false] at hex1
          refine ⟨s2, ?_, ?_, by rw [hlog2, hlog1], by rw [htime2, htime1], hint2⟩
          · simp only [Bool.false_or]
            exact execFrag_append_ok hex1 hex2
          · intro z hz; rw [hframe2 z (below_mono hg1 hz)]; exact hframe1 z hz
  · rw [if_neg heasy] at h
    unfold RunCond
    rw [logic_hard kw op va vb r hop heasy hr]
    cases h1 : lowerCondJ I db ab fuel g (lg + 1) t mask kw.negate a ⟨lg, none⟩ with
    | err x => simp [h1] at h
    | panic x => simp [h1] at h
    | ok r1 =>
      obtain ⟨c1, g1, lg1⟩ := r1
      simp only [h1] at h
      obtain ⟨hg1, hl1, hsh1⟩ := hshape _ _ _ _ _ _ _ _ _ _ h1
      obtain ⟨s1, hex1, hframe1, hlog1, htime1, hint1⟩ := hcond g (lg + 1) t mask kw.negate a ⟨lg, none⟩ c1 g1 lg1 s va hm hia hba hs
        hea ht (Nat.lt_succ_self lg) h1
      have heb1 : evalS F diff s1.m.store b = .ok (.int vb) := by
        rw [← heb]; exact evalS_frameT F diff g hib hbb hframe1
      cases h2 : lowerCondJ I db ab fuel g1 lg1 t mask kw.negate b ⟨lg, none⟩ with
      | err x => simp [h2] at h
      | panic x => simp [h2] at h
      | ok r2 =>
        obtain ⟨c2, g2, lg2⟩ := r2
        simp only [h2] at h
        obtain ⟨hg2, hl2, hsh2⟩ := hshape _ _ _ _ _ _ _ _ _ _ h2
        obtain ⟨s2, hex2, hframe2, hlog2, htime2, hint2⟩ := hcond g1 lg1 t mask kw.negate b ⟨lg, none⟩ c2 g2 lg2 s1 vb hm hib
          (belowT_mono hg1 hbb) hint1 heb1 (by rw [htime1]; exact ht) (by show lg < lg1; omega) h2
        cases hj : lowerJmp I mask tgt with
        | err x => simp [hj] at h
        | panic x => simp [hj] at h
        | ok j =>
          simp only [hj, Outcome.ok.injEq, Prod.mk.injEq] at h
          obtain ⟨rfl, _, _⟩ := h
          have hjeq := lowerJmp_ok hj
          subst hjeq
          have htail_seek : ∀ s0 : JM, execFrag F diff (.seek lg none) ([JStmt.jmp mask tgt.l tgt.time] ++ [JStmt.label t lg]) s0 =
              .ok (.fall, s0.setTime t) := by
            intro s0; simp [execFrag]
          have htail_run : ∀ s0 : JM, execFrag F diff .run ([JStmt.jmp mask tgt.l tgt.time] ++ [JStmt.label t lg]) s0 =
              .ok (.jump tgt.l tgt.time, s0) := by
            intro s0
            have hne : ¬ lg = tgt.l := by omega
            simp [execFrag, stepJ, hm, hne]
          have hc2_skip : ∀ s0 : JM, execFrag F diff (.seek lg none) c2 s0 = .ok (.jump lg none, s0) := by
            intro s0
            apply execFrag_seek_skip
            intro l' hl' hEq
            have := (hsh2.range l' hl').1
            omega
          cases htk1 : kw.negate.takes (va != 0) with
          | true =>
            rw [htk1, exitIf_true] at hex1
            refine ⟨s1.setTime t, ?_, hframe1, hlog1, by rw [setTime_time]; exact ht.symm, hint1⟩
            simp only [Bool.not_true, Bool.false_and, exitIf_false]
            exact execFrag_append_ok hex1 (execFrag_append_ok (hc2_skip s1) (htail_seek s1))
          | false =>
            rw [htk1, exitIf_false] at hex1
            cases htk2 : kw.negate.takes (vb != 0) with
            | true =>
              rw [htk2, exitIf_true] at hex2
              refine ⟨s2.setTime t, ?_, ?_, by rw [setTime_log, hlog2, hlog1], by rw [setTime_time]; exact ht.symm, hint2⟩
              · simp only [Bool.not_false, Bool.not_true, Bool.and_false, exitIf_false]
                exact execFrag_append_ok hex1 (execFrag_append_ok hex2 (htail_seek s2))
              · intro z hz
                rw [setTime_store, hframe2 z (below_mono hg1 hz)]; exact hframe1 z hz
            | false =>
              rw [htk2, exitIf_false] at hex2
              refine ⟨s2, ?_, ?_, by rw [hlog2, hlog1], by rw [htime2, htime1], hint2⟩
              · simp only [Bool.not_false, Bool.and_self, exitIf_true]
                exact execFrag_append_ok hex1 (execFrag_append_ok hex2 (htail_run s2))
              · intro z hz
                rw [hframe2 z (below_mono hg1 hz)]; exact hframe1 z hz

theorem ternaryT_case {g lg : Nat} {t : Int} {mask : Nat} {v : VarRef} {c l r : SExpr} {code : List JStmt} {g' lg' : Nat}
    {s : JM} {val : Value} (cx : CtxT F diff g mask t v (.ternary c l r) s val)
    (h : lowerTernaryJ I db ab (fuel + 1) g lg t mask v c l r = .ok (code, g', lg')) : RunSet F diff g v s code val := by
  obtain ⟨hic, hil, hir⟩ : IntT c ∧ IntT l ∧ IntT r := cx.intT
  obtain ⟨hbc, hbl, hbr⟩ : belowT g c ∧ belowT g l ∧ belowT g r := cx.belowT
  have hm := cx.maskOn
  have ht := cx.time
  have hset := ih.1
  have hshapeS := (shapeAt I db ab fuel).1
  simp only [lowerTernaryJ] at h
  obtain ⟨vc, hevc, hevb⟩ := evalS_ternary_inv cx.eval
  cases h1 : lowerCondJ I db ab fuel g (lg + 2) t mask .kunless c ⟨lg, none⟩ with
  | err x => simp [h1] at h
  | panic x => simp [h1] at h
  | ok r1 =>
    obtain ⟨c1, g1, lg1⟩ := r1
    simp only [h1] at h
    obtain ⟨hg1, hl1, hsh1⟩ := (shapeAt I db ab fuel).2.2.2.2.2.2.1 _ _ _ _ _ _ _ _ _ _ h1
    obtain ⟨s1, hex1, hframe1, hlog1, htime1, hint1⟩ := ih.2.2.2.2.2.1 g (lg + 2) t mask .kunless c ⟨lg, none⟩ c1 g1 lg1 s vc hm hic hbc
      cx.intStore hevc ht (by show lg < lg + 2; omega) h1
    cases h2 : lowerSetJ I db ab fuel g1 lg1 t mask v l with
    | err x => simp [h2] at h
    | panic x => simp [h2] at h
    | ok r2 =>
      obtain ⟨c2, g2, lg2⟩ := r2
      simp only [h2] at h
      obtain ⟨hg2, hl2, hsh2⟩ := hshapeS _ _ _ _ _ _ _ _ _ h2
      cases hj : lowerJmp I mask ⟨lg + 1, none⟩ with
      | err x => simp [hj] at h
      | panic x => simp [hj] at h
      | ok j =>
        have hjeq := lowerJmp_ok hj
        subst hjeq
        simp only [hj] at h
        cases h3 : lowerSetJ I db ab fuel g2 lg2 t mask v r with
        | err x => simp [h3] at h
        | panic x => simp [h3] at h
        | ok r3 =>
          obtain ⟨c3, g3, lg3⟩ := r3
          simp only [h3, Outcome.ok.injEq, Prod.mk.injEq] at h
          obtain ⟨rfl, _, _⟩ := h
          obtain ⟨hg3, hl3, hsh3⟩ := hshapeS _ _ _ _ _ _ _ _ _ h3
          by_cases hz : vc = 0
          · -- the condition is false: `unless` jumps to `false`, `v = r` runs
            subst hz
            simp only [if_true] at hevb
            have htk : Kw.kunless.takes ((0 : Int32) != 0) = true := by decide
            rw [htk, exitIf_true] at hex1
            have hevr1 : evalS F diff s1.m.store r = .ok val := by
              rw [← hevb]; exact evalS_frameT F diff g hir hbr hframe1
            have hg12 : g ≤ g2 := Nat.le_trans hg1 hg2
            obtain ⟨s3, hex3, hval3, hframe3, hlog3, htime3, hint3⟩ := hset g2 lg2 t mask v r c3 g3 lg3 (s1.setTime t) val
              ⟨hm, cx.vInt, below_mono hg12 cx.vBelow, hir, belowT_mono hg12 hbr, hint1, rfl, hevr1⟩ h3
            refine ⟨s3, ?_, hval3, ?_, by rw [hlog3]; exact hlog1, by rw [htime3]; exact ht.symm, hint3⟩
            · refine execFrag_append_ok hex1 ?_
              have hskip : execFrag F diff (.seek lg none) c2 s1 = .ok (.jump lg none, s1) :=
                execFrag_seek_skip F diff lg none _ s1 (by intro l' hl' hEq; have := (hsh2.range l' hl').1; omega)
              refine execFrag_append_ok hskip ?_
              show execFrag F diff (.seek lg none) ([JStmt.jmp mask (lg + 1) none] ++
                (JStmt.label t lg :: (c3 ++ [JStmt.label t (lg + 1)]))) s1 = _
              simp only [List.cons_append, List.nil_append, execFrag, if_true, Option.getD_none]
              refine execFrag_append_ok hex3 ?_
              simp [modeOf, execFrag, stepJ]
            · intro x hx hxb
              rw [hframe3 x hx (below_mono hg12 hxb)]
              exact hframe1 x hxb
          · -- the condition is true: fall into `v = l`, then `goto end`
            simp only [hz, if_false] at hevb
            have htk : Kw.kunless.takes (vc != 0) = false := by simp [Kw.takes, bne, hz]
            rw [htk, exitIf_false] at hex1
            have hevl1 : evalS F diff s1.m.store l = .ok val := by
              rw [← hevb]; exact evalS_frameT F diff g hil hbl hframe1
            obtain ⟨s2, hex2, hval2, hframe2, hlog2, htime2, hint2⟩ := hset g1 lg1 t mask v l c2 g2 lg2 s1 val
              ⟨hm, cx.vInt, below_mono hg1 cx.vBelow, hil, belowT_mono hg1 hbl, hint1, by rw [htime1]; exact ht, hevl1⟩ h2
            refine ⟨s2.setTime t, ?_, hval2, ?_, by rw [setTime_log, hlog2]; exact hlog1, by rw [setTime_time]; exact ht.symm, hint2⟩
            · refine execFrag_append_ok hex1 (execFrag_append_ok hex2 ?_)
              have hne : ¬ lg = lg + 1 := by omega
              have hskip : execFrag F diff (.seek (lg + 1) none) c3 s2 = .ok (.jump (lg + 1) none, s2) :=
                execFrag_seek_skip F diff (lg + 1) none _ _ (by intro l' hl' hEq; have := (hsh3.range l' hl').1; omega)
              show execFrag F diff .run ([JStmt.jmp mask (lg + 1) none] ++
                (JStmt.label t lg :: (c3 ++ [JStmt.label t (lg + 1)]))) s2 = _
              simp only [List.cons_append, List.nil_append, execFrag, stepJ, hm, Bool.not_true, Bool.false_eq_true, if_false, hne]
              refine execFrag_append_ok hskip ?_
              simp [modeOf, execFrag]
            · intro x hx hxb
              rw [setTime_store, hframe2 x hx (below_mono hg1 hxb)]
              exact hframe1 x hxb

end stepT


/-- all nine functions are sound at every fuel -/
theorem soundT (F : FloatOps) (I : JIntrinsics) (db ab diff : Nat) : ∀ fuel, SoundT F I db ab diff fuel
  | 0 => by
    refine ⟨?_, ?_, ?_, ?_, ?_, ?_, ?_, ?_, ?_⟩
    · intro _ _ _ _ _ _ _ _ _ _ _ _ h; simp [lowerSetJ] at h
    · intro _ _ _ _ _ _ _ _ _ _ _ h; simp [lowerOperandJ] at h
    · intro _ _ _ _ _ _ _ _ _ _ _ _ _ _ h; simp [lowerBinopJ] at h
    · intro _ _ _ _ _ _ _ _ _ _ _ _ _ h; simp [lowerUnopJ] at h
    · intro _ _ _ _ _ _ _ _ _ _ _ _ _ _ h; simp [lowerTernaryJ] at h
    · intro _ _ _ _ _ _ _ _ _ _ _ _ _ _ _ _ _ _ _ h; simp [lowerCondJ] at h
    · intro _ _ _ _ _ _ _ _ _ _ _ _ _ _ h; simp [lowerTempJ] at h
    · intros; rename_i h; simp [lowerCmpJ] at h
    · intros; rename_i h; simp [lowerLogicJ] at h
  | fuel + 1 => by
    have ih := soundT F I db ab diff fuel
    exact ⟨fun _ _ _ _ _ _ _ _ _ _ _ cx h => setT_case ih cx h,
      fun _ _ _ _ _ _ _ _ _ _ cx h => operandT_case ih cx h,
      fun _ _ _ _ _ _ _ _ _ _ _ _ _ cx h => binopT_case ih cx h,
      fun _ _ _ _ _ _ _ _ _ _ _ _ cx h => unopT_case ih cx h,
      fun _ _ _ _ _ _ _ _ _ _ _ _ _ cx h => ternaryT_case ih cx h,
      fun _ _ _ _ _ _ _ _ _ _ _ _ hm hi hb hs hev ht htl h => condT_case ih hm hi hb hs hev ht htl h,
      fun _ _ _ _ _ _ _ _ hm hi hb hs hev ht h => tempT_case ih hm hi hb hs hev ht h,
      fun _ _ _ _ _ _ _ _ _ _ _ _ _ _ _ _ hm hia hib hba hbb hs hea heb hr ht htl h =>
        cmpT_case ih hm hia hib hba hbb hs hea heb hr ht htl h,
      fun _ _ _ _ _ _ _ _ _ _ _ _ _ _ _ _ hm hia hib hba hbb hs hea heb hop hr ht htl h =>
        logicT_case ih hm hia hib hba hbb hs hea heb hop hr ht htl h⟩

/-- **lowerSetT_sound**: `v = e` for every integer expression WITH ternaries at any depth (in operands, in conditions of
ternaries, in branches), under every intrinsic table and fuel: the emitted fragment runs to its end without leaving,
leaves `eval e` in `v` (only the branches the source selects have to evaluate), changes no other variable below the temp
counter, logs nothing and keeps the time. -/
theorem lowerSetT_sound (F : FloatOps) (I : JIntrinsics) (db ab diff fuel g lg : Nat) (t : Int) (mask : Nat) (v : VarRef) (e : SExpr)
    (code : List JStmt) (g' lg' : Nat) (s : JM) (val : Value) (cx : CtxT F diff g mask t v e s val)
    (h : lowerSetJ I db ab fuel g lg t mask v e = .ok (code, g', lg')) : RunSet F diff g v s code val :=
  (soundT F I db ab diff fuel).1 g lg t mask v e code g' lg' s val cx h

/-- **lowerCondT_sound**: `if|unless (e) goto L @ t` for every integer condition WITH ternaries at any depth in its
operands: left by the jump iff the source jumps, nothing below the temp counter changed, nothing logged, time kept. -/
theorem lowerCondT_sound (F : FloatOps) (I : JIntrinsics) (db ab diff fuel g lg : Nat) (t : Int) (mask : Nat) (kw : Kw) (e : SExpr)
    (tgt : Goto) (code : List JStmt) (g' lg' : Nat) (s : JM) (n : Int32)
    (hm : maskOn mask diff = true) (hi : IntT e) (hb : belowT g e) (hs : IntStore s.m.store)
    (hev : evalS F diff s.m.store e = .ok (.int n)) (ht : s.m.time = t) (htl : tgt.l < lg)
    (h : lowerCondJ I db ab fuel g lg t mask kw e tgt = .ok (code, g', lg')) :
    RunCond F diff g tgt (kw.takes (n != 0)) s code :=
  (soundT F I db ab diff fuel).2.2.2.2.2.1 g lg t mask kw e tgt code g' lg' s n hm hi hb hs hev ht htl h


/-! ### statements over the extended fragment -/

theorem evalArgs_congrT (F : FloatOps) (diff : Nat) (σ τ : Store) (g : Nat) :
    ∀ (es : List SExpr), (∀ e ∈ es, IntT e) → (∀ e ∈ es, belowT g e) → (∀ x, below g x → σ x = τ x) →
      evalArgs F diff σ es = evalArgs F diff τ es
  | [], _, _, _ => rfl
  | e :: es, hi, hb, h => by
    have h1 : evalS F diff σ e = evalS F diff τ e := evalS_frameT F diff g (hi e (by simp)) (hb e (by simp)) h
    have h2 := evalArgs_congrT F diff σ τ g es (fun e he => hi e (by simp [he])) (fun e he => hb e (by simp [he])) h
    simp only [evalArgs, h1, h2]

/-- `v = e` / `v op= e` over the extended fragment, executed as a fragment -/
theorem lowerAssignT_sound (F : FloatOps) (I : JIntrinsics) (db ab diff g lg : Nat) (t : Int) (mask : Nat) (v : VarRef)
    (op : AssignOp) (e : SExpr) (code : List JStmt) (g' lg' : Nat) (s : JM) (msrc : Machine)
    (hm : maskOn mask diff = true) (hv : v.readTy = .int) (hvb : below g v.name) (hi : IntT e)
    (hb : belowT g e) (hs : IntStore s.m.store) (ht : s.m.time = t)
    (hsrc : runAssign F diff s.m v op e = .ok msrc)
    (h : lowerAssignJ I db ab g lg t mask v op e = .ok (code, g', lg')) :
    ∃ s', execFrag F diff .run code s = .ok (.fall, s') ∧ (∀ x, below g x → s'.m.store x = msrc.store x) ∧
      s'.m.log = msrc.log ∧ s'.m.time = msrc.time ∧ IntStore s'.m.store := by
  unfold runAssign at hsrc
  cases hbop : op.binop with
  | none =>
    have hop : op = .set := by cases op <;> simp [AssignOp.binop] at hbop <;> rfl
    subst hop
    simp only [hbop] at hsrc
    cases hev : evalS F diff s.m.store e with
    | ok val =>
      simp only [hev, Outcome.ok.injEq] at hsrc
      subst hsrc
      simp only [lowerAssignJ] at h
      obtain ⟨s', hex, hval, hframe, hlog, htime, hint⟩ :=
        lowerSetT_sound F I db ab diff _ g lg t mask v e code g' lg' s val ⟨hm, hv, hvb, hi, hb, hs, ht, hev⟩ h
      refine ⟨s', hex, ?_, hlog, htime, hint⟩
      intro x hx
      by_cases hxv : x = v.name
      · subst hxv; simp [upd_same, hval]
      · simp [upd_other _ _ hxv, hframe x hxv hx]
    | err c => simp [hev] at hsrc
    | panic p => simp [hev] at hsrc
  | some b =>
    have hne : op ≠ .set := by intro hh; subst hh; simp [AssignOp.binop] at hbop
    simp only [hbop, evalS_var F diff hs hv] at hsrc
    cases hev : evalS F diff s.m.store e with
    | err c => simp [hev] at hsrc
    | panic p => simp [hev] at hsrc
    | ok vb =>
      simp only [hev] at hsrc
      cases hr : binop F b (s.m.store v.name) vb with
      | err c => simp [hr] at hsrc
      | panic p => simp [hr] at hsrc
      | ok r =>
        simp only [hr, Outcome.ok.injEq] at hsrc
        subst hsrc
        obtain ⟨nv, hnv⟩ := hs v.name
        obtain ⟨nb, rfl⟩ := evalS_intT F diff s.m.store hs hi hev
        obtain ⟨nr, rfl⟩ : ∃ n, r = .int n := by rw [hnv] at hr; exact binop_int_result hr
        have hl : lowerAssignJ I db ab g lg t mask v op e =
            (match e.simple? with
            | some a => liftAtom (lowerAssignAtom I.base mask v op a) g lg
            | none =>
              match lowerSetJ I db ab (jumpFuel e) (g + 1) lg t mask (tmpVar g e.temp.tmpTy) e.temp.tmpExpr with
              | .ok (c1, g1, lg1) =>
                match lowerAssignAtom I.base mask v op (.loc g e.temp.readTy) with
                | .ok c2 => .ok (.base (.alloc g e.temp.tmpTy) :: c1 ++ liftCode c2 ++ [.base (.free g)], g1, lg1)
                | .err x => .err x
                | .panic x => .panic x
              | .err x => .err x
              | .panic x => .panic x) := by
          cases op <;> first | exact absurd rfl hne | rfl
        rw [hl] at h
        cases hsim : e.simple? with
        | some a =>
          simp only [hsim] at h
          cases hat : lowerAssignAtom I.base mask v op a with
          | err x => simp [hat, liftAtom] at h
          | panic x => simp [hat, liftAtom] at h
          | ok c =>
            simp only [hat, liftAtom, Outcome.ok.injEq, Prod.mk.injEq] at h
            obtain ⟨rfl, rfl, rfl⟩ := h
            obtain ⟨hatom, hval, _⟩ := simple_spec F diff (intOnly_of_simple hi hsim) hsim
            have hva := hval s.m.store hs
            rw [hev] at hva
            simp only [Outcome.ok.injEq] at hva
            rw [hva] at hr
            have hex := exec_opAtom F I.base diff mask v op b a c s.m (.int nr) hbop hm hs hv hatom hr hat
            exact ⟨_, execFrag_liftJ F diff c s _ hex, fun _ _ => rfl, rfl, rfl, intStore_upd hs _ _⟩
        | none =>
          simp only [hsim] at h
          obtain ⟨ht1, ht2, ht3⟩ := intT_temp hi
          simp only [ht1, ht2, ht3] at h
          cases hl1 : lowerSetJ I db ab (jumpFuel e) (g + 1) lg t mask (tmpVar g .int) e with
          | err x => simp [hl1] at h
          | panic x => simp [hl1] at h
          | ok p =>
            obtain ⟨c1, g1, lg1⟩ := p
            simp only [hl1] at h
            cases hat : lowerAssignAtom I.base mask v op (.loc g .int) with
            | err x => simp [hat] at h
            | panic x => simp [hat] at h
            | ok c2 =>
              simp only [hat, Outcome.ok.injEq, Prod.mk.injEq] at h
              obtain ⟨rfl, rfl, rfl⟩ := h
              obtain ⟨s1, hex1, hval1, hframe1, hlog1, htime1, hint1⟩ :=
                lowerSetT_sound F I db ab diff _ (g + 1) lg t mask (tmpVar g .int) e c1 g1 lg1 s (.int nb)
                  ⟨hm, rfl, Nat.lt_succ_self g, hi, belowT_mono (Nat.le_succ g) hb, hs, ht, hev⟩ hl1
              have hvsame : s1.m.store v.name = s.m.store v.name :=
                hframe1 _ (ne_of_below hvb) (below_mono (Nat.le_succ g) hvb)
              have hr1 : binop F b (s1.m.store v.name) (atomValue s1.m.store (.loc g .int)) = .ok (.int nr) := by
                rw [hvsame]; simp only [atomValue]; rw [show s1.m.store (.loc g) = .int nb from hval1]; exact hr
              have hex2 := exec_opAtom F I.base diff mask v op b (.loc g .int) c2 s1.m (.int nr) hbop hm hint1 hv (.loc g) hr1 hat
              refine ⟨⟨{ s1.m with store := upd s1.m.store v.name (.int nr) }, s1.cmp⟩, ?_, ?_, hlog1, htime1, intStore_upd hint1 _ _⟩
              · rw [List.cons_append, List.cons_append, execFrag_alloc, List.append_assoc]
                refine execFrag_append_ok hex1 (execFrag_append_ok (execFrag_liftJ F diff c2 s1 _ hex2) ?_)
                simp [modeOf, execFrag, stepJ, execStmt]
              · intro x hx
                show upd s1.m.store v.name (.int nr) x = upd s.m.store v.name (.int nr) x
                by_cases hxv : x = v.name
                · subst hxv; simp [upd_same]
                · rw [upd_other _ _ hxv, upd_other _ _ hxv]
                  exact hframe1 x (ne_of_below hx) (below_mono (Nat.le_succ g) hx)

/-- arguments of a call over the extended fragment -/
theorem lowerArgsT_sound (F : FloatOps) (I : JIntrinsics) (db ab diff : Nat) (t : Int) (mask : Nat) (hm : maskOn mask diff = true) :
    ∀ (args : List SExpr) (g lg : Nat) (cJ : List JStmt) (as : List Arg) (ds : List Def) (g' lg' : Nat) (s : JM)
      (vals : List Value),
      (∀ e ∈ args, IntT e) → (∀ e ∈ args, belowT g e) → IntStore s.m.store → s.m.time = t →
      evalArgs F diff s.m.store args = .ok vals →
      lowerArgsJ I db ab t mask g lg args = .ok (cJ, as, ds, g', lg') →
      ∃ s', execFrag F diff .run cJ s = .ok (.fall, s') ∧ readArgs F diff s'.m.store as = .ok vals ∧
        (∀ x, below g x → s'.m.store x = s.m.store x) ∧ s'.m.log = s.m.log ∧ s'.m.time = s.m.time ∧ IntStore s'.m.store
  | [], g, lg, cJ, as, ds, g', lg', s, vals, _, _, hs, _, hev, h => by
    simp only [lowerArgsJ, Outcome.ok.injEq, Prod.mk.injEq] at h
    obtain ⟨rfl, rfl, rfl, rfl, rfl⟩ := h
    simp only [evalArgs, Outcome.ok.injEq] at hev
    subst hev
    exact ⟨s, rfl, rfl, fun _ _ => rfl, rfl, rfl, hs⟩
  | e :: es, g, lg, cJ, as, ds, g', lg', s, vals, hi, hb, hs, ht, hev, h => by
    obtain ⟨v, vs, rfl, hev1, hev2⟩ := evalArgs_cons_inv hev
    have hie := hi e (by simp)
    have hbe := hb e (by simp)
    have hies : ∀ e' ∈ es, IntT e' := fun e' he => hi e' (by simp [he])
    have hbes : ∀ e' ∈ es, belowT g e' := fun e' he => hb e' (by simp [he])
    simp only [lowerArgsJ] at h
    cases hsim : e.simple? with
    | some a =>
      simp only [hsim] at h
      cases hrest : lowerArgsJ I db ab t mask g lg es with
      | err x => simp [hrest] at h
      | panic x => simp [hrest] at h
      | ok r =>
        obtain ⟨c', as', ds', g1, lg1⟩ := r
        simp only [hrest, Outcome.ok.injEq, Prod.mk.injEq] at h
        obtain ⟨rfl, rfl, rfl, rfl, rfl⟩ := h
        obtain ⟨s', hex, hread, hframe, hlog, htime, hint⟩ :=
          lowerArgsT_sound F I db ab diff t mask hm es g lg c' as' ds' g1 lg1 s vs hies hbes hs ht hev2 hrest
        obtain ⟨hatom, hval, huse⟩ := simple_spec F diff (intOnly_of_simple hie hsim) hsim
        have hva := hval s.m.store hs
        rw [hev1] at hva
        simp only [Outcome.ok.injEq] at hva
        have hra : readArg F diff s'.m.store a = .ok v := by
          rw [readArg_intAtom F diff hint hatom, hva]
          congr 1
          exact atomValue_congr (fun y hy => hframe y (uses_belowT hbe (huse y hy)))
        exact ⟨s', hex, by simp only [readArgs, hra, hread], hframe, hlog, htime, hint⟩
    | none =>
      simp only [hsim] at h
      obtain ⟨ht1, ht2, ht3⟩ := intT_temp hie
      simp only [ht1, ht2, ht3] at h
      cases hl1 : lowerSetJ I db ab (jumpFuel e) (g + 1) lg t mask (tmpVar g .int) e with
      | err x => simp [hl1] at h
      | panic x => simp [hl1] at h
      | ok p =>
        obtain ⟨c1, g1, lg1⟩ := p
        simp only [hl1] at h
        cases hrest : lowerArgsJ I db ab t mask g1 lg1 es with
        | err x => simp [hrest] at h
        | panic x => simp [hrest] at h
        | ok r =>
          obtain ⟨c', as', ds', g2, lg2⟩ := r
          simp only [hrest, Outcome.ok.injEq, Prod.mk.injEq] at h
          obtain ⟨rfl, rfl, rfl, rfl, rfl⟩ := h
          have hmono1 := ((shapeAt I db ab _).1 _ _ _ _ _ _ _ _ _ hl1).1
          obtain ⟨s1, hex1, hval1, hframe1, hlog1, htime1, hint1⟩ :=
            lowerSetT_sound F I db ab diff _ (g + 1) lg t mask (tmpVar g .int) e c1 g1 lg1 s v
              ⟨hm, rfl, Nat.lt_succ_self g, hie, belowT_mono (Nat.le_succ g) hbe, hs, ht, hev1⟩ hl1
          have hg1 : g ≤ g1 := Nat.le_trans (Nat.le_succ g) hmono1
          have hsame : ∀ x, below g x → s1.m.store x = s.m.store x :=
            fun x hx => hframe1 x (ne_of_below hx) (below_mono (Nat.le_succ g) hx)
          have hev2' : evalArgs F diff s1.m.store es = .ok vs := by
            rw [evalArgs_congrT F diff s1.m.store s.m.store g es hies hbes hsame]; exact hev2
          obtain ⟨s', hex2, hread, hframe2, hlog2, htime2, hint2⟩ :=
            lowerArgsT_sound F I db ab diff t mask hm es g1 lg1 c' as' ds' g2 lg2 s1 vs hies
              (fun e' he => belowT_mono hg1 (hbes e' he)) hint1 (by rw [htime1]; exact ht) hev2' hrest
          have hkeep : s'.m.store (.loc g) = v := by
            rw [hframe2 (.loc g) (Nat.lt_of_lt_of_le (Nat.lt_succ_self g) hmono1)]; exact hval1
          have hra : readArg F diff s'.m.store (.loc g .int) = .ok v := by
            rw [readArg_intAtom F diff hint2 (.loc g)]; simp only [atomValue, hkeep]
          refine ⟨s', ?_, by simp only [readArgs, hra, hread], ?_, ?_, ?_, hint2⟩
          · rw [List.cons_append, execFrag_alloc]; exact execFrag_append_ok hex1 hex2
          · intro x hx; rw [hframe2 x (below_mono hg1 hx), hsame x hx]
          · rw [hlog2, hlog1]
          · rw [htime2, htime1]

/-- an instruction call over the extended fragment -/
theorem lowerCallT_sound (F : FloatOps) (I : JIntrinsics) (db ab diff g lg : Nat) (t : Int) (mask opcode : Nat)
    (args : List SExpr) (code : List JStmt) (g' lg' : Nat) (s : JM) (msrc : Machine)
    (hm : maskOn mask diff = true) (hi : ∀ e ∈ args, IntT e) (hb : ∀ e ∈ args, belowT g e)
    (hs : IntStore s.m.store) (ht : s.m.time = t) (hsrc : runCall F diff s.m opcode args = .ok msrc)
    (h : lowerCallJ I db ab g lg t mask opcode args = .ok (code, g', lg')) :
    ∃ s', execFrag F diff .run code s = .ok (.fall, s') ∧ (∀ x, below g x → s'.m.store x = msrc.store x) ∧
      s'.m.log = msrc.log ∧ s'.m.time = msrc.time ∧ IntStore s'.m.store := by
  unfold runCall at hsrc
  cases hev : evalArgs F diff s.m.store args with
  | err c => simp [hev] at hsrc
  | panic p => simp [hev] at hsrc
  | ok vals =>
    simp only [hev, Outcome.ok.injEq] at hsrc
    subst hsrc
    unfold lowerCallJ at h
    cases hl : lowerArgsJ I db ab t mask g lg args with
    | err x => simp [hl] at h
    | panic x => simp [hl] at h
    | ok r =>
      obtain ⟨cJ, as, ds, g1, lg1⟩ := r
      simp only [hl, Outcome.ok.injEq, Prod.mk.injEq] at h
      obtain ⟨rfl, rfl, rfl⟩ := h
      obtain ⟨s', hex, hread, hframe, hlog, htime, hint⟩ :=
        lowerArgsT_sound F I db ab diff t mask hm args g lg cJ as ds g1 lg1 s vals hi hb hs ht hev hl
      have hins : exec F diff s'.m ([.instr ⟨mask, .plain opcode, as⟩] ++ ds.reverse.map .free) =
          .ok { s'.m with log := s'.m.log ++ [(opcode, vals)] } := by
        refine exec_append_ok (m1 := { s'.m with log := s'.m.log ++ [(opcode, vals)] }) ?_ (exec_map_free F diff _ _)
        simp [exec, execStmt, execInstr, hm, hread]
      have hcode : cJ ++ [JStmt.base (.instr ⟨mask, .plain opcode, as⟩)] ++ liftCode (ds.reverse.map .free) =
          cJ ++ liftCode ([.instr ⟨mask, .plain opcode, as⟩] ++ ds.reverse.map .free) := by
        simp [liftCode]
      rw [hcode]
      refine ⟨⟨{ s'.m with log := s'.m.log ++ [(opcode, vals)] }, s'.cmp⟩, ?_, hframe, ?_, htime, hint⟩
      · exact execFrag_append_ok hex (execFrag_liftJ F diff _ s' _ hins)
      · show s'.m.log ++ [(opcode, vals)] = s.m.log ++ [(opcode, vals)]
        rw [hlog]

/-- the conditions of the extended fragment -/
def CondOKT (g : Nat) : JCond → Prop
  | .expr e => IntT e ∧ belowT g e
  | .predec v _ => v.readTy = .int

/-- `if|unless (c) goto L @ t` over the extended fragment -/
theorem lowerCondGotoT_sound (F : FloatOps) (I : JIntrinsics) (db ab diff g lg : Nat) (t : Int) (mask : Nat) (kw : Kw)
    (c : JCond) (tgt : Goto) (code : List JStmt) (g' lg' : Nat) (s : JM) (taken : Bool) (σ' : Store)
    (hm : maskOn mask diff = true) (hc : CondOKT g c) (hs : IntStore s.m.store) (ht : s.m.time = t) (htl : tgt.l < lg)
    (hsrc : evalCond F diff s.m.store c = .ok (taken, σ'))
    (h : lowerCondGoto I db ab g lg t mask kw c tgt = .ok (code, g', lg')) :
    ∃ s', execFrag F diff .run code s = .ok (exitIf (kw.takes taken) tgt, s') ∧
      (∀ x, below g x → s'.m.store x = σ' x) ∧ s'.m.log = s.m.log ∧ s'.m.time = s.m.time ∧ IntStore s'.m.store := by
  cases c with
  | expr e =>
    obtain ⟨hi, hb⟩ := hc
    simp only [evalCond] at hsrc
    cases hev : evalS F diff s.m.store e with
    | err x => simp [hev] at hsrc
    | panic x => simp [hev] at hsrc
    | ok val =>
      obtain ⟨v, rfl⟩ := evalS_intT F diff s.m.store hs hi hev
      simp only [hev, Outcome.ok.injEq, Prod.mk.injEq] at hsrc
      obtain ⟨rfl, rfl⟩ := hsrc
      simp only [lowerCondGoto] at h
      exact lowerCondT_sound F I db ab diff _ g lg t mask kw e tgt code g' lg' s v hm hi hb hs hev ht htl h
  | predec v k =>
    exact lowerCondGoto_sound_int F I db ab diff g lg t mask kw (.predec v k) tgt code g' lg' s taken σ' hm hc hs ht htl hsrc h


/-! ### whole bodies over the extended fragment -/

/-- the statements of the extended fragment: like `StmtOK`, with `IntT` expressions (ternaries anywhere) in right-hand
sides (also of assign-ops), call arguments and conditions -/
def StmtOKT (g0 : Nat) : JSStmt → Prop
  | .base (.decl _ _ none) => True
  | .base (.decl d ty (some e)) => ty = .int ∧ d < g0 ∧ IntT e ∧ belowT g0 e
  | .base (.assign _ v e) => v.readTy = .int ∧ below g0 v.name ∧ IntT e ∧ belowT g0 e
  | .base (.call _ args) => ∀ e ∈ args, IntT e ∧ belowT g0 e
  | .base (.scopeEnd _) => True
  | .base .other => False
  | .label _ => True
  | .goto _ => True
  | .condGoto _ c _ => CondOKT g0 c ∧ ∀ v k, c = .predec v k → below g0 v.name
  | .wait _ => True

theorem rhsOK_intT {g0 : Nat} {op : AssignOp} {e : SExpr} (h : RhsOK g0 op e) : IntT e ∧ belowT g0 e := by
  rcases h with ⟨hi, hb⟩ | ⟨_, c, l, r, rfl, ⟨hic, hil, hir⟩, ⟨hbc, hbl, hbr⟩⟩
  · exact ⟨intT_of_intOnly hi, belowT_of_exprBelow hb⟩
  · exact ⟨⟨intT_of_intOnly hic, intT_of_intOnly hil, intT_of_intOnly hir⟩,
      ⟨belowT_of_exprBelow hbc, belowT_of_exprBelow hbl, belowT_of_exprBelow hbr⟩⟩

/-- the extended fragment contains the fragment of `StmtOK` -/
theorem stmtOKT_of_stmtOK {g0 : Nat} : ∀ {st : JSStmt}, StmtOK g0 st → StmtOKT g0 st
  | .base (.decl _ _ none), _ => trivial
  | .base (.decl _ _ (some _)), h => ⟨h.1, h.2.1, rhsOK_intT h.2.2⟩
  | .base (.assign _ _ _), h => ⟨h.1, h.2.1, rhsOK_intT h.2.2⟩
  | .base (.call _ _), h => fun e he => ⟨intT_of_intOnly (h e he).1, belowT_of_exprBelow (h e he).2⟩
  | .base (.scopeEnd _), _ => trivial
  | .base .other, h => h.elim
  | .label _, _ => trivial
  | .goto _, _ => trivial
  | .condGoto _ (.expr _) _, h => ⟨⟨intT_of_intOnly h.1.1, belowT_of_exprBelow h.1.2⟩, h.2⟩
  | .condGoto _ (.predec _ _) _, h => ⟨h.1, h.2⟩
  | .wait _, _ => trivial

theorem runAssign_congrT (F : FloatOps) (diff g0 : Nat) {a b b' : Machine} {v : VarRef} {op : AssignOp} {e : SExpr}
    (hv : below g0 v.name) (hi : IntT e) (hb : belowT g0 e)
    (hst : ∀ x, below g0 x → a.store x = b.store x) (hlog : a.log = b.log) (htime : a.time = b.time)
    (h : runAssign F diff b v op e = .ok b') :
    ∃ a', runAssign F diff a v op e = .ok a' ∧ (∀ x, below g0 x → a'.store x = b'.store x) ∧ a'.log = b'.log ∧
      a'.time = b'.time := by
  have he : evalS F diff a.store e = evalS F diff b.store e := evalS_frameT F diff g0 hi hb hst
  have hv' : evalS F diff a.store (.var v) = evalS F diff b.store (.var v) := by simp only [evalS, hst v.name hv]
  unfold runAssign at h ⊢
  rw [he, hv']
  cases hop : op.binop with
  | none =>
    simp only [hop] at h ⊢
    cases hx : evalS F diff b.store e with
    | ok x =>
      simp only [hx, Outcome.ok.injEq] at h ⊢
      subst h
      exact ⟨_, rfl, upd_agree hst _ _, hlog, htime⟩
    | err c => simp [hx] at h
    | panic p => simp [hx] at h
  | some bop =>
    simp only [hop] at h ⊢
    cases hy : evalS F diff b.store (.var v) with
    | ok va =>
      cases hx : evalS F diff b.store e with
      | ok vb =>
        simp only [hx, hy] at h ⊢
        cases hr : binop F bop va vb with
        | ok r =>
          simp only [hr, Outcome.ok.injEq] at h ⊢
          subst h
          exact ⟨_, rfl, upd_agree hst _ _, hlog, htime⟩
        | err c => simp [hr] at h
        | panic p => simp [hr] at h
      | err c => simp [hx, hy] at h
      | panic p => simp [hx, hy] at h
    | err c => cases hx : evalS F diff b.store e <;> simp [hx, hy] at h
    | panic p => cases hx : evalS F diff b.store e <;> simp [hx, hy] at h

theorem runCall_congrT (F : FloatOps) (diff g0 : Nat) {a b b' : Machine} {opcode : Nat} {args : List SExpr}
    (hi : ∀ e ∈ args, IntT e) (hb : ∀ e ∈ args, belowT g0 e)
    (hst : ∀ x, below g0 x → a.store x = b.store x) (hlog : a.log = b.log) (htime : a.time = b.time)
    (h : runCall F diff b opcode args = .ok b') :
    ∃ a', runCall F diff a opcode args = .ok a' ∧ (∀ x, below g0 x → a'.store x = b'.store x) ∧ a'.log = b'.log ∧
      a'.time = b'.time := by
  have he := evalArgs_congrT F diff a.store b.store g0 args hi hb hst
  unfold runCall at h ⊢
  rw [he]
  cases hx : evalArgs F diff b.store args with
  | ok vs =>
    simp only [hx, Outcome.ok.injEq] at h ⊢
    subst h
    exact ⟨_, rfl, hst, by simp [hlog], htime⟩
  | err c => simp [hx] at h
  | panic p => simp [hx] at h

theorem evalCond_congrT (F : FloatOps) (diff g0 : Nat) {σ τ τ' : Store} {c : JCond} {taken : Bool}
    (hc : CondOKT g0 c) (hcv : ∀ v k, c = .predec v k → below g0 v.name)
    (hst : ∀ x, below g0 x → σ x = τ x) (h : evalCond F diff τ c = .ok (taken, τ')) :
    ∃ σ', evalCond F diff σ c = .ok (taken, σ') ∧ ∀ x, below g0 x → σ' x = τ' x := by
  cases c with
  | expr e =>
    obtain ⟨hi, hb⟩ := hc
    have he : evalS F diff σ e = evalS F diff τ e := evalS_frameT F diff g0 hi hb hst
    simp only [evalCond] at h ⊢
    rw [he]
    repeat' split at h
    all_goals first
      | (cases h; done)
      | (simp only [Outcome.ok.injEq, Prod.mk.injEq] at h; obtain ⟨rfl, rfl⟩ := h; exact ⟨σ, rfl, hst⟩)
  | predec v k => exact evalCond_congr F diff g0 (c := .predec v k) hc hcv hst h

/-- **stmtSim_intT**: every statement of the extended fragment is simulated by its fragment -/
theorem stmtSim_intT (F : FloatOps) (I : JIntrinsics) (db ab diff mask g0 lg0 : Nat) (hm : maskOn mask diff = true)
    {st : JSStmt} (hok : StmtOKT g0 st) (htl : ∀ tg, jumpOfS st = some tg → tg.l < lg0)
    {g lg : Nat} {t : Int} {code : List JStmt} {g' lg' : Nat} (hg : g0 ≤ g) (hlg : lg0 ≤ lg)
    (h : lowerStmtJ I db ab g lg t mask st = .ok (code, g', lg')) :
    StmtSim F diff (below g0) IntStore st t code := by
  intro j m m' fl hinv htj hst hlog htm hrun
  have assign_case : ∀ (v : VarRef) (op : AssignOp) (e : SExpr) (c : List JStmt) (g1 lg1 : Nat) (m1 : Machine),
      v.readTy = .int → below g0 v.name → IntT e → belowT g0 e →
      lowerAssignJ I db ab g lg t mask v op e = .ok (c, g1, lg1) → runAssign F diff m v op e = .ok m1 →
      ∃ j', execFrag F diff .run c j = .ok (.fall, j') ∧ IntStore j'.m.store ∧
        (∀ x, below g0 x → j'.m.store x = m1.store x) ∧ j'.m.log = m1.log ∧ j'.m.time = t := by
    intro v op e c g1 lg1 m1 hv hvb hi hb hl hr
    obtain ⟨a', hra, hsta, hloga, htimea⟩ := runAssign_congrT F diff g0 hvb hi hb hst hlog (by rw [htj, htm]) hr
    have hm1t : m1.time = t := by rw [runAssign_time hr, htm]
    obtain ⟨s', hex, hst1, hlog1, htime1, hint1⟩ :=
      lowerAssignT_sound F I db ab diff g lg t mask v op e c g1 lg1 j a' hm hv (below_mono hg hvb) hi (belowT_mono hg hb) hinv htj hra hl
    refine ⟨s', hex, hint1, ?_, by rw [hlog1, hloga], by rw [htime1, htimea, hm1t]⟩
    intro x hx
    rw [hst1 x (below_mono hg hx)]; exact hsta x hx
  cases st with
  | base s =>
    simp only [runStmtJ] at hrun
    cases hs : runStmtS F diff m s with
    | err x => simp [hs] at hrun
    | panic x => simp [hs] at hrun
    | ok m1 =>
      simp only [hs, Outcome.ok.injEq, Prod.mk.injEq] at hrun
      obtain ⟨rfl, rfl⟩ := hrun
      cases s with
      | decl d ty init =>
        cases init with
        | none =>
          simp only [lowerStmtJ, Outcome.ok.injEq, Prod.mk.injEq] at h
          obtain ⟨rfl, _, _⟩ := h
          simp only [runStmtS, Outcome.ok.injEq] at hs
          subst hs
          exact ⟨j, by simp [execFrag, stepJ, execStmt, Lower.exitOf], hinv, hst, hlog, htj⟩
        | some e =>
          obtain ⟨rfl, hd, hi, hb⟩ := hok
          simp only [lowerStmtJ] at h
          cases h1 : lowerAssignJ I db ab g lg t mask ⟨.loc d, none, .int⟩ .set e with
          | err x => simp [h1] at h
          | panic x => simp [h1] at h
          | ok r =>
            obtain ⟨c, g1, lg1⟩ := r
            simp only [h1, Outcome.ok.injEq, Prod.mk.injEq] at h
            obtain ⟨rfl, _, _⟩ := h
            simp only [runStmtS] at hs
            obtain ⟨j', hex, h2, h3, h4, h5⟩ := assign_case ⟨.loc d, none, .int⟩ .set e c g1 lg1 m1 rfl hd hi hb h1 hs
            exact ⟨j', by simpa [execFrag, stepJ, execStmt, Lower.exitOf] using hex, h2, h3, h4, h5⟩
      | assign op v e =>
        obtain ⟨hv, hvb, hi, hb⟩ := hok
        simp only [lowerStmtJ] at h
        simp only [runStmtS] at hs
        exact assign_case v op e code g' lg' m1 hv hvb hi hb h hs
      | call opcode args =>
        have hi : ∀ e ∈ args, IntT e := fun e he => (hok e he).1
        have hb : ∀ e ∈ args, belowT g0 e := fun e he => (hok e he).2
        simp only [lowerStmtJ] at h
        simp only [runStmtS] at hs
        obtain ⟨a', hra, hsta, hloga, htimea⟩ := runCall_congrT F diff g0 hi hb hst hlog (by rw [htj, htm]) hs
        obtain ⟨s', hex, hst2, hlog2, htime2, hint2⟩ :=
          lowerCallT_sound F I db ab diff g lg t mask opcode args code g' lg' j a' hm hi (fun e he => belowT_mono hg (hb e he)) hinv htj hra h
        refine ⟨s', hex, hint2, ?_, by rw [hlog2, hloga], ?_⟩
        · intro x hx; rw [hst2 x (below_mono hg hx)]; exact hsta x hx
        · have : m1.time = m.time := by
            simp only [runCall] at hs
            split at hs
            · simp only [Outcome.ok.injEq] at hs; subst hs; rfl
            · cases hs
            · cases hs
          rw [htime2, htimea, this, htm]
      | scopeEnd d =>
        simp only [lowerStmtJ, Outcome.ok.injEq, Prod.mk.injEq] at h
        obtain ⟨rfl, _, _⟩ := h
        simp only [runStmtS, Outcome.ok.injEq] at hs
        subst hs
        exact ⟨j, by simp [execFrag, stepJ, execStmt, Lower.exitOf], hinv, hst, hlog, htj⟩
      | other => exact hok.elim
  | label l =>
    simp only [lowerStmtJ, Outcome.ok.injEq, Prod.mk.injEq] at h
    obtain ⟨rfl, _, _⟩ := h
    simp only [runStmtJ, Outcome.ok.injEq, Prod.mk.injEq] at hrun
    obtain ⟨rfl, rfl⟩ := hrun
    exact ⟨j, by simp [execFrag, stepJ, Lower.exitOf], hinv, hst, hlog, htj⟩
  | goto tg =>
    simp only [lowerStmtJ] at h
    cases hj : lowerJmp I mask tg with
    | err x => simp [hj] at h
    | panic x => simp [hj] at h
    | ok c =>
      have := lowerJmp_ok hj
      subst this
      simp only [hj, Outcome.ok.injEq, Prod.mk.injEq] at h
      obtain ⟨rfl, _, _⟩ := h
      simp only [runStmtJ, Outcome.ok.injEq, Prod.mk.injEq] at hrun
      obtain ⟨rfl, rfl⟩ := hrun
      exact ⟨j, by simp [execFrag, stepJ, hm, Lower.exitOf], hinv, hst, hlog, htj⟩
  | condGoto kw c tg =>
    obtain ⟨hc, hcv⟩ := hok
    simp only [lowerStmtJ] at h
    simp only [runStmtJ] at hrun
    cases hev : evalCond F diff m.store c with
    | err x => simp [hev] at hrun
    | panic x => simp [hev] at hrun
    | ok r =>
      obtain ⟨taken, τ'⟩ := r
      simp only [hev, Outcome.ok.injEq, Prod.mk.injEq] at hrun
      obtain ⟨rfl, rfl⟩ := hrun
      obtain ⟨σ', hevj, hσ⟩ := evalCond_congrT F diff g0 hc hcv hst hev
      have htl' : tg.l < lg := Nat.lt_of_lt_of_le (htl tg rfl) hlg
      have hcg : CondOKT g c := by
        cases c with
        | expr e => exact ⟨hc.1, belowT_mono hg hc.2⟩
        | predec v k => exact hc
      obtain ⟨s', hex, hst', hlog', htime', hint'⟩ :=
        lowerCondGotoT_sound F I db ab diff g lg t mask kw c tg code g' lg' j taken σ' hm hcg hinv htj htl' hevj h
      refine ⟨s', by rw [exitOf_if]; exact hex, hint', ?_, by rw [hlog']; exact hlog, by rw [htime', htj]⟩
      intro x hx
      rw [hst' x (below_mono hg hx)]; exact hσ x hx
  | wait n =>
    simp only [lowerStmtJ, Outcome.ok.injEq, Prod.mk.injEq] at h
    obtain ⟨rfl, _, _⟩ := h
    simp only [runStmtJ, Outcome.ok.injEq, Prod.mk.injEq] at hrun
    obtain ⟨rfl, rfl⟩ := hrun
    exact ⟨j, by simp [execFrag, Lower.exitOf], hinv, hst, hlog, htj⟩

/-- **lowerBodyT_sound**: `lowerBody_sound` for the extended fragment `StmtOKT` - integer expressions with ternaries at
any depth in right-hand sides (of `=` and of every assign-op), call arguments, declarations and conditions -/
theorem lowerBodyT_sound (F : FloatOps) (I : JIntrinsics) (db ab diff mask g0 lg0 : Nat) (t0 : Int) (body : List JSStmt)
    (P : List (Int × JStmt)) (hm : maskOn mask diff = true) (hok : ∀ st ∈ body, StmtOKT g0 st) (wf : BodyWF lg0 t0 body)
    (hL : lowerBodyJ I db ab mask g0 lg0 t0 body = .ok P)
    (S0 : VM) (U0 : TVM) (hinit : SimRel (below g0) IntStore (timeAt t0 body 0) S0 U0)
    (fuel : Nat) (Sf : VM) (hrun : runJS F diff (stampBody t0 body) fuel 0 S0 = .ok Sf) :
    ∃ fuel' Uf, execT F diff P fuel' 0 U0 = .ok Uf ∧ SimRel (below g0) IntStore (endTime t0 body) Sf Uf := by
  have hsim : BodySim F diff (below g0) IntStore I db ab mask g0 lg0 body := by
    intro st hst g lg t code g' lg' hg hlg h
    exact stmtSim_intT F I db ab diff mask g0 lg0 hm (hok st hst) (fun tg htg => wf.targetsLt st hst tg htg) hg hlg h
  obtain ⟨Uf, hreach, hR⟩ := body_sim hL wf hsim fuel 0 S0 U0 Sf hrun hinit
  have h0 : fragPos I db ab mask g0 lg0 t0 body 0 = 0 := by cases body <;> rfl
  rw [h0] at hreach
  obtain ⟨fuel', hf⟩ := execT_of_reachT hreach
  exact ⟨fuel', Uf, hf, hR⟩

/-- **lowerBodyT_diverges**: divergence is preserved for the extended fragment -/
theorem lowerBodyT_diverges (F : FloatOps) (I : JIntrinsics) (db ab diff mask g0 lg0 : Nat) (t0 : Int) (body : List JSStmt)
    (P : List (Int × JStmt)) (hm : maskOn mask diff = true) (hok : ∀ st ∈ body, StmtOKT g0 st) (wf : BodyWF lg0 t0 body)
    (hL : lowerBodyJ I db ab mask g0 lg0 t0 body = .ok P)
    (S0 : VM) (U0 : TVM) (hinit : SimRel (below g0) IntStore (timeAt t0 body 0) S0 U0)
    (hdiv : ∀ n, ∃ j pc S, StepsS F diff (stampBody t0 body) n j 0 S0 pc S) :
    ∀ fuel, execT F diff P fuel 0 U0 = .panic "out of fuel" := by
  have hsim : BodySim F diff (below g0) IntStore I db ab mask g0 lg0 body := by
    intro st hst g lg t code g' lg' hg hlg h
    exact stmtSim_intT F I db ab diff mask g0 lg0 hm (hok st hst) (fun tg htg => wf.targetsLt st hst tg htg) hg hlg h
  intro fuel
  obtain ⟨c, pc, U, hc, hr⟩ := body_diverges hL wf hsim S0 U0 hinit hdiv fuel
  exact execT_fuel_of_reachTn hr fuel hc

/-! ### the extended fragment is inhabited by a body the old fragment does not contain -/

/-- `A = (B < (A > 3 ? A : 5) ? A + (B ? 1 : 2) : 0) * 2; if ((A ? B : 3) == 7) goto lab0; ins_200(A ? B + 1 : 0); lab0:` -/
def ternBody : List JSStmt :=
  [.base (.assign .set rA (.binop .mul
      (.ternary (.binop .lt (.var rB) (.ternary (.binop .gt (.var rA) (.litI 3)) (.var rA) (.litI 5)))
        (.binop .add (.var rA) (.ternary (.var rB) (.litI 1) (.litI 2))) (.litI 0)) (.litI 2))),
   .condGoto .kif (.expr (.binop .eq (.ternary (.var rA) (.var rB) (.litI 3)) (.litI 7))) ⟨0, none⟩,
   .base (.call 200 [.ternary (.var rA) (.binop .add (.var rB) (.litI 1)) (.litI 0)]),
   .label 0]

theorem ternBody_ok : ∀ st ∈ ternBody, StmtOKT 100 st := by
  intro st hst
  simp only [ternBody, List.mem_cons, List.not_mem_nil, or_false] at hst
  rcases hst with rfl | rfl | rfl | rfl
  · exact ⟨rfl, trivial, by simp [IntT, rA, rB, VarRef.readTy], by simp [belowT, below, rA, rB]⟩
  · exact ⟨⟨by simp [IntT, rA, rB, VarRef.readTy], by simp [belowT, below, rA, rB]⟩, fun v k h => by cases h⟩
  · intro e he
    simp only [List.mem_cons, List.not_mem_nil, or_false] at he
    subst he
    exact ⟨by simp [IntT, rA, rB, VarRef.readTy], by simp [belowT, below, rA, rB]⟩
  · trivial


theorem ternBody_lowers : bodyLen (lowerBodyJ jTwoPart 255 0 255 100 1000 0 ternBody) = some 48 := by decide +kernel

theorem ternBody_runs : runLog (runJS someFloats 0 (stampBody 0 ternBody) 10 0 ⟨⟨fun _ => .int 7, [], 0⟩, 0, []⟩) =
    some ([(200, [.int 0])], [0], 0, 0) := by decide +kernel

/-- `lowerBodyT_sound` applied: the compiled body (48 statements, nested labels) logs `ins_200(0)` at real time 0 -/
example : ∃ P fuel' Uf, lowerBodyJ jTwoPart 255 0 255 100 1000 0 ternBody = .ok P ∧
    execT someFloats 0 P fuel' 0 ⟨⟨⟨fun _ => .int 7, [], 0⟩, 0, []⟩, none⟩ = .ok Uf ∧
    Uf.vm.m.log = [(200, [.int 0])] ∧ Uf.vm.stamps = [0] ∧ Uf.vm.m.store (.reg 1000) = .int 0 := by
  cases hL : lowerBodyJ jTwoPart 255 0 255 100 1000 0 ternBody with
  | err x => have := ternBody_lowers; rw [hL] at this; cases this
  | panic x => have := ternBody_lowers; rw [hL] at this; cases this
  | ok P =>
    cases hr : runJS someFloats 0 (stampBody 0 ternBody) 10 0 ⟨⟨fun _ => .int 7, [], 0⟩, 0, []⟩ with
    | err x => have := ternBody_runs; rw [hr] at this; cases this
    | panic x => have := ternBody_runs; rw [hr] at this; cases this
    | ok Sf =>
      have hrun := ternBody_runs
      rw [hr] at hrun
      simp only [runLog, Option.some.injEq, Prod.mk.injEq] at hrun
      have hwf : BodyWF 1000 0 ternBody :=
        ⟨by decide, by decide,
         by intro st hst g hg; simp only [ternBody, List.mem_cons, List.not_mem_nil, or_false] at hst
            rcases hst with rfl | rfl | rfl | rfl <;> simp [jumpOfS] at hg
            subst hg; decide,
         by intro n hn; simp [ternBody] at hn,
         by intro st hst g x hg hx; simp only [ternBody, List.mem_cons, List.not_mem_nil, or_false] at hst
            rcases hst with rfl | rfl | rfl | rfl <;> simp [jumpOfS] at hg
            subst hg; simp at hx⟩
      obtain ⟨fuel', Uf, hf, hR⟩ := lowerBodyT_sound someFloats jTwoPart 255 0 0 255 100 1000 0 ternBody P (by decide) ternBody_ok hwf hL
        _ _ (simRel_init 100 _ (fun _ => .int 7) (fun _ => ⟨7, rfl⟩) (by decide)) 10 Sf hr
      have hA : Sf.m.store (.reg 1000) = .int 0 := by
        have : (match runJS someFloats 0 (stampBody 0 ternBody) 10 0 ⟨⟨fun _ => .int 7, [], 0⟩, 0, []⟩ with
          | .ok s => s.m.store (.reg 1000) | _ => .int 1) = .int 0 := by decide +kernel
        rw [hr] at this; exact this
      exact ⟨P, fuel', Uf, rfl, hf, by rw [hR.log, hrun.1], by rw [hR.stamps, hrun.2.1], by rw [hR.store (.reg 1000) trivial, hA]⟩


end TruthModel.C02
