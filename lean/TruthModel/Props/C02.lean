import TruthModel.Model.LowerSem
/-
C02 — compiling expressions and statements preserves what the script does.

Proved (for every intrinsic table `I`, every store, every difficulty, every fuel, every value of the
temp counter):

* `alternatives_sound`       the integer fallbacks of `discover_alternatives` compute what the operator
                             computes: `-1 * x = -x`, `-1 - x = ~x` over `Int32` (all 2^32 values), and
                             `a op= b` through the binop is the same statement.
* `lowerSet_sound`           `v = e`: executing the emitted code leaves `eval e` in `v`, changes no other
                             variable below the temp counter (so no register, no user local, no live
                             temporary), logs nothing, keeps the time.
* `lowerAssign_sound_partial` the same for `v = e` and `v op= e` as statements of the VM.
* `lowerCall_sound_partial`  an instruction call with arbitrarily complex arguments logs the same opcode
                             and the same argument values as the source call and changes no variable
                             below the temp counter.

"partial": the proved fragment is integer expressions (literals, registers and locals read as `int`,
`-x` `!x` `~x`, all 19 binary operators), from stores holding integers, and the lowered stream before
register assignment (temporaries are still variables).  The destination-reuse guard `expr_uses_var` is
used exactly where expected (`hb_same` in `binop_case`); removing it from the model breaks that step.
`C02_full` states the whole property; what is missing is listed there.
-/
namespace TruthModel.C02
open TruthModel TruthModel.Regs TruthModel.Lower

/-! ## 1. alternatives -/

theorem neg_one_mul (x : Int32) : (-1 : Int32) * x = -x := by
  apply Int32.toInt_inj.mp
  simp [Int32.toInt_mul, Int32.toInt_neg]

theorem neg_one_sub (x : Int32) : (-1 : Int32) - x = ~~~x := by
  rw [Int32.not_eq_neg_sub, Int32.sub_eq_add_neg, Int32.sub_eq_add_neg, Int32.add_comm]

/-- what an alternative of a unary operator computes on `x` -/
def unAltValue (F : FloatOps) (alt : UnAlt) (op : UnOp) (x : Value) : Outcome (Option Value) :=
  match alt with
  | .intrinsic => unop F op x
  | .viaConstBinOp c bop => match binop F bop c x with
    | .ok v => .ok (some v)
    | .err e => .err e
    | .panic p => .panic p

/-- **alternatives_sound** (unary, integers): whichever alternative `discover_alternatives` selects for
`(op, int)`, it computes `op x` for every `x : Int32`. -/
theorem alternatives_sound (F : FloatOps) (I : Intrinsics) (op : UnOp) (alt : UnAlt) (x : Int32)
    (h : I.unAlt op .int = some alt) : unAltValue F alt op (.int x) = unop F op (.int x) := by
  unfold Intrinsics.unAlt at h
  split at h
  · simp only [Option.some.injEq] at h; subst h; rfl
  · cases op with
    | neg =>
      simp only [] at h
      split at h
      · simp only [Option.some.injEq] at h; subst h
        simp [unAltValue, minusOne, binop, binopInt, unop, neg_one_mul]
      · simp at h
    | bnot =>
      simp only [] at h
      split at h
      · simp only [Option.some.injEq] at h; subst h
        simp [unAltValue, binop, binopInt, unop, neg_one_sub]
      · simp at h
    | _ => simp at h

/-- `a op= b` through the binop (`AssignOp::ViaBinOp`) is literally `a = a op b` -/
theorem assignAlt_viaBinOp (I : Intrinsics) (op : AssignOp) (ty : RTy) (b : BinOp)
    (h : I.assignAlt op ty = some (.viaBinOp b)) : op.binop = some b := by
  unfold Intrinsics.assignAlt at h
  cases h1 : I.assignOp op ty with
  | some _ => simp [h1] at h
  | none =>
    cases h2 : op.binop with
    | none => simp [h1, h2] at h
    | some b' =>
      cases h3 : I.binOp b' ty with
      | none => simp [h1, h2, h3] at h
      | some _ => simp [h1, h2, h3] at h; rw [h]

/-- `=` is never compiled through a binop -/
theorem assignAlt_set (I : Intrinsics) (ty : RTy) (alt : AssignAlt) (h : I.assignAlt .set ty = some alt) :
    alt = .intrinsic := by
  unfold Intrinsics.assignAlt at h
  split at h
  · simp only [Option.some.injEq] at h; exact h.symm
  · simp [AssignOp.binop] at h

/-! ## 2. the proved fragment -/

/-- integer expressions: literals, variables read as `int`, `-x` `!x` `~x`, every binary operator -/
def IntOnly : SExpr → Prop
  | .litI _ => True
  | .var v => v.readTy = .int
  | .unop op e => (op = .neg ∨ op = .not ∨ op = .bnot) ∧ IntOnly e
  | .binop _ a b => IntOnly a ∧ IntOnly b
  | _ => False

/-- every variable holds an integer -/
def IntStore (σ : Store) : Prop := ∀ x, ∃ n, σ x = .int n

/-- registers, user locals and the temporaries allocated so far: everything below the temp counter -/
def below (g : Nat) : VarName → Prop
  | .reg _ => True
  | .loc d => d < g

/-- all locals of the expression are below the temp counter -/
def exprBelow (g : Nat) : SExpr → Prop
  | .var v => below g v.name
  | .unop _ e => exprBelow g e
  | .binop _ a b => exprBelow g a ∧ exprBelow g b
  | .litI _ => True
  | .litF _ => True
  | _ => False

theorem below_mono {g g' : Nat} {x : VarName} (h : g ≤ g') : below g x → below g' x := by
  cases x with
  | reg r => simp [below]
  | loc d =>
    intro hd
    exact Nat.lt_of_lt_of_le hd h

theorem exprBelow_mono {g g' : Nat} (h : g ≤ g') : ∀ {e : SExpr}, exprBelow g e → exprBelow g' e
  | .var _, hb => below_mono h hb
  | .unop _ e, hb => exprBelow_mono h (e := e) hb
  | .binop _ _ _, hb => ⟨exprBelow_mono h hb.1, exprBelow_mono h hb.2⟩
  | .litI _, _ => trivial
  | .litF _, _ => trivial
  | .ternary _ _ _, hb => hb.elim
  | .switch _, hb => hb.elim
  | .omitted, hb => hb.elim

theorem readAs_int (F : FloatOps) (n : Int32) : readAs F (.int n) .int = .ok (.int n) := rfl

theorem intOnly_ty : ∀ {e : SExpr}, IntOnly e → e.ty = .int
  | .litI _, _ => rfl
  | .var v, h => h
  | .unop op e, h => by
    rcases h.1 with rfl | rfl | rfl
    · simp [SExpr.ty, unopTy, intOnly_ty h.2]
    · simp [SExpr.ty, unopTy]
    · simp [SExpr.ty, unopTy]
  | .binop op a b, h => by
    simp only [SExpr.ty, intOnly_ty h.1]
    cases op <;> rfl

theorem intOnly_simpleTy {e : SExpr} (h : IntOnly e) : e.simpleTy = .int := by
  cases e <;> first
    | (simp [IntOnly] at h; done)
    | (simp only [SExpr.simpleTy]; exact intOnly_ty h)

/-- a non-simple integer expression is stored whole into an `int` temporary and read back as `int` -/
theorem intOnly_temp {e : SExpr} (h : IntOnly e) : e.temp.tmpExpr = e ∧ e.temp.tmpTy = .int ∧ e.temp.readTy = .int := by
  cases e with
  | unop op b =>
    have ht := intOnly_ty h
    rcases h.1 with rfl | rfl | rfl <;> simp [SExpr.temp, castSigil, ht]
  | litI _ => simp [SExpr.temp, SExpr.ty]
  | var v => simp [SExpr.temp, SExpr.ty]; exact h
  | binop op a b => simp [SExpr.temp]; exact intOnly_ty h
  | litF _ => simp [IntOnly] at h
  | ternary _ _ _ => simp [IntOnly] at h
  | switch _ => simp [IntOnly] at h
  | omitted => simp [IntOnly] at h

theorem binopInt_int (op : BinOp) (a b : Int32) (v : Value) (h : binopInt op a b = .ok v) : ∃ n, v = .int n := by
  cases op <;> simp only [binopInt] at h
  all_goals first
    | (split at h <;> simp only [Outcome.ok.injEq, reduceCtorEq] at h <;> exact ⟨_, h.symm⟩)
    | (simp only [Outcome.ok.injEq] at h; exact ⟨_, h.symm⟩)

/-- the value of an integer expression from an integer store is an integer -/
theorem evalS_int (F : FloatOps) (diff : Nat) (σ : Store) (hs : IntStore σ) :
    ∀ {e : SExpr} {v : Value}, IntOnly e → evalS F diff σ e = .ok v → ∃ n, v = .int n
  | .litI n, v, _, h => by simp only [evalS, Outcome.ok.injEq] at h; exact ⟨n, h.symm⟩
  | .var x, v, hi, h => by
    obtain ⟨n, hn⟩ := hs x.name
    simp only [evalS] at h
    split at h
    · rename_i s hsig
      have : s = .int := by simpa [IntOnly, VarRef.readTy, hsig] using hi
      subst this
      rw [hn, readAs_int] at h
      simp only [Outcome.ok.injEq] at h; exact ⟨n, h.symm⟩
    · simp only [Outcome.ok.injEq] at h; exact ⟨n, by rw [← h, hn]⟩
  | .unop op e, v, hi, h => by
    simp only [evalS] at h
    split at h
    · rename_i x hx
      obtain ⟨n, rfl⟩ := evalS_int F diff σ hs hi.2 hx
      rcases hi.1 with rfl | rfl | rfl <;>
        simp only [castSigil, unop, Outcome.ok.injEq] at h <;> exact ⟨_, h.symm⟩
    · cases h
    · cases h
  | .binop op a b, v, hi, h => by
    simp only [evalS] at h
    split at h
    · rename_i va ha
      split at h
      · rename_i vb hb
        obtain ⟨na, rfl⟩ := evalS_int F diff σ hs hi.1 ha
        obtain ⟨nb, rfl⟩ := evalS_int F diff σ hs hi.2 hb
        exact binopInt_int op na nb v h
      · cases h
      · cases h
    · cases h
    · cases h

/-- evaluation only looks at the variables of the expression -/
theorem evalS_congr (F : FloatOps) (diff : Nat) (σ τ : Store) :
    ∀ {e : SExpr}, IntOnly e → (∀ x, e.uses x = true → σ x = τ x) → evalS F diff σ e = evalS F diff τ e
  | .litI _, _, _ => rfl
  | .var v, _, h => by
    have : σ v.name = τ v.name := h v.name (by simp [SExpr.uses])
    simp only [evalS, this]
  | .unop op e, hi, h => by
    have := evalS_congr F diff σ τ hi.2 (fun x hx => h x (by simpa [SExpr.uses] using hx))
    simp only [evalS, this]
  | .binop op a b, hi, h => by
    have h1 := evalS_congr F diff σ τ hi.1 (fun x hx => h x (by simp [SExpr.uses, hx]))
    have h2 := evalS_congr F diff σ τ hi.2 (fun x hx => h x (by simp [SExpr.uses, hx]))
    simp only [evalS, h1, h2]

theorem uses_below {g : Nat} : ∀ {e : SExpr} {x : VarName}, exprBelow g e → e.uses x = true → below g x
  | .var v, x, hb, hu => by
    simp only [SExpr.uses, beq_iff_eq] at hu; subst hu; exact hb
  | .unop _ e, x, hb, hu => uses_below (e := e) hb (by simpa [SExpr.uses] using hu)
  | .binop _ a b, x, hb, hu => by
    simp only [SExpr.uses, Bool.or_eq_true] at hu
    cases hu with
    | inl hu => exact uses_below hb.1 hu
    | inr hu => exact uses_below hb.2 hu
  | .litI _, _, _, hu => by simp [SExpr.uses] at hu
  | .litF _, _, _, hu => by simp [SExpr.uses] at hu
  | .ternary _ _ _, _, hb, _ => hb.elim
  | .switch _, _, hb, _ => hb.elim
  | .omitted, _, hb, _ => hb.elim

/-! ## 3. execution lemmas -/

theorem exec_append (F : FloatOps) (diff : Nat) : ∀ (a b : List LStmt) (m : Machine),
    exec F diff m (a ++ b) = match exec F diff m a with
      | .ok m' => exec F diff m' b
      | .err c => .err c
      | .panic p => .panic p
  | [], b, m => by simp [exec]
  | s :: a, b, m => by
    simp only [List.cons_append, exec]
    cases execStmt F diff m s with
    | ok m' => exact exec_append F diff a b m'
    | err c => rfl
    | panic p => rfl

theorem exec_append_ok {F : FloatOps} {diff : Nat} {a b : List LStmt} {m m1 m2 : Machine}
    (h1 : exec F diff m a = .ok m1) (h2 : exec F diff m1 b = .ok m2) : exec F diff m (a ++ b) = .ok m2 := by
  rw [exec_append, h1]; exact h2

theorem exec_alloc (F : FloatOps) (diff : Nat) (m : Machine) (d : Def) (ty : RTy) (c : List LStmt) :
    exec F diff m (.alloc d ty :: c) = exec F diff m c := rfl

theorem exec_frees (F : FloatOps) (diff : Nat) (m : Machine) (o : Option Def) :
    exec F diff m (freeOf o) = .ok m := by
  cases o <;> rfl

/-- an argument that reads an integer -/
inductive IntAtom : Arg → Prop
  | imm (n : Int32) : IntAtom (.imm (.int n))
  | raw (r : Reg) : IntAtom (.raw r .int)
  | loc (d : Def) : IntAtom (.loc d .int)

def atomValue (σ : Store) : Arg → Value
  | .imm v => v
  | .raw r _ => σ (.reg r)
  | .loc d _ => σ (.loc d)
  | _ => .int 0

theorem readArg_intAtom (F : FloatOps) (diff : Nat) {σ : Store} (hs : IntStore σ) {a : Arg} (ha : IntAtom a) :
    readArg F diff σ a = .ok (atomValue σ a) := by
  cases ha with
  | imm n => rfl
  | raw r =>
    obtain ⟨n, hn⟩ := hs (.reg r)
    simp [readArg, selectArg, atomValue, hn, readAs_int]
  | loc d =>
    obtain ⟨n, hn⟩ := hs (.loc d)
    simp [readArg, selectArg, atomValue, hn, readAs_int]

theorem atomValue_congr {σ τ : Store} {a : Arg} (h : ∀ y, argVar a = some y → σ y = τ y) :
    atomValue σ a = atomValue τ a := by
  cases a <;> simp [atomValue, argVar] at * <;> exact h

theorem toArg_intAtom (v : VarRef) : IntAtom (v.toArg .int) := by
  cases hv : v.name <;> simp [VarRef.toArg, hv] <;> constructor

theorem argVar_toArg (v : VarRef) (ty : RTy) : argVar (v.toArg ty) = some v.name := by
  cases hv : v.name <;> simp [VarRef.toArg, hv, argVar]

theorem atomValue_toArg (σ : Store) (v : VarRef) (ty : RTy) : atomValue σ (v.toArg ty) = σ v.name := by
  cases hv : v.name <;> simp [VarRef.toArg, hv, atomValue]

/-- a simple integer expression is an integer atom with the same value, naming only its own variable -/
theorem simple_spec (F : FloatOps) (diff : Nat) {e : SExpr} {a : Arg} (hi : IntOnly e) (h : e.simple? = some a) :
    IntAtom a ∧ (∀ σ, IntStore σ → evalS F diff σ e = .ok (atomValue σ a)) ∧
      (∀ y, argVar a = some y → e.uses y = true) := by
  cases e with
  | litI n =>
    simp only [SExpr.simple?, Option.some.injEq] at h; subst h
    exact ⟨.imm n, fun _ _ => rfl, fun y hy => by simp [argVar] at hy⟩
  | var v =>
    simp only [SExpr.simple?, Option.some.injEq] at h; subst h
    have hr : v.readTy = .int := hi
    refine ⟨by rw [VarRef.lowered, hr]; exact toArg_intAtom v, ?_, ?_⟩
    · intro σ hs
      obtain ⟨n, hn⟩ := hs v.name
      simp only [evalS, VarRef.lowered, atomValue_toArg]
      cases hsig : v.sigil with
      | none => rfl
      | some s =>
        have : s = .int := by simpa [VarRef.readTy, hsig] using hr
        subst this
        simp [hn, readAs_int]
    · intro y hy
      rw [VarRef.lowered, argVar_toArg] at hy
      simp only [Option.some.injEq] at hy; subst hy
      simp [SExpr.uses]
  | unop op b => simp [SExpr.simple?] at h
  | binop op x y => simp [SExpr.simple?] at h
  | litF _ => simp [IntOnly] at hi
  | ternary _ _ _ => simp [IntOnly] at hi
  | switch _ => simp [IntOnly] at hi
  | omitted => simp [IntOnly] at hi

theorem upd_same (σ : Store) (x : VarName) (v : Value) : upd σ x v x = v := by simp [upd]
theorem upd_other (σ : Store) {x y : VarName} (v : Value) (h : y ≠ x) : upd σ x v y = σ y := by simp [upd, h]

theorem intStore_upd {σ : Store} (hs : IntStore σ) (x : VarName) (n : Int32) : IntStore (upd σ x (.int n)) := by
  intro y
  by_cases h : y = x
  · subst h; exact ⟨n, upd_same σ y _⟩
  · rw [upd_other σ _ h]; exact hs y

/-! ## 4. the primitives -/

theorem argVar_lowered (v : VarRef) : argVar v.lowered = some v.name := argVar_toArg v _

/-- `v = <atom>` -/
theorem exec_setAtom (F : FloatOps) (I : Intrinsics) (diff mask : Nat) (v : VarRef) (a : Arg) (c : List LStmt)
    (m : Machine) (hm : maskOn mask diff = true) (hs : IntStore m.store) (ha : IntAtom a)
    (h : lowerAssignAtom I mask v .set a = .ok c) :
    exec F diff m c = .ok { m with store := upd m.store v.name (atomValue m.store a) } := by
  unfold lowerAssignAtom at h
  cases halt : I.assignAlt .set v.readTy with
  | none => simp [halt] at h
  | some alt =>
    have := assignAlt_set I _ alt halt
    subst this
    simp only [halt, Outcome.ok.injEq] at h
    subst h
    simp [exec, execStmt, execInstr, hm, argVar_lowered, readArg_intAtom F diff hs ha]

/-- `v = <atom> op <atom>` -/
theorem exec_binopAtom (F : FloatOps) (I : Intrinsics) (diff mask : Nat) (v : VarRef) (op : BinOp) (ty : RTy)
    (a b : Arg) (c : List LStmt) (m : Machine) (r : Value)
    (hm : maskOn mask diff = true) (hs : IntStore m.store) (ha : IntAtom a) (hb : IntAtom b)
    (hr : binop F op (atomValue m.store a) (atomValue m.store b) = .ok r)
    (h : lowerBinopAtom I mask v op ty a b = .ok c) :
    exec F diff m c = .ok { m with store := upd m.store v.name r } := by
  unfold lowerBinopAtom at h
  cases hop : I.binOp op ty with
  | none => simp [hop] at h
  | some _ =>
    simp only [hop, Outcome.ok.injEq] at h
    subst h
    simp [exec, execStmt, execInstr, hm, argVar_lowered, readArg_intAtom F diff hs ha,
      readArg_intAtom F diff hs hb, hr]

/-- `v = op <atom>`, natively or through the fallback -/
theorem exec_unopAtom (F : FloatOps) (I : Intrinsics) (diff mask : Nat) (v : VarRef) (op : UnOp)
    (a : Arg) (c : List LStmt) (m : Machine) (x : Int32) (w : Value)
    (hm : maskOn mask diff = true) (hs : IntStore m.store) (ha : IntAtom a)
    (hx : atomValue m.store a = .int x) (hw : unop F op (.int x) = .ok (some w))
    (h : lowerUnopAtom I mask v op .int a = .ok c) :
    exec F diff m c = .ok { m with store := upd m.store v.name w } := by
  unfold lowerUnopAtom at h
  cases halt : I.unAlt op .int with
  | none => simp [halt] at h
  | some alt =>
    have hsound := alternatives_sound F I op alt x halt
    cases alt with
    | intrinsic =>
      simp only [halt, Outcome.ok.injEq] at h
      subst h
      simp [exec, execStmt, execInstr, hm, argVar_lowered, readArg_intAtom F diff hs ha, hx, hw]
    | viaConstBinOp k bop =>
      simp only [halt, Outcome.ok.injEq] at h
      subst h
      simp only [unAltValue, hw] at hsound
      have hk : readArg F diff m.store (.imm k) = .ok k := rfl
      cases hb : binop F bop k (.int x) with
      | ok r =>
        rw [hb] at hsound
        simp only [Outcome.ok.injEq, Option.some.injEq] at hsound
        subst hsound
        simp [exec, execStmt, execInstr, hm, argVar_lowered, readArg_intAtom F diff hs ha, hx, hk, hb]
      | err e => rw [hb] at hsound; cases hsound
      | panic q => rw [hb] at hsound; cases hsound

/-! ## 5. `v = e` -/

/-- what the code emitted for `v = e` guarantees -/
structure SetSpec (F : FloatOps) (diff g : Nat) (v : VarRef) (m : Machine) (code : List LStmt) (g' : Nat)
    (val : Value) : Prop where
  mono : g ≤ g'
  run : ∃ m', exec F diff m code = .ok m' ∧ m'.store v.name = val ∧
    (∀ x, x ≠ v.name → below g x → m'.store x = m.store x) ∧
    m'.log = m.log ∧ m'.time = m.time ∧ IntStore m'.store

/-- what the lowering of one operand guarantees -/
structure OSpec (F : FloatOps) (diff g : Nat) (v : VarRef) (guard : Bool) (e : SExpr) (m : Machine)
    (O : Operand) (val : Value) : Prop where
  mono : g ≤ O.gen
  atom : IntAtom O.atom
  run : ∃ m', exec F diff m O.code = .ok m' ∧ atomValue m'.store O.atom = val ∧
    (∀ x, below g x → (x ≠ v.name ∨ guard = false) → m'.store x = m.store x) ∧
    m'.log = m.log ∧ m'.time = m.time ∧ IntStore m'.store
  atomBelow : ∀ y, argVar O.atom = some y → below O.gen y
  atomV : argVar O.atom = some v.name → (e.simple? = none ∧ O.free = none) ∨ e.uses v.name = true
  freeAtom : ∀ d, O.free = some d → argVar O.atom = some (.loc g)
  tyInt : O.ty = .int

/-- the hypotheses under which an assignment is lowered -/
structure Ctx (F : FloatOps) (diff g mask : Nat) (v : VarRef) (e : SExpr) (m : Machine) (val : Value) : Prop where
  maskOn : maskOn mask diff = true
  vInt : v.readTy = .int
  vBelow : below g v.name
  intOnly : IntOnly e
  exprBelow : exprBelow g e
  intStore : IntStore m.store
  eval : evalS F diff m.store e = .ok val

theorem loc_not_below (g : Nat) : ¬ below g (.loc g) := by
  intro h; exact Nat.lt_irrefl g h

theorem ne_of_below {g : Nat} {x : VarName} (h : below g x) : x ≠ .loc g := by
  intro e; subst e; exact loc_not_below g h

theorem tmpVar_readTy (d : Def) (ty : RTy) : (tmpVar d ty).readTy = ty := rfl
theorem tmpVar_name (d : Def) (ty : RTy) : (tmpVar d ty).name = .loc d := rfl

/-- the statement proved by induction on the fuel, for the four mutually recursive functions -/
def SoundAt (F : FloatOps) (I : Intrinsics) (db ab diff fuel : Nat) : Prop :=
  (∀ g mask v e code g' m val, Ctx F diff g mask v e m val →
      lowerSet I db ab fuel g mask v e = .ok (code, g') → SetSpec F diff g v m code g' val) ∧
  (∀ g mask v guard e O m val, Ctx F diff g mask v e m val →
      lowerOperand I db ab fuel g mask v .int guard e = .ok O → OSpec F diff g v guard e m O val) ∧
  (∀ g mask v op a b code g' m val, Ctx F diff g mask v (.binop op a b) m val →
      lowerBinop I db ab fuel g mask v op a b = .ok (code, g') → SetSpec F diff g v m code g' val) ∧
  (∀ g mask v op b code g' m val, Ctx F diff g mask v (.unop op b) m val →
      lowerUnop I db ab fuel g mask v op b = .ok (code, g') → SetSpec F diff g v m code g' val)

theorem set_case {F : FloatOps} {I : Intrinsics} {db ab diff fuel : Nat} (ih : SoundAt F I db ab diff fuel)
    {g mask : Nat} {v : VarRef} {e : SExpr} {code : List LStmt} {g' : Nat} {m : Machine} {val : Value}
    (cx : Ctx F diff g mask v e m val) (h : lowerSet I db ab (fuel + 1) g mask v e = .ok (code, g')) :
    SetSpec F diff g v m code g' val := by
  simp only [lowerSet] at h
  cases hsim : e.simple? with
  | some a =>
    simp only [hsim] at h
    cases hat : lowerAssignAtom I mask v .set a with
    | ok c =>
      simp only [hat, Outcome.ok.injEq, Prod.mk.injEq] at h
      obtain ⟨rfl, rfl⟩ := h
      obtain ⟨hatom, hval, _⟩ := simple_spec F diff cx.intOnly hsim
      have hv := hval m.store cx.intStore
      rw [cx.eval] at hv
      simp only [Outcome.ok.injEq] at hv
      obtain ⟨n, hn⟩ := evalS_int F diff m.store cx.intStore cx.intOnly cx.eval
      refine ⟨Nat.le_refl _, _, exec_setAtom F I diff mask v a c m cx.maskOn cx.intStore hatom hat, ?_, ?_, rfl, rfl, ?_⟩
      · simp [upd_same, hv]
      · intro x hx _; exact upd_other _ _ hx
      · rw [← hv, hn]; exact intStore_upd cx.intStore _ _
    | err x => simp [hat] at h
    | panic x => simp [hat] at h
  | none =>
    simp only [hsim] at h
    obtain ⟨ht1, ht2, ht3⟩ := intOnly_temp cx.intOnly
    simp only [ht1, ht2, ht3, ne_eq, not_true_eq_false, ite_false] at h
    cases e with
    | binop op a b => exact ih.2.2.1 g mask v op a b code g' m val cx h
    | unop op b => exact ih.2.2.2 g mask v op b code g' m val cx h
    | litI _ => simp [SExpr.simple?] at hsim
    | var _ => simp [SExpr.simple?] at hsim
    | litF _ => exact absurd cx.intOnly (by simp [IntOnly])
    | ternary _ _ _ => exact absurd cx.intOnly (by simp [IntOnly])
    | switch _ => exact absurd cx.intOnly (by simp [IntOnly])
    | omitted => exact absurd cx.intOnly (by simp [IntOnly])

theorem operand_case {F : FloatOps} {I : Intrinsics} {db ab diff fuel : Nat} (ih : SoundAt F I db ab diff fuel)
    {g mask : Nat} {v : VarRef} {guard : Bool} {e : SExpr} {O : Operand} {m : Machine} {val : Value}
    (cx : Ctx F diff g mask v e m val)
    (h : lowerOperand I db ab (fuel + 1) g mask v .int guard e = .ok O) : OSpec F diff g v guard e m O val := by
  simp only [lowerOperand] at h
  cases hsim : e.simple? with
  | some a =>
    simp only [hsim, Outcome.ok.injEq] at h
    subst h
    obtain ⟨hatom, hval, huse⟩ := simple_spec F diff cx.intOnly hsim
    have hv := hval m.store cx.intStore
    rw [cx.eval] at hv
    simp only [Outcome.ok.injEq] at hv
    refine ⟨Nat.le_refl _, hatom, ⟨m, rfl, hv.symm, fun _ _ _ => rfl, rfl, rfl, cx.intStore⟩, ?_, ?_, ?_, intOnly_simpleTy cx.intOnly⟩
    · intro y hy; exact uses_below cx.exprBelow (huse y hy)
    · intro hy; exact Or.inr (huse _ hy)
    · intro d hd; cases hd
  | none =>
    simp only [hsim] at h
    obtain ⟨ht1, ht2, ht3⟩ := intOnly_temp cx.intOnly
    simp only [ht1, ht2, ht3, true_and] at h
    cases guard with
    | true =>
      simp only [if_true] at h
      cases hl : lowerSet I db ab fuel g mask v e with
      | ok r =>
        obtain ⟨c, g1⟩ := r
        simp only [hl, Outcome.ok.injEq] at h
        subst h
        obtain ⟨hmono, m', hex, hval, hframe, hlog, htime, hint⟩ := ih.1 g mask v e c g1 m val cx hl
        refine ⟨hmono, toArg_intAtom v, ⟨m', hex, by rw [atomValue_toArg]; exact hval, ?_, hlog, htime, hint⟩, ?_, ?_, ?_, rfl⟩
        · intro x hx hor
          cases hor with
          | inl hne => exact hframe x hne hx
          | inr hf => cases hf
        · intro y hy
          rw [argVar_toArg] at hy
          simp only [Option.some.injEq] at hy; subst hy
          exact below_mono hmono cx.vBelow
        · intro _; exact Or.inl ⟨hsim, rfl⟩
        · intro d hd; cases hd
      | err x => simp [hl] at h
      | panic x => simp [hl] at h
    | false =>
      simp only [Bool.false_eq_true, if_false] at h
      cases hl : lowerSet I db ab fuel (g + 1) mask (tmpVar g .int) e with
      | ok r =>
        obtain ⟨c, g1⟩ := r
        simp only [hl, Outcome.ok.injEq] at h
        subst h
        have cx' : Ctx F diff (g + 1) mask (tmpVar g .int) e m val :=
          ⟨cx.maskOn, rfl, Nat.lt_succ_self g, cx.intOnly, exprBelow_mono (Nat.le_succ g) cx.exprBelow,
            cx.intStore, cx.eval⟩
        obtain ⟨hmono, m', hex, hval, hframe, hlog, htime, hint⟩ :=
          ih.1 (g + 1) mask (tmpVar g .int) e c g1 m val cx' hl
        refine ⟨Nat.le_trans (Nat.le_succ g) hmono, .loc g, ⟨m', by rw [exec_alloc]; exact hex, hval, ?_, hlog, htime, hint⟩, ?_, ?_, ?_, rfl⟩
        · intro x hx _
          exact hframe x (ne_of_below hx) (below_mono (Nat.le_succ g) hx)
        · intro y hy
          simp only [argVar, Option.some.injEq] at hy; subst hy
          exact Nat.lt_of_lt_of_le (Nat.lt_succ_self g) hmono
        · intro hy
          simp only [argVar, Option.some.injEq] at hy
          exact absurd (hy ▸ cx.vBelow) (loc_not_below g)
        · intro d _; rfl
      | err x => simp [hl] at h
      | panic x => simp [hl] at h

theorem binopTy_int (op : BinOp) : binopTy op .int = .int := by cases op <;> rfl

theorem evalS_binop_inv {F : FloatOps} {diff : Nat} {σ : Store} {op : BinOp} {a b : SExpr} {val : Value}
    (h : evalS F diff σ (.binop op a b) = .ok val) :
    ∃ va vb, evalS F diff σ a = .ok va ∧ evalS F diff σ b = .ok vb ∧ binop F op va vb = .ok val := by
  simp only [evalS] at h
  cases ha : evalS F diff σ a with
  | ok va =>
    cases hb : evalS F diff σ b with
    | ok vb => simp only [ha, hb] at h; exact ⟨va, vb, rfl, rfl, h⟩
    | err c => simp [ha, hb] at h
    | panic p => simp [ha, hb] at h
  | err c => simp [ha] at h
  | panic p => simp [ha] at h

theorem binop_case {F : FloatOps} {I : Intrinsics} {db ab diff fuel : Nat} (ih : SoundAt F I db ab diff fuel)
    {g mask : Nat} {v : VarRef} {op : BinOp} {a b : SExpr} {code : List LStmt} {g' : Nat} {m : Machine} {val : Value}
    (cx : Ctx F diff g mask v (.binop op a b) m val)
    (h : lowerBinop I db ab (fuel + 1) g mask v op a b = .ok (code, g')) :
    SetSpec F diff g v m code g' val := by
  obtain ⟨hia, hib⟩ : IntOnly a ∧ IntOnly b := cx.intOnly
  obtain ⟨hba, hbb⟩ : exprBelow g a ∧ exprBelow g b := cx.exprBelow
  obtain ⟨va, vb, hea, heb, hop⟩ := evalS_binop_inv cx.eval
  simp only [lowerBinop, intOnly_ty hia, binopTy_int] at h
  cases hA : lowerOperand I db ab fuel g mask v .int (!b.uses v.name) a with
  | err x => simp [hA] at h
  | panic x => simp [hA] at h
  | ok A =>
    simp only [hA] at h
    have cxa : Ctx F diff g mask v a m va := ⟨cx.maskOn, cx.vInt, cx.vBelow, hia, hba, cx.intStore, hea⟩
    have SA := ih.2.1 g mask v (!b.uses v.name) a A m va cxa hA
    obtain ⟨m1, hex1, hval1, hframe1, hlog1, htime1, hint1⟩ := SA.run
    -- the value of `b` is not disturbed by the code of `a`: this is where the guard is needed
    have hb_same : evalS F diff m1.store b = .ok vb := by
      rw [← heb]
      apply evalS_congr F diff _ _ hib
      intro x hx
      apply hframe1 x (uses_below hbb hx)
      by_cases hxv : x = v.name
      · subst hxv; right; simp [hx]
      · left; exact hxv
    generalize hau : operandUses a v.name A.free = aUsesV at h
    cases hB : lowerOperand I db ab fuel A.gen mask v .int (!aUsesV) b with
    | err x => simp [hB] at h
    | panic x => simp [hB] at h
    | ok B =>
      simp only [hB] at h
      have cxb : Ctx F diff A.gen mask v b m1 vb :=
        ⟨cx.maskOn, cx.vInt, below_mono SA.mono cx.vBelow, hib, exprBelow_mono SA.mono hbb, hint1, hb_same⟩
      have SB := ih.2.1 A.gen mask v (!aUsesV) b B m1 vb cxb hB
      obtain ⟨m2, hex2, hval2, hframe2, hlog2, htime2, hint2⟩ := SB.run
      -- the atom of `a` still has its value after the code of `b`
      have hA_stable : atomValue m2.store A.atom = va := by
        rw [← hval1]
        apply atomValue_congr
        intro y hy
        apply hframe2 y (SA.atomBelow y hy)
        by_cases hyv : y = v.name
        · right
          subst hyv
          have : aUsesV = true := by
            rw [← hau]
            unfold operandUses
            rcases SA.atomV hy with ⟨h1, h2⟩ | h1
            · simp [h1, h2]
            · cases hs : a.simple? with
              | some _ => simpa using h1
              | none =>
                cases hf : A.free with
                | none => rfl
                | some d =>
                  have := SA.freeAtom d hf
                  rw [hy] at this
                  simp only [Option.some.injEq] at this
                  exact absurd (this ▸ cx.vBelow) (loc_not_below g)
          simp [this]
        · left; exact hyv
      cases hC : lowerBinopAtom I mask v op A.ty A.atom B.atom with
      | err x => simp [hC] at h
      | panic x => simp [hC] at h
      | ok c =>
        simp only [hC, Outcome.ok.injEq, Prod.mk.injEq] at h
        obtain ⟨rfl, rfl⟩ := h
        have hr : binop F op (atomValue m2.store A.atom) (atomValue m2.store B.atom) = .ok val := by
          rw [hA_stable, hval2]; exact hop
        have hex3 := exec_binopAtom F I diff mask v op A.ty A.atom B.atom c m2 val cx.maskOn hint2 SA.atom SB.atom hr hC
        obtain ⟨n, hn⟩ := evalS_int F diff m.store cx.intStore cx.intOnly cx.eval
        refine ⟨Nat.le_trans SA.mono SB.mono, ⟨{ m2 with store := upd m2.store v.name val }, ?_, ?_, ?_, ?_, ?_, ?_⟩⟩
        · exact exec_append_ok hex1 (exec_append_ok hex2 (exec_append_ok hex3
            (exec_append_ok (exec_frees F diff _ B.free) (exec_frees F diff _ A.free))))
        · exact upd_same _ _ _
        · intro x hx hxb
          show upd m2.store v.name val x = m.store x
          rw [upd_other _ _ hx, hframe2 x (below_mono SA.mono hxb) (Or.inl hx), hframe1 x hxb (Or.inl hx)]
        · show m2.log = m.log
          rw [hlog2, hlog1]
        · show m2.time = m.time
          rw [htime2, htime1]
        · show IntStore (upd m2.store v.name val)
          rw [hn]; exact intStore_upd hint2 _ _

theorem evalS_unop_inv {F : FloatOps} {diff : Nat} {σ : Store} {op : UnOp} {b : SExpr} {val : Value}
    (hop : op = .neg ∨ op = .not ∨ op = .bnot) (h : evalS F diff σ (.unop op b) = .ok val) :
    ∃ x, evalS F diff σ b = .ok x ∧ unop F op x = .ok (some val) := by
  simp only [evalS] at h
  cases hb : evalS F diff σ b with
  | ok x =>
    refine ⟨x, rfl, ?_⟩
    simp only [hb] at h
    rcases hop with rfl | rfl | rfl <;> simp only [castSigil] at h <;>
      (cases hu : unop F _ x with
        | ok o => cases o with
          | some w => simp only [hu, Outcome.ok.injEq] at h; rw [h]
          | none => simp [hu] at h
        | err c => simp [hu] at h
        | panic p => simp [hu] at h)
  | err c => simp [hb] at h
  | panic p => simp [hb] at h

theorem unop_case {F : FloatOps} {I : Intrinsics} {db ab diff fuel : Nat} (ih : SoundAt F I db ab diff fuel)
    {g mask : Nat} {v : VarRef} {op : UnOp} {b : SExpr} {code : List LStmt} {g' : Nat} {m : Machine} {val : Value}
    (cx : Ctx F diff g mask v (.unop op b) m val)
    (h : lowerUnop I db ab (fuel + 1) g mask v op b = .ok (code, g')) :
    SetSpec F diff g v m code g' val := by
  obtain ⟨hopk, hib⟩ : (op = .neg ∨ op = .not ∨ op = .bnot) ∧ IntOnly b := cx.intOnly
  have hbb : exprBelow g b := cx.exprBelow
  obtain ⟨x, heb, hu⟩ := evalS_unop_inv hopk cx.eval
  obtain ⟨nx, rfl⟩ := evalS_int F diff m.store cx.intStore hib heb
  have hty : unopTy op b.ty = .int := by
    rw [intOnly_ty hib]; rcases hopk with rfl | rfl | rfl <;> rfl
  simp only [lowerUnop, hty] at h
  cases hB : lowerOperand I db ab fuel g mask v .int true b with
  | err e => simp [hB] at h
  | panic e => simp [hB] at h
  | ok B =>
    simp only [hB] at h
    have cxb : Ctx F diff g mask v b m (.int nx) := ⟨cx.maskOn, cx.vInt, cx.vBelow, hib, hbb, cx.intStore, heb⟩
    have SB := ih.2.1 g mask v true b B m (.int nx) cxb hB
    obtain ⟨m1, hex1, hval1, hframe1, hlog1, htime1, hint1⟩ := SB.run
    rw [SB.tyInt] at h
    cases hC : lowerUnopAtom I mask v op .int B.atom with
    | err e => simp [hC] at h
    | panic e => simp [hC] at h
    | ok c =>
      simp only [hC, Outcome.ok.injEq, Prod.mk.injEq] at h
      obtain ⟨rfl, rfl⟩ := h
      have hex2 := exec_unopAtom F I diff mask v op B.atom c m1 nx val cx.maskOn hint1 SB.atom hval1 hu hC
      obtain ⟨n, hn⟩ := evalS_int F diff m.store cx.intStore cx.intOnly cx.eval
      refine ⟨SB.mono, ⟨{ m1 with store := upd m1.store v.name val }, ?_, ?_, ?_, ?_, ?_, ?_⟩⟩
      · exact exec_append_ok hex1 (exec_append_ok hex2 (exec_frees F diff _ B.free))
      · exact upd_same _ _ _
      · intro y hy hyb
        show upd m1.store v.name val y = m.store y
        rw [upd_other _ _ hy, hframe1 y hyb (Or.inl hy)]
      · exact hlog1
      · exact htime1
      · show IntStore (upd m1.store v.name val)
        rw [hn]; exact intStore_upd hint1 _ _

/-- all four functions are sound at every fuel -/
theorem soundAt (F : FloatOps) (I : Intrinsics) (db ab diff : Nat) : ∀ fuel, SoundAt F I db ab diff fuel
  | 0 => by
    refine ⟨?_, ?_, ?_, ?_⟩ <;> intros <;> simp_all [lowerSet, lowerOperand, lowerBinop, lowerUnop]
  | fuel + 1 => by
    have ih := soundAt F I db ab diff fuel
    exact ⟨fun _ _ _ _ _ _ _ _ cx h => set_case ih cx h, fun _ _ _ _ _ _ _ _ cx h => operand_case ih cx h,
      fun _ _ _ _ _ _ _ _ _ _ cx h => binop_case ih cx h, fun _ _ _ _ _ _ _ _ _ cx h => unop_case ih cx h⟩

/-- **lowerSet_sound**: `v = e` for an integer expression `e`, under every intrinsic table and fuel:
the emitted code runs to completion, leaves `eval e` in `v`, changes no other variable below the temp
counter, logs nothing and keeps the time. -/
theorem lowerSet_sound (F : FloatOps) (I : Intrinsics) (db ab diff fuel g mask : Nat) (v : VarRef) (e : SExpr)
    (code : List LStmt) (g' : Nat) (m : Machine) (val : Value) (cx : Ctx F diff g mask v e m val)
    (h : lowerSet I db ab fuel g mask v e = .ok (code, g')) : SetSpec F diff g v m code g' val :=
  (soundAt F I db ab diff fuel).1 g mask v e code g' m val cx h

/-! ## 6. assignment statements -/

/-- `v op= <atom>`, natively or as `v = v op <atom>` -/
theorem exec_opAtom (F : FloatOps) (I : Intrinsics) (diff mask : Nat) (v : VarRef) (op : AssignOp) (b : BinOp)
    (a : Arg) (c : List LStmt) (m : Machine) (r : Value)
    (hb : op.binop = some b) (hm : maskOn mask diff = true) (hs : IntStore m.store) (hv : v.readTy = .int)
    (ha : IntAtom a) (hr : binop F b (m.store v.name) (atomValue m.store a) = .ok r)
    (h : lowerAssignAtom I mask v op a = .ok c) :
    exec F diff m c = .ok { m with store := upd m.store v.name r } := by
  have hvl : IntAtom v.lowered := by rw [VarRef.lowered, hv]; exact toArg_intAtom v
  have hrv : readArg F diff m.store v.lowered = .ok (m.store v.name) := by
    rw [readArg_intAtom F diff hs hvl, VarRef.lowered, atomValue_toArg]
  unfold lowerAssignAtom at h
  cases halt : I.assignAlt op v.readTy with
  | none => simp [halt] at h
  | some alt =>
    cases alt with
    | intrinsic =>
      simp only [halt, Outcome.ok.injEq] at h
      subst h
      cases op <;> simp only [AssignOp.binop, Option.some.injEq, reduceCtorEq] at hb <;> subst hb <;>
        simp [exec, execStmt, execInstr, hm, argVar_lowered, AssignOp.binop, hrv, readArg_intAtom F diff hs ha, hr]
    | viaBinOp b' =>
      have := assignAlt_viaBinOp I op _ b' halt
      rw [hb] at this
      simp only [Option.some.injEq] at this
      subst this
      simp only [halt, Outcome.ok.injEq] at h
      subst h
      simp [exec, execStmt, execInstr, hm, argVar_lowered, hrv, readArg_intAtom F diff hs ha, hr]

theorem evalS_var (F : FloatOps) (diff : Nat) {σ : Store} (hs : IntStore σ) {v : VarRef} (hv : v.readTy = .int) :
    evalS F diff σ (.var v) = .ok (σ v.name) := by
  have h := (simple_spec F diff (e := .var v) (a := v.lowered) hv rfl).2.1 σ hs
  rw [h, VarRef.lowered, atomValue_toArg]

/-- **lowerAssign_sound_partial**: `v = e` and `v op= e` for integer `e` and an integer destination below
the temp counter: whenever the source statement runs (no division by zero), the emitted code runs, the
destination and every other variable below the temp counter end up as after the source statement, nothing
is logged and the time is kept. -/
theorem lowerAssign_sound_partial (F : FloatOps) (I : Intrinsics) (db ab diff g mask : Nat) (v : VarRef)
    (op : AssignOp) (e : SExpr) (code : List LStmt) (g' : Nat) (m msrc : Machine)
    (hm : maskOn mask diff = true) (hv : v.readTy = .int) (hvb : below g v.name) (hi : IntOnly e)
    (hb : exprBelow g e) (hs : IntStore m.store)
    (hsrc : runAssign F diff m v op e = .ok msrc)
    (h : lowerAssign I db ab g mask v op e = .ok (code, g')) :
    ∃ m', exec F diff m code = .ok m' ∧ (∀ x, below g x → m'.store x = msrc.store x) ∧
      m'.log = msrc.log ∧ m'.time = msrc.time := by
  unfold runAssign at hsrc
  cases hbop : op.binop with
  | none =>
    -- plain assignment
    have hop : op = .set := by cases op <;> simp [AssignOp.binop] at hbop <;> rfl
    subst hop
    simp only [hbop] at hsrc
    cases hev : evalS F diff m.store e with
    | ok val =>
      simp only [hev, Outcome.ok.injEq] at hsrc
      subst hsrc
      simp only [lowerAssign] at h
      obtain ⟨_, m', hex, hval, hframe, hlog, htime, _⟩ :=
        lowerSet_sound F I db ab diff _ g mask v e code g' m val ⟨hm, hv, hvb, hi, hb, hs, hev⟩ h
      refine ⟨m', hex, ?_, hlog, htime⟩
      intro x hx
      by_cases hxv : x = v.name
      · subst hxv; simp [upd_same, hval]
      · simp [upd_other _ _ hxv, hframe x hxv hx]
    | err c => simp [hev] at hsrc
    | panic p => simp [hev] at hsrc
  | some b =>
    have hne : op ≠ .set := by intro hh; subst hh; simp [AssignOp.binop] at hbop
    simp only [hbop, evalS_var F diff hs hv] at hsrc
    cases hev : evalS F diff m.store e with
    | err c => simp [hev] at hsrc
    | panic p => simp [hev] at hsrc
    | ok vb =>
      simp only [hev] at hsrc
      cases hr : binop F b (m.store v.name) vb with
      | err c => simp [hr] at hsrc
      | panic p => simp [hr] at hsrc
      | ok r =>
        simp only [hr, Outcome.ok.injEq] at hsrc
        subst hsrc
        have hl : lowerAssign I db ab g mask v op e =
            (match e.simple? with
            | some a => match lowerAssignAtom I mask v op a with
              | .ok c => .ok (c, g)
              | .err x => .err x
              | .panic x => .panic x
            | none =>
              match lowerSet I db ab (3 * e.size + 3) (g + 1) mask (tmpVar g e.temp.tmpTy) e.temp.tmpExpr with
              | .ok (c1, g1) =>
                match lowerAssignAtom I mask v op (.loc g e.temp.readTy) with
                | .ok c2 => .ok (.alloc g e.temp.tmpTy :: c1 ++ c2 ++ [.free g], g1)
                | .err x => .err x
                | .panic x => .panic x
              | .err x => .err x
              | .panic x => .panic x) := by
          cases op <;> first | exact absurd rfl hne | rfl
        rw [hl] at h
        cases hsim : e.simple? with
        | some a =>
          simp only [hsim] at h
          cases hat : lowerAssignAtom I mask v op a with
          | err x => simp [hat] at h
          | panic x => simp [hat] at h
          | ok c =>
            simp only [hat, Outcome.ok.injEq, Prod.mk.injEq] at h
            obtain ⟨rfl, rfl⟩ := h
            obtain ⟨hatom, hval, _⟩ := simple_spec F diff hi hsim
            have hva := hval m.store hs
            rw [hev] at hva
            simp only [Outcome.ok.injEq] at hva
            rw [hva] at hr
            exact ⟨_, exec_opAtom F I diff mask v op b a c m r hbop hm hs hv hatom hr hat, fun _ _ => rfl, rfl, rfl⟩
        | none =>
          simp only [hsim] at h
          obtain ⟨ht1, ht2, ht3⟩ := intOnly_temp hi
          simp only [ht1, ht2, ht3] at h
          cases hl1 : lowerSet I db ab (3 * e.size + 3) (g + 1) mask (tmpVar g .int) e with
          | err x => simp [hl1] at h
          | panic x => simp [hl1] at h
          | ok p =>
            obtain ⟨c1, g1⟩ := p
            simp only [hl1] at h
            cases hat : lowerAssignAtom I mask v op (.loc g .int) with
            | err x => simp [hat] at h
            | panic x => simp [hat] at h
            | ok c2 =>
              simp only [hat, Outcome.ok.injEq, Prod.mk.injEq] at h
              obtain ⟨rfl, rfl⟩ := h
              obtain ⟨_, m1, hex1, hval1, hframe1, hlog1, htime1, hint1⟩ :=
                lowerSet_sound F I db ab diff _ (g + 1) mask (tmpVar g .int) e c1 g1 m vb
                  ⟨hm, rfl, Nat.lt_succ_self g, hi, exprBelow_mono (Nat.le_succ g) hb, hs, hev⟩ hl1
              have hvsame : m1.store v.name = m.store v.name :=
                hframe1 _ (ne_of_below hvb) (below_mono (Nat.le_succ g) hvb)
              have hr1 : binop F b (m1.store v.name) (atomValue m1.store (.loc g .int)) = .ok r := by
                rw [hvsame]; simp only [atomValue]; rw [show m1.store (.loc g) = vb from hval1]; exact hr
              have hex2 := exec_opAtom F I diff mask v op b (.loc g .int) c2 m1 r hbop hm hint1 hv (.loc g) hr1 hat
              refine ⟨{ m1 with store := upd m1.store v.name r }, ?_, ?_, hlog1, htime1⟩
              · rw [List.cons_append, List.cons_append, exec_alloc]
                exact exec_append_ok (exec_append_ok hex1 hex2) rfl
              · intro x hx
                show upd m1.store v.name r x = upd m.store v.name r x
                by_cases hxv : x = v.name
                · subst hxv; simp [upd_same]
                · rw [upd_other _ _ hxv, upd_other _ _ hxv]
                  exact hframe1 x (ne_of_below hx) (below_mono (Nat.le_succ g) hx)

/-! ## 7. instruction calls -/

theorem evalArgs_congr (F : FloatOps) (diff : Nat) (σ τ : Store) (g : Nat) :
    ∀ (es : List SExpr), (∀ e ∈ es, IntOnly e) → (∀ e ∈ es, exprBelow g e) → (∀ x, below g x → σ x = τ x) →
      evalArgs F diff σ es = evalArgs F diff τ es
  | [], _, _, _ => rfl
  | e :: es, hi, hb, h => by
    have h1 : evalS F diff σ e = evalS F diff τ e :=
      evalS_congr F diff σ τ (hi e (by simp)) (fun x hx => h x (uses_below (hb e (by simp)) hx))
    have h2 := evalArgs_congr F diff σ τ g es (fun e he => hi e (by simp [he])) (fun e he => hb e (by simp [he])) h
    simp only [evalArgs, h1, h2]

theorem evalArgs_cons_inv {F : FloatOps} {diff : Nat} {σ : Store} {e : SExpr} {es : List SExpr} {vals : List Value}
    (h : evalArgs F diff σ (e :: es) = .ok vals) :
    ∃ v vs, vals = v :: vs ∧ evalS F diff σ e = .ok v ∧ evalArgs F diff σ es = .ok vs := by
  simp only [evalArgs] at h
  cases h1 : evalS F diff σ e with
  | ok v =>
    cases h2 : evalArgs F diff σ es with
    | ok vs => simp only [h1, h2, Outcome.ok.injEq] at h; exact ⟨v, vs, h.symm, rfl, rfl⟩
    | err c => simp [h1, h2] at h
    | panic p => simp [h1, h2] at h
  | err c => simp [h1] at h
  | panic p => simp [h1] at h

theorem exec_map_free (F : FloatOps) (diff : Nat) (m : Machine) : ∀ ds : List Def, exec F diff m (ds.map .free) = .ok m
  | [] => rfl
  | _ :: ds => by simp only [List.map_cons, exec, execStmt]; exact exec_map_free F diff m ds

/-- arguments: every atom reads, in the store after ALL the temporaries were computed, the value the source
argument has; nothing below the temp counter changed -/
theorem lowerArgs_sound (F : FloatOps) (I : Intrinsics) (db ab diff mask : Nat) (hm : maskOn mask diff = true) :
    ∀ (args : List SExpr) (g : Nat) (c : List LStmt) (as : List Arg) (ds : List Def) (g' : Nat) (m : Machine)
      (vals : List Value),
      (∀ e ∈ args, IntOnly e) → (∀ e ∈ args, exprBelow g e) → IntStore m.store →
      evalArgs F diff m.store args = .ok vals →
      lowerArgs I db ab mask g args = .ok (c, as, ds, g') →
      g ≤ g' ∧ ∃ m', exec F diff m c = .ok m' ∧ readArgs F diff m'.store as = .ok vals ∧
        (∀ x, below g x → m'.store x = m.store x) ∧ m'.log = m.log ∧ m'.time = m.time ∧ IntStore m'.store
  | [], g, c, as, ds, g', m, vals, _, _, hs, hev, h => by
    simp only [lowerArgs, Outcome.ok.injEq, Prod.mk.injEq] at h
    obtain ⟨rfl, rfl, rfl, rfl⟩ := h
    simp only [evalArgs, Outcome.ok.injEq] at hev
    subst hev
    exact ⟨Nat.le_refl _, m, rfl, rfl, fun _ _ => rfl, rfl, rfl, hs⟩
  | e :: es, g, c, as, ds, g', m, vals, hi, hb, hs, hev, h => by
    obtain ⟨v, vs, rfl, hev1, hev2⟩ := evalArgs_cons_inv hev
    have hie := hi e (by simp)
    have hbe := hb e (by simp)
    have hies : ∀ e' ∈ es, IntOnly e' := fun e' he => hi e' (by simp [he])
    have hbes : ∀ e' ∈ es, exprBelow g e' := fun e' he => hb e' (by simp [he])
    simp only [lowerArgs] at h
    cases hsim : e.simple? with
    | some a =>
      simp only [hsim] at h
      cases hrest : lowerArgs I db ab mask g es with
      | err x => simp [hrest] at h
      | panic x => simp [hrest] at h
      | ok r =>
        obtain ⟨c', as', ds', g1⟩ := r
        simp only [hrest, Outcome.ok.injEq, Prod.mk.injEq] at h
        obtain ⟨rfl, rfl, rfl, rfl⟩ := h
        obtain ⟨hmono, m', hex, hread, hframe, hlog, htime, hint⟩ :=
          lowerArgs_sound F I db ab diff mask hm es g c' as' ds' g1 m vs hies hbes hs hev2 hrest
        obtain ⟨hatom, hval, huse⟩ := simple_spec F diff hie hsim
        have hva := hval m.store hs
        rw [hev1] at hva
        simp only [Outcome.ok.injEq] at hva
        have hra : readArg F diff m'.store a = .ok v := by
          rw [readArg_intAtom F diff hint hatom, hva]
          congr 1
          exact atomValue_congr (fun y hy => hframe y (uses_below hbe (huse y hy)))
        exact ⟨hmono, m', hex, by simp only [readArgs, hra, hread], hframe, hlog, htime, hint⟩
    | none =>
      simp only [hsim] at h
      obtain ⟨ht1, ht2, ht3⟩ := intOnly_temp hie
      simp only [ht1, ht2, ht3] at h
      cases hl1 : lowerSet I db ab (3 * e.size + 3) (g + 1) mask (tmpVar g .int) e with
      | err x => simp [hl1] at h
      | panic x => simp [hl1] at h
      | ok p =>
        obtain ⟨c1, g1⟩ := p
        simp only [hl1] at h
        cases hrest : lowerArgs I db ab mask g1 es with
        | err x => simp [hrest] at h
        | panic x => simp [hrest] at h
        | ok r =>
          obtain ⟨c', as', ds', g2⟩ := r
          simp only [hrest, Outcome.ok.injEq, Prod.mk.injEq] at h
          obtain ⟨rfl, rfl, rfl, rfl⟩ := h
          obtain ⟨hmono1, m1, hex1, hval1, hframe1, hlog1, htime1, hint1⟩ :=
            lowerSet_sound F I db ab diff _ (g + 1) mask (tmpVar g .int) e c1 g1 m v
              ⟨hm, rfl, Nat.lt_succ_self g, hie, exprBelow_mono (Nat.le_succ g) hbe, hs, hev1⟩ hl1
          have hg1 : g ≤ g1 := Nat.le_trans (Nat.le_succ g) hmono1
          have hsame : ∀ x, below g x → m1.store x = m.store x :=
            fun x hx => hframe1 x (ne_of_below hx) (below_mono (Nat.le_succ g) hx)
          have hev2' : evalArgs F diff m1.store es = .ok vs := by
            rw [evalArgs_congr F diff m1.store m.store g es hies hbes hsame]; exact hev2
          obtain ⟨hmono2, m', hex2, hread, hframe2, hlog2, htime2, hint2⟩ :=
            lowerArgs_sound F I db ab diff mask hm es g1 c' as' ds' g2 m1 vs hies
              (fun e' he => exprBelow_mono hg1 (hbes e' he)) hint1 hev2' hrest
          have hkeep : m'.store (.loc g) = v := by
            rw [hframe2 (.loc g) (Nat.lt_of_lt_of_le (Nat.lt_succ_self g) hmono1)]; exact hval1
          have hra : readArg F diff m'.store (.loc g .int) = .ok v := by
            rw [readArg_intAtom F diff hint2 (.loc g)]; simp only [atomValue, hkeep]
          refine ⟨Nat.le_trans hg1 hmono2, m', ?_, by simp only [readArgs, hra, hread], ?_, ?_, ?_, hint2⟩
          · rw [List.cons_append, exec_alloc]; exact exec_append_ok hex1 hex2
          · intro x hx; rw [hframe2 x (below_mono hg1 hx), hsame x hx]
          · rw [hlog2, hlog1]
          · rw [htime2, htime1]

/-- **lowerCall_sound_partial**: an instruction call whose arguments are arbitrarily complex integer
expressions: whenever the source call runs, the emitted code runs, logs exactly the same opcode with the
same argument values (after whatever was logged before), keeps the time, and leaves every variable below
the temp counter as it was. -/
theorem lowerCall_sound_partial (F : FloatOps) (I : Intrinsics) (db ab diff g mask opcode : Nat)
    (args : List SExpr) (code : List LStmt) (g' : Nat) (m msrc : Machine)
    (hm : maskOn mask diff = true) (hi : ∀ e ∈ args, IntOnly e) (hb : ∀ e ∈ args, exprBelow g e)
    (hs : IntStore m.store) (hsrc : runCall F diff m opcode args = .ok msrc)
    (h : lowerCall I db ab g mask opcode args = .ok (code, g')) :
    ∃ m', exec F diff m code = .ok m' ∧ m'.log = msrc.log ∧ m'.time = msrc.time ∧
      (∀ x, below g x → m'.store x = msrc.store x) := by
  unfold runCall at hsrc
  cases hev : evalArgs F diff m.store args with
  | err c => simp [hev] at hsrc
  | panic p => simp [hev] at hsrc
  | ok vals =>
    simp only [hev, Outcome.ok.injEq] at hsrc
    subst hsrc
    unfold lowerCall at h
    cases hl : lowerArgs I db ab mask g args with
    | err x => simp [hl] at h
    | panic x => simp [hl] at h
    | ok r =>
      obtain ⟨c, as, ds, g1⟩ := r
      simp only [hl, Outcome.ok.injEq, Prod.mk.injEq] at h
      obtain ⟨rfl, rfl⟩ := h
      obtain ⟨_, m', hex, hread, hframe, hlog, htime, _⟩ :=
        lowerArgs_sound F I db ab diff mask hm args g c as ds g1 m vals hi hb hs hev hl
      have hins : exec F diff m' [.instr ⟨mask, .plain opcode, as⟩] =
          .ok { m' with log := m'.log ++ [(opcode, vals)] } := by
        simp [exec, execStmt, execInstr, hm, hread]
      refine ⟨{ m' with log := m'.log ++ [(opcode, vals)] }, ?_, ?_, htime, hframe⟩
      · exact exec_append_ok (exec_append_ok hex hins) (exec_map_free F diff _ _)
      · show m'.log ++ [(opcode, vals)] = m.log ++ [(opcode, vals)]
        rw [hlog]

/-! ## 8. the whole property (NOT proved) -/

/-- `AstVm::_run` on the statements the model has -/
def runStmt (F : FloatOps) (diff : Nat) (m : Machine) : SStmt → Outcome Machine
  | .decl _ _ none => .ok m
  | .decl d ty (some e) => runAssign F diff m ⟨.loc d, none, ty⟩ .set e
  | .assign op v e => runAssign F diff m v op e
  | .call opcode args => runCall F diff m opcode args
  | .scopeEnd _ => .ok m
  | .other => .err errUnmodelled

def runBody (F : FloatOps) (diff : Nat) : Machine → List SStmt → Outcome Machine
  | m, [] => .ok m
  | m, s :: rest => match runStmt F diff m s with
    | .ok m' => runBody F diff m' rest
    | .err c => .err c
    | .panic p => .panic p

mutual
/-- a local replaced by the register `assign_registers` recorded for it -/
def renameArg (ρ : Def → Option Reg) : Arg → Arg
  | .loc d ty => match ρ d with
    | some r => .raw r ty
    | none => .loc d ty
  | .switch cs => .switch (renameArgs ρ cs)
  | a => a
def renameArgs (ρ : Def → Option Reg) : List Arg → List Arg
  | [] => []
  | a :: as => renameArg ρ a :: renameArgs ρ as
end

def renameStmt (ρ : Def → Option Reg) : LStmt → LStmt
  | .instr i => .instr { i with args := renameArgs ρ i.args }
  | s => s

def recordedReg (locals : List LocalInfo) (d : Def) : Option Reg :=
  (locals.find? (·.d == d)).map (·.reg)

/-- **C02 as stated**, for the statements the model has (declarations, all twelve assignment
operators, instruction calls; int and float expressions with casts, sigils and difficulty switches), for
every intrinsic table, every scratch pool (`h`), every store and difficulty, *after* register assignment:
the compiled body performs the same calls with the same argument values at the same time and leaves every
register the source mentions, and every register that is not general-purpose, as the source does.

Not proved.  What is proved above is the fragment `IntOnly` before register assignment
(`lowerAssign_sound_partial`, `lowerCall_sound_partial`).  Missing for this statement: (1) floats, casts and
sigils (needs "static type = dynamic type" for stores typed like their variables; `FloatOps` stay
parameters); (2) difficulty switches in expressions (`lowerSwitch`, and `elaborate_diff_switches` - which
the search shows to be WRONG for a switch nested in a switch case, see the evidence); (3) the composition
with C05: renaming locals to registers preserves `exec` because `Regs.assign` never hands a live or
mentioned register out (`C05.assign_inv`); (4) everything with labels - conditional and counting jumps,
`&&` `||` `!` in conditions, negated comparisons (unsound on NaN, see the evidence), ternary, loops, `times` -
which the model does not contain at all; these are covered by the VM-against-VM search only. -/
def C02_full : Prop :=
  ∀ (F : FloatOps) (I : Intrinsics) (db ab : Nat) (h : Hooks) (firstTemp : Nat) (body : List SStmt)
    (code : List LStmt) (res : Regs.Result) (diff : Nat) (σ : Store) (msrc : Machine),
    lowerBody I db ab 255 firstTemp body = .ok code →
    assign .deep h (tyOfTable (typeTable code)) [] (code.map (toRegsStmt I)) = .ok res →
    runBody F diff ⟨σ, [], 0⟩ body = .ok msrc →
    ∃ m', exec F diff ⟨σ, [], 0⟩ (code.map (renameStmt (recordedReg res.locals))) = .ok m' ∧
      m'.log = msrc.log ∧ m'.time = msrc.time ∧
      ∀ r, (r ∈ mentioned (code.map (toRegsStmt I)) ∨ (r ∉ h.general .int ∧ r ∉ h.general .float)) →
        m'.store (.reg r) = msrc.store (.reg r)

/-! ## 9. the hypotheses are satisfiable by non-trivial inputs -/

/-- every operator native -/
def allNative : Intrinsics := ⟨fun _ _ => some 1, fun _ _ => some 2, fun _ _ => some 3⟩
/-- only `=` and the binary operators: `-x`, `~x`, `a op= b` go through the fallbacks -/
def fallbacksOnly : Intrinsics :=
  ⟨fun op _ => if op = .set then some 1 else none, fun _ _ => some 2, fun _ _ => none⟩

def rA : VarRef := ⟨.reg 1000, none, .int⟩
def rB : VarRef := ⟨.reg 1001, some .int, .int⟩
/-- `A + B * -(A + 1)`: needs a temporary because the second operand uses the destination -/
def sampleExpr : SExpr :=
  .binop .add (.var rA) (.binop .mul (.var rB) (.unop .neg (.binop .add (.var rA) (.litI 1))))

example : IntOnly sampleExpr := by simp [sampleExpr, IntOnly, rA, rB, VarRef.readTy]
example : exprBelow 100 sampleExpr := by simp [sampleExpr, exprBelow, below, rA, rB]
example : IntStore (fun _ => .int 7) := fun _ => ⟨7, rfl⟩

/-- some float operations (never consulted by integer expressions) -/
def someFloats : FloatOps :=
  ⟨fun a _ => a, fun a _ => a, fun a _ => a, fun a _ => a, fun a _ => a, fun a => a, fun _ _ => false, fun _ _ => false,
   fun _ _ => false, fun _ => 0, fun _ => 0, fun _ a => a⟩

/-- all hypotheses of `lowerSet_sound` / `lowerAssign_sound_partial` hold for `A = A + B * -(A + 1)` from the
store "everything is 7" on difficulty 0 under the full mask: the source value is 7 + 7 * -(8) = -49 -/
example : Ctx someFloats 0 100 255 rA sampleExpr ⟨fun _ => .int 7, [], 0⟩ (.int (-49)) :=
  ⟨by decide, rfl, trivial, by simp [sampleExpr, IntOnly, rA, rB, VarRef.readTy],
   by simp [sampleExpr, exprBelow, below, rA, rB], fun _ => ⟨7, rfl⟩, by decide +kernel⟩

def codeLen : Outcome (List LStmt × Gen) → Option (Nat × Gen)
  | .ok (c, g) => some (c.length, g)
  | _ => none

/-- the lowering succeeds under both tables (`A = A + B * -(A+1)`); the fallback table needs no more
instructions (`-x` is one multiplication) and both use exactly one temporary -/
example : codeLen (lowerAssign allNative 255 0 100 255 rA .set sampleExpr) = some (6, 101) := by decide +kernel
example : codeLen (lowerAssign fallbacksOnly 255 0 100 255 rA .set sampleExpr) = some (6, 101) := by decide +kernel
example : codeLen (lowerAssign fallbacksOnly 255 0 100 255 rA .mul sampleExpr) = some (7, 101) := by decide +kernel
example : codeLen (lowerCall fallbacksOnly 255 0 100 255 200 [sampleExpr, .var rB, .unop .bnot (.var rA)]) =
    some (10, 102) := by decide +kernel

end TruthModel.C02
