import TruthModel.Props.C03Files
import TruthModel.Props.C16Anm
/-
C03 for the ANM container — a successful compile never writes a file that differs from what was asked.
On the model of `write_anm` / `read_anm` (`Model/FilesAnm.lean`), every version:

* `anm_read_write`: a file that satisfies the explicit, decidable predicate `wfAnm`, that `writeAnm` accepts and
  that is smaller than 4 GiB is read back by `readAnm` (with or without image data) as `normAnm` of itself:
  sprites named after their ids and an id that equals the automatic one made implicit again, scripts named
  after their position in the file, image data dropped when the reader is told to skip it.
* `anm_write_err_iff` (stated with `Decides`): the writer fails exactly when an entry asks for a field its header layout
  has no room for (offset_x / offset_y / low_res_scale before TH11, colorkey / path_2 from TH11), a 16-bit header field of the
  TH11+ layout (sprite / script count, rt_width, rt_height, rt_format, offset_x, offset_y), an instruction, or the format /
  width / height of an embedded image does not fit; it never panics as long as image data comes with its metadata.
* `anm_write_diagnoses_misfit`: whatever the writer accepts is representable (full statement, no hypothesis; since db48965).
  The former witnesses of silent narrowing / dropping are now theorems about the diagnostic: `anm_thtx_dimension_rejected`,
  `anm_path2_rejected_new_header`, `anm_specs_rejected_by_layout`; `anm_write_check_order`.
* what the writer still does NOT diagnose: `anm_image_under_at_path_unreadable` (the written file is rejected by the reader;
  `anm_write_diagnoses_misfit_full` - representable AND readable - is refuted by exactly this witness and holds with the
  exclusion as a hypothesis: `anm_write_diagnoses_misfit_partial`), and the known EoSD end-marker ambiguity
  `anm_v0_multi_entry_ambiguity`.
-/
namespace TruthModel.C03
open TruthModel TruthModel.InstrIO TruthModel.Files

/-! ### header fields -/

/-- every value fits the width of its field -/
def fieldsFit : List Nat → List Nat → Bool
  | w :: ws, v :: vs => decide (v < (if w = 2 then 65536 else 4294967296)) && fieldsFit ws vs
  | [], [] => true
  | _, _ => false

theorem rdField_wrField (w v : Nat) (rest : Bytes) (h : v < (if w = 2 then 65536 else 4294967296)) :
    rdField w (wrField w v ++ rest) = some (v, rest) := by
  unfold rdField wrField
  by_cases hw : w = 2
  · simp only [hw, if_true] at h ⊢; exact rdU16_u16 v rest (by omega)
  · simp only [hw, if_false] at h ⊢; exact rdU32_u32 v rest (by omega)

theorem rdFields_wrFields : ∀ (ws vs : List Nat) (rest : Bytes), fieldsFit ws vs = true →
    rdFields ws (wrFields ws vs ++ rest) = some (vs, rest) := by
  intro ws
  induction ws with
  | nil =>
    intro vs rest h
    cases vs with
    | nil => rfl
    | cons v vs => simp [fieldsFit] at h
  | cons w ws ih =>
    intro vs rest h
    cases vs with
    | nil => simp [fieldsFit] at h
    | cons v vs =>
      simp only [fieldsFit, Bool.and_eq_true, decide_eq_true_eq] at h
      simp only [rdFields, wrFields, List.append_assoc, rdField_wrField w v _ h.1, ih vs rest h.2]

theorem wrField_length (w v : Nat) : (wrField w v).length = C16.fieldWidth w := by
  unfold wrField C16.fieldWidth
  split <;> rfl

theorem wrFields_length : ∀ (ws vs : List Nat), ws.length = vs.length → (wrFields ws vs).length = C16.widthsSum ws := by
  intro ws
  induction ws with
  | nil => intro vs _; cases vs <;> rfl
  | cons w ws ih =>
    intro vs h
    cases vs with
    | nil => cases h
    | cons v vs =>
      simp only [List.length_cons, Nat.add_right_cancel_iff] at h
      simp only [wrFields, List.length_append, wrField_length, ih vs h, C16.widthsSum, List.map_cons, List.sum_cons]

theorem anmHeaderBytes_length (fmt : AnmFmt) (h : AnmHeader) : (anmHeaderBytes fmt h).length = 64 := by
  unfold anmHeaderBytes
  split
  · simp [anmOldWidths, wrFields, wrField_length, C16.fieldWidth]
  · simp [anmNewWidths, wrFields, wrField_length, C16.fieldWidth]

/-- what the header layout keeps of a header -/
def normHeader (fmt : AnmFmt) (h : AnmHeader) : AnmHeader :=
  if fmt.oldHeader then { h with offsetX := 0, offsetY := 0, lowResScale := 0 }
  else { h with secNameOffset := 0, colorkey := 0 }

/-- the values of a header fit the fields of the layout -/
def headerOk (fmt : AnmFmt) (h : AnmHeader) : Bool :=
  if fmt.oldHeader then
    fieldsFit anmOldWidths [h.numSprites, h.numScripts, 0, h.rtWidth, h.rtHeight, h.rtFormat, h.colorkey, h.nameOffset, 0,
      h.secNameOffset, h.version, h.memoryPriority, h.thtxOffset, h.hasData, 0, h.nextOffset, 0]
  else
    fieldsFit anmNewWidths [h.version, h.numSprites, h.numScripts, 0, h.rtWidth, h.rtHeight, h.rtFormat, h.nameOffset,
      h.offsetX, h.offsetY, h.memoryPriority, h.thtxOffset, h.hasData, h.lowResScale, h.nextOffset, 0, 0, 0, 0, 0, 0]

theorem readAnmHeader_write (fmt : AnmFmt) (h : AnmHeader) (rest : Bytes) (hok : headerOk fmt h = true) :
    readAnmHeader fmt (anmHeaderBytes fmt h ++ rest) = .ok (normHeader fmt h, rest) := by
  unfold headerOk at hok
  unfold readAnmHeader anmHeaderBytes normHeader
  cases ho : fmt.oldHeader
  · simp only [ho, Bool.false_eq_true, if_false] at hok ⊢
    rw [rdFields_wrFields _ _ _ hok]
    rfl
  · simp only [ho, if_true] at hok ⊢
    rw [rdFields_wrFields _ _ _ hok]
    rfl

/-! ### block-padded strings -/

theorem nullPad16_short (s : Bytes) (h : s.length < 16) : Abi.nullPad 16 s = s ++ Abi.zeros (16 - s.length) := by
  unfold Abi.nullPad
  simp only
  congr 2
  split <;> omega

theorem nullPad16_long (s : Bytes) (h : 16 ≤ s.length) : Abi.nullPad 16 s = s.take 16 ++ Abi.nullPad 16 (s.drop 16) := by
  unfold Abi.nullPad
  simp only [List.length_drop]
  rw [← List.append_assoc, List.take_append_drop]
  congr 2
  split <;> split <;> omega

theorem nullPad16_length (s : Bytes) : 16 ≤ (Abi.nullPad 16 s).length ∧ s.length < (Abi.nullPad 16 s).length := by
  unfold Abi.nullPad
  simp only [List.length_append, Abi.zeros, List.length_replicate]
  constructor <;> split <;> omega

theorem getLast?_append_zeros (t : Bytes) (k : Nat) : (t ++ Abi.zeros (k + 1)).getLast? = some 0 := by
  simp [Abi.zeros, List.replicate_succ', ← List.append_assoc]

theorem dropWhile_zeros (k : Nat) (l : Bytes) : (Abi.zeros k ++ l).dropWhile (· == 0) = l.dropWhile (· == 0) := by
  induction k with
  | zero => simp [Abi.zeros]
  | succ k ih =>
    simp only [Abi.zeros, List.replicate_succ, List.cons_append] at ih ⊢
    rw [List.dropWhile_cons_of_pos (by simp)]
    exact ih

/-- trailing NULs after a NUL-free string are exactly what the reader strips -/
theorem stripTrailingZeros_append_zeros (t : Bytes) (k : Nat) (h0 : t.contains 0 = false) :
    Abi.stripTrailingZeros (t ++ Abi.zeros k) = t := by
  unfold Abi.stripTrailingZeros
  have hz : (Abi.zeros k).reverse = Abi.zeros k := by simp [Abi.zeros]
  rw [List.reverse_append, hz, dropWhile_zeros]
  have : t.reverse.dropWhile (· == 0) = t.reverse := by
    cases hr : t.reverse with
    | nil => rfl
    | cons a r =>
      have ha : a ∈ t := by rw [← List.mem_reverse, hr]; exact List.mem_cons_self ..
      have hne : a ≠ 0 := by
        intro h; subst h
        have : t.contains 0 = true := by simp [ha]
        rw [this] at h0; cases h0
      rw [List.dropWhile_cons_of_neg (by simp [hne])]
  rw [this, List.reverse_reverse]

theorem contains_take {t : Bytes} (n : Nat) (h : t.contains 0 = false) : (t.take n).contains 0 = false := by
  cases hc : (t.take n).contains 0 with
  | false => rfl
  | true =>
    simp only [List.contains_eq_mem, decide_eq_true_eq] at hc
    have := List.mem_of_mem_take hc
    have : t.contains 0 = true := by simp [this]
    rw [this] at h; cases h

theorem contains_drop {t : Bytes} (n : Nat) (h : t.contains 0 = false) : (t.drop n).contains 0 = false := by
  cases hc : (t.drop n).contains 0 with
  | false => rfl
  | true =>
    simp only [List.contains_eq_mem, decide_eq_true_eq] at hc
    have := List.mem_of_mem_drop hc
    have : t.contains 0 = true := by simp [this]
    rw [this] at h; cases h

theorem contains_append {a b : Bytes} (ha : a.contains 0 = false) (hb : b.contains 0 = false) : (a ++ b).contains 0 = false := by
  cases hc : (a ++ b).contains 0 with
  | false => rfl
  | true =>
    simp only [List.contains_eq_mem, decide_eq_true_eq, List.mem_append] at hc
    rcases hc with h | h
    · have : a.contains 0 = true := by simp [h]
      rw [this] at ha; cases ha
    · have : b.contains 0 = true := by simp [h]
      rw [this] at hb; cases hb

/-- **`write_cstring(s, 16)` then `read_cstring_blockwise(16)`** on NUL-free text, whatever follows (this also
settles `C15.cstring_block_roundtrip_full` for the block size the ANM format uses) -/
theorem readCStr16Aux_nullPad : ∀ (fuel : Nat) (s acc rest : Bytes), s.contains 0 = false → acc.contains 0 = false →
    s.length / 16 < fuel → readCStr16Aux fuel acc (Abi.nullPad 16 s ++ rest) = .ok (acc ++ s, rest) := by
  intro fuel
  induction fuel with
  | zero => intro s acc rest _ _ h; omega
  | succ n ih =>
    intro s acc rest hs hacc hfuel
    rw [readCStr16Aux]
    by_cases hlt : s.length < 16
    · rw [nullPad16_short s hlt]
      have hb := rdBytes_append (s ++ Abi.zeros (16 - s.length)) rest
      have hl : (s ++ Abi.zeros (16 - s.length)).length = 16 := by simp [Abi.zeros]; omega
      rw [hl] at hb
      simp only [hb]
      have hk : 16 - s.length = (16 - s.length - 1) + 1 := by omega
      rw [← List.append_assoc, hk, getLast?_append_zeros, if_pos rfl, ← hk,
        stripTrailingZeros_append_zeros _ _ (contains_append hacc hs)]
    · have hge : 16 ≤ s.length := by omega
      rw [nullPad16_long s hge, List.append_assoc]
      have hb := rdBytes_append (s.take 16) (Abi.nullPad 16 (s.drop 16) ++ rest)
      have hl : (s.take 16).length = 16 := by simp; omega
      rw [hl] at hb
      simp only [hb]
      have hlast : (acc ++ s.take 16).getLast? ≠ some 0 := by
        intro h
        have hm := List.mem_of_getLast? h
        have hc := contains_append hacc (contains_take 16 hs)
        have : (acc ++ s.take 16).contains 0 = true := by simp only [List.contains_eq_mem, decide_eq_true_eq]; exact hm
        rw [this] at hc; cases hc
      rw [if_neg hlast, ih (s.drop 16) (acc ++ s.take 16) rest (contains_drop 16 hs) (contains_append hacc (contains_take 16 hs))
        (by simp only [List.length_drop]; omega), List.append_assoc, List.take_append_drop]

theorem readAnmStr_write (decOk : Bytes → Bool) (s rest : Bytes) (h0 : s.contains 0 = false) (hd : decOk s = true) :
    readAnmStr decOk (Abi.nullPad 16 s ++ rest) = .ok s := by
  unfold readAnmStr
  rw [readCStr16Aux_nullPad _ s [] rest h0 rfl (by
    have := (nullPad16_length s).2
    simp only [List.length_append]
    omega)]
  simp only [List.nil_append, hd, if_true]


/-! ### positions in a file -/

theorem seek_step {file a b : Bytes} {p k : Nat} (h : seek file p = a ++ b) (hk : a.length = k) : seek file (p + k) = b := by
  subst hk
  unfold seek at h ⊢
  rw [← List.drop_drop, h]
  simp

theorem seek_zero (file : Bytes) : seek file 0 = file := rfl

/-! ### sprites -/

/-- the sprites of an entry as `read_entry` builds them (before `strip_unnecessary_sprite_ids`): the id the writer's
numbering gave each sprite, made explicit, and the sprite named after it -/
def explicitSprites : UInt32 → List (Nat × Sprite) → List (Nat × Sprite)
  | _, [] => []
  | auto, (_, s) :: r => ((s.id.getD auto).toNat, { s with id := some (s.id.getD auto) }) :: explicitSprites (s.id.getD auto + 1) r

theorem anmSpriteBytes_eq (id : UInt32) (s : Sprite) :
    anmSpriteBytes id s = wrFields [4, 4, 4, 4, 4] [id.toNat, s.x.toNat, s.y.toNat, s.w.toNat, s.h.toNat] := by
  simp [anmSpriteBytes, wrFields, wrField]

theorem anmSpriteBytes_length (id : UInt32) (s : Sprite) : (anmSpriteBytes id s).length = 20 := by
  simp [anmSpriteBytes, u32]

theorem readSprite_write (id : UInt32) (s : Sprite) (rest : Bytes) :
    readSprite (anmSpriteBytes id s ++ rest) = some ({ s with id := some id }, rest) := by
  have hfit : fieldsFit [4, 4, 4, 4, 4] [id.toNat, s.x.toNat, s.y.toNat, s.w.toNat, s.h.toNat] = true := by
    have := id.toNat_lt; have := s.x.toNat_lt; have := s.y.toNat_lt; have := s.w.toNat_lt; have := s.h.toNat_lt
    simp only [fieldsFit, Bool.and_eq_true, decide_eq_true_eq, and_true]
    refine ⟨?_, ?_, ?_, ?_, ?_⟩ <;> (simp only [show (4 : Nat) ≠ 2 by decide, if_false]; omega)
  unfold readSprite
  rw [anmSpriteBytes_eq, rdFields_wrFields _ _ _ hfit]
  simp only [List.getD_cons_zero, List.getD_cons_succ, UInt32.ofNat_toNat]

theorem imInsert_fresh (k : Nat) (v : Sprite) : ∀ (l : List (Nat × Sprite)), k ∉ l.map (·.1) → imInsert k v l = l ++ [(k, v)] := by
  intro l
  induction l with
  | nil => intro _; rfl
  | cons x xs ih =>
    intro h
    obtain ⟨k', v'⟩ := x
    simp only [List.map_cons, List.mem_cons, not_or] at h
    rw [imInsert, if_neg h.1, ih h.2]
    rfl

theorem writeSprites_cons (auto : UInt32) (n : Nat) (s : Sprite) (r : List (Nat × Sprite)) :
    writeSprites auto ((n, s) :: r) =
      (anmSpriteBytes (s.id.getD auto) s ++ (writeSprites (s.id.getD auto + 1) r).1, (writeSprites (s.id.getD auto + 1) r).2) := rfl

theorem writeSprites_length : ∀ (l : List (Nat × Sprite)) (auto : UInt32), (writeSprites auto l).1.length = 20 * l.length := by
  intro l
  induction l with
  | nil => intro _; rfl
  | cons x xs ih =>
    intro auto
    obtain ⟨n, s⟩ := x
    rw [writeSprites_cons]
    simp only [List.length_append, anmSpriteBytes_length, ih, List.length_cons]
    omega

/-- the sprite loop on the sprites of a written entry: every sprite comes back under the id it was written with -/
theorem readSpritesAux_write (file : Bytes) (base : Nat) : ∀ (sprites : List (Nat × Sprite)) (auto : UInt32) (o : Nat)
    (acc : List (Nat × Sprite)) (tail : Bytes), seek file (base + o) = (writeSprites auto sprites).1 ++ tail →
    ((acc ++ explicitSprites auto sprites).map (·.1)).Nodup →
    readSpritesAux file base (offsetsFrom o (sprites.map fun _ => 20)) acc = .ok (acc ++ explicitSprites auto sprites) := by
  intro sprites
  induction sprites with
  | nil => intro auto o acc tail _ _; simp [offsetsFrom, readSpritesAux, explicitSprites]
  | cons x xs ih =>
    intro auto o acc tail hseek hnd
    obtain ⟨n, s⟩ := x
    rw [writeSprites_cons] at hseek
    simp only [List.append_assoc] at hseek
    simp only [List.map_cons, offsetsFrom, readSpritesAux, hseek, readSprite_write]
    have hkey : spriteKey { s with id := some (s.id.getD auto) } = (s.id.getD auto).toNat := rfl
    simp only [explicitSprites, List.map_append, List.map_cons] at hnd
    have hfresh : (s.id.getD auto).toNat ∉ acc.map (·.1) := by
      intro hm
      have := (List.nodup_append.1 hnd).2.2
      exact this _ hm _ (List.mem_cons_self ..) rfl
    rw [hkey, imInsert_fresh _ _ _ hfresh]
    have hnext := seek_step hseek (anmSpriteBytes_length _ _)
    rw [Nat.add_assoc] at hnext
    rw [ih (s.id.getD auto + 1) (o + 20) _ tail hnext (by
      simp only [List.map_append, List.map_cons, List.append_assoc, List.singleton_append]
      exact hnd)]
    simp only [explicitSprites, List.append_assoc, List.singleton_append]

/-! ### the script table -/

theorem rdScriptTableAux_write : ∀ (scripts : List (Nat × AnmScript)) (offs : List Nat) (acc : List (Nat × Nat)) (rest : Bytes),
    scripts.length = offs.length → (∀ o ∈ offs, o < 2 ^ 32) →
    rdScriptTableAux scripts.length acc (anmScriptTable scripts offs ++ rest) =
      some (acc.reverse ++ List.zip (scripts.map (·.2.id.toNat)) offs, rest) := by
  intro scripts
  induction scripts with
  | nil =>
    intro offs acc rest hl _
    cases offs with
    | nil => simp [rdScriptTableAux, anmScriptTable]
    | cons o os => cases hl
  | cons x xs ih =>
    intro offs acc rest hl hlt
    cases offs with
    | nil => cases hl
    | cons o os =>
      obtain ⟨n, sc⟩ := x
      have ho := hlt o (List.mem_cons_self ..)
      simp only [List.length_cons, Nat.add_right_cancel_iff] at hl
      simp only [List.length_cons, anmScriptTable, rdScriptTableAux, List.append_assoc, rdU32_u32', rdU32_u32 _ _ ho]
      rw [ih os _ rest hl (fun o' ho' => hlt o' (List.mem_cons_of_mem _ ho'))]
      simp

theorem anmScriptTable_length : ∀ (scripts : List (Nat × AnmScript)) (offs : List Nat), scripts.length = offs.length →
    (anmScriptTable scripts offs).length = 8 * scripts.length := by
  intro scripts
  induction scripts with
  | nil => intro offs _; cases offs <;> rfl
  | cons x xs ih =>
    intro offs hl
    cases offs with
    | nil => cases hl
    | cons o os =>
      obtain ⟨n, sc⟩ := x
      simp only [List.length_cons, Nat.add_right_cancel_iff] at hl
      simp only [anmScriptTable, List.length_append, ih os hl, List.length_cons, u32, List.length_nil]
      omega

/-! ### THTX -/

theorem readTexture_write (wi : Bool) (m : TexMeta) (d rest : Bytes) (hf : m.format.toNat < 65536) (hw : m.width.toNat < 65536)
    (hh : m.height.toNat < 65536) (hd : d.length < 2 ^ 32) :
    readTexture wi (writeTexture m d ++ rest) = .ok (m, if wi then some d else none) := by
  have hfit : fieldsFit [2, 2, 2, 2, 4] [0, m.format.toNat, m.width.toNat, m.height.toNat, d.length] = true := by
    simp only [fieldsFit, Bool.and_eq_true, decide_eq_true_eq, and_true, if_true, show (4 : Nat) ≠ 2 by decide, if_false]
    omega
  have hb : writeTexture m d ++ rest = thtxMagic ++ (wrFields [2, 2, 2, 2, 4] [0, m.format.toNat, m.width.toNat, m.height.toNat, d.length] ++ (d ++ rest)) := by
    simp [writeTexture, wrFields, wrField]
  have hmagic : rdBytes 4 (thtxMagic ++ (wrFields [2, 2, 2, 2, 4] [0, m.format.toNat, m.width.toNat, m.height.toNat, d.length] ++ (d ++ rest))) =
      some (thtxMagic, wrFields [2, 2, 2, 2, 4] [0, m.format.toNat, m.width.toNat, m.height.toNat, d.length] ++ (d ++ rest)) :=
    rdBytes_append thtxMagic _
  unfold readTexture
  rw [hb, hmagic]
  simp only [ne_eq, not_true_eq_false, if_false, rdFields_wrFields _ _ _ hfit, List.getD_cons_zero, List.getD_cons_succ,
    UInt32.ofNat_toNat, rdBytes_append]
  cases wi <;> rfl

theorem writeTexture_length (m : TexMeta) (d : Bytes) : (writeTexture m d).length = 16 + d.length := by
  simp [writeTexture, thtxMagic, u16, u32]
  omega

/-! ### `min` of the offsets above a script -/

theorem minAbove_mem (x : Nat) : ∀ (l : List Nat) (m : Nat), minAbove x l = some m → m ∈ l ∧ x < m := by
  intro l
  induction l with
  | nil => intro m h; cases h
  | cons y ys ih =>
    intro m h
    rw [minAbove] at h
    split at h
    · split at h
      · cases h; exact ⟨List.mem_cons_self .., by assumption⟩
      · cases h
    · rename_i m' hm'
      obtain ⟨h1, h2⟩ := ih _ hm'
      split at h
      · rename_i hc; cases h; exact ⟨List.mem_cons_self .., hc.1⟩
      · cases h; exact ⟨List.mem_cons_of_mem _ h1, h2⟩

theorem minAbove_none (x : Nat) : ∀ (l : List Nat), (∀ y ∈ l, y ≤ x) → minAbove x l = none := by
  intro l
  induction l with
  | nil => intro _; rfl
  | cons y ys ih =>
    intro h
    have hy := h y (List.mem_cons_self ..)
    rw [minAbove, ih (fun z hz => h z (List.mem_cons_of_mem _ hz))]
    simp only
    rw [if_neg (by omega)]

theorem minAbove_some (x m : Nat) : ∀ (l : List Nat), m ∈ l → x < m → (∀ y ∈ l, y ≤ x ∨ m ≤ y) → minAbove x l = some m := by
  intro l
  induction l with
  | nil => intro h; cases h
  | cons y ys ih =>
    intro hm hx hall
    have hy := hall y (List.mem_cons_self ..)
    have hall' : ∀ z ∈ ys, z ≤ x ∨ m ≤ z := fun z hz => hall z (List.mem_cons_of_mem _ hz)
    rw [minAbove]
    by_cases hmys : m ∈ ys
    · rw [ih hmys hx hall']
      simp only
      rw [if_neg (by omega)]
    · have hym : y = m := by
        rcases List.mem_cons.1 hm with h | h
        · exact h.symm
        · exact absurd h hmys
      subst hym
      cases hq : minAbove x ys with
      | none => simp only; rw [if_pos hx]
      | some m' =>
        obtain ⟨h1, h2⟩ := minAbove_mem x ys m' hq
        have := hall' m' h1
        simp only
        by_cases hlt : y < m'
        · rw [if_pos ⟨hx, hlt⟩]
        · rw [if_neg (by omega)]
          have : m' = y := by omega
          rw [this]


/-! ### one script -/

theorem instr_cases (fmt : AnmFmt) : fmt.instr = .msg ∨ fmt.instr = .anm07 := by
  unfold AnmFmt.instr
  split
  · exact .inl rfl
  · exact .inr rfl

theorem endCheck_go (e : Option Nat) (cur k : Nat) (hk : 0 < k) (he : ∀ e', e = some e' → cur + k ≤ e') : endCheck e cur = .go := by
  cases e with
  | none => rfl
  | some e' =>
    have := he e' rfl
    simp only [endCheck]
    rw [if_pos (by omega)]

theorem writeInstrs_length_pos {f : Fmt} {is : List Instr} {bs : Bytes} (h : writeInstrs f is = .ok bs) : 0 < bs.length := by
  induction is generalizing bs with
  | nil =>
    rw [writeInstrs] at h
    cases h
    cases f <;> decide
  | cons i is ih =>
    obtain ⟨b, bs', _, hbs', rfl⟩ := writeInstrs_cons_ok h
    have := ih hbs'
    simp only [List.length_append]; omega

/-- a script with an end marker (every format but MSG / EoSD ANM) followed by anything, read with no end offset or
an end offset at or behind its end: the reader stops at the marker -/
theorem readEndAux_write_term (f : Fmt) (hf : f ≠ .msg) (e : Option Nat) :
    ∀ (is : List Instr) (n : Nat) (acc : List Instr) (cur : Nat) (bs rest : Bytes),
      writeInstrs f is = .ok bs → (∀ i ∈ is, Stored f i ∧ NotTerminalLooking f i) → bs.length < n →
      (∀ e', e = some e' → cur + bs.length ≤ e') →
      readInstrsEndAux f e n none acc cur (bs ++ rest) = .ok (acc.reverse ++ is) := by
  intro is
  induction is with
  | nil =>
    intro n acc cur bs rest hw _ hn he
    have hpos := writeInstrs_length_pos hw
    rw [writeInstrs] at hw
    injection hw with hw
    subst hw
    obtain ⟨r, hr⟩ := read_terminal_append f hf rest
    cases n with
    | zero => omega
    | succ n =>
      rw [C16.readInstrsEndAux_succ, endCheck_go e cur _ hpos he, hr]
      simp only [List.append_nil]
  | cons i is ih =>
    intro n acc cur bs rest hw hall hn he
    have hpos := writeInstrs_length_pos hw
    obtain ⟨b, bs', hb, hbs', rfl⟩ := writeInstrs_cons_ok hw
    have hi := hall i (List.mem_cons_self ..)
    have hread := read_write f i (bs' ++ rest) b hi.1 hb hi.2
    rw [expectedRes_not_msg hf] at hread
    have hlen := write_length hb
    cases n with
    | zero => omega
    | succ n =>
      rw [C16.readInstrsEndAux_succ, endCheck_go e cur _ hpos he, List.append_assoc, hread]
      simp only [Files.commit]
      have hsize : instrSize f i = b.length := by rw [hlen]; rfl
      rw [ih n (i :: acc) (cur + instrSize f i) bs' rest hbs' (fun j hj => hall j (List.mem_cons_of_mem _ hj))
        (by rw [List.length_append] at hn; have := C16.headerSize_pos f; omega)
        (by intro e' he'; have := he e' he'; rw [List.length_append] at this; omega)]
      simp only [List.reverse_cons, List.append_assoc, List.singleton_append]

/-- one script of a written entry: read with the end offset the entry gives it (its own end), or with none when it is
the last thing the reader could run into (an end marker stops the reader; in version 0 only the end of the file does) -/
theorem readScript_write (f : Fmt) (hf : f = .msg ∨ f = .anm07) (is : List Instr) (b tail : Bytes) (cur : Nat) (e : Option Nat)
    (hw : writeInstrs f is = .ok b) (hs : ∀ i ∈ is, Stored f i)
    (he : e = some (cur + b.length) ∨ (e = none ∧ (f ≠ .msg ∨ tail = []))) :
    readInstrsEnd f e cur (b ++ tail) = .ok is := by
  unfold readInstrsEnd
  rcases hf with rfl | rfl
  · rcases he with rfl | ⟨rfl, h | rfl⟩
    · rw [readEndAux_write_msg is _ none [] cur b tail hw hs (by simp only [List.length_append]; omega)]
      rfl
    · exact absurd rfl h
    · have := readInstrs_writeInstrs .msg is b hw (fun i hi => ⟨hs i hi, trivial⟩)
      simp only [readInstrs] at this
      simp only [List.append_nil, readInstrsEndAux_none, this]
  · have hne : Fmt.anm07 ≠ Fmt.msg := by decide
    rw [readEndAux_write_term .anm07 hne e is _ [] cur b tail hw (fun i hi => ⟨hs i hi, trivial⟩)
      (by simp only [List.length_append]; omega)
      (by
        intro e' he'
        rcases he with rfl | ⟨rfl, _⟩
        · cases he'; exact Nat.le_refl _
        · cases he')]
    rfl

/-! ### the scripts of an entry -/

/-- scripts as the reader names them: by their index in the whole file -/
def renumberScripts : Nat → List (Nat × AnmScript) → List (Nat × AnmScript)
  | _, [] => []
  | idx, (_, s) :: r => (idx, s) :: renumberScripts (idx + 1) r

/-- what `all_offsets` looks like from the script at `cur` on: nothing between the scripts, and behind the last
script either the texture (`endIn`) or nothing -/
def OffsInv (allOffs : List Nat) (endIn : Bool) (cur : Nat) (lens : List Nat) : Prop :=
  (∀ y ∈ allOffs, y < cur ∨ y ∈ offsetsFrom cur lens ∨ (endIn = true ∧ y = cur + lens.sum)) ∧
  (∀ o ∈ offsetsFrom cur lens, o ∈ allOffs) ∧ (endIn = true → cur + lens.sum ∈ allOffs)

theorem OffsInv.step {allOffs : List Nat} {endIn : Bool} {cur l : Nat} {ls : List Nat} (h : OffsInv allOffs endIn cur (l :: ls))
    (hl : 0 < l) : OffsInv allOffs endIn (cur + l) ls := by
  obtain ⟨h1, h2, h3⟩ := h
  refine ⟨?_, ?_, ?_⟩
  · intro y hy
    rcases h1 y hy with h | h | ⟨he, h⟩
    · exact .inl (by omega)
    · simp only [offsetsFrom, List.mem_cons] at h
      rcases h with rfl | h
      · exact .inl (by omega)
      · exact .inr (.inl h)
    · exact .inr (.inr ⟨he, by simp only [List.sum_cons] at h; omega⟩)
  · intro o ho
    exact h2 o (by simp only [offsetsFrom, List.mem_cons]; exact .inr ho)
  · intro he
    have := h3 he
    simp only [List.sum_cons] at this
    rw [Nat.add_assoc]
    exact this

theorem OffsInv.minAbove {allOffs : List Nat} {endIn : Bool} {cur l : Nat} {ls : List Nat} (h : OffsInv allOffs endIn cur (l :: ls))
    (hl : 0 < l) : minAbove cur allOffs = if ls ≠ [] ∨ endIn = true then some (cur + l) else none := by
  obtain ⟨h1, h2, h3⟩ := h
  have hall : ∀ y ∈ allOffs, y ≤ cur ∨ cur + l ≤ y := by
    intro y hy
    rcases h1 y hy with h | h | ⟨_, h⟩
    · exact .inl (by omega)
    · simp only [offsetsFrom, List.mem_cons] at h
      rcases h with rfl | h
      · exact .inl (Nat.le_refl _)
      · exact .inr (offsetsFrom_ge _ _ _ h)
    · simp only [List.sum_cons] at h; exact .inr (by omega)
  by_cases hc : ls ≠ [] ∨ endIn = true
  · rw [if_pos hc]
    refine minAbove_some cur (cur + l) allOffs ?_ (by omega) hall
    rcases hc with hc | hc
    · cases ls with
      | nil => exact absurd rfl hc
      | cons l2 ls' => exact h2 _ (by simp [offsetsFrom])
    · cases ls with
      | nil => have := h3 hc; simpa using this
      | cons l2 ls' => exact h2 _ (by simp [offsetsFrom])
  · rw [if_neg hc]
    simp only [not_or, ne_eq, Classical.not_not, Bool.not_eq_true] at hc
    obtain ⟨rfl, he⟩ := hc
    refine minAbove_none cur allOffs ?_
    intro y hy
    rcases h1 y hy with h | h | ⟨he', _⟩
    · omega
    · simp only [offsetsFrom, List.mem_cons, List.not_mem_nil, or_false] at h; omega
    · rw [he] at he'; cases he'

theorem anmScript_eta (sc : AnmScript) : ({ id := UInt32.ofNat sc.id.toNat, instrs := sc.instrs } : AnmScript) = sc := by
  cases sc
  simp only [UInt32.ofNat_toNat]

/-- the script loop of `read_entry` on the scripts of a written entry -/
theorem readAnmScriptsAux_write (f : Fmt) (hf : f = .msg ∨ f = .anm07) (file : Bytes) (pos : Nat) (allOffs : List Nat) (endIn : Bool) :
    ∀ (scripts : List (Nat × AnmScript)) (blobs : List Bytes) (cur idx : Nat) (acc : List (Nat × AnmScript)) (tail : Bytes),
      BlobsL f (scripts.map (·.2.instrs)) blobs →
      (∀ s ∈ scripts, ∀ i ∈ s.2.instrs, Stored f i) →
      seek file (pos + cur) = blobs.flatten ++ tail →
      OffsInv allOffs endIn cur (blobs.map List.length) →
      (endIn = false → f = .msg → tail = []) →
      idx + scripts.length ≤ 4294967295 →
      readAnmScriptsAux f file pos allOffs (List.zip (scripts.map (·.2.id.toNat)) (offsetsFrom cur (blobs.map List.length))) idx acc
        = .ok (acc.reverse ++ renumberScripts idx scripts) := by
  intro scripts
  induction scripts with
  | nil =>
    intro blobs cur idx acc tail hb _ _ _ _ _
    cases blobs with
    | nil => simp [offsetsFrom, readAnmScriptsAux, renumberScripts]
    | cons b bs => cases hb
  | cons x xs ih =>
    intro blobs cur idx acc tail hb hst hseek hinv htail hidx
    cases blobs with
    | nil => cases hb
    | cons b bs =>
      obtain ⟨n, sc⟩ := x
      obtain ⟨hb1, hbrest⟩ := hb
      have hpos : 0 < b.length := writeInstrs_length_pos hb1
      simp only [List.map_cons, List.flatten_cons, List.append_assoc] at hseek hinv
      simp only [List.map_cons, offsetsFrom, List.zip_cons_cons, readAnmScriptsAux]
      rw [if_neg (by simp only [List.length_cons] at hidx; omega), hinv.minAbove hpos, hseek]
      have hread : readInstrsEnd f (if bs.map List.length ≠ [] ∨ endIn = true then some (cur + b.length) else none) cur
          (b ++ (bs.flatten ++ tail)) = .ok sc.instrs := by
        refine readScript_write f hf sc.instrs b _ cur _ hb1 (hst _ (List.mem_cons_self ..)) ?_
        by_cases hc : bs.map List.length ≠ [] ∨ endIn = true
        · rw [if_pos hc]; exact .inl rfl
        · rw [if_neg hc]
          simp only [not_or, ne_eq, Classical.not_not, Bool.not_eq_true, List.map_eq_nil_iff] at hc
          obtain ⟨rfl, he⟩ := hc
          refine .inr ⟨rfl, ?_⟩
          by_cases hm : f = .msg
          · exact .inr (by simp only [List.flatten_nil, List.nil_append]; exact htail he hm)
          · exact .inl hm
      rw [hread]
      simp only [anmScript_eta]
      have hnext := seek_step hseek rfl
      rw [Nat.add_assoc] at hnext
      rw [ih bs (cur + b.length) (idx + 1) _ tail hbrest (fun s hs => hst s (List.mem_cons_of_mem _ hs)) hnext (hinv.step hpos) htail
        (by simp only [List.length_cons] at hidx; omega)]
      simp only [renumberScripts, List.reverse_cons, List.append_assoc, List.singleton_append]


/-! ### one entry: what the writer produced -/

theorem anmSpriteOffsets_length (e : AnmEntry) : (anmSpriteOffsets e).length = e.sprites.length := by
  simp [anmSpriteOffsets, offsetsFrom_length]

theorem offsetsFrom_const_lt : ∀ (l : List (Nat × Sprite)) (s : Nat), ∀ x ∈ offsetsFrom s (l.map fun _ => 20), x + 20 ≤ s + 20 * l.length := by
  intro l
  induction l with
  | nil => intro s x h; cases h
  | cons a r ih =>
    intro s x h
    simp only [List.map_cons, offsetsFrom, List.mem_cons] at h
    rcases h with rfl | h
    · simp only [List.length_cons]; omega
    · have := ih _ x h
      simp only [List.length_cons]; omega

/-- the layout of the bytes `write_entry` produces -/
theorem writeAnmEntry_layout {fmt : AnmFmt} {auto auto' : UInt32} {e : AnmEntry} {last : Bool} {b : Bytes}
    (hw : writeAnmEntry fmt auto e last = .ok (b, auto')) :
    ∃ blobs tex, BlobsL fmt.instr (e.scripts.map (·.2.instrs)) blobs ∧ writeAnmTexture e = .ok tex ∧
      anmLayoutHolds fmt e = true ∧ anmHeaderFits fmt (anmHeaderOf fmt e 0 0) = true ∧ auto' = (writeSprites auto e.sprites).2 ∧
      b = anmHeaderBytes fmt (anmHeaderOf fmt e (if e.texData.isSome then anmScriptsStart e + blobs.flatten.length else 0)
            (if last then 0 else anmScriptsStart e + blobs.flatten.length + tex.length))
          ++ u32s (anmSpriteOffsets e) ++ anmScriptTable e.scripts (offsetsFrom (anmScriptsStart e) (blobs.map List.length))
          ++ anmPathBytes e ++ anmPath2Bytes e ++ (writeSprites auto e.sprites).1 ++ blobs.flatten ++ tex := by
  unfold writeAnmEntry at hw
  split at hw
  · cases hw
  · rename_i hlay
    split at hw
    · cases hw
    · rename_i hfits
      split at hw
      · cases hw
      · cases hw
      · rename_i scriptBytes scriptOffs hsl
        split at hw
        · cases hw
        · cases hw
        · rename_i tex htex
          simp only [Outcome.ok.injEq, Prod.mk.injEq] at hw
          obtain ⟨hb, ha⟩ := hw
          obtain ⟨blobs, hblobs, rfl, rfl⟩ := writeScriptList_spec _ _ _ _ _ hsl
          refine ⟨blobs, tex, hblobs, htex, ?_, ?_, ha.symm, hb.symm⟩
          · cases hf : anmLayoutHolds fmt e
            · rw [hf] at hlay; exact absurd rfl hlay
            · rfl
          · cases hf : anmHeaderFits fmt (anmHeaderOf fmt e 0 0)
            · rw [hf] at hfits; exact absurd rfl hfits
            · rfl

theorem anmPathBytes_length (e : AnmEntry) : 16 ≤ (anmPathBytes e).length := (nullPad16_length e.path).1

/-! ### well-formed entries, and what a reader makes of them -/

def storedAnm (f : Fmt) (i : Instr) : Bool := i.difficulty == 255 && i.extra.isNone && (f != .msg || i.mask == 0)

theorem storedAnm_stored {f : Fmt} (hf : f = .msg ∨ f = .anm07) {i : Instr} (h : storedAnm f i = true) : Stored f i := by
  simp only [storedAnm, Bool.and_eq_true, beq_iff_eq, Option.isNone_iff_eq_none, Bool.or_eq_true, bne_iff_ne, ne_eq] at h
  obtain ⟨⟨h1, h2⟩, h3⟩ := h
  rcases hf with rfl | rfl
  · rcases h3 with h3 | h3
    · exact absurd rfl h3
    · exact ⟨h3, h1, h2⟩
  · exact ⟨h1, h2⟩

/-- the `specs` hold nothing the header layout of the version has no field for -/
def specsOk (fmt : AnmFmt) (sp : AnmSpecs) : Bool :=
  if fmt.oldHeader then sp.offsetX == 0 && sp.offsetY == 0 && !sp.lowResScale else sp.colorkey == 0

/-- the texture of an entry: data and metadata come together, and a path that starts with `@` (no image by convention)
has none (that the metadata fits the 16-bit fields of the THTX section is checked by the writer since db48965) -/
def texOk (e : AnmEntry) : Bool :=
  match e.texData, e.texMeta with
  | none, none => true
  | some _, some _ => e.path.head? != some 0x40
  | _, _ => false

/-- **the well-formedness predicate of one entry** (`auto`: the automatic sprite id at its start, `last`: no entry follows) -/
def wfEntry (decOk : Bytes → Bool) (fmt : AnmFmt) (auto : UInt32) (e : AnmEntry) (last : Bool) : Bool :=
  textOk decOk e.path
  && (match e.path2 with | none => true | some p => textOk decOk p)
  && texOk e
  && e.scripts.all (fun s => s.2.instrs.all (storedAnm fmt.instr))
  && nodupNat ((explicitSprites auto e.sprites).map (·.1))
  && (last || fmt.instr != .msg || e.scripts.isEmpty || e.texData.isSome)

def wfEntries (decOk : Bytes → Bool) (fmt : AnmFmt) : UInt32 → List AnmEntry → Bool
  | _, [] => true
  | auto, e :: es => wfEntry decOk fmt auto e es.isEmpty && wfEntries decOk fmt (writeSprites auto e.sprites).2 es

/-- **the well-formedness predicate of `anm_read_write`**: at least one entry; text NUL-free and decodable; image data
together with its metadata and not under an `@` path; instructions that carry nothing their format does not store; no two
sprites of an entry with the same id; and in version 0 (EoSD) every entry that is followed by another one and has scripts
also has an image (its last script has no other delimiter).  Since db48965 nothing about fields without room in the header
layout or about the size of the image: a successful write implies those (`writeAnmEntry_layout`). -/
def wfAnm (decOk : Bytes → Bool) (fmt : AnmFmt) (f : AnmFile) : Bool := !f.entries.isEmpty && wfEntries decOk fmt 0 f.entries

/-- what `read_entry` returns for a written entry (before `strip_unnecessary_sprite_ids`) -/
def rawEntry (wi : Bool) (auto : UInt32) (idx : Nat) (e : AnmEntry) : AnmEntry :=
  { specs := e.specs, path := e.path, path2 := e.path2, sprites := explicitSprites auto e.sprites,
    scripts := renumberScripts idx e.scripts, texMeta := e.texMeta, texData := if wi then e.texData else none }

theorem nodupNat_iff : ∀ (l : List Nat), nodupNat l = true ↔ l.Nodup := by
  intro l
  induction l with
  | nil => simp [nodupNat]
  | cons x xs ih =>
    simp only [nodupNat, Bool.and_eq_true, Bool.not_eq_true', List.nodup_cons, ih]
    constructor
    · rintro ⟨h1, h2⟩
      refine ⟨?_, h2⟩
      intro hm
      have : xs.contains x = true := by simp [hm]
      rw [this] at h1; cases h1
    · rintro ⟨h1, h2⟩
      refine ⟨?_, h2⟩
      cases hc : xs.contains x with
      | false => rfl
      | true => simp only [List.contains_eq_mem, decide_eq_true_eq] at hc; exact absurd hc h1


/-- the header of a written entry as the reader sees it -/
theorem readAnmHeader_entry (fmt : AnmFmt) (e : AnmEntry) (thtx next : Nat) (rest0 : Bytes)
    (hok : headerOk fmt (anmHeaderOf fmt e thtx next) = true) (hspecs : specsOk fmt e.specs = true)
    (hp2 : fmt.oldHeader = false → e.path2 = none) (hns : e.sprites.length < 4294967296) (hnsc : e.scripts.length < 4294967296) :
    ∃ g, readAnmHeader fmt (anmHeaderBytes fmt (anmHeaderOf fmt e thtx next) ++ rest0) = .ok (g, rest0) ∧
      g.numSprites = e.sprites.length ∧ g.numScripts = e.scripts.length ∧ g.nameOffset = anmBase e ∧
      g.secNameOffset = (match e.path2 with | some _ => anmBase e + (anmPathBytes e).length | none => 0) ∧
      g.thtxOffset = thtx ∧ g.hasData = (if e.texData.isSome then 1 else 0) ∧ g.nextOffset = next ∧
      ({ rtWidth := UInt32.ofNat g.rtWidth, rtHeight := UInt32.ofNat g.rtHeight, rtFormat := UInt32.ofNat g.rtFormat,
         colorkey := UInt32.ofNat g.colorkey, offsetX := UInt32.ofNat g.offsetX, offsetY := UInt32.ofNat g.offsetY,
         memoryPriority := UInt32.ofNat g.memoryPriority, lowResScale := decide (g.lowResScale ≠ 0) } : AnmSpecs) = e.specs := by
  refine ⟨normHeader fmt (anmHeaderOf fmt e thtx next), readAnmHeader_write fmt _ rest0 hok, ?_⟩
  unfold specsOk at hspecs
  cases hsp : e.specs with
  | mk rw rh rf ck ox oy mp lrs =>
    rw [hsp] at hspecs
    cases ho : fmt.oldHeader
    · have hp := hp2 ho
      simp only [ho, Bool.false_eq_true, if_false, beq_iff_eq] at hspecs
      subst hspecs
      simp only [normHeader, ho, Bool.false_eq_true, if_false, anmHeaderOf, hsp, hp, Nat.mod_eq_of_lt hns, Nat.mod_eq_of_lt hnsc,
        UInt32.ofNat_toNat, true_and]
      cases lrs <;> simp
    · simp only [ho, if_true, Bool.and_eq_true, beq_iff_eq, Bool.not_eq_true'] at hspecs
      obtain ⟨⟨rfl, rfl⟩, rfl⟩ := hspecs
      simp only [normHeader, ho, if_true, anmHeaderOf, hsp, Nat.mod_eq_of_lt hns, Nat.mod_eq_of_lt hnsc,
        UInt32.ofNat_toNat, true_and]
      cases e.path2 <;> simp

/-! ### one entry: reading it back -/

theorem anmPath2Bytes_length (e : AnmEntry) (p : Bytes) (h : e.path2 = some p) : 16 ≤ (anmPath2Bytes e).length := by
  unfold anmPath2Bytes; rw [h]; exact (nullPad16_length p).1

theorem specs_eta (sp : AnmSpecs) :
    ({ rtWidth := sp.rtWidth, rtHeight := sp.rtHeight, rtFormat := sp.rtFormat, colorkey := sp.colorkey, offsetX := sp.offsetX,
       offsetY := sp.offsetY, memoryPriority := sp.memoryPriority, lowResScale := sp.lowResScale } : AnmSpecs) = sp := by
  cases sp; rfl

/-- **one entry**: `read_entry` at the position where `write_entry` wrote a well-formed entry returns that entry
(sprites and scripts renamed, image data only if asked for) and the distance to the next one -/
theorem readAnmEntry_write (decOk : Bytes → Bool) (fmt : AnmFmt) (wi : Bool) (pre rest : Bytes) (e : AnmEntry) (auto auto' : UInt32)
    (last : Bool) (idx : Nat) (b : Bytes) (hv : fmt.version < 4294967296) (hw : writeAnmEntry fmt auto e last = .ok (b, auto'))
    (hwf : wfEntry decOk fmt auto e last = true) (hlen : b.length < 2 ^ 32) (hidx : idx + e.scripts.length ≤ 4294967295)
    (hrest : last = true → rest = []) :
    readAnmEntry decOk fmt wi (pre ++ (b ++ rest)) pre.length idx = .ok (rawEntry wi auto idx e, if last then 0 else b.length) := by
  obtain ⟨blobs, tex, hblobs, htex, hlay, hfits, _, hb⟩ := writeAnmEntry_layout hw
  -- the well-formedness facts
  simp only [wfEntry, Bool.and_eq_true] at hwf
  obtain ⟨⟨⟨⟨⟨hpath, hpath2⟩, htexok⟩, hstored⟩, hnd⟩, hv0⟩ := hwf
  -- what the writer checked: nothing without a field in this header layout
  have hspecs : specsOk fmt e.specs = true := by
    unfold anmLayoutHolds at hlay
    unfold specsOk
    cases ho : fmt.oldHeader
    · simp only [ho, Bool.false_eq_true, if_false, Bool.and_eq_true] at hlay ⊢; exact hlay.1
    · simp only [ho, if_true] at hlay ⊢; exact hlay
  have hp2 : fmt.oldHeader = false → e.path2 = none := by
    intro ho
    unfold anmLayoutHolds at hlay
    simp only [ho, Bool.false_eq_true, if_false, Bool.and_eq_true, Option.isNone_iff_eq_none] at hlay
    exact hlay.2
  simp only [textOk, Bool.and_eq_true, Bool.not_eq_true'] at hpath
  have hnd' := (nodupNat_iff _).1 hnd
  have hinstr := instr_cases fmt
  have hst : ∀ s ∈ e.scripts, ∀ i ∈ s.2.instrs, Stored fmt.instr i := by
    intro s hs i hi
    simp only [List.all_eq_true] at hstored
    exact storedAnm_stored hinstr (hstored s hs i hi)
  -- lengths
  have hnblobs : blobs.length = e.scripts.length := by have := hblobs.length_eq; simp only [List.length_map] at this; exact this.symm
  have hsum := flatten_length_eq_sum blobs
  have hP1 := anmPathBytes_length e
  have hSP := writeSprites_length e.sprites auto
  have hH := anmHeaderBytes_length fmt (anmHeaderOf fmt e (if e.texData.isSome then anmScriptsStart e + blobs.flatten.length else 0)
            (if last then 0 else anmScriptsStart e + blobs.flatten.length + tex.length))
  have hSO : (u32s (anmSpriteOffsets e)).length = 4 * e.sprites.length := by rw [u32s_length, anmSpriteOffsets_length]
  have hoffl : e.scripts.length = (offsetsFrom (anmScriptsStart e) (blobs.map List.length)).length := by
    rw [offsetsFrom_length, List.length_map, hnblobs]
  have hST := anmScriptTable_length e.scripts _ hoffl
  have hblen : b.length = anmScriptsStart e + blobs.flatten.length + tex.length := by
    have hss' : anmScriptsStart e = 64 + 4 * e.sprites.length + 8 * e.scripts.length + (anmPathBytes e).length + (anmPath2Bytes e).length
        + 20 * e.sprites.length := by simp only [anmScriptsStart, anmSpritesStart, anmBase]
    rw [hb]
    simp only [List.length_append, hH, hSO, hST, hSP]
    omega
  have hss : anmScriptsStart e = 64 + 4 * e.sprites.length + 8 * e.scripts.length + (anmPathBytes e).length + (anmPath2Bytes e).length
      + 20 * e.sprites.length := by simp only [anmScriptsStart, anmSpritesStart, anmBase]
  -- the texture
  have htexlen : (e.texData = none ∧ e.texMeta = none ∧ tex = []) ∨ ∃ d m, e.texData = some d ∧ e.texMeta = some m ∧ tex = writeTexture m d ∧
      m.format.toNat < 65536 ∧ m.width.toNat < 65536 ∧ m.height.toNat < 65536 ∧ e.path.head? ≠ some 0x40 := by
    unfold texOk at htexok
    unfold writeAnmTexture at htex
    cases hd : e.texData with
    | none =>
      cases hm : e.texMeta with
      | none => rw [hd] at htex; cases htex; exact .inl ⟨rfl, rfl, rfl⟩
      | some m => rw [hd, hm] at htexok; cases htexok
    | some d =>
      cases hm : e.texMeta with
      | none => rw [hd, hm] at htexok; cases htexok
      | some m =>
        rw [hd, hm] at htexok htex
        simp only [bne_iff_ne, ne_eq] at htexok
        cases hfit : texMetaFits m with
        | false => simp only [hfit, Bool.false_eq_true, if_false] at htex; cases htex
        | true =>
          simp only [hfit, if_true] at htex
          cases htex
          simp only [texMetaFits, Bool.and_eq_true, decide_eq_true_eq] at hfit
          exact .inr ⟨d, m, rfl, rfl, rfl, hfit.1.1, hfit.1.2, hfit.2, htexok⟩
  -- the header the reader sees
  have hok : headerOk fmt (anmHeaderOf fmt e (if e.texData.isSome then anmScriptsStart e + blobs.flatten.length else 0)
      (if last then 0 else anmScriptsStart e + blobs.flatten.length + tex.length)) = true := by
    have h1 := e.specs.rtWidth.toNat_lt; have h2 := e.specs.rtHeight.toNat_lt; have h3 := e.specs.rtFormat.toNat_lt
    have h4 := e.specs.colorkey.toNat_lt; have h5 := e.specs.offsetX.toNat_lt; have h6 := e.specs.offsetY.toNat_lt
    have h7 := e.specs.memoryPriority.toNat_lt
    have hthtx : (if e.texData.isSome then anmScriptsStart e + blobs.flatten.length else 0) < 4294967296 := by split <;> omega
    have hnext : (if last then 0 else anmScriptsStart e + blobs.flatten.length + tex.length) < 4294967296 := by split <;> omega
    have hsec : (match e.path2 with | some _ => anmBase e + (anmPathBytes e).length | none => 0) < 4294967296 := by
      split
      · simp only [anmBase]; omega
      · omega
    have hlrs : (if e.specs.lowResScale = true then 1 else 0) < 65536 := by split <;> omega
    have hhd : (if e.texData.isSome = true then 1 else 0) < 65536 := by split <;> omega
    have hns : e.sprites.length % 4294967296 < 4294967296 := Nat.mod_lt _ (by decide)
    have hnsc : e.scripts.length % 4294967296 < 4294967296 := Nat.mod_lt _ (by decide)
    have hbase : anmBase e < 4294967296 := by simp only [anmBase]; omega
    unfold headerOk
    unfold anmHeaderFits at hfits
    cases ho : fmt.oldHeader
    · simp only [ho, Bool.false_or, Bool.and_eq_true, anmHeaderOf] at hfits
      obtain ⟨⟨⟨⟨⟨⟨f1, f2⟩, f3⟩, f4⟩, f5⟩, f6⟩, f7⟩ := hfits
      have f1 := of_decide_eq_true f1; have f2 := of_decide_eq_true f2; have f3 := of_decide_eq_true f3
      have f4 := of_decide_eq_true f4; have f5 := of_decide_eq_true f5; have f6 := of_decide_eq_true f6
      have f7 := of_decide_eq_true f7
      simp only [Bool.false_eq_true, if_false, anmNewWidths, fieldsFit, anmHeaderOf, Bool.and_eq_true, decide_eq_true_eq, and_true,
        if_true, show (4 : Nat) ≠ 2 by decide]
      exact ⟨hv, by omega, by omega, by omega, by omega, by omega, by omega, hbase, by omega, by omega, by omega, hthtx, hhd, hlrs, hnext,
        by omega, by omega, by omega, by omega, by omega, by omega⟩
    · simp only [if_true, anmOldWidths, fieldsFit, anmHeaderOf, Bool.and_eq_true, decide_eq_true_eq, and_true,
        show (4 : Nat) ≠ 2 by decide, if_false]
      exact ⟨hns, hnsc, by omega, by omega, by omega, by omega, by omega, hbase, by omega, hsec, hv, by omega, hthtx, hhd, by omega,
        hnext, by omega⟩
  -- the header as the reader sees it
  have hnsl : e.sprites.length < 4294967296 := by omega
  have hnscl : e.scripts.length < 4294967296 := by omega
  -- the file around the entry
  have hs0 : seek (pre ++ (b ++ rest)) pre.length =
      anmHeaderBytes fmt (anmHeaderOf fmt e (if e.texData.isSome then anmScriptsStart e + blobs.flatten.length else 0)
          (if last then 0 else anmScriptsStart e + blobs.flatten.length + tex.length)) ++
        (u32s (anmSpriteOffsets e) ++ (anmScriptTable e.scripts (offsetsFrom (anmScriptsStart e) (blobs.map List.length)) ++
          (anmPathBytes e ++ (anmPath2Bytes e ++ ((writeSprites auto e.sprites).1 ++ (blobs.flatten ++ (tex ++ rest))))))) := by
    rw [drop_prefix, hb]; simp only [List.append_assoc]
  have hs1 := seek_step hs0 hH
  have hs2 := seek_step hs1 hSO
  have hs3 := seek_step hs2 hST
  have hs4 := seek_step hs3 (rfl : (anmPathBytes e).length = _)
  have hs5 := seek_step hs4 (rfl : (anmPath2Bytes e).length = _)
  have hs6 := seek_step hs5 hSP
  have hs7 := seek_step hs6 (rfl : blobs.flatten.length = _)
  have hname : seek (pre ++ (b ++ rest)) (pre.length + anmBase e) = anmPathBytes e ++ (anmPath2Bytes e ++ ((writeSprites auto e.sprites).1 ++ (blobs.flatten ++ (tex ++ rest)))) := by
    have : pre.length + anmBase e = pre.length + 64 + 4 * e.sprites.length + 8 * e.scripts.length := by simp only [anmBase]; omega
    rw [this]; exact hs3
  have hsecpos : seek (pre ++ (b ++ rest)) (pre.length + (anmBase e + (anmPathBytes e).length)) = anmPath2Bytes e ++ ((writeSprites auto e.sprites).1 ++ (blobs.flatten ++ (tex ++ rest))) := by
    have : pre.length + (anmBase e + (anmPathBytes e).length) = pre.length + 64 + 4 * e.sprites.length + 8 * e.scripts.length + (anmPathBytes e).length := by
      simp only [anmBase]; omega
    rw [this]; exact hs4
  have hsprpos : seek (pre ++ (b ++ rest)) (pre.length + anmSpritesStart e) = (writeSprites auto e.sprites).1 ++ (blobs.flatten ++ (tex ++ rest)) := by
    have : pre.length + anmSpritesStart e = pre.length + 64 + 4 * e.sprites.length + 8 * e.scripts.length + (anmPathBytes e).length + (anmPath2Bytes e).length := by
      simp only [anmSpritesStart, anmBase]; omega
    rw [this]; exact hs5
  have hscrpos : seek (pre ++ (b ++ rest)) (pre.length + anmScriptsStart e) = blobs.flatten ++ (tex ++ rest) := by
    have : pre.length + anmScriptsStart e = pre.length + 64 + 4 * e.sprites.length + 8 * e.scripts.length + (anmPathBytes e).length + (anmPath2Bytes e).length
        + 20 * e.sprites.length := by rw [hss]; omega
    rw [this]; exact hs6
  have htexpos : seek (pre ++ (b ++ rest)) (pre.length + (anmScriptsStart e + blobs.flatten.length)) = tex ++ rest := by
    have : pre.length + (anmScriptsStart e + blobs.flatten.length) = pre.length + 64 + 4 * e.sprites.length + 8 * e.scripts.length + (anmPathBytes e).length + (anmPath2Bytes e).length
        + 20 * e.sprites.length + blobs.flatten.length := by rw [hss]; omega
    rw [this]; exact hs7
  obtain ⟨g, hg, hg1, hg2, hg3, hg4, hg5, hg6, hg7, hg8⟩ := readAnmHeader_entry fmt e _ _
    (u32s (anmSpriteOffsets e) ++ (anmScriptTable e.scripts (offsetsFrom (anmScriptsStart e) (blobs.map List.length)) ++
          (anmPathBytes e ++ (anmPath2Bytes e ++ ((writeSprites auto e.sprites).1 ++ (blobs.flatten ++ (tex ++ rest)))))))
    hok hspecs hp2 hnsl hnscl
  -- the two tables
  have hsolt : ∀ x ∈ anmSpriteOffsets e, x < 2 ^ 32 := by
    intro x hx
    have := offsetsFrom_const_lt e.sprites (anmSpritesStart e) x hx
    have h2 : anmScriptsStart e = anmSpritesStart e + 20 * e.sprites.length := rfl
    omega
  have hrdS := rdU32s_u32s (anmSpriteOffsets e) (anmScriptTable e.scripts (offsetsFrom (anmScriptsStart e) (blobs.map List.length)) ++
          (anmPathBytes e ++ (anmPath2Bytes e ++ ((writeSprites auto e.sprites).1 ++ (blobs.flatten ++ (tex ++ rest)))))) hsolt
  rw [anmSpriteOffsets_length] at hrdS
  have hofflt : ∀ o ∈ offsetsFrom (anmScriptsStart e) (blobs.map List.length), o < 2 ^ 32 := by
    intro o ho
    have := offsetsFrom_le _ _ o ho
    omega
  have hrdT := rdScriptTableAux_write e.scripts _ [] (anmPathBytes e ++ (anmPath2Bytes e ++ ((writeSprites auto e.sprites).1 ++ (blobs.flatten ++ (tex ++ rest)))))
    hoffl hofflt
  simp only [List.reverse_nil, List.nil_append] at hrdT
  -- the paths
  have hrp : readAnmStr decOk (anmPathBytes e ++ (anmPath2Bytes e ++ ((writeSprites auto e.sprites).1 ++ (blobs.flatten ++ (tex ++ rest))))) = .ok e.path :=
    readAnmStr_write decOk e.path (anmPath2Bytes e ++ ((writeSprites auto e.sprites).1 ++ (blobs.flatten ++ (tex ++ rest)))) hpath.1 hpath.2
  have hrp2 : readAnmPath2 decOk (pre ++ (b ++ rest)) pre.length g.secNameOffset = .ok e.path2 := by
    rw [hg4]
    unfold readAnmPath2
    cases hq : e.path2 with
    | none => simp only [if_true]
    | some p =>
      rw [hq] at hpath2
      simp only [Bool.and_eq_true, textOk, Bool.not_eq_true'] at hpath2
      have hpath2 : True ∧ (List.contains p 0 = false ∧ decOk p = true) := ⟨trivial, hpath2⟩
      have hne : anmBase e + (anmPathBytes e).length ≠ 0 := by omega
      simp only [hne, if_false, hsecpos]
      have : anmPath2Bytes e = Abi.nullPad 16 p := by unfold anmPath2Bytes; rw [hq]
      rw [this, readAnmStr_write decOk p _ hpath2.2.1 hpath2.2.2]
  -- the sprites
  have hrspr : readSpritesAux (pre ++ (b ++ rest)) pre.length (anmSpriteOffsets e) [] = .ok (explicitSprites auto e.sprites) := by
    have := readSpritesAux_write (pre ++ (b ++ rest)) pre.length e.sprites auto (anmSpritesStart e) [] (blobs.flatten ++ (tex ++ rest)) hsprpos
      (by simpa using hnd')
    simp only [List.nil_append] at this
    exact this
  -- the scripts
  have hthtx0 : (if e.texData.isSome then anmScriptsStart e + blobs.flatten.length else 0) = 0 ↔ e.texData.isSome = false := by
    cases e.texData.isSome
    · simp
    · simp only [if_true, Bool.true_eq_false, iff_false]; omega
  have hrscr : readAnmScriptsAux fmt.instr (pre ++ (b ++ rest)) pre.length
      (anmAllOffsets g (anmSpriteOffsets e) (List.zip (e.scripts.map (·.2.id.toNat)) (offsetsFrom (anmScriptsStart e) (blobs.map List.length))))
      (List.zip (e.scripts.map (·.2.id.toNat)) (offsetsFrom (anmScriptsStart e) (blobs.map List.length))) idx [] = .ok (renumberScripts idx e.scripts) := by
    by_cases hsc0 : e.scripts = []
    · rw [hsc0]; simp [readAnmScriptsAux, renumberScripts]
    · have := readAnmScriptsAux_write fmt.instr hinstr (pre ++ (b ++ rest)) pre.length
        (anmAllOffsets g (anmSpriteOffsets e) (List.zip (e.scripts.map (·.2.id.toNat)) (offsetsFrom (anmScriptsStart e) (blobs.map List.length))))
        e.texData.isSome e.scripts blobs (anmScriptsStart e) idx [] (tex ++ rest) hblobs hst hscrpos ?_ ?_ hidx
      · simpa using this
      · -- `all_offsets`
        have hsnd : (List.zip (e.scripts.map (·.2.id.toNat)) (offsetsFrom (anmScriptsStart e) (blobs.map List.length))).map (·.2)
            = offsetsFrom (anmScriptsStart e) (blobs.map List.length) := List.map_snd_zip (by simp only [List.length_map]; omega)
        have hssb : anmBase e < anmScriptsStart e := by rw [hss]; simp only [anmBase]; omega
        have hsprlt : ∀ y ∈ anmSpriteOffsets e, y < anmScriptsStart e := by
          intro y hy
          have := offsetsFrom_const_lt e.sprites (anmSpritesStart e) y hy
          have h2 : anmScriptsStart e = anmSpritesStart e + 20 * e.sprites.length := rfl
          omega
        have hne : anmScriptsStart e + blobs.flatten.length ≠ 0 := by omega
        simp only [anmAllOffsets, hg3, hg4, hg5, hsnd]
        cases hq2 : e.path2 with
        | none =>
          cases hqt : e.texData.isSome with
          | false =>
            simp only [Bool.false_eq_true, if_false, if_true, List.append_nil]
            refine ⟨?_, ?_, ?_⟩
            · intro y hy
              simp only [List.mem_append, List.mem_cons, List.not_mem_nil, or_false] at hy
              rcases hy with (rfl | hy) | hy
              · exact .inl hssb
              · exact .inl (hsprlt y hy)
              · exact .inr (.inl hy)
            · intro o ho; simp only [List.mem_append]; exact .inr ho
            · intro h; cases h
          | true =>
            simp only [if_true, hne, if_false, List.append_nil]
            refine ⟨?_, ?_, ?_⟩
            · intro y hy
              simp only [List.mem_append, List.mem_cons, List.not_mem_nil, or_false] at hy
              rcases hy with ((rfl | rfl) | hy) | hy
              · exact .inl hssb
              · exact .inr (.inr ⟨rfl, by rw [hsum]⟩)
              · exact .inl (hsprlt y hy)
              · exact .inr (.inl hy)
            · intro o ho; simp only [List.mem_append]; exact .inr ho
            · intro _
              simp only [List.mem_append, List.mem_cons, List.not_mem_nil, or_false]
              exact .inl (.inl (.inr (by rw [hsum])))
        | some p =>
          have hp2l := anmPath2Bytes_length e p hq2
          have hsecne : anmBase e + (anmPathBytes e).length ≠ 0 := by omega
          have hseclt : anmBase e + (anmPathBytes e).length < anmScriptsStart e := by rw [hss]; simp only [anmBase]; omega
          cases hqt : e.texData.isSome with
          | false =>
            simp only [Bool.false_eq_true, if_false, if_true, hsecne, List.append_nil]
            refine ⟨?_, ?_, ?_⟩
            · intro y hy
              simp only [List.mem_append, List.mem_cons, List.not_mem_nil, or_false] at hy
              rcases hy with ((rfl | rfl) | hy) | hy
              · exact .inl hssb
              · exact .inl hseclt
              · exact .inl (hsprlt y hy)
              · exact .inr (.inl hy)
            · intro o ho; simp only [List.mem_append]; exact .inr ho
            · intro h; cases h
          | true =>
            simp only [if_true, hne, if_false, hsecne]
            refine ⟨?_, ?_, ?_⟩
            · intro y hy
              simp only [List.mem_append, List.mem_cons, List.not_mem_nil, or_false] at hy
              rcases hy with (((rfl | rfl) | rfl) | hy) | hy
              · exact .inl hssb
              · exact .inr (.inr ⟨rfl, by rw [hsum]⟩)
              · exact .inl hseclt
              · exact .inl (hsprlt y hy)
              · exact .inr (.inl hy)
            · intro o ho; simp only [List.mem_append]; exact .inr ho
            · intro _
              simp only [List.mem_append, List.mem_cons, List.not_mem_nil, or_false]
              exact .inl (.inl (.inl (.inr (by rw [hsum]))))
      · -- version 0: the last script of the entry
        intro hnone hmsg
        rcases htexlen with ⟨_, _, rfl⟩ | ⟨d, m, hd, _⟩
        · simp only [List.nil_append]
          simp only [Bool.or_eq_true, bne_iff_ne, ne_eq, List.isEmpty_iff] at hv0
          rcases hv0 with ((h | h) | h) | h
          · exact hrest h
          · exact absurd hmsg h
          · exact absurd h hsc0
          · rw [hnone] at h; cases h
        · rw [hd] at hnone; cases hnone
  -- the texture
  have hcons : ((decide (g.hasData = 0) || e.path.head? == some 0x40) != decide (g.thtxOffset = 0)) = false := by
    rw [hg5, hg6]
    rcases htexlen with ⟨hd, _, _⟩ | ⟨d, m, hd, _, _, _, _, _, hat⟩
    · rw [hd]; simp
    · rw [hd]
      have : (e.path.head? == some 0x40) = false := by
        cases hq : (e.path.head? == some 0x40) with
        | false => rfl
        | true => simp only [beq_iff_eq] at hq; exact absurd hq hat
      rw [this]
      have hne : anmScriptsStart e + blobs.flatten.length ≠ 0 := by omega
      have hd0 : decide (anmScriptsStart e + blobs.flatten.length = 0) = false := decide_eq_false hne
      have hd1 : decide ((1 : Nat) = 0) = false := by decide
      simp only [Option.isSome_some, if_true, hd0, hd1]
      rfl
  have hrtex : readAnmTexture wi (pre ++ (b ++ rest)) pre.length g.thtxOffset = .ok (e.texMeta, if wi then e.texData else none) := by
    rw [hg5]
    unfold readAnmTexture
    rcases htexlen with ⟨hd, hm, _⟩ | ⟨d, m, hd, hm, rfl, hf1, hf2, hf3, _⟩
    · rw [hd, hm]; simp
    · rw [hd, hm]
      have hne : anmScriptsStart e + blobs.flatten.length ≠ 0 := by omega
      have hdl : d.length < 2 ^ 32 := by have := writeTexture_length m d; omega
      simp only [Option.isSome_some, if_true, hne, if_false, htexpos, readTexture_write wi m d rest hf1 hf2 hf3 hdl]
  -- assemble
  unfold readAnmEntry
  simp only [hs0, hg, hg1, hg2, hrdS, hrdT, hg3, hname, hrp, hrp2, hrspr, hrscr, hcons, hrtex, hg7, hg8, Bool.false_eq_true, if_false]
  rw [hblen]
  rfl


/-! ### the entry chain -/

theorem writeAnmEntry_length {fmt : AnmFmt} {auto auto' : UInt32} {e : AnmEntry} {last : Bool} {b : Bytes}
    (hw : writeAnmEntry fmt auto e last = .ok (b, auto')) : 64 + 8 * e.scripts.length + 16 ≤ b.length := by
  obtain ⟨blobs, tex, hblobs, _, _, _, _, hb⟩ := writeAnmEntry_layout hw
  have hnblobs : blobs.length = e.scripts.length := by have := hblobs.length_eq; simp only [List.length_map] at this; exact this.symm
  have hoffl : e.scripts.length = (offsetsFrom (anmScriptsStart e) (blobs.map List.length)).length := by
    rw [offsetsFrom_length, List.length_map, hnblobs]
  have hST := anmScriptTable_length e.scripts _ hoffl
  have hH := anmHeaderBytes_length fmt (anmHeaderOf fmt e (if e.texData.isSome then anmScriptsStart e + blobs.flatten.length else 0)
            (if last then 0 else anmScriptsStart e + blobs.flatten.length + tex.length))
  have hP1 := anmPathBytes_length e
  rw [hb]
  simp only [List.length_append, hH, hST]
  omega

theorem writeAnmEntries_cons {fmt : AnmFmt} {auto : UInt32} {e : AnmEntry} {es : List AnmEntry} {bs : Bytes}
    (h : writeAnmEntries fmt auto (e :: es) = .ok bs) :
    ∃ b bs', writeAnmEntry fmt auto e es.isEmpty = .ok (b, (writeSprites auto e.sprites).2) ∧
      writeAnmEntries fmt (writeSprites auto e.sprites).2 es = .ok bs' ∧ bs = b ++ bs' := by
  rw [writeAnmEntries] at h
  split at h
  · cases h
  · cases h
  · rename_i b auto' hb
    obtain ⟨_, _, _, _, _, _, ha, _⟩ := writeAnmEntry_layout hb
    subst ha
    split at h
    · rename_i bs' hbs'
      cases h
      exact ⟨b, bs', hb, hbs', rfl⟩
    · cases h
    · cases h

/-- the entries of a written file as the entry loop collects them (before `strip_unnecessary_sprite_ids`) -/
def rawEntries (wi : Bool) : UInt32 → Nat → List AnmEntry → List AnmEntry
  | _, _, [] => []
  | auto, idx, e :: es => rawEntry wi auto idx e :: rawEntries wi (writeSprites auto e.sprites).2 (idx + e.scripts.length) es

theorem renumberScripts_length : ∀ (l : List (Nat × AnmScript)) (idx : Nat), (renumberScripts idx l).length = l.length := by
  intro l
  induction l with
  | nil => intro _; rfl
  | cons x xs ih => intro idx; obtain ⟨n, s⟩ := x; simp only [renumberScripts, List.length_cons, ih]

/-- the entry loop of `read_anm` on a written file -/
theorem readAnmLoop_write (decOk : Bytes → Bool) (fmt : AnmFmt) (wi : Bool) (hv : fmt.version < 4294967296) :
    ∀ (es : List AnmEntry) (auto : UInt32) (pre bs : Bytes) (fuel : Nat) (seen : List Nat) (idx : Nat) (acc : List AnmEntry),
      es ≠ [] → writeAnmEntries fmt auto es = .ok bs → wfEntries decOk fmt auto es = true →
      pre.length + bs.length < 2 ^ 32 → 8 * idx ≤ pre.length → bs.length < fuel → (∀ s ∈ seen, s < pre.length) →
      readAnmLoop decOk fmt wi (pre ++ bs) fuel seen pre.length idx acc = .ok (acc.reverse ++ rawEntries wi auto idx es) := by
  intro es
  induction es with
  | nil => intro _ _ _ _ _ _ _ h; exact absurd rfl h
  | cons e es ih =>
    intro auto pre bs fuel seen idx acc _ hw hwf hlen hidx hfuel hseen
    obtain ⟨b, bs', hb, hbs', rfl⟩ := writeAnmEntries_cons hw
    simp only [wfEntries, Bool.and_eq_true] at hwf
    have hbl := writeAnmEntry_length hb
    simp only [List.length_append] at hlen hfuel
    cases fuel with
    | zero => omega
    | succ n =>
      have hnot : seen.contains pre.length = false := by
        cases hc : seen.contains pre.length with
        | false => rfl
        | true =>
          simp only [List.contains_eq_mem, decide_eq_true_eq] at hc
          have := hseen _ hc
          omega
      have hrest : es.isEmpty = true → bs' = [] := by
        intro h
        simp only [List.isEmpty_iff] at h
        subst h
        rw [writeAnmEntries] at hbs'
        cases hbs'
        rfl
      have hread := readAnmEntry_write decOk fmt wi pre bs' e auto _ es.isEmpty idx b hv hb hwf.1 (by omega) (by omega) hrest
      rw [readAnmLoop, hnot]
      simp only [Bool.false_eq_true, if_false, hread]
      cases es with
      | nil =>
        simp only [List.isEmpty_nil, if_true, rawEntries, List.reverse_cons]
      | cons e2 es2 =>
        have hne : b.length ≠ 0 := by omega
        simp only [List.isEmpty_cons, Bool.false_eq_true, if_false, hne]
        have hih := ih (writeSprites auto e.sprites).2 (pre ++ b) bs' n (pre.length :: seen) (idx + e.scripts.length) (rawEntry wi auto idx e :: acc)
          (by simp) hbs' hwf.2 (by simp only [List.length_append]; omega) (by simp only [List.length_append]; omega) (by omega)
          (by
            intro s hs
            simp only [List.length_append]
            rcases List.mem_cons.1 hs with rfl | hs
            · omega
            · have := hseen s hs; omega)
        simp only [List.length_append, List.append_assoc] at hih
        have hsl : (rawEntry wi auto idx e).scripts.length = e.scripts.length := by simp only [rawEntry, renumberScripts_length]
        rw [hsl, hih]
        simp only [rawEntries, List.reverse_cons, List.append_assoc, List.singleton_append]

/-! ### the normal form -/

/-- sprites after a round trip: named after the id the writer's numbering gives them; an explicit id that is the
automatic one anyway becomes implicit again -/
def normSprites : UInt32 → List (Nat × Sprite) → List (Nat × Sprite)
  | _, [] => []
  | auto, (_, s) :: r =>
    ((s.id.getD auto).toNat, { s with id := if s.id.getD auto = auto then none else some (s.id.getD auto) }) :: normSprites (s.id.getD auto + 1) r

def normEntries (wi : Bool) : UInt32 → Nat → List AnmEntry → List AnmEntry
  | _, _, [] => []
  | auto, idx, e :: es =>
    { e with sprites := normSprites auto e.sprites, scripts := renumberScripts idx e.scripts, texData := if wi then e.texData else none }
      :: normEntries wi (writeSprites auto e.sprites).2 (idx + e.scripts.length) es

/-- **the stated normalisation of `anm_read_write`**: sprites and scripts renamed the way the reader names them
(sprite: its id, script: its index in the file), redundant explicit sprite ids dropped, image data dropped if the reader
was told to skip it; everything else as it was -/
def normAnm (wi : Bool) (f : AnmFile) : AnmFile := { entries := normEntries wi 0 0 f.entries }

theorem stripSprites_explicit : ∀ (l : List (Nat × Sprite)) (auto : UInt32),
    stripSprites auto (explicitSprites auto l) = (normSprites auto l, (writeSprites auto l).2) := by
  intro l
  induction l with
  | nil => intro _; rfl
  | cons x xs ih =>
    intro auto
    obtain ⟨n, s⟩ := x
    simp only [explicitSprites, stripSprites, Option.getD_some, ih, normSprites, writeSprites_cons]
    split <;> rfl

theorem stripEntries_raw (wi : Bool) : ∀ (es : List AnmEntry) (auto : UInt32) (idx : Nat),
    stripEntries auto (rawEntries wi auto idx es) = normEntries wi auto idx es := by
  intro es
  induction es with
  | nil => intro _ _; rfl
  | cons e es ih =>
    intro auto idx
    simp only [rawEntries, stripEntries, rawEntry, stripSprites_explicit, ih, normEntries]

/-- **ANM round trip**: a well-formed file (`wfAnm`) that `write_anm` accepts and that is smaller than 4 GiB is read
back by `read_anm`, with or without image data, as itself up to `normAnm`.  For every version number below 2^32 (the games
use 0, 2, 3, 4, 7, 8). -/
theorem anm_read_write (decOk : Bytes → Bool) (fmt : AnmFmt) (wi : Bool) (f : AnmFile) (bs : Bytes)
    (hv : fmt.version < 4294967296) (hw : writeAnm fmt f = .ok bs) (hwf : wfAnm decOk fmt f = true) (hlen : bs.length < 2 ^ 32) :
    readAnm decOk fmt wi bs = .ok (normAnm wi f) := by
  unfold wfAnm at hwf
  simp only [Bool.and_eq_true, Bool.not_eq_true', List.isEmpty_eq_false_iff] at hwf
  have := readAnmLoop_write decOk fmt wi hv f.entries 0 [] bs (bs.length + 1) [] 0 [] hwf.1 hw hwf.2 (by simpa using hlen) (by simp)
    (Nat.lt_succ_self _) (by intro s hs; cases hs)
  simp only [List.nil_append, List.length_nil, List.reverse_nil] at this
  unfold readAnm
  rw [this]
  simp only [stripEntries_raw, normAnm]



/-! ## when the writer fails -/

/-- image data whose metadata passes `fit16` of `write_texture` (no image data: nothing to check) -/
def texFits (e : AnmEntry) : Bool :=
  match e.texData, e.texMeta with
  | some _, some m => texMetaFits m
  | _, _ => true

/-- everything `write_entry` checks, in the order of the code: nothing the header layout of the version has no room for
(`no_field`, db48965), the 16-bit fields of the TH11+ header layout (`fit16` of `write_header`; the 32-bit layout holds every
`u32`), the instruction headers, the 16-bit THTX fields (`fit16` of `write_texture`, db48965) -/
def AnmEntryFits (fmt : AnmFmt) (e : AnmEntry) : Prop :=
  anmLayoutHolds fmt e = true ∧ anmHeaderFits fmt (anmHeaderOf fmt e 0 0) = true ∧
  (∀ s ∈ e.scripts, ∀ i ∈ s.2.instrs, fits fmt.instr i = true) ∧ texFits e = true

def AnmFits (fmt : AnmFmt) (f : AnmFile) : Prop := ∀ e ∈ f.entries, AnmEntryFits fmt e

/-- what `anmLayoutHolds` says, spelled out -/
theorem anmLayoutHolds_iff (fmt : AnmFmt) (e : AnmEntry) :
    anmLayoutHolds fmt e = true ↔
      ((fmt.oldHeader = true ∧ e.specs.offsetX = 0 ∧ e.specs.offsetY = 0 ∧ e.specs.lowResScale = false) ∨
       (fmt.oldHeader = false ∧ e.specs.colorkey = 0 ∧ e.path2 = none)) := by
  unfold anmLayoutHolds
  cases ho : fmt.oldHeader <;>
    simp [and_assoc]

/-- what `anmHeaderFits` says, spelled out (`len() as u32` comes first: a count is compared modulo 2^32) -/
theorem anmHeaderFits_iff (fmt : AnmFmt) (e : AnmEntry) :
    anmHeaderFits fmt (anmHeaderOf fmt e 0 0) = true ↔
      (fmt.oldHeader = true ∨ (e.sprites.length % 4294967296 < 65536 ∧ e.scripts.length % 4294967296 < 65536 ∧
        e.specs.rtWidth.toNat < 65536 ∧ e.specs.rtHeight.toNat < 65536 ∧ e.specs.rtFormat.toNat < 65536 ∧
        e.specs.offsetX.toNat < 65536 ∧ e.specs.offsetY.toNat < 65536)) := by
  simp only [anmHeaderFits, Bool.or_eq_true, Bool.and_eq_true, decide_eq_true_eq]
  simp only [anmHeaderOf, and_assoc]

/-- what `texFits` says, spelled out -/
theorem texFits_iff (e : AnmEntry) :
    texFits e = true ↔ ∀ d m, e.texData = some d → e.texMeta = some m →
      m.format.toNat < 65536 ∧ m.width.toNat < 65536 ∧ m.height.toNat < 65536 := by
  unfold texFits
  cases hd : e.texData with
  | none => simp
  | some d =>
    cases hm : e.texMeta with
    | none => simp
    | some m => simp [texMetaFits, and_assoc]

theorem writeAnmTexture_decides (e : AnmEntry) (hm : e.texData.isSome = true → e.texMeta.isSome = true) :
    Decides (writeAnmTexture e) (texFits e = true) := by
  unfold writeAnmTexture texFits
  cases hd : e.texData with
  | none => exact ⟨fun _ => ⟨_, rfl⟩, fun h => absurd rfl h⟩
  | some d =>
    cases hq : e.texMeta with
    | none => rw [hd, hq] at hm; exact absurd (hm rfl) (by simp)
    | some m =>
      show Decides (if texMetaFits m = true then Outcome.ok (writeTexture m d) else .err anmImageTooLarge) (texMetaFits m = true)
      cases hf : texMetaFits m with
      | true => exact ⟨fun _ => ⟨_, rfl⟩, fun h => absurd rfl h⟩
      | false => exact ⟨fun h => (by cases h), fun _ => ⟨anmImageTooLarge, rfl⟩⟩

theorem writeAnmEntry_decides (fmt : AnmFmt) (auto : UInt32) (e : AnmEntry) (last : Bool)
    (hm : e.texData.isSome = true → e.texMeta.isSome = true) :
    Decides (writeAnmEntry fmt auto e last) (AnmEntryFits fmt e) := by
  unfold writeAnmEntry AnmEntryFits
  cases hl : anmLayoutHolds fmt e with
  | false =>
    refine ⟨fun hg => ?_, fun _ => ⟨anmNoField, rfl⟩⟩
    have := hg.1
    cases this
  | true =>
  cases hf : anmHeaderFits fmt (anmHeaderOf fmt e 0 0) with
  | false =>
    refine ⟨fun hg => ?_, fun _ => ⟨anmTooLarge, rfl⟩⟩
    have := hg.2.1
    cases this
  | true =>
    simp only [Bool.not_true, Bool.false_eq_true, ↓reduceIte, true_and]
    have hS := writeScriptList_decides fmt.instr (e.scripts.map (·.2.instrs)) (anmScriptsStart e)
    have hT := writeAnmTexture_decides e hm
    have hconv : (∀ s ∈ e.scripts.map (·.2.instrs), ∀ i ∈ s, fits fmt.instr i = true) ↔
        ∀ s ∈ e.scripts, ∀ i ∈ s.2.instrs, fits fmt.instr i = true := by
      constructor
      · intro h s hs i hi; exact h _ (List.mem_map.2 ⟨s, hs, rfl⟩) i hi
      · intro h t ht i hi
        obtain ⟨s, hs, rfl⟩ := List.mem_map.1 ht
        exact h s hs i hi
    by_cases h1 : ∀ s ∈ e.scripts, ∀ i ∈ s.2.instrs, fits fmt.instr i = true
    · obtain ⟨⟨sb, so⟩, hp⟩ := hS.1 (hconv.2 h1)
      simp only [hp]
      by_cases h2 : texFits e = true
      · obtain ⟨tex, ht⟩ := hT.1 h2
        simp only [ht]
        exact ⟨fun _ => ⟨_, rfl⟩, fun hn => absurd ⟨h1, h2⟩ hn⟩
      · obtain ⟨c, ht⟩ := hT.2 h2
        simp only [ht]
        exact ⟨fun hg => absurd hg.2 h2, fun _ => ⟨_, rfl⟩⟩
    · obtain ⟨c, hp⟩ := hS.2 (fun h => h1 (hconv.1 h))
      simp only [hp]
      exact ⟨fun hg => absurd hg.1 h1, fun _ => ⟨_, rfl⟩⟩

theorem writeAnmEntries_decides (fmt : AnmFmt) : ∀ (es : List AnmEntry) (auto : UInt32),
    (∀ e ∈ es, e.texData.isSome = true → e.texMeta.isSome = true) →
    Decides (writeAnmEntries fmt auto es) (∀ e ∈ es, AnmEntryFits fmt e) := by
  intro es
  induction es with
  | nil => intro _ _; exact ⟨fun _ => ⟨_, rfl⟩, fun h => absurd (fun e he => by cases he) h⟩
  | cons e es ih =>
    intro auto hm
    rw [writeAnmEntries]
    have hE := writeAnmEntry_decides fmt auto e es.isEmpty (hm e (List.mem_cons_self ..))
    by_cases h1 : AnmEntryFits fmt e
    · obtain ⟨⟨b, auto'⟩, hb⟩ := hE.1 h1
      simp only [hb]
      have ih' := ih auto' (fun x hx => hm x (List.mem_cons_of_mem _ hx))
      constructor
      · intro hall
        obtain ⟨bs, hbs⟩ := ih'.1 (fun x hx => hall x (List.mem_cons_of_mem _ hx))
        rw [hbs]; exact ⟨_, rfl⟩
      · intro hnot
        have : ¬ ∀ x ∈ es, AnmEntryFits fmt x := by
          intro hall
          apply hnot
          intro x hx
          rcases List.mem_cons.1 hx with rfl | hx
          · exact h1
          · exact hall x hx
        obtain ⟨c, hc⟩ := ih'.2 this
        rw [hc]; exact ⟨_, rfl⟩
    · obtain ⟨c, hc⟩ := hE.2 h1
      simp only [hc]
      exact ⟨fun hall => absurd (hall e (List.mem_cons_self ..)) h1, fun _ => ⟨_, rfl⟩⟩

/-- **ANM: the writer fails exactly when an entry asks for a field its header layout has no room for (offset_x, offset_y,
low_res_scale before TH11; colorkey, path_2 from TH11), a 16-bit header field of the TH11+ layout (a count, rt_width, rt_height,
rt_format, offset_x, offset_y), an instruction header, or the format / width / height of an embedded image does not fit;
otherwise it succeeds; it never panics** as long as image data comes with its metadata (`Entry`'s own invariant:
`expect("always Some if texture_data is")`).  The one thing it still does not check: `anm_image_under_at_path_unreadable`. -/
theorem anm_write_err_iff (fmt : AnmFmt) (f : AnmFile) (hm : ∀ e ∈ f.entries, e.texData.isSome = true → e.texMeta.isSome = true) :
    Decides (writeAnm fmt f) (AnmFits fmt f) :=
  writeAnmEntries_decides fmt f.entries 0 hm

/-- the panic arm is real in the model: image data without metadata (unreachable from `finalize_entry` / `read_entry`) -/
theorem anm_write_panics_without_metadata :
    writeAnm anmV8 ⟨[{ specs := { rtWidth := 1, rtHeight := 1, rtFormat := 1 }, path := [0x61], texData := some [1] }]⟩
      = .panic "src/formats/anm/read_write.rs: always Some if texture_data is" := by decide

/-! ## what the writer diagnoses since db48965, and what it still does not -/

/-- write, then read with image data and a decoder that accepts everything -/
def anmRoundTrip (fmt : AnmFmt) (f : AnmFile) : Outcome AnmFile :=
  match writeAnm fmt f with
  | .ok bs => readAnm (fun _ => true) fmt true bs
  | .err c => .err c
  | .panic p => .panic p

def anmWrites (fmt : AnmFmt) (f : AnmFile) : Bool := (writeAnm fmt f).isOk

def witnessSpecs : AnmSpecs := { rtWidth := 16, rtHeight := 16, rtFormat := 1 }
def witnessScript : AnmScript := { id := 0, instrs := [{ time := 0, opcode := 1, blob := [1, 0, 0, 0] }] }

/-- an entry whose image is `w` pixels wide -/
def wideTexture (w : UInt32) : AnmFile := ⟨[{ specs := witnessSpecs, path := [0x61], texMeta := some ⟨7, w, 1⟩, texData := some [1, 2, 3, 4] }]⟩

set_option maxRecDepth 16000 in
/-- **THTX dimensions beyond 16 bits are rejected** (formerly `anm_thtx_dimension_narrowed`: `metadata.width as u16` wrote
70000 as 4464; repaired by db48965): the former witness now gives the diagnostic, and the largest width that fits is stored
as it is. -/
theorem anm_thtx_dimension_rejected :
    writeAnm anmV8 (wideTexture 70000) = .err anmImageTooLarge ∧ writeAnm anmV2 (wideTexture 65536) = .err anmImageTooLarge ∧
      (match anmRoundTrip anmV8 (wideTexture 65535) with
       | .ok f => f.entries.map (·.texMeta) == [some ⟨7, 65535, 1⟩]
       | _ => false) = true := by decide

/-- an image under a path that starts with `@` -/
def atPathImage : AnmFile := ⟨[{ specs := witnessSpecs, path := [0x40, 0x52], texMeta := some ⟨7, 2, 2⟩, texData := some [1, 2, 3, 4] }]⟩

set_option maxRecDepth 16000 in
/-- **an image under an `@` path is written into a file that `read_anm` rejects** ("inconsistency between thtx_offset and
has_data/name"; still open).  Replayed: `path: "@R", has_data: "dummy"` compiles with exit status 0; `truanm decompile` of the
result fails. -/
theorem anm_image_under_at_path_unreadable :
    anmWrites anmV8 atPathImage = true ∧ anmRoundTrip anmV8 atPathImage = .err anmInconsistent := by decide

def withPath2 : AnmFile := ⟨[{ specs := witnessSpecs, path := [0x61], path2 := some [0x62] }]⟩

set_option maxRecDepth 16000 in
/-- **a secondary path is rejected by the TH11+ layout** (formerly `anm_path2_dropped_new_header`: the string was written
and no header field pointed at it; repaired by db48965) and stored by the TH06-TH10 layout -/
theorem anm_path2_rejected_new_header :
    writeAnm anmV8 withPath2 = .err anmNoField ∧ writeAnm anmV7 withPath2 = .err anmNoField ∧
      (match anmRoundTrip anmV4 withPath2 with | .ok f => f.entries.map (·.path2) == [some [0x62]] | _ => false) = true := by decide

def withOffsets : AnmFile := ⟨[{ specs := { witnessSpecs with offsetX := 5, offsetY := 6, lowResScale := true }, path := [0x61] }]⟩
def withOffsetY : AnmFile := ⟨[{ specs := { witnessSpecs with offsetY := 6 }, path := [0x61] }]⟩
def withLowRes : AnmFile := ⟨[{ specs := { witnessSpecs with lowResScale := true }, path := [0x61] }]⟩
def withColorkey : AnmFile := ⟨[{ specs := { witnessSpecs with colorkey := 7 }, path := [0x61] }]⟩

set_option maxRecDepth 16000 in
/-- **`offset_x`, `offset_y`, `low_res_scale` are rejected by the TH06-TH10 layout, `colorkey` by the TH11+ layout**
(formerly `anm_specs_dropped_by_layout`; repaired by db48965), each on its own, and stored by the other layout -/
theorem anm_specs_rejected_by_layout :
    writeAnm anmV4 withOffsets = .err anmNoField ∧ writeAnm anmV0 withOffsetY = .err anmNoField ∧
      writeAnm anmV3 withLowRes = .err anmNoField ∧ writeAnm anmV8 withColorkey = .err anmNoField ∧
      (match anmRoundTrip anmV4 withColorkey with
       | .ok f => f.entries.map (fun e => e.specs.colorkey) == [7]
       | _ => false) = true ∧
      (match anmRoundTrip anmV8 withOffsets with
       | .ok f => f.entries.map (fun e => (e.specs.offsetX, e.specs.offsetY, e.specs.lowResScale)) == [(5, 6, true)]
       | _ => false) = true := by decide

/-- the order of the checks: a field without room in the layout is reported before a 16-bit misfit of the header, and
that before an image that is too large -/
theorem anm_write_check_order :
    writeAnm anmV8 ⟨[{ specs := { witnessSpecs with colorkey := 1, rtWidth := 70000 }, path := [0x61] }]⟩ = .err anmNoField ∧
    writeAnm anmV8 ⟨[{ specs := { witnessSpecs with rtWidth := 70000 }, path := [0x61], texMeta := some ⟨7, 70000, 1⟩, texData := some [1] }]⟩
      = .err anmTooLarge := by decide

/-- two EoSD entries with one script each and no image -/
def v0TwoEntries : AnmFile :=
  ⟨[{ specs := witnessSpecs, path := [0x61], scripts := [(0, witnessScript)] },
    { specs := witnessSpecs, path := [0x62], scripts := [(1, witnessScript)] }]⟩

set_option maxRecDepth 16000 in
/-- **the version-0 ambiguity** (known finding `anm-v0-multi-entry`): the last script of an entry has no end offset unless an
image follows, its end marker is four zero bytes that may as well be an instruction, and the reader runs on into the next
entry: here the first script comes back with 5 instructions instead of 1 (other files fail with "unexpected EOF").  With an
image in the first entry the same file round-trips (`anm_read_write`). -/
theorem anm_v0_multi_entry_ambiguity :
    anmWrites anmV0 v0TwoEntries = true ∧ anmRoundTrip anmV0 v0TwoEntries ≠ .ok (normAnm true v0TwoEntries) ∧
      wfAnm (fun _ => true) anmV0 v0TwoEntries = false := by decide

/-- what an entry asks for can be stored by the container of the version -/
def Representable (fmt : AnmFmt) (e : AnmEntry) : Prop :=
  specsOk fmt e.specs = true ∧ (e.path2 = none ∨ fmt.oldHeader = true) ∧
  ∀ m, e.texMeta = some m → e.texData.isSome = true → m.format.toNat < 65536 ∧ m.width.toNat < 65536 ∧ m.height.toNat < 65536

/-- the entry's image is one the reader accepts (not under an `@` path) -/
def ImageReadable (e : AnmEntry) : Prop := e.texData.isSome = true → e.path.head? ≠ some 0x40

theorem writeAnmEntries_mem (fmt : AnmFmt) : ∀ (es : List AnmEntry) (auto : UInt32) (bs : Bytes),
    writeAnmEntries fmt auto es = .ok bs → ∀ e ∈ es, ∃ a last b a', writeAnmEntry fmt a e last = .ok (b, a') := by
  intro es
  induction es with
  | nil => intro _ _ _ e he; cases he
  | cons x xs ih =>
    intro auto bs h e he
    obtain ⟨b, bs', hb, hbs', _⟩ := writeAnmEntries_cons h
    rcases List.mem_cons.1 he with rfl | he
    · exact ⟨_, _, _, _, hb⟩
    · exact ih _ _ hbs' e he

theorem writeAnmEntry_representable {fmt : AnmFmt} {a a' : UInt32} {e : AnmEntry} {last : Bool} {b : Bytes}
    (hw : writeAnmEntry fmt a e last = .ok (b, a')) : Representable fmt e := by
  obtain ⟨_, tex, _, htex, hlay, _, _, _⟩ := writeAnmEntry_layout hw
  have hl := (anmLayoutHolds_iff fmt e).1 hlay
  refine ⟨?_, ?_, ?_⟩
  · unfold specsOk
    rcases hl with ⟨ho, h1, h2, h3⟩ | ⟨ho, h1, _⟩
    · simp [ho, h1, h2, h3]
    · simp [ho, h1]
  · rcases hl with ⟨ho, _⟩ | ⟨_, _, h2⟩
    · exact .inr ho
    · exact .inl h2
  · intro m hm hd
    unfold writeAnmTexture at htex
    cases hq : e.texData with
    | none => rw [hq] at hd; cases hd
    | some d =>
      rw [hq, hm] at htex
      cases hf : texMetaFits m with
      | false => simp only [hf, Bool.false_eq_true, if_false] at htex; cases htex
      | true =>
        simp only [texMetaFits, Bool.and_eq_true, decide_eq_true_eq] at hf
        exact ⟨hf.1.1, hf.1.2, hf.2⟩

/-- **no silent narrowing or dropping any more** (db48965): whatever `write_anm` accepts asks only for what the container
of the version can store - no field without room in the header layout, no image dimension beyond 16 bits.  The full
statement, for every file and version, no hypothesis. -/
theorem anm_write_diagnoses_misfit (fmt : AnmFmt) (f : AnmFile) (bs : Bytes) (hw : writeAnm fmt f = .ok bs) :
    ∀ e ∈ f.entries, Representable fmt e := by
  intro e he
  obtain ⟨a, last, b, a', h⟩ := writeAnmEntries_mem fmt f.entries 0 bs hw e he
  exact writeAnmEntry_representable h

/-- "what the writer accepts, the reader accepts": representable as above AND no image under an `@` path -/
def anm_write_diagnoses_misfit_full : Prop :=
  ∀ (fmt : AnmFmt) (f : AnmFile) (bs : Bytes), writeAnm fmt f = .ok bs → ∀ e ∈ f.entries, Representable fmt e ∧ ImageReadable e

/-- the full statement holds for every file without an image under an `@` path (the exclusion as an explicit hypothesis) -/
theorem anm_write_diagnoses_misfit_partial (fmt : AnmFmt) (f : AnmFile) (bs : Bytes) (hw : writeAnm fmt f = .ok bs)
    (hat : ∀ e ∈ f.entries, ImageReadable e) : ∀ e ∈ f.entries, Representable fmt e ∧ ImageReadable e :=
  fun e he => ⟨anm_write_diagnoses_misfit fmt f bs hw e he, hat e he⟩

/-- **and it is refuted only by the image under an `@` path** (still open: the writer accepts it, the reader rejects the file) -/
theorem anm_write_diagnoses_misfit_full_false : ¬ anm_write_diagnoses_misfit_full := by
  intro h
  have hw : ∃ bs, writeAnm anmV8 atPathImage = .ok bs := by
    cases hq : writeAnm anmV8 atPathImage with
    | ok bs => exact ⟨bs, rfl⟩
    | err c => have := anm_image_under_at_path_unreadable.1; simp only [anmWrites, hq, Outcome.isOk] at this; cases this
    | panic p => have := anm_image_under_at_path_unreadable.1; simp only [anmWrites, hq, Outcome.isOk] at this; cases this
  obtain ⟨bs, hbs⟩ := hw
  have := (h anmV8 atPathImage bs hbs _ (List.mem_cons_self ..)).2 rfl
  exact absurd this (by decide)

/-! ### non-vacuity -/

def anmSprite (id : Option UInt32) : Sprite := { id := id, x := 0x3f800000, y := 0, w := 0x41800000, h := 0x41800000 }

/-- two entries: sprites with and without explicit ids, two scripts, an image, a second entry without image -/
def anmExample : AnmFile :=
  ⟨[{ specs := { witnessSpecs with offsetX := 3, memoryPriority := 10, lowResScale := true }, path := [0x61, 0x2e, 0x70, 0x6e, 0x67],
      sprites := [(100, anmSprite none), (101, anmSprite (some 1)), (102, anmSprite (some 7))],
      scripts := [(5, witnessScript), (6, { id := 0xffffffff, instrs := [] })], texMeta := some ⟨7, 2, 2⟩, texData := some [1, 2, 3, 4] },
    { specs := witnessSpecs, path := [0x40, 0x52], sprites := [(103, anmSprite none)], scripts := [(7, witnessScript)] }]⟩

example : wfAnm (fun _ => true) anmV8 anmExample = true := by decide

set_option maxRecDepth 16000 in
example : anmWrites anmV8 anmExample = true ∧ anmRoundTrip anmV8 anmExample = .ok (normAnm true anmExample) := by decide

example : (normAnm true anmExample).entries.map (fun e => (e.sprites.map fun s => (s.1, s.2.id), e.scripts.map (·.1))) =
    [([(0, none), (1, none), (7, some 7)], [0, 1]), ([(8, none)], [2])] := by decide

/-- an EoSD file with two entries round-trips when the first entry has an image -/
def anmExampleV0 : AnmFile :=
  ⟨[{ specs := witnessSpecs, path := [0x61], path2 := some [0x62], scripts := [(0, witnessScript), (1, { id := 3, instrs := [{ time := 0, opcode := 0 }] })],
      texMeta := some ⟨1, 1, 1⟩, texData := some [9, 9, 9, 9] },
    { specs := { witnessSpecs with colorkey := 0xff00ff }, path := [0x62], scripts := [(2, witnessScript)] }]⟩

example : wfAnm (fun _ => true) anmV0 anmExampleV0 = true := by decide

set_option maxRecDepth 16000 in
example : anmWrites anmV0 anmExampleV0 = true ∧ anmRoundTrip anmV0 anmExampleV0 = .ok (normAnm true anmExampleV0) := by decide

/-- the writer refuses a 16-bit field that does not fit (TH11+) and accepts the same value in the 32-bit layout -/
example : writeAnm anmV8 ⟨[{ specs := { witnessSpecs with rtWidth := 70000 }, path := [0x61] }]⟩ = .err anmTooLarge := by decide
example : anmWrites anmV4 ⟨[{ specs := { witnessSpecs with rtWidth := 70000 }, path := [0x61] }]⟩ = true := by decide

end TruthModel.C03
