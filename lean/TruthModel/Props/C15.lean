import TruthModel.Lemmas.Abi
/-
C15 — text in string arguments and metadata survives compile and decompile unchanged.

Corollary layer over the string lemmas of C12 (`Lemmas/Abi.lean`) plus the fixed-size metadata
strings (`encode_fixed_size` / `read_cstring_exact`: STD stage and BGM names with 128 bytes,
mission MSG lines with 64 bytes and an additive cipher) and block-padded C strings
(`write_cstring` / `read_cstring_blockwise`: ANM entry paths).

The text <-> bytes step is the parameter `sj : Sjis`.  A theorem about a text `s` assumes exactly
`sj.enc s = some b`, `sj.dec b = some s` and `b` NUL-free; the harness validates these three facts
for `encoding_rs::SHIFT_JIS` exhaustively over all scalar values on every run (and for strings by
generation), and records the scalars for which they fail (they are excluded from the claim, as
the property's "represents unambiguously" does).
-/
open TruthModel TruthModel.Abi
namespace TruthModel.C15
set_option linter.unusedSimpArgs false

/-- **String arguments round-trip**, for every size kind (`len=` with or without `nulless`, `bs=`
to the end of the blob, length-prefixed), every xor mask (constant or accelerating), with or
without `furibug`, for every pending furigana state `st` and whatever follows in the blob
(`tl`): the decoder returns exactly the text, without warning, and leaves `tl` unread.
`hattr` is what the signature parser enforces (`bs ≠ 0`, no `furibug` on a `nulless` string). -/
theorem string_arg_roundtrip (sj : Sjis) (st : EncState) (size : StrSize) (mask : ByteMask)
    (furibug : Bool) (s : List Char) (b tl out : Bytes) (st2 : EncState)
    (henc : sj.enc s = some b) (hinv : sj.dec b = some s)
    (hattr : Enc.strAttrsOk (.str size mask furibug) = true)
    (hok : strLayoutOk st size furibug b = true)
    (he : encodeText sj st size mask furibug s = .ok (out, st2))
    (htl : ∀ bs, size = .toBlobEnd bs → tl = []) :
    decodeText sj size mask furibug (out ++ tl) = .ok (s, [], tl) := by
  simp only [encodeText, henc] at he
  have := decodeStr_encodeStr st size mask furibug b tl out st2 hattr hok he htl
  simp [decodeText, this, hinv]

/-- and the encoder accepts every such text -/
theorem string_arg_accepted (sj : Sjis) (st : EncState) (size : StrSize) (mask : ByteMask)
    (furibug : Bool) (s : List Char) (b : Bytes)
    (henc : sj.enc s = some b) (hattr : Enc.strAttrsOk (.str size mask furibug) = true)
    (hok : strLayoutOk st size furibug b = true) :
    ∃ r, encodeText sj st size mask furibug s = .ok r := by
  simp only [encodeText, henc]
  exact encodeStr_ok st size mask furibug b hattr hok

/-- a toy encoder (ASCII only) showing the hypotheses are satisfiable for each size kind, with
the TH09+ accelerating mask, a pending furigana line and the furigana quirk switched on -/
def asciiSjis : Sjis where
  enc s := if s.all (fun c => c.toNat < 128) then some (s.map fun c => UInt8.ofNat c.toNat) else none
  dec b := if b.all (· < 128) then some (b.map fun x => Char.ofNat x.toNat) else none

example : asciiSjis.enc ['|', 'a'] = some [0x7C, 0x61] ∧ asciiSjis.dec [0x7C, 0x61] = some ['|', 'a']
    ∧ strLayoutOk (some [1, 2, 3, 4]) (.toBlobEnd 4) true [0x7C, 0x61] = true
    ∧ strLayoutOk (some [1, 2, 3, 4]) (.pascal 4) true [0x7C, 0x61] = true
    ∧ strLayoutOk (some [1, 2, 3, 4]) (.fixed 8 false) true [0x7C, 0x61] = true
    ∧ strLayoutOk none (.fixed 2 true) false [0x7C, 0x61] = true
    ∧ Enc.strAttrsOk (.str (.fixed 2 true) ⟨0x77, 7, 16⟩ false) = true
    ∧ Enc.strAttrsOk (.str (.pascal 4) ⟨0x77, 7, 16⟩ true) = true := by decide

/-! ## fixed-size metadata strings -/

/-- `encode_fixed_size(n)` then `read_cstring_exact(n)` + decode: STD stage / BGM names
(`n = 128`), mission MSG lines (`n = 64`).  The buffer has exactly `n` bytes. -/
theorem fixed_size_roundtrip (sj : Sjis) (n : Nat) (s : List Char) (b buf : Bytes)
    (henc : sj.enc s = some b) (hinv : sj.dec b = some s) (hnul : b.contains 0 = false)
    (he : encodeFixedSize sj n s = .ok buf) :
    buf.length = n ∧ readFixedSize sj buf = .ok (s, []) := by
  simp only [encodeFixedSize, henc] at he
  split at he
  · cases he
  · rename_i hlt
    simp only [Outcome.ok.injEq] at he
    subst he
    have hk : n - b.length = (n - b.length - 1) + 1 := by omega
    constructor
    · simp [zeros]; omega
    · have : b ++ zeros (n - b.length) = b ++ 0 :: zeros (n - b.length - 1) := by
        rw [hk]; simp [zeros, List.replicate_succ]
      simp [readFixedSize, this, Abi.trim_after_pad b _ true hnul, hinv]

theorem fixed128_roundtrip (sj : Sjis) (s : List Char) (b buf : Bytes)
    (henc : sj.enc s = some b) (hinv : sj.dec b = some s) (hnul : b.contains 0 = false)
    (he : encodeFixedSize sj 128 s = .ok buf) :
    buf.length = 128 ∧ readFixedSize sj buf = .ok (s, []) :=
  fixed_size_roundtrip sj 128 s b buf henc hinv hnul he

example : encodeFixedSize asciiSjis 8 ['a', 'b'] = .ok [0x61, 0x62, 0, 0, 0, 0, 0, 0] := by decide

/-- a text is accepted by `encode_fixed_size(n)` iff it encodes to fewer than `n` bytes -/
theorem fixed_size_accepted (sj : Sjis) (n : Nat) (s : List Char) (b : Bytes)
    (henc : sj.enc s = some b) (hfit : b.length < n) :
    ∃ buf, encodeFixedSize sj n s = .ok buf := by
  simp only [encodeFixedSize, henc]
  have : ¬ (b.length ≥ n) := by omega
  simp [this]

theorem sub_add_cipher (b c : Bytes) : addCipher (subCipher b c) c = b := by
  induction b generalizing c with
  | nil => cases c <;> rfl
  | cons x xs ih =>
    cases c with
    | nil => rfl
    | cons y ys => simp [subCipher, addCipher, ih, UInt8.sub_add_cancel]

/-- mission MSG lines: 64-byte buffer, every byte shifted by the line's cipher byte -/
theorem mission_line_roundtrip (sj : Sjis) (cipher : Bytes) (s : List Char) (b buf : Bytes)
    (henc : sj.enc s = some b) (hinv : sj.dec b = some s) (hnul : b.contains 0 = false)
    (he : writeMissionLine sj cipher s = .ok buf) :
    buf.length = 64 ∧ readMissionLine sj cipher buf = .ok (s, []) := by
  simp only [writeMissionLine] at he
  cases h : encodeFixedSize sj 64 s with
  | err c => rw [h] at he; cases he
  | panic p => rw [h] at he; cases he
  | ok plain =>
    rw [h] at he
    simp only [Outcome.ok.injEq] at he
    subst he
    obtain ⟨hl, hr⟩ := fixed_size_roundtrip sj 64 s b plain henc hinv hnul h
    have hlen : ∀ (x c : Bytes), (subCipher x c).length = x.length := by
      intro x
      induction x with
      | nil => intro c; cases c <;> rfl
      | cons a as ih => intro c; cases c <;> simp [subCipher, ih]
    exact ⟨by rw [hlen, hl], by simp [readMissionLine, sub_add_cipher, hr]⟩

/-! ## errors -/

/-- **Unencodable or oversize text is an error**: in a string argument (every size kind, mask,
state), in a 128/64-byte metadata field and in a mission line; never a panic, never truncation. -/
theorem unencodable_or_oversize_is_error (sj : Sjis) (s : List Char) :
    (sj.enc s = none →
      (∀ st size mask furibug, encodeText sj st size mask furibug s = .err "string encoding error") ∧
      (∀ n, encodeFixedSize sj n s = .err "string encoding error") ∧
      (∀ cipher, writeMissionLine sj cipher s = .err "string encoding error")) ∧
    (∀ b, sj.enc s = some b →
      (∀ n, b.length ≥ n → encodeFixedSize sj n s = .err "string is too long") ∧
      (b.length ≥ 64 → ∀ cipher, writeMissionLine sj cipher s = .err "string is too long") ∧
      (∀ st len nulless mask furibug,
        b.length + (if nulless then 0 else 1) + (if furibug then (st.getD []).length else 0) > len →
        encodeText sj st (.fixed len nulless) mask furibug s = .err "string argument too large for buffer")) := by
  constructor
  · intro h
    refine ⟨?_, ?_, ?_⟩
    · intro st size mask furibug; simp [encodeText, h]
    · intro n; simp [encodeFixedSize, h]
    · intro cipher; simp [writeMissionLine, encodeFixedSize, h]
  · intro b h
    refine ⟨?_, ?_, ?_⟩
    · intro n hn; simp [encodeFixedSize, h, hn]
    · intro hn cipher; simp [writeMissionLine, encodeFixedSize, h, hn]
    · intro st len nulless mask furibug hgt
      simp only [encodeText, h]
      -- same computation as C12.misfit_diagnosed_partial
      have hb := strBody_eq st (.fixed len nulless) furibug b
      unfold encodeStr
      generalize strBody st (.fixed len nulless) furibug b = sb at hb
      obtain ⟨e2, st1⟩ := sb
      simp only at hb
      have hfb : (fbOf st furibug).length = (if furibug = true then (st.getD []).length else 0) := by
        simp [fbOf]; split <;> simp
      have : e2.length = b.length + (if nulless = true then 0 else 1) + (fbOf st furibug).length := by
        rw [hb]; cases nulless <;> simp [nulOf] <;> omega
      have hgt' : e2.length > len := by omega
      simp only [strPad, hgt', if_true]

example : asciiSjis.enc ['é'] = none := by decide

/-! ## block-padded C strings (ANM entry paths)

`write_cstring(s, 16)` / `read_cstring_blockwise(16)`.  The executable model is in
`Model/Abi.lean`; the general round trip is stated here and **not proved** (it needs an induction
over blocks that was not done); it is covered by the search through real ANM files (paths of
1..300 characters around the 16-byte block boundaries) and by the instances below. -/

/-- every NUL-free byte string written with `write_cstring` is read back by
`read_cstring_blockwise` (given enough blocks of input), leaving the rest of the input -/
def cstring_block_roundtrip_full : Prop :=
  ∀ (block : Nat) (b tl out : Bytes), block ≠ 0 → b.contains 0 = false →
    writeCString block b = .ok out →
    readCStringBlockwise block (out.length / block) [] (out ++ tl) = .ok (b, tl)

/-- one instance: `n` bytes `A`, then unrelated input `07 00 09` -/
def cstringInstance (block n : Nat) : Bool :=
  let b : Bytes := List.replicate n 0x41
  match writeCString block b with
  | .ok out => readCStringBlockwise block (out.length / block) [] (out ++ [7, 0, 9]) == .ok (b, [7, 0, 9])
  | _ => false

/-- instances at the block boundaries: 0, 1, 15, 16, 17, 31, 32, 33 bytes with block size 16, and block sizes 1 and 4 -/
theorem cstring_block_roundtrip_partial :
    [0, 1, 15, 16, 17, 31, 32, 33].all (cstringInstance 16) = true ∧
    [0, 1, 2, 3].all (cstringInstance 1) = true ∧ [0, 3, 4, 5, 8].all (cstringInstance 4) = true := by
  decide

/-- block-padded strings never hit `bs = 0` in the metadata writers (16 is a constant there),
and a signature cannot say `bs=0`: see `C12.validAbi_rejects_zero_block` -/
example : writeCString 16 [0x61] = .ok (0x61 :: zeros 15) := by decide

end TruthModel.C15

/-! ## the general block-wise C string round trip (proved)

This section supersedes the note above: `cstring_block_roundtrip_full` is now a theorem
(`cstring_block_roundtrip`), for every block size > 0 and every NUL-free byte string, by induction over
the blocks (`readCStringBlockwise_padded`) and the shape of `null_pad` (`nullPad_shape`).  The ANM
container proof has the block-size-16 instance on its own reader (`C03Anm.readCStr16Aux_nullPad`). -/
namespace TruthModel.C15

/-! ### the general block-wise round trip -/

theorem getLast?_append_zeros_succ (t : Bytes) (k : Nat) : (t ++ zeros (k + 1)).getLast? = some 0 := by
  simp [zeros, List.replicate_succ', ← List.append_assoc]

theorem dropWhile_zeros_append (k : Nat) (l : Bytes) : (zeros k ++ l).dropWhile (· == 0) = l.dropWhile (· == 0) := by
  induction k with
  | zero => simp [zeros]
  | succ k ih =>
    simp only [zeros, List.replicate_succ, List.cons_append] at ih ⊢
    rw [List.dropWhile_cons_of_pos (by simp)]
    exact ih

theorem not_mem_of_contains {t : Bytes} (h : t.contains 0 = false) : (0 : UInt8) ∉ t := by
  intro hm
  have : t.contains 0 = true := by simp [hm]
  rw [this] at h; cases h

/-- trailing NULs after a NUL-free string are exactly what the reader strips -/
theorem stripTrailingZeros_append_zeros (t : Bytes) (k : Nat) (h0 : t.contains 0 = false) :
    stripTrailingZeros (t ++ zeros k) = t := by
  unfold stripTrailingZeros
  have hz : (zeros k).reverse = zeros k := by simp [zeros]
  rw [List.reverse_append, hz, dropWhile_zeros_append]
  have : t.reverse.dropWhile (· == 0) = t.reverse := by
    cases hr : t.reverse with
    | nil => rfl
    | cons a r =>
      have ha : a ∈ t := by rw [← List.mem_reverse, hr]; exact List.mem_cons_self ..
      have hne : a ≠ 0 := by
        intro h; subst h
        exact not_mem_of_contains h0 ha
      rw [List.dropWhile_cons_of_neg (by simp [hne])]
  rw [this, List.reverse_reverse]

/-- the reader on `s ++ z NULs ++ rest`, where `1 ≤ z ≤ block` NULs bring `s` to a whole number `k` of
blocks: after `k` blocks it returns everything read so far without the trailing NULs, and `rest` -/
theorem readCStringBlockwise_padded (block : Nat) (hb : block ≠ 0) :
    ∀ (k : Nat) (s acc rest : Bytes) (z : Nat), s.contains 0 = false → 1 ≤ z → z ≤ block →
      s.length + z = k * block →
      readCStringBlockwise block k acc (s ++ zeros z ++ rest) = .ok (stripTrailingZeros (acc ++ s ++ zeros z), rest) := by
  intro k
  induction k with
  | zero =>
    intro s acc rest z _ hz1 _ hk
    omega
  | succ n ih =>
    intro s acc rest z hs hz1 hz2 hk
    rw [readCStringBlockwise, if_neg hb]
    have hlen : ¬ (s ++ zeros z ++ rest).length < block := by
      have : block ≤ (n + 1) * block := Nat.le_mul_of_pos_left _ (by omega)
      simp only [List.length_append, zeros, List.length_replicate]
      omega
    rw [if_neg hlen]
    by_cases hlt : s.length < block
    · -- the last block
      have hn : n = 0 := by
        cases n with
        | zero => rfl
        | succ m =>
          have : (m + 1 + 1) * block = m * block + 2 * block := by
            rw [Nat.add_mul, Nat.add_mul]; omega
          omega
      subst hn
      have hl : (s ++ zeros z).length = block := by
        simp only [List.length_append, zeros, List.length_replicate]; omega
      have htake : (s ++ zeros z ++ rest).take block = s ++ zeros z := by
        rw [← hl, List.take_left]
      have hdrop : (s ++ zeros z ++ rest).drop block = rest := by
        rw [← hl, List.drop_left]
      simp only [htake, hdrop]
      have hk1 : z = (z - 1) + 1 := by omega
      have hlast : (acc ++ (s ++ zeros z)).getLast? = some 0 := by
        rw [← List.append_assoc, hk1, getLast?_append_zeros_succ]
      have hb1 : ((acc ++ (s ++ zeros z)).getLast? == some 0) = true := by rw [hlast]; rfl
      rw [if_pos hb1, ← List.append_assoc]
    · have hge : block ≤ s.length := by omega
      have htake : (s ++ zeros z ++ rest).take block = s.take block := by
        rw [List.append_assoc, List.take_append_of_le_length hge]
      have hdrop : (s ++ zeros z ++ rest).drop block = s.drop block ++ zeros z ++ rest := by
        rw [List.append_assoc, List.drop_append_of_le_length hge, List.append_assoc]
      simp only [htake, hdrop]
      have hlast : (acc ++ s.take block).getLast? ≠ some 0 := by
        intro h
        have hl : (s.take block).length = block := by rw [List.length_take]; omega
        rw [List.getLast?_append] at h
        cases hq : (s.take block).getLast? with
        | none =>
          rw [List.getLast?_eq_none_iff] at hq
          rw [hq] at hl; simp at hl; omega
        | some v =>
          rw [hq] at h
          simp only [Option.some_or, Option.some.injEq] at h
          subst h
          exact not_mem_of_contains hs (List.mem_of_mem_take (List.mem_of_getLast? hq))
      have hb2 : ¬ ((acc ++ s.take block).getLast? == some 0) = true := by
        intro hh; exact hlast (by simpa using hh)
      rw [if_neg hb2]
      have hs' : (s.drop block).contains 0 = false := by
        cases hc : (s.drop block).contains 0 with
        | false => rfl
        | true =>
          simp only [List.contains_eq_mem, decide_eq_true_eq] at hc
          exact absurd (List.mem_of_mem_drop hc) (not_mem_of_contains hs)
      have hk' : (s.drop block).length + z = n * block := by
        simp only [List.length_drop]
        have : (n + 1) * block = n * block + block := by rw [Nat.add_mul]; omega
        omega
      rw [ih (s.drop block) (acc ++ s.take block) rest z hs' hz1 hz2 hk']
      rw [List.append_assoc acc, List.take_append_drop]

/-- what `null_pad` appends: between 1 and `block` NULs, up to the next multiple of the block size -/
theorem nullPad_shape (block : Nat) (hb : block ≠ 0) (s : Bytes) :
    ∃ z k, nullPad block s = s ++ zeros z ∧ 1 ≤ z ∧ z ≤ block ∧ s.length + z = k * block := by
  unfold nullPad
  have hpos : 0 < block := Nat.pos_of_ne_zero hb
  have hdm := Nat.div_add_mod (s.length + 1) block
  have hmod := Nat.mod_lt (s.length + 1) hpos
  by_cases h0 : (s.length + 1) % block = 0
  · refine ⟨1, (s.length + 1) / block, ?_, Nat.le_refl _, hpos, ?_⟩
    · simp only [h0, if_true]
      congr 2; omega
    · rw [h0] at hdm; rw [Nat.mul_comm]; omega
  · refine ⟨1 + block - (s.length + 1) % block, (s.length + 1) / block + 1, ?_, by omega, by omega, ?_⟩
    · simp only [h0, if_false]
      congr 2; omega
    · rw [Nat.add_mul, Nat.mul_comm]; omega

/-- **The block-wise C string round trip, for every block size and every NUL-free byte string**:
`read_cstring_blockwise(block)` on what `write_cstring(s, block)` wrote returns `s` and leaves
whatever follows unread.  (`cstring_block_roundtrip_full` was only stated before.) -/
theorem cstring_block_roundtrip : cstring_block_roundtrip_full := by
  intro block b tl out hb h0 hw
  simp only [writeCString, if_neg hb, Outcome.ok.injEq] at hw
  obtain ⟨z, k, hshape, hz1, hz2, hk⟩ := nullPad_shape block hb b
  subst hw
  have hlen : (nullPad block b).length / block = k := by
    rw [hshape]
    simp only [List.length_append, zeros, List.length_replicate]
    rw [hk, Nat.mul_div_cancel _ (Nat.pos_of_ne_zero hb)]
  rw [hlen, hshape, readCStringBlockwise_padded block hb k b [] tl z h0 hz1 hz2 hk]
  simp only [List.nil_append]
  rw [stripTrailingZeros_append_zeros b z h0]

/-- the hypotheses are satisfiable: 17 bytes with block size 16 (two blocks), followed by other data -/
example : readCStringBlockwise 16 2 [] (nullPad 16 (List.replicate 17 0x41) ++ [7, 0, 9])
    = .ok (List.replicate 17 0x41, [7, 0, 9]) := by decide

/-- the round trip needs the string to be NUL-free: an embedded NUL at a block end stops the reader early -/
theorem cstring_nul_truncates :
    readCStringBlockwise 2 2 [] (nullPad 2 [0x41, 0, 0x42]) = .ok ([0x41], [0x42, 0]) := by decide

end TruthModel.C15
