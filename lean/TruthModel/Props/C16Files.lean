import TruthModel.Props.C16Instr
import TruthModel.Model.FilesEcl
/-
C16 at container level — any binary input ends in success or a diagnostic, never a crash.
For EVERY byte string presented as a MSG, STD (both layouts), mission MSG or old ECL file:

* `msg_read_no_panic`, `std_read_no_panic`, `mission_read_no_panic`, `ecl_read_no_panic`: the model of
  the reader never reaches a panic arm (old ECL: since 8c247ce; `ecl_read_formerly_panicking_input` is
  the witness of the repaired `num_timelines -= 1` underflow, now a diagnostic);
* `msg_read_total`, `std_read_total`, `mission_read_total`, `ecl_read_total`: the result is a file or one
  of an explicit list of diagnostics — in particular never the internal "fuel" diagnostic, i.e. the
  fuel handed to the `while` loops (input length + 1) always suffices;
* allocation: `readInstrs_size_bound` (a parsed script is no larger than its input),
  `mission_read_alloc_bound`, `std_read_alloc_bound`, `ecl_read_alloc_bound`, `msg_read_alloc_bound_partial`;
  the STD/ECL bounds carry the factor 65535 (number of table entries): `std_alloc_amplification`
  shows that it is attained - entries of the offset table may share their target.
-/
namespace TruthModel.C16
open TruthModel TruthModel.InstrIO TruthModel.Files

theorem ne_panic_of {α} {o : Outcome α} (h : o.isPanic = false) (p : String) : o ≠ .panic p := by
  intro e; rw [e] at h; cases h

/-! ### lengths consumed by the primitive readers -/

theorem rdU8_len {bs : Bytes} {v : Nat} {r : Bytes} (h : rdU8 bs = some (v, r)) : bs.length = r.length + 1 := by
  rcases rdU8_spec bs with h' | ⟨v', r', h', p, hp, rfl⟩
  · rw [h'] at h; cases h
  · rw [h'] at h; cases h; simp [hp]; omega
theorem rdU16_len {bs : Bytes} {v : Nat} {r : Bytes} (h : rdU16 bs = some (v, r)) : bs.length = r.length + 2 := by
  rcases rdU16_spec bs with h' | ⟨v', r', h', p, hp, rfl⟩
  · rw [h'] at h; cases h
  · rw [h'] at h; cases h; simp [hp]; omega
theorem rdU32_len {bs : Bytes} {v : Nat} {r : Bytes} (h : rdU32 bs = some (v, r)) : bs.length = r.length + 4 := by
  rcases rdU32_spec bs with h' | ⟨v', r', h', p, hp, rfl⟩
  · rw [h'] at h; cases h
  · rw [h'] at h; cases h; simp [hp]; omega
theorem rdI16_len {bs : Bytes} {v : Int} {r : Bytes} (h : rdI16 bs = some (v, r)) : bs.length = r.length + 2 := by
  rcases rdI16_spec bs with h' | ⟨v', r', h', p, hp, rfl⟩
  · rw [h'] at h; cases h
  · rw [h'] at h; cases h; simp [hp]; omega
theorem rdBytes_len {n : Nat} {bs b r : Bytes} (h : rdBytes n bs = some (b, r)) : bs.length = r.length + n ∧ b.length = n := by
  rcases rdBytes_spec n bs with h' | ⟨b', r', h', hb, rfl⟩
  · rw [h'] at h; cases h
  · rw [h'] at h; cases h; simp [hb]; omega
theorem rdF2_len {bs : Bytes} {v : F2} {r : Bytes} (h : rdF2 bs = some (v, r)) : bs.length = r.length + 8 := by
  unfold rdF2 at h
  repeat' split at h
  all_goals first | (cases h; done) | skip
  rename_i h1 _ _ _ h2
  cases h
  have := rdU32_len h1; have := rdU32_len h2; omega
theorem rdF3_len {bs : Bytes} {v : F3} {r : Bytes} (h : rdF3 bs = some (v, r)) : bs.length = r.length + 12 := by
  unfold rdF3 at h
  repeat' split at h
  all_goals first | (cases h; done) | skip
  rename_i h1 _ _ _ h2 _ _ _ h3
  cases h
  have := rdU32_len h1; have := rdU32_len h2; have := rdU32_len h3; omega

theorem rdU32sAux_len : ∀ (n : Nat) (acc : List Nat) (bs : Bytes) (l : List Nat) (r : Bytes),
    rdU32sAux n acc bs = some (l, r) → bs.length = r.length + 4 * n ∧ l.length = acc.length + n := by
  intro n
  induction n with
  | zero => intro acc bs l r h; rw [rdU32sAux] at h; cases h; simp
  | succ n ih =>
    intro acc bs l r h
    rw [rdU32sAux] at h
    split at h
    · cases h
    · rename_i v r1 h1
      have := ih _ _ _ _ h
      have := rdU32_len h1
      simp only [List.length_cons] at *
      omega

theorem rdU32s_len {n : Nat} {bs : Bytes} {l : List Nat} {r : Bytes} (h : rdU32s n bs = some (l, r)) :
    bs.length = r.length + 4 * n ∧ l.length = n := by
  have := rdU32sAux_len n [] bs l r h
  simpa using this

/-- the diagnostics a reader can end in -/
def ErrIn {α} (l : List String) (o : Outcome α) : Prop := ∀ c, o = .err c → c ∈ l

theorem ErrIn.mono {α} {l l' : List String} {o : Outcome α} (h : ErrIn l o) (hs : ∀ c ∈ l, c ∈ l') : ErrIn l' o :=
  fun c hc => hs c (h c hc)

/-- result is a value or one of the listed diagnostics -/
theorem total_of {α} {l : List String} {o : Outcome α} (hp : o.isPanic = false) (he : ErrIn l o) :
    (∃ a, o = .ok a) ∨ ∃ c ∈ l, o = .err c := by
  cases o with
  | ok a => exact .inl ⟨a, rfl⟩
  | err c => exact .inr ⟨c, he c rfl, rfl⟩
  | panic p => cases hp

/-! ### `read_instrs` with an end offset -/

theorem readInstrsEndAux_succ (f : Fmt) (e : Option Nat) (n : Nat) (pending : Option Instr) (acc : List Instr)
    (cur : Nat) (bs : Bytes) :
    readInstrsEndAux f e (n + 1) pending acc cur bs =
      match endCheck e cur with
      | .stop => .ok acc.reverse
      | .past => .err readPastEnd
      | .go =>
        match readInstr f bs with
        | .ok (.eof, _) => .ok acc.reverse
        | .ok (.terminal, _) => .ok acc.reverse
        | .ok (.instr i, r) => readInstrsEndAux f e n none (i :: Files.commit pending acc) (cur + instrSize f i) r
        | .ok (.maybeTerminal i, r) => readInstrsEndAux f e n (some i) (Files.commit pending acc) (cur + instrSize f i) r
        | .err c => .err c
        | .panic s => .panic s := by
  rw [readInstrsEndAux]
  rfl

theorem readInstrsEndAux_no_panic (f : Fmt) (e : Option Nat) :
    ∀ (n : Nat) (pending : Option Instr) (acc : List Instr) (cur : Nat) (bs : Bytes),
      (readInstrsEndAux f e n pending acc cur bs).isPanic = false := by
  intro n
  induction n with
  | zero => intro _ _ _ _; rfl
  | succ n ih =>
    intro pending acc cur bs
    rw [readInstrsEndAux_succ]
    cases endCheck e cur with
    | stop => rfl
    | past => rfl
    | go =>
      have hp := readInstr_no_panic f bs
      cases h : readInstr f bs with
      | ok p =>
        obtain ⟨res, r⟩ := p
        cases res with
        | instr i => exact ih _ _ _ _
        | maybeTerminal i => exact ih _ _ _ _
        | terminal => rfl
        | eof => rfl
      | err c => rfl
      | panic s => rw [h] at hp; cases hp

def instrReadErrs : List String := [eofErr, badSize, readPastEnd]

/-- with more fuel than input bytes the loop ends in a script or one of three diagnostics (never "fuel") -/
theorem readInstrsEndAux_err (f : Fmt) (e : Option Nat) :
    ∀ (n : Nat) (pending : Option Instr) (acc : List Instr) (cur : Nat) (bs : Bytes), bs.length < n →
      ErrIn instrReadErrs (readInstrsEndAux f e n pending acc cur bs) := by
  intro n
  induction n with
  | zero => intro _ _ _ bs h; omega
  | succ n ih =>
    intro pending acc cur bs hn
    rw [readInstrsEndAux_succ]
    have hp := headerSize_pos f
    cases endCheck e cur with
    | stop => intro c h'; cases h'
    | past => intro c h'; injection h' with h'; subst h'; simp [instrReadErrs]
    | go =>
      cases h : readInstr f bs with
      | ok p =>
        obtain ⟨res, r⟩ := p
        cases res with
        | instr i =>
          have := (readInstr_consumes f bs _ r i h (.inl rfl)).1
          exact ih _ _ _ _ (by omega)
        | maybeTerminal i =>
          have := (readInstr_consumes f bs _ r i h (.inr rfl)).1
          exact ih _ _ _ _ (by omega)
        | terminal => intro c h'; cases h'
        | eof => intro c h'; cases h'
      | err c =>
        intro c' h'
        injection h' with h'
        subst h'
        rcases readInstr_err f bs _ h with h' | h' <;> subst h' <;> simp [instrReadErrs]
      | panic s => intro c h'; cases h'

theorem readInstrsEnd_no_panic (f : Fmt) (e : Option Nat) (start : Nat) (bs : Bytes) :
    (readInstrsEnd f e start bs).isPanic = false := readInstrsEndAux_no_panic f e _ _ _ _ _

theorem readInstrsEnd_err (f : Fmt) (e : Option Nat) (start : Nat) (bs : Bytes) :
    ErrIn instrReadErrs (readInstrsEnd f e start bs) := readInstrsEndAux_err f e _ _ _ _ _ (Nat.lt_succ_self _)

theorem readInstrs_err (f : Fmt) (bs : Bytes) : ErrIn instrReadErrs (readInstrs f bs) := by
  intro c h
  rcases readInstrs_total f bs with ⟨is, h'⟩ | h' | h'
  · rw [h'] at h; cases h
  · rw [h'] at h; injection h with h; subst h; simp [instrReadErrs]
  · rw [h'] at h; injection h with h; subst h; simp [instrReadErrs]

/-! ### `collect_with_recovery` -/

theorem collectRecover_no_panic {α} : ∀ (l : List (Outcome α)), (∀ x ∈ l, x.isPanic = false) →
    (collectRecover l).isPanic = false := by
  intro l
  induction l with
  | nil => intro _; rfl
  | cons x xs ih =>
    intro h
    have hx := h x (List.mem_cons_self ..)
    have hxs := ih (fun y hy => h y (List.mem_cons_of_mem _ hy))
    cases x with
    | panic s => cases hx
    | ok a =>
      simp only [collectRecover]
      cases hr : collectRecover xs with
      | panic s => rw [hr] at hxs; cases hxs
      | ok as => rfl
      | err c => rfl
    | err c =>
      simp only [collectRecover]
      cases hr : collectRecover xs with
      | panic s => rw [hr] at hxs; cases hxs
      | ok as => rfl
      | err c => rfl

/-- an error of `collect_with_recovery` is the error of one of the items -/
theorem collectRecover_err {α} : ∀ (l : List (Outcome α)) (c : String), collectRecover l = .err c →
    ∃ x ∈ l, x = .err c := by
  intro l
  induction l with
  | nil => intro c h; cases h
  | cons x xs ih =>
    intro c h
    cases x with
    | panic s => simp only [collectRecover] at h; cases h
    | ok a =>
      simp only [collectRecover] at h
      cases hr : collectRecover xs with
      | panic s => rw [hr] at h; cases h
      | ok as => rw [hr] at h; cases h
      | err c' =>
        rw [hr] at h
        injection h with h
        subst h
        obtain ⟨y, hy, rfl⟩ := ih _ hr
        exact ⟨_, List.mem_cons_of_mem _ hy, rfl⟩
    | err c' =>
      simp only [collectRecover] at h
      cases hr : collectRecover xs with
      | panic s => rw [hr] at h; cases h
      | ok as => rw [hr] at h; injection h with h; subst h; exact ⟨_, List.mem_cons_self .., rfl⟩
      | err c'' => rw [hr] at h; injection h with h; subst h; exact ⟨_, List.mem_cons_self .., rfl⟩

/-! ## MSG -/

theorem readMsgTableAux_no_panic (hasFlags : Bool) : ∀ (n : Nat) (acc : List (Nat × Nat)) (bs : Bytes),
    (readMsgTableAux hasFlags n acc bs).isPanic = false := by
  intro n
  induction n with
  | zero => intro _ _; rfl
  | succ n ih =>
    intro acc bs
    rw [readMsgTableAux]
    split
    · rfl
    · split
      · split
        · rfl
        · exact ih _ _
      · exact ih _ _

theorem readMsgTableAux_err (hasFlags : Bool) : ∀ (n : Nat) (acc : List (Nat × Nat)) (bs : Bytes),
    ErrIn instrReadErrs (readMsgTableAux hasFlags n acc bs) := by
  intro n
  induction n with
  | zero => intro _ _ c h; cases h
  | succ n ih =>
    intro acc bs
    rw [readMsgTableAux]
    split
    · intro c h; injection h with h; subst h; simp [instrReadErrs]
    · split
      · split
        · intro c h; injection h with h; subst h; simp [instrReadErrs]
        · exact ih _ _
      · exact ih _ _

theorem readMsgScript_no_panic (file : Bytes) (nz : List Nat) (y : Nat × Option Nat) :
    (readMsgScript file nz y).isPanic = false := by
  have := readInstrsEnd_no_panic .msg y.2 y.1 (seek file y.1)
  unfold readMsgScript
  cases hr : readInstrsEnd Fmt.msg y.2 y.1 (seek file y.1) with
  | ok is => rfl
  | err c => rfl
  | panic s => rw [hr] at this; cases this

theorem readMsgScript_err (file : Bytes) (nz : List Nat) (y : Nat × Option Nat) :
    ErrIn instrReadErrs (readMsgScript file nz y) := by
  have := readInstrsEnd_err .msg y.2 y.1 (seek file y.1)
  unfold readMsgScript
  cases hr : readInstrsEnd Fmt.msg y.2 y.1 (seek file y.1) with
  | ok is => intro c h; cases h
  | err c => intro c' h; injection h with h; subst h; exact this _ hr
  | panic s => intro c h; cases h

theorem readMsgScripts_no_panic (file : Bytes) (nz : List Nat) : (readMsgScripts file nz).isPanic = false := by
  apply collectRecover_no_panic
  intro x hx
  simp only [List.mem_map] at hx
  obtain ⟨y, _, rfl⟩ := hx
  exact readMsgScript_no_panic file nz y

theorem readMsgScripts_err (file : Bytes) (nz : List Nat) : ErrIn instrReadErrs (readMsgScripts file nz) := by
  intro c h
  obtain ⟨x, hx, rfl⟩ := collectRecover_err _ _ h
  simp only [List.mem_map] at hx
  obtain ⟨y, _, hy⟩ := hx
  exact readMsgScript_err file nz y c hy

/-- **MSG: `read_msg` ends in a file or a diagnostic for EVERY byte string.** -/
theorem msg_read_no_panic (hasFlags : Bool) (bs : Bytes) : (readMsg hasFlags bs).isPanic = false := by
  unfold readMsg
  split
  · rfl
  · rename_i len r _
    have ht := readMsgTableAux_no_panic hasFlags len [] r
    split
    · rfl
    · rename_i h; rw [h] at ht; cases ht
    · rename_i raw _
      have hs := readMsgScripts_no_panic bs (nzOffsets raw)
      split
      · rfl
      · rename_i h; rw [h] at hs; cases hs
      · rfl

theorem msg_read_err (hasFlags : Bool) (bs : Bytes) : ErrIn instrReadErrs (readMsg hasFlags bs) := by
  unfold readMsg
  split
  · intro c h; injection h with h; subst h; simp [instrReadErrs]
  · rename_i len r _
    have ht := readMsgTableAux_err hasFlags len [] r
    split
    · rename_i c' h; intro c hc; injection hc with hc; subst hc; exact ht _ h
    · intro c h; cases h
    · rename_i raw _
      have hs := readMsgScripts_err bs (nzOffsets raw)
      split
      · rename_i c' h; intro c hc; injection hc with hc; subst hc; exact hs _ h
      · intro c h; cases h
      · intro c h; cases h

/-- **MSG: every byte string gives a file or one of three diagnostics** (unexpected EOF, bad
instruction size, script read past its expected end); the fuel of the script loop always suffices. -/
theorem msg_read_total (hasFlags : Bool) (bs : Bytes) :
    (∃ m, readMsg hasFlags bs = .ok m) ∨ ∃ c ∈ instrReadErrs, readMsg hasFlags bs = .err c :=
  total_of (msg_read_no_panic hasFlags bs) (msg_read_err hasFlags bs)

/-! ## STD -/

def stdReadErrs : List String :=
  [eofErr, undecodable, badQuadSize, unknownQuadType, objectIndexTooLarge, badSize, readPastEnd]

local macro "std_leaf" : tactic =>
  `(tactic| (intro h; first | (cases h; done) | (injection h with h; subst h; simp only [stdReadErrs, List.mem_cons, true_or, or_true]; done)))

theorem readStr_no_panic (decOk : Bytes → Bool) (n : Nat) (bs : Bytes) : (readStr decOk n bs).isPanic = false := by
  unfold readStr
  split
  · rfl
  · split <;> rfl

theorem readStr_err (decOk : Bytes → Bool) (n : Nat) (bs : Bytes) : ErrIn stdReadErrs (readStr decOk n bs) := by
  intro c
  unfold readStr
  repeat' split
  all_goals std_leaf

theorem readStrs_no_panic (decOk : Bytes → Bool) (n : Nat) : ∀ (k : Nat) (bs : Bytes),
    (readStrs decOk n k bs).isPanic = false := by
  intro k
  induction k with
  | zero => intro _; rfl
  | succ k ih =>
    intro bs
    rw [readStrs]
    have h1 := readStr_no_panic decOk n bs
    split
    · rename_i s r _
      have h2 := ih r
      split
      · rfl
      · rfl
      · rename_i h; rw [h] at h2; cases h2
    · rfl
    · rename_i h; rw [h] at h1; cases h1

theorem readStrs_err (decOk : Bytes → Bool) (n : Nat) : ∀ (k : Nat) (bs : Bytes),
    ErrIn stdReadErrs (readStrs decOk n k bs) := by
  intro k
  induction k with
  | zero => intro _ c h; cases h
  | succ k ih =>
    intro bs
    rw [readStrs]
    split
    · rename_i s r _
      split
      · intro c h; cases h
      · rename_i c' h; intro c hc; injection hc with hc; subst hc; exact ih _ _ h
      · intro c h; cases h
    · rename_i c' h; intro c hc; injection hc with hc; subst hc; exact readStr_err _ _ _ _ h
    · intro c h; cases h

theorem readStrs_length (decOk : Bytes → Bool) (n : Nat) : ∀ (k : Nat) (bs : Bytes) (l : List Bytes) (r : Bytes),
    readStrs decOk n k bs = .ok (l, r) → l.length = k := by
  intro k
  induction k with
  | zero => intro bs l r h; rw [readStrs] at h; cases h; rfl
  | succ k ih =>
    intro bs l r h
    rw [readStrs] at h
    split at h
    · rename_i s r1 _
      split at h
      · rename_i ss r2 h2
        cases h
        simp only [List.length_cons, ih _ _ _ h2]
      · cases h
      · cases h
    · cases h
    · cases h

theorem list_of_length_9 {α} (l : List α) (h : l.length = 9) : ∃ a b c d e f g h i, l = [a, b, c, d, e, f, g, h, i] := by
  match l, h with
  | [a, b, c, d, e, f, g, h, i], _ => exact ⟨a, b, c, d, e, f, g, h, i, rfl⟩

theorem list_of_length_1 {α} (l : List α) (h : l.length = 1) : ∃ a, l = [a] := by
  match l, h with
  | [a], _ => exact ⟨a, rfl⟩

/-- the `bgms.next().unwrap()` of `read_extra` cannot fail: exactly 9 (resp. 1) strings were read -/
theorem readExtra_no_panic (decOk : Bytes → Bool) (fmt : StdFmt) (bs : Bytes) :
    (readExtra decOk fmt bs).isPanic = false := by
  unfold readExtra
  cases fmt with
  | f06 =>
    simp only
    cases h : readStrs decOk 128 9 bs with
    | ok p =>
      obtain ⟨l, r⟩ := p
      obtain ⟨a, b, c, d, e, f, g, h', i, rfl⟩ := list_of_length_9 l (readStrs_length _ _ _ _ _ _ h)
      rfl
    | err c => rfl
    | panic p => exact absurd h (ne_panic_of (readStrs_no_panic _ _ _ _) _)
  | f10 =>
    simp only
    cases h : readStrs decOk 128 1 bs with
    | ok p =>
      obtain ⟨l, r⟩ := p
      obtain ⟨a, rfl⟩ := list_of_length_1 l (readStrs_length _ _ _ _ _ _ h)
      rfl
    | err c => rfl
    | panic p => exact absurd h (ne_panic_of (readStrs_no_panic _ _ _ _) _)

theorem readExtra_err (decOk : Bytes → Bool) (fmt : StdFmt) (bs : Bytes) :
    ErrIn stdReadErrs (readExtra decOk fmt bs) := by
  intro c
  unfold readExtra
  repeat' split
  all_goals first
    | (intro h; cases h; done)
    | (rename_i hq; intro h; injection h with h; subst h; exact readStrs_err _ _ _ _ _ hq)

/-- the `unreachable!()` of `read_quad` is unreachable -/
theorem readQuad_no_panic (bs : Bytes) : (readQuad bs).isPanic = false := by
  unfold readQuad
  repeat' split
  all_goals first | rfl | omega

theorem readQuad_err (bs : Bytes) : ErrIn stdReadErrs (readQuad bs) := by
  intro c
  unfold readQuad
  repeat' split
  all_goals std_leaf

/-- every quad (and the end marker) takes at least 4 bytes -/
theorem readQuad_consumes {bs : Bytes} {o : Option Quad} {r : Bytes} (h : readQuad bs = .ok (o, r)) :
    r.length + 4 ≤ bs.length := by
  unfold readQuad at h
  repeat' split at h
  all_goals first | (cases h; done) | skip
  all_goals
    cases h
    grind [rdI16_len, rdU16_len, rdU32_len, rdF2_len, rdF3_len]

/-- a parsed quad (not the end marker) takes at least 28 bytes -/
theorem readQuad_consumes_quad {bs : Bytes} {q : Quad} {r : Bytes} (h : readQuad bs = .ok (some q, r)) :
    r.length + 28 ≤ bs.length := by
  unfold readQuad at h
  repeat' split at h
  all_goals first | (cases h; done) | skip
  all_goals
    cases h
    grind [rdI16_len, rdU16_len, rdU32_len, rdF2_len, rdF3_len]

theorem readQuads_no_panic : ∀ (fuel : Nat) (acc : List Quad) (bs : Bytes), (readQuads fuel acc bs).isPanic = false := by
  intro fuel
  induction fuel with
  | zero => intro _ _; rfl
  | succ n ih =>
    intro acc bs
    rw [readQuads]
    have h1 := readQuad_no_panic bs
    split
    · rfl
    · exact ih _ _
    · rfl
    · rename_i h; rw [h] at h1; cases h1

/-- the quad loop never runs out of fuel -/
theorem readQuads_err : ∀ (fuel : Nat) (acc : List Quad) (bs : Bytes), bs.length < fuel →
    ErrIn stdReadErrs (readQuads fuel acc bs) := by
  intro fuel
  induction fuel with
  | zero => intro _ bs h; omega
  | succ n ih =>
    intro acc bs hn
    rw [readQuads]
    split
    · intro c h; cases h
    · rename_i q r hq
      have := readQuad_consumes hq
      exact ih _ _ (by omega)
    · rename_i c' hq
      intro c h
      injection h with h
      subst h
      exact readQuad_err bs _ hq
    · intro c h; cases h

theorem readObject_no_panic (bs : Bytes) : (readObject bs).isPanic = false := by
  unfold readObject
  repeat' split
  all_goals first | rfl | (rename_i h; exact absurd h (ne_panic_of (readQuads_no_panic _ _ _) _))

theorem readObject_err (bs : Bytes) : ErrIn stdReadErrs (readObject bs) := by
  intro c
  unfold readObject
  repeat' split
  all_goals first
    | std_leaf
    | (rename_i hq; intro h; injection h with h; subst h; exact readQuads_err _ _ _ (Nat.lt_succ_self _) _ hq)

theorem readObjectsAux_no_panic (file : Bytes) : ∀ (offs : List Nat) (i : Nat) (acc : List (Nat × Object)),
    (readObjectsAux file i offs acc).isPanic = false := by
  intro offs
  induction offs with
  | nil => intro _ _; rfl
  | cons off offs ih =>
    intro i acc
    rw [readObjectsAux]
    have h1 := readObject_no_panic (seek file off)
    split
    · exact ih _ _
    · rfl
    · rename_i h; rw [h] at h1; cases h1

theorem readObjectsAux_err (file : Bytes) : ∀ (offs : List Nat) (i : Nat) (acc : List (Nat × Object)),
    ErrIn stdReadErrs (readObjectsAux file i offs acc) := by
  intro offs
  induction offs with
  | nil => intro _ _ c h; cases h
  | cons off offs ih =>
    intro i acc
    rw [readObjectsAux]
    split
    · exact ih _ _
    · rename_i c' ho
      intro c h; injection h with h; subst h
      exact readObject_err _ _ ho
    · intro c h; cases h

theorem readInstance_no_panic (objects : List (Nat × Object)) (bs : Bytes) :
    (readInstance objects bs).isPanic = false := by
  unfold readInstance
  repeat' split
  all_goals rfl

theorem readInstance_err (objects : List (Nat × Object)) (bs : Bytes) :
    ErrIn stdReadErrs (readInstance objects bs) := by
  intro c
  unfold readInstance
  repeat' split
  all_goals std_leaf

theorem readInstance_consumes {objects : List (Nat × Object)} {bs : Bytes} {o : Option Instance} {r : Bytes}
    (h : readInstance objects bs = .ok (o, r)) : r.length + 4 ≤ bs.length := by
  unfold readInstance at h
  repeat' split at h
  all_goals first | (cases h; done) | skip
  all_goals
    cases h
    grind [rdU16_len, rdF3_len]

theorem readInstance_consumes_some {objects : List (Nat × Object)} {bs : Bytes} {x : Instance} {r : Bytes}
    (h : readInstance objects bs = .ok (some x, r)) : r.length + 16 ≤ bs.length := by
  unfold readInstance at h
  repeat' split at h
  all_goals first | (cases h; done) | skip
  all_goals
    cases h
    grind [rdU16_len, rdF3_len]

theorem readInstances_no_panic (objects : List (Nat × Object)) : ∀ (fuel : Nat) (acc : List Instance) (bs : Bytes),
    (readInstances objects fuel acc bs).isPanic = false := by
  intro fuel
  induction fuel with
  | zero => intro _ _; rfl
  | succ n ih =>
    intro acc bs
    rw [readInstances]
    have h1 := readInstance_no_panic objects bs
    split
    · rfl
    · exact ih _ _
    · rfl
    · rename_i h; rw [h] at h1; cases h1

/-- the instance loop never runs out of fuel -/
theorem readInstances_err (objects : List (Nat × Object)) : ∀ (fuel : Nat) (acc : List Instance) (bs : Bytes),
    bs.length < fuel → ErrIn stdReadErrs (readInstances objects fuel acc bs) := by
  intro fuel
  induction fuel with
  | zero => intro _ bs h; omega
  | succ n ih =>
    intro acc bs hn
    rw [readInstances]
    split
    · intro c h; cases h
    · rename_i x r hq
      have := readInstance_consumes hq
      exact ih _ _ (by omega)
    · rename_i c' hq
      intro c h; injection h with h; subst h
      exact readInstance_err _ _ _ hq
    · intro c h; cases h

/-- **STD: `read_std` ends in a file or a diagnostic for EVERY byte string**, both layouts, whatever
the text decoder accepts. -/
theorem std_read_no_panic (decOk : Bytes → Bool) (fmt : StdFmt) (bs : Bytes) :
    (readStd decOk fmt bs).isPanic = false := by
  unfold readStd
  repeat' split
  all_goals first
    | rfl
    | (rename_i h; exact absurd h (ne_panic_of (readExtra_no_panic _ _ _) _))
    | (rename_i h; exact absurd h (ne_panic_of (readObjectsAux_no_panic _ _ _ _) _))
    | (rename_i h; exact absurd h (ne_panic_of (readInstances_no_panic _ _ _ _) _))
    | (rename_i h; exact absurd h (ne_panic_of (readInstrs_no_panic _ _) _))

theorem std_read_err (decOk : Bytes → Bool) (fmt : StdFmt) (bs : Bytes) :
    ErrIn stdReadErrs (readStd decOk fmt bs) := by
  intro c
  unfold readStd
  repeat' split
  all_goals first
    | std_leaf
    | (rename_i hq; intro h; injection h with h; subst h; exact readExtra_err _ _ _ _ hq)
    | (rename_i hq; intro h; injection h with h; subst h; exact readObjectsAux_err _ _ _ _ _ hq)
    | (rename_i hq; intro h; injection h with h; subst h; exact readInstances_err _ _ _ _ (Nat.lt_succ_self _) _ hq)
    | (rename_i hq; intro h; injection h with h; subst h
       exact ErrIn.mono (readInstrs_err _ _) (by intro c hc; simp only [instrReadErrs, List.mem_cons, List.not_mem_nil, or_false] at hc; rcases hc with rfl | rfl | rfl <;> simp [stdReadErrs]) _ hq)

/-- **STD: every byte string gives a file or one of the listed diagnostics**; the fuel of the quad
and instance loops (remaining input length + 1) is never exhausted. -/
theorem std_read_total (decOk : Bytes → Bool) (fmt : StdFmt) (bs : Bytes) :
    (∃ f, readStd decOk fmt bs = .ok f) ∨ ∃ c ∈ stdReadErrs, readStd decOk fmt bs = .err c :=
  total_of (std_read_no_panic decOk fmt bs) (std_read_err decOk fmt bs)

/-! ## mission MSG -/

def missionReadErrs : List String := [eofErr, undecodable]

local macro "mission_leaf" : tactic =>
  `(tactic| (intro h; first | (cases h; done) | (injection h with h; subst h; simp only [missionReadErrs, List.mem_cons, true_or, or_true]; done)))

/-- `line as u8 + 1` cannot overflow for the 3 resp. 6 lines of an entry -/
theorem missionCipher_no_panic (stage scene player : UInt16) (line : Nat) (h : line % 256 ≠ 255) :
    (missionCipher stage scene player line).isPanic = false := by
  unfold missionCipher
  rw [if_neg h]
  rfl

theorem missionCipher_err (stage scene player : UInt16) (line : Nat) :
    ErrIn missionReadErrs (missionCipher stage scene player line) := by
  intro c
  unfold missionCipher
  split <;> (intro h; cases h)

theorem readMissionLines_no_panic (decOk : Bytes → Bool) (stage scene player : UInt16) :
    ∀ (n line : Nat) (bs : Bytes), n + line ≤ 255 →
      (readMissionLines decOk stage scene player n line bs).isPanic = false := by
  intro n
  induction n with
  | zero => intro _ _ _; rfl
  | succ n ih =>
    intro line bs hl
    rw [readMissionLines]
    have hc := missionCipher_no_panic stage scene player line (by omega)
    have hr := fun r => ih (line + 1) r (by omega)
    repeat' split
    all_goals first
      | rfl
      | (rename_i h; exact absurd h (ne_panic_of hc _))
      | (rename_i h; exact absurd h (ne_panic_of (hr _) _))

theorem readMissionLines_err (decOk : Bytes → Bool) (stage scene player : UInt16) :
    ∀ (n line : Nat) (bs : Bytes), ErrIn missionReadErrs (readMissionLines decOk stage scene player n line bs) := by
  intro n
  induction n with
  | zero => intro _ _ c h; cases h
  | succ n ih =>
    intro line bs c
    rw [readMissionLines]
    repeat' split
    all_goals first
      | mission_leaf
      | (rename_i hq; intro h; injection h with h; subst h; exact missionCipher_err _ _ _ _ _ hq)
      | (rename_i hq; intro h; injection h with h; subst h; exact ih _ _ _ hq)

theorem readMissionEntry_no_panic (decOk : Bytes → Bool) (fmt : MissionFmt) (bs : Bytes) :
    (readMissionEntry decOk fmt bs).isPanic = false := by
  unfold readMissionEntry
  repeat' split
  all_goals first
    | rfl
    | (rename_i h; exact absurd h (ne_panic_of (readMissionLines_no_panic _ _ _ _ _ _ _ (by decide)) _))

theorem readMissionEntry_err (decOk : Bytes → Bool) (fmt : MissionFmt) (bs : Bytes) :
    ErrIn missionReadErrs (readMissionEntry decOk fmt bs) := by
  intro c
  unfold readMissionEntry
  repeat' split
  all_goals first
    | mission_leaf
    | (rename_i hq; intro h; injection h with h; subst h; exact readMissionLines_err _ _ _ _ _ _ _ _ hq)

theorem readMissionEntriesAux_no_panic (decOk : Bytes → Bool) (fmt : MissionFmt) :
    ∀ (n : Nat) (acc : List MissionEntry) (bs : Bytes), (readMissionEntriesAux decOk fmt n acc bs).isPanic = false := by
  intro n
  induction n with
  | zero => intro _ _; rfl
  | succ n ih =>
    intro acc bs
    rw [readMissionEntriesAux]
    split
    · exact ih _ _
    · rfl
    · rename_i h; exact absurd h (ne_panic_of (readMissionEntry_no_panic _ _ _) _)

theorem readMissionEntriesAux_err (decOk : Bytes → Bool) (fmt : MissionFmt) :
    ∀ (n : Nat) (acc : List MissionEntry) (bs : Bytes), ErrIn missionReadErrs (readMissionEntriesAux decOk fmt n acc bs) := by
  intro n
  induction n with
  | zero => intro _ _ c h; cases h
  | succ n ih =>
    intro acc bs
    rw [readMissionEntriesAux]
    split
    · exact ih _ _
    · rename_i c' hq; intro c h; injection h with h; subst h; exact readMissionEntry_err _ _ _ _ hq
    · intro c h; cases h

/-- **mission MSG: `read_mission_msg` ends in a file or a diagnostic for EVERY byte string.** -/
theorem mission_read_no_panic (decOk : Bytes → Bool) (fmt : MissionFmt) (bs : Bytes) :
    (readMission decOk fmt bs).isPanic = false := by
  unfold readMission
  repeat' split
  all_goals first | rfl | exact readMissionEntriesAux_no_panic _ _ _ _ _

theorem mission_read_err (decOk : Bytes → Bool) (fmt : MissionFmt) (bs : Bytes) :
    ErrIn missionReadErrs (readMission decOk fmt bs) := by
  intro c
  unfold readMission
  repeat' split
  all_goals first | mission_leaf | exact readMissionEntriesAux_err _ _ _ _ _ _

theorem mission_read_total (decOk : Bytes → Bool) (fmt : MissionFmt) (bs : Bytes) :
    (∃ es, readMission decOk fmt bs = .ok es) ∨ ∃ c ∈ missionReadErrs, readMission decOk fmt bs = .err c :=
  total_of (mission_read_no_panic decOk fmt bs) (mission_read_err decOk fmt bs)

/-! ## old ECL -/

def eclReadErrs : List String := [eofErr, badSize, readPastEnd, badMagic, timelineAfterNull, emptyTimelineTable]

local macro "ecl_leaf" : tactic =>
  `(tactic| (intro h; first | (cases h; done) | (injection h with h; subst h; simp only [eclReadErrs, List.mem_cons, true_or, or_true]; done)))

theorem eclAfterMagic_no_panic (fmt : EclFmt) (bs : Bytes) : (eclAfterMagic fmt bs).isPanic = false := by
  unfold eclAfterMagic
  repeat' split
  all_goals rfl

theorem eclAfterMagic_err (fmt : EclFmt) (bs : Bytes) : ErrIn eclReadErrs (eclAfterMagic fmt bs) := by
  intro c
  unfold eclAfterMagic
  repeat' split
  all_goals ecl_leaf

/-- `num_timelines.checked_sub(1)`: an error, not an underflow (8c247ce) -/
theorem eclNumTimelines_no_panic (kind : TlKind) (n : Nat) : (eclNumTimelines kind n).isPanic = false := by
  unfold eclNumTimelines
  repeat' split
  all_goals rfl

theorem eclNumTimelines_err (kind : TlKind) (n : Nat) : ErrIn eclReadErrs (eclNumTimelines kind n) := by
  intro c
  unfold eclNumTimelines
  repeat' split
  all_goals ecl_leaf

theorem readScriptsAt_no_panic (f : Fmt) (file : Bytes) : ∀ (offs : List Nat) (acc : List (List Instr)),
    (readScriptsAt f file offs acc).isPanic = false := by
  intro offs
  induction offs with
  | nil => intro _; rfl
  | cons off offs ih =>
    intro acc
    rw [readScriptsAt]
    split
    · exact ih _
    · rfl
    · rename_i h; exact absurd h (ne_panic_of (readInstrs_no_panic _ _) _)

theorem readScriptsAt_err (f : Fmt) (file : Bytes) : ∀ (offs : List Nat) (acc : List (List Instr)),
    ErrIn eclReadErrs (readScriptsAt f file offs acc) := by
  intro offs
  induction offs with
  | nil => intro _ c h; cases h
  | cons off offs ih =>
    intro acc
    rw [readScriptsAt]
    split
    · exact ih _
    · rename_i c' hq
      intro c h; injection h with h; subst h
      exact ErrIn.mono (readInstrs_err _ _) (by intro c hc; simp only [instrReadErrs, List.mem_cons, List.not_mem_nil, or_false] at hc; rcases hc with rfl | rfl | rfl <;> simp [eclReadErrs]) _ hq
    · intro c h; cases h

/-- **old ECL: `read_olde_ecl` ends in a file or a diagnostic for EVERY byte string**, every game
(TH06-TH095) and in fact every format description.  Before 8c247ce the model had one reachable panic
(`num_timelines -= 1`, TH07/TH08/TH095, timeline array starting with a zero offset). -/
theorem ecl_read_no_panic (fmt : EclFmt) (bs : Bytes) : (readEcl fmt bs).isPanic = false := by
  unfold readEcl
  repeat' split
  all_goals first
    | rfl
    | (rename_i h; exact absurd h (ne_panic_of (eclAfterMagic_no_panic _ _) _))
    | (rename_i h; exact absurd h (ne_panic_of (eclNumTimelines_no_panic _ _) _))
    | (rename_i h; exact absurd h (ne_panic_of (readScriptsAt_no_panic _ _ _ _) _))

/-- the input that made the unrepaired reader panic (68 zero bytes as a TH07 ECL file; replayed on the
implementation: `truecl decompile -g 7` now prints "timeline table has no entries ..." and exits 1) -/
theorem ecl_read_formerly_panicking_input : readEcl eclTh07 (List.replicate 68 0) = .err emptyTimelineTable := by
  decide

theorem ecl_read_err (fmt : EclFmt) (bs : Bytes) : ErrIn eclReadErrs (readEcl fmt bs) := by
  intro c
  unfold readEcl
  repeat' split
  all_goals first
    | ecl_leaf
    | (rename_i hq; intro h; injection h with h; subst h; exact eclAfterMagic_err _ _ _ hq)
    | (rename_i hq; intro h; injection h with h; subst h; exact eclNumTimelines_err _ _ _ hq)
    | (rename_i hq; intro h; injection h with h; subst h; exact readScriptsAt_err _ _ _ _ _ hq)

/-- **old ECL: every byte string gives a file or one of six diagnostics.** -/
theorem ecl_read_total (fmt : EclFmt) (bs : Bytes) :
    (∃ e, readEcl fmt bs = .ok e) ∨ ∃ c ∈ eclReadErrs, readEcl fmt bs = .err c :=
  total_of (ecl_read_no_panic fmt bs) (ecl_read_err fmt bs)

/-! ## allocation: what a reader builds is bounded by its input -/

/-- bytes of a script as stored (headers + argument blobs): what the reader allocates for it, up to a constant per instruction -/
def sizeSum (f : Fmt) (is : List Instr) : Nat := (is.map (instrSize f)).sum

theorem sizeSum_cons (f : Fmt) (i : Instr) (is : List Instr) : sizeSum f (i :: is) = instrSize f i + sizeSum f is := by
  simp [sizeSum]

theorem sizeSum_reverse (f : Fmt) (is : List Instr) : sizeSum f is.reverse = sizeSum f is := by
  simp [sizeSum, List.sum_reverse]

theorem sizeSum_commit_le (f : Fmt) (p : Option Instr) (acc : List Instr) : sizeSum f acc ≤ sizeSum f (C03.commit p acc) := by
  cases p with
  | none => exact Nat.le_refl _
  | some i => simp only [C03.commit, sizeSum_cons]; omega

theorem readInstr_size {f : Fmt} {bs : Bytes} {res : ReadRes} {r : Bytes} {i : Instr}
    (h : readInstr f bs = .ok (res, r)) (hi : res = .instr i ∨ res = .maybeTerminal i) :
    instrSize f i + r.length = bs.length := by
  obtain ⟨hdr, hl, rfl⟩ := readInstr_shape f bs res r i h hi
  simp only [List.length_append, instrSize]
  omega

theorem readInstrsAux_size (f : Fmt) : ∀ (n : Nat) (pending : Option Instr) (acc : List Instr) (bs : Bytes) (is : List Instr),
    readInstrsAux f n pending acc bs = .ok is → sizeSum f is ≤ sizeSum f (C03.commit pending acc) + bs.length := by
  intro n
  induction n with
  | zero => intro pending acc bs is h; cases pending <;> (rw [readInstrsAux] at h; cases h)
  | succ n ih =>
    intro pending acc bs is h
    rw [C03.readInstrsAux_succ] at h
    cases hr : readInstr f bs with
    | ok p =>
      obtain ⟨res, r⟩ := p
      rw [hr] at h
      cases res with
      | instr i =>
        have hs := readInstr_size hr (.inl rfl)
        have := ih _ _ _ _ h
        simp only [C03.commit, sizeSum_cons] at this ⊢
        omega
      | maybeTerminal i =>
        have hs := readInstr_size hr (.inr rfl)
        have := ih _ _ _ _ h
        simp only [C03.commit, sizeSum_cons] at this ⊢
        omega
      | terminal =>
        cases h
        rw [sizeSum_reverse]
        have := sizeSum_commit_le f pending acc
        omega
      | eof =>
        cases h
        rw [sizeSum_reverse]
        have := sizeSum_commit_le f pending acc
        omega
    | err c => rw [hr] at h; cases h
    | panic s => rw [hr] at h; cases h

/-- **A parsed script is no larger than the bytes it was parsed from.** -/
theorem readInstrs_size_bound (f : Fmt) (bs : Bytes) (is : List Instr) (h : readInstrs f bs = .ok is) :
    sizeSum f is ≤ bs.length := by
  have := readInstrsAux_size f _ _ _ _ _ h
  simpa [C03.commit, sizeSum] using this

theorem sizeSum_commit_le' (f : Fmt) (p : Option Instr) (acc : List Instr) : sizeSum f acc ≤ sizeSum f (Files.commit p acc) := by
  cases p with
  | none => exact Nat.le_refl _
  | some i => simp only [Files.commit, sizeSum_cons]; omega

theorem readInstrsEndAux_size (f : Fmt) (e : Option Nat) : ∀ (n : Nat) (pending : Option Instr) (acc : List Instr) (cur : Nat)
    (bs : Bytes) (is : List Instr),
    readInstrsEndAux f e n pending acc cur bs = .ok is → sizeSum f is ≤ sizeSum f (Files.commit pending acc) + bs.length := by
  intro n
  induction n with
  | zero => intro pending acc cur bs is h; rw [readInstrsEndAux] at h; cases h
  | succ n ih =>
    intro pending acc cur bs is h
    rw [readInstrsEndAux_succ] at h
    cases hc : endCheck e cur with
    | stop =>
      rw [hc] at h; cases h
      rw [sizeSum_reverse]
      have := sizeSum_commit_le' f pending acc
      omega
    | past => rw [hc] at h; cases h
    | go =>
      rw [hc] at h
      cases hr : readInstr f bs with
      | ok p =>
        obtain ⟨res, r⟩ := p
        rw [hr] at h
        cases res with
        | instr i =>
          have hs := readInstr_size hr (.inl rfl)
          have := ih _ _ _ _ _ h
          simp only [Files.commit, sizeSum_cons] at this ⊢
          omega
        | maybeTerminal i =>
          have hs := readInstr_size hr (.inr rfl)
          have := ih _ _ _ _ _ h
          simp only [Files.commit, sizeSum_cons] at this ⊢
          omega
        | terminal =>
          cases h
          rw [sizeSum_reverse]
          have := sizeSum_commit_le' f pending acc
          omega
        | eof =>
          cases h
          rw [sizeSum_reverse]
          have := sizeSum_commit_le' f pending acc
          omega
      | err c => rw [hr] at h; cases h
      | panic s => rw [hr] at h; cases h

theorem readInstrsEnd_size_bound (f : Fmt) (e : Option Nat) (start : Nat) (bs : Bytes) (is : List Instr)
    (h : readInstrsEnd f e start bs = .ok is) : sizeSum f is ≤ bs.length := by
  have := readInstrsEndAux_size f e _ _ _ _ _ _ h
  simpa [Files.commit, sizeSum] using this

theorem seek_length_le (file : Bytes) (off : Nat) : (seek file off).length ≤ file.length := by
  simp [seek]

/-! ### mission MSG -/

theorem readMissionLines_consumes (decOk : Bytes → Bool) (stage scene player : UInt16) :
    ∀ (n line : Nat) (bs : Bytes) (ss : List Bytes) (r : Bytes),
      readMissionLines decOk stage scene player n line bs = .ok (ss, r) → bs.length = r.length + 64 * n ∧ ss.length = n := by
  intro n
  induction n with
  | zero => intro line bs ss r h; rw [readMissionLines] at h; cases h; simp
  | succ n ih =>
    intro line bs ss r h
    rw [readMissionLines] at h
    repeat' split at h
    all_goals first | (cases h; done) | skip
    rename_i hb _ _ _ _ _ _ _ hr
    cases h
    have := ih _ _ _ _ hr
    have := (rdBytes_len hb).1
    simp only [List.length_cons]
    omega

theorem readMissionEntry_consumes {decOk : Bytes → Bool} {fmt : MissionFmt} {bs : Bytes} {e : MissionEntry} {r : Bytes}
    (h : readMissionEntry decOk fmt bs = .ok (e, r)) : bs.length = r.length + fmt.entrySize := by
  unfold readMissionEntry at h
  repeat' split at h
  all_goals first | (cases h; done) | skip
  all_goals
    rename_i hl
    cases h
    have := (readMissionLines_consumes _ _ _ _ _ _ _ _ _ hl).1
    simp only [MissionFmt.entrySize]
    grind [→ rdU8_len, → rdU16_len, → rdU32_len, → rdU32s_len]

theorem readMissionEntriesAux_len (decOk : Bytes → Bool) (fmt : MissionFmt) :
    ∀ (n : Nat) (acc : List MissionEntry) (bs : Bytes) (es : List MissionEntry),
      readMissionEntriesAux decOk fmt n acc bs = .ok es → es.length = acc.length + n ∧ fmt.entrySize * n ≤ bs.length := by
  intro n
  induction n with
  | zero => intro acc bs es h; rw [readMissionEntriesAux] at h; cases h; simp
  | succ n ih =>
    intro acc bs es h
    rw [readMissionEntriesAux] at h
    split at h
    · rename_i e r he
      have := ih _ _ _ h
      have := readMissionEntry_consumes he
      simp only [List.length_cons, Nat.mul_add, Nat.mul_one] at *
      omega
    · cases h
    · cases h

/-- **mission MSG: the entries that were read occupy that many bytes of the input** (an entry is a
fixed-size record of 204 resp. 424 bytes, its text lines are at most 64 bytes each). -/
theorem mission_read_alloc_bound (decOk : Bytes → Bool) (fmt : MissionFmt) (bs : Bytes) (es : List MissionEntry)
    (h : readMission decOk fmt bs = .ok es) : 4 + (4 + fmt.entrySize) * es.length ≤ bs.length := by
  unfold readMission at h
  repeat' split at h
  all_goals first | (cases h; done) | skip
  rename_i n r1 h1 _ offs r2 h2
  have := readMissionEntriesAux_len _ _ _ _ _ _ h
  have := rdU32_len h1
  have := (rdU32s_len h2).1
  simp only [List.length_nil, Nat.zero_add] at *
  obtain ⟨hl, hb⟩ := this
  rw [hl, Nat.add_mul]
  omega

/-! ### STD -/

theorem rdU16_lt {bs : Bytes} {v : Nat} {r : Bytes} (h : rdU16 bs = some (v, r)) : v < 65536 := by
  match bs, h with
  | a :: b :: r', h =>
    simp only [rdU16, Option.some.injEq, Prod.mk.injEq] at h
    have := a.toNat_lt
    have := b.toNat_lt
    omega

theorem readStrs_consumes (decOk : Bytes → Bool) (n : Nat) : ∀ (k : Nat) (bs : Bytes) (l : List Bytes) (r : Bytes),
    readStrs decOk n k bs = .ok (l, r) → bs.length = r.length + n * k := by
  intro k
  induction k with
  | zero => intro bs l r h; rw [readStrs] at h; cases h; simp
  | succ k ih =>
    intro bs l r h
    rw [readStrs] at h
    split at h
    · rename_i s r1 hs
      split at h
      · rename_i ss r2 h2
        cases h
        have := ih _ _ _ h2
        unfold readStr at hs
        split at hs
        · cases hs
        · rename_i buf r' hb
          split at hs
          · cases hs
            have := (rdBytes_len hb).1
            rw [Nat.mul_add]
            omega
          · cases hs
      · cases h
      · cases h
    · cases h
    · cases h

theorem readExtra_consumes {decOk : Bytes → Bool} {fmt : StdFmt} {bs : Bytes} {x : StdExtra} {r : Bytes}
    (h : readExtra decOk fmt bs = .ok (x, r)) : r.length ≤ bs.length := by
  unfold readExtra at h
  repeat' split at h
  all_goals first | (cases h; done) | skip
  all_goals
    rename_i hs
    cases h
    have := readStrs_consumes _ _ _ _ _ _ hs
    omega

theorem readQuads_len : ∀ (fuel : Nat) (acc : List Quad) (bs : Bytes) (qs : List Quad) (r : Bytes),
    readQuads fuel acc bs = .ok (qs, r) → 28 * qs.length ≤ 28 * acc.length + bs.length := by
  intro fuel
  induction fuel with
  | zero => intro acc bs qs r h; rw [readQuads] at h; cases h
  | succ n ih =>
    intro acc bs qs r h
    rw [readQuads] at h
    split at h
    · cases h; simp only [List.length_reverse]; omega
    · rename_i q r1 hq
      have h1 := ih _ _ _ _ h
      have h2 := readQuad_consumes_quad hq
      simp only [List.length_cons] at h1
      omega
    · cases h
    · cases h

theorem readObject_quads {bs : Bytes} {o : Object} (h : readObject bs = .ok o) : 28 * o.quads.length + 28 ≤ bs.length := by
  unfold readObject at h
  repeat' split at h
  all_goals first | (cases h; done) | skip
  rename_i h1 _ _ _ h2 _ _ _ h3 _ _ _ h4 _ _ _ hq
  cases h
  have := readQuads_len _ _ _ _ _ hq
  have := rdU16_len h1; have := rdU16_len h2; have := rdF3_len h3; have := rdF3_len h4
  simp only [List.length_nil] at *
  omega

theorem readObjectsAux_bound (file : Bytes) : ∀ (offs : List Nat) (i : Nat) (acc res : List (Nat × Object)),
    readObjectsAux file i offs acc = .ok res → (∀ o ∈ acc, 28 * o.2.quads.length + 28 ≤ file.length) →
      res.length = acc.length + offs.length ∧ ∀ o ∈ res, 28 * o.2.quads.length + 28 ≤ file.length := by
  intro offs
  induction offs with
  | nil =>
    intro i acc res h hacc
    rw [readObjectsAux] at h
    cases h
    exact ⟨by simp, fun o ho => hacc o (List.mem_reverse.1 ho)⟩
  | cons off offs ih =>
    intro i acc res h hacc
    rw [readObjectsAux] at h
    split at h
    · rename_i o ho
      have hq := readObject_quads ho
      have hs := seek_length_le file off
      obtain ⟨hl, hall⟩ := ih _ _ _ h (by
        intro o' ho'
        rcases List.mem_cons.1 ho' with rfl | ho'
        · simp only; omega
        · exact hacc _ ho')
      refine ⟨by simp only [List.length_cons] at hl ⊢; omega, hall⟩
    · cases h
    · cases h

theorem readInstances_len (objects : List (Nat × Object)) : ∀ (fuel : Nat) (acc : List Instance) (bs : Bytes) (xs : List Instance),
    readInstances objects fuel acc bs = .ok xs → 16 * xs.length ≤ 16 * acc.length + bs.length := by
  intro fuel
  induction fuel with
  | zero => intro acc bs xs h; rw [readInstances] at h; cases h
  | succ n ih =>
    intro acc bs xs h
    rw [readInstances] at h
    split at h
    · cases h; simp only [List.length_reverse]; omega
    · rename_i x r1 hq
      have h1 := ih _ _ _ h
      have h2 := readInstance_consumes_some hq
      simp only [List.length_cons] at h1
      omega
    · cases h
    · cases h

/-- **STD: what `read_std` builds is bounded by the input** - per object.  The number of objects is
at most 65535 (a 16-bit count, and 4 bytes of offset table each), every object has at most
`len / 28` quads, there are at most `len / 16` instances and the script is no larger than the file. -/
theorem std_read_alloc_bound (decOk : Bytes → Bool) (fmt : StdFmt) (bs : Bytes) (f : StdFile)
    (h : readStd decOk fmt bs = .ok f) :
    f.objects.length ≤ 65535 ∧ 4 * f.objects.length + 16 ≤ bs.length ∧
    (∀ o ∈ f.objects, 28 * o.2.quads.length + 28 ≤ bs.length) ∧
    16 * f.instances.length ≤ bs.length ∧ sizeSum fmt.instr f.script ≤ bs.length := by
  unfold readStd at h
  repeat' split at h
  all_goals first | (cases h; done) | skip
  rename_i n r1 h1 _ nq r2 h2 _ io r3 h3 _ so r4 h4 _ unk r5 h5 _ extra r6 h6 _ offs r7 h7 _ objects hobj _ instances hinst _ script hscript
  cases h
  have hn := rdU16_lt h1
  obtain ⟨hlen, hall⟩ := readObjectsAux_bound bs _ _ _ _ hobj (by intro o ho; cases ho)
  have hoffs := rdU32s_len h7
  have := rdU16_len h1; have := rdU16_len h2; have := rdU32_len h3; have := rdU32_len h4; have := rdU32_len h5
  have hi := readInstances_len _ _ _ _ _ hinst
  have hs1 := seek_length_le bs io
  have hs2 := seek_length_le bs so
  have hsc := readInstrs_size_bound _ _ _ hscript
  simp only [List.length_nil, Nat.zero_add, Nat.mul_zero] at *
  have := readExtra_consumes h6
  refine ⟨by omega, by omega, hall, by omega, by omega⟩

def numQuadsOf (objects : List (Nat × Object)) : Nat := (objects.map (·.2.quads.length)).sum

/-! ### old ECL -/

theorem readScriptsAt_bound (f : Fmt) (file : Bytes) : ∀ (offs : List Nat) (acc res : List (List Instr)),
    readScriptsAt f file offs acc = .ok res → (∀ s ∈ acc, sizeSum f s ≤ file.length) →
      res.length = acc.length + offs.length ∧ ∀ s ∈ res, sizeSum f s ≤ file.length := by
  intro offs
  induction offs with
  | nil =>
    intro acc res h hacc
    rw [readScriptsAt] at h
    cases h
    exact ⟨by simp, fun s hs => hacc s (List.mem_reverse.1 hs)⟩
  | cons off offs ih =>
    intro acc res h hacc
    rw [readScriptsAt] at h
    split at h
    · rename_i is hi
      have hq := readInstrs_size_bound _ _ _ hi
      have hs := seek_length_le file off
      obtain ⟨hl, hall⟩ := ih _ _ h (by
        intro s' hs'
        rcases List.mem_cons.1 hs' with rfl | hs'
        · omega
        · exact hacc _ hs')
      refine ⟨by simp only [List.length_cons] at hl ⊢; omega, hall⟩
    · cases h
    · cases h

/-- **old ECL: what `read_olde_ecl` builds is bounded by the input** - per sub.  At most 65535
subs (16-bit count, 4 bytes of offset table each), each no larger than the file. -/
theorem ecl_read_alloc_bound (fmt : EclFmt) (bs : Bytes) (e : EclFile) (h : readEcl fmt bs = .ok e) :
    e.subs.length ≤ 65535 ∧ 4 * e.subs.length + 4 ≤ bs.length ∧ (∀ s ∈ e.subs, sizeSum fmt.ecl s ≤ bs.length) ∧
    4 * e.timelines.length + 4 ≤ bs.length ∧ (∀ s ∈ e.timelines, sizeSum fmt.tl s ≤ bs.length) := by
  unfold readEcl at h
  repeat' split at h
  all_goals first | (cases h; done) | skip
  rename_i r0 hm _ n r1 h1 _ high r2 h2 _ tl r3 h3 _ so r4 h4 _ _ numTl hnt _ subs hsubs _ tls htls
  cases h
  have hn := rdU16_lt h1
  obtain ⟨hl1, hall1⟩ := readScriptsAt_bound _ bs _ _ _ hsubs (by intro s hs; cases hs)
  obtain ⟨hl2, hall2⟩ := readScriptsAt_bound _ bs _ _ _ htls (by intro s hs; cases hs)
  have ho1 := rdU32s_len h3
  have ho2 := rdU32s_len h4
  have := rdU16_len h1; have := rdU16_len h2
  have hr0 : r0.length ≤ bs.length := by
    unfold eclAfterMagic at hm
    repeat' split at hm
    all_goals first | (cases hm; done) | skip
    · cases hm; exact Nat.le_refl _
    · rename_i hb _
      cases hm
      have := (rdBytes_len hb).1
      omega
  have htake : (tl.take numTl).length ≤ tl.length := by simp only [List.length_take]; omega
  simp only [List.length_nil, Nat.zero_add] at *
  exact ⟨by omega, by omega, hall1, by omega, hall2⟩

/-! ### MSG -/

theorem readMsgTableAux_len (hasFlags : Bool) : ∀ (n : Nat) (acc : List (Nat × Nat)) (bs : Bytes) (raw : List (Nat × Nat)),
    readMsgTableAux hasFlags n acc bs = .ok raw → raw.length = acc.length + n ∧ 4 * n ≤ bs.length := by
  intro n
  induction n with
  | zero => intro acc bs raw h; rw [readMsgTableAux] at h; cases h; simp
  | succ n ih =>
    intro acc bs raw h
    rw [readMsgTableAux] at h
    split at h
    · cases h
    · rename_i off r1 h1
      have := rdU32_len h1
      split at h
      · split at h
        · cases h
        · rename_i fl r2 h2
          have := rdU32_len h2
          have := ih _ _ _ h
          simp only [List.length_cons] at this
          omega
      · have := ih _ _ _ h
        simp only [List.length_cons] at this
        omega

theorem insertU_length (x : Nat) : ∀ l : List Nat, (insertU x l).length ≤ l.length + 1 := by
  intro l
  induction l with
  | nil => simp [insertU]
  | cons y ys ih =>
    rw [insertU]
    split
    · simp
    · split
      · simp
      · simp only [List.length_cons]; omega

theorem sortU_length : ∀ l : List Nat, (sortU l).length ≤ l.length := by
  intro l
  induction l with
  | nil => simp [sortU]
  | cons x xs ih =>
    have := insertU_length x (sortU xs)
    simp only [sortU, List.foldr_cons, List.length_cons] at *
    omega

theorem withEnds_length : ∀ l : List Nat, (withEnds l).length = l.length := by
  intro l
  induction l with
  | nil => rfl
  | cons a t ih =>
    cases t with
    | nil => rfl
    | cons b r => simp only [withEnds, List.length_cons] at *; omega

theorem collectRecover_ok {α} : ∀ (l : List (Outcome α)) (as : List α), collectRecover l = .ok as →
    as.length = l.length ∧ ∀ a ∈ as, ∃ x ∈ l, x = .ok a := by
  intro l
  induction l with
  | nil => intro as h; cases h; exact ⟨rfl, fun a ha => by cases ha⟩
  | cons x xs ih =>
    intro as h
    cases x with
    | panic s => simp only [collectRecover] at h; cases h
    | err c =>
      simp only [collectRecover] at h
      cases hr : collectRecover xs with
      | panic s => rw [hr] at h; cases h
      | ok as' => rw [hr] at h; cases h
      | err c' => rw [hr] at h; cases h
    | ok a =>
      simp only [collectRecover] at h
      cases hr : collectRecover xs with
      | panic s => rw [hr] at h; cases h
      | err c' => rw [hr] at h; cases h
      | ok as' =>
        rw [hr] at h
        cases h
        obtain ⟨hl, hall⟩ := ih _ hr
        refine ⟨by simp only [List.length_cons, hl], ?_⟩
        intro b hb
        rcases List.mem_cons.1 hb with rfl | hb
        · exact ⟨_, List.mem_cons_self .., rfl⟩
        · obtain ⟨y, hy, rfl⟩ := hall b hb
          exact ⟨_, List.mem_cons_of_mem _ hy, rfl⟩

/-- the linear bound for a whole MSG file (scripts are read from disjoint windows of the file); stated, not proved -/
def msg_read_alloc_bound_full : Prop :=
  ∀ (hasFlags : Bool) (bs : Bytes) (m : MsgFile), readMsg hasFlags bs = .ok m →
    4 * m.table.length + ((m.scripts.map fun s => sizeSum .msg s.2).sum) ≤ 2 * bs.length

/-- **MSG: what `read_msg` builds is bounded by the input** - per script: the table has at most
`len / 4` entries, there are no more scripts than table entries and each script is no larger than
the file.  (The sum over all scripts is linear as well, because script `i` is read only up to the
offset of script `i + 1`: `msg_read_alloc_bound_full`, not proved.) -/
theorem msg_read_alloc_bound_partial (hasFlags : Bool) (bs : Bytes) (m : MsgFile) (h : readMsg hasFlags bs = .ok m) :
    4 * m.table.length + 4 ≤ bs.length ∧ m.scripts.length ≤ m.table.length ∧
    ∀ s ∈ m.scripts, sizeSum .msg s.2 ≤ bs.length := by
  unfold readMsg at h
  repeat' split at h
  all_goals first | (cases h; done) | skip
  rename_i n r1 h1 _ raw hraw _ scripts hscripts
  cases h
  have := rdU32_len h1
  obtain ⟨hl, hb⟩ := readMsgTableAux_len _ _ _ _ _ hraw
  obtain ⟨hsl, hsall⟩ := collectRecover_ok _ _ hscripts
  simp only [List.length_nil, Nat.zero_add] at hl
  refine ⟨?_, ?_, ?_⟩
  · simp only [msgTableOf, List.length_map]; omega
  · simp only [msgTableOf, List.length_map]
    rw [hsl, List.length_map, withEnds_length]
    have h1 := sortU_length (nzOffsets raw)
    have h2 : (nzOffsets raw).length ≤ raw.length := by
      unfold nzOffsets
      have := List.length_filter_le (fun x => decide (x ≠ 0)) (raw.map (·.1))
      simpa using this
    omega
  · intro s hs
    obtain ⟨x, hx, hxe⟩ := hsall s hs
    simp only [List.mem_map] at hx
    obtain ⟨y, _, rfl⟩ := hx
    unfold readMsgScript at hxe
    split at hxe
    · rename_i is hi
      cases hxe
      have := readInstrsEnd_size_bound _ _ _ _ _ hi
      have := seek_length_le bs y.1
      simp only
      omega
    · cases hxe
    · cases hxe

/-! ### the factor 65535 is real: entries of an offset table may share their target -/

/-- a TH10-layout STD file with 4 object offsets that all point at one object of 3 quads -/
def sharedStd : Bytes :=
  u16 4 ++ u16 3 ++ u32 276 ++ u32 292 ++ u32 0 ++ List.replicate 128 0 ++ u32s [160, 160, 160, 160]
    ++ (u16 0 ++ u16 0 ++ List.replicate 24 0 ++ (List.replicate 3 (i16 0 ++ u16 28 ++ List.replicate 24 0)).flatten ++ i16 (-1) ++ u16 4)
    ++ List.replicate 16 255 ++ List.replicate 20 255

def readsAs (n q : Nat) (o : Outcome StdFile) : Bool :=
  match o with
  | .ok f => f.objects.length == n && numQuadsOf f.objects == q
  | _ => false

set_option maxRecDepth 16000 in
/-- **Amplification witness**: the 312-byte file `sharedStd` stores 3 quads and reads as 4 objects with
12 quads: each of the `n` table entries materialises the shared object again (n x q quads from
4 n + 28 q bytes of input).  On the implementation: 8000 entries x 400 quads = 43 kB of input,
150 MB allocated; 65535 x 500 (276 kB) ends in SIGABRT. -/
theorem std_alloc_amplification :
    sharedStd.length = 312 ∧ readsAs 4 12 (readStd (fun _ => true) .f10 sharedStd) = true := by
  decide


/-! ### STD: the linear bound, with its constant -/

theorem sum_le_length_mul (l : List Nat) (B : Nat) (h : ∀ x ∈ l, x ≤ B) : l.sum ≤ l.length * B := by
  induction l with
  | nil => simp
  | cons a r ih =>
    have ha := h a (List.mem_cons_self ..)
    have := ih (fun x hx => h x (List.mem_cons_of_mem _ hx))
    simp only [List.sum_cons, List.length_cons, Nat.add_mul, Nat.one_mul]
    omega

/-- **STD: total allocation `<= c * input length`, with `c = 65535 / 28`** (number of object table
entries x quads per byte): `28 * (number of quads built) <= 65535 * len`.  The constant is attained
up to rounding (`std_alloc_amplification`), which is why a 276 kB file can exhaust memory. -/
theorem std_read_alloc_bound_total (decOk : Bytes → Bool) (fmt : StdFmt) (bs : Bytes) (f : StdFile)
    (h : readStd decOk fmt bs = .ok f) : 28 * numQuadsOf f.objects ≤ 65535 * bs.length := by
  obtain ⟨hn, _, hall, _, _⟩ := std_read_alloc_bound decOk fmt bs f h
  have hs := sum_le_length_mul (f.objects.map (·.2.quads.length)) (bs.length / 28) (by
    intro x hx
    simp only [List.mem_map] at hx
    obtain ⟨o, ho, rfl⟩ := hx
    have := hall o ho
    omega)
  simp only [List.length_map] at hs
  have h1 : f.objects.length * (bs.length / 28) ≤ 65535 * (bs.length / 28) := Nat.mul_le_mul_right _ hn
  have h2 : 28 * (bs.length / 28) ≤ bs.length := Nat.mul_div_le _ _
  unfold numQuadsOf
  have h3 : 28 * (65535 * (bs.length / 28)) = 65535 * (28 * (bs.length / 28)) := by rw [Nat.mul_left_comm]
  have h4 : 65535 * (28 * (bs.length / 28)) ≤ 65535 * bs.length := Nat.mul_le_mul_left _ h2
  omega

end TruthModel.C16
