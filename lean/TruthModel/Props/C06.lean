import TruthModel.Lemmas.BlocksMain
import TruthModel.Lemmas.BlocksStruct
import TruthModel.Lemmas.BlocksRun
/-
C06 — turning blocks into labels and jumps preserves behaviour.

Model: `TruthModel/Model/Blocks.lean` (structured statements, lexical time, `Desugarer`, the
reference interpreter as the relation `Big` and as the executable `runS`, the flat machine).
Proof: `TruthModel/Lemmas/Blocks*.lean` (induction on `Big`, motive `Sim`).
-/
namespace TruthModel.C06
open TruthModel.Blocks

/-- The property as stated (no side conditions): every terminating run of the reference
interpreter on a script body is a run of the flat machine on the desugared body, with the same
instruction log (calls, arguments, real times), the same final time and real time and the same
registers.  `Big none` = everything `AstVm::_run` does.

This statement is **false of the unchanged code** (it is refuted by the three families of inputs
found by the search, see `known_findings.json`): `times(n)` with `n < 0` (the VM's
`for _ in 0..n` runs zero times, the count jump wraps around), `times(C = ..)` whose counter is
not positive at a decrement under the `--C > 0` count jump, and an absolute time label that goes
backwards (the VM resets `time` at block boundaries, the jumps do not). -/
def C06_full : Prop :=
  ∀ (k : CJ) (prog : List Stmt) (st st' : St) (tm : Nat → Int32),
    st.time ≤ 0 → Big none (.blk 0 prog) st (.done st') →
    ∃ tm', Exec (desugarA k prog) 0 ⟨st, tm⟩ (desugarA k prog).length ⟨st', tm'⟩

/-- **Proved part**: all statement kinds (calls, assignments, absolute / relative time labels
anywhere, free blocks, `if`/`unless` chains with and without `else`, `loop`, `while`,
`do-while`, `times` with and without counter under both count-jump flavours, `break` and
conditional `break` at any depth), every initial state, every context of temporaries — under
exactly the two side conditions that exclude the refuting inputs above:

* `MonoL 0 prog`: no time label makes the lexical time go backwards;
* `Big (some k)`: the run evaluates no negative `times` count, and under the `--C > 0`
  flavour no counter that is not positive after a decrement (rules `timesNeg`, `againTimesS`).

The flat run touches only generated temporaries (`tm` to `tm'`); log, time, real time and
registers are literally the same state `st'`. -/
theorem desugar_sound_partial (k : CJ) (prog : List Stmt) (st st' : St) (tm : Nat → Int32)
    (hmono : MonoL 0 prog) (ht : st.time ≤ 0) (h : Big (some k) (.blk 0 prog) st (.done st')) :
    ∃ tm', Exec (desugarA k prog) 0 ⟨st, tm⟩ (desugarA k prog).length ⟨st', tm'⟩ := by
  have hs := (sim k h).2
  simp only [SimE] at hs
  have hctx : Ctx (desugarA k prog) [] (desugarB k 0 0 0 prog).1 [] 0 (desugarB k 0 0 0 prog).2 :=
    ⟨by simp [desugarA], by simp⟩
  obtain ⟨tm', _, hx⟩ := hs 0 0 [] [] (desugarA k prog) tm st hctx ht hmono rfl
  refine ⟨tm', ?_⟩
  have hx' : ExecS (desugarA k prog) (desugarA k prog) ⟨st, tm⟩ [] ⟨st', tm'⟩ := by
    simpa [desugarA] using hx
  exact hx'.toExec_whole

/-- a `break` that leaves the script body cannot happen in a flat run either: the same theorem
for a body that ends in a propagating `break` says the flat code reaches the `goto` of that
`break` (stated for completeness of the `brk` outcome; such programs are rejected earlier). -/
theorem desugar_sound_break (k : CJ) (prog : List Stmt) (st st' : St) (tm : Nat → Int32)
    (hmono : MonoL 0 prog) (ht : st.time ≤ 0) (h : Big (some k) (.blk 0 prog) st (.brk st')) :
    ∃ tm', ∀ J fsJ, jumpS (desugarA k prog) 0 ⟨st', tm'⟩ = some (J, fsJ) →
      ExecS (desugarA k prog) (desugarA k prog) ⟨st, tm⟩ J fsJ := by
  have hs := (sim k h).2
  simp only [SimE] at hs
  have hctx : Ctx (desugarA k prog) [] (desugarB k 0 0 0 prog).1 [] 0 (desugarB k 0 0 0 prog).2 :=
    ⟨by simp [desugarA], by simp⟩
  obtain ⟨tm', _, hx⟩ := hs 0 0 [] [] (desugarA k prog) tm st hctx ht hmono rfl
  exact ⟨tm', by simpa [desugarA] using hx⟩

/-- The times used above are the ones the real pipeline computes: running the time pass
(`annot`, the model of `time_and_difficulty::run`) over the *statement list* `desugar k prog`
(the object compared with `passes::desugar_blocks::run` on every run) gives `desugarA k prog`:
generated labels and jumps get the time of the position they are inserted at. -/
theorem desugar_times (k : CJ) (prog : List Stmt) : annot 0 (desugar k prog) = desugarA k prog :=
  annot_desugar k prog

/-- `desugar_sound_partial` for the pipeline `statement list -> time pass -> flat machine`. -/
theorem desugar_sound_pipeline_partial (k : CJ) (prog : List Stmt) (st st' : St) (tm : Nat → Int32)
    (hmono : MonoL 0 prog) (ht : st.time ≤ 0) (h : Big (some k) (.blk 0 prog) st (.done st')) :
    ∃ tm', Exec (annot 0 (desugar k prog)) 0 ⟨st, tm⟩ (annot 0 (desugar k prog)).length ⟨st', tm'⟩ := by
  rw [desugar_times]; exact desugar_sound_partial k prog st st' tm hmono ht h

/-- The executable interpreter `runS` — the function whose output is compared with the real
`AstVm` (time, real time, instruction log, registers, iteration limit, panics) on every run —
refines the relation `Big none` in which `C06_full` is stated. -/
theorem runS_sound (max : Nat) (prog : List Stmt) (regs : Nat → Int32) (st' : St) (it' : Nat)
    (h : runS max prog regs = .done st' it') : Big none (.blk 0 prog) (St.init regs) (.done st') :=
  runSM_sound none max prog regs st' it' h

/-- End to end on the executable side: if the interpreter, with the two guards of mode `some k`
switched on (negative `times` count; counter not positive after a decrement under `--C > 0`),
terminates normally on a program whose time labels never go backwards, then the flat machine
runs the desugared program (statement list -> time pass) from the same registers to the same
log, time, real time and registers. -/
theorem desugar_sound_exec_partial (k : CJ) (max : Nat) (prog : List Stmt) (regs : Nat → Int32) (st' : St)
    (it' : Nat) (tm : Nat → Int32) (hmono : MonoL 0 prog) (h : runSM (some k) max prog regs = .done st' it') :
    ∃ tm', Exec (annot 0 (desugar k prog)) 0 ⟨St.init regs, tm⟩ (annot 0 (desugar k prog)).length ⟨st', tm'⟩ :=
  desugar_sound_pipeline_partial k prog _ st' tm hmono (Int.le_refl _) (runSM_sound (some k) max prog regs st' it' h)

/-- Generated labels are unique: every label is defined at most once in the output (so that
"the first label of that name" is *the* label), for the whole statement language. -/
theorem desugar_labels_unique (k : CJ) (prog : List Stmt) : (labelsOf (desugarA k prog)).Nodup :=
  desugarA_labels_nodup k prog

/-- The output is flat.  Its statements are of type `FStmt`, which has no block-carrying
constructor, and nothing is lost or reordered: the calls and time labels of the output are exactly
the calls and time labels of the source in textual order (`keepL`), for the whole language. -/
theorem desugar_flat (k : CJ) (prog : List Stmt) :
    (desugar k prog).filter FStmt.isCallOrTime = keepL prog :=
  desugar_keeps k prog

/-! ### the unconditional statement is false: witness -/

theorem stepF_terminal {P : List AF} {pc : Nat} {fs : FS} (h : P[pc]? = none) : stepF P pc fs = none := by
  simp [stepF, h]

/-- the flat machine is deterministic: two runs from the same configuration to terminal
program counters end in the same configuration -/
theorem Exec.det_terminal {P : List AF} {a b b' : Nat} {s t t' : FS}
    (h1 : Exec P a s b t) (h2 : Exec P a s b' t') (hb : P[b]? = none) (hb' : P[b']? = none) :
    b = b' ∧ t = t' := by
  induction h1 generalizing b' t' with
  | refl pc fs =>
    cases h2 with
    | refl => exact ⟨rfl, rfl⟩
    | step _ _ pc1 fs1 _ _ hs _ => rw [stepF_terminal hb] at hs; cases hs
  | step pc fs pc1 fs1 pc2 fs2 hs _ ih =>
    cases h2 with
    | refl => rw [stepF_terminal hb'] at hs; cases hs
    | step _ _ pc1' fs1' _ _ hs' h2' =>
      rw [hs] at hs'
      cases hs'
      exact ih h2' hb hb'

def wNeg : List Stmt := [.times none (.lit (-1)) [.call 11 [.lit 1]]]

theorem wNeg_code : desugarA .gt wNeg =
    [(0, .nop), (0, .decl 1), (0, .assign (.tmp 1) (.lit (-1))), (0, .label 3), (0, .nop), (0, .call 11 [.lit 1]), (0, .nop),
     (0, .cntjmp .gt (.tmp 1) 3), (0, .label 2), (0, .scopeEnd 1), (0, .label 0), (0, .nop)] := by
  rfl


/-- **The property as stated is false** (model level; the same input is replayed on the real
implementation by the harness on every run, `known-discrepancy-witness`): for
`times(-1) { ins_11(1); }` the reference interpreter logs nothing, the desugared program under
the `--C > 0` count jump logs the call once. -/
theorem C06_full_false : ¬ C06_full := by
  intro h
  have hbig : Big none (.blk 0 wNeg) (St.init fun _ => 0) (.done ((St.init fun _ => 0).setTime 0)) := by
    refine Big.blk 0 wNeg _ (St.init fun _ => 0) ((St.init fun _ => 0).setTime 0) _ (wait_self rfl) ?_ (wait_self rfl)
    exact Big.timesNeg 0 _ _ [] _ (St.init fun _ => 0) _ rfl (wait_self rfl) (by decide) (Big.nil _ _)
  obtain ⟨tm', hex⟩ := h .gt wNeg _ _ (fun _ => 0) (Int.le_refl _) hbig
  rw [wNeg_code] at hex
  have hrun : ∃ fs2, Exec [(0, .nop), (0, .decl 1), (0, .assign (.tmp 1) (.lit (-1))), (0, .label 3), (0, .nop), (0, .call 11 [.lit 1]), (0, .nop),
     (0, .cntjmp .gt (.tmp 1) 3), (0, .label 2), (0, .scopeEnd 1), (0, .label 0), (0, .nop)] 0 ⟨St.init fun _ => 0, fun _ => 0⟩ 12 fs2 ∧ fs2.st.log.length = 1 := by
    refine ⟨_, Exec.step _ _ _ _ _ _ rfl (Exec.step _ _ _ _ _ _ rfl (Exec.step _ _ _ _ _ _ rfl (Exec.step _ _ _ _ _ _ rfl
      (Exec.step _ _ _ _ _ _ rfl (Exec.step _ _ _ _ _ _ rfl (Exec.step _ _ _ _ _ _ rfl (Exec.step _ _ _ _ _ _ rfl
      (Exec.step _ _ _ _ _ _ rfl (Exec.step _ _ _ _ _ _ rfl (Exec.step _ _ _ _ _ _ rfl (Exec.step _ _ _ _ _ _ rfl
      (Exec.refl _ _)))))))))))), rfl⟩
  obtain ⟨fs2, hrun, hlen⟩ := hrun
  have := (Exec.det_terminal hex hrun rfl rfl).2
  rw [← this] at hlen
  simp [St.init, St.setTime] at hlen

/-! ### non-vacuity: a program with a taken `if`, a time label and a call satisfies the hypotheses -/

def exProg : List Stmt := [.cond (.elif true (.lit 1) [.trel 5, .call 11 [.lit 7]] .none)]

theorem exProg_mono : MonoL 0 exProg := by
  simp [exProg, MonoL, MonoS, MonoC, wrap32]

/-- the guarded interpreter terminates normally on it, with one logged call at real time 5 -/
theorem exProg_runs : (match runSM (some .ne) 20 exProg (fun _ => 0) with
    | .done st _ => st.log.length = 1 ∧ st.rtime = 5
    | _ => False) := by
  simp [runSM, exProg, defaultFuel, sizeL, sizeS, sizeC, runB, runL, runC, wait, St.init, endL, endS, endC, stmtTime,
      Res.andThen, Expr.evalB, Expr.eval, St.setTime, St.doCall, wrap32, i32max]

/-- so the hypotheses of `desugar_sound_exec_partial` / `desugar_sound_partial` are satisfiable by a
non-trivial input, and the conclusion talks about a run that logs a call -/
example : ∃ st' tm', st'.log.length = 1 ∧ st'.rtime = 5 ∧
    Exec (annot 0 (desugar .ne exProg)) 0 ⟨St.init (fun _ => 0), fun _ => 0⟩
      (annot 0 (desugar .ne exProg)).length ⟨st', tm'⟩ := by
  have h := exProg_runs
  split at h
  · rename_i st it heq
    obtain ⟨tm', hx⟩ := desugar_sound_exec_partial .ne 20 exProg _ st it (fun _ => 0) exProg_mono heq
    exact ⟨st, tm', h.1, h.2, hx⟩
  · exact h.elim

example : (labelsOf (desugarA .gt wNeg)) = [3, 2, 0] := by rw [wNeg_code]; rfl

end TruthModel.C06
