import TruthModel.Props.C03
import TruthModel.Lemmas.RoundTrip
/-
C01 — decompile then recompile reproduces the binary bit-for-bit.

The property composes several layers (argument codec: C12, time labels: C13, difficulty
masks: C14, label offsets: C18, block recovery: C06/C07, text: C08).  This file holds
* the composition at the level of script bytes: every script a compile can emit (the image of the
  writer) is read back to an instruction list whose re-encoding is the very same bytes
  (`reread_rewrite`, `emitted_bytes_determine_script`; C03);
* the composition at the level of instruction lists, for the flat decompile path (blocks, intrinsics,
  call sugar and difficulty switches off, with or without `--no-arguments`) and the flat compile
  path, models in `Model/RoundTrip.lean`:
    `lower_raise_flat`          lowerFlat (raiseFlat is) = is for canonical scripts whose jumps hit boundaries
    `lower_raise_flat_no_warning`, `blob_roundtrip`
    `canonical_of_compiled`     what `compile` writes for a call is canonical (all encodings; C12 decode_encode)
    `canonical_of_fixed_width`  canonical = "decodes without warning, zero padding, register bits on
                                register-capable parameters" for signatures without strings/arg0 (C12 encode_decode_partial)
    `noncanonical_warns`        a non-canonical fixed-width instruction is warned about, or in one of two named silent classes
    `raiseFlat_warns` (Lemmas)  an instruction's warnings are warnings of the script
    `silent_*`, `blob_not_dwords_does_not_recompile`   the silent classes, as witnesses (open findings).
Not proved here: intrinsic sugar, block recovery + desugaring (C06/C07), the text layer (C08),
file containers (C03/C20) — those are searched end to end by the harness.
-/
namespace TruthModel.C01
open TruthModel TruthModel.InstrIO TruthModel.C03

/-- Byte-level round trip for every script the writer can emit, all 8 header layouts. -/
theorem reread_rewrite (f : Fmt) (is : List Instr) (bs : Bytes)
    (hw : writeInstrs f is = .ok bs)
    (hs : ∀ i ∈ is, Stored f i ∧ NotTerminalLooking f i) :
    ∃ is', readInstrs f bs = .ok is' ∧ writeInstrs f is' = .ok bs :=
  ⟨is, readInstrs_writeInstrs f is bs hw hs, hw⟩

/-- The decoded instruction list is uniquely determined by the bytes (no information is lost
by reading): two emitted scripts with the same bytes are the same instruction list. -/
theorem emitted_bytes_determine_script (f : Fmt) (is₁ is₂ : List Instr) (bs : Bytes)
    (h₁ : writeInstrs f is₁ = .ok bs) (h₂ : writeInstrs f is₂ = .ok bs)
    (hs₁ : ∀ i ∈ is₁, Stored f i ∧ NotTerminalLooking f i)
    (hs₂ : ∀ i ∈ is₂, Stored f i ∧ NotTerminalLooking f i) : is₁ = is₂ := by
  have a := readInstrs_writeInstrs f is₁ bs h₁ hs₁
  have b := readInstrs_writeInstrs f is₂ bs h₂ hs₂
  rw [a] at b
  injection b

example : ∃ bs, writeInstrs .anm07 [{ time := 10, opcode := 3, mask := 1, blob := [1, 0, 0, 0] }] = .ok bs := ⟨_, rfl⟩

/- The full statement of C01 quantifies over source programs, option subsets and widths and is not
   proved as one theorem (DESIGN.md, C01): its pieces are the theorems of C03 (headers), C12
   (arguments), C13 (times), C14 (difficulty masks), C18 (offsets), C06/C07 (blocks), C08 (text);
   the end-to-end statement is checked on the implementation by the search of this property. -/


/-! ## the flat round trip: `lowerFlat (raiseFlat is) = is` -/

open TruthModel.Abi TruthModel.Offsets TruthModel.C18 TruthModel.RoundTrip
set_option linter.unusedSimpArgs false
set_option linter.unusedVariables false

theorem zip_items (items : List Item) : (items.map (·.1)).zip (items.map (·.2.1)) = items.map fun x => (x.1, x.2.1) := by
  induction items with
  | nil => rfl
  | cons x xs ih => simp [ih]

theorem raiseFlat_of (L : Lang) (a : Bool) (is : List RawInstr) (es : List Early) (cs : List FCall) (ss : List FlatStmt)
    (hdec : decodeAll L a 0 is = .ok (es, []))
    (hnobad : hasBadJump (es.map (Early.toR L.mode (boundaries L.hdr is))) = false)
    (hcalls : raiseCalls L (boundaries L.hdr is) (es.map (Early.toR L.mode (boundaries L.hdr is))) es = .ok (cs, []))
    (hem : emitFrom L (boundaries L.hdr is) (es.map (Early.toR L.mode (boundaries L.hdr is))) 0 0 (is.zip cs) = .ok ss) :
    raiseFlat L a is = .ok (ss, unknownWarn L a is) := by
  simp only [raiseFlat, hdec, hnobad, Bool.false_eq_true, if_false, hcalls, hem]
  simp

theorem lowerFlat_of (L : Lang) (ss : List FlatStmt) (code : List LStmt) (ovr : List Ovr) (out : Lowered) (is : List RawInstr)
    (c1 : (if L.diffAllowed = true then firstErr (diffCheck L) ss else .ok ()) = .ok ())
    (c2 : firstErr (typeCheck L) ss = .ok ()) (c3 : firstErr (constCheck L) ss = .ok ())
    (c4 : (if L.diffAllowed = true then (.ok () : Outcome Unit) else firstErr forbidDiff ss) = .ok ())
    (c5 : firstErr blobCheck ss = .ok ())
    (hb : build L 0 ss = (code, ovr)) (hlt : lowerTail L.hdr L.hasRegs L.mode code = .ok out) (hp : patch ovr out.instrs = is) :
    lowerFlat L ss = .ok is := by
  simp only [lowerFlat, c1, c2, c3, c4, c5, seqU, hb, hlt, hp]

/-- **Decompile then recompile reproduces the instructions** (flat path: blocks, intrinsics,
call sugar and difficulty switches off; with or without `--no-arguments`).

For every language (header size > 0, any label mode, any signature table, with or without
registers / difficulty support, any flag table satisfying the invariant of C14), every script in
which every opcode that has a signature has a valid one (`InstrAbi::validate`), every instruction is
`Canonical` and every jump offset is an instruction boundary of the script or its end:
`raiseFlat` succeeds, its only possible warning is the unknown-signature one, and `lowerFlat` of the
emitted statements is the very same instruction list — times (incl. negative, decreasing,
wrapping), difficulty masks (all 256), argument bytes, parameter masks, `arg0` fields, jumps to
every boundary (shared labels, `r` labels, the start label, the end label) in every label mode.
Uses C12 (`argsWF` of decoded values), C13 (`emitLabels_spec`, `labelFor_time`, `label_names`),
C14 (`label_parse`) and C18 (`dummy_same_size`). -/
theorem lower_raise_flat (L : Lang) (arguments : Bool) (is : List RawInstr)
    (hhdr : 0 < L.hdr) (hinv : C14.Inv L.defs)
    (hvalid : ∀ i ∈ is, ∀ abi, effSig L arguments i.opcode = some abi → validAbi abi = true)
    (hcanon : Canonical L arguments is = true)
    (hjumps : JumpsOnBoundaries L arguments is = true) :
    ∃ ss, raiseFlat L arguments is = .ok (ss, unknownWarn L arguments is) ∧ lowerFlat L ss = .ok is := by
  have hnd := boundaries_nodup L.hdr hhdr is
  have hdec := canon_decodeAll L arguments is none 0 hcanon
  have hofflen := boundaries_length L.hdr is
  -- jumps
  have hall : ∀ e ∈ earlies L arguments 0 is, ∀ kd tm, e.jump L.mode (boundaries L.hdr is) = some (kd, tm) → kd < (boundaries L.hdr is).length := by
    intro e he kd tm hj
    simp only [JumpsOnBoundaries, hdec, List.all_eq_true] at hjumps
    have := hjumps e he
    simp only [hj, decide_eq_true_eq] at this
    exact this
  let offs := boundaries L.hdr is
  let es := earlies L arguments 0 is
  let ris := es.map (Early.toR L.mode offs)
  let tbl := tblFrom offs ris 0 (is.length + 1)
  have hjok : ∀ e ∈ es, JumpOk L offs ris tbl e := by
    intro e he kd tm hj
    have hk := hall e he kd tm hj
    have hr : Early.toR L.mode offs e ∈ ris := List.mem_map_of_mem he
    obtain ⟨l, hl⟩ := labelFor_of_jump ris _ hr kd tm (by simp [Early.toR, hj])
    refine ⟨hk, l, hl, ?_⟩
    exact lookup_tblFrom offs hnd ris (is.length + 1) 0 kd l (Nat.zero_le _) (by rw [hofflen] at hk; omega) (by rw [hofflen]; omega) hl
  obtain ⟨items, hi1, hi2, hi3, hi4, hi5⟩ := items_of_canon L arguments offs ris tbl hinv is none 0 hcanon hvalid hjok
  -- decompile
  have htimes : ris.map (·.time) = items.map (fun x => Int32.ofInt x.1.time) := by
    have h1 := earlies_raw L arguments is 0
    have : ris.map (·.time) = (es.map (·.raw)).map (fun i => Int32.ofInt i.time) := by
      simp [ris, Early.toR, List.map_map, Function.comp_def]
    rw [this, h1, ← hi1, List.map_map]; rfl
  obtain ⟨ss, hem, hbuild, hfirst⟩ := emit_build L offs ris items [] ris rfl htimes hi4
  have hnobad : hasBadJump ris = false := by
    simp only [hasBadJump]
    rw [List.any_eq_false]
    intro r hr
    simp only [ris, List.mem_map] at hr
    obtain ⟨e, he, rfl⟩ := hr
    cases hj : e.jump L.mode offs with
    | none => simp [Early.toR, hj]
    | some p =>
      obtain ⟨kd, tm⟩ := p
      have hk := hall e he kd tm hj
      have hlen : ris.length = is.length := by simp [ris, es, earlies_length]
      rw [hofflen] at hk
      simp [Early.toR, hj, hlen]; omega
  refine ⟨ss, ?_, ?_⟩
  · have hz : is.zip (items.map (·.2.1)) = items.map fun x => (x.1, x.2.1) := by rw [← hi1]; exact zip_items items
    simp only [lastTime, List.getLast?_nil, List.length_nil] at hem
    rw [← hz] at hem
    exact raiseFlat_of L arguments is es (items.map (·.2.1)) ss hdec hnobad hi3 hem
  · -- compile
    simp only [lastTime, List.getLast?_nil, List.length_nil] at hbuild
    have hdrop : offs.drop 0 = offsetsFrom 0 (items.map (fun x => instrSize L.hdr x.1) ++ [0]) := by
      simp only [List.drop_zero, offs, boundaries]
      rw [← hi1, List.map_map]; rfl
    obtain ⟨g, code', raws, hg, hlab, henc, hsec, hpatch⟩ := passes L offs hnd ris tbl items 0 0 none [] hdrop (by intro j l _ _ _; simp) hi2
    have hlt : lowerTail L.hdr L.hasRegs L.mode (codeFrom L offs ris 0 items) = .ok ⟨raws, g⟩ := by
      have hlab' : g.labels = tbl := by rw [hlab]; simp only [tbl]; rw [← hi1]; simp
      simp only [lowerTail, gatherLabelInfo, hg, encodeLabels, hlab', henc, hsec]
    have c1 : (if L.diffAllowed = true then firstErr (diffCheck L) ss else .ok ()) = .ok () := by
      by_cases hd : L.diffAllowed = true
      · rw [if_pos hd]; exact hfirst _ (fun x hx => (hi5 x hx).1 hd)
      · rw [if_neg hd]
    have c2 := hfirst (typeCheck L) (fun x hx => (hi5 x hx).2.1)
    have c3 := hfirst (constCheck L) (fun x hx => (hi5 x hx).2.2.1)
    have c4 : (if L.diffAllowed = true then (.ok () : Outcome Unit) else firstErr forbidDiff ss) = .ok () := by
      by_cases hd : L.diffAllowed = true
      · rw [if_pos hd]
      · rw [if_neg hd]; exact hfirst _ (fun x hx => (hi5 x hx).2.2.2.1 (by simpa using hd))
    have c5 := hfirst blobCheck (fun x hx => (hi5 x hx).2.2.2.2)
    exact lowerFlat_of L ss _ _ ⟨raws, g⟩ is c1 c2 c3 c4 c5 hbuild hlt (by rw [← hi1]; exact hpatch)
/-- with a signature for every opcode (or under `--no-arguments`) the decompile prints no warning at all -/
theorem lower_raise_flat_no_warning (L : Lang) (arguments : Bool) (is : List RawInstr)
    (hhdr : 0 < L.hdr) (hinv : C14.Inv L.defs)
    (hvalid : ∀ i ∈ is, ∀ abi, effSig L arguments i.opcode = some abi → validAbi abi = true)
    (hknown : arguments = false ∨ ∀ i ∈ is, (L.sig i.opcode).isSome = true)
    (hcanon : Canonical L arguments is = true) (hjumps : JumpsOnBoundaries L arguments is = true) :
    ∃ ss, raiseFlat L arguments is = .ok (ss, []) ∧ lowerFlat L ss = .ok is := by
  obtain ⟨ss, h1, h2⟩ := lower_raise_flat L arguments is hhdr hinv hvalid hcanon hjumps
  have : unknownWarn L arguments is = [] := by
    rcases hknown with h | h
    · simp [unknownWarn, h]
    · have : (is.any fun i => (L.sig i.opcode).isNone) = false := by
        rw [List.any_eq_false]; intro i hi
        have := h i hi
        cases hs : L.sig i.opcode <;> simp_all
      simp [unknownWarn, this]
  rw [this] at h1
  exact ⟨ss, h1, h2⟩

/-! ## the blob fallback -/

theorem earlies_blob (L : Lang) : ∀ (is : List RawInstr) (off : Nat), ∀ e ∈ earlies L false off is, e.dec = none := by
  intro is
  induction is with
  | nil => intro off e he; cases he
  | cons i rest ih =>
    intro off e he
    simp only [earlies, List.mem_cons] at he
    rcases he with he | he
    · subst he; simp [earlyOf, effSig]
    · exact ih _ e he

/-- **`--no-arguments`**: every script whose instructions are whole numbers of dwords (and whose
header fields have the widths of `RawInstr`) decompiles to `@blob` calls (with `@mask` / `@arg0`
where they are not the defaults), without warning, and compiles back to the same instructions —
whatever the signature table says, valid or not. -/
theorem blob_roundtrip (L : Lang) (is : List RawInstr) (hhdr : 0 < L.hdr) (hinv : C14.Inv L.defs)
    (h : ∀ i ∈ is, wfInstr L i = true ∧ i.blob.length % 4 = 0) :
    ∃ ss, raiseFlat L false is = .ok (ss, []) ∧ lowerFlat L ss = .ok is := by
  have hcanon : ∀ (is : List RawInstr) (st : EncState), (∀ i ∈ is, wfInstr L i = true ∧ i.blob.length % 4 = 0) → canonFrom L false st is = true := by
    intro is
    induction is with
    | nil => intro st _; rfl
    | cons i rest ih =>
      intro st h
      obtain ⟨h1, h2⟩ := h i List.mem_cons_self
      have : canonInstr L false st i = some st := by simp [canonInstr, h1, effSig, h2]
      simp only [canonFrom, this]
      exact ih st (fun j hj => h j (List.mem_cons_of_mem _ hj))
  have hc : Canonical L false is = true := hcanon is none h
  have hj : JumpsOnBoundaries L false is = true := by
    simp only [JumpsOnBoundaries, canon_decodeAll L false is none 0 hc, List.all_eq_true]
    intro e he
    simp [Early.jump, earlies_blob L is 0 e he]
  exact lower_raise_flat_no_warning L false is hhdr hinv (by intro i _ abi hs; simp [effSig] at hs) (.inl rfl) hc hj

/-! ## what the compiler writes is canonical (C12 `decode_encode`) -/

theorem decodeInstr_of_decodeArgs (abi : Abi) (i : RawInstr) (full : List Arg) (w : List String)
    (h : decodeArgs abi ⟨i.blob, i.mask, i.extra⟩ = .ok (full, w)) : ∃ a0, decodeInstr abi i = .ok ((full, a0), w) := by
  simp only [decodeArgs] at h
  simp only [decodeInstr]
  cases hd : decLoop abi i.blob i.mask i.extra with
  | ok o =>
    rw [hd] at h; simp only [Outcome.ok.injEq, Prod.mk.injEq] at h
    exact ⟨o.arg0, by simp [← h.1, ← h.2, leftoverMsg, unusedMaskMsg]⟩
  | err c => rw [hd] at h; cases h
  | panic p => rw [hd] at h; cases h

theorem encodeArgs_arg0_none (hasRegs : Bool) (st : EncState) (abi : Abi) (args : List Arg) (raw : Raw) (w : List String) (st' : EncState)
    (hh : headIsArg0 abi = false) (h : encodeArgs hasRegs st abi args = .ok (raw, w, st')) : raw.arg0 = none := by
  unfold encodeArgs at h
  split at h
  · cases h
  · cases abi with
    | nil =>
      simp only [encodePlain] at h
      cases hl : encLoop 0 [] args st with
      | ok o => rw [hl] at h; simp only [Outcome.ok.injEq, Prod.mk.injEq] at h; rw [← h.1]
      | err c => rw [hl] at h; cases h
      | panic p => rw [hl] at h; cases h
    | cons e es =>
      simp only [headIsArg0] at hh
      simp only [hh, Bool.false_eq_true, if_false, encodePlain] at h
      cases hl : encLoop 0 (e :: es) args st with
      | ok o => rw [hl] at h; simp only [Outcome.ok.injEq, Prod.mk.injEq] at h; rw [← h.1]
      | err c => rw [hl] at h; cases h
      | panic p => rw [hl] at h; cases h

/-- **Everything `compile` writes for a call is canonical** — strings of every size kind, masks,
the furigana quirk and `arg0` included: for every valid signature with at most 16 parameters and
every `ArgsOk` argument list, the instruction `compileCall` produces (call checks, then
`encode_args`) satisfies `canonInstr`, and leaves the furigana state the encoder left. -/
theorem canonical_of_compiled (L : Lang) (st st' : EncState) (abi : Abi) (args : List Arg) (raw : Raw) (w : List String) (i : RawInstr)
    (hsig : L.sig i.opcode = some abi) (hv : validAbi abi = true) (hn : (abi.filter Enc.contributes).length ≤ 16)
    (ha : ArgsOk st abi args = true) (hfr : floatRegsOk L args = true)
    (hc : compileCall L.hasRegs st abi args = .ok (raw, w, st'))
    (hi : i.blob = raw.blob ∧ i.mask = raw.mask ∧ i.extra = raw.arg0) (hwf : wfInstr L i = true) :
    canonInstr L true st i = some st' := by
  simp only [compileCall] at hc
  cases hcc : checkCall abi args with
  | ok u =>
    rw [hcc] at hc; simp only at hc
    obtain ⟨hde, hw⟩ := C12.decode_encode L.hasRegs st abi args raw w st' hv hn ha hc
    have hraw : raw = ⟨i.blob, i.mask, i.extra⟩ := by cases raw; simp_all
    rw [hraw] at hde
    simp only [decompileCall] at hde
    cases hda : decodeArgs abi ⟨i.blob, i.mask, i.extra⟩ with
    | ok r =>
      obtain ⟨full, wd⟩ := r
      rw [hda] at hde; simp only [Outcome.ok.injEq, Prod.mk.injEq] at hde
      obtain ⟨hdrop, hwd⟩ := hde
      have hwd0 : wd = [] := by cases wd <;> simp_all
      have hnz : nonzeroPadding abi full = false := by
        cases hz : nonzeroPadding abi full with
        | false => rfl
        | true => rw [hz, hwd0] at hwd; simp at hwd
      subst hwd0
      obtain ⟨a0, hdi⟩ := decodeInstr_of_decodeArgs abi i full [] hda
      have ha0 : arg0After (pseudoArg0 a0) raw.arg0 = i.extra := by
        by_cases hh : headIsArg0 abi = true
        · rw [decodeInstr_arg0 abi i full a0 [] hv hh hdi]; simp [pseudoArg0, arg0After, hi.2.2]
        · have hh' : headIsArg0 abi = false := by simpa using hh
          have hr0 := encodeArgs_arg0_none L.hasRegs st abi args raw w st' hh' hc
          have hall : ∀ e ∈ abi, e.isArg0 = false := by
            intro e he
            cases abi with
            | nil => cases he
            | cons e0 es =>
              have ht := validAbi_arg0_tail (e0 :: es) hv
              simp only [List.drop_one, List.tail_cons] at ht
              simp only [List.mem_cons] at he
              rcases he with he | he
              · subst he; simpa [headIsArg0] using hh'
              · exact ht e he
          have : a0 = i.extra := by
            simp only [decodeInstr] at hdi
            cases hd : decLoop abi i.blob i.mask i.extra with
            | ok o =>
              rw [hd] at hdi; simp only [Outcome.ok.injEq, Prod.mk.injEq] at hdi
              rw [← hdi.1.2]; exact decLoop_arg0_passthrough abi hall _ _ _ _ hd
            | err c => rw [hd] at hdi; cases hdi
            | panic p => rw [hd] at hdi; cases hdi
          rw [this, hi.2.2, hr0]; simp [pseudoArg0, arg0After]
      simp only [canonInstr, hwf, Bool.not_true, Bool.false_eq_true, if_false, effSig, if_true, hsig, hdi, hnz, hdrop, hfr, hcc, hc]
      simp [hi.1, hi.2.1, ha0]
    | err c => rw [hda] at hde; cases hde
    | panic p => rw [hda] at hde; cases hde
  | err c => rw [hcc] at hc; cases hc
  | panic p => rw [hcc] at hc; cases hc
/-! ## `Canonical`, syntactically, and the warnings -/

/-- **canonical, syntactically, for fixed-width signatures** (C12 `encode_decode_partial`): an
instruction of a signature without string and `arg0` parameters is canonical as soon as it decodes
without warning (no leftover bytes, no unused mask bits), its padding bytes are zero, its register
bits sit only on register-capable parameters and its float-stored register numbers survive -/
theorem canonical_of_fixed_width (L : Lang) (st : EncState) (abi : Abi) (i : RawInstr) (full : List Arg) (a0 : Option Int)
    (hsig : L.sig i.opcode = some abi) (hsf : strFree abi = true) (hna : noArg0 abi = true)
    (hn : (abi.filter Enc.contributes).length ≤ 16) (hregs : L.hasRegs = true)
    (hwf : wfInstr L i = true) (hx : i.extra = none)
    (hdec : decodeInstr abi i = .ok ((full, a0), [])) (hpad : nonzeroPadding abi full = false)
    (hm : maskOk abi i.mask = true) (hfr : floatRegsOk L (dropPadding abi full) = true) :
    canonInstr L true st i = some st := by
  have hdec' := decodeInstr_decodeArgs abi i full a0 [] hdec
  have hm16 : i.mask < 65536 := by
    simp only [wfInstr, Bool.and_eq_true, decide_eq_true_eq] at hwf; exact hwf.1.1.2
  have henc := C12.encode_decode_partial st abi ⟨i.blob, i.mask, i.extra⟩ full hsf hna hn hdec' hpad hm hm16 hx
  have ha0 : a0 = none := by rw [decodeInstr_arg0_passthrough abi i full a0 [] hna hdec, hx]
  have hcc := checkCall_of_wf abi full (decodeInstr_wf abi i full a0 [] hdec) hna
  simp only [canonInstr, hwf, Bool.not_true, Bool.false_eq_true, if_false, effSig, if_true, hsig, hdec, hpad, hfr, hcc, hregs, henc]
  simp [ha0, pseudoArg0, arg0After, hx]

/-- **the only permitted exception, and where it is not honoured.**  A non-canonical instruction of a
fixed-width signature that decodes at all is one the decompiler warns about (a decode warning:
leftover bytes / unused mask bits, or the non-zero padding warning) — or it belongs to one of two
classes that are lost *silently*: a register bit on an immediate-only parameter (`maskOk` fails;
"TODO: Add a way to fallback to @mask for bad mask bits" in `decode_args_with_abi`), or a
float-stored register number that `x as i32` / `reg as f32` do not reproduce. -/
theorem noncanonical_warns (L : Lang) (st : EncState) (abi : Abi) (i : RawInstr) (full : List Arg) (a0 : Option Int) (w : List String)
    (hsig : L.sig i.opcode = some abi) (hsf : strFree abi = true) (hna : noArg0 abi = true)
    (hn : (abi.filter Enc.contributes).length ≤ 16) (hregs : L.hasRegs = true)
    (hwf : wfInstr L i = true) (hx : i.extra = none)
    (hdec : decodeInstr abi i = .ok ((full, a0), w))
    (hnc : canonInstr L true st i = none) :
    w ≠ [] ∨ nonzeroPadding abi full = true ∨ maskOk abi i.mask = false ∨ floatRegsOk L (dropPadding abi full) = false := by
  by_cases hw : w = []
  · subst hw
    by_cases hpad : nonzeroPadding abi full = true
    · exact .inr (.inl hpad)
    · by_cases hm : maskOk abi i.mask = true
      · by_cases hfr : floatRegsOk L (dropPadding abi full) = true
        · have := canonical_of_fixed_width L st abi i full a0 hsig hsf hna hn hregs hwf hx hdec (by simpa using hpad) hm hfr
          rw [this] at hnc; cases hnc
        · exact .inr (.inr (.inr (by simpa using hfr)))
      · exact .inr (.inr (.inl (by simpa using hm)))
  · exact .inl hw
/-- a decode warning or non-zero padding of any instruction is a warning of the decompiled script -/
theorem raiseFlat_warns (L : Lang) (is : List RawInstr) (ss : List FlatStmt) (ws : List String)
    (h : raiseFlat L true is = .ok (ss, ws)) (i : RawInstr) (hi : i ∈ is) (abi : Abi) (hsig : L.sig i.opcode = some abi)
    (full : List Arg) (a0 : Option Int) (w : List String) (hdec : decodeInstr abi i = .ok ((full, a0), w))
    (hw : w ≠ [] ∨ nonzeroPadding abi full = true) : ws ≠ [] := by
  simp only [raiseFlat] at h
  cases hd : decodeAll L true 0 is with
  | ok r =>
    obtain ⟨es, w1⟩ := r
    rw [hd] at h; simp only at h
    split at h
    · cases h
    · cases hc : raiseCalls L (boundaries L.hdr is) (es.map (Early.toR L.mode (boundaries L.hdr is))) es with
      | ok r2 =>
        obtain ⟨cs, w2⟩ := r2
        rw [hc] at h; simp only at h
        cases hem : emitFrom L (boundaries L.hdr is) (es.map (Early.toR L.mode (boundaries L.hdr is))) 0 0 (is.zip cs) with
        | ok ss' =>
          rw [hem] at h; simp only [Outcome.ok.injEq, Prod.mk.injEq] at h
          obtain ⟨_, h2⟩ := h
          obtain ⟨p1, e, he, _, hedec⟩ := decodeAll_warnings L true is 0 es w1 hd i hi abi full a0 w (by simp [effSig, hsig]) hdec
          rcases hw with hw | hw
          · cases w with
            | nil => exact absurd rfl hw
            | cons x xs =>
              have : x ∈ w1 := p1 x List.mem_cons_self
              intro hws; rw [hws] at h2
              simp at h2
              rw [h2.1] at this; cases this
          · have := raiseCalls_warnings L _ _ es cs w2 hc e he abi full hedec hw
            intro hws; rw [hws] at h2
            simp at h2
            rw [h2.2.1] at this; cases this
        | err c => rw [hem] at h; cases h
        | panic p => rw [hem] at h; cases h
      | err c => rw [hc] at h; cases h
      | panic p => rw [hc] at h; cases h
  | err c => rw [hd] at h; cases h
  | panic p => rw [hd] at h; cases h

/-! ## witnesses and non-vacuity -/

/-- a stand-in for IEEE single on the two values the witnesses need: `-0.0` and `+0.0` are both
integer-valued and read as register 0, register 0 is written `+0.0` -/
def demoFr : FloatReg where
  toReg b := if b = 0x80000000 ∨ b = 0 then some 0 else none
  ofReg _ := 0

/-- a language with registers, difficulty labels and absolute label offsets (the `TestLanguage` header) -/
def demoLang : Lang where
  hdr := 4
  mode := .absolute
  sig op :=
    if op = 1 then some [.int .w4 true false true]                 -- `S(imm)`
    else if op = 2 then some [.float false]                        -- `f`
    else if op = 3 then some [.str (.toBlobEnd 4) ⟨0, 0, 0⟩ false] -- `z(bs=4)`
    else if op = 4 then some [.jumpOffset, .jumpTime]              -- `ot`
    else if op = 5 then some [.int .w4 true false false, .padding false, .int .w2 true false false]  -- `S-s`
    else none
  hasRegs := true
  diffAllowed := true
  defs := Diff.defaultDefs
  fr := demoFr

/-- the hypotheses of `lower_raise_flat` on a script with a register argument, a backward jump to the
script start that asks for the time after the first time increase (`label_0`), a jump that shares
the label of the second instruction and uses its time (`timeof`), a jump to the end of the script,
a negative time, and non-default difficulty masks -/
def demoScript : List RawInstr := [
  ⟨-1, 5, 1, [0x10, 0x27, 0, 0, 0, 0xFF, 0x7F], 255, none⟩,
  ⟨10, 4, 0, [0, 0, 0, 0, 10, 0, 0, 0], 0x0F, none⟩,
  ⟨10, 4, 0, [11, 0, 0, 0, 10, 0, 0, 0], 255, none⟩,
  ⟨20, 4, 0, [47, 0, 0, 0, 20, 0, 0, 0], 0xF0, none⟩]

example : 0 < demoLang.hdr ∧ Canonical demoLang true demoScript = true ∧ JumpsOnBoundaries demoLang true demoScript = true := by
  decide

/-- what the decompiler prints for it, and the way back -/
example : raiseFlat demoLang true demoScript = .ok ([
    .abs (-1),
    .label "label_0",
    .call { opcode := 5, args := [.reg 10000 false, .int 32767] },
    .abs 0, .rel 10,
    .label "label_11",
    .call { diff := some ['0', '1', '2', '3'], opcode := 4, args := [.offsetof "label_0", .int 10] },
    .call { opcode := 4, args := [.offsetof "label_11", .timeof "label_11"] },
    .rel 10,
    .call { diff := some ['4', '5', '6', '7'], opcode := 4, args := [.offsetof "label_47", .timeof "label_47"] },
    .label "label_47"], []) := by
  decide

theorem demo_valid : ∀ i ∈ demoScript, ∀ abi, effSig demoLang true i.opcode = some abi → validAbi abi = true := by
  intro i hi abi hs
  simp only [demoScript, List.mem_cons, List.not_mem_nil, or_false] at hi
  rcases hi with rfl | rfl | rfl | rfl <;> (simp [effSig, demoLang] at hs; subst hs; decide)

example : ∃ ss, raiseFlat demoLang true demoScript = .ok (ss, []) ∧ lowerFlat demoLang ss = .ok demoScript :=
  lower_raise_flat_no_warning demoLang true demoScript (by decide) C14.inv_default demo_valid (.inr (by decide)) (by decide) (by decide)

/-- the hypotheses of `canonical_of_fixed_width` / `noncanonical_warns` are satisfiable -/
example : decodeInstr [.int .w4 true false false, .padding false, .int .w2 true false false]
      ⟨-1, 5, 1, [0x10, 0x27, 0, 0, 0, 0xFF, 0x7F], 255, none⟩ = .ok (([.int 10000 true, .int 0 false, .int 32767 false], none), []) ∧
    maskOk [.int .w4 true false false, .padding false, .int .w2 true false false] 1 = true := by decide

/-- the hypotheses of `blob_roundtrip` -/
example : ∃ ss, raiseFlat demoLang false [⟨5, 9, 3, [1, 2, 3, 4], 0x0F, some 7⟩] = .ok (ss, []) ∧
    lowerFlat demoLang ss = .ok [⟨5, 9, 3, [1, 2, 3, 4], 0x0F, some 7⟩] :=
  blob_roundtrip demoLang _ (by decide) C14.inv_default (by decide)

/-! ### losses the decompiler does not warn about (model witnesses; each replays on the real CLI) -/

/-- a register bit on an immediate-only parameter is dropped without warning (`@mask` is not emitted) -/
theorem silent_register_bit_on_immediate :
    Canonical demoLang true [⟨0, 1, 1, [1, 0, 0, 0], 255, none⟩] = false ∧
    raiseFlat demoLang true [⟨0, 1, 1, [1, 0, 0, 0], 255, none⟩] = .ok ([.call { opcode := 1, args := [.int 1] }], []) ∧
    lowerFlat demoLang [.call { opcode := 1, args := [.int 1] }] = .ok [⟨0, 1, 0, [1, 0, 0, 0], 255, none⟩] := by
  decide

/-- a float-stored register number that `as i32` / `as f32` do not reproduce (`-0.0`) is normalised without warning -/
theorem silent_float_register :
    Canonical demoLang true [⟨0, 2, 1, [0, 0, 0, 0x80], 255, none⟩] = false ∧
    raiseFlat demoLang true [⟨0, 2, 1, [0, 0, 0, 0x80], 255, none⟩] = .ok ([.call { opcode := 2, args := [.reg 0 true] }], []) ∧
    lowerFlat demoLang [.call { opcode := 2, args := [.reg 0 true] }] = .ok [⟨0, 2, 1, [0, 0, 0, 0], 255, none⟩] := by
  decide

/-- a block-padded string with one block of padding too many is re-encoded shorter without warning -/
theorem silent_overpadded_string :
    Canonical demoLang true [⟨0, 3, 0, [0x61, 0, 0, 0, 0, 0, 0, 0], 255, none⟩] = false ∧
    raiseFlat demoLang true [⟨0, 3, 0, [0x61, 0, 0, 0, 0, 0, 0, 0], 255, none⟩] = .ok ([.call { opcode := 3, args := [.str [0x61]] }], []) ∧
    lowerFlat demoLang [.call { opcode := 3, args := [.str [0x61]] }] = .ok [⟨0, 3, 0, [0x61, 0, 0, 0], 255, none⟩] := by
  decide

/-- `--no-arguments` on an instruction whose arguments are not a whole number of dwords: no warning,
and the printed `@blob` literal is rejected by the compiler (open finding) -/
theorem blob_not_dwords_does_not_recompile :
    raiseFlat demoLang false [⟨0, 1, 0, [1, 2], 255, none⟩] = .ok ([.call { opcode := 1, blob := some [1, 2] }], []) ∧
    lowerFlat demoLang [.call { opcode := 1, blob := some [1, 2] }] = .err blobLenMsg := by
  decide

/-- `None` and `Some(0)` in the `arg0` field are the same bytes in every format: the one in-memory
difference `Canonical` excludes is invisible in the written file -/
theorem extra_zero_same_bytes (f : InstrIO.Fmt) (i : InstrIO.Instr) (h : i.extra = none) :
    InstrIO.writeInstr f { i with extra := some 0 } = InstrIO.writeInstr f i := by
  cases f <;> simp [InstrIO.writeInstr, InstrIO.fits, InstrIO.instrSize, h]
end TruthModel.C01
