import TruthModel.Props.C03
/-
C01 — decompile then recompile reproduces the binary bit-for-bit.

The property composes several layers (argument codec: C12, time labels: C13, difficulty
masks: C14, label offsets: C18, block recovery: C06/C07, text: C08).  This file holds the
composition at the level of script bytes: every script a compile can emit (the image of the
writer) is read back to an instruction list whose re-encoding is the very same bytes.
-/
namespace TruthModel.C01
open TruthModel TruthModel.InstrIO TruthModel.C03

/-- Byte-level round trip for every script the writer can emit, all 8 header layouts. -/
theorem reread_rewrite (f : Fmt) (is : List Instr) (bs : Bytes)
    (hw : writeInstrs f is = .ok bs)
    (hs : ∀ i ∈ is, Stored f i ∧ NotTerminalLooking f i) :
    ∃ is', readInstrs f bs = .ok is' ∧ writeInstrs f is' = .ok bs :=
  ⟨is, readInstrs_writeInstrs f is bs hw hs, hw⟩

/-- The decoded instruction list is uniquely determined by the bytes (no information is lost
by reading): two emitted scripts with the same bytes are the same instruction list. -/
theorem emitted_bytes_determine_script (f : Fmt) (is₁ is₂ : List Instr) (bs : Bytes)
    (h₁ : writeInstrs f is₁ = .ok bs) (h₂ : writeInstrs f is₂ = .ok bs)
    (hs₁ : ∀ i ∈ is₁, Stored f i ∧ NotTerminalLooking f i)
    (hs₂ : ∀ i ∈ is₂, Stored f i ∧ NotTerminalLooking f i) : is₁ = is₂ := by
  have a := readInstrs_writeInstrs f is₁ bs h₁ hs₁
  have b := readInstrs_writeInstrs f is₂ bs h₂ hs₂
  rw [a] at b
  injection b

example : ∃ bs, writeInstrs .anm07 [{ time := 10, opcode := 3, mask := 1, blob := [1, 0, 0, 0] }] = .ok bs := ⟨_, rfl⟩

/- The full statement of C01 quantifies over source programs, option subsets and widths and is not
   proved as one theorem (DESIGN.md, C01): its pieces are the theorems of C03 (headers), C12
   (arguments), C13 (times), C14 (difficulty masks), C18 (offsets), C06/C07 (blocks), C08 (text);
   the end-to-end statement is checked on the implementation by the search of this property. -/

end TruthModel.C01
