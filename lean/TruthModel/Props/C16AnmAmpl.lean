import TruthModel.Props.C03Anm
/-
C16, ANM container: the allocation of `read_anm` is not bounded by (a reasonable multiple of) the input.

`sharedTexAnm n k` (`Props/C16Anm.lean`) is a TH11+ file of `64 n + 32 + k` bytes: `n` entry headers behind each other,
one 16-byte path block, one THTX section with `k` bytes of image data; every header points at the shared path and the shared
THTX section.  `anm_shared_texture_reads`: for EVERY `n >= 1` and `k` (file smaller than 4 GiB) `read_anm` accepts the file
and returns `n` entries that each own a copy of the `k` bytes.  With `n = 1500`, `k = 150000` (246 032 bytes of input,
225 MB built; the file the harness replays on the implementation: 394 MB of heap) this refutes the bound the search
oracle applies (`anm_read_alloc_bound_full_false`).
-/
namespace TruthModel.C16
open TruthModel TruthModel.InstrIO TruthModel.Files TruthModel.C03

theorem sharedTexHeaders_succ (n j : Nat) :
    sharedTexHeaders n (j + 1) = anmHeaderBytes anmV7 (sharedTexHeader n (n - (j + 1))) ++ sharedTexHeaders n j := rfl

theorem sharedTexHeaders_length (n : Nat) : ∀ j, (sharedTexHeaders n j).length = 64 * j := by
  intro j
  induction j with
  | zero => rfl
  | succ j ih => rw [sharedTexHeaders_succ, List.length_append, anmHeaderBytes_length, ih]; omega

theorem sharedTexHeaders_drop (n : Nat) : ∀ m j, (sharedTexHeaders n (j + m)).drop (64 * m) = sharedTexHeaders n j := by
  intro m
  induction m with
  | zero => intro j; rfl
  | succ m ih =>
    intro j
    have h1 : j + (m + 1) = (j + m) + 1 := by omega
    have h2 : 64 * (m + 1) = 64 + 64 * m := by omega
    rw [h1, sharedTexHeaders_succ, h2, ← List.drop_drop, List.drop_left' (anmHeaderBytes_length _ _), ih]

/-- the path block and the THTX section all entries share -/
def sharedTexTail (k : Nat) : Bytes := (0x61 :: Abi.zeros 15) ++ writeTexture ⟨7, 1, 1⟩ (List.replicate k 0x55)

theorem sharedTexAnm_eq (n k : Nat) : sharedTexAnm n k = sharedTexHeaders n n ++ sharedTexTail k := by
  simp only [sharedTexAnm, sharedTexTail, List.append_assoc]

theorem sharedTexAnm_length (n k : Nat) : (sharedTexAnm n k).length = 64 * n + 32 + k := by
  rw [sharedTexAnm_eq, List.length_append, sharedTexHeaders_length, sharedTexTail, List.length_append, writeTexture_length]
  simp [Abi.zeros]
  omega

theorem sharedTex_seek (n k i : Nat) (hi : i ≤ n) :
    seek (sharedTexAnm n k) (64 * i) = sharedTexHeaders n (n - i) ++ sharedTexTail k := by
  rw [sharedTexAnm_eq]
  unfold seek
  rw [List.drop_append_of_le_length (by rw [sharedTexHeaders_length]; omega)]
  have : sharedTexHeaders n n = sharedTexHeaders n ((n - i) + i) := by rw [Nat.sub_add_cancel hi]
  rw [this, sharedTexHeaders_drop]

/-- every entry of the file -/
def sharedTexEntry (k : Nat) : AnmEntry :=
  { specs := { rtWidth := 16, rtHeight := 16, rtFormat := 1 }, path := [0x61], texMeta := some ⟨7, 1, 1⟩,
    texData := some (List.replicate k 0x55) }

theorem sharedTex_entry (n k i idx : Nat) (hi : i < n) (hlen : 64 * n + 32 + k < 2 ^ 32) :
    readAnmEntry (fun _ => true) anmV7 true (sharedTexAnm n k) (64 * i) idx = .ok (sharedTexEntry k, if i + 1 < n then 64 else 0) := by
  -- where things are
  have hs0 := sharedTex_seek n k i (by omega)
  obtain ⟨j, hj⟩ : ∃ j, n - i = j + 1 := ⟨n - i - 1, by omega⟩
  have hji : n - (j + 1) = i := by omega
  rw [hj, sharedTexHeaders_succ, hji, List.append_assoc] at hs0
  have hsn : seek (sharedTexAnm n k) (64 * n) = sharedTexTail k := by
    have := sharedTex_seek n k n (Nat.le_refl _)
    simpa [sharedTexHeaders] using this
  have hname : seek (sharedTexAnm n k) (64 * i + 64 * (n - i)) = Abi.nullPad 16 [0x61] ++ writeTexture ⟨7, 1, 1⟩ (List.replicate k 0x55) := by
    have : 64 * i + 64 * (n - i) = 64 * n := by omega
    rw [this, hsn]
    rfl
  have htexpos : seek (sharedTexAnm n k) (64 * i + (64 * (n - i) + 16)) = writeTexture ⟨7, 1, 1⟩ (List.replicate k 0x55) ++ [] := by
    have h1 : 64 * i + (64 * (n - i) + 16) = 64 * n + 16 := by omega
    have h2 : seek (sharedTexAnm n k) (64 * n) = (0x61 :: Abi.zeros 15) ++ writeTexture ⟨7, 1, 1⟩ (List.replicate k 0x55) := hsn
    rw [h1, seek_step h2 (by simp [Abi.zeros]), List.append_nil]
  -- the header
  have hok : headerOk anmV7 (sharedTexHeader n i) = true := by
    have h3 : (if i + 1 < n then 64 else 0) < 4294967296 := by split <;> omega
    simp only [headerOk, anmV7, AnmFmt.oldHeader, sharedTexHeader, anmNewWidths, fieldsFit, Bool.and_eq_true, decide_eq_true_eq,
      show (4 : Nat) ≠ 2 by decide, if_true, if_false, and_true]
    simp only [show ¬ ((7 : Nat) < 7) by decide, decide_false, Bool.false_eq_true, if_false, fieldsFit, Bool.and_eq_true,
      decide_eq_true_eq, show (4 : Nat) ≠ 2 by decide, if_true, and_true]
    refine ⟨by omega, by omega, by omega, by omega, by omega, by omega, by omega, by omega, by omega, by omega, by omega, by omega,
      by omega, by omega, h3, by omega, by omega, by omega, by omega, by omega, by omega⟩
  have hhdr := readAnmHeader_write anmV7 (sharedTexHeader n i) (sharedTexHeaders n j ++ sharedTexTail k) hok
  have hnorm : normHeader anmV7 (sharedTexHeader n i) = sharedTexHeader n i := rfl
  rw [hnorm] at hhdr
  -- the parts
  have hrp := readAnmStr_write (fun _ => true) [0x61] (writeTexture ⟨7, 1, 1⟩ (List.replicate k 0x55)) (by decide) rfl
  have hne : 64 * (n - i) + 16 ≠ 0 := by omega
  have hrtex := readTexture_write true ⟨7, 1, 1⟩ (List.replicate k 0x55) [] (by decide) (by decide) (by decide)
    (by simp only [List.length_replicate]; omega)
  unfold readAnmEntry
  simp only [hs0, hhdr]
  simp only [sharedTexHeader, rdU32s, rdU32sAux, rdScriptTableAux, List.reverse_nil, hname, hrp, readAnmPath2, if_true,
    readSpritesAux, readAnmScriptsAux, readAnmTexture, hne, if_false, htexpos, hrtex]
  rfl

theorem sharedTex_loop (n k : Nat) (hlen : 64 * n + 32 + k < 2 ^ 32) :
    ∀ (j : Nat), 1 ≤ j → j ≤ n → ∀ (fuel : Nat) (seen : List Nat) (idx : Nat) (acc : List AnmEntry), j ≤ fuel →
      (∀ s ∈ seen, s < 64 * (n - j)) →
      readAnmLoop (fun _ => true) anmV7 true (sharedTexAnm n k) fuel seen (64 * (n - j)) idx acc =
        .ok (acc.reverse ++ List.replicate j (sharedTexEntry k)) := by
  intro j
  induction j with
  | zero => intro h; omega
  | succ j ih =>
    intro _ hjn fuel seen idx acc hfuel hseen
    cases fuel with
    | zero => omega
    | succ f =>
      have hnot : seen.contains (64 * (n - (j + 1))) = false := by
        cases hc : seen.contains (64 * (n - (j + 1))) with
        | false => rfl
        | true =>
          simp only [List.contains_eq_mem, decide_eq_true_eq] at hc
          have := hseen _ hc
          omega
      have hent := sharedTex_entry n k (n - (j + 1)) idx (by omega) hlen
      rw [readAnmLoop, hnot]
      simp only [Bool.false_eq_true, if_false, hent]
      by_cases hj0 : j = 0
      · subst hj0
        have : ¬ (n - (0 + 1) + 1 < n) := by omega
        simp only [this, if_false, if_true, List.reverse_cons, List.replicate]
      · have hlt : n - (j + 1) + 1 < n := by omega
        simp only [hlt, if_true, show (64 : Nat) ≠ 0 by decide, if_false]
        have hpos : 64 * (n - (j + 1)) + 64 = 64 * (n - j) := by omega
        have hsc : (sharedTexEntry k).scripts.length = 0 := rfl
        rw [hpos, hsc, ih (by omega) (by omega) f _ _ _ (by omega) (by
          intro s hs
          rcases List.mem_cons.1 hs with rfl | hs
          · omega
          · have := hseen s hs; omega)]
        simp only [List.reverse_cons, List.append_assoc, List.singleton_append, List.replicate_succ]

theorem stripEntries_sharedTex (k : Nat) : ∀ (n : Nat) (auto : UInt32),
    stripEntries auto (List.replicate n (sharedTexEntry k)) = List.replicate n (sharedTexEntry k) := by
  intro n
  induction n with
  | zero => intro _; rfl
  | succ n ih =>
    intro auto
    have h1 : stripSprites auto (sharedTexEntry k).sprites = ([], auto) := rfl
    have h2 : ({ sharedTexEntry k with sprites := [] } : AnmEntry) = sharedTexEntry k := rfl
    simp only [List.replicate_succ, stripEntries, h1, h2, ih]

/-- **Amplification, for every size**: the file of `n` entry headers that share one THTX section of `k` bytes
(`64 n + 32 + k` bytes) is accepted by `read_anm` and read as `n` entries with `k` bytes of image data each. -/
theorem anm_shared_texture_reads (n k : Nat) (hn : 0 < n) (hlen : 64 * n + 32 + k < 2 ^ 32) :
    readAnm (fun _ => true) anmV7 true (sharedTexAnm n k) = .ok ⟨List.replicate n (sharedTexEntry k)⟩ := by
  have := sharedTex_loop n k hlen n hn (Nat.le_refl _) ((sharedTexAnm n k).length + 1) [] 0 []
    (by rw [sharedTexAnm_length]; omega) (by intro s hs; cases hs)
  simp only [Nat.sub_self, Nat.mul_zero, List.reverse_nil, List.nil_append] at this
  unfold readAnm
  rw [this]
  simp only [stripEntries_sharedTex]

theorem sum_replicate (n x : Nat) : (List.replicate n x).sum = n * x := by
  induction n with
  | zero => simp
  | succ n ih => simp only [List.replicate_succ, List.sum_cons, ih, Nat.succ_mul]; omega

theorem anmCost_sharedTex (n k : Nat) : anmCost anmV7 ⟨List.replicate n (sharedTexEntry k)⟩ = n * (65 + k) := by
  have : anmEntryCost anmV7.instr (sharedTexEntry k) = 65 + k := by
    simp [anmEntryCost, sharedTexEntry]
  simp only [anmCost, List.map_replicate, this, sum_replicate]

/-- **the bound of the search oracle does not hold for `read_anm`**: 1500 entries sharing a texture of 150 000 bytes
(246 032 bytes of input) make the reader build 225 MB. -/
theorem anm_read_alloc_bound_full_false : ¬ anm_read_alloc_bound_full := by
  intro h
  have hr := anm_shared_texture_reads 1500 150000 (by decide) (by decide)
  have := h (fun _ => true) anmV7 true _ _ hr
  rw [anmCost_sharedTex, sharedTexAnm_length] at this
  exact absurd this (by decide)

end TruthModel.C16
