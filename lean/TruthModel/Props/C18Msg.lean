import TruthModel.Model.MsgTable
/-
C18, MSG script table: the `indices` the debug info gives for a script are exactly the entries of the
written table that point at that script — for every sparse table (gaps, `default`, any `table_len`).
-/
namespace TruthModel.C18
open TruthModel.MsgTable

theorem mem_indicesFrom (n : Nat) (es : List Entry) (k i : Nat) :
    i ∈ indicesFrom n k es ↔ ∃ j, i = k + j ∧ ∃ h : j < es.length, (es[j]).script = some n := by
  induction es generalizing k with
  | nil => simp [indicesFrom]
  | cons e es ih =>
    unfold indicesFrom
    constructor
    · intro hm
      by_cases he : e.script = some n
      · rw [if_pos he] at hm
        rcases List.mem_cons.mp hm with rfl | hm
        · exact ⟨0, rfl, by simp, by simpa using he⟩
        · obtain ⟨j, rfl, hj, hs⟩ := (ih (k + 1) ).mp hm
          exact ⟨j + 1, by omega, by simpa using hj, by simpa using hs⟩
      · rw [if_neg he] at hm
        obtain ⟨j, rfl, hj, hs⟩ := (ih (k + 1)).mp hm
        exact ⟨j + 1, by omega, by simpa using hj, by simpa using hs⟩
    · rintro ⟨j, rfl, hj, hs⟩
      cases j with
      | zero =>
        have he : e.script = some n := by simpa using hs
        rw [if_pos he]; simp
      | succ j =>
        have hm : k + (j + 1) ∈ indicesFrom n (k + 1) es :=
          (ih (k + 1)).mpr ⟨j, by omega, by simpa using hj, by simpa using hs⟩
        split
        · exact List.mem_cons_of_mem _ hm
        · exact hm

/-- the indices of a script: exactly the positions of the dense table that name it -/
theorem mem_indicesOf (dense : List Entry) (n i : Nat) :
    i ∈ indicesOf dense n ↔ ∃ h : i < dense.length, (dense[i]).script = some n := by
  unfold indicesOf
  rw [mem_indicesFrom]
  constructor
  · rintro ⟨j, rfl, hj, hs⟩; exact ⟨by simpa using hj, by simpa using hs⟩
  · rintro ⟨h, hs⟩; exact ⟨i, by simp, h, hs⟩

theorem indicesFrom_ge (n : Nat) (es : List Entry) (k i : Nat) (h : i ∈ indicesFrom n k es) : k ≤ i := by
  obtain ⟨j, rfl, _⟩ := (mem_indicesFrom n es k i).mp h; omega

/-- ascending and without repetition -/
theorem indicesFrom_sorted (n : Nat) (es : List Entry) (k : Nat) : (indicesFrom n k es).Pairwise (· < ·) := by
  induction es generalizing k with
  | nil => simp [indicesFrom]
  | cons e es ih =>
    unfold indicesFrom
    split
    · refine List.pairwise_cons.mpr ⟨?_, ih (k + 1)⟩
      intro i hi
      have := indicesFrom_ge n es (k + 1) i hi
      omega
    · exact ih (k + 1)

theorem indices_sorted (dense : List Entry) (n : Nat) : (indicesOf dense n).Pairwise (· < ·) :=
  indicesFrom_sorted n dense 0

@[simp] theorem densify_length (s : Sparse) : s.densify.length = s.len := by simp [Sparse.densify]

theorem densify_get (s : Sparse) (i : Nat) (h : i < s.densify.length) : s.densify[i] = s.entryAt i := by
  simp [Sparse.densify]

@[simp] theorem written_length (off : Nat → Nat) (dense : List Entry) : (written off dense).length = dense.length := by
  simp [written]

/-- **The property for MSG.**  Script offsets are non-zero and different scripts start at different offsets
(every script is written after the table, one after the other, and none is empty: each has at least its
end marker); then the indices the debug info lists for script `n` are exactly the entries of the
*written* table whose offset is the offset of `n`. -/
theorem msg_export_indices (off : Nat → Nat) (hz : ∀ n, off n ≠ 0) (hinj : ∀ a b, off a = off b → a = b)
    (s : Sparse) (n i : Nat) :
    i ∈ indicesOf s.densify n ↔ ∃ h : i < (written off s.densify).length, ((written off s.densify)[i]).1 = off n := by
  rw [mem_indicesOf]
  constructor
  · rintro ⟨h, hs⟩
    refine ⟨by simpa using h, ?_⟩
    simp [written, hs]
  · rintro ⟨h, hw⟩
    have h' : i < s.densify.length := by simpa using h
    refine ⟨h', ?_⟩
    simp only [written, List.getElem_map] at hw
    cases hsc : (s.densify[i]).script with
    | none => rw [hsc] at hw; exact absurd hw.symm (hz n)
    | some m => rw [hsc] at hw; rw [hinj m n hw]

/-- an entry filled in from a named `default` is listed (what a table walked in its sparse form would miss) -/
theorem default_entry_listed (s : Sparse) (n i : Nat) (hi : i < s.len) (hgap : s.table.lookup i = none)
    (hd : s.default.script = some n) : i ∈ indicesOf s.densify n := by
  rw [mem_indicesOf]
  refine ⟨by simpa using hi, ?_⟩
  rw [densify_get]
  simp [Sparse.entryAt, hgap, hd]

/-- an explicit entry at or beyond the table length is not written and not listed -/
theorem entry_beyond_len_not_listed (s : Sparse) (n i : Nat) (hi : s.len ≤ i) : i ∉ indicesOf s.densify n := by
  rw [mem_indicesOf]
  rintro ⟨h, _⟩
  have : i < s.len := by simpa using h
  omega

/-- every exported script has a non-empty list, and every script named by the written table is exported -/
theorem exports_complete (dense : List Entry) (scripts : List Nat) (n i : Nat) (hn : n ∈ scripts)
    (h : i ∈ indicesOf dense n) : (n, indicesOf dense n) ∈ exports dense scripts := by
  unfold exports
  rw [List.mem_filterMap]
  refine ⟨n, hn, ?_⟩
  cases hx : indicesOf dense n with
  | nil => rw [hx] at h; cases h
  | cons a as => rfl

theorem exports_sound (dense : List Entry) (scripts : List Nat) (n : Nat) (is : List Nat)
    (h : (n, is) ∈ exports dense scripts) : n ∈ scripts ∧ is = indicesOf dense n ∧ is ≠ [] := by
  unfold exports at h
  rw [List.mem_filterMap] at h
  obtain ⟨m, hm, hx⟩ := h
  cases hi : indicesOf dense m with
  | nil => rw [hi] at hx; cases hx
  | cons a as =>
    rw [hi] at hx
    simp only [Option.some.injEq, Prod.mk.injEq] at hx
    obtain ⟨rfl, rfl⟩ := hx
    exact ⟨hm, hi.symm, by simp⟩

/-- the implicit length covers every explicit key -/
theorem implicitLen_covers (t : List (Nat × Entry)) (k : Nat) (e : Entry) (h : (k, e) ∈ t) : k < implicitLen t := by
  induction t with
  | nil => cases h
  | cons kv rest ih =>
    unfold implicitLen
    rcases List.mem_cons.mp h with rfl | h
    · simp only; omega
    · have := ih h; omega

/-- non-vacuity: a table with a gap filled by a named default, cut by `table_len`, under offsets 100 + 10 n -/
example :
    let s : Sparse := { tableLen := some 5, table := [(0, ⟨some 0, 0⟩), (2, ⟨some 1, 0⟩), (7, ⟨some 1, 0⟩)], default := ⟨some 0, 0⟩ }
    indicesOf s.densify 0 = [0, 1, 3, 4] ∧ indicesOf s.densify 1 = [2] ∧
    (written (fun n => 100 + 10 * n) s.densify).map (·.1) = [100, 100, 110, 100, 100] ∧
    exports s.densify [0, 1, 2] = [(0, [0, 1, 3, 4]), (1, [2])] := by decide

end TruthModel.C18
