import TruthModel.Model.Time
/-
C13 — every instruction gets exactly the time its labels say.

All theorems quantify over every statement list / every `Int32` time sequence / every stored
script (no size bounds).  `Int32` arithmetic is the machine's (wrapping).
-/
namespace TruthModel.C13
open TruthModel TruthModel.Time

/-! ### helper lemmas -/

theorem specTimes_append (t : Int32) (a b : List Stmt) :
    specTimes t (a ++ b) = specTimes t a ++ specTimes (a.foldl step t) b := by
  induction a generalizing t with
  | nil => rfl
  | cons s ss ih => simp [specTimes, ih]

theorem hasBad_append (a b : List Stmt) : hasBad (a ++ b) = (hasBad a || hasBad b) := by
  induction a with
  | nil => rfl
  | cons s ss ih => cases s <;> simp [hasBad, ih]

/-- the state the visitor is in after a flat statement list, started with `t` on top of the stack -/
def after (st : VState) (t : Int32) (rest : List Int32) (flat : List Stmt) : VState :=
  { timeStack := flat.foldl step t :: rest
    failed := st.failed || hasBad flat
    out := (specTimes t flat).reverse ++ st.out
    panicked := none }

mutual
theorem visitStmt_after (s : Stmt) (st : VState) (t : Int32) (rest : List Int32)
    (hs : st.timeStack = t :: rest) (hp : st.panicked = none) :
    visitStmt st s = after st t rest (flattenStmt s) := by
  cases s with
  | block body =>
    have h := visitBlock_after body (record (shallow st (.block body)) .block) t rest
      (by simp [record, shallow, hs]) (by simp [record, shallow, hs, hp])
    rw [visitStmt, h]
    simp [after, flattenStmt, specTimes, hasBad, record, shallow, hs, step, kindOf]
  | abs v => cases st; simp_all [visitStmt, after, flattenStmt, specTimes, hasBad, record, shallow, step, kindOf]
  | rel d => cases st; simp_all [visitStmt, after, flattenStmt, specTimes, hasBad, record, shallow, step, kindOf]
  | relBad => cases st; simp_all [visitStmt, after, flattenStmt, specTimes, hasBad, record, shallow, step, kindOf]
  | instr => cases st; simp_all [visitStmt, after, flattenStmt, specTimes, hasBad, record, step, kindOf]
  | label => cases st; simp_all [visitStmt, after, flattenStmt, specTimes, hasBad, record, step, kindOf]
theorem visitBlock_after (ss : List Stmt) (st : VState) (t : Int32) (rest : List Int32)
    (hs : st.timeStack = t :: rest) (hp : st.panicked = none) :
    visitBlock st ss = after st t rest (flattenBlock ss) := by
  cases ss with
  | nil => cases st; simp_all [visitBlock, after, flattenBlock, specTimes, hasBad]
  | cons s ss =>
    have h1 := visitStmt_after s st t rest hs hp
    have h2 := visitBlock_after ss (after st t rest (flattenStmt s)) ((flattenStmt s).foldl step t) rest rfl rfl
    rw [visitBlock, h1, h2]
    simp [after, flattenBlock, specTimes_append, hasBad_append, List.foldl_append, Bool.or_assoc]
end

/-! ### compile direction -/

/-- **visitor = left-fold specification.**  For every statement list (any nesting): the stack
machine of `TimeAndDifficultyHelper` records, for every statement in textual (pre-)order, exactly
the time the label rules define: start 0, `N:` sets, `+N:` adds mod 2^32, anything else inherits;
blocks neither save nor restore time.  A non-constant delta anywhere makes the pass fail with the
diagnostic; the "empty time stack" panics are unreachable. -/
theorem visitor_eq_spec (body : List Stmt) :
    run body = if hasBad (flattenBlock body) then .err constErr
               else .ok (specTimes 0 (flattenBlock body)) := by
  have h := visitBlock_after body { timeStack := [0], failed := false, out := [], panicked := none } 0 [] rfl rfl
  unfold run
  rw [h]
  simp [after]

example : run [.abs 10, .instr, .block [.rel 5, .instr, .rel (-20)], .instr]
    = .ok [(.timeLabel, 10), (.instr, 10), (.block, 10), (.timeLabel, 15), (.instr, 15), (.timeLabel, -5), (.instr, -5)] := by
  decide

/-- the visitor never reaches one of its `expect("empty time stack?! (bug)")` sites -/
theorem visitor_no_panic (body : List Stmt) (site : String) : run body ≠ .panic site := by
  rw [visitor_eq_spec]; split <;> simp

/-- a label at the end of a block takes effect for what follows the block, one at the start of a
block for the block's first statement: a block is transparent for time -/
theorem block_transparent (pre body post : List Stmt) :
    (run (pre ++ .block body :: post)).isOk = (run (pre ++ body ++ post)).isOk ∧
    instrTimes (pre ++ .block body :: post) = instrTimes (pre ++ body ++ post) := by
  have flat_append : ∀ a b : List Stmt, flattenBlock (a ++ b) = flattenBlock a ++ flattenBlock b := by
    intro a b; induction a with
    | nil => rfl
    | cons s ss ih => simp [flattenBlock, ih]
  have hb1 : hasBad (flattenBlock (pre ++ .block body :: post)) = hasBad (flattenBlock (pre ++ body ++ post)) := by
    simp [flat_append, flattenBlock, flattenStmt, hasBad_append, hasBad]
  unfold instrTimes
  rw [visitor_eq_spec, visitor_eq_spec, hb1]
  split
  · simp [Outcome.isOk]
  · have hk : (Kind.block == Kind.instr) = false := rfl
    simp [Outcome.isOk, flat_append, flattenBlock, flattenStmt, specTimes_append, specTimes, step, kindOf,
      List.filter_append, List.filter, hk]

/-! ### decompile direction -/

/-- **the four cases of the label emitter reproduce the time**: for all `prev time : Int32`
(2^64 pairs, incl. negative, decreasing, wrapping differences, the inserted `0:`), applying the
emitted labels to `prev` by the label rules yields `time`. -/
theorem emit_reproduces (prev time : Int32) : (emitTime prev time).foldl stepOut prev = time := by
  unfold emitTime
  split
  · simp_all
  · split
    · split
      · simp [stepOut]
      · rename_i h1 h2 h3
        simp [stepOut]
        have a := h2.2
        rw [Int32.le_iff_toInt_le] at a
        rw [Int32.lt_iff_toInt_lt] at h3
        apply Eq.symm
        apply Int32.toInt_inj.mp
        simp at *
        omega
    · split
      · simp [stepOut]
      · simp [stepOut]
        rw [Int32.add_comm, Int32.sub_add_cancel]

example : emitTime (-5) 7 = [.abs 0, .rel 7] := by decide
example : emitTime (-5) 0 = [.abs 0] := by decide
example : emitTime 2147483647 (-2147483648) = [.abs (-2147483648)] := by decide
example : emitTime (-2147483648) (-1) = [.rel 2147483647] := by decide

theorem emitTime_no_instr (prev time : Int32) : Out.instr ∉ emitTime prev time := by
  unfold emitTime
  repeat' split
  all_goals simp

theorem emitTime_no_label (prev time : Int32) (n : LabelName) : Out.label n ∉ emitTime prev time := by
  unfold emitTime
  repeat' split
  all_goals simp

theorem timesFrom_append_of_no_instr (os rest : List Out) (t : Int32) (h : Out.instr ∉ os) :
    timesFrom t (os ++ rest) = timesFrom (os.foldl stepOut t) rest := by
  induction os generalizing t with
  | nil => rfl
  | cons o os ih =>
    cases o with
    | instr => simp at h
    | label n => simp at h; simpa [timesFrom, stepOut] using ih t h
    | abs v => simp at h; simpa [timesFrom, stepOut] using ih v h
    | rel d => simp at h; simpa [timesFrom, stepOut] using ih (t + d) h

theorem timesFrom_emitAllFrom (prev : Int32) (ts : List Int32) : timesFrom prev (emitAllFrom prev ts) = ts := by
  induction ts generalizing prev with
  | nil => rfl
  | cons t ts ih =>
    rw [emitAllFrom, timesFrom_append_of_no_instr _ _ _ (emitTime_no_instr prev t), emit_reproduces]
    simp [timesFrom, ih]

/-- **decompiled labels reproduce every stored time sequence**: for every `ts : List Int32`
(monotone, decreasing, negative, negative-to-positive crossings, repeated, wrapping), the times
the label rules assign to the instructions of the emitted statement list are exactly `ts`. -/
theorem times_emitAll (ts : List Int32) : times (emitAll ts) = ts :=
  timesFrom_emitAllFrom 0 ts

example : emitAll [-1, -1, 0, 5, 3, 3, 10] =
    [.abs (-1), .instr, .instr, .abs 0, .instr, .rel 5, .instr, .abs 3, .instr, .instr, .rel 7, .instr] := by decide

/-! ### decompile then recompile, inside the model -/

theorem specTimes_toStmt (os : List Out) (t : Int32) :
    ((specTimes t (os.map Out.toStmt)).filter (fun r => r.1 == Kind.instr)).map (·.2) = timesFrom t os := by
  induction os generalizing t with
  | nil => rfl
  | cons o os ih => cases o <;> simp [specTimes, Out.toStmt, kindOf, step, timesFrom, stepOut, ih]

theorem flattenBlock_toStmt (os : List Out) : flattenBlock (os.map Out.toStmt) = os.map Out.toStmt := by
  induction os with
  | nil => rfl
  | cons o os ih => cases o <;> simp [flattenBlock, flattenStmt, Out.toStmt, ih]

theorem hasBad_toStmt (os : List Out) : hasBad (os.map Out.toStmt) = false := by
  induction os with
  | nil => rfl
  | cons o os ih => cases o <;> simp [hasBad, Out.toStmt, ih]

/-- feeding emitted statements back to the compiler's time pass gives the label-rule times -/
theorem instrTimes_toStmt (os : List Out) : instrTimes (os.map Out.toStmt) = .ok (times os) := by
  unfold instrTimes
  rw [visitor_eq_spec, flattenBlock_toStmt, hasBad_toStmt]
  simp [specTimes_toStmt, times]

/-- **round trip in the model**: recompiling the statements the decompiler emits for the stored
times `ts` stores `ts` again. -/
theorem recompile_emitAll (ts : List Int32) : instrTimes ((emitAll ts).map Out.toStmt) = .ok ts := by
  rw [instrTimes_toStmt, times_emitAll]

/-! ### offset labels -/

/-- one call of the emitter, with an offset label: the time labels still reproduce `time`, no
instruction is emitted, and the label (if any) sits exactly at its `time_label` -/
theorem emitLabels_spec (prev time : Int32) (lab : Option Label) (os : List Out)
    (h : emitLabels prev time lab = .ok os) :
    os.foldl stepOut prev = time ∧ Out.instr ∉ os ∧
    labelTimesFrom prev os = (lab.map fun l => (l.name, l.time)).toList := by
  have nolab : ∀ (p : Int32) (l : List Out), (∀ n, Out.label n ∉ l) → labelTimesFrom p l = [] := by
    intro p l; induction l generalizing p with
    | nil => intro _; rfl
    | cons o os ih =>
      intro hl
      cases o with
      | label n => exact absurd (List.mem_cons_self) (hl n)
      | abs v => simp [labelTimesFrom]; exact ih _ (fun n hr => hl n (List.mem_cons_of_mem _ hr))
      | rel d => simp [labelTimesFrom]; exact ih _ (fun n hr => hl n (List.mem_cons_of_mem _ hr))
      | instr => simp [labelTimesFrom]; exact ih _ (fun n hr => hl n (List.mem_cons_of_mem _ hr))
  have lab_after : ∀ (p : Int32) (l : List Out) (n : LabelName), (∀ n, Out.label n ∉ l) →
      labelTimesFrom p (l ++ [.label n]) = [(n, l.foldl stepOut p)] := by
    intro p l n; induction l generalizing p with
    | nil => intro _; rfl
    | cons o os ih =>
      intro hl
      have hl' : ∀ n, Out.label n ∉ os := fun n hr => hl n (List.mem_cons_of_mem _ hr)
      cases o with
      | label n' => exact absurd (List.mem_cons_self) (hl n')
      | abs v => simp [labelTimesFrom, stepOut]; simpa using ih v hl'
      | rel d => simp [labelTimesFrom, stepOut]; simpa using ih (p + d) hl'
      | instr => simp [labelTimesFrom, stepOut]; simpa using ih p hl'
  unfold emitLabels at h
  cases lab with
  | none =>
    simp at h; subst h
    exact ⟨emit_reproduces prev time, emitTime_no_instr prev time, nolab _ _ (emitTime_no_label prev time)⟩
  | some l =>
    simp at h
    split at h
    · rename_i hp
      simp at h; subst h
      refine ⟨by simpa [stepOut] using emit_reproduces prev time, by simpa using emitTime_no_instr prev time, ?_⟩
      simp [labelTimesFrom, hp, nolab _ _ (emitTime_no_label prev time)]
    · split at h
      · rename_i hp ht
        simp at h; subst h
        refine ⟨by simpa [stepOut] using emit_reproduces prev time, by simpa using emitTime_no_instr prev time, ?_⟩
        rw [lab_after _ _ _ (emitTime_no_label prev time), emit_reproduces]; simp [ht]
      · simp at h

/-- `generate_label_at_offset` only ever asks for the previous instruction's time (an `r` label,
named after the previous instruction and placed before the relative time increase) or the
destination's time (named after the destination, placed after it) -/
theorem labelAt_time (pi ni : Nat) (prev next : Int32) (args : List Int32) :
    ((labelAt pi prev ni next args).name = .before pi ∧ (labelAt pi prev ni next args).time = prev ∧
        prev < next ∧ ∀ a ∈ args, a = prev) ∨
    ((labelAt pi prev ni next args).name = .dest ni ∧ (labelAt pi prev ni next args).time = next) := by
  unfold labelAt
  split
  · rename_i h
    refine .inl ⟨rfl, rfl, h.1, ?_⟩
    intro a ha
    have := List.all_eq_true.mp h.2.2 a ha
    simpa using this
  · exact .inr ⟨rfl, rfl⟩

/-- **the "impossible time for label" panic is unreachable** for a label that wants the previous
instruction's time or the destination's time -/
theorem label_always_placed (prev next : Int32) (l : Label) (h : l.time = prev ∨ l.time = next) (site : String) :
    emitLabels prev next (some l) ≠ .panic site := by
  unfold emitLabels
  simp only
  split
  · simp
  · split
    · simp
    · rename_i h1 h2
      rcases h with h | h <;> contradiction

/-- the label `generate_offset_labels` attaches to instruction `k`: its time is the time the
emitter has before (`prevTimeAt`) or at (`timeAt`) that instruction; renaming the start label
does not change the time -/
theorem renameStart_time (k : Nat) (dt : Int32) (l : Label) : (renameStart k dt l).time = l.time := by
  unfold renameStart; split <;> rfl

theorem labelFor_time (is : List RInstr) (k : Nat) (l : Label) (h : labelFor is k = some l) :
    l.time = prevTimeAt is k ∨ l.time = timeAt is k := by
  unfold labelFor at h
  split at h
  · simp at h
  · rename_i args _
    simp only [Option.some.injEq] at h
    subst h
    rw [renameStart_time]
    rcases labelAt_time (k - 1) k (prevTimeAt is k) (timeAt is k) (jumpArgs is k) with ht | ht
    · exact .inl ht.2.1
    · exact .inr ht.2

example : emitLabels 10 20 (some (labelAt 3 10 4 20 [10])) = .ok [.label (.before 3), .rel 10] := by decide
example : emitLabels 10 20 (some (labelAt 3 10 4 20 [10, 20])) = .ok [.rel 10, .label (.dest 4)] := by decide
example : emitLabels 10 20 (some ⟨.dest 4, 15⟩) = .panic impossibleMsg := by decide

/-- **stored scripts with jumps**: whenever the raiser produces statements, the label rules give
every instruction its stored time back -/
theorem raiseFrom_times (is : List RInstr) (rest : List RInstr) (prev : Int32) (k : Nat) (os : List Out)
    (h : raiseFrom is prev k rest = .ok os) : timesFrom prev os = rest.map (·.time) := by
  induction rest generalizing prev k os with
  | nil =>
    simp [raiseFrom] at h
    have := emitLabels_spec _ _ _ _ h
    have h2 := timesFrom_append_of_no_instr os [] prev this.2.1
    simpa [timesFrom] using h2
  | cons i rest ih =>
    simp only [raiseFrom] at h
    split at h
    · rename_i os1 h1
      split at h
      · rename_i os2 h2
        simp at h; subst h
        have s1 := emitLabels_spec _ _ _ _ h1
        rw [timesFrom_append_of_no_instr _ _ _ s1.2.1, s1.1]
        simp [timesFrom, ih _ _ _ h2]
      · rename_i e hne
        cases e <;> simp_all
    · rename_i e hne
      cases e <;> simp_all

theorem raise_times (is : List RInstr) (os : List Out) (h : raise is = .ok os) :
    times os = is.map (·.time) := by
  unfold raise at h
  split at h
  · simp at h
  · exact raiseFrom_times is is 0 0 os h

/-- every offset label in the output sits at the time `generate_label_at_offset` chose for it:
the previous instruction's time for an `r` label, the destination's time otherwise -/
theorem raiseFrom_label_times (is : List RInstr) (rest : List RInstr) (prev : Int32) (k : Nat) (os : List Out)
    (h : raiseFrom is prev k rest = .ok os) :
    labelTimesFrom prev os =
      (List.range' k (rest.length + 1)).filterMap (fun j => (labelFor is j).map (fun l => (l.name, l.time))) := by
  have lt_append : ∀ (a b : List Out) (p : Int32), Out.instr ∉ a →
      labelTimesFrom p (a ++ .instr :: b) = labelTimesFrom p a ++ labelTimesFrom (a.foldl stepOut p) b := by
    intro a b p; induction a generalizing p with
    | nil => intro _; simp [labelTimesFrom, stepOut]
    | cons o os ih =>
      intro hn
      have hn' : Out.instr ∉ os := fun hr => hn (List.mem_cons_of_mem _ hr)
      cases o with
      | instr => simp at hn
      | label n => simp [labelTimesFrom, stepOut, ih p hn']
      | abs v => simp [labelTimesFrom, stepOut, ih v hn']
      | rel d => simp [labelTimesFrom, stepOut, ih (p + d) hn']
  induction rest generalizing prev k os with
  | nil =>
    simp [raiseFrom] at h
    have := (emitLabels_spec _ _ _ _ h).2.2
    rw [this]
    cases hl : labelFor is k <;> simp [List.range', List.filterMap, hl]
  | cons i rest ih =>
    simp only [raiseFrom] at h
    split at h
    · rename_i os1 h1
      split at h
      · rename_i os2 h2
        simp at h; subst h
        have s1 := emitLabels_spec _ _ _ _ h1
        rw [lt_append _ _ _ s1.2.1, s1.1, s1.2.2, ih _ _ _ h2]
        cases hl : labelFor is k <;> simp [List.range', List.filterMap, hl]
      · rename_i e hne
        cases e <;> simp_all
    · rename_i e hne
      cases e <;> simp_all

theorem rlabel_time (is : List RInstr) (os : List Out) (h : raise is = .ok os) :
    labelTimesFrom 0 os =
      (List.range (is.length + 1)).filterMap (fun j => (labelFor is j).map (fun l => (l.name, l.time))) := by
  unfold raise at h
  split at h
  · simp at h
  · simpa [List.range_eq_range'] using raiseFrom_label_times is is 0 0 os h

/-- the raiser never reaches the "impossible time for label" panic, for any stored script -/
theorem raise_no_panic (is : List RInstr) (site : String) : raise is ≠ .panic site := by
  -- invariant: at index k the emitter's `prev` is `prevTimeAt is k`
  have key : ∀ (rest pre : List RInstr) (prev : Int32), is = pre ++ rest → prev = prevTimeAt is pre.length →
      raiseFrom is prev pre.length rest ≠ .panic site := by
    intro rest
    induction rest with
    | nil =>
      intro pre prev _ _
      simp only [raiseFrom]
      cases hl : labelFor is pre.length with
      | none => simp [emitLabels]
      | some l =>
        simp only [emitLabels]
        split
        · simp
        · simp
    | cons i rest ih =>
      intro pre prev his hprev
      simp only [raiseFrom]
      have hi : is[pre.length]? = some i := by simp [his]
      have htime : timeAt is pre.length = i.time := by simp [timeAt, hi]
      have h1 : emitLabels prev i.time (labelFor is pre.length) ≠ .panic site := by
        cases hl : labelFor is pre.length with
        | none => simp [emitLabels]
        | some l =>
          have := labelFor_time is pre.length l hl
          rw [htime, ← hprev] at this
          exact label_always_placed _ _ l this site
      have h2 := ih (pre ++ [i]) i.time (by simp [his]) (by simp [prevTimeAt, hi])
      simp at h2
      split
      · split
        · simp
        · rename_i e hne
          intro hc; rw [hc] at hne; exact h2 (by cases hr : raiseFrom is i.time (pre.length + 1) rest <;> simp_all)
      · rename_i e hne
        intro hc; rw [hc] at hne; exact h1 (by cases hr : emitLabels prev i.time (labelFor is pre.length) <;> simp_all)
  unfold raise
  split
  · simp
  · exact key is [] 0 rfl rfl

example : raise [⟨0, none⟩, ⟨10, some (1, some 0)⟩, ⟨-3, some (3, none)⟩]
    = .ok [.instr, .label (.before 0), .rel 10, .instr, .abs (-3), .instr, .label (.dest 3)] := by decide


/-! ### label names -/

/-- which names `generate_offset_labels` can give to the label of instruction `k` -/
theorem labelFor_name (is : List RInstr) (k : Nat) (l : Label) (h : labelFor is k = some l) :
    (k = 0 ∧ (l.name = .start ∨ l.name = .dest 0)) ∨ (0 < k ∧ (l.name = .before (k - 1) ∨ l.name = .dest k)) := by
  unfold labelFor at h
  split at h
  · simp at h
  · rename_i args _
    simp only [Option.some.injEq] at h
    subst h
    have ht := labelAt_time (k - 1) k (prevTimeAt is k) (timeAt is k) (jumpArgs is k)
    unfold renameStart
    split
    · rename_i hk
      exact .inl ⟨hk.1, .inl rfl⟩
    · rename_i hk
      by_cases h0 : k = 0
      · left
        refine ⟨h0, .inr ?_⟩
        rcases ht with ht | ht
        · -- an `r` label at the start would have been renamed: its time differs from the destination's
          exfalso
          apply hk
          refine ⟨h0, ?_⟩
          rw [ht.2.1]
          intro heq
          have := ht.2.2.1
          rw [heq] at this
          exact absurd this (by simp)
        · rw [ht.1, h0]
      · right
        refine ⟨by omega, ?_⟩
        rcases ht with ht | ht
        · exact .inl ht.1
        · exact .inr ht.1

/-- **label names are unique**: two different destinations never get the same label name (the
start-of-script `r` label is `label_startr`, so it no longer shares `label_0r` with the `r` label
of instruction 1).  Formerly false: the stored script `[⟨10, jump to 0 @ 0⟩, ⟨20, jump to 1 @ 10⟩]`
gave `label_0r` twice and the printed script did not recompile (finding
`r-label-name-collision-at-script-start`, fixed). -/
theorem label_names (is : List RInstr) (k1 k2 : Nat) (l1 l2 : Label)
    (h1 : labelFor is k1 = some l1) (h2 : labelFor is k2 = some l2) (hn : l1.name = l2.name) : k1 = k2 := by
  have n1 := labelFor_name is k1 l1 h1
  have n2 := labelFor_name is k2 l2 h2
  rcases n1 with ⟨e1, a1 | a1⟩ | ⟨e1, a1 | a1⟩ <;> rcases n2 with ⟨e2, a2 | a2⟩ | ⟨e2, a2 | a2⟩ <;>
    rw [a1, a2] at hn <;> simp at hn <;> omega

-- the former witness of the collision: the two labels now have different names
example : raise [⟨10, some (0, some 0)⟩, ⟨20, some (1, some 10)⟩]
      = .ok [.label .start, .rel 10, .instr, .label (.before 0), .rel 10, .instr] := by decide

end TruthModel.C13
