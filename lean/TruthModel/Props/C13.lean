import TruthModel.Model.Time
import TruthModel.Model.TimeDelta
import TruthModel.Props.C11
/-
C13 — every instruction gets exactly the time its labels say.

All theorems quantify over every statement list / every `Int32` time sequence / every stored
script (no size bounds).  `Int32` arithmetic is the machine's (wrapping).
-/
namespace TruthModel.C13
open TruthModel TruthModel.Time

/-! ### helper lemmas -/

theorem specTimes_append (t : Int32) (a b : List Stmt) :
    specTimes t (a ++ b) = specTimes t a ++ specTimes (a.foldl step t) b := by
  induction a generalizing t with
  | nil => rfl
  | cons s ss ih => simp [specTimes, ih]

theorem hasBad_append (a b : List Stmt) : hasBad (a ++ b) = (hasBad a || hasBad b) := by
  induction a with
  | nil => rfl
  | cons s ss ih => cases s <;> simp [hasBad, ih]

/-- the state the visitor is in after a flat statement list, started with `t` on top of the stack -/
def after (st : VState) (t : Int32) (rest : List Int32) (flat : List Stmt) : VState :=
  { timeStack := flat.foldl step t :: rest
    failed := st.failed || hasBad flat
    out := (specTimes t flat).reverse ++ st.out
    panicked := none }

mutual
theorem visitStmt_after (s : Stmt) (st : VState) (t : Int32) (rest : List Int32)
    (hs : st.timeStack = t :: rest) (hp : st.panicked = none) :
    visitStmt st s = after st t rest (flattenStmt s) := by
  cases s with
  | block body =>
    have h := visitBlock_after body (record (shallow st (.block body)) .block) t rest
      (by simp [record, shallow, hs]) (by simp [record, shallow, hs, hp])
    rw [visitStmt, h]
    simp [after, flattenStmt, specTimes, hasBad, record, shallow, hs, step, kindOf]
  | abs v => cases st; simp_all [visitStmt, after, flattenStmt, specTimes, hasBad, record, shallow, step, kindOf]
  | rel d => cases st; simp_all [visitStmt, after, flattenStmt, specTimes, hasBad, record, shallow, step, kindOf]
  | relBad => cases st; simp_all [visitStmt, after, flattenStmt, specTimes, hasBad, record, shallow, step, kindOf]
  | instr => cases st; simp_all [visitStmt, after, flattenStmt, specTimes, hasBad, record, step, kindOf]
  | label => cases st; simp_all [visitStmt, after, flattenStmt, specTimes, hasBad, record, step, kindOf]
theorem visitBlock_after (ss : List Stmt) (st : VState) (t : Int32) (rest : List Int32)
    (hs : st.timeStack = t :: rest) (hp : st.panicked = none) :
    visitBlock st ss = after st t rest (flattenBlock ss) := by
  cases ss with
  | nil => cases st; simp_all [visitBlock, after, flattenBlock, specTimes, hasBad]
  | cons s ss =>
    have h1 := visitStmt_after s st t rest hs hp
    have h2 := visitBlock_after ss (after st t rest (flattenStmt s)) ((flattenStmt s).foldl step t) rest rfl rfl
    rw [visitBlock, h1, h2]
    simp [after, flattenBlock, specTimes_append, hasBad_append, List.foldl_append, Bool.or_assoc]
end

/-! ### compile direction -/

/-- **visitor = left-fold specification.**  For every statement list (any nesting): the stack
machine of `TimeAndDifficultyHelper` records, for every statement in textual (pre-)order, exactly
the time the label rules define: start 0, `N:` sets, `+N:` adds mod 2^32, anything else inherits;
blocks neither save nor restore time.  A non-constant delta anywhere makes the pass fail with the
diagnostic; the "empty time stack" panics are unreachable. -/
theorem visitor_eq_spec (body : List Stmt) :
    run body = if hasBad (flattenBlock body) then .err constErr
               else .ok (specTimes 0 (flattenBlock body)) := by
  have h := visitBlock_after body { timeStack := [0], failed := false, out := [], panicked := none } 0 [] rfl rfl
  unfold run
  rw [h]
  simp [after]

example : run [.abs 10, .instr, .block [.rel 5, .instr, .rel (-20)], .instr]
    = .ok [(.timeLabel, 10), (.instr, 10), (.block, 10), (.timeLabel, 15), (.instr, 15), (.timeLabel, -5), (.instr, -5)] := by
  decide

/-- the visitor never reaches one of its `expect("empty time stack?! (bug)")` sites -/
theorem visitor_no_panic (body : List Stmt) (site : String) : run body ≠ .panic site := by
  rw [visitor_eq_spec]; split <;> simp

/-- a label at the end of a block takes effect for what follows the block, one at the start of a
block for the block's first statement: a block is transparent for time -/
theorem block_transparent (pre body post : List Stmt) :
    (run (pre ++ .block body :: post)).isOk = (run (pre ++ body ++ post)).isOk ∧
    instrTimes (pre ++ .block body :: post) = instrTimes (pre ++ body ++ post) := by
  have flat_append : ∀ a b : List Stmt, flattenBlock (a ++ b) = flattenBlock a ++ flattenBlock b := by
    intro a b; induction a with
    | nil => rfl
    | cons s ss ih => simp [flattenBlock, ih]
  have hb1 : hasBad (flattenBlock (pre ++ .block body :: post)) = hasBad (flattenBlock (pre ++ body ++ post)) := by
    simp [flat_append, flattenBlock, flattenStmt, hasBad_append, hasBad]
  unfold instrTimes
  rw [visitor_eq_spec, visitor_eq_spec, hb1]
  split
  · simp [Outcome.isOk]
  · have hk : (Kind.block == Kind.instr) = false := rfl
    simp [Outcome.isOk, flat_append, flattenBlock, flattenStmt, specTimes_append, specTimes, step, kindOf,
      List.filter_append, List.filter, hk]

/-! ### decompile direction -/

/-- **the four cases of the label emitter reproduce the time**: for all `prev time : Int32`
(2^64 pairs, incl. negative, decreasing, wrapping differences, the inserted `0:`), applying the
emitted labels to `prev` by the label rules yields `time`. -/
theorem emit_reproduces (prev time : Int32) : (emitTime prev time).foldl stepOut prev = time := by
  unfold emitTime
  split
  · simp_all
  · split
    · split
      · simp [stepOut]
      · rename_i h1 h2 h3
        simp [stepOut]
        have a := h2.2
        rw [Int32.le_iff_toInt_le] at a
        rw [Int32.lt_iff_toInt_lt] at h3
        apply Eq.symm
        apply Int32.toInt_inj.mp
        simp at *
        omega
    · split
      · simp [stepOut]
      · simp [stepOut]
        rw [Int32.add_comm, Int32.sub_add_cancel]

example : emitTime (-5) 7 = [.abs 0, .rel 7] := by decide
example : emitTime (-5) 0 = [.abs 0] := by decide
example : emitTime 2147483647 (-2147483648) = [.abs (-2147483648)] := by decide
example : emitTime (-2147483648) (-1) = [.rel 2147483647] := by decide

theorem emitTime_no_instr (prev time : Int32) : Out.instr ∉ emitTime prev time := by
  unfold emitTime
  repeat' split
  all_goals simp

theorem emitTime_no_label (prev time : Int32) (n : LabelName) : Out.label n ∉ emitTime prev time := by
  unfold emitTime
  repeat' split
  all_goals simp

theorem timesFrom_append_of_no_instr (os rest : List Out) (t : Int32) (h : Out.instr ∉ os) :
    timesFrom t (os ++ rest) = timesFrom (os.foldl stepOut t) rest := by
  induction os generalizing t with
  | nil => rfl
  | cons o os ih =>
    cases o with
    | instr => simp at h
    | label n => simp at h; simpa [timesFrom, stepOut] using ih t h
    | abs v => simp at h; simpa [timesFrom, stepOut] using ih v h
    | rel d => simp at h; simpa [timesFrom, stepOut] using ih (t + d) h

theorem timesFrom_emitAllFrom (prev : Int32) (ts : List Int32) : timesFrom prev (emitAllFrom prev ts) = ts := by
  induction ts generalizing prev with
  | nil => rfl
  | cons t ts ih =>
    rw [emitAllFrom, timesFrom_append_of_no_instr _ _ _ (emitTime_no_instr prev t), emit_reproduces]
    simp [timesFrom, ih]

/-- **decompiled labels reproduce every stored time sequence**: for every `ts : List Int32`
(monotone, decreasing, negative, negative-to-positive crossings, repeated, wrapping), the times
the label rules assign to the instructions of the emitted statement list are exactly `ts`. -/
theorem times_emitAll (ts : List Int32) : times (emitAll ts) = ts :=
  timesFrom_emitAllFrom 0 ts

example : emitAll [-1, -1, 0, 5, 3, 3, 10] =
    [.abs (-1), .instr, .instr, .abs 0, .instr, .rel 5, .instr, .abs 3, .instr, .instr, .rel 7, .instr] := by decide

/-! ### decompile then recompile, inside the model -/

theorem specTimes_toStmt (os : List Out) (t : Int32) :
    ((specTimes t (os.map Out.toStmt)).filter (fun r => r.1 == Kind.instr)).map (·.2) = timesFrom t os := by
  induction os generalizing t with
  | nil => rfl
  | cons o os ih => cases o <;> simp [specTimes, Out.toStmt, kindOf, step, timesFrom, stepOut, ih]

theorem flattenBlock_toStmt (os : List Out) : flattenBlock (os.map Out.toStmt) = os.map Out.toStmt := by
  induction os with
  | nil => rfl
  | cons o os ih => cases o <;> simp [flattenBlock, flattenStmt, Out.toStmt, ih]

theorem hasBad_toStmt (os : List Out) : hasBad (os.map Out.toStmt) = false := by
  induction os with
  | nil => rfl
  | cons o os ih => cases o <;> simp [hasBad, Out.toStmt, ih]

/-- feeding emitted statements back to the compiler's time pass gives the label-rule times -/
theorem instrTimes_toStmt (os : List Out) : instrTimes (os.map Out.toStmt) = .ok (times os) := by
  unfold instrTimes
  rw [visitor_eq_spec, flattenBlock_toStmt, hasBad_toStmt]
  simp [specTimes_toStmt, times]

/-- **round trip in the model**: recompiling the statements the decompiler emits for the stored
times `ts` stores `ts` again. -/
theorem recompile_emitAll (ts : List Int32) : instrTimes ((emitAll ts).map Out.toStmt) = .ok ts := by
  rw [instrTimes_toStmt, times_emitAll]

/-! ### offset labels -/

/-- one call of the emitter, with an offset label: the time labels still reproduce `time`, no
instruction is emitted, and the label (if any) sits exactly at its `time_label` -/
theorem emitLabels_spec (prev time : Int32) (lab : Option Label) (os : List Out)
    (h : emitLabels prev time lab = .ok os) :
    os.foldl stepOut prev = time ∧ Out.instr ∉ os ∧
    labelTimesFrom prev os = (lab.map fun l => (l.name, l.time)).toList := by
  have nolab : ∀ (p : Int32) (l : List Out), (∀ n, Out.label n ∉ l) → labelTimesFrom p l = [] := by
    intro p l; induction l generalizing p with
    | nil => intro _; rfl
    | cons o os ih =>
      intro hl
      cases o with
      | label n => exact absurd (List.mem_cons_self) (hl n)
      | abs v => simp [labelTimesFrom]; exact ih _ (fun n hr => hl n (List.mem_cons_of_mem _ hr))
      | rel d => simp [labelTimesFrom]; exact ih _ (fun n hr => hl n (List.mem_cons_of_mem _ hr))
      | instr => simp [labelTimesFrom]; exact ih _ (fun n hr => hl n (List.mem_cons_of_mem _ hr))
  have lab_after : ∀ (p : Int32) (l : List Out) (n : LabelName), (∀ n, Out.label n ∉ l) →
      labelTimesFrom p (l ++ [.label n]) = [(n, l.foldl stepOut p)] := by
    intro p l n; induction l generalizing p with
    | nil => intro _; rfl
    | cons o os ih =>
      intro hl
      have hl' : ∀ n, Out.label n ∉ os := fun n hr => hl n (List.mem_cons_of_mem _ hr)
      cases o with
      | label n' => exact absurd (List.mem_cons_self) (hl n')
      | abs v => simp [labelTimesFrom, stepOut]; simpa using ih v hl'
      | rel d => simp [labelTimesFrom, stepOut]; simpa using ih (p + d) hl'
      | instr => simp [labelTimesFrom, stepOut]; simpa using ih p hl'
  unfold emitLabels at h
  cases lab with
  | none =>
    simp at h; subst h
    exact ⟨emit_reproduces prev time, emitTime_no_instr prev time, nolab _ _ (emitTime_no_label prev time)⟩
  | some l =>
    simp at h
    split at h
    · rename_i hp
      simp at h; subst h
      refine ⟨by simpa [stepOut] using emit_reproduces prev time, by simpa using emitTime_no_instr prev time, ?_⟩
      simp [labelTimesFrom, hp, nolab _ _ (emitTime_no_label prev time)]
    · split at h
      · rename_i hp ht
        simp at h; subst h
        refine ⟨by simpa [stepOut] using emit_reproduces prev time, by simpa using emitTime_no_instr prev time, ?_⟩
        rw [lab_after _ _ _ (emitTime_no_label prev time), emit_reproduces]; simp [ht]
      · simp at h

/-- `generate_label_at_offset` only ever asks for the previous instruction's time (an `r` label,
named after the previous instruction and placed before the relative time increase) or the
destination's time (named after the destination, placed after it) -/
theorem labelAt_time (pi ni : Nat) (prev next : Int32) (args : List Int32) :
    ((labelAt pi prev ni next args).name = .before pi ∧ (labelAt pi prev ni next args).time = prev ∧
        prev < next ∧ ∀ a ∈ args, a = prev) ∨
    ((labelAt pi prev ni next args).name = .dest ni ∧ (labelAt pi prev ni next args).time = next) := by
  unfold labelAt
  split
  · rename_i h
    refine .inl ⟨rfl, rfl, h.1, ?_⟩
    intro a ha
    have := List.all_eq_true.mp h.2.2 a ha
    simpa using this
  · exact .inr ⟨rfl, rfl⟩

/-- **the "impossible time for label" panic is unreachable** for a label that wants the previous
instruction's time or the destination's time -/
theorem label_always_placed (prev next : Int32) (l : Label) (h : l.time = prev ∨ l.time = next) (site : String) :
    emitLabels prev next (some l) ≠ .panic site := by
  unfold emitLabels
  simp only
  split
  · simp
  · split
    · simp
    · rename_i h1 h2
      rcases h with h | h <;> contradiction

/-- the label `generate_offset_labels` attaches to instruction `k`: its time is the time the
emitter has before (`prevTimeAt`) or at (`timeAt`) that instruction; renaming the start label
does not change the time -/
theorem renameStart_time (k : Nat) (dt : Int32) (l : Label) : (renameStart k dt l).time = l.time := by
  unfold renameStart; split <;> rfl

theorem labelFor_time (is : List RInstr) (k : Nat) (l : Label) (h : labelFor is k = some l) :
    l.time = prevTimeAt is k ∨ l.time = timeAt is k := by
  unfold labelFor at h
  split at h
  · simp at h
  · rename_i args _
    simp only [Option.some.injEq] at h
    subst h
    rw [renameStart_time]
    rcases labelAt_time (k - 1) k (prevTimeAt is k) (timeAt is k) (jumpArgs is k) with ht | ht
    · exact .inl ht.2.1
    · exact .inr ht.2

example : emitLabels 10 20 (some (labelAt 3 10 4 20 [10])) = .ok [.label (.before 3), .rel 10] := by decide
example : emitLabels 10 20 (some (labelAt 3 10 4 20 [10, 20])) = .ok [.rel 10, .label (.dest 4)] := by decide
example : emitLabels 10 20 (some ⟨.dest 4, 15⟩) = .panic impossibleMsg := by decide

/-- **stored scripts with jumps**: whenever the raiser produces statements, the label rules give
every instruction its stored time back -/
theorem raiseFrom_times (is : List RInstr) (rest : List RInstr) (prev : Int32) (k : Nat) (os : List Out)
    (h : raiseFrom is prev k rest = .ok os) : timesFrom prev os = rest.map (·.time) := by
  induction rest generalizing prev k os with
  | nil =>
    simp [raiseFrom] at h
    have := emitLabels_spec _ _ _ _ h
    have h2 := timesFrom_append_of_no_instr os [] prev this.2.1
    simpa [timesFrom] using h2
  | cons i rest ih =>
    simp only [raiseFrom] at h
    split at h
    · rename_i os1 h1
      split at h
      · rename_i os2 h2
        simp at h; subst h
        have s1 := emitLabels_spec _ _ _ _ h1
        rw [timesFrom_append_of_no_instr _ _ _ s1.2.1, s1.1]
        simp [timesFrom, ih _ _ _ h2]
      · rename_i e hne
        cases e <;> simp_all
    · rename_i e hne
      cases e <;> simp_all

theorem raise_times (is : List RInstr) (os : List Out) (h : raise is = .ok os) :
    times os = is.map (·.time) := by
  unfold raise at h
  split at h
  · simp at h
  · exact raiseFrom_times is is 0 0 os h

/-- every offset label in the output sits at the time `generate_label_at_offset` chose for it:
the previous instruction's time for an `r` label, the destination's time otherwise -/
theorem raiseFrom_label_times (is : List RInstr) (rest : List RInstr) (prev : Int32) (k : Nat) (os : List Out)
    (h : raiseFrom is prev k rest = .ok os) :
    labelTimesFrom prev os =
      (List.range' k (rest.length + 1)).filterMap (fun j => (labelFor is j).map (fun l => (l.name, l.time))) := by
  have lt_append : ∀ (a b : List Out) (p : Int32), Out.instr ∉ a →
      labelTimesFrom p (a ++ .instr :: b) = labelTimesFrom p a ++ labelTimesFrom (a.foldl stepOut p) b := by
    intro a b p; induction a generalizing p with
    | nil => intro _; simp [labelTimesFrom, stepOut]
    | cons o os ih =>
      intro hn
      have hn' : Out.instr ∉ os := fun hr => hn (List.mem_cons_of_mem _ hr)
      cases o with
      | instr => simp at hn
      | label n => simp [labelTimesFrom, stepOut, ih p hn']
      | abs v => simp [labelTimesFrom, stepOut, ih v hn']
      | rel d => simp [labelTimesFrom, stepOut, ih (p + d) hn']
  induction rest generalizing prev k os with
  | nil =>
    simp [raiseFrom] at h
    have := (emitLabels_spec _ _ _ _ h).2.2
    rw [this]
    cases hl : labelFor is k <;> simp [List.range', List.filterMap, hl]
  | cons i rest ih =>
    simp only [raiseFrom] at h
    split at h
    · rename_i os1 h1
      split at h
      · rename_i os2 h2
        simp at h; subst h
        have s1 := emitLabels_spec _ _ _ _ h1
        rw [lt_append _ _ _ s1.2.1, s1.1, s1.2.2, ih _ _ _ h2]
        cases hl : labelFor is k <;> simp [List.range', List.filterMap, hl]
      · rename_i e hne
        cases e <;> simp_all
    · rename_i e hne
      cases e <;> simp_all

theorem rlabel_time (is : List RInstr) (os : List Out) (h : raise is = .ok os) :
    labelTimesFrom 0 os =
      (List.range (is.length + 1)).filterMap (fun j => (labelFor is j).map (fun l => (l.name, l.time))) := by
  unfold raise at h
  split at h
  · simp at h
  · simpa [List.range_eq_range'] using raiseFrom_label_times is is 0 0 os h

/-- the raiser never reaches the "impossible time for label" panic, for any stored script -/
theorem raise_no_panic (is : List RInstr) (site : String) : raise is ≠ .panic site := by
  -- invariant: at index k the emitter's `prev` is `prevTimeAt is k`
  have key : ∀ (rest pre : List RInstr) (prev : Int32), is = pre ++ rest → prev = prevTimeAt is pre.length →
      raiseFrom is prev pre.length rest ≠ .panic site := by
    intro rest
    induction rest with
    | nil =>
      intro pre prev _ _
      simp only [raiseFrom]
      cases hl : labelFor is pre.length with
      | none => simp [emitLabels]
      | some l =>
        simp only [emitLabels]
        split
        · simp
        · simp
    | cons i rest ih =>
      intro pre prev his hprev
      simp only [raiseFrom]
      have hi : is[pre.length]? = some i := by simp [his]
      have htime : timeAt is pre.length = i.time := by simp [timeAt, hi]
      have h1 : emitLabels prev i.time (labelFor is pre.length) ≠ .panic site := by
        cases hl : labelFor is pre.length with
        | none => simp [emitLabels]
        | some l =>
          have := labelFor_time is pre.length l hl
          rw [htime, ← hprev] at this
          exact label_always_placed _ _ l this site
      have h2 := ih (pre ++ [i]) i.time (by simp [his]) (by simp [prevTimeAt, hi])
      simp at h2
      split
      · split
        · simp
        · rename_i e hne
          intro hc; rw [hc] at hne; exact h2 (by cases hr : raiseFrom is i.time (pre.length + 1) rest <;> simp_all)
      · rename_i e hne
        intro hc; rw [hc] at hne; exact h1 (by cases hr : emitLabels prev i.time (labelFor is pre.length) <;> simp_all)
  unfold raise
  split
  · simp
  · exact key is [] 0 rfl rfl

example : raise [⟨0, none⟩, ⟨10, some (1, some 0)⟩, ⟨-3, some (3, none)⟩]
    = .ok [.instr, .label (.before 0), .rel 10, .instr, .abs (-3), .instr, .label (.dest 3)] := by decide


/-! ### label names -/

/-- which names `generate_offset_labels` can give to the label of instruction `k` -/
theorem labelFor_name (is : List RInstr) (k : Nat) (l : Label) (h : labelFor is k = some l) :
    (k = 0 ∧ (l.name = .start ∨ l.name = .dest 0)) ∨ (0 < k ∧ (l.name = .before (k - 1) ∨ l.name = .dest k)) := by
  unfold labelFor at h
  split at h
  · simp at h
  · rename_i args _
    simp only [Option.some.injEq] at h
    subst h
    have ht := labelAt_time (k - 1) k (prevTimeAt is k) (timeAt is k) (jumpArgs is k)
    unfold renameStart
    split
    · rename_i hk
      exact .inl ⟨hk.1, .inl rfl⟩
    · rename_i hk
      by_cases h0 : k = 0
      · left
        refine ⟨h0, .inr ?_⟩
        rcases ht with ht | ht
        · -- an `r` label at the start would have been renamed: its time differs from the destination's
          exfalso
          apply hk
          refine ⟨h0, ?_⟩
          rw [ht.2.1]
          intro heq
          have := ht.2.2.1
          rw [heq] at this
          exact absurd this (by simp)
        · rw [ht.1, h0]
      · right
        refine ⟨by omega, ?_⟩
        rcases ht with ht | ht
        · exact .inl ht.1
        · exact .inr ht.1

/-- **label names are unique**: two different destinations never get the same label name (the
start-of-script `r` label is `label_startr`, so it no longer shares `label_0r` with the `r` label
of instruction 1).  Formerly false: the stored script `[⟨10, jump to 0 @ 0⟩, ⟨20, jump to 1 @ 10⟩]`
gave `label_0r` twice and the printed script did not recompile (finding
`r-label-name-collision-at-script-start`, fixed). -/
theorem label_names (is : List RInstr) (k1 k2 : Nat) (l1 l2 : Label)
    (h1 : labelFor is k1 = some l1) (h2 : labelFor is k2 = some l2) (hn : l1.name = l2.name) : k1 = k2 := by
  have n1 := labelFor_name is k1 l1 h1
  have n2 := labelFor_name is k2 l2 h2
  rcases n1 with ⟨e1, a1 | a1⟩ | ⟨e1, a1 | a1⟩ <;> rcases n2 with ⟨e2, a2 | a2⟩ | ⟨e2, a2 | a2⟩ <;>
    rw [a1, a2] at hn <;> simp at hn <;> omega

-- the former witness of the collision: the two labels now have different names
example : raise [⟨10, some (0, some 0)⟩, ⟨20, some (1, some 10)⟩]
      = .ok [.label .start, .rel 10, .instr, .label (.before 0), .rel 10, .instr] := by decide

end TruthModel.C13

/-! # second round: interrupt labels, difficulty tags, `goto L @ t` / `timeof(L)`, `else` branches,
nested functions, const-expression deltas (model: `Time.X`, appended to `Model/Time.lean`) -/
namespace TruthModel.C13.Ext
open TruthModel TruthModel.Time TruthModel.C13

/-- the state of the extended visitor after statements that produce the records `rs`, end at time
`t'` and contain a non-constant delta iff `bad`: only the top of the time stack moved, both
stacks have their old depth -/
def after (st : X.VState) (t' : Int32) (rs : List X.Rec) (bad : Bool) : X.VState :=
  { st with timeStack := t' :: st.timeStack.tail, failed := st.failed || bad, out := rs.reverse ++ st.out }

theorem after_id (st : X.VState) (t : Int32) (rest : List Int32) (hs : st.timeStack = t :: rest) :
    after st t [] false = st := by
  cases st; simp_all [after]

mutual
theorem visitStmt_after (s : X.Stmt) (st : X.VState) (t : Int32) (rest : List Int32) (m : X.Mask) (drest : List X.Mask)
    (hs : st.timeStack = t :: rest) (hd : st.diffStack = m :: drest) (hp : st.panicked = none) :
    X.visitStmt st s = after st (X.endStmt t s) (X.recsStmt t m rest.length s) (X.badStmt s) := by
  cases s with
  | abs v => cases st; simp_all [X.visitStmt, after, X.record, X.shallow, X.endStmt, X.recsStmt, X.badStmt]
  | rel d => cases st; simp_all [X.visitStmt, after, X.record, X.shallow, X.endStmt, X.recsStmt, X.badStmt]
  | relBad => cases st; simp_all [X.visitStmt, after, X.record, X.shallow, X.endStmt, X.recsStmt, X.badStmt]
  | instr => cases st; simp_all [X.visitStmt, after, X.record, X.endStmt, X.recsStmt, X.badStmt]
  | interrupt => cases st; simp_all [X.visitStmt, after, X.record, X.endStmt, X.recsStmt, X.badStmt]
  | label n => cases st; simp_all [X.visitStmt, after, X.record, X.endStmt, X.recsStmt, X.badStmt]
  | goto d tm => cases st; simp_all [X.visitStmt, after, X.record, X.endStmt, X.recsStmt, X.badStmt]
  | timeof l => cases st; simp_all [X.visitStmt, after, X.record, X.endStmt, X.recsStmt, X.badStmt]
  | tagged k s =>
    have h := visitStmt_after s (X.pushDiff st k) t rest k (m :: drest)
      (by simp [X.pushDiff, hs]) (by simp [X.pushDiff, hd]) (by simp [X.pushDiff, hp])
    rw [X.visitStmt, h]
    cases st; simp_all [after, X.pushDiff, X.popDiff, X.endStmt, X.recsStmt, X.badStmt]
  | blocks bs =>
    have h := visitBlocks_after bs (X.record st .block) t rest m drest
      (by simp [X.record, hs, hd]) (by simp [X.record, hs, hd]) (by simp [X.record, hs, hd, hp])
    rw [X.visitStmt, h]
    cases st; simp_all [after, X.record, X.endStmt, X.recsStmt, X.badStmt]
  | func body =>
    have h := visitBlock_after body (X.enterBlock (X.enterRoot (X.record st .item))) 0 (t :: rest) X.defaultMask (X.defaultMask :: m :: drest)
      (by simp [X.enterBlock, X.enterRoot, X.record, hs, hd])
      (by simp [X.enterBlock, X.enterRoot, X.record, hs, hd])
      (by simp [X.enterBlock, X.enterRoot, X.record, hs, hd, hp])
    rw [X.visitStmt, h]
    cases st; simp_all [after, X.enterBlock, X.enterRoot, X.exitRoot, X.popDiff, X.record, X.endStmt, X.recsStmt, X.badStmt]
theorem visitBlock_after (ss : List X.Stmt) (st : X.VState) (t : Int32) (rest : List Int32) (m : X.Mask) (drest : List X.Mask)
    (hs : st.timeStack = t :: rest) (hd : st.diffStack = m :: drest) (hp : st.panicked = none) :
    X.visitBlock st ss = after st (X.endBlock t ss) (X.recsBlock t m rest.length ss) (X.badBlock ss) := by
  cases ss with
  | nil => cases st; simp_all [X.visitBlock, after, X.endBlock, X.recsBlock, X.badBlock]
  | cons s ss =>
    have h1 := visitStmt_after s st t rest m drest hs hd hp
    have h2 := visitBlock_after ss (after st (X.endStmt t s) (X.recsStmt t m rest.length s) (X.badStmt s)) (X.endStmt t s) rest m drest
      (by simp [after, hs]) (by simp [after, hd]) (by simp [after, hp])
    rw [X.visitBlock, h1, h2]
    cases st; simp_all [after, X.endBlock, X.recsBlock, X.badBlock, Bool.or_assoc]
theorem visitBlocks_after (bs : List (List X.Stmt)) (st : X.VState) (t : Int32) (rest : List Int32) (m : X.Mask) (drest : List X.Mask)
    (hs : st.timeStack = t :: rest) (hd : st.diffStack = m :: drest) (hp : st.panicked = none) :
    X.visitBlocks st bs = after st (X.endBlocks t bs) (X.recsBlocks t m rest.length bs) (X.badBlocks bs) := by
  cases bs with
  | nil => cases st; simp_all [X.visitBlocks, after, X.endBlocks, X.recsBlocks, X.badBlocks]
  | cons b bs =>
    have h1 := visitBlock_after b (X.enterBlock st) t rest m (m :: drest)
      (by simp [X.enterBlock, hs, hd]) (by simp [X.enterBlock, hd]) (by simp [X.enterBlock, hd, hp])
    have h2 := visitBlocks_after bs (X.popDiff (after (X.enterBlock st) (X.endBlock t b) (X.recsBlock t m rest.length b) (X.badBlock b)))
      (X.endBlock t b) rest m drest
      (by simp [after, X.popDiff, X.enterBlock, hs, hd]) (by simp [after, X.popDiff, X.enterBlock, hd]) (by simp [after, X.popDiff, X.enterBlock, hd, hp])
    rw [X.visitBlocks, h1, h2]
    cases st; simp_all [after, X.popDiff, X.enterBlock, X.endBlocks, X.recsBlocks, X.badBlocks, Bool.or_assoc]
end

/-- **extended visitor = specification.**  For every statement list over the extended language
(interrupt labels, offset labels, jumps, `timeof`, difficulty-tagged statements, statements with
several blocks, nested function items; any nesting): the two-stack machine of
`TimeAndDifficultyHelper` records, for every statement in textual pre-order, the time threaded
through the text (`N:` sets, `+N:` adds mod 2^32, everything else - interrupt labels, difficulty
labels, block boundaries, `else` - inherits; a nested function starts at 0 and leaves the
enclosing time alone) and the lexically enclosing difficulty mask; it fails exactly on a
non-constant delta and none of its six `expect`/`unwrap` sites is reachable. -/
theorem xvisitor_eq_spec (body : List X.Stmt) :
    X.run body = if X.badBlock body then .err constErr
                 else .ok (X.recsBlock 0 X.defaultMask 0 body) := by
  have h := visitBlock_after body
    { timeStack := [0], diffStack := [X.defaultMask, X.defaultMask], failed := false, out := [], panicked := none }
    0 [] X.defaultMask [X.defaultMask] rfl rfl rfl
  unfold X.run
  rw [h]
  simp [after]

theorem xvisitor_no_panic (body : List X.Stmt) (site : String) : X.run body ≠ .panic site := by
  rw [xvisitor_eq_spec]; split <;> simp

example : X.run [.abs 10, .instr, .tagged 3 (.blocks [[.rel 5, .label 0, .interrupt], [.rel 2, .instr]]),
      .func [.rel 1, .instr], .goto 0 none]
    = .ok [⟨.timeLabel, 10, 255, 0⟩, ⟨.instr, 10, 255, 0⟩, ⟨.block, 10, 3, 0⟩, ⟨.timeLabel, 15, 3, 0⟩, ⟨.label 0, 15, 3, 0⟩,
           ⟨.interrupt, 15, 3, 0⟩, ⟨.timeLabel, 17, 3, 0⟩, ⟨.instr, 17, 3, 0⟩, ⟨.item, 17, 255, 0⟩,
           ⟨.timeLabel, 1, 255, 1⟩, ⟨.instr, 1, 255, 1⟩, ⟨.goto 0 none, 17, 255, 0⟩] := by decide

/-! ### where a label gets its time: every position -/

theorem endBlock_append (t : Int32) (a b : List X.Stmt) :
    X.endBlock t (a ++ b) = X.endBlock (X.endBlock t a) b := by
  induction a generalizing t with
  | nil => rfl
  | cons s ss ih => simp [X.endBlock, ih]

theorem recsBlock_append (t : Int32) (m : X.Mask) (dp : Nat) (a b : List X.Stmt) :
    X.recsBlock t m dp (a ++ b) = X.recsBlock t m dp a ++ X.recsBlock (X.endBlock t a) m dp b := by
  induction a generalizing t with
  | nil => rfl
  | cons s ss ih => simp [X.recsBlock, X.endBlock, ih]

/-- **the time of a label (the value of `timeof(L)` and of the time argument of `goto L`) is the
time reached by everything textually in front of it** in its statement list -/
theorem label_time_position (t : Int32) (m : X.Mask) (dp : Nat) (pre post : List X.Stmt) (n : Nat) :
    X.recsBlock t m dp (pre ++ .label n :: post) =
      X.recsBlock t m dp pre ++ ⟨.label n, X.endBlock t pre, m, dp⟩ :: X.recsBlock (X.endBlock t pre) m dp post := by
  rw [recsBlock_append]; simp [X.recsBlock, X.recsStmt, X.endStmt]

/-- a label in front of a time label has the old time, one behind it the new time -/
theorem label_before_after_time_label (t d : Int32) (m : X.Mask) (dp : Nat) (a b : Nat) :
    X.recsBlock t m dp [.label a, .rel d, .label b] =
      [⟨.label a, t, m, dp⟩, ⟨.timeLabel, t + d, m, dp⟩, ⟨.label b, t + d, m, dp⟩] := by
  simp [X.recsBlock, X.recsStmt, X.endStmt]

/-- a label at the start of a block has the time in front of the block statement; one at the end
of the (last) block has the time the statement after the block statement gets -/
theorem label_at_block_start (t : Int32) (m : X.Mask) (dp : Nat) (n : Nat) (b : List X.Stmt) (bs : List (List X.Stmt)) :
    X.recsStmt t m dp (.blocks ((.label n :: b) :: bs)) =
      ⟨.block, t, m, dp⟩ :: ⟨.label n, t, m, dp⟩ :: X.recsBlocks t m dp (b :: bs) := by
  simp [X.recsStmt, X.recsBlocks, X.recsBlock, X.endStmt, X.endBlock]

theorem label_at_block_end (t : Int32) (m : X.Mask) (dp : Nat) (n : Nat) (b : List X.Stmt) :
    X.recsStmt t m dp (.blocks [b ++ [.label n]]) =
      ⟨.block, t, m, dp⟩ :: (X.recsBlock t m dp b ++ [⟨.label n, X.endStmt t (.blocks [b ++ [.label n]]), m, dp⟩]) := by
  simp [X.recsStmt, X.recsBlocks, recsBlock_append, endBlock_append, X.recsBlock, X.endStmt, X.endBlocks, X.endBlock]

/-- **`else` starts where the branch before it ends** (textual order, not control flow): the
blocks of one statement are chained -/
theorem else_starts_where_if_ends (t : Int32) (m : X.Mask) (dp : Nat) (b1 b2 : List X.Stmt) :
    X.recsStmt t m dp (.blocks [b1, b2]) =
      ⟨.block, t, m, dp⟩ :: (X.recsBlock t m dp b1 ++ X.recsBlock (X.endBlock t b1) m dp b2) ∧
    X.endStmt t (.blocks [b1, b2]) = X.endBlock (X.endBlock t b1) b2 := by
  simp [X.recsStmt, X.recsBlocks, X.endStmt, X.endBlocks]

/-- **a difficulty label does not change time**: the statement ends at the same time with and
without it, and records the same times (only the mask differs) -/
theorem tag_keeps_time (t : Int32) (k : X.Mask) (s : X.Stmt) :
    X.endStmt t (.tagged k s) = X.endStmt t s := by simp [X.endStmt]

mutual
theorem recsStmt_times_mask_indep (t : Int32) (m m' : X.Mask) (dp : Nat) (s : X.Stmt) :
    (X.recsStmt t m dp s).map (fun r => (r.kind, r.time)) = (X.recsStmt t m' dp s).map (fun r => (r.kind, r.time)) := by
  cases s with
  | tagged k s => simp [X.recsStmt]
  | blocks bs => simp [X.recsStmt, recsBlocks_times_mask_indep t m m' dp bs]
  | func body => simp [X.recsStmt]
  | _ => simp [X.recsStmt]
theorem recsBlock_times_mask_indep (t : Int32) (m m' : X.Mask) (dp : Nat) (ss : List X.Stmt) :
    (X.recsBlock t m dp ss).map (fun r => (r.kind, r.time)) = (X.recsBlock t m' dp ss).map (fun r => (r.kind, r.time)) := by
  cases ss with
  | nil => rfl
  | cons s ss => simp [X.recsBlock, recsStmt_times_mask_indep t m m' dp s, recsBlock_times_mask_indep (X.endStmt t s) m m' dp ss]
theorem recsBlocks_times_mask_indep (t : Int32) (m m' : X.Mask) (dp : Nat) (bs : List (List X.Stmt)) :
    (X.recsBlocks t m dp bs).map (fun r => (r.kind, r.time)) = (X.recsBlocks t m' dp bs).map (fun r => (r.kind, r.time)) := by
  cases bs with
  | nil => rfl
  | cons b bs => simp [X.recsBlocks, recsBlock_times_mask_indep t m m' dp b, recsBlocks_times_mask_indep (X.endBlock t b) m m' dp bs]
end

theorem tag_keeps_times (t : Int32) (m k : X.Mask) (dp : Nat) (s : X.Stmt) :
    (X.recsStmt t m dp (.tagged k s)).map (fun r => (r.kind, r.time)) = (X.recsStmt t m dp s).map (fun r => (r.kind, r.time)) := by
  simp only [X.recsStmt]; exact recsStmt_times_mask_indep t k m dp s

/-- **a nested function starts at 0 and leaves the enclosing time alone** -/
theorem func_isolated (t : Int32) (m : X.Mask) (dp : Nat) (body : List X.Stmt) :
    X.endStmt t (.func body) = t ∧
    X.recsStmt t m dp (.func body) = ⟨.item, t, m, dp⟩ :: X.recsBlock 0 X.defaultMask (dp + 1) body := by
  simp [X.endStmt, X.recsStmt]

/-- an interrupt label inherits the time like an instruction and passes it on unchanged -/
theorem interrupt_inherits (t : Int32) (m : X.Mask) (dp : Nat) :
    X.recsStmt t m dp .interrupt = [⟨.interrupt, t, m, dp⟩] ∧ X.endStmt t .interrupt = t := by
  simp [X.recsStmt, X.endStmt]

/-! ### lowering -/

/-- **what the instructions get**: the compile model is the lowering of the specification's
records: times and masks as specified, `goto L @ t` stores `t`, `goto L` and `timeof(L)` the time
recorded for the label statement `L:` -/
theorem xcompile_spec (body : List X.Stmt) :
    X.compile body =
      if X.badBlock body then .err constErr
      else
        let ls := X.lowered (X.recsBlock 0 X.defaultMask 0 body)
        if X.hasDupLabel (X.labelTable ls) then .err X.dupLabelMsg else X.lowerAll (X.labelTable ls) ls := by
  unfold X.compile
  rw [xvisitor_eq_spec]
  by_cases hb : X.badBlock body = true <;> simp [hb]

theorem goto_explicit_time (tbl : List (Nat × Int32)) (d : Nat) (v t : Int32) (m : X.Mask) (dp : Nat) :
    X.lowerRec tbl ⟨.goto d (some v), t, m, dp⟩ = .ok (some (.jump t m v)) := rfl

theorem goto_implicit_time (tbl : List (Nat × Int32)) (d : Nat) (t lt : Int32) (m : X.Mask) (dp : Nat)
    (h : X.lookupLabel tbl d = some lt) :
    X.lowerRec tbl ⟨.goto d none, t, m, dp⟩ = .ok (some (.jump t m lt)) ∧
    X.lowerRec tbl ⟨.timeof d, t, m, dp⟩ = .ok (some (.timeof t m lt)) := by
  simp [X.lowerRec, h]

example : X.compile [.instr, .rel 10, .label 0, .interrupt, .rel 6, .label 1, .tagged 0xF3 .instr, .goto 0 (some 5), .goto 1 none, .timeof 0,
      .blocks [[.rel 5, .label 2, .instr], [.rel 7, .instr, .rel 1]], .func [.rel 3, .instr], .goto 2 none]
    = .ok [.plain 0 255, .interrupt 10 255, .plain 16 0xF3, .jump 16 255 5, .jump 16 255 16, .timeof 16 255 10,
           .plain 21 255, .plain 28 255, .jump 29 255 21] := by decide

/-! ### const-expression deltas (C11) -/

/-- **the value of `+EXPR:` is the const evaluator's value**: whenever the const evaluator of C11
gives the integer `v` for EXPR under the const table, the label adds exactly `v` -/
theorem delta_is_const_value (F : FloatOps) (cs : Consts) (e : Expr) (v : Int32)
    (h : constEval F cs e = .ok (.int v)) : X.deltaStmt F cs e = .rel v := by
  have := C11.constEval_simplify F cs e (.int v) h
  simp [X.deltaStmt, this, Value.toExpr]

/-- a delta that mentions a register is the diagnostic, not a guess -/
theorem delta_reg_is_error (F : FloatOps) (cs : Consts) (r : Nat) (sig : Option Sigil) :
    X.deltaStmt F cs (.reg r sig) = .relBad := by
  simp [X.deltaStmt, simplify, simplifyNode]

example (F : FloatOps) : X.deltaStmt F C11.exCs (.binop .mul (.litI 2) (.var 0 none)) = .rel 10 := by
  apply delta_is_const_value; rfl

/-! ### decompile direction with interrupt labels, masks and `goto L @ t` -/

theorem erase_liftOuts (os : List Time.Out) (h : Time.Out.instr ∉ os) : (X.liftOuts os).map X.Out.erase = os := by
  induction os with
  | nil => rfl
  | cons o os ih =>
    have h' : Time.Out.instr ∉ os := fun hr => h (List.mem_cons_of_mem _ hr)
    cases o with
    | instr => simp at h
    | label n => simp [X.liftOuts, X.Out.erase] at *; exact ih h'
    | abs v => simp [X.liftOuts, X.Out.erase] at *; exact ih h'
    | rel d => simp [X.liftOuts, X.Out.erase] at *; exact ih h'

theorem stmtOf_erase (all : List Time.RInstr) (i : X.RInstr) (o : X.Out) (h : X.stmtOf all i = .ok o) : o.erase = .instr := by
  unfold X.stmtOf at h
  split at h
  · injection h with h; subst h; rfl
  · injection h with h; subst h; rfl
  · split at h
    · simp at h
    · split at h <;> (injection h with h; subst h; rfl)

/-- the extended raiser refines the first one: forgetting masks, interrupt / jump kinds gives
exactly the first model's output -/
theorem xraiseFrom_erase (all : List Time.RInstr) (rest : List X.RInstr) (prev : Int32) (k : Nat) (os : List X.Out)
    (h : X.raiseFrom all prev k rest = .ok os) :
    Time.raiseFrom all prev k (rest.map X.RInstr.erase) = .ok (os.map X.Out.erase) := by
  induction rest generalizing prev k os with
  | nil =>
    simp only [X.raiseFrom] at h
    simp only [List.map, Time.raiseFrom]
    split at h
    · rename_i os1 h1
      injection h with h; subst h
      rw [h1, erase_liftOuts _ (emitLabels_spec _ _ _ _ h1).2.1]
    · simp at h
    · simp at h
  | cons i rest ih =>
    simp only [X.raiseFrom] at h
    simp only [List.map, Time.raiseFrom]
    have ht : (X.RInstr.erase i).time = i.time := rfl
    rw [ht]
    split at h
    · rename_i os1 h1
      split at h
      · rename_i o ho
        split at h
        · rename_i os2 h2
          injection h with h; subst h
          rw [h1, ih _ _ _ h2]
          simp [erase_liftOuts _ (emitLabels_spec _ _ _ _ h1).2.1, stmtOf_erase _ _ _ ho]
        · rename_i e hne
          cases e <;> simp_all
      · simp at h
      · simp at h
    · simp at h
    · simp at h

theorem xraise_erase (is : List X.RInstr) (os : List X.Out) (h : X.raise is = .ok os) :
    Time.raise (is.map X.RInstr.erase) = .ok (os.map X.Out.erase) := by
  unfold X.raise at h
  unfold Time.raise
  dsimp only at h
  split at h
  · simp at h
  · rename_i hb
    simp only [List.length_map] at hb ⊢
    simp only [hb]
    exact xraiseFrom_erase _ _ _ _ _ h

/-- **emitted labels reproduce the stored times, also with interrupt labels, difficulty-tagged
statements and `goto L @ t` in the stream**: the label rules give every emitted instruction
statement (plain, `interrupt[n]:`, `goto`, tagged or not) its stored time back -/
theorem xraise_times (is : List X.RInstr) (os : List X.Out) (h : X.raise is = .ok os) :
    times (os.map X.Out.erase) = is.map (·.time) := by
  have := raise_times _ _ (xraise_erase is os h)
  simpa [X.RInstr.erase, Function.comp_def] using this

/-- ... and every offset label sits at the time `generate_label_at_offset` chose for it -/
theorem xrlabel_time (is : List X.RInstr) (os : List X.Out) (h : X.raise is = .ok os) :
    labelTimesFrom 0 (os.map X.Out.erase) =
      (List.range (is.length + 1)).filterMap (fun j => (labelFor (is.map X.RInstr.erase) j).map (fun l => (l.name, l.time))) := by
  have := rlabel_time _ _ (xraise_erase is os h)
  simpa using this

/-- **`goto L` vs `goto L @ t`**: whichever form is printed, reading it back (`goto L` = time of
the label, which by `xrlabel_time` is `l.time`) gives the stored time argument -/
theorem goto_reproduces_arg (all : List Time.RInstr) (i : X.RInstr) (d : Nat) (a : Int32) (l : Label)
    (hk : i.kind = .jump d (some a)) (hl : labelFor all d = some l) :
    ∃ tm, X.stmtOf all i = .ok (.goto i.mask l.name tm) ∧ tm.getD l.time = a ∧ (tm = none ↔ a = l.time) := by
  refine ⟨if a = l.time then none else some a, ?_, ?_, ?_⟩
  · simp [X.stmtOf, hk, hl]
  · split <;> simp_all
  · split <;> simp_all

/-- every jump destination has a label: the `offset_labels[&label_offset]` index in
`raise_intrinsic_parts` cannot fail -/
theorem jump_has_label (all : List Time.RInstr) (i : Time.RInstr) (d : Nat) (tm : Option Int32)
    (hi : i ∈ all) (hj : i.jump = some (d, tm)) : (labelFor all d).isSome := by
  have hne : jumpArgs all d ≠ [] := by
    intro hc
    have : tm.getD (timeAt all d) ∈ jumpArgs all d := by
      unfold jumpArgs
      rw [List.mem_filterMap]
      exact ⟨i, hi, by simp [hj]⟩
    rw [hc] at this; simp at this
  unfold labelFor
  split
  · rename_i h; exact absurd h hne
  · simp

/-- an interrupt label is emitted as its own statement behind the labels of its time -/
example : X.raise [⟨0, 255, .plain⟩, ⟨10, 255, .jump 1 (some 0)⟩, ⟨20, 255, .interrupt⟩, ⟨20, 3, .jump 3 (some 20)⟩, ⟨30, 255, .jump 0 none⟩]
    = .ok [.label (.dest 0), .instr 255, .label (.before 0), .rel 10, .goto 255 (.before 0) none, .rel 10, .interrupt 255,
           .label (.dest 3), .goto 3 (.dest 3) none, .rel 10, .jumpO 255 (.dest 0)] := by decide

example : X.raise [⟨-1, 255, .interrupt⟩, ⟨5, 255, .jump 0 (some 7)⟩]
    = .ok [.abs (-1), .label (.dest 0), .interrupt 255, .abs 0, .rel 5, .goto 255 (.dest 0) (some 7)] := by decide

/-- the full round trip through the extended compile model (times, masks and jump arguments of a
recompiled decompilation): stated, not proved here; compared on every run (`xraise` + `xcompile`
streams) and searched (`xrt`) -/
def raise_compile_roundtrip_full : Prop :=
  ∀ (is : List X.RInstr) (os : List X.Out), X.raise is = .ok os →
    X.compile (os.map X.Out.toStmt) = .ok (is.map X.RInstr.expected)

end TruthModel.C13.Ext
