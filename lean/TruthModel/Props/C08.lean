import TruthModel.Model.Fmt
import TruthModel.Model.FmtExpr
/-
C08 — printed scripts parse back to the same script: the literal layer.

Proved here, for ALL inputs of the model (`Model/Fmt.lean`):
* `int_print_parse`: for every `IntFormat` and every `v : Int32`, lexing the printed literal and
  evaluating it with the grammar's literal rules (`parse_u32_literal`, `as i32`, sign folding by
  wrapping negation, the built-in constants `true`/`false`) gives back `v` — including
  `i32::MIN` in every radix and the `0xffffffff` style of the unsigned formats.
* `string_escape_roundtrip` / `string_print_lex_parse`: for every `List Char` (NUL, quotes,
  backslashes, CR/LF, any scalar value), the printed literal is one string token and
  `parse_string_literal` returns the original characters.
* `printInt_head_minus_iff`: the printed literal starts with `-` exactly for negative values in
  signed formats (so a non-negative literal never starts with `-`).
* the token-glue defect of the formatter (fmt.rs 900-902 writes a prefix operator directly in
  front of its operand): `unary_glue_minus` (every negative literal in a signed format under a
  unary minus lexes as the token `--` and is not read as a literal), `unary_glue_not` (`!` in
  front of any of `-*ENHLWXYZO4567` lexes as a DifficultyStr token), with concrete witnesses.

* `layout_tokens`: for every document of nested comma-separated lists and every width, the
  tokens and separating commas of the rendered text are those of the document: the
  inline-vs-block decision (`try_inline`, `backtrack_inline_if_long`) only changes whitespace and
  the trailing comma.

* the EXPRESSION layer (`Model/FmtExpr.lean`): `expr_print_parse` — for every expression `e` with
  `NoGlue e`, the recursive-descent model of the grammar's `Expr` rules accepts the tokens that the
  model of `impl Format for ast::Expr` writes and returns `norm e` (same operators with the same
  grouping, calls, arguments, switch cases and holes, variables, literals; `norm` = the documented
  loss: radix hints, `true`/`false`/`INF`/`NAN` as names, a sign in front of a number as the
  operator); `expr_print_parse_sup` where `SuppressParens` is in effect; `expr_print_parse_text`
  on text under `LexOK`; `expr_print_idempotent` / `expr_print_parse_print` (printing what was
  parsed gives the same tokens, on sign-free hint-free literals); `expr_layout_tokens`,
  `expr_layout_width_independent`, `expr_layout_printExpr` (argument lists laid out inline or in
  block style at any width carry exactly the tokens of `printExpr`); `glue_sites_fail` and
  `negative_literal_gains_parens` (the property is false exactly at the excluded shapes).

Not proved (searched on the implementation by the harness): the statement / item / meta grammar,
float literals (`showF32`/`readF32` are Rust's `Display`/`FromStr`), and that the joined text of an
expression lexes to the written tokens (`LexOK`, compared with the real lexer on every generated
expression).  The full property is kept as `printed_scripts_parse_back_full`.
-/
namespace TruthModel.C08
open TruthModel TruthModel.Fmt

/-! ## digits in base 2 / 10 / 16 (no bound on the number) -/

theorem digitVal_digitChar : ∀ d, d < 16 → digitVal (digitChar d) = some d := by decide

theorem natDigitsAux_fuel {b : Nat} (hb : 2 ≤ b) (n : Nat) :
    ∀ fuel, n ≤ fuel → natDigitsAux b fuel n = natDigitsAux b n n := by
  induction n using Nat.strongRecOn with
  | _ n ih =>
    intro fuel hf
    by_cases hlt : n < b
    · cases fuel with
      | zero =>
        have : n = 0 := by omega
        subst this; rfl
      | succ f =>
        cases n with
        | zero => simp [natDigitsAux, hlt]
        | succ m => simp [natDigitsAux, hlt]
    · obtain ⟨f, rfl⟩ : ∃ f, fuel = f + 1 := ⟨fuel - 1, by omega⟩
      obtain ⟨m, rfl⟩ : ∃ m, n = m + 1 := ⟨n - 1, by omega⟩
      have hdiv : (m + 1) / b < m + 1 := Nat.div_lt_self (by omega) (by omega)
      simp only [natDigitsAux, hlt, if_false]
      rw [ih _ hdiv f (by omega), ih _ hdiv m (by omega)]

theorem natDigits_lt {b n : Nat} (h : n < b) : natDigits b n = [digitChar n] := by
  unfold natDigits
  cases n with
  | zero => rfl
  | succ m => simp [natDigitsAux, h]

theorem natDigits_ge {b n : Nat} (hb : 2 ≤ b) (h : b ≤ n) :
    natDigits b n = natDigits b (n / b) ++ [digitChar (n % b)] := by
  unfold natDigits
  obtain ⟨m, rfl⟩ : ∃ m, n = m + 1 := ⟨n - 1, by omega⟩
  have hdiv : (m + 1) / b < m + 1 := Nat.div_lt_self (by omega) (by omega)
  have hlt : ¬ (m + 1 < b) := by omega
  simp only [natDigitsAux, hlt, if_false]
  rw [natDigitsAux_fuel hb _ m (by omega)]

/-- induction over the digit string of a number -/
theorem natDigits_induction {b : Nat} (hb : 2 ≤ b) (P : Nat → List Char → Prop)
    (base : ∀ n, n < b → P n [digitChar n])
    (step : ∀ n, b ≤ n → P (n / b) (natDigits b (n / b)) →
      P n (natDigits b (n / b) ++ [digitChar (n % b)])) :
    ∀ n, P n (natDigits b n) := by
  intro n
  induction n using Nat.strongRecOn with
  | _ n ih =>
    by_cases hlt : n < b
    · rw [natDigits_lt hlt]; exact base n hlt
    · have hge : b ≤ n := by omega
      rw [natDigits_ge hb hge]
      exact step n hge (ih _ (Nat.div_lt_self (by omega) (by omega)))

/-- reading the digits of `n` (base `b`, most significant first) continues from the value `n` -/
theorem parseDigits_natDigits {b : Nat} (hb : 2 ≤ b) (hb16 : b ≤ 16) (n : Nat) :
    ∀ ys, parseDigitsFrom b 0 (natDigits b n ++ ys) = parseDigitsFrom b n ys := by
  refine natDigits_induction hb (fun n ds => ∀ ys, parseDigitsFrom b 0 (ds ++ ys) = parseDigitsFrom b n ys) ?_ ?_ n
  · intro n hn ys
    simp [parseDigitsFrom, digitVal_digitChar n (by omega), hn]
  · intro n hn ih ys
    have hm : n % b < b := Nat.mod_lt _ (by omega)
    rw [List.append_assoc, ih]
    simp only [List.cons_append, List.nil_append, parseDigitsFrom, digitVal_digitChar (n % b) (by omega), hm, if_true]
    rw [Nat.mul_comm, Nat.div_add_mod]

/-- every character of a digit string is the digit character of a value below the base -/
theorem natDigits_mem {b : Nat} (hb : 2 ≤ b) (n : Nat) :
    ∀ c ∈ natDigits b n, ∃ d, d < b ∧ c = digitChar d := by
  refine natDigits_induction hb (fun _ ds => ∀ c ∈ ds, ∃ d, d < b ∧ c = digitChar d) ?_ ?_ n
  · intro n hn c hc
    simp at hc
    exact ⟨n, hn, hc⟩
  · intro n _ ih c hc
    rcases List.mem_append.mp hc with h | h
    · exact ih c h
    · simp at h
      exact ⟨n % b, Nat.mod_lt _ (by omega), h⟩

theorem natDigits_ne_nil {b : Nat} (hb : 2 ≤ b) (n : Nat) : natDigits b n ≠ [] := by
  refine natDigits_induction hb (fun _ ds => ds ≠ []) ?_ ?_ n
  · intro n _; simp
  · intro n _ _; simp

theorem isDigit_digitChar : ∀ d, d < 10 → isDigit (digitChar d) = true := by decide
theorem isHex_digitChar : ∀ d, d < 16 → isHex (digitChar d) = true := by decide
theorem isBin_digitChar : ∀ d, d < 2 → isBin (digitChar d) = true := by decide

theorem natDigits10_isDigit (n : Nat) : ∀ c ∈ natDigits 10 n, isDigit c = true := by
  intro c hc
  obtain ⟨d, hd, rfl⟩ := natDigits_mem (by omega) n c hc
  exact isDigit_digitChar d hd

theorem natDigits16_isHex (n : Nat) : ∀ c ∈ natDigits 16 n, isHex c = true := by
  intro c hc
  obtain ⟨d, hd, rfl⟩ := natDigits_mem (by omega) n c hc
  exact isHex_digitChar d hd

theorem natDigits2_isBin (n : Nat) : ∀ c ∈ natDigits 2 n, isBin c = true := by
  intro c hc
  obtain ⟨d, hd, rfl⟩ := natDigits_mem (by omega) n c hc
  exact isBin_digitChar d hd

/-! ## `u32::from_str_radix` on printed digits -/

theorem isDigit_isHex {c : Char} (h : isDigit c = true) : isHex c = true := by simp [isHex, h]
theorem isBin_isHex {c : Char} (h : isBin c = true) : isHex c = true := by
  simp only [isBin, Bool.or_eq_true, beq_iff_eq] at h
  rcases h with rfl | rfl <;> decide

theorem fromStrRadix_natDigits {b : Nat} (hb : 2 ≤ b) (hb16 : b ≤ 16) (n : Nat) (hn : n < 4294967296) :
    fromStrRadixU32 b (natDigits b n) = some (UInt32.ofNat n) := by
  have hne := natDigits_ne_nil hb n
  have hhex : ∀ c ∈ natDigits b n, isHex c = true := by
    intro c hc
    obtain ⟨d, hd, rfl⟩ := natDigits_mem hb n c hc
    exact isHex_digitChar d (by omega)
  have hparse := parseDigits_natDigits hb hb16 n []
  simp only [List.append_nil, parseDigitsFrom] at hparse
  cases hds : natDigits b n with
  | nil => exact absurd hds hne
  | cons c t =>
    have hc : isHex c = true := hhex c (by rw [hds]; simp)
    have hplus : c ≠ '+' := by
      intro h; subst h; revert hc; decide
    have hminus : c ≠ '-' := by
      intro h; subst h; revert hc; decide
    rw [hds] at hparse
    unfold fromStrRadixU32
    have h1 : (c :: t = []) = False := by simp
    have h2 : (c :: t = ['+'] ∨ c :: t = ['-']) = False := by simp [hplus, hminus]
    simp only [h1, h2, if_false]
    have h3 : stripPlus (c :: t) = c :: t := by
      unfold stripPlus
      split
      · rename_i r heq
        simp at heq
        exact absurd heq.1 hplus
      · rfl
    rw [h3, hparse]
    simp [hn]

/-! ## token level: a printed integer literal is one INT token -/

theorem spanLen_all (p : Char → Bool) (s : List Char) (h : ∀ c ∈ s, p c = true) : spanLen p s = s.length := by
  induction s with
  | nil => rfl
  | cons c cs ih =>
    have hc : p c = true := h c (by simp)
    have := ih (fun x hx => h x (by simp [hx]))
    simp [spanLen, hc, this]

/-- `s` is lexed as exactly one INT token when it is at the head of the input and ends it -/
structure IntTokStr (s : List Char) : Prop where
  ne : s ≠ []
  nows : ∀ h t, s = h :: t → isWs h = false
  one : lexOne s = .tok (.int s) s.length

theorem lexAll_intTok {s : List Char} (h : IntTokStr s) (f : Nat) : lexAll (f + 2) s = ([.int s], .eof) := by
  cases hs : s with
  | nil => exact absurd hs h.ne
  | cons c cs =>
    have hws : isWs c = false := h.nows c cs hs
    have hone := h.one
    rw [hs] at hone
    have hd : dropWs (c :: cs) = c :: cs := by simp [dropWs, hws]
    rw [show f + 2 = (f + 1) + 1 from rfl, lexAll, hd]
    simp only [hone, List.drop_length]
    rw [lexAll]
    simp [dropWs]

theorem lex_intTok {s : List Char} (h : IntTokStr s) : lex s = ([.int s], .eof) := by
  unfold lex
  cases hs : s with
  | nil => exact absurd hs h.ne
  | cons c cs =>
    have := lexAll_intTok h cs.length
    rw [hs] at this
    simpa using this

/-- facts about a character known to be a decimal digit, by enumeration -/
theorem isDigit_cases {c : Char} (h : isDigit c = true) (P : Char → Prop)
    (all : ∀ x ∈ ['0', '1', '2', '3', '4', '5', '6', '7', '8', '9'], P x) : P c := by
  apply all
  simpa [isDigit] using h

theorem lexOne_of_lens {s : List Char} (hne : s ≠ [])
    (hc : ∀ t, s ≠ '/' :: t) (hp : punctLen s = 0) (hi : intLen s = s.length) (hf : floatLen s = 0)
    (hw : wordLen s = 0) (hd : diffLen s = 0) (hq : strLen s = 0) :
    lexOne s = .tok (.int s) s.length := by
  have hlen : s.length ≠ 0 := by
    cases s with
    | nil => exact absurd rfl hne
    | cons _ _ => simp
  unfold lexOne
  split
  · rename_i t; exact absurd rfl (hc _)
  · rename_i t; exact absurd rfl (hc _)
  · simp only [hp, hi, hf, hw, hd, hq, Nat.max_zero, Nat.zero_max]
    simp [hlen, Ne.symm hlen, List.take_length]

theorem intTok_dec {ds : List Char} (hne : ds ≠ []) (hall : ∀ c ∈ ds, isDigit c = true) : IntTokStr ds := by
  cases hds : ds with
  | nil => exact absurd hds hne
  | cons c cs =>
    have hc : isDigit c = true := hall c (by rw [hds]; simp)
    have hall' : ∀ x ∈ c :: cs, isDigit x = true := by rw [← hds]; exact hall
    refine ⟨by simp, ?_, ?_⟩
    · intro h t heq
      simp at heq
      rw [← heq.1]
      exact isDigit_cases hc (fun x => isWs x = false) (by decide)
    · have hspan : spanLen isDigit (c :: cs) = (c :: cs).length := spanLen_all _ _ hall'
      apply lexOne_of_lens (by simp)
      · intro t heq
        simp at heq
        have : isDigit '/' = true := by rw [heq.1] at hc; exact hc
        revert this; decide
      · have : isPunctStart c = false := isDigit_cases hc (fun x => isPunctStart x = false) (by decide)
        simp [punctLen, this]
      · -- the `0x` / `0b` alternative needs a non-digit second character
        unfold intLen
        rw [hspan]
        split
        · rename_i c' r heq
          simp at heq
          have hc' : isDigit c' = true := hall' c' (by rw [heq.2]; simp)
          have hx : ¬ (c' = 'x' ∨ c' = 'X') := isDigit_cases hc' (fun x => ¬ (x = 'x' ∨ x = 'X')) (by decide)
          have hb : ¬ (c' = 'b' ∨ c' = 'B') := isDigit_cases hc' (fun x => ¬ (x = 'b' ∨ x = 'B')) (by decide)
          simp [hx, hb]
        · simp
      · unfold floatLen
        simp only [hspan, List.drop_length]
        simp
      · have : isIdentStart c = false := isDigit_cases hc (fun x => isIdentStart x = false) (by decide)
        simp [wordLen, this]
      · have : c ≠ '!' := isDigit_cases hc (fun x => x ≠ '!') (by decide)
        unfold diffLen
        split
        · rename_i r heq; simp at heq; exact absurd heq.1 this
        · rfl
      · have : c ≠ '"' := isDigit_cases hc (fun x => x ≠ '"') (by decide)
        unfold strLen
        split
        · rename_i r heq; simp at heq; exact absurd heq.1 this
        · rfl

/-- `0x` + hex digits, `0b` + binary digits -/
theorem intTok_radix {x : Char} {hs : List Char} (p : Char → Bool)
    (hx : (x = 'x' ∧ p = isHex) ∨ (x = 'b' ∧ p = isBin))
    (hne : hs ≠ []) (hall : ∀ c ∈ hs, p c = true) : IntTokStr ('0' :: x :: hs) := by
  have hspan : spanLen p hs = hs.length := spanLen_all _ _ hall
  have hlen : hs.length ≠ 0 := by
    cases hs with
    | nil => exact absurd rfl hne
    | cons _ _ => simp
  refine ⟨by simp, ?_, ?_⟩
  · intro h t heq
    simp at heq
    rw [← heq.1]; decide
  · apply lexOne_of_lens (by simp)
    · intro t heq; simp at heq
    · have : isPunctStart '0' = false := by decide
      simp [punctLen, this]
    · rcases hx with ⟨rfl, rfl⟩ | ⟨rfl, rfl⟩
      · have h0 : isDigit 'x' = false := by decide
        have hz : isDigit '0' = true := by decide
        simp [intLen, spanLen, h0, hz, hspan, hlen]
      · have h0 : isDigit 'b' = false := by decide
        have hz : isDigit '0' = true := by decide
        simp [intLen, spanLen, h0, hz, hspan, hlen]
    · rcases hx with ⟨rfl, _⟩ | ⟨rfl, _⟩
      · have h0 : isDigit 'x' = false := by decide
        have hz : isDigit '0' = true := by decide
        simp [floatLen, spanLen, h0, hz]
      · have h0 : isDigit 'b' = false := by decide
        have hz : isDigit '0' = true := by decide
        simp [floatLen, spanLen, h0, hz]
    · have : isIdentStart '0' = false := by decide
      simp [wordLen, this]
    · simp [diffLen]
    · simp [strLen]

/-- a `-` in front of something that does not start with `=` or `-` is the token `-` -/
theorem lexOne_minus {d : Char} {t : List Char} (h1 : d ≠ '=') (h2 : d ≠ '-') :
    lexOne ('-' :: d :: t) = .tok (.punct ['-']) 1 := by
  simp [lexOne, punctLen, isPunctStart, punctTable, intLen, floatLen, wordLen, diffLen,
    strLen, spanLen, isDigit, isIdentStart, Ne.symm h1, Ne.symm h2]

theorem lexAll_minus {d : Char} {t : List Char} (h1 : d ≠ '=') (h2 : d ≠ '-') (f : Nat) :
    lexAll (f + 1) ('-' :: d :: t) = (.punct ['-'] :: (lexAll f (d :: t)).1, (lexAll f (d :: t)).2) := by
  have hws : isWs '-' = false := by decide
  have hd : dropWs ('-' :: d :: t) = '-' :: d :: t := by simp [dropWs, hws]
  rw [lexAll, hd]
  simp only [lexOne_minus h1 h2, List.drop_succ_cons, List.drop_zero]

theorem lex_minus_intTok {s : List Char} (h : IntTokStr s) (h1 : ∀ d t, s = d :: t → d ≠ '=' ∧ d ≠ '-') :
    lex ('-' :: s) = ([.punct ['-'], .int s], .eof) := by
  cases hs : s with
  | nil => exact absurd hs h.ne
  | cons d t =>
    obtain ⟨a, b⟩ := h1 d t hs
    unfold lex
    have hl : ('-' :: d :: t).length + 1 = (t.length + 2) + 1 := by simp
    rw [hl, lexAll_minus a b]
    have := lexAll_intTok h t.length
    rw [hs] at this
    rw [this]

/-! ## the literal rules on printed digits -/

theorem litIntUnsigned_dec (n : Nat) (hn : n < 4294967296) :
    litIntUnsigned (natDigits 10 n) = some (UInt32.ofNat n).toInt32 := by
  have hall := natDigits10_isDigit n
  have hfs := fromStrRadix_natDigits (b := 10) (by omega) (by omega) n hn
  unfold litIntUnsigned parseU32Literal
  split
  · rename_i r heq; exact absurd (hall 'x' (by rw [heq]; simp)) (by decide)
  · rename_i r heq; exact absurd (hall 'X' (by rw [heq]; simp)) (by decide)
  · rename_i r heq; exact absurd (hall 'b' (by rw [heq]; simp)) (by decide)
  · rename_i r heq; exact absurd (hall 'B' (by rw [heq]; simp)) (by decide)
  · simp [hfs]

theorem litIntUnsigned_hex (n : Nat) (hn : n < 4294967296) :
    litIntUnsigned ('0' :: 'x' :: natDigits 16 n) = some (UInt32.ofNat n).toInt32 := by
  simp [litIntUnsigned, parseU32Literal, fromStrRadix_natDigits (b := 16) (by omega) (by omega) n hn]

theorem litIntUnsigned_bin (n : Nat) (hn : n < 4294967296) :
    litIntUnsigned ('0' :: 'b' :: natDigits 2 n) = some (UInt32.ofNat n).toInt32 := by
  simp [litIntUnsigned, parseU32Literal, fromStrRadix_natDigits (b := 2) (by omega) (by omega) n hn]

theorem uval_lt (v : Int32) : uval v < 4294967296 := by
  have := UInt32.toNat_lt v.toUInt32
  simpa [uval] using this

theorem ofNat_uval (v : Int32) : (UInt32.ofNat (uval v)).toInt32 = v := by
  simp [uval, UInt32.ofNat_toNat, Int32.toInt32_toUInt32]

/-! ### evaluation of the four printed shapes -/

theorem intTok_natDigits10 (n : Nat) : IntTokStr (natDigits 10 n) :=
  intTok_dec (natDigits_ne_nil (by omega) n) (natDigits10_isDigit n)

theorem intTok_hexLit (n : Nat) : IntTokStr ('0' :: 'x' :: natDigits 16 n) :=
  intTok_radix isHex (Or.inl ⟨rfl, rfl⟩) (natDigits_ne_nil (by omega) n) (natDigits16_isHex n)

theorem intTok_binLit (n : Nat) : IntTokStr ('0' :: 'b' :: natDigits 2 n) :=
  intTok_radix isBin (Or.inr ⟨rfl, rfl⟩) (natDigits_ne_nil (by omega) n) (natDigits2_isBin n)

theorem eval_pos {s : List Char} {v : Int32} (h : IntTokStr s) (hv : litIntUnsigned s = some v) :
    evalLiteral s = .int v := by
  simp [evalLiteral, lex_intTok h, evalLitTokens, hv]

theorem eval_neg {s : List Char} {v : Int32} (h : IntTokStr s)
    (h1 : ∀ d t, s = d :: t → d ≠ '=' ∧ d ≠ '-') (hv : litIntUnsigned s = some v) :
    evalLiteral ('-' :: s) = .int (-v) := by
  simp [evalLiteral, lex_minus_intTok h h1, evalLitTokens, hv]

theorem head_dec (n : Nat) : ∀ d t, natDigits 10 n = d :: t → d ≠ '=' ∧ d ≠ '-' := by
  intro d t h
  have hd : isDigit d = true := natDigits10_isDigit n d (by rw [h]; simp)
  exact isDigit_cases hd (fun x => x ≠ '=' ∧ x ≠ '-') (by decide)

theorem head_zero (x : Char) (r : List Char) : ∀ d t, '0' :: x :: r = d :: t → d ≠ '=' ∧ d ≠ '-' := by
  intro d t h
  simp at h
  rw [← h.1]; decide

theorem eval_printI32 (v : Int32) : evalLiteral (printI32 v) = .int v := by
  unfold printI32
  split
  · have := eval_neg (intTok_natDigits10 (uval (-v))) (head_dec _) (litIntUnsigned_dec _ (uval_lt _))
    rw [this, ofNat_uval, Int32.neg_neg]
  · have := eval_pos (intTok_natDigits10 (uval v)) (litIntUnsigned_dec _ (uval_lt _))
    rw [this, ofNat_uval]

theorem eval_signedHex (v : Int32) : evalLiteral (signedRadix ['0', 'x'] 16 v) = .int v := by
  unfold signedRadix
  split
  · have := eval_neg (intTok_hexLit (uval (-v))) (head_zero _ _) (litIntUnsigned_hex _ (uval_lt _))
    simp only [List.cons_append, List.nil_append]
    rw [this, ofNat_uval, Int32.neg_neg]
  · have := eval_pos (intTok_hexLit (uval v)) (litIntUnsigned_hex _ (uval_lt _))
    simp only [List.cons_append, List.nil_append]
    rw [this, ofNat_uval]

theorem eval_signedBin (v : Int32) : evalLiteral (signedRadix ['0', 'b'] 2 v) = .int v := by
  unfold signedRadix
  split
  · have := eval_neg (intTok_binLit (uval (-v))) (head_zero _ _) (litIntUnsigned_bin _ (uval_lt _))
    simp only [List.cons_append, List.nil_append]
    rw [this, ofNat_uval, Int32.neg_neg]
  · have := eval_pos (intTok_binLit (uval v)) (litIntUnsigned_bin _ (uval_lt _))
    simp only [List.cons_append, List.nil_append]
    rw [this, ofNat_uval]

theorem eval_unsignedDec (v : Int32) : evalLiteral (natDigits 10 (uval v)) = .int v := by
  rw [eval_pos (intTok_natDigits10 (uval v)) (litIntUnsigned_dec _ (uval_lt _)), ofNat_uval]

theorem eval_unsignedHex (v : Int32) : evalLiteral ('0' :: 'x' :: natDigits 16 (uval v)) = .int v := by
  rw [eval_pos (intTok_hexLit (uval v)) (litIntUnsigned_hex _ (uval_lt _)), ofNat_uval]

theorem eval_unsignedBin (v : Int32) : evalLiteral ('0' :: 'b' :: natDigits 2 (uval v)) = .int v := by
  rw [eval_pos (intTok_binLit (uval v)) (litIntUnsigned_bin _ (uval_lt _)), ofNat_uval]

/-- **C08, integer literals.**  For every format (signed/unsigned x dec/hex/bin/bool) and every
`v : Int32`, lexing the printed text and applying the grammar's literal rules with sign folding
gives `v`. -/
theorem int_print_parse (f : IntFormat) (v : Int32) : evalLiteral (printInt f v) = .int v := by
  obtain ⟨signed, radix⟩ := f
  cases radix <;> cases signed <;> simp only [printInt]
  · exact eval_unsignedDec v
  · exact eval_printI32 v
  · exact eval_unsignedHex v
  · exact eval_signedHex v
  · exact eval_unsignedBin v
  · exact eval_signedBin v
  · split
    · rename_i h; subst h; decide
    · split
      · rename_i h; subst h; decide
      · simp only [Bool.false_eq_true, if_false]; exact eval_unsignedHex v
  · split
    · rename_i h; subst h; decide
    · split
      · rename_i h; subst h; decide
      · simp only [if_true]; exact eval_printI32 v

example : printInt ⟨true, .hex⟩ (-16) = "-0x10".toList := by decide
example : printInt ⟨true, .hex⟩ (-2147483648) = "-0x80000000".toList := by decide
example : printInt ⟨false, .hex⟩ (-48) = "0xffffffd0".toList := by decide
example : printInt ⟨true, .bin⟩ (-4) = "-0b100".toList := by decide
example : printInt ⟨false, .bool⟩ (-2) = "0xfffffffe".toList := by decide
example : printInt ⟨true, .dec⟩ (-2147483648) = "-2147483648".toList := by decide
example : evalLiteral "-2147483648".toList = .int (-2147483648) := by decide
example : evalLiteral "4294967296".toList = .badInt := by decide

/-! ## the sign of the printed text -/

theorem natDigits_head_ne_minus {b : Nat} (hb : 2 ≤ b) (hb16 : b ≤ 16) (n : Nat) :
    (natDigits b n).head? ≠ some '-' := by
  cases h : natDigits b n with
  | nil => simp
  | cons c t =>
    have hc : isHex c = true := by
      obtain ⟨d, hd, rfl⟩ := natDigits_mem hb n c (by rw [h]; simp)
      exact isHex_digitChar d (by omega)
    simp only [List.head?_cons, ne_eq, Option.some.injEq]
    intro hm; subst hm; revert hc; decide

/-- The printed literal starts with `-` exactly for negative values in signed formats; in
particular a non-negative literal never starts with `-`, and neither does any unsigned one. -/
theorem printInt_head_minus_iff (f : IntFormat) (v : Int32) :
    (printInt f v).head? = some '-' ↔ (f.signed = true ∧ v.toInt < 0) := by
  have d10 := natDigits_head_ne_minus (b := 10) (by omega) (by omega)
  obtain ⟨signed, radix⟩ := f
  have hI : (printI32 v).head? = some '-' ↔ v.toInt < 0 := by
    unfold printI32
    split
    · rename_i h; simp [h]
    · rename_i h; simp [h, d10]
  have hS : ∀ (x : Char) (b : Nat), 2 ≤ b → b ≤ 16 → ((signedRadix ['0', x] b v).head? = some '-' ↔ v.toInt < 0) := by
    intro x b _ _
    unfold signedRadix
    split
    · rename_i h; simp [h]
    · rename_i h; simp [h]
  have h0 : (0 : Int32).toInt = 0 := by decide
  have h1 : (1 : Int32).toInt = 1 := by decide
  cases radix <;> cases signed <;> simp only [printInt]
  · simp [d10]
  · simpa using hI
  · simp
  · simpa using hS 'x' 16 (by omega) (by omega)
  · simp
  · simpa using hS 'b' 2 (by omega) (by omega)
  · split
    · simp
    · split
      · simp
      · simp
  · split
    · rename_i h; subst h; simp [h0]
    · split
      · rename_i h; subst h; simp [h1]
      · simpa using hI

theorem printInt_nonneg_no_minus (f : IntFormat) (v : Int32) (h : 0 ≤ v.toInt) :
    (printInt f v).head? ≠ some '-' := by
  intro hm
  have := ((printInt_head_minus_iff f v).mp hm).2
  omega

example : (0 : Int32).toInt ≥ 0 ∧ (printInt ⟨true, .dec⟩ 7).head? = some '7' := by decide

/-! ## the token-glue defect (the formatter writes a prefix operator directly before its operand) -/

theorem lexOne_minus_minus (t : List Char) : lexOne ('-' :: '-' :: t) = .tok (.punct ['-', '-']) 2 := by
  simp [lexOne, punctLen, isPunctStart, punctTable, intLen, floatLen, wordLen, diffLen,
    strLen, spanLen, isDigit, isIdentStart]

/-- A token list that starts with `--` is not an integer literal, signed or not. -/
theorem evalLitTokens_minus_minus (r : List Tok) : evalLitTokens (.punct ['-', '-'] :: r) = .other := by
  unfold evalLitTokens
  split <;> simp_all

/-- **The unary-minus glue defect, all instances.**  For every signed format and every negative
`v`, the text that the formatter writes for `-(literal v)` — the operator immediately followed by
the printed literal — starts with the single token `--` (pre-decrement), and the literal rules
do not read it as a number.  So `print` is not injective into parseable text there; a space or
parentheses between the operator and an operand that starts with `-` would repair it. -/
theorem unary_glue_minus (f : IntFormat) (v : Int32) (hs : f.signed = true) (hv : v.toInt < 0) :
    (∃ r e, lex (printUnary '-' (printInt f v)) = (.punct ['-', '-'] :: r, e)) ∧
    evalLiteral (printUnary '-' (printInt f v)) = .other := by
  have hhead := (printInt_head_minus_iff f v).mpr ⟨hs, hv⟩
  cases hp : printInt f v with
  | nil => rw [hp] at hhead; simp at hhead
  | cons c t =>
    rw [hp] at hhead
    simp only [List.head?_cons, Option.some.injEq] at hhead
    subst hhead
    have hws : isWs '-' = false := by decide
    have hl : lex (printUnary '-' ('-' :: t)) =
        (.punct ['-', '-'] :: (lexAll (t.length + 2) t).1, (lexAll (t.length + 2) t).2) := by
      simp [lex, printUnary, lexAll, dropWs, hws, lexOne_minus_minus]
    refine ⟨⟨_, _, hl⟩, ?_⟩
    unfold evalLiteral
    rw [hl]
    split
    · rename_i toks heq
      simp only [Prod.mk.injEq] at heq
      rw [← heq.1]
      exact evalLitTokens_minus_minus _
    · rfl

/-- witness (DESIGN.md section 8: `ins_200(I0, -3)` under `UnOp(op="-")` decompiles to `I0 = --3;`) -/
theorem unary_glue_minus_witness :
    lex (printUnary '-' (printInt ⟨true, .dec⟩ (-3))) = ([.punct ['-', '-'], .int ['3']], .eof) ∧
    evalLiteral (printUnary '-' (printInt ⟨true, .dec⟩ (-3))) = .other ∧
    evalLiteral ("-(-3)".toList.filter (fun c => c != '(' && c != ')')) = .other := by decide

example : (⟨true, .dec⟩ : IntFormat).signed = true ∧ (-3 : Int32).toInt < 0 := by decide

/-- source-level instance: `-2147483648` is `-(2147483648 as i32)` = `-(MIN)`, printed `--2147483648` -/
theorem unary_glue_min_witness :
    litIntUnsigned "2147483648".toList = some (-2147483648) ∧
    printUnary '-' (printInt ⟨true, .dec⟩ (-2147483648)) = "--2147483648".toList ∧
    evalLiteral "--2147483648".toList = .other := by decide

/-- **The `!` glue defect.**  `!` directly followed by any of `-*ENHLWXYZO4567` is lexed as one
DifficultyStr token of at least two characters (a token no grammar rule accepts), not as the
operator `!`. -/
theorem unary_glue_not (c : Char) (t : List Char) (hc : isDiffChar c = true) :
    ∃ n, 2 ≤ n ∧ lexOne (printUnary '!' (c :: t)) = .tok (.difficulty (('!' :: c :: t).take n)) n := by
  refine ⟨spanLen isDiffChar t + 2, by omega, ?_⟩
  have hne : c ≠ '=' := by
    intro h; subst h; revert hc; decide
  have hd : isDigit '!' = false := by decide
  have hi : isIdentStart '!' = false := by decide
  simp [printUnary, lexOne, punctLen, isPunctStart, punctTable, intLen, floatLen, wordLen,
    diffLen, strLen, spanLen, hc, hd, hi, Ne.symm hne]

/-- negative literals under `!` (`!-1`), literals starting with 4-7 (`!4`), identifiers starting
with one of `ENHLWXYZO` (`!Enemy`) -/
theorem unary_glue_not_witness :
    lex (printUnary '!' (printInt ⟨true, .dec⟩ (-1))) = ([.difficulty ['!', '-'], .int ['1']], .eof) ∧
    lex (printUnary '!' (printInt ⟨true, .dec⟩ 4)) = ([.difficulty ['!', '4']], .eof) ∧
    lex "!Enemy".toList = ([.difficulty ['!', 'E'], .word "nemy".toList], .eof) ∧
    evalLiteral (printUnary '!' (printInt ⟨true, .dec⟩ 4)) = .other := by decide

example : isDiffChar '-' = true ∧ isDiffChar '4' = true ∧ isDiffChar 'E' = true := by decide

/-- every negative literal of a signed format under `!` is affected (`-` is in the class) -/
theorem unary_glue_not_negative (f : IntFormat) (v : Int32) (hs : f.signed = true) (hv : v.toInt < 0) :
    ∃ n s, 2 ≤ n ∧ lexOne (printUnary '!' (printInt f v)) = .tok (.difficulty s) n := by
  have hhead := (printInt_head_minus_iff f v).mpr ⟨hs, hv⟩
  cases hp : printInt f v with
  | nil => rw [hp] at hhead; simp at hhead
  | cons c t =>
    rw [hp] at hhead
    simp only [List.head?_cons, Option.some.injEq] at hhead
    subst hhead
    obtain ⟨n, hn, h⟩ := unary_glue_not '-' t (by decide)
    exact ⟨n, _, hn, h⟩

/-! ## strings -/

theorem unescapeLoop_escapeBody (s : List Char) :
    ∀ rest out, unescapeLoop (escapeBody s ++ rest) false out = unescapeLoop rest false (out ++ s) := by
  induction s with
  | nil => intro rest out; simp [escapeBody]
  | cons c cs ih =>
    intro rest out
    have hcons : escapeBody (c :: cs) = escapeChar c ++ escapeBody cs := by simp [escapeBody]
    rw [hcons, List.append_assoc]
    have key : unescapeLoop (escapeChar c ++ (escapeBody cs ++ rest)) false out
        = unescapeLoop (escapeBody cs ++ rest) false (out ++ [c]) := by
      unfold escapeChar
      split
      · rename_i h; subst h; simp [unescapeLoop, unescapeChar]
      · split
        · rename_i h; subst h; simp [unescapeLoop, unescapeChar]
        · split
          · rename_i h; subst h; simp [unescapeLoop, unescapeChar]
          · split
            · rename_i h; subst h; simp [unescapeLoop, unescapeChar]
            · split
              · rename_i h; subst h; simp [unescapeLoop, unescapeChar]
              · rename_i h3 _ _
                simp [unescapeLoop, h3]
    rw [key, ih]
    simp

/-- **C08, strings** (the statement of the task: `unescape (escape s) = s`).  For every list of
characters — NUL, quotes, backslashes, CR/LF, any multi-byte scalar value — parsing the printed
literal gives back the characters; in particular `parse_string_literal` neither rejects nor
panics on printed text. -/
theorem string_escape_roundtrip (s : List Char) : unescapeString (escapeString s) = .ok s := by
  unfold unescapeString parseStringLiteral escapeString
  have h1 : ¬ (('"' :: (escapeBody s ++ ['"'])).length < 2) := by simp
  have hl : ('"' :: (escapeBody s ++ ['"'])).getLast? = some '"' := by
    rw [← List.cons_append, List.getLast?_concat]
  have h2 : ¬ (('"' :: (escapeBody s ++ ['"'])).head? ≠ some '"' ∨ ('"' :: (escapeBody s ++ ['"'])).getLast? ≠ some '"') := by
    simp [hl]
  simp only [h1, h2, if_false, List.tail_cons, List.dropLast_concat]
  have := unescapeLoop_escapeBody s [] []
  simp only [List.append_nil, List.nil_append] at this
  rw [this]
  simp [unescapeLoop]

example : escapeString ['a', '"', '\\', '\n', '\r', '\x00', 'é', '日'] = "\"a\\\"\\\\\\n\\r\\0é日\"".toList := by decide
example : unescapeString "\"\\t\"".toList = .err "invalid escape character" := by decide

/-- the printed body followed by the closing quote is matched by the string rule of the lexer up to
and including that quote -/
theorem strBodyLen_escapeBody (s : List Char) :
    ∀ rest, strBodyLen (escapeBody s ++ '"' :: rest) false = some ((escapeBody s).length + 1) := by
  induction s with
  | nil => intro rest; simp [escapeBody, strBodyLen]
  | cons c cs ih =>
    intro rest
    have hcons : escapeBody (c :: cs) = escapeChar c ++ escapeBody cs := by simp [escapeBody]
    rw [hcons, List.append_assoc]
    unfold escapeChar
    split
    · simp [strBodyLen, ih]
    · split
      · simp [strBodyLen, ih]
      · split
        · simp [strBodyLen, ih]
        · split
          · simp [strBodyLen, ih]
          · split
            · simp [strBodyLen, ih]
            · rename_i h1 h2 _ _
              have hq : c ≠ '"' := h1
              have hb : c ≠ '\\' := h2
              simp [strBodyLen, hq, hb, ih]

/-- A printed string literal at the head of the input is exactly one STRING token. -/
theorem lexOne_escapeString (s rest : List Char) :
    lexOne (escapeString s ++ rest) = .tok (.str (escapeString s)) (escapeString s).length := by
  have hb := strBodyLen_escapeBody s rest
  have hq : strLen (escapeString s ++ rest) = (escapeString s).length := by
    simp [escapeString, strLen, hb]
  have hp : isPunctStart '"' = false := by decide
  have hd : isDigit '"' = false := by decide
  have hi : isIdentStart '"' = false := by decide
  have hlen : (escapeString s).length ≠ 0 := by simp [escapeString]
  have htake : (escapeString s ++ rest).take (escapeString s).length = escapeString s := by simp
  have hrest : lexOne (escapeString s ++ rest) =
      .tok (.str ((escapeString s ++ rest).take (escapeString s).length)) (escapeString s).length := by
    have hx : escapeString s ++ rest = '"' :: (escapeBody s ++ '"' :: rest) := by simp [escapeString]
    unfold lexOne
    rw [hq]
    rw [hx]
    simp [punctLen, hp, intLen, floatLen, wordLen, diffLen, spanLen, hd, hi]
    simp [escapeString] at hlen ⊢
  rw [hrest, htake]

/-- **C08, strings, end to end**: the printed literal alone is lexed as one string token whose
text `parse_string_literal` turns back into `s`. -/
theorem string_print_lex_parse (s : List Char) :
    lex (escapeString s) = ([.str (escapeString s)], .eof) ∧
    parseStringLiteral (escapeString s) = .ok s := by
  refine ⟨?_, string_escape_roundtrip s⟩
  have h := lexOne_escapeString s []
  simp only [List.append_nil] at h
  have hws : isWs '"' = false := by decide
  have hx : escapeString s = '"' :: (escapeBody s ++ ['"']) := rfl
  unfold lex
  rw [hx] at h ⊢
  have hd : dropWs ('"' :: (escapeBody s ++ ['"'])) = '"' :: (escapeBody s ++ ['"']) := by simp [dropWs, hws]
  rw [show ('"' :: (escapeBody s ++ ['"'])).length + 1 = ((escapeBody s ++ ['"']).length + 1) + 1 from rfl, lexAll, hd]
  simp only [h, List.drop_length]
  rw [lexAll]
  simp [dropWs]

/-! ## layout: inline vs block style changes only whitespace and the trailing comma

`Doc` is the comma-separated-list skeleton of a script (call arguments, parameter lists, meta
arrays/objects); `blk` is `fmt_comma_separated` with the `try_inline` backtracking, `ess` keeps what
the parser sees (tokens and separating commas; the grammar's `SeparatedTrailing` also accepts the
trailing comma of the block style, which `ess` drops). -/

theorem ess_append (a b : List Piece) : ess (a ++ b) = ess a ++ ess b := by simp [ess]

theorem ess_write (st : LSt) (p : Piece) : ess (st.write p).out = ess st.out ++ ess [p] := by
  unfold LSt.write
  split <;> simp [ess]

theorem ess_newline (st : LSt) : ess st.newline.out = ess st.out := by
  simp [LSt.newline, ess]

theorem ess_tok (s : List Char) : ess [.tok s] = [.tok s] := by simp [ess]
theorem ess_comma : ess [.comma] = [.comma] := by simp [ess]
theorem ess_tcomma : ess [.tcomma] = [] := by simp [ess]
theorem ess_space : ess [.space] = [] := by simp [ess]

mutual
theorem inl_ess (tw : Nat) : ∀ (d : Doc) (st st' : LSt), inl tw d st = some st' →
    ess st'.out = ess st.out ++ d.toks
  | .atom s, st, st', h => by
    simp only [inl, Option.some.injEq] at h
    subst h
    simp [ess_write, ess_tok, Doc.toks]
  | .list op cl items, st, st', h => by
    simp only [inl] at h
    split at h
    · simp at h
    · rename_i st1 h1
      have ih := inlItems_ess tw items true _ _ h1
      split at h
      · simp at h
      · simp only [Option.some.injEq] at h
        subst h
        simp [ess_write, ess_tok, ih, Doc.toks]
theorem inlItems_ess (tw : Nat) : ∀ (ds : Docs) (first : Bool) (st st' : LSt), inlItems tw ds first st = some st' →
    ess st'.out = ess st.out ++ ds.toks first
  | .nil, first, st, st', h => by
    simp only [inlItems, Option.some.injEq] at h
    subst h
    simp [Docs.toks]
  | .cons d ds, first, st, st', h => by
    simp only [inlItems] at h
    split at h
    · simp at h
    · rename_i st1 h1
      have ih1 := inl_ess tw d _ _ h1
      split at h
      · simp at h
      · have ih2 := inlItems_ess tw ds false _ _ h
        rw [ih2, ih1]
        cases first <;> simp [ess_write, ess_comma, ess_space, Docs.toks]
end

/-- the token sequence of an item list with the separators written the way the block style writes
them: after every item but the last -/
def toksSep : Docs → List Piece
  | .nil => []
  | .cons d ds => d.toks ++ (if ds.isNil then [] else [.comma]) ++ toksSep ds

theorem toks_eq_toksSep : ∀ (ds : Docs),
    ds.toks true = toksSep ds ∧ ds.toks false = (if ds.isNil then [] else .comma :: toksSep ds)
  | .nil => by simp [Docs.toks, toksSep, Docs.isNil]
  | .cons d .nil => by simp [Docs.toks, toksSep, Docs.isNil]
  | .cons d (.cons d' ds') => by
    have ih := toks_eq_toksSep (.cons d' ds')
    have h2 : (Docs.cons d' ds').toks false = .comma :: toksSep (.cons d' ds') := by simpa [Docs.isNil] using ih.2
    constructor
    · rw [toksSep, Docs.toks, h2]; simp [Docs.isNil]
    · rw [toksSep, Docs.toks, h2]; simp [Docs.isNil]

theorem ess_with_indent (st : LSt) (n : Nat) : ess ({ st with indent := n }).out = ess st.out := rfl

mutual
theorem blk_ess (tw : Nat) : ∀ (d : Doc) (st : LSt), ess (blk tw d st).out = ess st.out ++ d.toks
  | .atom s, st => by simp [blk, ess_write, ess_tok, Doc.toks]
  | .list op cl items, st => by
    simp only [blk]
    split
    · rename_i st' h
      exact inl_ess tw _ _ _ h
    · rw [ess_write, ess_tok, ess_with_indent, blkItems_ess tw items, ess_with_indent, ess_newline, ess_write, ess_tok]
      simp [Doc.toks, (toks_eq_toksSep items).1]
theorem blkItems_ess (tw : Nat) : ∀ (ds : Docs) (st : LSt), ess (blkItems tw ds st).out = ess st.out ++ toksSep ds
  | .nil, st => by simp [blkItems, toksSep]
  | .cons d ds, st => by
    simp only [blkItems]
    rw [blkItems_ess tw ds, ess_newline, ess_write, blk_ess tw d]
    cases h : ds.isNil <;> simp [toksSep, ess_comma, ess_tcomma, h]
end

/-- **layout changes only whitespace and trailing commas** -/
theorem layout_tokens (w : Nat) (d : Doc) : ess (renderPieces w d) = d.toks := by
  unfold renderPieces
  rw [blk_ess]
  simp [LSt.init, ess]

theorem layout_width_independent (w w' : Nat) (d : Doc) : ess (renderPieces w d) = ess (renderPieces w' d) := by
  rw [layout_tokens, layout_tokens]

example : render 6 (.list ['['] [']'] (.cons (.atom ['1', '0']) (.cons (.atom ['2', '3']) .nil))) = "[\n    10,\n    23,\n]".toList := by decide
example : render 9 (.list ['['] [']'] (.cons (.atom ['1', '0']) (.cons (.atom ['2', '3']) .nil))) = "[10, 23]".toList := by decide

/-! # the expression layer -/

open TruthModel.FmtExpr
local notation "cl" => List.map classify


/-! ## classification of the tokens the printer writes -/

@[simp] theorem cl_lp : classify tLp = .lp := by decide
@[simp] theorem cl_rp : classify tRp = .rp := by decide
@[simp] theorem cl_comma : classify tComma = .comma := by decide
@[simp] theorem cl_quest : classify tQuest = .quest := by decide
@[simp] theorem cl_colon : classify tColon = .colon := by decide
@[simp] theorem cl_lb : classify tLb = .lb := by decide
@[simp] theorem cl_rb : classify tRb = .rb := by decide
@[simp] theorem cl_dot : classify tDot = .dot := by decide
@[simp] theorem cl_at : classify tAt = .at := by decide
@[simp] theorem cl_assign : classify tAssign = .assign := by decide
@[simp] theorem cl_minus : classify tMinus = .op .sub := by decide
@[simp] theorem cl_dollar : classify tDollar = .dollar := by decide
@[simp] theorem cl_percent : classify tPercent = .op .rem := by decide
@[simp] theorem cl_reg : classify tReg = .reg := by decide
@[simp] theorem cl_xcr (inc : Bool) : classify (xcrTok inc) = if inc then .inc else .dec := by
  cases inc <;> decide
@[simp] theorem cl_binop (op : BinOp) : classify op.tok = .op op := by cases op <;> decide
@[simp] theorem cl_labelKw (k : LabelKw) : classify (.word k.text) = .labelKw k := by cases k <;> decide
@[simp] theorem cl_pseudo (k : PseudoKind) : classify (.word k.text) = .ident k.text := by cases k <;> decide
@[simp] theorem pseudoKindOf_text (k : PseudoKind) : pseudoKindOf k.text = some k := by cases k <;> decide
@[simp] theorem cl_true : classify (.word trueText) = .ident trueText := by decide
@[simp] theorem cl_false : classify (.word falseText) = .ident falseText := by decide
@[simp] theorem cl_inf : classify (.word infText) = .ident infText := by decide
@[simp] theorem cl_nan : classify (.word nanText) = .ident nanText := by decide
@[simp] theorem cl_int (s : List Char) : classify (.int s) = .int s := rfl
@[simp] theorem cl_float (s : List Char) : classify (.float s) = .float s := rfl
@[simp] theorem cl_str (s : List Char) : classify (.str s) = .str s := rfl

theorem cl_ident {w : List Char} (h : identOK w = true) : classify (.word w) = .ident w := by
  simpa [identOK, classify] using h

theorem cl_unop_prefix : classify (UnOp.tok .neg) = .op .sub ∧ classify (UnOp.tok .not) = .bang ∧
    classify (UnOp.tok .bitNot) = .tilde := by decide

/-- the three ways a function-like operator is classified -/
theorem cl_unop_func (u : UnOp) (h : u.isPrefix = false) :
    (classify u.tok = .func u) ∨ (u = .encI ∧ classify u.tok = .dollar) ∨ (u = .encF ∧ classify u.tok = .op .rem) := by
  cases u <;> first | (exact absurd h (by decide)) | (left; decide) | (right; left; exact ⟨rfl, by decide⟩) | (right; right; exact ⟨rfl, by decide⟩)

theorem cl_ins (ds : List Char) : classify (.word (insPrefix ++ ds)) = .ins ds := by
  simp [classify, wordClass, insPrefix]


/-! ## stop sets: what may follow a term / an expression -/

/-- a token after which a `Var` / identifier term is complete -/
def stopsTerm : Option PTok → Bool
  | some .lp | some .dot | some .inc | some .dec | some .lb => false
  | _ => true

/-- a token (or the end of input) that closes an `Expr` -/
def closes : Option PTok → Bool
  | none | some .rp | some .comma | some .rb | some .semi => true
  | _ => false

theorem stopsTerm_spec {o : Option PTok} (h : stopsTerm o = true) :
    o ≠ some .lp ∧ o ≠ some .dot ∧ o ≠ some .inc ∧ o ≠ some .dec ∧ o ≠ some .lb := by
  refine ⟨?_, ?_, ?_, ?_, ?_⟩ <;> (intro he; subst he; simp [stopsTerm] at h)

theorem closes_spec {o : Option PTok} (h : closes o = true) :
    stopsTerm o = true ∧ binOpOf o = none ∧ o ≠ some .quest ∧ o ≠ some .colon ∧ startsExpr o = false := by
  cases o with
  | none => simp [stopsTerm, binOpOf, startsExpr]
  | some t => cases t <;> simp_all [closes, stopsTerm, binOpOf, startsExpr]

theorem stopsTerm_op (b : BinOp) : stopsTerm (some (.op b)) = true := rfl

/-! ## the tower -/

theorem pLoop_stop (f lvl : Nat) (a : Expr) (toks : List PTok)
    (h : ∀ op, binOpOf toks.head? = some op → op.level ≠ lvl) : pLoop (f + 1) lvl a toks = some (a, toks) := by
  simp only [pLoop]
  split
  · rename_i op hop
    simp [h op hop]
  · rfl

/-- a term that `pUnary` reads is read by every tier whose operators do not follow it -/
theorem pLevel_of_unary {toks rest : List PTok} {x : Expr} {g : Nat}
    (hU : ∀ f, g ≤ f → pUnary f (toks ++ rest) = some (x, rest)) :
    ∀ (d k : Nat), k + d = 10 → (∀ op, binOpOf rest.head? = some op → op.level < k) →
      ∀ f, g + d + 1 ≤ f → pLevel f k (toks ++ rest) = some (x, rest) := by
  intro d
  induction d with
  | zero =>
    intro k hk _ f hf
    obtain ⟨f', rfl⟩ : ∃ f', f = f' + 1 := ⟨f - 1, by omega⟩
    have h10 : 10 ≤ k := by omega
    simp only [pLevel, h10, if_true]
    exact hU f' (by omega)
  | succ d ih =>
    intro k hk hstop f hf
    obtain ⟨f', rfl⟩ : ∃ f', f = f' + 1 := ⟨f - 1, by omega⟩
    have h10 : ¬ 10 ≤ k := by omega
    simp only [pLevel, h10, if_false]
    rw [ih (k + 1) (by omega) (fun op hop => by have := hstop op hop; omega) f' (by omega)]
    obtain ⟨f'', rfl⟩ : ∃ f'', f' = f'' + 1 := ⟨f' - 1, by omega⟩
    exact pLoop_stop f'' k x rest (fun op hop => by have := hstop op hop; omega)

/-- a result of tier `k0` is the result of every looser tier when no operator follows -/
theorem pLevel_lift {toks rest : List PTok} {x : Expr} {k0 G : Nat} (hk0 : k0 ≤ 10) (hG : 1 ≤ G)
    (h0 : ∀ f, G ≤ f → pLevel f k0 toks = some (x, rest)) (hstop : binOpOf rest.head? = none) :
    ∀ (d k : Nat), k + d = k0 → ∀ f, G + d ≤ f → pLevel f k toks = some (x, rest) := by
  intro d
  induction d with
  | zero =>
    intro k hk f hf
    have : k = k0 := by omega
    subst this
    exact h0 f (by omega)
  | succ d ih =>
    intro k hk f hf
    obtain ⟨f', rfl⟩ : ∃ f', f = f' + 1 := ⟨f - 1, by omega⟩
    have h10 : ¬ 10 ≤ k := by omega
    simp only [pLevel, h10, if_false]
    rw [ih (k + 1) (by omega) f' (by omega)]
    obtain ⟨f'', rfl⟩ : ∃ f'', f' = f'' + 1 := ⟨f' - 1, by omega⟩
    exact pLoop_stop f'' k x rest (fun op hop => by rw [hstop] at hop; cases hop)

theorem pExpr_of_level {toks rest : List PTok} {x : Expr} {f : Nat} (h : pLevel f 0 toks = some (x, rest))
    (hq : rest.head? ≠ some .quest) (hc : rest.head? ≠ some .colon) : pExpr (f + 1) toks = some (x, rest) := by
  simp [pExpr, h, hq, hc]

theorem pTernRhs_of_level {toks rest : List PTok} {x : Expr} {f : Nat} (h : pLevel f 0 toks = some (x, rest))
    (hq : rest.head? ≠ some .quest) : pTernRhs (f + 1) toks = some (x, rest) := by
  simp [pTernRhs, h, hq]


/-! ## numbers -/

/-- text of a number without sign that reads back as `v` -/
def PlainNum (s : List Char) (v : Int32) : Prop :=
  s.head? ≠ some '-' ∧ s ≠ trueText ∧ s ≠ falseText ∧ litIntUnsigned s = some v

/-- text of a number with a sign whose magnitude reads back as `-v` -/
def NegNum (s : List Char) (v : Int32) : Prop := ∃ r, s = '-' :: r ∧ litIntUnsigned r = some (-v)

theorem numToks_neg {s : List Char} {v : Int32} (h : NegNum s v) :
    ∃ r, numToks s = [tMinus, .int r] ∧ litIntUnsigned r = some (-v) := by
  obtain ⟨r, rfl, hr⟩ := h
  exact ⟨r, rfl, hr⟩

theorem numToks_plain {s : List Char} {v : Int32} (h : PlainNum s v) : numToks s = [.int s] := by
  obtain ⟨h1, h2, h3, _⟩ := h
  unfold numToks
  split
  · simp at h1
  · simp [h2, h3]

theorem plain_dec (n : Nat) (hn : n < 4294967296) : PlainNum (natDigits 10 n) (UInt32.ofNat n).toInt32 := by
  have hd := natDigits10_isDigit n
  refine ⟨natDigits_head_ne_minus (by omega) (by omega) n, ?_, ?_, litIntUnsigned_dec n hn⟩
  · intro h
    have := hd 't' (by rw [h]; simp [trueText])
    revert this; decide
  · intro h
    have := hd 'f' (by rw [h]; simp [falseText])
    revert this; decide

theorem plain_hex (n : Nat) (hn : n < 4294967296) : PlainNum ('0' :: 'x' :: natDigits 16 n) (UInt32.ofNat n).toInt32 :=
  ⟨by simp, by simp [trueText], by simp [falseText], litIntUnsigned_hex n hn⟩

theorem plain_bin (n : Nat) (hn : n < 4294967296) : PlainNum ('0' :: 'b' :: natDigits 2 n) (UInt32.ofNat n).toInt32 :=
  ⟨by simp, by simp [trueText], by simp [falseText], litIntUnsigned_bin n hn⟩

theorem shape_printI32 (v : Int32) :
    (v.toInt < 0 ∧ NegNum (printI32 v) v) ∨ (¬ v.toInt < 0 ∧ PlainNum (printI32 v) v) := by
  unfold printI32
  split
  · rename_i h
    refine Or.inl ⟨h, _, rfl, ?_⟩
    have := (plain_dec (uval (-v)) (uval_lt _)).2.2.2
    rw [this, ofNat_uval]
  · rename_i h
    refine Or.inr ⟨h, ?_⟩
    have := plain_dec (uval v) (uval_lt _)
    rwa [ofNat_uval] at this

theorem shape_signedHex (v : Int32) :
    (v.toInt < 0 ∧ NegNum (signedRadix ['0', 'x'] 16 v) v) ∨ (¬ v.toInt < 0 ∧ PlainNum (signedRadix ['0', 'x'] 16 v) v) := by
  unfold signedRadix
  split
  · rename_i h
    refine Or.inl ⟨h, _, rfl, ?_⟩
    have := (plain_hex (uval (-v)) (uval_lt _)).2.2.2
    simp only [List.cons_append, List.nil_append]
    rw [this, ofNat_uval]
  · rename_i h
    refine Or.inr ⟨h, ?_⟩
    have := plain_hex (uval v) (uval_lt _)
    simp only [List.cons_append, List.nil_append]
    rwa [ofNat_uval] at this

theorem shape_signedBin (v : Int32) :
    (v.toInt < 0 ∧ NegNum (signedRadix ['0', 'b'] 2 v) v) ∨ (¬ v.toInt < 0 ∧ PlainNum (signedRadix ['0', 'b'] 2 v) v) := by
  unfold signedRadix
  split
  · rename_i h
    refine Or.inl ⟨h, _, rfl, ?_⟩
    have := (plain_bin (uval (-v)) (uval_lt _)).2.2.2
    simp only [List.cons_append, List.nil_append]
    rw [this, ofNat_uval]
  · rename_i h
    refine Or.inr ⟨h, ?_⟩
    have := plain_bin (uval v) (uval_lt _)
    simp only [List.cons_append, List.nil_append]
    rwa [ofNat_uval] at this

/-- the four shapes of a printed integer literal, and what `norm` makes of them -/
theorem printInt_shape (f : IntFormat) (v : Int32) :
    (printInt f v = falseText ∧ normInt v f = .var { sigil := none, name := .normal falseText }) ∨
    (printInt f v = trueText ∧ normInt v f = .var { sigil := none, name := .normal trueText }) ∨
    (NegNum (printInt f v) v ∧ normInt v f = .unop .neg (.litInt (-v) signedDec)) ∨
    (PlainNum (printInt f v) v ∧ normInt v f = .litInt v signedDec) := by
  obtain ⟨signed, radix⟩ := f
  have hu10 : PlainNum (natDigits 10 (uval v)) v := by
    have := plain_dec (uval v) (uval_lt _); rwa [ofNat_uval] at this
  have hu16 : PlainNum ('0' :: 'x' :: natDigits 16 (uval v)) v := by
    have := plain_hex (uval v) (uval_lt _); rwa [ofNat_uval] at this
  have hu2 : PlainNum ('0' :: 'b' :: natDigits 2 (uval v)) v := by
    have := plain_bin (uval v) (uval_lt _); rwa [ofNat_uval] at this
  cases radix <;> cases signed <;> simp only [printInt]
  · exact Or.inr (Or.inr (Or.inr ⟨hu10, by simp [normInt]⟩))
  · rcases shape_printI32 v with ⟨h, hn⟩ | ⟨h, hp⟩
    · exact Or.inr (Or.inr (Or.inl ⟨hn, by simp [normInt, h]⟩))
    · exact Or.inr (Or.inr (Or.inr ⟨hp, by simp [normInt, h]⟩))
  · exact Or.inr (Or.inr (Or.inr ⟨hu16, by simp [normInt]⟩))
  · rcases shape_signedHex v with ⟨h, hn⟩ | ⟨h, hp⟩
    · exact Or.inr (Or.inr (Or.inl ⟨hn, by simp [normInt, h]⟩))
    · exact Or.inr (Or.inr (Or.inr ⟨hp, by simp [normInt, h]⟩))
  · exact Or.inr (Or.inr (Or.inr ⟨hu2, by simp [normInt]⟩))
  · rcases shape_signedBin v with ⟨h, hn⟩ | ⟨h, hp⟩
    · exact Or.inr (Or.inr (Or.inl ⟨hn, by simp [normInt, h]⟩))
    · exact Or.inr (Or.inr (Or.inr ⟨hp, by simp [normInt, h]⟩))
  · split
    · rename_i h0; exact Or.inl ⟨rfl, by simp [normInt, h0]⟩
    · rename_i h0
      split
      · rename_i h1; exact Or.inr (Or.inl ⟨rfl, by simp [normInt, h1]⟩)
      · rename_i h1
        simp only [Bool.false_eq_true, if_false]
        exact Or.inr (Or.inr (Or.inr ⟨hu16, by simp [normInt, h0, h1]⟩))
  · split
    · rename_i h0; exact Or.inl ⟨rfl, by simp [normInt, h0]⟩
    · rename_i h0
      split
      · rename_i h1; exact Or.inr (Or.inl ⟨rfl, by simp [normInt, h1]⟩)
      · rename_i h1
        simp only [if_true]
        rcases shape_printI32 v with ⟨h, hn⟩ | ⟨h, hp⟩
        · exact Or.inr (Or.inr (Or.inl ⟨hn, by simp [normInt, h0, h1, h]⟩))
        · exact Or.inr (Or.inr (Or.inr ⟨hp, by simp [normInt, h0, h1, h]⟩))


/-! ## fuel that suffices for a printed expression -/

mutual
def cost : Expr → Nat
  | .ternary c l r => max (cost c) (max (cost l) (cost r)) + 20
  | .binop a _ b => max (cost a) (cost b) + 20
  | .unop _ x => cost x + 20
  | .call _ ps as => costPs ps (costAs as) + 4
  | .diffSwitch cs => costCs cs + 10
  | _ => 4
def costPs : Pseudos → Nat → Nat
  | .nil, t => t
  | .cons _ e ps, t => max (cost e + 20) (costPs ps t) + 1
def costAs : Exprs → Nat
  | .nil => 1
  | .cons e es => max (cost e + 20) (costAs es) + 1
def costCs : Cases → Nat
  | .nil => 1
  | .blank cs => costCs cs + 1
  | .some e cs => max (cost e + 20) (costCs cs) + 1
end

/-- what is proved of every printable expression, by induction -/
structure Good (e : Expr) : Prop where
  unary : ∀ f rest, cost e ≤ f → stopsTerm rest.head? = true →
    pUnary f (cl (printE false e) ++ rest) = some (norm e, rest)
  term : negLit e = false → ∀ f rest, cost e ≤ f → stopsTerm rest.head? = true →
    pTerm f (cl (printE false e) ++ rest) = some (norm e, rest)
  inner : ∀ f rest, cost e + 12 ≤ f → closes rest.head? = true →
    pExpr f (cl (printE true e) ++ rest) = some (norm e, rest)
  head : ∃ t r, cl (printE false e) = t :: r ∧ startsExpr (some t) = true

theorem Good.level {e : Expr} (h : Good e) (k : Nat) (hk : k ≤ 10) (f : Nat) (rest : List PTok)
    (hf : cost e + 11 ≤ f + k) (hst : stopsTerm rest.head? = true)
    (hop : ∀ op, binOpOf rest.head? = some op → op.level < k) :
    pLevel f k (cl (printE false e) ++ rest) = some (norm e, rest) :=
  pLevel_of_unary (g := cost e) (fun f hf => h.unary f rest hf hst) (10 - k) k (by omega) hop f (by omega)

theorem Good.exprF {e : Expr} (h : Good e) (f : Nat) (rest : List PTok) (hf : cost e + 12 ≤ f)
    (hc : closes rest.head? = true) : pExpr f (cl (printE false e) ++ rest) = some (norm e, rest) := by
  obtain ⟨hst, hb, hq, hcol, _⟩ := closes_spec hc
  obtain ⟨f', rfl⟩ : ∃ f', f = f' + 1 := ⟨f - 1, by omega⟩
  exact pExpr_of_level (h.level 0 (by omega) f' rest (by omega) hst (fun op hop => by rw [hb] at hop; cases hop)) hq hcol

theorem pUnary_of_nonprefix (f : Nat) (t : PTok) (r : List PTok) (h1 : t ≠ .op .sub) (h2 : t ≠ .tilde)
    (h3 : t ≠ .bang) : pUnary (f + 1) (t :: r) = pTerm f (t :: r) := by
  cases t with
  | op b => cases b <;> simp_all [pUnary]
  | _ => simp_all [pUnary]

/-- an expression that prints the same with and without `SuppressParens` and is read by `pUnary` -/
theorem good_of_unary {e : Expr} (hsame : printE true e = printE false e)
    (hU : ∀ f rest, cost e ≤ f → stopsTerm rest.head? = true →
      pUnary f (cl (printE false e) ++ rest) = some (norm e, rest))
    (hT : negLit e = false → ∀ f rest, cost e ≤ f → stopsTerm rest.head? = true →
      pTerm f (cl (printE false e) ++ rest) = some (norm e, rest))
    (hH : ∃ t r, cl (printE false e) = t :: r ∧ startsExpr (some t) = true) : Good e := by
  refine ⟨hU, hT, ?_, hH⟩
  intro f rest hf hc
  obtain ⟨hst, hb, hq, hcol, _⟩ := closes_spec hc
  obtain ⟨f', rfl⟩ : ∃ f', f = f' + 1 := ⟨f - 1, by omega⟩
  rw [hsame]
  exact pExpr_of_level
    (pLevel_of_unary (g := cost e) (fun f hf => hU f rest hf hst) 10 0 (by omega)
      (fun op hop => by rw [hb] at hop; cases hop) f' (by omega)) hq hcol

/-- a term whose first token is not a prefix operator -/
theorem good_of_term {e : Expr} (hsame : printE true e = printE false e) (hc : 2 ≤ cost e)
    (hT : ∀ f rest, cost e ≤ f + 1 → stopsTerm rest.head? = true →
      pTerm f (cl (printE false e) ++ rest) = some (norm e, rest))
    (hH : ∃ t r, cl (printE false e) = t :: r ∧ startsExpr (some t) = true ∧ t ≠ .op .sub ∧ t ≠ .tilde ∧ t ≠ .bang) :
    Good e := by
  obtain ⟨t, r, htr, hs, h1, h2, h3⟩ := hH
  refine good_of_unary hsame ?_ (fun _ f rest hf hst => hT f rest (by omega) hst) ⟨t, r, htr, hs⟩
  intro f rest hf hst
  obtain ⟨f', rfl⟩ : ∃ f', f = f' + 1 := ⟨f - 1, by omega⟩
  have := hT f' rest (by omega) hst
  rw [htr] at this ⊢
  rw [List.cons_append, pUnary_of_nonprefix f' t _ h1 h2 h3]
  exact this

/-! ## variables -/

theorem int32_neg_mul_neg_one (n : Int32) : (-n) * (-1) = n := by
  rw [Int32.mul_neg, Int32.mul_one, Int32.neg_neg]

theorem pVarName_name (sg : Option Sigil) (nm : VarName) (rest : List PTok)
    (hok : varOK { sigil := sg, name := nm } = true) :
    pVarName sg (cl (nameToks nm) ++ rest) = some ({ sigil := sg, name := nm }, rest) := by
  cases nm with
  | normal id =>
    have : identOK id = true := by simpa [varOK] using hok
    simp [nameToks, cl_ident this, pVarName]
  | reg n =>
    rcases shape_printI32 n with ⟨_, hn⟩ | ⟨_, hp⟩
    · obtain ⟨r, hr, hv⟩ := numToks_neg hn
      simp [nameToks, hr, pVarName, hv, int32_neg_mul_neg_one]
    · have hv := hp.2.2.2
      simp [nameToks, numToks_plain hp, pVarName, hv]

theorem pVar_varToks (v : Var) (rest : List PTok) (hok : varOK v = true) :
    pVar (cl (varToks v) ++ rest) = some (v, rest) := by
  obtain ⟨sg, nm⟩ := v
  have hn := pVarName_name sg nm rest hok
  cases sg with
  | none =>
    cases nm with
    | normal id =>
      have : identOK id = true := by simpa [varOK] using hok
      simp [varToks, sigilToks, nameToks, cl_ident this, pVar, pVarName]
    | reg n =>
      have hn' := hn
      simp only [nameToks] at hn'
      simpa [varToks, sigilToks, nameToks, pVar] using hn'
  | some s =>
    cases s <;> simpa [varToks, sigilToks, pVar] using hn


theorem pVarPost_stop (v : Var) (rest : List PTok) (h : stopsTerm rest.head? = true) :
    pVarPost v rest = some (.var v, rest) := by
  obtain ⟨_, _, h3, h4, h5⟩ := stopsTerm_spec h
  simp [pVarPost, h3, h4, h5]

/-- `ExprTerm` on the tokens of a variable hands over to the postfix check -/
theorem pTerm_var (f : Nat) (v : Var) (rest : List PTok) (hok : varOK v = true)
    (h1 : rest.head? ≠ some .lp) (h2 : rest.head? ≠ some .dot) :
    pTerm (f + 1) (cl (varToks v) ++ rest) = pVarPost v rest := by
  have hv := pVar_varToks v rest hok
  obtain ⟨sg, nm⟩ := v
  cases sg with
  | none =>
    cases nm with
    | normal id =>
      have : identOK id = true := by simpa [varOK] using hok
      simp [varToks, sigilToks, nameToks, cl_ident this, pTerm, h1, h2]
    | reg n =>
      simp [varToks, sigilToks, nameToks] at hv ⊢
      simp [pTerm, hv]
  | some s =>
    cases nm with
    | normal id =>
      have : identOK id = true := by simpa [varOK] using hok
      cases s <;> (simp [varToks, sigilToks, nameToks, cl_ident this] at hv ⊢; simp [pTerm, hv])
    | reg n =>
      cases s <;> (simp [varToks, sigilToks, nameToks] at hv ⊢; simp [pTerm, hv])

theorem varToks_head (v : Var) (hok : varOK v = true) :
    ∃ t r, cl (varToks v) = t :: r ∧ startsExpr (some t) = true ∧ t ≠ .op .sub ∧ t ≠ .tilde ∧ t ≠ .bang := by
  obtain ⟨sg, nm⟩ := v
  cases sg with
  | none =>
    cases nm with
    | normal id =>
      have : identOK id = true := by simpa [varOK] using hok
      exact ⟨.ident id, [], by simp [varToks, sigilToks, nameToks, cl_ident this], rfl, by simp, by simp, by simp⟩
    | reg n => exact ⟨.reg, _, by simp [varToks, sigilToks, nameToks]; rfl, rfl, by simp, by simp, by simp⟩
  | some s =>
    cases s with
    | int => exact ⟨.dollar, _, by simp [varToks, sigilToks]; rfl, rfl, by simp, by simp, by simp⟩
    | float => exact ⟨.op .rem, _, by simp [varToks, sigilToks]; rfl, rfl, by simp, by simp, by simp⟩

theorem good_var (v : Var) (hok : varOK v = true) : Good (.var v) := by
  refine good_of_term rfl (by simp [cost]) ?_ (by simpa [printE] using varToks_head v hok)
  intro f rest hf hst
  obtain ⟨f', rfl⟩ : ∃ f', f = f' + 1 := ⟨f - 1, by simp [cost] at hf; omega⟩
  obtain ⟨h1, h2, _, _, _⟩ := stopsTerm_spec hst
  simp only [printE, norm]
  rw [pTerm_var f' v rest hok h1 h2, pVarPost_stop v rest hst]

theorem good_xcrement (pre inc : Bool) (v : Var) (hok : varOK v = true) : Good (.xcrement pre inc v) := by
  cases pre with
  | true =>
    refine good_of_term rfl (by simp [cost]) ?_ ?_
    · intro f rest hf hst
      obtain ⟨f', rfl⟩ : ∃ f', f = f' + 1 := ⟨f - 1, by simp [cost] at hf; omega⟩
      have hv := pVar_varToks v rest hok
      cases inc <;> simp [printE, norm, pTerm, hv]
    · cases inc
      · exact ⟨.dec, _, by simp [printE]; rfl, rfl, by simp, by simp, by simp⟩
      · exact ⟨.inc, _, by simp [printE]; rfl, rfl, by simp, by simp, by simp⟩
  | false =>
    refine good_of_term rfl (by simp [cost]) ?_ ?_
    · intro f rest hf hst
      obtain ⟨f', rfl⟩ : ∃ f', f = f' + 1 := ⟨f - 1, by simp [cost] at hf; omega⟩
      have := pTerm_var f' v ((if inc then PTok.inc else PTok.dec) :: rest) hok (by cases inc <;> simp) (by cases inc <;> simp)
      simp only [printE, norm, Bool.false_eq_true, if_false, List.map_append, List.map_cons, List.map_nil,
        cl_xcr, List.append_assoc, List.cons_append, List.nil_append]
      rw [this]
      cases inc <;> simp [pVarPost]
    · obtain ⟨t, r, htr, hs, h1, h2, h3⟩ := varToks_head v hok
      exact ⟨t, r ++ [if inc then PTok.inc else PTok.dec], by simp [printE, htr], hs, h1, h2, h3⟩

/-! ## literals -/

theorem good_litInt (v : Int32) (f : IntFormat) : Good (.litInt v f) := by
  rcases printInt_shape f v with ⟨ht, hn⟩ | ⟨ht, hn⟩ | ⟨hneg, hn⟩ | ⟨hp, hn⟩
  · refine good_of_term rfl (by simp [cost]) ?_ ⟨.ident falseText, [], by rw [show printE false (.litInt v f) = numToks (printInt f v) from rfl, ht]; decide, rfl, by simp, by simp, by simp⟩
    intro g rest hg hst
    obtain ⟨g', rfl⟩ : ∃ g', g = g' + 1 := ⟨g - 1, by simp [cost] at hg; omega⟩
    obtain ⟨h1, h2, _, _, _⟩ := stopsTerm_spec hst
    have hnum : numToks falseText = [.word falseText] := by decide
    simp [printE, norm, ht, hn, hnum, pTerm, h1, h2, pVarPost_stop _ rest hst]
  · refine good_of_term rfl (by simp [cost]) ?_ ⟨.ident trueText, [], by rw [show printE false (.litInt v f) = numToks (printInt f v) from rfl, ht]; decide, rfl, by simp, by simp, by simp⟩
    intro g rest hg hst
    obtain ⟨g', rfl⟩ : ∃ g', g = g' + 1 := ⟨g - 1, by simp [cost] at hg; omega⟩
    obtain ⟨h1, h2, _, _, _⟩ := stopsTerm_spec hst
    have hnum : numToks trueText = [.word trueText] := by decide
    simp [printE, norm, ht, hn, hnum, pTerm, h1, h2, pVarPost_stop _ rest hst]
  · obtain ⟨r, hr, hv⟩ := numToks_neg hneg
    refine good_of_unary rfl ?_ ?_ ⟨.op .sub, [.int r], by simp [printE, hr], rfl⟩
    · intro g rest hg hst
      obtain ⟨g', rfl⟩ : ∃ g', g = g' + 2 := ⟨g - 2, by simp [cost] at hg; omega⟩
      simp [printE, norm, hn, hr, pUnary, pTerm, hv]
    · intro hnl
      obtain ⟨r', hr', _⟩ := hneg
      simp [negLit, hr'] at hnl
  · have hv := hp.2.2.2
    refine good_of_term rfl (by simp [cost]) ?_ ⟨.int (printInt f v), [], by simp [printE, numToks_plain hp], rfl, by simp, by simp, by simp⟩
    intro g rest hg hst
    obtain ⟨g', rfl⟩ : ∃ g', g = g' + 1 := ⟨g - 1, by simp [cost] at hg; omega⟩
    simp [printE, norm, hn, numToks_plain hp, pTerm, hv]

theorem good_litFloat (neg : Bool) (b : FloatBody) : Good (.litFloat neg b) := by
  cases b with
  | num t =>
    cases neg with
    | false =>
      refine good_of_term rfl (by simp [cost]) ?_ ⟨.float t, [], by simp [printE, floatToks], rfl, by simp, by simp, by simp⟩
      intro g rest hg hst
      obtain ⟨g', rfl⟩ : ∃ g', g = g' + 1 := ⟨g - 1, by simp [cost] at hg; omega⟩
      simp [printE, norm, normFloat, wrapNeg, floatToks, pTerm]
    | true =>
      refine good_of_unary rfl ?_ (by simp [negLit]) ⟨.op .sub, [.float t], by simp [printE, floatToks], rfl⟩
      intro g rest hg hst
      obtain ⟨g', rfl⟩ : ∃ g', g = g' + 2 := ⟨g - 2, by simp [cost] at hg; omega⟩
      simp [printE, norm, normFloat, wrapNeg, floatToks, pUnary, pTerm]
  | inf =>
    cases neg with
    | false =>
      refine good_of_term rfl (by simp [cost]) ?_ ⟨.ident infText, [], by simp [printE, floatToks], rfl, by simp, by simp, by simp⟩
      intro g rest hg hst
      obtain ⟨g', rfl⟩ : ∃ g', g = g' + 1 := ⟨g - 1, by simp [cost] at hg; omega⟩
      obtain ⟨h1, h2, _, _, _⟩ := stopsTerm_spec hst
      simp [printE, norm, normFloat, wrapNeg, floatToks, pTerm, h1, h2, pVarPost_stop _ rest hst]
    | true =>
      refine good_of_unary rfl ?_ (by simp [negLit]) ⟨.op .sub, [.ident infText], by simp [printE, floatToks], rfl⟩
      intro g rest hg hst
      obtain ⟨g', rfl⟩ : ∃ g', g = g' + 2 := ⟨g - 2, by simp [cost] at hg; omega⟩
      obtain ⟨h1, h2, _, _, _⟩ := stopsTerm_spec hst
      simp [printE, norm, normFloat, wrapNeg, floatToks, pUnary, pTerm, h1, h2, pVarPost_stop _ rest hst]
  | nan =>
    refine good_of_term rfl (by simp [cost]) ?_ ⟨.ident nanText, [], by simp [printE, floatToks], rfl, by simp, by simp, by simp⟩
    intro g rest hg hst
    obtain ⟨g', rfl⟩ : ∃ g', g = g' + 1 := ⟨g - 1, by simp [cost] at hg; omega⟩
    obtain ⟨h1, h2, _, _, _⟩ := stopsTerm_spec hst
    simp [printE, norm, normFloat, floatToks, pTerm, h1, h2, pVarPost_stop _ rest hst]

theorem good_litString (s : List Char) : Good (.litString s) := by
  refine good_of_term rfl (by simp [cost]) ?_ ⟨.str (escapeString s), [], by simp [printE], rfl, by simp, by simp, by simp⟩
  intro g rest hg hst
  obtain ⟨g', rfl⟩ : ∃ g', g = g' + 1 := ⟨g - 1, by simp [cost] at hg; omega⟩
  have := string_escape_roundtrip s
  unfold unescapeString at this
  simp [printE, norm, pTerm, this]

theorem good_labelProp (kw : LabelKw) (l : List Char) (hl : identOK l = true) : Good (.labelProp kw l) := by
  refine good_of_term rfl (by simp [cost]) ?_ ⟨.labelKw kw, _, by simp [printE]; rfl, rfl, by simp, by simp, by simp⟩
  intro g rest hg hst
  obtain ⟨g', rfl⟩ : ∃ g', g = g' + 1 := ⟨g - 1, by simp [cost] at hg; omega⟩
  simp [printE, norm, pTerm, cl_ident hl]

theorem good_enumConst (en id : List Char) (h1 : identOK en = true) (h2 : identOK id = true) : Good (.enumConst en id) := by
  refine good_of_term rfl (by simp [cost]) ?_ ⟨.ident en, _, by simp [printE, cl_ident h1]; rfl, rfl, by simp, by simp, by simp⟩
  intro g rest hg hst
  obtain ⟨g', rfl⟩ : ∃ g', g = g' + 1 := ⟨g - 1, by simp [cost] at hg; omega⟩
  simp [printE, norm, pTerm, cl_ident h1, cl_ident h2]


/-! ## parenthesised compounds -/

/-- an expression that `fmt_optional_parens` wraps: everything follows from reading its inside -/
theorem good_of_inner {e : Expr} (hwrap : printE false e = tLp :: (printE true e ++ [tRp])) (hc : 3 ≤ cost e)
    (hin : ∀ f rest, cost e ≤ f + 2 → closes rest.head? = true →
      pExpr f (cl (printE true e) ++ rest) = some (norm e, rest)) : Good e := by
  have hT : ∀ f rest, cost e ≤ f + 1 → pTerm f (cl (printE false e) ++ rest) = some (norm e, rest) := by
    intro f rest hf
    obtain ⟨f', rfl⟩ : ∃ f', f = f' + 1 := ⟨f - 1, by omega⟩
    have h := hin f' (.rp :: rest) (by omega) rfl
    simp [hwrap, pTerm, h]
  refine ⟨?_, fun _ f rest hf _ => hT f rest (by omega), fun f rest hf hc => hin f rest (by omega) hc,
    ⟨.lp, _, by rw [hwrap]; rfl, rfl⟩⟩
  intro f rest hf _
  obtain ⟨f', rfl⟩ : ∃ f', f = f' + 1 := ⟨f - 1, by omega⟩
  have := hT f' rest (by omega)
  rw [hwrap] at this ⊢
  simp only [List.map_cons, cl_lp, List.cons_append] at this ⊢
  rw [pUnary_of_nonprefix f' .lp _ (by simp) (by simp) (by simp)]
  exact this

theorem pLevel_step {f k : Nat} {toks r : List PTok} {a : Expr} (hk : ¬ 10 ≤ k)
    (h : pLevel f (k + 1) toks = some (a, r)) : pLevel (f + 1) k toks = pLoop f k a r := by
  simp only [pLevel, hk, if_false, h]

theorem pLoop_step_op {f k : Nat} {a b : Expr} {op : BinOp} {r r2 : List PTok} (h : op.level = k)
    (h2 : pLevel f (k + 1) r = some (b, r2)) :
    pLoop (f + 1) k a (.op op :: r) = pLoop f k (.binop a op b) r2 := by
  simp [pLoop, binOpOf, h, h2]

theorem BinOp.level_le (op : BinOp) : op.level ≤ 9 := by cases op <;> simp [BinOp.level]

theorem good_binop {a b : Expr} (op : BinOp) (ha : Good a) (hb : Good b) : Good (.binop a op b) := by
  refine good_of_inner (by simp [printE, wrap]) (by simp [cost]) ?_
  intro f rest hf hc
  obtain ⟨hst, hbo, hq, hcol, _⟩ := closes_spec hc
  have hL := BinOp.level_le op
  simp only [cost] at hf
  -- tier of the operator
  have base : ∀ g, max (cost a) (cost b) + 13 - op.level ≤ g →
      pLevel g op.level (cl (printE false a) ++ (.op op :: (cl (printE false b) ++ rest))) =
        some (.binop (norm a) op (norm b), rest) := by
    intro g hg
    obtain ⟨g', rfl⟩ : ∃ g', g = g' + 3 := ⟨g - 3, by omega⟩
    have h10 : ¬ 10 ≤ op.level := by omega
    have h1 := ha.level (op.level + 1) (by omega) (g' + 2) (.op op :: (cl (printE false b) ++ rest)) (by omega)
      rfl (fun op' hop' => by simp [binOpOf] at hop'; subst hop'; omega)
    have h2 := hb.level (op.level + 1) (by omega) (g' + 1) rest (by omega) hst
      (fun op' hop' => by rw [hbo] at hop'; cases hop')
    have h3 := pLoop_stop g' op.level (.binop (norm a) op (norm b)) rest
      (fun op' hop' => by rw [hbo] at hop'; cases hop')
    rw [pLevel_step h10 h1, pLoop_step_op rfl h2]
    exact h3
  obtain ⟨f', rfl⟩ : ∃ f', f = f' + 1 := ⟨f - 1, by omega⟩
  have h0 := pLevel_lift (k0 := op.level) (by omega) (by omega) base hbo op.level 0 (by omega) f' (by omega)
  have := pExpr_of_level h0 hq hcol
  simpa [printE, wrap, norm] using this

theorem pTernRhs_good {x : Expr} (hx : Good x) (g : Nat) (rest : List PTok) (hg : cost x + 12 ≤ g)
    (hst : stopsTerm rest.head? = true) (hbo : binOpOf rest.head? = none) (hq : rest.head? ≠ some .quest) :
    pTernRhs g (cl (printE false x) ++ rest) = some (norm x, rest) := by
  obtain ⟨g', rfl⟩ : ∃ g', g = g' + 1 := ⟨g - 1, by omega⟩
  exact pTernRhs_of_level (hx.level 0 (by omega) g' rest (by omega) hst (fun op hop => by rw [hbo] at hop; cases hop)) hq

theorem good_ternary {c l r : Expr} (hc : Good c) (hl : Good l) (hr : Good r) : Good (.ternary c l r) := by
  refine good_of_inner (by simp [printE, wrap]) (by simp [cost]) ?_
  intro f rest hf hcl
  obtain ⟨hst, hbo, hq, hcol, _⟩ := closes_spec hcl
  simp only [cost] at hf
  obtain ⟨f', rfl⟩ : ∃ f', f = f' + 1 := ⟨f - 1, by omega⟩
  have h1 := hc.level 0 (by omega) f' (.quest :: (cl (printE false l) ++ (.colon :: (cl (printE false r) ++ rest))))
    (by omega) rfl (fun op hop => by simp [binOpOf] at hop)
  have h2 := pTernRhs_good hl f' (.colon :: (cl (printE false r) ++ rest)) (by omega) rfl rfl (by simp)
  have h3 := pTernRhs_good hr f' rest (by omega) hst hbo hq
  simp [printE, wrap, norm, pExpr, h1, h2, h3]

/-- the three operators written in front of their operand -/
theorem prefix_tok (op : UnOp) (hp : op.isPrefix = true) :
    ∃ pt, classify op.tok = pt ∧ startsExpr (some pt) = true ∧
      ∀ g r x r2, pTerm g r = some (x, r2) → pUnary (g + 1) (pt :: r) = some (.unop op x, r2) := by
  cases op with
  | neg => exact ⟨.op .sub, by decide, rfl, fun g r x r2 h => by simp [pUnary, h]⟩
  | not => exact ⟨.bang, by decide, rfl, fun g r x r2 h => by simp [pUnary, h]⟩
  | bitNot => exact ⟨.tilde, by decide, rfl, fun g r x r2 h => by simp [pUnary, h]⟩
  | _ => exact absurd hp (by decide)

theorem good_prefix {x : Expr} (op : UnOp) (hp : op.isPrefix = true) (hx : Good x) (hneg : negLit x = false) :
    Good (.unop op x) := by
  obtain ⟨pt, hpt, _, hun⟩ := prefix_tok op hp
  refine good_of_inner (by simp [printE, hp, wrap]) (by simp [cost]) ?_
  intro f rest hf hcl
  obtain ⟨hst, hbo, hq, hcol, _⟩ := closes_spec hcl
  simp only [cost] at hf
  obtain ⟨f', rfl⟩ : ∃ f', f = f' + 1 := ⟨f - 1, by omega⟩
  have hU : ∀ g, cost x + 1 ≤ g → pUnary g ((pt :: cl (printE false x)) ++ rest) = some (.unop op (norm x), rest) := by
    intro g hg
    obtain ⟨g', rfl⟩ : ∃ g', g = g' + 1 := ⟨g - 1, by omega⟩
    rw [List.cons_append]
    exact hun _ _ _ _ (hx.term hneg g' rest (by omega) hst)
  have h0 := pLevel_of_unary hU 10 0 (by omega) (fun op' hop' => by rw [hbo] at hop'; cases hop') f' (by omega)
  have := pExpr_of_level h0 hq hcol
  simpa [printE, hp, wrap, norm, hpt] using this

theorem good_func {x : Expr} (u : UnOp) (hp : u.isPrefix = false) (hx : Good x) : Good (.unop u x) := by
  have hpr : printE false (.unop u x) = u.tok :: tLp :: (printE true x ++ [tRp]) := by simp [printE, hp]
  have hT : ∀ f rest, cost (.unop u x) ≤ f + 1 → pTerm f (cl (printE false (.unop u x)) ++ rest) = some (norm (.unop u x), rest) := by
    intro f rest hf
    simp only [cost] at hf
    obtain ⟨f', rfl⟩ : ∃ f', f = f' + 1 := ⟨f - 1, by omega⟩
    have h := hx.inner f' (.rp :: rest) (by omega) rfl
    rcases cl_unop_func u hp with hc | ⟨rfl, hc⟩ | ⟨rfl, hc⟩ <;> simp [hpr, hc, pTerm, h, norm]
  refine good_of_term (by simp [printE, hp]) (by simp [cost]) (fun f rest hf _ => hT f rest hf) ?_
  rcases cl_unop_func u hp with hc | ⟨rfl, hc⟩ | ⟨rfl, hc⟩
  · exact ⟨.func u, _, by rw [hpr, List.map_cons, hc], rfl, by simp, by simp, by simp⟩
  · exact ⟨.dollar, _, by rw [hpr, List.map_cons, hc], rfl, by simp, by simp, by simp⟩
  · exact ⟨.op .rem, _, by rw [hpr, List.map_cons, hc], rfl, by simp, by simp, by simp⟩


/-! ## calls -/

theorem startsExpr_ne {t : PTok} (h : startsExpr (some t) = true) :
    t ≠ .rp ∧ t ≠ .at ∧ t ≠ .colon ∧ t ≠ .comma ∧ t ≠ .quest := by
  cases t <;> simp_all [startsExpr]

/-- the plain arguments of a call, up to and including the closing parenthesis -/
def ArgsOK (as : Exprs) : Prop :=
  ∀ f rest, costAs as ≤ f →
    pItems f (cl (printArgs as) ++ .rp :: rest) = some ((.nil, normAs as), rest)

/-- pseudo-arguments followed by plain arguments -/
def ItemsOK (ps : Pseudos) (as : Exprs) : Prop :=
  ∀ f rest, costPs ps (costAs as) ≤ f →
    pItems f (cl (printItems ps as.isNil (printArgs as)) ++ .rp :: rest) = some ((normPs ps, normAs as), rest)

theorem argsOK_nil : ArgsOK .nil := by
  intro f rest hf
  simp only [costAs] at hf
  obtain ⟨f', rfl⟩ : ∃ f', f = f' + 1 := ⟨f - 1, by omega⟩
  simp [printArgs, pItems, normAs]

theorem argsOK_cons {e : Expr} {es : Exprs} (he : Good e) (hes : ArgsOK es) : ArgsOK (.cons e es) := by
  intro f rest hf
  simp only [costAs] at hf
  obtain ⟨f', rfl⟩ : ∃ f', f = f' + 1 := ⟨f - 1, by omega⟩
  obtain ⟨t, r, htr, hs⟩ := he.head
  obtain ⟨n1, n2, _, _, _⟩ := startsExpr_ne hs
  cases es with
  | nil =>
    have hE := he.exprF f' (.rp :: rest) (by omega) rfl
    have hhead : (cl (printE false e) ++ .rp :: rest).head? = some t := by rw [htr]; rfl
    simp only [printArgs, Exprs.isNil, if_true, List.append_nil, normAs]
    simp only [pItems, hhead, hE]
    simp [n1, n2]
  | cons e' es' =>
    have hE := he.exprF f' (.comma :: (cl (printArgs (.cons e' es')) ++ .rp :: rest)) (by omega) rfl
    have hR := hes f' rest (by omega)
    have hhead : (cl (printE false e) ++ .comma :: (cl (printArgs (.cons e' es')) ++ .rp :: rest)).head? = some t := by
      rw [htr]; rfl
    have hform : cl (printArgs (.cons e (.cons e' es'))) ++ .rp :: rest =
        cl (printE false e) ++ .comma :: (cl (printArgs (.cons e' es')) ++ .rp :: rest) := by
      simp [printArgs, Exprs.isNil]
    rw [hform]
    simp only [pItems, hhead, hE]
    simp [n1, n2, hR, Pseudos.isNil, normAs]

theorem itemsOK_nil {as : Exprs} (ha : ArgsOK as) : ItemsOK .nil as := by
  intro f rest hf
  simpa [printItems, normPs] using ha f rest (by simpa [costPs] using hf)

theorem itemsOK_cons {k : PseudoKind} {e : Expr} {ps : Pseudos} {as : Exprs} (he : Good e)
    (hps : ItemsOK ps as) : ItemsOK (.cons k e ps) as := by
  intro f rest hf
  simp only [costPs] at hf
  obtain ⟨f', rfl⟩ : ∃ f', f = f' + 1 := ⟨f - 1, by omega⟩
  have hR := hps f' rest (by omega)
  by_cases hlast : (ps.isNil && as.isNil) = true
  · -- the last item
    have hps' : ps = .nil := by cases ps <;> simp_all [Pseudos.isNil]
    have has' : as = .nil := by cases as <;> simp_all [Exprs.isNil]
    subst hps'; subst has'
    have hE := he.exprF f' (.rp :: rest) (by omega) rfl
    have hform : cl (printItems (.cons k e .nil) Exprs.nil.isNil (printArgs .nil)) ++ .rp :: rest =
        .at :: .ident k.text :: .assign :: (cl (printE false e) ++ .rp :: rest) := by
      simp [printItems, printArgs, Pseudos.isNil, Exprs.isNil]
    rw [hform]
    simp [pItems, hE, normPs, normAs]
  · have hE := he.exprF f' (.comma :: (cl (printItems ps as.isNil (printArgs as)) ++ .rp :: rest)) (by omega) rfl
    have hform : cl (printItems (.cons k e ps) as.isNil (printArgs as)) ++ .rp :: rest =
        .at :: .ident k.text :: .assign :: (cl (printE false e) ++
          .comma :: (cl (printItems ps as.isNil (printArgs as)) ++ .rp :: rest)) := by
      simp [printItems, hlast]
    rw [hform]
    simp [pItems, hE, hR, normPs]

theorem natDigits10_canon (n : Nat) (hn : 1 ≤ n) :
    ∃ c r, natDigits 10 n = c :: r ∧ isDigit c = true ∧ c ≠ '0' ∧ r.all isDigit = true := by
  induction n using Nat.strongRecOn with
  | _ n ih =>
    by_cases hlt : n < 10
    · have key : ∀ d, d < 10 → 1 ≤ d → isDigit (digitChar d) = true ∧ digitChar d ≠ '0' := by decide
      exact ⟨digitChar n, [], natDigits_lt hlt, (key n hlt hn).1, (key n hlt hn).2, rfl⟩
    · obtain ⟨c, r, hcr, h1, h2, h3⟩ := ih (n / 10) (Nat.div_lt_self (by omega) (by omega)) (by omega)
      refine ⟨c, r ++ [digitChar (n % 10)], ?_, h1, h2, ?_⟩
      · rw [natDigits_ge (by omega) (by omega), hcr]; rfl
      · simp [h3, isDigit_digitChar (n % 10) (Nat.mod_lt _ (by omega))]

theorem insOpcode_natDigits (n : Nat) (hn : n < 65536) : insOpcode (natDigits 10 n) = some n := by
  have hp := parseDigits_natDigits (b := 10) (by omega) (by omega) n []
  simp only [List.append_nil, parseDigitsFrom] at hp
  have hc : isCanonicalInt (natDigits 10 n) = true := by
    by_cases h0 : n = 0
    · subst h0; decide
    · obtain ⟨c, r, hcr, h1, h2, h3⟩ := natDigits10_canon n (by omega)
      rw [hcr]
      unfold isCanonicalInt
      split
      · simp at *
      · rename_i heq; simp at heq; exact absurd heq.1 h2
      · rename_i c' r' _ heq
        simp at heq
        obtain ⟨rfl, rfl⟩ := heq
        simp [h1, h2, h3]
  simp [insOpcode, hc, hp, hn]

theorem good_call {name : CallName} {ps : Pseudos} {as : Exprs} (hname : name.ok = true)
    (hitems : ItemsOK ps as) : Good (.call name ps as) := by
  have hT : ∀ f rest, cost (.call name ps as) ≤ f + 1 →
      pTerm f (cl (printE false (.call name ps as)) ++ rest) = some (norm (.call name ps as), rest) := by
    intro f rest hf
    simp only [cost] at hf
    obtain ⟨f', rfl⟩ : ∃ f', f = f' + 1 := ⟨f - 1, by omega⟩
    have hI := hitems f' rest (by omega)
    cases name with
    | normal id =>
      have hid : identOK id = true := by simpa [CallName.ok] using hname
      simp [printE, CallName.tok, cl_ident hid, pTerm, hI, norm]
    | ins n =>
      have hn : n < 65536 := by simpa [CallName.ok] using hname
      simp [printE, CallName.tok, cl_ins, pTerm, insOpcode_natDigits n hn, hI, norm]
  refine good_of_term (by simp [printE]) (by simp [cost]) (fun f rest hf _ => hT f rest hf) ?_
  cases name with
  | normal id =>
    have hid : identOK id = true := by simpa [CallName.ok] using hname
    exact ⟨.ident id, _, by simp [printE, CallName.tok, cl_ident hid]; rfl, rfl, by simp, by simp, by simp⟩
  | ins n => exact ⟨.ins (natDigits 10 n), _, by simp [printE, CallName.tok, cl_ins]; rfl, rfl, by simp, by simp, by simp⟩

/-! ## difficulty switches -/

def CasesOK (cs : Cases) : Prop :=
  ∀ f rest, costCs cs ≤ f → closes rest.head? = true →
    pSwitch f (cl (printCasesT cs) ++ rest) = some (normCs cs, rest)

theorem casesT_head (cs : Cases) (rest : List PTok) :
    (cl (printCasesT cs) ++ rest).head? = if cs.isNil then rest.head? else some .colon := by
  cases cs <;> simp [printCasesT, Cases.isNil]

theorem casesT_head_stops (cs : Cases) (rest : List PTok) (hc : closes rest.head? = true) :
    stopsTerm (cl (printCasesT cs) ++ rest).head? = true ∧ binOpOf (cl (printCasesT cs) ++ rest).head? = none ∧
      startsExpr (cl (printCasesT cs) ++ rest).head? = false ∧ (cl (printCasesT cs) ++ rest).head? ≠ some .quest := by
  obtain ⟨h1, h2, h3, _, h5⟩ := closes_spec hc
  rw [casesT_head]
  split
  · exact ⟨h1, h2, h5, h3⟩
  · exact ⟨rfl, rfl, rfl, by simp⟩

theorem casesOK_nil : CasesOK .nil := by
  intro f rest hf hc
  obtain ⟨_, _, _, hcol, _⟩ := closes_spec hc
  simp only [costCs] at hf
  obtain ⟨f', rfl⟩ : ∃ f', f = f' + 1 := ⟨f - 1, by omega⟩
  simp [printCasesT, pSwitch, hcol, normCs]

theorem casesOK_blank {cs : Cases} (h : CasesOK cs) : CasesOK (.blank cs) := by
  intro f rest hf hc
  simp only [costCs] at hf
  obtain ⟨f', rfl⟩ : ∃ f', f = f' + 1 := ⟨f - 1, by omega⟩
  obtain ⟨_, _, hs, _⟩ := casesT_head_stops cs rest hc
  have hR := h f' rest (by omega) hc
  have hform : cl (printCasesT (.blank cs)) ++ rest = .colon :: (cl (printCasesT cs) ++ rest) := by
    simp [printCasesT]
  rw [hform]
  simp only [pSwitch, List.head?_cons, List.tail_cons, hs, hR, ↓reduceIte, Bool.false_eq_true, normCs]

theorem casesOK_some {e : Expr} {cs : Cases} (he : Good e) (h : CasesOK cs) : CasesOK (.some e cs) := by
  intro f rest hf hc
  simp only [costCs] at hf
  obtain ⟨f', rfl⟩ : ∃ f', f = f' + 1 := ⟨f - 1, by omega⟩
  obtain ⟨hst, hbo, _, _⟩ := casesT_head_stops cs rest hc
  obtain ⟨t, r, htr, hs⟩ := he.head
  have hR := h f' rest (by omega) hc
  have hL := he.level 0 (by omega) f' (cl (printCasesT cs) ++ rest) (by omega) hst
    (fun op hop => by rw [hbo] at hop; cases hop)
  have hhead : (cl (printE false e) ++ (cl (printCasesT cs) ++ rest)).head? = some t := by rw [htr]; rfl
  have hform : cl (printCasesT (.some e cs)) ++ rest = .colon :: (cl (printE false e) ++ (cl (printCasesT cs) ++ rest)) := by
    simp [printCasesT]
  rw [hform]
  simp [pSwitch, hhead, hs, hL, hR, normCs]

theorem good_switch {e : Expr} {cs : Cases} (he : Good e) (hne : cs.isNil = false) (hcs : CasesOK cs) :
    Good (.diffSwitch (.some e cs)) := by
  refine good_of_inner (by simp [printE, wrap]) (by simp [cost, costCs]) ?_
  intro f rest hf hc
  simp only [cost, costCs] at hf
  obtain ⟨f', rfl⟩ : ∃ f', f = f' + 1 := ⟨f - 1, by omega⟩
  obtain ⟨hst, hbo, _, hq⟩ := casesT_head_stops cs rest hc
  have hcolon : (cl (printCasesT cs) ++ rest).head? = some .colon := by rw [casesT_head]; simp [hne]
  have hL := he.level 0 (by omega) f' (cl (printCasesT cs) ++ rest) (by omega) hst
    (fun op hop => by rw [hbo] at hop; cases hop)
  have hR := hcs f' rest (by omega) hc
  have hform : cl (printE true (.diffSwitch (.some e cs))) ++ rest =
      cl (printE false e) ++ (cl (printCasesT cs) ++ rest) := by
    simp [printE, printCases, wrap]
  rw [hform]
  simp only [pExpr, hL, hcolon, hR, norm, normCs]
  simp


/-! ## the induction -/

theorem negLit_of_startsMinus {x : Expr} (h : startsMinus x = false) : negLit x = false := by
  cases x <;> simp_all [startsMinus, negLit]
  all_goals (rename_i pre inc v; cases pre <;> cases inc <;> simp_all [startsMinus, negLit])

theorem textOf_ts_numToks_neg (r : List Char) : textOf (ts (numToks ('-' :: r))) = '-' :: r := by
  simp [numToks, ts, textOf, EP.chars, tokChars, tMinus]

/-- a negative number starts with `-`, a difficulty character -/
theorem startsDiffChar_of_negLit {x : Expr} (h : negLit x = true) : startsDiffChar x = true := by
  cases x with
  | litInt v f =>
    have hh : (printInt f v).head? = some '-' := by simpa [negLit] using h
    cases hp : printInt f v with
    | nil => rw [hp] at hh; simp at hh
    | cons c t =>
      rw [hp] at hh
      simp only [List.head?_cons, Option.some.injEq] at hh
      subst hh
      simp [startsDiffChar, firstChar, printText, printP, hp, textOf_ts_numToks_neg]
      decide
  | litFloat neg b =>
    cases b <;> cases neg <;> simp_all [negLit]
    all_goals (simp [startsDiffChar, firstChar, printText, printP, floatToks, ts, textOf, EP.chars, tokChars, tMinus]; decide)
  | _ => simp [negLit] at h

mutual
theorem good : ∀ (e : Expr), NoGlue e = true → Good e
  | .ternary c l r, h => by
    simp only [NoGlue, Bool.and_eq_true] at h
    exact good_ternary (good c h.1.1) (good l h.1.2) (good r h.2)
  | .binop a op b, h => by
    simp only [NoGlue, Bool.and_eq_true] at h
    exact good_binop op (good a h.1) (good b h.2)
  | .unop op x, h => by
    simp only [NoGlue, Bool.and_eq_true] at h
    have hx := good x h.1
    cases op with
    | neg => exact good_prefix .neg rfl hx (negLit_of_startsMinus (by simpa using h.2))
    | bitNot => exact good_prefix .bitNot rfl hx (by simpa using h.2)
    | not =>
      refine good_prefix .not rfl hx ?_
      cases hn : negLit x with
      | false => rfl
      | true => have := startsDiffChar_of_negLit hn; simp [this] at h
    | sin => exact good_func .sin rfl hx
    | cos => exact good_func .cos rfl hx
    | tan => exact good_func .tan rfl hx
    | asin => exact good_func .asin rfl hx
    | acos => exact good_func .acos rfl hx
    | atan => exact good_func .atan rfl hx
    | sqrt => exact good_func .sqrt rfl hx
    | encI => exact good_func .encI rfl hx
    | encF => exact good_func .encF rfl hx
    | castI => exact good_func .castI rfl hx
    | castF => exact good_func .castF rfl hx
  | .xcrement pre inc v, h => good_xcrement pre inc v (by simpa [NoGlue] using h)
  | .var v, h => good_var v (by simpa [NoGlue] using h)
  | .call name ps as, h => by
    simp only [NoGlue, Bool.and_eq_true] at h
    exact good_call h.1.1 (goodPs ps h.1.2 as (goodAs as h.2))
  | .diffSwitch (.some e cs), h => by
    simp only [NoGlue, Bool.and_eq_true, Bool.not_eq_true'] at h
    exact good_switch (good e h.1.1) h.1.2 (goodCs cs h.2)
  | .diffSwitch .nil, h => by simp [NoGlue] at h
  | .diffSwitch (.blank _), h => by simp [NoGlue] at h
  | .litInt v f, _ => good_litInt v f
  | .litFloat neg b, _ => good_litFloat neg b
  | .litString s, _ => good_litString s
  | .labelProp kw l, h => good_labelProp kw l (by simpa [NoGlue] using h)
  | .enumConst en id, h => by
    simp only [NoGlue, Bool.and_eq_true] at h
    exact good_enumConst en id h.1 h.2
theorem goodAs : ∀ (as : Exprs), NoGlueAs as = true → ArgsOK as
  | .nil, _ => argsOK_nil
  | .cons e es, h => by
    simp only [NoGlueAs, Bool.and_eq_true] at h
    exact argsOK_cons (good e h.1) (goodAs es h.2)
theorem goodPs : ∀ (ps : Pseudos), NoGluePs ps = true → ∀ (as : Exprs), ArgsOK as → ItemsOK ps as
  | .nil, _, _, ha => itemsOK_nil ha
  | .cons k e ps, h, as, ha => by
    simp only [NoGluePs, Bool.and_eq_true] at h
    exact itemsOK_cons (good e h.1) (goodPs ps h.2 as ha)
theorem goodCs : ∀ (cs : Cases), NoGlueCs cs = true → CasesOK cs
  | .nil, _ => casesOK_nil
  | .blank cs, h => casesOK_blank (goodCs cs (by simpa [NoGlueCs] using h))
  | .some e cs, h => by
    simp only [NoGlueCs, Bool.and_eq_true] at h
    exact casesOK_some (good e h.1) (goodCs cs h.2)
end

/-! ## C08, expression layer: a printed expression parses back to the same tree -/

/-- with explicit fuel -/
theorem expr_print_parse_fuel (e : Expr) (h : NoGlue e = true) (fuel : Nat) (hf : cost e + 12 ≤ fuel) :
    parseToksFuel fuel (printExpr e) = some (norm e) := by
  have := (good e h).exprF fuel [] hf rfl
  simp only [List.append_nil] at this
  simp [parseToksFuel, printExpr, this]

/-- where the parentheses are suppressed (right-hand side of an assignment, `if (..)`, `sin(..)`) -/
theorem expr_print_parse_sup_fuel (e : Expr) (h : NoGlue e = true) (fuel : Nat) (hf : cost e + 12 ≤ fuel) :
    parseToksFuel fuel (printE true e) = some (norm e) := by
  have := (good e h).inner fuel [] hf rfl
  simp only [List.append_nil] at this
  simp [parseToksFuel, this]


/-- The same inside any context that closes the expression: `)`, `,`, `]`, `;` or the end of the
input (the interface for the statements that embed expressions: `x = e;`, `if (e)`, `f(e, ..)`,
`interrupt[e]:`), with or without `SuppressParens`. -/
theorem expr_print_parse_in_context (e : Expr) (h : NoGlue e = true) (sup : Bool) (fuel : Nat)
    (hf : cost e + 12 ≤ fuel) (rest : List PTok) (hc : closes rest.head? = true) :
    pExpr fuel (cl (printE sup e) ++ rest) = some (norm e, rest) := by
  cases sup
  · exact (good e h).exprF fuel rest hf hc
  · exact (good e h).inner fuel rest hf hc

/-! ## the fuel `parseExpr` supplies suffices -/

theorem numToks_len (s : List Char) : 1 ≤ (numToks s).length := by
  unfold numToks
  split
  · simp
  · split <;> simp

theorem varToks_len (v : Var) : 1 ≤ (varToks v).length := by
  obtain ⟨sg, nm⟩ := v
  cases nm <;> simp [varToks, nameToks, List.length_append] <;> omega

theorem floatToks_len (neg : Bool) (b : FloatBody) : 1 ≤ (floatToks neg b).length := by
  cases b <;> cases neg <;> simp [floatToks]

theorem cost_pos (e : Expr) : 4 ≤ cost e := by
  cases e <;> simp [cost] <;> omega

theorem len_true_le_false (e : Expr) : (printE true e).length ≤ (printE false e).length := by
  cases e <;> simp [printE, wrap]
  all_goals first | omega | (split <;> simp)

theorem casesT_len (cs : Cases) (h : cs.isNil = false) : 1 ≤ (printCasesT cs).length := by
  cases cs <;> simp_all [printCasesT, Cases.isNil]

mutual
theorem cost_le : ∀ (e : Expr), NoGlue e = true → cost e ≤ 40 * (printE true e).length
  | .ternary c l r, h => by
    simp only [NoGlue, Bool.and_eq_true] at h
    have h1 := cost_le c h.1.1; have h2 := cost_le l h.1.2; have h3 := cost_le r h.2
    have g1 := len_true_le_false c; have g2 := len_true_le_false l; have g3 := len_true_le_false r
    simp only [cost, printE, wrap, if_true, List.length_append, List.length_cons]
    omega
  | .binop a op b, h => by
    simp only [NoGlue, Bool.and_eq_true] at h
    have h1 := cost_le a h.1; have h2 := cost_le b h.2
    have g1 := len_true_le_false a; have g2 := len_true_le_false b
    simp only [cost, printE, wrap, if_true, List.length_append, List.length_cons]
    omega
  | .unop op x, h => by
    simp only [NoGlue, Bool.and_eq_true] at h
    have h1 := cost_le x h.1
    have g1 := len_true_le_false x
    simp only [cost, printE]
    split <;> simp only [wrap, if_true, List.length_append, List.length_cons, List.length_nil] <;> omega
  | .xcrement pre inc v, _ => by
    have := varToks_len v
    simp only [cost, printE]
    split <;> simp only [List.length_append, List.length_cons, List.length_nil] <;> omega
  | .var v, _ => by
    have := varToks_len v
    simp only [cost, printE]; omega
  | .call name ps as, h => by
    simp only [NoGlue, Bool.and_eq_true] at h
    have h1 := costPs_le ps h.1.2 as.isNil (printArgs as) (costAs as) (costAs_le as h.2)
    simp only [cost, printE, List.length_append, List.length_cons, List.length_nil]
    omega
  | .diffSwitch (.some e cs), h => by
    simp only [NoGlue, Bool.and_eq_true, Bool.not_eq_true'] at h
    have h1 := cost_le e h.1.1; have g1 := len_true_le_false e
    have h2 := costCs_le cs h.2
    have h3 := casesT_len cs h.1.2
    have h4 := cost_pos e
    simp only [cost, costCs, printE, printCases, wrap, if_true, List.length_append]
    omega
  | .diffSwitch .nil, h => by simp [NoGlue] at h
  | .diffSwitch (.blank _), h => by simp [NoGlue] at h
  | .litInt v f, _ => by
    have := numToks_len (printInt f v)
    simp only [cost, printE]; omega
  | .litFloat neg b, _ => by
    have := floatToks_len neg b
    simp only [cost, printE]; omega
  | .litString s, _ => by simp [cost, printE]
  | .labelProp kw l, _ => by simp [cost, printE]
  | .enumConst en id, _ => by simp [cost, printE]
theorem costAs_le : ∀ (as : Exprs), NoGlueAs as = true → costAs as ≤ 40 * (printArgs as).length + 21
  | .nil, _ => by simp [costAs]
  | .cons e es, h => by
    simp only [NoGlueAs, Bool.and_eq_true] at h
    have h1 := cost_le e h.1; have g1 := len_true_le_false e; have h4 := cost_pos e
    have h2 := costAs_le es h.2
    simp only [costAs, printArgs, List.length_append]
    omega
theorem costPs_le : ∀ (ps : Pseudos), NoGluePs ps = true → ∀ (b : Bool) (t : List Tok) (c : Nat),
    c ≤ 40 * t.length + 21 → costPs ps c ≤ 40 * (printItems ps b t).length + 21
  | .nil, _, _, _, _, hc => by simpa [costPs, printItems] using hc
  | .cons k e ps, h, b, t, c, hc => by
    simp only [NoGluePs, Bool.and_eq_true] at h
    have h1 := cost_le e h.1; have g1 := len_true_le_false e
    have h2 := costPs_le ps h.2 b t c hc
    simp only [costPs, printItems, List.length_append, List.length_cons]
    omega
theorem costCs_le : ∀ (cs : Cases), NoGlueCs cs = true → costCs cs ≤ 40 * (printCasesT cs).length + 1
  | .nil, _ => by simp [costCs]
  | .blank cs, h => by
    have h2 := costCs_le cs (by simpa [NoGlueCs] using h)
    simp only [costCs, printCasesT, List.length_cons]
    omega
  | .some e cs, h => by
    simp only [NoGlueCs, Bool.and_eq_true] at h
    have h1 := cost_le e h.1; have g1 := len_true_le_false e
    have h2 := costCs_le cs h.2
    simp only [costCs, printCasesT, List.length_append, List.length_cons]
    omega
end

theorem fuel_suffices (e : Expr) (h : NoGlue e = true) : cost e + 12 ≤ fuelFor (printExpr e) := by
  have h1 := cost_le e h
  have h2 := len_true_le_false e
  simp only [fuelFor, printExpr]
  omega

theorem fuel_suffices_sup (e : Expr) (h : NoGlue e = true) : cost e + 12 ≤ fuelFor (printE true e) := by
  have h1 := cost_le e h
  simp only [fuelFor]
  omega

/-- **C08, expressions: printed tokens parse back to the same tree.**  For every expression
without a glue site, the parser accepts the tokens the formatter writes and builds the same
expression up to `norm`: same operators with the same grouping (every nested operator comes back
under the same parent because the printer parenthesises it), same calls, arguments, switch cases
with the same holes, same variables, same literals. -/
theorem expr_print_parse (e : Expr) (h : NoGlue e = true) : parseExpr (printExpr e) = some (norm e) :=
  expr_print_parse_fuel e h _ (fuel_suffices e h)

/-- the same where `SuppressParens` is in effect (no outer parentheses are written) -/
theorem expr_print_parse_sup (e : Expr) (h : NoGlue e = true) : parseExpr (printE true e) = some (norm e) :=
  expr_print_parse_sup_fuel e h _ (fuel_suffices_sup e h)

/-! ## tokens and text -/

theorem toksOf_append (a b : List EP) : toksOf (a ++ b) = toksOf a ++ toksOf b := by
  induction a with
  | nil => rfl
  | cons x xs ih => cases x <;> simp [toksOf, ih]

theorem toksOf_ts (l : List Tok) : toksOf (ts l) = l := by
  induction l with
  | nil => rfl
  | cons x xs ih => simpa [ts, toksOf] using ih

theorem toksOf_wrapP (sup : Bool) (ps : List EP) : toksOf (wrapP sup ps) = wrap sup (toksOf ps) := by
  cases sup <;> simp [wrapP, wrap, toksOf, toksOf_append]

mutual
/-- the pieces with the white space removed are the tokens -/
theorem toksOf_printP : ∀ (e : Expr) (sup : Bool), toksOf (printP sup e) = printE sup e
  | .ternary c l r, sup => by
    simp [printP, printE, toksOf_wrapP, toksOf_append, toksOf, toksOf_printP c, toksOf_printP l, toksOf_printP r]
  | .binop a op b, sup => by
    simp [printP, printE, toksOf_wrapP, toksOf_append, toksOf, toksOf_printP a, toksOf_printP b]
  | .unop op x, sup => by
    simp only [printP, printE]
    split <;> simp [toksOf_wrapP, toksOf_append, toksOf, toksOf_printP x]
  | .xcrement pre inc v, sup => by simp [printP, printE, toksOf_ts]
  | .var v, sup => by simp [printP, printE, toksOf_ts]
  | .call name ps as, sup => by
    simp [printP, printE, toksOf, toksOf_append, toksOf_printItemsP ps as.isNil _ _ (toksOf_printArgsP as)]
  | .diffSwitch cs, sup => by
    simp only [printP, printE, toksOf_wrapP, toksOf_append, toksOf_printCasesP cs]
    split <;> split <;> simp [toksOf]
  | .litInt v f, sup => by simp [printP, printE, toksOf_ts]
  | .litFloat neg b, sup => by simp [printP, printE, toksOf_ts]
  | .litString s, sup => by simp [printP, printE, toksOf]
  | .labelProp kw l, sup => by simp [printP, printE, toksOf_ts]
  | .enumConst en id, sup => by simp [printP, printE, toksOf_ts]
theorem toksOf_printItemsP : ∀ (ps : Pseudos) (b : Bool) (tp : List EP) (t : List Tok), toksOf tp = t →
    toksOf (printItemsP ps b tp) = printItems ps b t
  | .nil, _, _, _, h => by simpa [printItemsP, printItems] using h
  | .cons k e ps, b, tp, t, h => by
    simp only [printItemsP, printItems, toksOf, toksOf_append, toksOf_printP e, toksOf_printItemsP ps b tp t h]
    split <;> simp [toksOf]
theorem toksOf_printArgsP : ∀ (as : Exprs), toksOf (printArgsP as) = printArgs as
  | .nil => rfl
  | .cons e es => by
    simp only [printArgsP, printArgs, toksOf_append, toksOf_printP e, toksOf_printArgsP es]
    split <;> simp [toksOf]
theorem toksOf_printCasesP : ∀ (cs : Cases), toksOf (printCasesP cs) = printCases cs
  | .nil => rfl
  | .blank cs => by simp [printCasesP, printCases, toksOf_printCasesTP cs]
  | .some e cs => by simp [printCasesP, printCases, toksOf_append, toksOf_printP e, toksOf_printCasesTP cs]
theorem toksOf_printCasesTP : ∀ (cs : Cases), toksOf (printCasesTP cs) = printCasesT cs
  | .nil => rfl
  | .blank cs => by simp [printCasesTP, printCasesT, toksOf, toksOf_printCasesTP cs]
  | .some e cs => by simp [printCasesTP, printCasesT, toksOf, toksOf_append, toksOf_printP e, toksOf_printCasesTP cs]
end

/-- The joined text lexes to the tokens that were written.  This is what fails at a glue site;
the correspondence check evaluates it on every generated expression. -/
def LexOK (e : Expr) : Prop := lex (printText e) = (printExpr e, .eof)

instance (e : Expr) : Decidable (LexOK e) := by unfold LexOK; exact inferInstance

/-- **C08, expressions, on text**: when the written tokens survive the lexer, the printed text
parses back to the same tree. -/
theorem expr_print_parse_text (e : Expr) (h : NoGlue e = true) (hl : LexOK e) :
    parseText (printText e) = some (norm e) := by
  unfold parseText
  rw [hl]
  exact expr_print_parse e h


/-! ## printing again -/

/- `HintFree`: every integer literal carries the format the parser assigns (`SIGNED`): the radix
of a decompiled literal is a hint that the text does not carry -/
mutual
def HintFree : Expr → Bool
  | .ternary c l r => HintFree c && HintFree l && HintFree r
  | .binop a _ b => HintFree a && HintFree b
  | .unop _ x => HintFree x
  | .call _ ps as => HintFreePs ps && HintFreeAs as
  | .diffSwitch cs => HintFreeCs cs
  | .litInt _ f => f == signedDec
  | _ => true
def HintFreePs : Pseudos → Bool
  | .nil => true
  | .cons _ e ps => HintFree e && HintFreePs ps
def HintFreeAs : Exprs → Bool
  | .nil => true
  | .cons e es => HintFree e && HintFreeAs es
def HintFreeCs : Cases → Bool
  | .nil => true
  | .blank cs => HintFreeCs cs
  | .some e cs => HintFree e && HintFreeCs cs
end

theorem normInt_signedDec (v : Int32) (h : (printInt signedDec v).head? ≠ some '-') :
    normInt v signedDec = .litInt v signedDec := by
  have hn : ¬ v.toInt < 0 := by
    intro hv
    exact h ((printInt_head_minus_iff signedDec v).mpr ⟨rfl, hv⟩)
  simp [normInt, signedDec, hn]

mutual
theorem print_norm : ∀ (e : Expr) (sup : Bool), NoNegLit e = true → HintFree e = true →
    printE sup (norm e) = printE sup e
  | .ternary c l r, sup, h, g => by
    simp only [NoNegLit, HintFree, Bool.and_eq_true] at h g
    simp [norm, printE, print_norm c false h.1.1 g.1.1, print_norm l false h.1.2 g.1.2, print_norm r false h.2 g.2]
  | .binop a op b, sup, h, g => by
    simp only [NoNegLit, HintFree, Bool.and_eq_true] at h g
    simp [norm, printE, print_norm a false h.1 g.1, print_norm b false h.2 g.2]
  | .unop op x, sup, h, g => by
    simp only [NoNegLit, HintFree] at h g
    simp [norm, printE, print_norm x false h g, print_norm x true h g]
  | .xcrement pre inc v, sup, _, _ => rfl
  | .var v, sup, _, _ => rfl
  | .call name ps as, sup, h, g => by
    simp only [NoNegLit, HintFree, Bool.and_eq_true] at h g
    have h1 := print_normAs as h.2 g.2
    have h2 := print_normPs ps h.1 g.1 (normAs as).isNil (printArgs (normAs as))
    have h3 : (normAs as).isNil = as.isNil := by cases as <;> rfl
    simp only [norm, printE, h2]
    rw [h1, h3]
  | .diffSwitch cs, sup, h, g => by
    simp only [NoNegLit, HintFree] at h g
    have h1 := print_normCs cs h g
    have h2 := print_normCsT cs h g
    cases cs <;> simp_all [norm, normCs, printE, printCases]
  | .litInt v f, sup, h, g => by
    have hf : f = signedDec := by simpa [HintFree] using g
    subst hf
    have hh : (printInt signedDec v).head? ≠ some '-' := by simpa [NoNegLit, negLit] using h
    simp [norm, normInt_signedDec v hh]
  | .litFloat neg b, sup, h, _ => by
    cases b <;> cases neg <;> simp_all [NoNegLit, negLit, norm, normFloat, wrapNeg, printE, floatToks, varToks, sigilToks, nameToks]
  | .litString s, sup, _, _ => rfl
  | .labelProp kw l, sup, _, _ => rfl
  | .enumConst en id, sup, _, _ => rfl
theorem print_normPs : ∀ (ps : Pseudos), NoNegLitPs ps = true → HintFreePs ps = true → ∀ (b : Bool) (t : List Tok),
    printItems (normPs ps) b t = printItems ps b t
  | .nil, _, _, _, _ => rfl
  | .cons k e ps, h, g, b, t => by
    simp only [NoNegLitPs, HintFreePs, Bool.and_eq_true] at h g
    have h3 : (normPs ps).isNil = ps.isNil := by cases ps <;> rfl
    simp [normPs, printItems, print_norm e false h.1 g.1, print_normPs ps h.2 g.2 b t, h3]
theorem print_normAs : ∀ (as : Exprs), NoNegLitAs as = true → HintFreeAs as = true →
    printArgs (normAs as) = printArgs as
  | .nil, _, _ => rfl
  | .cons e es, h, g => by
    simp only [NoNegLitAs, HintFreeAs, Bool.and_eq_true] at h g
    have h3 : (normAs es).isNil = es.isNil := by cases es <;> rfl
    simp [normAs, printArgs, print_norm e false h.1 g.1, print_normAs es h.2 g.2, h3]
theorem print_normCs : ∀ (cs : Cases), NoNegLitCs cs = true → HintFreeCs cs = true →
    printCases (normCs cs) = printCases cs
  | .nil, _, _ => rfl
  | .blank cs, h, g => by
    simp only [NoNegLitCs, HintFreeCs] at h g
    simp [normCs, printCases, print_normCsT cs h g]
  | .some e cs, h, g => by
    simp only [NoNegLitCs, HintFreeCs, Bool.and_eq_true] at h g
    simp [normCs, printCases, print_norm e false h.1 g.1, print_normCsT cs h.2 g.2]
theorem print_normCsT : ∀ (cs : Cases), NoNegLitCs cs = true → HintFreeCs cs = true →
    printCasesT (normCs cs) = printCasesT cs
  | .nil, _, _ => rfl
  | .blank cs, h, g => by
    simp only [NoNegLitCs, HintFreeCs] at h g
    simp [normCs, printCasesT, print_normCsT cs h g]
  | .some e cs, h, g => by
    simp only [NoNegLitCs, HintFreeCs, Bool.and_eq_true] at h g
    simp [normCs, printCasesT, print_norm e false h.1 g.1, print_normCsT cs h.2 g.2]
end

/-- **C08, expressions: printing the re-parsed expression gives the same tokens again**, for
expressions whose literals print without a sign and carry no radix hint (what the parser builds
from text without `-` glued literals). -/
theorem expr_print_idempotent (e : Expr) (h : NoNegLit e = true) (g : HintFree e = true) :
    printExpr (norm e) = printExpr e := print_norm e false h g

/-- print, parse, print: the text of the second print equals the first, and it parses again to
the same tree -/
theorem expr_print_parse_print (e : Expr) (hg : NoGlue e = true) (h : NoNegLit e = true) (g : HintFree e = true) :
    ∃ e', parseExpr (printExpr e) = some e' ∧ printExpr e' = printExpr e ∧ parseExpr (printExpr e') = some e' := by
  refine ⟨norm e, expr_print_parse e hg, expr_print_idempotent e h g, ?_⟩
  rw [expr_print_idempotent e h g]
  exact expr_print_parse e hg




/-! ## layout of expressions: the width changes only white space and trailing commas -/

theorem ess_xw (st : LSt) (p : Piece) : ess (xw st p).out = ess st.out ++ ess [p] := by
  unfold xw
  split <;> simp [ess]

mutual
theorem xinl_ess (tw : Nat) : ∀ (d : XDoc) (st st' : LSt), xinl tw d st = some st' →
    ess st'.out = ess st.out ++ d.toks
  | .tok k, st, st', h => by
    simp only [xinl, Option.some.injEq] at h
    subst h
    simp [ess_xw, ess_tok, XDoc.toks]
  | .sp, st, st', h => by
    simp only [xinl, Option.some.injEq] at h
    subst h
    simp [ess_xw, ess_space, XDoc.toks]
  | .args items, st, st', h => by
    simp only [xinl] at h
    split at h
    · simp at h
    · rename_i st1 h1
      have ih := xinlItems_ess tw items true _ _ h1
      split at h
      · simp at h
      · simp only [Option.some.injEq] at h
        subst h
        simp [ess_xw, ess_tok, ih, XDoc.toks]
  | .seq ds, st, st', h => by
    simp only [xinl] at h
    simpa [XDoc.toks] using xinlSeq_ess tw ds st st' h
theorem xinlItems_ess (tw : Nat) : ∀ (ds : XDocs) (first : Bool) (st st' : LSt), xinlItems tw ds first st = some st' →
    ess st'.out = ess st.out ++ ds.toksItems first
  | .nil, first, st, st', h => by
    simp only [xinlItems, Option.some.injEq] at h
    subst h
    simp [XDocs.toksItems]
  | .cons d ds, first, st, st', h => by
    simp only [xinlItems] at h
    split at h
    · simp at h
    · rename_i st1 h1
      have ih1 := xinl_ess tw d _ _ h1
      split at h
      · simp at h
      · have ih2 := xinlItems_ess tw ds false _ _ h
        rw [ih2, ih1]
        cases first <;> simp [ess_xw, ess_comma, ess_space, XDocs.toksItems]
theorem xinlSeq_ess (tw : Nat) : ∀ (ds : XDocs) (st st' : LSt), xinlSeq tw ds st = some st' →
    ess st'.out = ess st.out ++ ds.toksSeq
  | .nil, st, st', h => by
    simp only [xinlSeq, Option.some.injEq] at h
    subst h
    simp [XDocs.toksSeq]
  | .cons d ds, st, st', h => by
    simp only [xinlSeq] at h
    split at h
    · simp at h
    · rename_i st1 h1
      have ih1 := xinl_ess tw d _ _ h1
      have ih2 := xinlSeq_ess tw ds _ _ h
      rw [ih2, ih1]
      simp [XDocs.toksSeq]
end

/-- the items with the separators written the way the block style writes them -/
def xtoksSep : XDocs → List Piece
  | .nil => []
  | .cons d ds => d.toks ++ (if ds.isNil then [] else [.comma]) ++ xtoksSep ds

theorem xtoks_eq_toksSep : ∀ (ds : XDocs),
    ds.toksItems true = xtoksSep ds ∧ ds.toksItems false = (if ds.isNil then [] else .comma :: xtoksSep ds)
  | .nil => by simp [XDocs.toksItems, xtoksSep, XDocs.isNil]
  | .cons d .nil => by simp [XDocs.toksItems, xtoksSep, XDocs.isNil]
  | .cons d (.cons d' ds') => by
    have ih := xtoks_eq_toksSep (.cons d' ds')
    have h2 : (XDocs.cons d' ds').toksItems false = .comma :: xtoksSep (.cons d' ds') := by simpa [XDocs.isNil] using ih.2
    constructor
    · rw [xtoksSep, XDocs.toksItems, h2]; simp [XDocs.isNil]
    · rw [xtoksSep, XDocs.toksItems, h2]; simp [XDocs.isNil]

mutual
theorem xblk_ess (tw : Nat) : ∀ (d : XDoc) (st : LSt), ess (xblk tw d st).out = ess st.out ++ d.toks
  | .tok k, st => by simp [xblk, ess_xw, ess_tok, XDoc.toks]
  | .sp, st => by simp [xblk, ess_xw, ess_space, XDoc.toks]
  | .args items, st => by
    simp only [xblk]
    split
    · rename_i st' h
      exact xinl_ess tw _ _ _ h
    · rw [ess_xw, ess_tok, ess_with_indent, xblkItems_ess tw items, ess_with_indent, ess_newline, ess_xw, ess_tok]
      simp [XDoc.toks, (xtoks_eq_toksSep items).1]
  | .seq ds, st => by
    simp only [xblk]
    simpa [XDoc.toks] using xblkSeq_ess tw ds st
theorem xblkItems_ess (tw : Nat) : ∀ (ds : XDocs) (st : LSt), ess (xblkItems tw ds st).out = ess st.out ++ xtoksSep ds
  | .nil, st => by simp [xblkItems, xtoksSep]
  | .cons d ds, st => by
    simp only [xblkItems]
    rw [xblkItems_ess tw ds, ess_newline, ess_xw, xblk_ess tw d]
    cases h : ds.isNil <;> simp [xtoksSep, ess_comma, ess_tcomma, h]
theorem xblkSeq_ess (tw : Nat) : ∀ (ds : XDocs) (st : LSt), ess (xblkSeq tw ds st).out = ess st.out ++ ds.toksSeq
  | .nil, st => by simp [xblkSeq, XDocs.toksSeq]
  | .cons d ds, st => by
    simp only [xblkSeq]
    rw [xblkSeq_ess tw ds, xblk_ess tw d]
    simp [XDocs.toksSeq]
end

/-- **layout of an expression changes only white space and trailing commas**: at every width the
rendered pieces contain the same tokens and separating commas -/
theorem expr_layout_tokens (w : Nat) (e : Expr) : ess (renderExprPieces w e) = (exprDocs false e).toksSeq := by
  unfold renderExprPieces
  rw [xblkSeq_ess]
  simp [LSt.init, ess]

theorem expr_layout_width_independent (w w' : Nat) (e : Expr) :
    ess (renderExprPieces w e) = ess (renderExprPieces w' e) := by
  rw [expr_layout_tokens, expr_layout_tokens]



/-! ## the laid-out tokens are the tokens of `printE` -/

/-- a separating comma as the token it is -/
def commaTok (ps : List Piece) : List Piece :=
  ps.map fun p => match p with
    | .comma => .tok [',']
    | p => p

def tokTexts (l : List Tok) : List Piece := l.map fun t => .tok (tokChars t)

theorem commaTok_append (a b : List Piece) : commaTok (a ++ b) = commaTok a ++ commaTok b := by simp [commaTok]
theorem tokTexts_append (a b : List Tok) : tokTexts (a ++ b) = tokTexts a ++ tokTexts b := by simp [tokTexts]
theorem tokTexts_cons (t : Tok) (b : List Tok) : tokTexts (t :: b) = .tok (tokChars t) :: tokTexts b := by simp [tokTexts]
@[simp] theorem tokTexts_nil : tokTexts [] = [] := rfl
@[simp] theorem commaTok_nil : commaTok [] = [] := rfl

theorem commaTok_cons_tok (s : List Char) (r : List Piece) : commaTok (.tok s :: r) = .tok s :: commaTok r := by
  simp [commaTok]

theorem toksSeq_append : ∀ (a b : XDocs), (a.append b).toksSeq = a.toksSeq ++ b.toksSeq
  | .nil, b => by simp [XDocs.append, XDocs.toksSeq]
  | .cons d ds, b => by simp [XDocs.append, XDocs.toksSeq, toksSeq_append ds b]

theorem toksSeq_ofToks : ∀ (l : List Tok), commaTok (XDocs.ofToks l).toksSeq = tokTexts l
  | [] => rfl
  | t :: r => by
    have := toksSeq_ofToks r
    simp [XDocs.ofToks, XDocs.toksSeq, XDoc.toks, commaTok, tokTexts] at this ⊢
    exact this

theorem toksSeq_wrapD (sup : Bool) (ds : XDocs) (l : List Tok) (h : commaTok ds.toksSeq = tokTexts l) :
    commaTok (wrapD sup ds).toksSeq = tokTexts (wrap sup l) := by
  cases sup
  · simp only [wrapD, wrap, Bool.false_eq_true, if_false, XDocs.toksSeq, XDoc.toks, toksSeq_append, commaTok_append,
      commaTok_cons_tok, commaTok_nil, List.cons_append, List.nil_append, List.append_nil, tokTexts_cons, tokTexts_append,
      tokTexts_nil, h]
  · simpa [wrapD, wrap] using h

theorem toksSeq_spTokSp (t : Tok) (rest : XDocs) : (spTokSp t rest).toksSeq = .tok (tokChars t) :: rest.toksSeq := by
  simp [spTokSp, XDocs.toksSeq, XDoc.toks]


theorem argDocs_isNil (as : Exprs) : (argDocs as).isNil = as.isNil := by cases as <;> rfl
theorem itemDocs_isNil (ps : Pseudos) (rest : XDocs) : (itemDocs ps rest).isNil = (ps.isNil && rest.isNil) := by
  cases ps <;> simp [itemDocs, XDocs.isNil, Pseudos.isNil]

mutual
theorem docs_toks : ∀ (e : Expr) (sup : Bool), commaTok (exprDocs sup e).toksSeq = tokTexts (printE sup e)
  | .ternary c l r, sup => by
    simp only [exprDocs, printE]
    apply toksSeq_wrapD
    simp [toksSeq_append, toksSeq_spTokSp, commaTok_append, commaTok_cons_tok, tokTexts_append, tokTexts_cons,
      docs_toks c false, docs_toks l false, docs_toks r false]
  | .binop a op b, sup => by
    simp only [exprDocs, printE]
    apply toksSeq_wrapD
    simp [toksSeq_append, toksSeq_spTokSp, commaTok_append, commaTok_cons_tok, tokTexts_append, tokTexts_cons,
      docs_toks a false, docs_toks b false]
  | .unop op x, sup => by
    simp only [exprDocs, printE]
    split
    · apply toksSeq_wrapD
      simp [XDocs.toksSeq, XDoc.toks, commaTok_cons_tok, tokTexts_cons, docs_toks x false]
    · simp only [XDocs.toksSeq, XDoc.toks, toksSeq_append, commaTok_append, commaTok_cons_tok, commaTok_nil, tokTexts_append,
        tokTexts_cons, tokTexts_nil, docs_toks x true, List.cons_append, List.nil_append, List.append_nil]
  | .xcrement pre inc v, sup => by simp only [exprDocs, printE]; exact toksSeq_ofToks _
  | .var v, sup => by simp only [exprDocs, printE]; exact toksSeq_ofToks _
  | .call name ps as, sup => by
    have h := items_toks ps (argDocs as) (printArgs as) as.isNil (args_toks as) (argDocs_isNil as)
    simp only [exprDocs, printE, XDocs.toksSeq, XDoc.toks, (xtoks_eq_toksSep _).1]
    simp only [commaTok_append, commaTok_cons_tok, commaTok_nil, tokTexts_append, tokTexts_cons, tokTexts_nil, h,
      List.cons_append, List.nil_append, List.append_nil]
    rfl
  | .diffSwitch cs, sup => by
    simp only [exprDocs, printE]
    apply toksSeq_wrapD
    have h := cases_toks cs
    split <;> split <;> simp [toksSeq_append, XDocs.toksSeq, XDoc.toks, h]
  | .litInt v f, sup => by simp only [exprDocs, printE]; exact toksSeq_ofToks _
  | .litFloat neg b, sup => by simp only [exprDocs, printE]; exact toksSeq_ofToks _
  | .litString s, sup => by simp [exprDocs, printE, XDocs.toksSeq, XDoc.toks, commaTok, tokTexts]
  | .labelProp kw l, sup => by simp only [exprDocs, printE]; exact toksSeq_ofToks _
  | .enumConst en id, sup => by simp only [exprDocs, printE]; exact toksSeq_ofToks _
theorem args_toks : ∀ (as : Exprs), commaTok (xtoksSep (argDocs as)) = tokTexts (printArgs as)
  | .nil => rfl
  | .cons e es => by
    simp only [argDocs, xtoksSep, printArgs, argDocs_isNil, XDoc.toks, commaTok_append, tokTexts_append,
      docs_toks e false, args_toks es]
    cases es <;> simp [Exprs.isNil, commaTok, tokTexts, tokChars, tComma]
theorem items_toks : ∀ (ps : Pseudos) (rest : XDocs) (t : List Tok) (b : Bool),
    commaTok (xtoksSep rest) = tokTexts t → rest.isNil = b →
    commaTok (xtoksSep (itemDocs ps rest)) = tokTexts (printItems ps b t)
  | .nil, rest, t, b, h, _ => by simpa [itemDocs, printItems] using h
  | .cons k e ps, rest, t, b, h, hb => by
    simp only [itemDocs, xtoksSep, printItems, itemDocs_isNil, hb, XDoc.toks, XDocs.toksSeq, commaTok_append,
      commaTok_cons_tok, tokTexts_append, tokTexts_cons, docs_toks e false, items_toks ps rest t b h hb, List.cons_append,
      List.nil_append, List.append_assoc]
    cases h : (ps.isNil && b) <;> simp [commaTok, tokTexts, tokChars, tComma, tAt, tAssign]
theorem cases_toks : ∀ (cs : Cases), commaTok (caseDocs cs).toksSeq = tokTexts (printCases cs)
  | .nil => rfl
  | .blank cs => by simpa [caseDocs, printCases] using casesT_toks cs
  | .some e cs => by
    simp [caseDocs, printCases, toksSeq_append, commaTok_append, tokTexts_append, docs_toks e false, casesT_toks cs]
theorem casesT_toks : ∀ (cs : Cases), commaTok (caseDocsT cs).toksSeq = tokTexts (printCasesT cs)
  | .nil => rfl
  | .blank cs => by
    simp [caseDocsT, printCasesT, toksSeq_spTokSp, commaTok_cons_tok, tokTexts_cons, casesT_toks cs]
  | .some e cs => by
    simp [caseDocsT, printCasesT, toksSeq_spTokSp, toksSeq_append, commaTok_append, commaTok_cons_tok, tokTexts_append,
      tokTexts_cons, docs_toks e false, casesT_toks cs]
end

/-- **C08, expressions at every width**: whatever the target width, the tokens of the laid-out
expression (inline or block argument lists; the trailing commas of the block style dropped, as the
grammar's `SeparatedTrailing` allows) are the tokens `printExpr e` that `expr_print_parse` is about. -/
theorem expr_layout_printExpr (w : Nat) (e : Expr) :
    commaTok (ess (renderExprPieces w e)) = tokTexts (printExpr e) := by
  rw [expr_layout_tokens]
  exact docs_toks e false


/-! ## examples and the glue sites -/

section examples
def vx : Expr := .var { sigil := none, name := .normal ['x'] }
def vI0 : Expr := .var { sigil := some .int, name := .reg (-10001) }
/-- `(x + ((3 * -4) << $REG[-10001]))` -/
def ex1 : Expr := .binop vx .add (.binop (.binop (.litInt 3 signedDec) .mul (.litInt (-4) signedDec)) .shl vI0)
/-- `((!x) ? (x :  : 0x7 :  ) : ins_23(@mask=0b101, sin(x - x), %REG[5]++))` -/
def ex2 : Expr :=
  .ternary (.unop .not vx)
    (.diffSwitch (.some vx (.blank (.some (.litInt 7 ⟨false, .hex⟩) (.blank .nil)))))
    (.call (.ins 23) (.cons .mask (.litInt 5 ⟨false, .bin⟩) .nil)
      (.cons (.unop .sin (.binop vx .sub vx)) (.cons (.xcrement false true ⟨some .float, .reg 5⟩) .nil)))

example : NoGlue ex1 = true ∧ printText ex1 = "(x + ((3 * -4) << $REG[-10001]))".toList := by decide +kernel
example : NoGlue ex2 = true ∧
    printText ex2 = "((!x) ? (x :  : 0x7 :  ) : ins_23(@mask=0b101, sin(x - x), %REG[5]++))".toList := by decide +kernel
example : LexOK ex1 := by decide +kernel
example : parseText (printText ex1) = some (norm ex1) := by decide +kernel
example : parseExpr (printExpr ex2) = some (norm ex2) ∧ norm ex2 ≠ ex2 := by decide +kernel
/-- `(x * f(3, (!x)))`: inside the fragment of `expr_print_idempotent` / `expr_print_parse_print` -/
def ex3 : Expr := .binop vx .mul (.call (.normal ['f']) .nil (.cons (.litInt 3 signedDec) (.cons (.unop .not vx) .nil)))
example : NoGlue ex3 = true ∧ NoNegLit ex3 = true ∧ HintFree ex3 = true ∧ norm ex3 = ex3 ∧
    printExpr (norm ex3) = printExpr ex3 := by decide +kernel

/-- grouping is kept: the two ways of nesting the same operators print and parse differently -/
example : parseText "((a - b) - c)".toList ≠ parseText "(a - (b - c))".toList ∧
    parseText "a - b - c".toList = parseText "((a - b) - c)".toList ∧
    parseText "a + b * c".toList = parseText "(a + (b * c))".toList ∧
    parseText "a ? b : c ? d : e".toList = parseText "(a ? b : (c ? d : e))".toList ∧
    parseText "a ? b : c : d".toList = none ∧ parseText "a : b ? c : d".toList = none ∧
    parseText "- -x".toList = none ∧ parseText "-(-x)".toList ≠ none := by decide +kernel
end examples

/-- **The glue sites, on the expression level** (known findings "operator-glued-to-operand"):
each conjunct is an expression outside `NoGlue` whose printed text does not parse back.
`-(-3)` and `-(--x)` print `(--3)` / `(---x)`; `~(-1)` prints `(~-1)` (two prefix operators);
`!Enemy` / `!4` / `!(-1)` print a `DifficultyStr` token.  For `-(--x)` the tokens that were
written would parse (`expr tokens`), it is the lexer that fuses them: `LexOK` fails. -/
theorem glue_sites_fail :
    let neg3 : Expr := .litInt (-3) signedDec
    let predec : Expr := .xcrement true false { sigil := none, name := .normal ['x'] }
    (NoGlue (.unop .neg neg3) = false ∧ printText (.unop .neg neg3) = "(--3)".toList ∧
      parseText (printText (.unop .neg neg3)) = none) ∧
    (NoGlue (.unop .neg predec) = false ∧ printText (.unop .neg predec) = "(---x)".toList ∧
      parseText (printText (.unop .neg predec)) = none ∧
      parseExpr (printExpr (.unop .neg predec)) = some (.unop .neg predec) ∧ ¬ LexOK (.unop .neg predec)) ∧
    (NoGlue (.unop .bitNot neg3) = false ∧ parseText (printText (.unop .bitNot neg3)) = none) ∧
    (NoGlue (.unop .not neg3) = false ∧ parseText (printText (.unop .not neg3)) = none) ∧
    (NoGlue (.unop .not (.litInt 4 signedDec)) = false ∧ parseText (printText (.unop .not (.litInt 4 signedDec))) = none) ∧
    (NoGlue (.unop .not (.var { sigil := none, name := .normal "Enemy".toList })) = false ∧
      parseText (printText (.unop .not (.var { sigil := none, name := .normal "Enemy".toList }))) = none) := by
  decide +kernel

/-- a negative literal reads back as the operator applied to the magnitude, and printing that
adds parentheses (known finding "negative-literal-gains-parens"): idempotence needs `NoNegLit` -/
theorem negative_literal_gains_parens :
    parseText (printText (.litInt (-3) signedDec)) = some (.unop .neg (.litInt 3 signedDec)) ∧
    printText (.litInt (-3) signedDec) = "-3".toList ∧
    printText (.unop .neg (.litInt 3 signedDec)) = "(-3)".toList ∧
    NoNegLit (.litInt (-3) signedDec) = false := by decide +kernel

/-! ## the full property (not proved: the statement grammar and floats are searched) -/

/-- The statement of C08 over an abstract script type: `print w` at every width is accepted by
`parse` and denotes the same script, and printing again reproduces the text.  The theorems above
establish the literal layer of it (and refute it at the glue sites); the rest is searched on the
implementation. -/
def printed_scripts_parse_back_full {Script : Type} (print : Nat → Script → List Char)
    (parse : List Char → Option Script) (denote : Script → Script) : Prop :=
  ∀ (w : Nat) (x : Script), ∃ y, parse (print w x) = some y ∧ denote y = denote x ∧ print w y = print w x

/-- What is proved of `printed_scripts_parse_back_full`: the literal layer (integers in every
format, strings), the layout layer (width only changes whitespace and trailing commas, for nested
lists and for whole expressions) and the expression layer (printed tokens parse back to the same
tree, printing again gives the same tokens).
Missing: the statement / item / meta grammar around expressions, float literals and the lexing of
the joined expression text (`LexOK`), which are searched / compared on the implementation; and the
property is false at the glue sites (`unary_glue_minus`, `unary_glue_not`, `glue_sites_fail`). -/
theorem printed_scripts_parse_back_partial :
    (∀ f v, evalLiteral (printInt f v) = .int v) ∧
    (∀ s, lex (escapeString s) = ([.str (escapeString s)], .eof) ∧ parseStringLiteral (escapeString s) = .ok s) ∧
    (∀ w d, ess (renderPieces w d) = d.toks) ∧
    (∀ e, NoGlue e = true → parseExpr (printExpr e) = some (norm e)) ∧
    (∀ e, NoNegLit e = true → HintFree e = true → printExpr (norm e) = printExpr e) ∧
    (∀ w e, commaTok (ess (renderExprPieces w e)) = tokTexts (printExpr e)) :=
  ⟨int_print_parse, string_print_lex_parse, layout_tokens, expr_print_parse, expr_print_idempotent,
    expr_layout_printExpr⟩

end TruthModel.C08
