import TruthModel.Model.Fmt
import TruthModel.Model.FmtExpr
import TruthModel.Model.FmtStmt
/-
C08 — printed scripts parse back to the same script: the literal layer.

Proved here, for ALL inputs of the model (`Model/Fmt.lean`):
* `int_print_parse`: for every `IntFormat` and every `v : Int32`, lexing the printed literal and
  evaluating it with the grammar's literal rules (`parse_u32_literal`, `as i32`, sign folding by
  wrapping negation, the built-in constants `true`/`false`) gives back `v` — including
  `i32::MIN` in every radix and the `0xffffffff` style of the unsigned formats.
* `string_escape_roundtrip` / `string_print_lex_parse`: for every `List Char` (NUL, quotes,
  backslashes, CR/LF, any scalar value), the printed literal is one string token and
  `parse_string_literal` returns the original characters.
* `printInt_head_minus_iff`: the printed literal starts with `-` exactly for negative values in
  signed formats (so a non-negative literal never starts with `-`).
* the token-glue defect of the formatter (fmt.rs 900-902 writes a prefix operator directly in
  front of its operand): `unary_glue_minus` (every negative literal in a signed format under a
  unary minus lexes as the token `--` and is not read as a literal), `unary_glue_not` (`!` in
  front of any of `-*ENHLWXYZO4567` lexes as a DifficultyStr token), with concrete witnesses.

* `layout_tokens`: for every document of nested comma-separated lists and every width, the
  tokens and separating commas of the rendered text are those of the document: the
  inline-vs-block decision (`try_inline`, `backtrack_inline_if_long`) only changes whitespace and
  the trailing comma.

* the EXPRESSION layer (`Model/FmtExpr.lean`): `expr_print_parse` — for every expression `e` with
  `NoGlue e`, the recursive-descent model of the grammar's `Expr` rules accepts the tokens that the
  model of `impl Format for ast::Expr` writes and returns `norm e` (same operators with the same
  grouping, calls, arguments, switch cases and holes, variables, literals; `norm` = the documented
  loss: radix hints, `true`/`false`/`INF`/`NAN` as names, a sign in front of a number as the
  operator); `expr_print_parse_sup` where `SuppressParens` is in effect; `expr_print_parse_text`
  on text under `LexOK`; `expr_print_idempotent` / `expr_print_parse_print` (printing what was
  parsed gives the same tokens, on sign-free hint-free literals); `expr_layout_tokens`,
  `expr_layout_width_independent`, `expr_layout_printExpr` (argument lists laid out inline or in
  block style at any width carry exactly the tokens of `printExpr`); `glue_sites_fail` and
  `negative_literal_gains_parens` (the property is false exactly at the excluded shapes).

* the STATEMENT layer (`Model/FmtStmt.lean`), last section of this file: `stmt_print_parse` /
  `block_print_parse` (for every statement / block inside `OKS` / `OKB` the recursive-descent model of
  the grammar's statement rules accepts the tokens the model of `impl Format for ast::Stmt / StmtKind /
  Block` writes and returns the same statement up to `normK`), `stmt_print_idempotent`,
  `stmt_print_parse_print`, `stmt_layout_tokens` / `block_layout_tokens` / `stmt_print_parse_at_width`
  (at every width at which the formatter does not trip its label assertion the laid-out statement
  carries exactly the tokens of `printStmt`), `stmt_print_parse_every_width` (a statement whose labels
  hold no call is printed at every width and its tokens parse back), `rel_label_plus_glue`,
  `label_break_panics`.

Not proved (searched on the implementation by the harness): the item / meta grammar,
float literals (`showF32`/`readF32` are Rust's `Display`/`FromStr`), and that the joined text of an
expression lexes to the written tokens (`LexOK`, compared with the real lexer on every generated
expression).  The full property is kept as `printed_scripts_parse_back_full`.
-/
namespace TruthModel.C08
open TruthModel TruthModel.Fmt

/-! ## digits in base 2 / 10 / 16 (no bound on the number) -/

theorem digitVal_digitChar : ∀ d, d < 16 → digitVal (digitChar d) = some d := by decide

theorem natDigitsAux_fuel {b : Nat} (hb : 2 ≤ b) (n : Nat) :
    ∀ fuel, n ≤ fuel → natDigitsAux b fuel n = natDigitsAux b n n := by
  induction n using Nat.strongRecOn with
  | _ n ih =>
    intro fuel hf
    by_cases hlt : n < b
    · cases fuel with
      | zero =>
        have : n = 0 := by omega
        subst this; rfl
      | succ f =>
        cases n with
        | zero => simp [natDigitsAux, hlt]
        | succ m => simp [natDigitsAux, hlt]
    · obtain ⟨f, rfl⟩ : ∃ f, fuel = f + 1 := ⟨fuel - 1, by omega⟩
      obtain ⟨m, rfl⟩ : ∃ m, n = m + 1 := ⟨n - 1, by omega⟩
      have hdiv : (m + 1) / b < m + 1 := Nat.div_lt_self (by omega) (by omega)
      simp only [natDigitsAux, hlt, if_false]
      rw [ih _ hdiv f (by omega), ih _ hdiv m (by omega)]

theorem natDigits_lt {b n : Nat} (h : n < b) : natDigits b n = [digitChar n] := by
  unfold natDigits
  cases n with
  | zero => rfl
  | succ m => simp [natDigitsAux, h]

theorem natDigits_ge {b n : Nat} (hb : 2 ≤ b) (h : b ≤ n) :
    natDigits b n = natDigits b (n / b) ++ [digitChar (n % b)] := by
  unfold natDigits
  obtain ⟨m, rfl⟩ : ∃ m, n = m + 1 := ⟨n - 1, by omega⟩
  have hdiv : (m + 1) / b < m + 1 := Nat.div_lt_self (by omega) (by omega)
  have hlt : ¬ (m + 1 < b) := by omega
  simp only [natDigitsAux, hlt, if_false]
  rw [natDigitsAux_fuel hb _ m (by omega)]

/-- induction over the digit string of a number -/
theorem natDigits_induction {b : Nat} (hb : 2 ≤ b) (P : Nat → List Char → Prop)
    (base : ∀ n, n < b → P n [digitChar n])
    (step : ∀ n, b ≤ n → P (n / b) (natDigits b (n / b)) →
      P n (natDigits b (n / b) ++ [digitChar (n % b)])) :
    ∀ n, P n (natDigits b n) := by
  intro n
  induction n using Nat.strongRecOn with
  | _ n ih =>
    by_cases hlt : n < b
    · rw [natDigits_lt hlt]; exact base n hlt
    · have hge : b ≤ n := by omega
      rw [natDigits_ge hb hge]
      exact step n hge (ih _ (Nat.div_lt_self (by omega) (by omega)))

/-- reading the digits of `n` (base `b`, most significant first) continues from the value `n` -/
theorem parseDigits_natDigits {b : Nat} (hb : 2 ≤ b) (hb16 : b ≤ 16) (n : Nat) :
    ∀ ys, parseDigitsFrom b 0 (natDigits b n ++ ys) = parseDigitsFrom b n ys := by
  refine natDigits_induction hb (fun n ds => ∀ ys, parseDigitsFrom b 0 (ds ++ ys) = parseDigitsFrom b n ys) ?_ ?_ n
  · intro n hn ys
    simp [parseDigitsFrom, digitVal_digitChar n (by omega), hn]
  · intro n hn ih ys
    have hm : n % b < b := Nat.mod_lt _ (by omega)
    rw [List.append_assoc, ih]
    simp only [List.cons_append, List.nil_append, parseDigitsFrom, digitVal_digitChar (n % b) (by omega), hm, if_true]
    rw [Nat.mul_comm, Nat.div_add_mod]

/-- every character of a digit string is the digit character of a value below the base -/
theorem natDigits_mem {b : Nat} (hb : 2 ≤ b) (n : Nat) :
    ∀ c ∈ natDigits b n, ∃ d, d < b ∧ c = digitChar d := by
  refine natDigits_induction hb (fun _ ds => ∀ c ∈ ds, ∃ d, d < b ∧ c = digitChar d) ?_ ?_ n
  · intro n hn c hc
    simp at hc
    exact ⟨n, hn, hc⟩
  · intro n _ ih c hc
    rcases List.mem_append.mp hc with h | h
    · exact ih c h
    · simp at h
      exact ⟨n % b, Nat.mod_lt _ (by omega), h⟩

theorem natDigits_ne_nil {b : Nat} (hb : 2 ≤ b) (n : Nat) : natDigits b n ≠ [] := by
  refine natDigits_induction hb (fun _ ds => ds ≠ []) ?_ ?_ n
  · intro n _; simp
  · intro n _ _; simp

theorem isDigit_digitChar : ∀ d, d < 10 → isDigit (digitChar d) = true := by decide
theorem isHex_digitChar : ∀ d, d < 16 → isHex (digitChar d) = true := by decide
theorem isBin_digitChar : ∀ d, d < 2 → isBin (digitChar d) = true := by decide

theorem natDigits10_isDigit (n : Nat) : ∀ c ∈ natDigits 10 n, isDigit c = true := by
  intro c hc
  obtain ⟨d, hd, rfl⟩ := natDigits_mem (by omega) n c hc
  exact isDigit_digitChar d hd

theorem natDigits16_isHex (n : Nat) : ∀ c ∈ natDigits 16 n, isHex c = true := by
  intro c hc
  obtain ⟨d, hd, rfl⟩ := natDigits_mem (by omega) n c hc
  exact isHex_digitChar d hd

theorem natDigits2_isBin (n : Nat) : ∀ c ∈ natDigits 2 n, isBin c = true := by
  intro c hc
  obtain ⟨d, hd, rfl⟩ := natDigits_mem (by omega) n c hc
  exact isBin_digitChar d hd

/-! ## `u32::from_str_radix` on printed digits -/

theorem isDigit_isHex {c : Char} (h : isDigit c = true) : isHex c = true := by simp [isHex, h]
theorem isBin_isHex {c : Char} (h : isBin c = true) : isHex c = true := by
  simp only [isBin, Bool.or_eq_true, beq_iff_eq] at h
  rcases h with rfl | rfl <;> decide

theorem fromStrRadix_natDigits {b : Nat} (hb : 2 ≤ b) (hb16 : b ≤ 16) (n : Nat) (hn : n < 4294967296) :
    fromStrRadixU32 b (natDigits b n) = some (UInt32.ofNat n) := by
  have hne := natDigits_ne_nil hb n
  have hhex : ∀ c ∈ natDigits b n, isHex c = true := by
    intro c hc
    obtain ⟨d, hd, rfl⟩ := natDigits_mem hb n c hc
    exact isHex_digitChar d (by omega)
  have hparse := parseDigits_natDigits hb hb16 n []
  simp only [List.append_nil, parseDigitsFrom] at hparse
  cases hds : natDigits b n with
  | nil => exact absurd hds hne
  | cons c t =>
    have hc : isHex c = true := hhex c (by rw [hds]; simp)
    have hplus : c ≠ '+' := by
      intro h; subst h; revert hc; decide
    have hminus : c ≠ '-' := by
      intro h; subst h; revert hc; decide
    rw [hds] at hparse
    unfold fromStrRadixU32
    have h1 : (c :: t = []) = False := by simp
    have h2 : (c :: t = ['+'] ∨ c :: t = ['-']) = False := by simp [hplus, hminus]
    simp only [h1, h2, if_false]
    have h3 : stripPlus (c :: t) = c :: t := by
      unfold stripPlus
      split
      · rename_i r heq
        simp at heq
        exact absurd heq.1 hplus
      · rfl
    rw [h3, hparse]
    simp [hn]

/-! ## token level: a printed integer literal is one INT token -/

theorem spanLen_all (p : Char → Bool) (s : List Char) (h : ∀ c ∈ s, p c = true) : spanLen p s = s.length := by
  induction s with
  | nil => rfl
  | cons c cs ih =>
    have hc : p c = true := h c (by simp)
    have := ih (fun x hx => h x (by simp [hx]))
    simp [spanLen, hc, this]

/-- `s` is lexed as exactly one INT token when it is at the head of the input and ends it -/
structure IntTokStr (s : List Char) : Prop where
  ne : s ≠ []
  nows : ∀ h t, s = h :: t → isWs h = false
  one : lexOne s = .tok (.int s) s.length

theorem lexAll_intTok {s : List Char} (h : IntTokStr s) (f : Nat) : lexAll (f + 2) s = ([.int s], .eof) := by
  cases hs : s with
  | nil => exact absurd hs h.ne
  | cons c cs =>
    have hws : isWs c = false := h.nows c cs hs
    have hone := h.one
    rw [hs] at hone
    have hd : dropWs (c :: cs) = c :: cs := by simp [dropWs, hws]
    rw [show f + 2 = (f + 1) + 1 from rfl, lexAll, hd]
    simp only [hone, List.drop_length]
    rw [lexAll]
    simp [dropWs]

theorem lex_intTok {s : List Char} (h : IntTokStr s) : lex s = ([.int s], .eof) := by
  unfold lex
  cases hs : s with
  | nil => exact absurd hs h.ne
  | cons c cs =>
    have := lexAll_intTok h cs.length
    rw [hs] at this
    simpa using this

/-- facts about a character known to be a decimal digit, by enumeration -/
theorem isDigit_cases {c : Char} (h : isDigit c = true) (P : Char → Prop)
    (all : ∀ x ∈ ['0', '1', '2', '3', '4', '5', '6', '7', '8', '9'], P x) : P c := by
  apply all
  simpa [isDigit] using h

theorem lexOne_of_lens {s : List Char} (hne : s ≠ [])
    (hc : ∀ t, s ≠ '/' :: t) (hp : punctLen s = 0) (hi : intLen s = s.length) (hf : floatLen s = 0)
    (hw : wordLen s = 0) (hd : diffLen s = 0) (hq : strLen s = 0) :
    lexOne s = .tok (.int s) s.length := by
  have hlen : s.length ≠ 0 := by
    cases s with
    | nil => exact absurd rfl hne
    | cons _ _ => simp
  unfold lexOne
  split
  · rename_i t; exact absurd rfl (hc _)
  · rename_i t; exact absurd rfl (hc _)
  · simp only [hp, hi, hf, hw, hd, hq, Nat.max_zero, Nat.zero_max]
    simp [hlen, Ne.symm hlen, List.take_length]

theorem intTok_dec {ds : List Char} (hne : ds ≠ []) (hall : ∀ c ∈ ds, isDigit c = true) : IntTokStr ds := by
  cases hds : ds with
  | nil => exact absurd hds hne
  | cons c cs =>
    have hc : isDigit c = true := hall c (by rw [hds]; simp)
    have hall' : ∀ x ∈ c :: cs, isDigit x = true := by rw [← hds]; exact hall
    refine ⟨by simp, ?_, ?_⟩
    · intro h t heq
      simp at heq
      rw [← heq.1]
      exact isDigit_cases hc (fun x => isWs x = false) (by decide)
    · have hspan : spanLen isDigit (c :: cs) = (c :: cs).length := spanLen_all _ _ hall'
      apply lexOne_of_lens (by simp)
      · intro t heq
        simp at heq
        have : isDigit '/' = true := by rw [heq.1] at hc; exact hc
        revert this; decide
      · have : isPunctStart c = false := isDigit_cases hc (fun x => isPunctStart x = false) (by decide)
        simp [punctLen, this]
      · -- the `0x` / `0b` alternative needs a non-digit second character
        unfold intLen
        rw [hspan]
        split
        · rename_i c' r heq
          simp at heq
          have hc' : isDigit c' = true := hall' c' (by rw [heq.2]; simp)
          have hx : ¬ (c' = 'x' ∨ c' = 'X') := isDigit_cases hc' (fun x => ¬ (x = 'x' ∨ x = 'X')) (by decide)
          have hb : ¬ (c' = 'b' ∨ c' = 'B') := isDigit_cases hc' (fun x => ¬ (x = 'b' ∨ x = 'B')) (by decide)
          simp [hx, hb]
        · simp
      · unfold floatLen
        simp only [hspan, List.drop_length]
        simp
      · have : isIdentStart c = false := isDigit_cases hc (fun x => isIdentStart x = false) (by decide)
        simp [wordLen, this]
      · have : c ≠ '!' := isDigit_cases hc (fun x => x ≠ '!') (by decide)
        unfold diffLen
        split
        · rename_i r heq; simp at heq; exact absurd heq.1 this
        · rfl
      · have : c ≠ '"' := isDigit_cases hc (fun x => x ≠ '"') (by decide)
        unfold strLen
        split
        · rename_i r heq; simp at heq; exact absurd heq.1 this
        · rfl

/-- `0x` + hex digits, `0b` + binary digits -/
theorem intTok_radix {x : Char} {hs : List Char} (p : Char → Bool)
    (hx : (x = 'x' ∧ p = isHex) ∨ (x = 'b' ∧ p = isBin))
    (hne : hs ≠ []) (hall : ∀ c ∈ hs, p c = true) : IntTokStr ('0' :: x :: hs) := by
  have hspan : spanLen p hs = hs.length := spanLen_all _ _ hall
  have hlen : hs.length ≠ 0 := by
    cases hs with
    | nil => exact absurd rfl hne
    | cons _ _ => simp
  refine ⟨by simp, ?_, ?_⟩
  · intro h t heq
    simp at heq
    rw [← heq.1]; decide
  · apply lexOne_of_lens (by simp)
    · intro t heq; simp at heq
    · have : isPunctStart '0' = false := by decide
      simp [punctLen, this]
    · rcases hx with ⟨rfl, rfl⟩ | ⟨rfl, rfl⟩
      · have h0 : isDigit 'x' = false := by decide
        have hz : isDigit '0' = true := by decide
        simp [intLen, spanLen, h0, hz, hspan, hlen]
      · have h0 : isDigit 'b' = false := by decide
        have hz : isDigit '0' = true := by decide
        simp [intLen, spanLen, h0, hz, hspan, hlen]
    · rcases hx with ⟨rfl, _⟩ | ⟨rfl, _⟩
      · have h0 : isDigit 'x' = false := by decide
        have hz : isDigit '0' = true := by decide
        simp [floatLen, spanLen, h0, hz]
      · have h0 : isDigit 'b' = false := by decide
        have hz : isDigit '0' = true := by decide
        simp [floatLen, spanLen, h0, hz]
    · have : isIdentStart '0' = false := by decide
      simp [wordLen, this]
    · simp [diffLen]
    · simp [strLen]

/-- a `-` in front of something that does not start with `=` or `-` is the token `-` -/
theorem lexOne_minus {d : Char} {t : List Char} (h1 : d ≠ '=') (h2 : d ≠ '-') :
    lexOne ('-' :: d :: t) = .tok (.punct ['-']) 1 := by
  simp [lexOne, punctLen, isPunctStart, punctTable, intLen, floatLen, wordLen, diffLen,
    strLen, spanLen, isDigit, isIdentStart, Ne.symm h1, Ne.symm h2]

theorem lexAll_minus {d : Char} {t : List Char} (h1 : d ≠ '=') (h2 : d ≠ '-') (f : Nat) :
    lexAll (f + 1) ('-' :: d :: t) = (.punct ['-'] :: (lexAll f (d :: t)).1, (lexAll f (d :: t)).2) := by
  have hws : isWs '-' = false := by decide
  have hd : dropWs ('-' :: d :: t) = '-' :: d :: t := by simp [dropWs, hws]
  rw [lexAll, hd]
  simp only [lexOne_minus h1 h2, List.drop_succ_cons, List.drop_zero]

theorem lex_minus_intTok {s : List Char} (h : IntTokStr s) (h1 : ∀ d t, s = d :: t → d ≠ '=' ∧ d ≠ '-') :
    lex ('-' :: s) = ([.punct ['-'], .int s], .eof) := by
  cases hs : s with
  | nil => exact absurd hs h.ne
  | cons d t =>
    obtain ⟨a, b⟩ := h1 d t hs
    unfold lex
    have hl : ('-' :: d :: t).length + 1 = (t.length + 2) + 1 := by simp
    rw [hl, lexAll_minus a b]
    have := lexAll_intTok h t.length
    rw [hs] at this
    rw [this]

/-! ## the literal rules on printed digits -/

theorem litIntUnsigned_dec (n : Nat) (hn : n < 4294967296) :
    litIntUnsigned (natDigits 10 n) = some (UInt32.ofNat n).toInt32 := by
  have hall := natDigits10_isDigit n
  have hfs := fromStrRadix_natDigits (b := 10) (by omega) (by omega) n hn
  unfold litIntUnsigned parseU32Literal
  split
  · rename_i r heq; exact absurd (hall 'x' (by rw [heq]; simp)) (by decide)
  · rename_i r heq; exact absurd (hall 'X' (by rw [heq]; simp)) (by decide)
  · rename_i r heq; exact absurd (hall 'b' (by rw [heq]; simp)) (by decide)
  · rename_i r heq; exact absurd (hall 'B' (by rw [heq]; simp)) (by decide)
  · simp [hfs]

theorem litIntUnsigned_hex (n : Nat) (hn : n < 4294967296) :
    litIntUnsigned ('0' :: 'x' :: natDigits 16 n) = some (UInt32.ofNat n).toInt32 := by
  simp [litIntUnsigned, parseU32Literal, fromStrRadix_natDigits (b := 16) (by omega) (by omega) n hn]

theorem litIntUnsigned_bin (n : Nat) (hn : n < 4294967296) :
    litIntUnsigned ('0' :: 'b' :: natDigits 2 n) = some (UInt32.ofNat n).toInt32 := by
  simp [litIntUnsigned, parseU32Literal, fromStrRadix_natDigits (b := 2) (by omega) (by omega) n hn]

theorem uval_lt (v : Int32) : uval v < 4294967296 := by
  have := UInt32.toNat_lt v.toUInt32
  simpa [uval] using this

theorem ofNat_uval (v : Int32) : (UInt32.ofNat (uval v)).toInt32 = v := by
  simp [uval, UInt32.ofNat_toNat, Int32.toInt32_toUInt32]

/-! ### evaluation of the four printed shapes -/

theorem intTok_natDigits10 (n : Nat) : IntTokStr (natDigits 10 n) :=
  intTok_dec (natDigits_ne_nil (by omega) n) (natDigits10_isDigit n)

theorem intTok_hexLit (n : Nat) : IntTokStr ('0' :: 'x' :: natDigits 16 n) :=
  intTok_radix isHex (Or.inl ⟨rfl, rfl⟩) (natDigits_ne_nil (by omega) n) (natDigits16_isHex n)

theorem intTok_binLit (n : Nat) : IntTokStr ('0' :: 'b' :: natDigits 2 n) :=
  intTok_radix isBin (Or.inr ⟨rfl, rfl⟩) (natDigits_ne_nil (by omega) n) (natDigits2_isBin n)

theorem eval_pos {s : List Char} {v : Int32} (h : IntTokStr s) (hv : litIntUnsigned s = some v) :
    evalLiteral s = .int v := by
  simp [evalLiteral, lex_intTok h, evalLitTokens, hv]

theorem eval_neg {s : List Char} {v : Int32} (h : IntTokStr s)
    (h1 : ∀ d t, s = d :: t → d ≠ '=' ∧ d ≠ '-') (hv : litIntUnsigned s = some v) :
    evalLiteral ('-' :: s) = .int (-v) := by
  simp [evalLiteral, lex_minus_intTok h h1, evalLitTokens, hv]

theorem head_dec (n : Nat) : ∀ d t, natDigits 10 n = d :: t → d ≠ '=' ∧ d ≠ '-' := by
  intro d t h
  have hd : isDigit d = true := natDigits10_isDigit n d (by rw [h]; simp)
  exact isDigit_cases hd (fun x => x ≠ '=' ∧ x ≠ '-') (by decide)

theorem head_zero (x : Char) (r : List Char) : ∀ d t, '0' :: x :: r = d :: t → d ≠ '=' ∧ d ≠ '-' := by
  intro d t h
  simp at h
  rw [← h.1]; decide

theorem eval_printI32 (v : Int32) : evalLiteral (printI32 v) = .int v := by
  unfold printI32
  split
  · have := eval_neg (intTok_natDigits10 (uval (-v))) (head_dec _) (litIntUnsigned_dec _ (uval_lt _))
    rw [this, ofNat_uval, Int32.neg_neg]
  · have := eval_pos (intTok_natDigits10 (uval v)) (litIntUnsigned_dec _ (uval_lt _))
    rw [this, ofNat_uval]

theorem eval_signedHex (v : Int32) : evalLiteral (signedRadix ['0', 'x'] 16 v) = .int v := by
  unfold signedRadix
  split
  · have := eval_neg (intTok_hexLit (uval (-v))) (head_zero _ _) (litIntUnsigned_hex _ (uval_lt _))
    simp only [List.cons_append, List.nil_append]
    rw [this, ofNat_uval, Int32.neg_neg]
  · have := eval_pos (intTok_hexLit (uval v)) (litIntUnsigned_hex _ (uval_lt _))
    simp only [List.cons_append, List.nil_append]
    rw [this, ofNat_uval]

theorem eval_signedBin (v : Int32) : evalLiteral (signedRadix ['0', 'b'] 2 v) = .int v := by
  unfold signedRadix
  split
  · have := eval_neg (intTok_binLit (uval (-v))) (head_zero _ _) (litIntUnsigned_bin _ (uval_lt _))
    simp only [List.cons_append, List.nil_append]
    rw [this, ofNat_uval, Int32.neg_neg]
  · have := eval_pos (intTok_binLit (uval v)) (litIntUnsigned_bin _ (uval_lt _))
    simp only [List.cons_append, List.nil_append]
    rw [this, ofNat_uval]

theorem eval_unsignedDec (v : Int32) : evalLiteral (natDigits 10 (uval v)) = .int v := by
  rw [eval_pos (intTok_natDigits10 (uval v)) (litIntUnsigned_dec _ (uval_lt _)), ofNat_uval]

theorem eval_unsignedHex (v : Int32) : evalLiteral ('0' :: 'x' :: natDigits 16 (uval v)) = .int v := by
  rw [eval_pos (intTok_hexLit (uval v)) (litIntUnsigned_hex _ (uval_lt _)), ofNat_uval]

theorem eval_unsignedBin (v : Int32) : evalLiteral ('0' :: 'b' :: natDigits 2 (uval v)) = .int v := by
  rw [eval_pos (intTok_binLit (uval v)) (litIntUnsigned_bin _ (uval_lt _)), ofNat_uval]

/-- **C08, integer literals.**  For every format (signed/unsigned x dec/hex/bin/bool) and every
`v : Int32`, lexing the printed text and applying the grammar's literal rules with sign folding
gives `v`. -/
theorem int_print_parse (f : IntFormat) (v : Int32) : evalLiteral (printInt f v) = .int v := by
  obtain ⟨signed, radix⟩ := f
  cases radix <;> cases signed <;> simp only [printInt]
  · exact eval_unsignedDec v
  · exact eval_printI32 v
  · exact eval_unsignedHex v
  · exact eval_signedHex v
  · exact eval_unsignedBin v
  · exact eval_signedBin v
  · split
    · rename_i h; subst h; decide
    · split
      · rename_i h; subst h; decide
      · simp only [Bool.false_eq_true, if_false]; exact eval_unsignedHex v
  · split
    · rename_i h; subst h; decide
    · split
      · rename_i h; subst h; decide
      · simp only [if_true]; exact eval_printI32 v

example : printInt ⟨true, .hex⟩ (-16) = "-0x10".toList := by decide
example : printInt ⟨true, .hex⟩ (-2147483648) = "-0x80000000".toList := by decide
example : printInt ⟨false, .hex⟩ (-48) = "0xffffffd0".toList := by decide
example : printInt ⟨true, .bin⟩ (-4) = "-0b100".toList := by decide
example : printInt ⟨false, .bool⟩ (-2) = "0xfffffffe".toList := by decide
example : printInt ⟨true, .dec⟩ (-2147483648) = "-2147483648".toList := by decide
example : evalLiteral "-2147483648".toList = .int (-2147483648) := by decide
example : evalLiteral "4294967296".toList = .badInt := by decide

/-! ## the sign of the printed text -/

theorem natDigits_head_ne_minus {b : Nat} (hb : 2 ≤ b) (hb16 : b ≤ 16) (n : Nat) :
    (natDigits b n).head? ≠ some '-' := by
  cases h : natDigits b n with
  | nil => simp
  | cons c t =>
    have hc : isHex c = true := by
      obtain ⟨d, hd, rfl⟩ := natDigits_mem hb n c (by rw [h]; simp)
      exact isHex_digitChar d (by omega)
    simp only [List.head?_cons, ne_eq, Option.some.injEq]
    intro hm; subst hm; revert hc; decide

/-- The printed literal starts with `-` exactly for negative values in signed formats; in
particular a non-negative literal never starts with `-`, and neither does any unsigned one. -/
theorem printInt_head_minus_iff (f : IntFormat) (v : Int32) :
    (printInt f v).head? = some '-' ↔ (f.signed = true ∧ v.toInt < 0) := by
  have d10 := natDigits_head_ne_minus (b := 10) (by omega) (by omega)
  obtain ⟨signed, radix⟩ := f
  have hI : (printI32 v).head? = some '-' ↔ v.toInt < 0 := by
    unfold printI32
    split
    · rename_i h; simp [h]
    · rename_i h; simp [h, d10]
  have hS : ∀ (x : Char) (b : Nat), 2 ≤ b → b ≤ 16 → ((signedRadix ['0', x] b v).head? = some '-' ↔ v.toInt < 0) := by
    intro x b _ _
    unfold signedRadix
    split
    · rename_i h; simp [h]
    · rename_i h; simp [h]
  have h0 : (0 : Int32).toInt = 0 := by decide
  have h1 : (1 : Int32).toInt = 1 := by decide
  cases radix <;> cases signed <;> simp only [printInt]
  · simp [d10]
  · simpa using hI
  · simp
  · simpa using hS 'x' 16 (by omega) (by omega)
  · simp
  · simpa using hS 'b' 2 (by omega) (by omega)
  · split
    · simp
    · split
      · simp
      · simp
  · split
    · rename_i h; subst h; simp [h0]
    · split
      · rename_i h; subst h; simp [h1]
      · simpa using hI

theorem printInt_nonneg_no_minus (f : IntFormat) (v : Int32) (h : 0 ≤ v.toInt) :
    (printInt f v).head? ≠ some '-' := by
  intro hm
  have := ((printInt_head_minus_iff f v).mp hm).2
  omega

example : (0 : Int32).toInt ≥ 0 ∧ (printInt ⟨true, .dec⟩ 7).head? = some '7' := by decide

/-! ## the token-glue defect (the formatter writes a prefix operator directly before its operand) -/

theorem lexOne_minus_minus (t : List Char) : lexOne ('-' :: '-' :: t) = .tok (.punct ['-', '-']) 2 := by
  simp [lexOne, punctLen, isPunctStart, punctTable, intLen, floatLen, wordLen, diffLen,
    strLen, spanLen, isDigit, isIdentStart]

/-- A token list that starts with `--` is not an integer literal, signed or not. -/
theorem evalLitTokens_minus_minus (r : List Tok) : evalLitTokens (.punct ['-', '-'] :: r) = .other := by
  unfold evalLitTokens
  split <;> simp_all

/-- **The unary-minus glue defect, all instances.**  For every signed format and every negative
`v`, the text that the formatter writes for `-(literal v)` — the operator immediately followed by
the printed literal — starts with the single token `--` (pre-decrement), and the literal rules
do not read it as a number.  So `print` is not injective into parseable text there; a space or
parentheses between the operator and an operand that starts with `-` would repair it. -/
theorem unary_glue_minus (f : IntFormat) (v : Int32) (hs : f.signed = true) (hv : v.toInt < 0) :
    (∃ r e, lex (printUnary '-' (printInt f v)) = (.punct ['-', '-'] :: r, e)) ∧
    evalLiteral (printUnary '-' (printInt f v)) = .other := by
  have hhead := (printInt_head_minus_iff f v).mpr ⟨hs, hv⟩
  cases hp : printInt f v with
  | nil => rw [hp] at hhead; simp at hhead
  | cons c t =>
    rw [hp] at hhead
    simp only [List.head?_cons, Option.some.injEq] at hhead
    subst hhead
    have hws : isWs '-' = false := by decide
    have hl : lex (printUnary '-' ('-' :: t)) =
        (.punct ['-', '-'] :: (lexAll (t.length + 2) t).1, (lexAll (t.length + 2) t).2) := by
      simp [lex, printUnary, lexAll, dropWs, hws, lexOne_minus_minus]
    refine ⟨⟨_, _, hl⟩, ?_⟩
    unfold evalLiteral
    rw [hl]
    split
    · rename_i toks heq
      simp only [Prod.mk.injEq] at heq
      rw [← heq.1]
      exact evalLitTokens_minus_minus _
    · rfl

/-- witness (DESIGN.md section 8: `ins_200(I0, -3)` under `UnOp(op="-")` decompiles to `I0 = --3;`) -/
theorem unary_glue_minus_witness :
    lex (printUnary '-' (printInt ⟨true, .dec⟩ (-3))) = ([.punct ['-', '-'], .int ['3']], .eof) ∧
    evalLiteral (printUnary '-' (printInt ⟨true, .dec⟩ (-3))) = .other ∧
    evalLiteral ("-(-3)".toList.filter (fun c => c != '(' && c != ')')) = .other := by decide

example : (⟨true, .dec⟩ : IntFormat).signed = true ∧ (-3 : Int32).toInt < 0 := by decide

/-- source-level instance: `-2147483648` is `-(2147483648 as i32)` = `-(MIN)`, printed `--2147483648` -/
theorem unary_glue_min_witness :
    litIntUnsigned "2147483648".toList = some (-2147483648) ∧
    printUnary '-' (printInt ⟨true, .dec⟩ (-2147483648)) = "--2147483648".toList ∧
    evalLiteral "--2147483648".toList = .other := by decide

/-- **The `!` glue defect.**  `!` directly followed by any of `-*ENHLWXYZO4567` is lexed as one
DifficultyStr token of at least two characters (a token no grammar rule accepts), not as the
operator `!`. -/
theorem unary_glue_not (c : Char) (t : List Char) (hc : isDiffChar c = true) :
    ∃ n, 2 ≤ n ∧ lexOne (printUnary '!' (c :: t)) = .tok (.difficulty (('!' :: c :: t).take n)) n := by
  refine ⟨spanLen isDiffChar t + 2, by omega, ?_⟩
  have hne : c ≠ '=' := by
    intro h; subst h; revert hc; decide
  have hd : isDigit '!' = false := by decide
  have hi : isIdentStart '!' = false := by decide
  simp [printUnary, lexOne, punctLen, isPunctStart, punctTable, intLen, floatLen, wordLen,
    diffLen, strLen, spanLen, hc, hd, hi, Ne.symm hne]

/-- negative literals under `!` (`!-1`), literals starting with 4-7 (`!4`), identifiers starting
with one of `ENHLWXYZO` (`!Enemy`) -/
theorem unary_glue_not_witness :
    lex (printUnary '!' (printInt ⟨true, .dec⟩ (-1))) = ([.difficulty ['!', '-'], .int ['1']], .eof) ∧
    lex (printUnary '!' (printInt ⟨true, .dec⟩ 4)) = ([.difficulty ['!', '4']], .eof) ∧
    lex "!Enemy".toList = ([.difficulty ['!', 'E'], .word "nemy".toList], .eof) ∧
    evalLiteral (printUnary '!' (printInt ⟨true, .dec⟩ 4)) = .other := by decide

example : isDiffChar '-' = true ∧ isDiffChar '4' = true ∧ isDiffChar 'E' = true := by decide

/-- every negative literal of a signed format under `!` is affected (`-` is in the class) -/
theorem unary_glue_not_negative (f : IntFormat) (v : Int32) (hs : f.signed = true) (hv : v.toInt < 0) :
    ∃ n s, 2 ≤ n ∧ lexOne (printUnary '!' (printInt f v)) = .tok (.difficulty s) n := by
  have hhead := (printInt_head_minus_iff f v).mpr ⟨hs, hv⟩
  cases hp : printInt f v with
  | nil => rw [hp] at hhead; simp at hhead
  | cons c t =>
    rw [hp] at hhead
    simp only [List.head?_cons, Option.some.injEq] at hhead
    subst hhead
    obtain ⟨n, hn, h⟩ := unary_glue_not '-' t (by decide)
    exact ⟨n, _, hn, h⟩

/-! ## strings -/

theorem unescapeLoop_escapeBody (s : List Char) :
    ∀ rest out, unescapeLoop (escapeBody s ++ rest) false out = unescapeLoop rest false (out ++ s) := by
  induction s with
  | nil => intro rest out; simp [escapeBody]
  | cons c cs ih =>
    intro rest out
    have hcons : escapeBody (c :: cs) = escapeChar c ++ escapeBody cs := by simp [escapeBody]
    rw [hcons, List.append_assoc]
    have key : unescapeLoop (escapeChar c ++ (escapeBody cs ++ rest)) false out
        = unescapeLoop (escapeBody cs ++ rest) false (out ++ [c]) := by
      unfold escapeChar
      split
      · rename_i h; subst h; simp [unescapeLoop, unescapeChar]
      · split
        · rename_i h; subst h; simp [unescapeLoop, unescapeChar]
        · split
          · rename_i h; subst h; simp [unescapeLoop, unescapeChar]
          · split
            · rename_i h; subst h; simp [unescapeLoop, unescapeChar]
            · split
              · rename_i h; subst h; simp [unescapeLoop, unescapeChar]
              · rename_i h3 _ _
                simp [unescapeLoop, h3]
    rw [key, ih]
    simp

/-- **C08, strings** (the statement of the task: `unescape (escape s) = s`).  For every list of
characters — NUL, quotes, backslashes, CR/LF, any multi-byte scalar value — parsing the printed
literal gives back the characters; in particular `parse_string_literal` neither rejects nor
panics on printed text. -/
theorem string_escape_roundtrip (s : List Char) : unescapeString (escapeString s) = .ok s := by
  unfold unescapeString parseStringLiteral escapeString
  have h1 : ¬ (('"' :: (escapeBody s ++ ['"'])).length < 2) := by simp
  have hl : ('"' :: (escapeBody s ++ ['"'])).getLast? = some '"' := by
    rw [← List.cons_append, List.getLast?_concat]
  have h2 : ¬ (('"' :: (escapeBody s ++ ['"'])).head? ≠ some '"' ∨ ('"' :: (escapeBody s ++ ['"'])).getLast? ≠ some '"') := by
    simp [hl]
  simp only [h1, h2, if_false, List.tail_cons, List.dropLast_concat]
  have := unescapeLoop_escapeBody s [] []
  simp only [List.append_nil, List.nil_append] at this
  rw [this]
  simp [unescapeLoop]

example : escapeString ['a', '"', '\\', '\n', '\r', '\x00', 'é', '日'] = "\"a\\\"\\\\\\n\\r\\0é日\"".toList := by decide
example : unescapeString "\"\\t\"".toList = .err "invalid escape character" := by decide

/-- the printed body followed by the closing quote is matched by the string rule of the lexer up to
and including that quote -/
theorem strBodyLen_escapeBody (s : List Char) :
    ∀ rest, strBodyLen (escapeBody s ++ '"' :: rest) false = some ((escapeBody s).length + 1) := by
  induction s with
  | nil => intro rest; simp [escapeBody, strBodyLen]
  | cons c cs ih =>
    intro rest
    have hcons : escapeBody (c :: cs) = escapeChar c ++ escapeBody cs := by simp [escapeBody]
    rw [hcons, List.append_assoc]
    unfold escapeChar
    split
    · simp [strBodyLen, ih]
    · split
      · simp [strBodyLen, ih]
      · split
        · simp [strBodyLen, ih]
        · split
          · simp [strBodyLen, ih]
          · split
            · simp [strBodyLen, ih]
            · rename_i h1 h2 _ _
              have hq : c ≠ '"' := h1
              have hb : c ≠ '\\' := h2
              simp [strBodyLen, hq, hb, ih]

/-- A printed string literal at the head of the input is exactly one STRING token. -/
theorem lexOne_escapeString (s rest : List Char) :
    lexOne (escapeString s ++ rest) = .tok (.str (escapeString s)) (escapeString s).length := by
  have hb := strBodyLen_escapeBody s rest
  have hq : strLen (escapeString s ++ rest) = (escapeString s).length := by
    simp [escapeString, strLen, hb]
  have hp : isPunctStart '"' = false := by decide
  have hd : isDigit '"' = false := by decide
  have hi : isIdentStart '"' = false := by decide
  have hlen : (escapeString s).length ≠ 0 := by simp [escapeString]
  have htake : (escapeString s ++ rest).take (escapeString s).length = escapeString s := by simp
  have hrest : lexOne (escapeString s ++ rest) =
      .tok (.str ((escapeString s ++ rest).take (escapeString s).length)) (escapeString s).length := by
    have hx : escapeString s ++ rest = '"' :: (escapeBody s ++ '"' :: rest) := by simp [escapeString]
    unfold lexOne
    rw [hq]
    rw [hx]
    simp [punctLen, hp, intLen, floatLen, wordLen, diffLen, spanLen, hd, hi]
    simp [escapeString] at hlen ⊢
  rw [hrest, htake]

/-- **C08, strings, end to end**: the printed literal alone is lexed as one string token whose
text `parse_string_literal` turns back into `s`. -/
theorem string_print_lex_parse (s : List Char) :
    lex (escapeString s) = ([.str (escapeString s)], .eof) ∧
    parseStringLiteral (escapeString s) = .ok s := by
  refine ⟨?_, string_escape_roundtrip s⟩
  have h := lexOne_escapeString s []
  simp only [List.append_nil] at h
  have hws : isWs '"' = false := by decide
  have hx : escapeString s = '"' :: (escapeBody s ++ ['"']) := rfl
  unfold lex
  rw [hx] at h ⊢
  have hd : dropWs ('"' :: (escapeBody s ++ ['"'])) = '"' :: (escapeBody s ++ ['"']) := by simp [dropWs, hws]
  rw [show ('"' :: (escapeBody s ++ ['"'])).length + 1 = ((escapeBody s ++ ['"']).length + 1) + 1 from rfl, lexAll, hd]
  simp only [h, List.drop_length]
  rw [lexAll]
  simp [dropWs]

/-! ## layout: inline vs block style changes only whitespace and the trailing comma

`Doc` is the comma-separated-list skeleton of a script (call arguments, parameter lists, meta
arrays/objects); `blk` is `fmt_comma_separated` with the `try_inline` backtracking, `ess` keeps what
the parser sees (tokens and separating commas; the grammar's `SeparatedTrailing` also accepts the
trailing comma of the block style, which `ess` drops). -/

theorem ess_append (a b : List Piece) : ess (a ++ b) = ess a ++ ess b := by simp [ess]

theorem ess_write (st : LSt) (p : Piece) : ess (st.write p).out = ess st.out ++ ess [p] := by
  unfold LSt.write
  split <;> simp [ess]

theorem ess_newline (st : LSt) : ess st.newline.out = ess st.out := by
  simp [LSt.newline, ess]

theorem ess_tok (s : List Char) : ess [.tok s] = [.tok s] := by simp [ess]
theorem ess_comma : ess [.comma] = [.comma] := by simp [ess]
theorem ess_tcomma : ess [.tcomma] = [] := by simp [ess]
theorem ess_space : ess [.space] = [] := by simp [ess]

mutual
theorem inl_ess (tw : Nat) : ∀ (d : Doc) (st st' : LSt), inl tw d st = some st' →
    ess st'.out = ess st.out ++ d.toks
  | .atom s, st, st', h => by
    simp only [inl, Option.some.injEq] at h
    subst h
    simp [ess_write, ess_tok, Doc.toks]
  | .list op cl items, st, st', h => by
    simp only [inl] at h
    split at h
    · simp at h
    · rename_i st1 h1
      have ih := inlItems_ess tw items true _ _ h1
      split at h
      · simp at h
      · simp only [Option.some.injEq] at h
        subst h
        simp [ess_write, ess_tok, ih, Doc.toks]
theorem inlItems_ess (tw : Nat) : ∀ (ds : Docs) (first : Bool) (st st' : LSt), inlItems tw ds first st = some st' →
    ess st'.out = ess st.out ++ ds.toks first
  | .nil, first, st, st', h => by
    simp only [inlItems, Option.some.injEq] at h
    subst h
    simp [Docs.toks]
  | .cons d ds, first, st, st', h => by
    simp only [inlItems] at h
    split at h
    · simp at h
    · rename_i st1 h1
      have ih1 := inl_ess tw d _ _ h1
      split at h
      · simp at h
      · have ih2 := inlItems_ess tw ds false _ _ h
        rw [ih2, ih1]
        cases first <;> simp [ess_write, ess_comma, ess_space, Docs.toks]
end

/-- the token sequence of an item list with the separators written the way the block style writes
them: after every item but the last -/
def toksSep : Docs → List Piece
  | .nil => []
  | .cons d ds => d.toks ++ (if ds.isNil then [] else [.comma]) ++ toksSep ds

theorem toks_eq_toksSep : ∀ (ds : Docs),
    ds.toks true = toksSep ds ∧ ds.toks false = (if ds.isNil then [] else .comma :: toksSep ds)
  | .nil => by simp [Docs.toks, toksSep, Docs.isNil]
  | .cons d .nil => by simp [Docs.toks, toksSep, Docs.isNil]
  | .cons d (.cons d' ds') => by
    have ih := toks_eq_toksSep (.cons d' ds')
    have h2 : (Docs.cons d' ds').toks false = .comma :: toksSep (.cons d' ds') := by simpa [Docs.isNil] using ih.2
    constructor
    · rw [toksSep, Docs.toks, h2]; simp [Docs.isNil]
    · rw [toksSep, Docs.toks, h2]; simp [Docs.isNil]

theorem ess_with_indent (st : LSt) (n : Nat) : ess ({ st with indent := n }).out = ess st.out := rfl

mutual
theorem blk_ess (tw : Nat) : ∀ (d : Doc) (st : LSt), ess (blk tw d st).out = ess st.out ++ d.toks
  | .atom s, st => by simp [blk, ess_write, ess_tok, Doc.toks]
  | .list op cl items, st => by
    simp only [blk]
    split
    · rename_i st' h
      exact inl_ess tw _ _ _ h
    · rw [ess_write, ess_tok, ess_with_indent, blkItems_ess tw items, ess_with_indent, ess_newline, ess_write, ess_tok]
      simp [Doc.toks, (toks_eq_toksSep items).1]
theorem blkItems_ess (tw : Nat) : ∀ (ds : Docs) (st : LSt), ess (blkItems tw ds st).out = ess st.out ++ toksSep ds
  | .nil, st => by simp [blkItems, toksSep]
  | .cons d ds, st => by
    simp only [blkItems]
    rw [blkItems_ess tw ds, ess_newline, ess_write, blk_ess tw d]
    cases h : ds.isNil <;> simp [toksSep, ess_comma, ess_tcomma, h]
end

/-- **layout changes only whitespace and trailing commas** -/
theorem layout_tokens (w : Nat) (d : Doc) : ess (renderPieces w d) = d.toks := by
  unfold renderPieces
  rw [blk_ess]
  simp [LSt.init, ess]

theorem layout_width_independent (w w' : Nat) (d : Doc) : ess (renderPieces w d) = ess (renderPieces w' d) := by
  rw [layout_tokens, layout_tokens]

example : render 6 (.list ['['] [']'] (.cons (.atom ['1', '0']) (.cons (.atom ['2', '3']) .nil))) = "[\n    10,\n    23,\n]".toList := by decide
example : render 9 (.list ['['] [']'] (.cons (.atom ['1', '0']) (.cons (.atom ['2', '3']) .nil))) = "[10, 23]".toList := by decide

/-! # the expression layer -/

open TruthModel.FmtExpr
local notation "cl" => List.map classify


/-! ## classification of the tokens the printer writes -/

@[simp] theorem cl_lp : classify tLp = .lp := by decide
@[simp] theorem cl_rp : classify tRp = .rp := by decide
@[simp] theorem cl_comma : classify tComma = .comma := by decide
@[simp] theorem cl_quest : classify tQuest = .quest := by decide
@[simp] theorem cl_colon : classify tColon = .colon := by decide
@[simp] theorem cl_lb : classify tLb = .lb := by decide
@[simp] theorem cl_rb : classify tRb = .rb := by decide
@[simp] theorem cl_dot : classify tDot = .dot := by decide
@[simp] theorem cl_at : classify tAt = .at := by decide
@[simp] theorem cl_assign : classify tAssign = .assign := by decide
@[simp] theorem cl_minus : classify tMinus = .op .sub := by decide
@[simp] theorem cl_dollar : classify tDollar = .dollar := by decide
@[simp] theorem cl_percent : classify tPercent = .op .rem := by decide
@[simp] theorem cl_reg : classify tReg = .reg := by decide
@[simp] theorem cl_xcr (inc : Bool) : classify (xcrTok inc) = if inc then .inc else .dec := by
  cases inc <;> decide
@[simp] theorem cl_binop (op : BinOp) : classify op.tok = .op op := by cases op <;> decide
@[simp] theorem cl_labelKw (k : LabelKw) : classify (.word k.text) = .labelKw k := by cases k <;> decide
@[simp] theorem cl_pseudo (k : PseudoKind) : classify (.word k.text) = .ident k.text := by cases k <;> decide
@[simp] theorem pseudoKindOf_text (k : PseudoKind) : pseudoKindOf k.text = some k := by cases k <;> decide
@[simp] theorem cl_true : classify (.word trueText) = .ident trueText := by decide
@[simp] theorem cl_false : classify (.word falseText) = .ident falseText := by decide
@[simp] theorem cl_inf : classify (.word infText) = .ident infText := by decide
@[simp] theorem cl_nan : classify (.word nanText) = .ident nanText := by decide
@[simp] theorem cl_int (s : List Char) : classify (.int s) = .int s := rfl
@[simp] theorem cl_float (s : List Char) : classify (.float s) = .float s := rfl
@[simp] theorem cl_str (s : List Char) : classify (.str s) = .str s := rfl

theorem cl_ident {w : List Char} (h : identOK w = true) : classify (.word w) = .ident w := by
  simpa [identOK, classify] using h

theorem cl_unop_prefix : classify (UnOp.tok .neg) = .op .sub ∧ classify (UnOp.tok .not) = .bang ∧
    classify (UnOp.tok .bitNot) = .tilde := by decide

/-- the three ways a function-like operator is classified -/
theorem cl_unop_func (u : UnOp) (h : u.isPrefix = false) :
    (classify u.tok = .func u) ∨ (u = .encI ∧ classify u.tok = .dollar) ∨ (u = .encF ∧ classify u.tok = .op .rem) := by
  cases u <;> first | (exact absurd h (by decide)) | (left; decide) | (right; left; exact ⟨rfl, by decide⟩) | (right; right; exact ⟨rfl, by decide⟩)

theorem cl_ins (ds : List Char) : classify (.word (insPrefix ++ ds)) = .ins ds := by
  simp [classify, wordClass, insPrefix]


/-! ## stop sets: what may follow a term / an expression -/

/-- a token after which a `Var` / identifier term is complete -/
def stopsTerm : Option PTok → Bool
  | some .lp | some .dot | some .inc | some .dec | some .lb => false
  | _ => true

/-- a token (or the end of input) that closes an `Expr` -/
def closes : Option PTok → Bool
  | none | some .rp | some .comma | some .rb | some .semi => true
  | _ => false

theorem stopsTerm_spec {o : Option PTok} (h : stopsTerm o = true) :
    o ≠ some .lp ∧ o ≠ some .dot ∧ o ≠ some .inc ∧ o ≠ some .dec ∧ o ≠ some .lb := by
  refine ⟨?_, ?_, ?_, ?_, ?_⟩ <;> (intro he; subst he; simp [stopsTerm] at h)

theorem closes_spec {o : Option PTok} (h : closes o = true) :
    stopsTerm o = true ∧ binOpOf o = none ∧ o ≠ some .quest ∧ o ≠ some .colon ∧ startsExpr o = false := by
  cases o with
  | none => simp [stopsTerm, binOpOf, startsExpr]
  | some t => cases t <;> simp_all [closes, stopsTerm, binOpOf, startsExpr]

theorem stopsTerm_op (b : BinOp) : stopsTerm (some (.op b)) = true := rfl

/-! ## the tower -/

theorem pLoop_stop (f lvl : Nat) (a : Expr) (toks : List PTok)
    (h : ∀ op, binOpOf toks.head? = some op → op.level ≠ lvl) : pLoop (f + 1) lvl a toks = some (a, toks) := by
  simp only [pLoop]
  split
  · rename_i op hop
    simp [h op hop]
  · rfl

/-- a term that `pUnary` reads is read by every tier whose operators do not follow it -/
theorem pLevel_of_unary {toks rest : List PTok} {x : Expr} {g : Nat}
    (hU : ∀ f, g ≤ f → pUnary f (toks ++ rest) = some (x, rest)) :
    ∀ (d k : Nat), k + d = 10 → (∀ op, binOpOf rest.head? = some op → op.level < k) →
      ∀ f, g + d + 1 ≤ f → pLevel f k (toks ++ rest) = some (x, rest) := by
  intro d
  induction d with
  | zero =>
    intro k hk _ f hf
    obtain ⟨f', rfl⟩ : ∃ f', f = f' + 1 := ⟨f - 1, by omega⟩
    have h10 : 10 ≤ k := by omega
    simp only [pLevel, h10, if_true]
    exact hU f' (by omega)
  | succ d ih =>
    intro k hk hstop f hf
    obtain ⟨f', rfl⟩ : ∃ f', f = f' + 1 := ⟨f - 1, by omega⟩
    have h10 : ¬ 10 ≤ k := by omega
    simp only [pLevel, h10, if_false]
    rw [ih (k + 1) (by omega) (fun op hop => by have := hstop op hop; omega) f' (by omega)]
    obtain ⟨f'', rfl⟩ : ∃ f'', f' = f'' + 1 := ⟨f' - 1, by omega⟩
    exact pLoop_stop f'' k x rest (fun op hop => by have := hstop op hop; omega)

/-- a result of tier `k0` is the result of every looser tier when no operator follows -/
theorem pLevel_lift {toks rest : List PTok} {x : Expr} {k0 G : Nat} (hk0 : k0 ≤ 10) (hG : 1 ≤ G)
    (h0 : ∀ f, G ≤ f → pLevel f k0 toks = some (x, rest)) (hstop : binOpOf rest.head? = none) :
    ∀ (d k : Nat), k + d = k0 → ∀ f, G + d ≤ f → pLevel f k toks = some (x, rest) := by
  intro d
  induction d with
  | zero =>
    intro k hk f hf
    have : k = k0 := by omega
    subst this
    exact h0 f (by omega)
  | succ d ih =>
    intro k hk f hf
    obtain ⟨f', rfl⟩ : ∃ f', f = f' + 1 := ⟨f - 1, by omega⟩
    have h10 : ¬ 10 ≤ k := by omega
    simp only [pLevel, h10, if_false]
    rw [ih (k + 1) (by omega) f' (by omega)]
    obtain ⟨f'', rfl⟩ : ∃ f'', f' = f'' + 1 := ⟨f' - 1, by omega⟩
    exact pLoop_stop f'' k x rest (fun op hop => by rw [hstop] at hop; cases hop)

theorem pExpr_of_level {toks rest : List PTok} {x : Expr} {f : Nat} (h : pLevel f 0 toks = some (x, rest))
    (hq : rest.head? ≠ some .quest) (hc : rest.head? ≠ some .colon) : pExpr (f + 1) toks = some (x, rest) := by
  simp [pExpr, h, hq, hc]

theorem pTernRhs_of_level {toks rest : List PTok} {x : Expr} {f : Nat} (h : pLevel f 0 toks = some (x, rest))
    (hq : rest.head? ≠ some .quest) : pTernRhs (f + 1) toks = some (x, rest) := by
  simp [pTernRhs, h, hq]


/-! ## numbers -/

/-- text of a number without sign that reads back as `v` -/
def PlainNum (s : List Char) (v : Int32) : Prop :=
  s.head? ≠ some '-' ∧ s ≠ trueText ∧ s ≠ falseText ∧ litIntUnsigned s = some v

/-- text of a number with a sign whose magnitude reads back as `-v` -/
def NegNum (s : List Char) (v : Int32) : Prop := ∃ r, s = '-' :: r ∧ litIntUnsigned r = some (-v)

theorem numToks_neg {s : List Char} {v : Int32} (h : NegNum s v) :
    ∃ r, numToks s = [tMinus, .int r] ∧ litIntUnsigned r = some (-v) := by
  obtain ⟨r, rfl, hr⟩ := h
  exact ⟨r, rfl, hr⟩

theorem numToks_plain {s : List Char} {v : Int32} (h : PlainNum s v) : numToks s = [.int s] := by
  obtain ⟨h1, h2, h3, _⟩ := h
  unfold numToks
  split
  · simp at h1
  · simp [h2, h3]

theorem plain_dec (n : Nat) (hn : n < 4294967296) : PlainNum (natDigits 10 n) (UInt32.ofNat n).toInt32 := by
  have hd := natDigits10_isDigit n
  refine ⟨natDigits_head_ne_minus (by omega) (by omega) n, ?_, ?_, litIntUnsigned_dec n hn⟩
  · intro h
    have := hd 't' (by rw [h]; simp [trueText])
    revert this; decide
  · intro h
    have := hd 'f' (by rw [h]; simp [falseText])
    revert this; decide

theorem plain_hex (n : Nat) (hn : n < 4294967296) : PlainNum ('0' :: 'x' :: natDigits 16 n) (UInt32.ofNat n).toInt32 :=
  ⟨by simp, by simp [trueText], by simp [falseText], litIntUnsigned_hex n hn⟩

theorem plain_bin (n : Nat) (hn : n < 4294967296) : PlainNum ('0' :: 'b' :: natDigits 2 n) (UInt32.ofNat n).toInt32 :=
  ⟨by simp, by simp [trueText], by simp [falseText], litIntUnsigned_bin n hn⟩

theorem shape_printI32 (v : Int32) :
    (v.toInt < 0 ∧ NegNum (printI32 v) v) ∨ (¬ v.toInt < 0 ∧ PlainNum (printI32 v) v) := by
  unfold printI32
  split
  · rename_i h
    refine Or.inl ⟨h, _, rfl, ?_⟩
    have := (plain_dec (uval (-v)) (uval_lt _)).2.2.2
    rw [this, ofNat_uval]
  · rename_i h
    refine Or.inr ⟨h, ?_⟩
    have := plain_dec (uval v) (uval_lt _)
    rwa [ofNat_uval] at this

theorem shape_signedHex (v : Int32) :
    (v.toInt < 0 ∧ NegNum (signedRadix ['0', 'x'] 16 v) v) ∨ (¬ v.toInt < 0 ∧ PlainNum (signedRadix ['0', 'x'] 16 v) v) := by
  unfold signedRadix
  split
  · rename_i h
    refine Or.inl ⟨h, _, rfl, ?_⟩
    have := (plain_hex (uval (-v)) (uval_lt _)).2.2.2
    simp only [List.cons_append, List.nil_append]
    rw [this, ofNat_uval]
  · rename_i h
    refine Or.inr ⟨h, ?_⟩
    have := plain_hex (uval v) (uval_lt _)
    simp only [List.cons_append, List.nil_append]
    rwa [ofNat_uval] at this

theorem shape_signedBin (v : Int32) :
    (v.toInt < 0 ∧ NegNum (signedRadix ['0', 'b'] 2 v) v) ∨ (¬ v.toInt < 0 ∧ PlainNum (signedRadix ['0', 'b'] 2 v) v) := by
  unfold signedRadix
  split
  · rename_i h
    refine Or.inl ⟨h, _, rfl, ?_⟩
    have := (plain_bin (uval (-v)) (uval_lt _)).2.2.2
    simp only [List.cons_append, List.nil_append]
    rw [this, ofNat_uval]
  · rename_i h
    refine Or.inr ⟨h, ?_⟩
    have := plain_bin (uval v) (uval_lt _)
    simp only [List.cons_append, List.nil_append]
    rwa [ofNat_uval] at this

/-- the four shapes of a printed integer literal, and what `norm` makes of them -/
theorem printInt_shape (f : IntFormat) (v : Int32) :
    (printInt f v = falseText ∧ normInt v f = .var { sigil := none, name := .normal falseText }) ∨
    (printInt f v = trueText ∧ normInt v f = .var { sigil := none, name := .normal trueText }) ∨
    (NegNum (printInt f v) v ∧ normInt v f = .unop .neg (.litInt (-v) signedDec)) ∨
    (PlainNum (printInt f v) v ∧ normInt v f = .litInt v signedDec) := by
  obtain ⟨signed, radix⟩ := f
  have hu10 : PlainNum (natDigits 10 (uval v)) v := by
    have := plain_dec (uval v) (uval_lt _); rwa [ofNat_uval] at this
  have hu16 : PlainNum ('0' :: 'x' :: natDigits 16 (uval v)) v := by
    have := plain_hex (uval v) (uval_lt _); rwa [ofNat_uval] at this
  have hu2 : PlainNum ('0' :: 'b' :: natDigits 2 (uval v)) v := by
    have := plain_bin (uval v) (uval_lt _); rwa [ofNat_uval] at this
  cases radix <;> cases signed <;> simp only [printInt]
  · exact Or.inr (Or.inr (Or.inr ⟨hu10, by simp [normInt]⟩))
  · rcases shape_printI32 v with ⟨h, hn⟩ | ⟨h, hp⟩
    · exact Or.inr (Or.inr (Or.inl ⟨hn, by simp [normInt, h]⟩))
    · exact Or.inr (Or.inr (Or.inr ⟨hp, by simp [normInt, h]⟩))
  · exact Or.inr (Or.inr (Or.inr ⟨hu16, by simp [normInt]⟩))
  · rcases shape_signedHex v with ⟨h, hn⟩ | ⟨h, hp⟩
    · exact Or.inr (Or.inr (Or.inl ⟨hn, by simp [normInt, h]⟩))
    · exact Or.inr (Or.inr (Or.inr ⟨hp, by simp [normInt, h]⟩))
  · exact Or.inr (Or.inr (Or.inr ⟨hu2, by simp [normInt]⟩))
  · rcases shape_signedBin v with ⟨h, hn⟩ | ⟨h, hp⟩
    · exact Or.inr (Or.inr (Or.inl ⟨hn, by simp [normInt, h]⟩))
    · exact Or.inr (Or.inr (Or.inr ⟨hp, by simp [normInt, h]⟩))
  · split
    · rename_i h0; exact Or.inl ⟨rfl, by simp [normInt, h0]⟩
    · rename_i h0
      split
      · rename_i h1; exact Or.inr (Or.inl ⟨rfl, by simp [normInt, h1]⟩)
      · rename_i h1
        simp only [Bool.false_eq_true, if_false]
        exact Or.inr (Or.inr (Or.inr ⟨hu16, by simp [normInt, h0, h1]⟩))
  · split
    · rename_i h0; exact Or.inl ⟨rfl, by simp [normInt, h0]⟩
    · rename_i h0
      split
      · rename_i h1; exact Or.inr (Or.inl ⟨rfl, by simp [normInt, h1]⟩)
      · rename_i h1
        simp only [if_true]
        rcases shape_printI32 v with ⟨h, hn⟩ | ⟨h, hp⟩
        · exact Or.inr (Or.inr (Or.inl ⟨hn, by simp [normInt, h0, h1, h]⟩))
        · exact Or.inr (Or.inr (Or.inr ⟨hp, by simp [normInt, h0, h1, h]⟩))


/-! ## fuel that suffices for a printed expression -/

mutual
def cost : Expr → Nat
  | .ternary c l r => max (cost c) (max (cost l) (cost r)) + 20
  | .binop a _ b => max (cost a) (cost b) + 20
  | .unop _ x => cost x + 20
  | .call _ ps as => costPs ps (costAs as) + 4
  | .diffSwitch cs => costCs cs + 10
  | _ => 4
def costPs : Pseudos → Nat → Nat
  | .nil, t => t
  | .cons _ e ps, t => max (cost e + 20) (costPs ps t) + 1
def costAs : Exprs → Nat
  | .nil => 1
  | .cons e es => max (cost e + 20) (costAs es) + 1
def costCs : Cases → Nat
  | .nil => 1
  | .blank cs => costCs cs + 1
  | .some e cs => max (cost e + 20) (costCs cs) + 1
end

/-- what is proved of every printable expression, by induction -/
structure Good (e : Expr) : Prop where
  unary : ∀ f rest, cost e ≤ f → stopsTerm rest.head? = true →
    pUnary f (cl (printE false e) ++ rest) = some (norm e, rest)
  term : negLit e = false → ∀ f rest, cost e ≤ f → stopsTerm rest.head? = true →
    pTerm f (cl (printE false e) ++ rest) = some (norm e, rest)
  inner : ∀ f rest, cost e + 12 ≤ f → closes rest.head? = true →
    pExpr f (cl (printE true e) ++ rest) = some (norm e, rest)
  head : ∃ t r, cl (printE false e) = t :: r ∧ startsExpr (some t) = true

theorem Good.level {e : Expr} (h : Good e) (k : Nat) (hk : k ≤ 10) (f : Nat) (rest : List PTok)
    (hf : cost e + 11 ≤ f + k) (hst : stopsTerm rest.head? = true)
    (hop : ∀ op, binOpOf rest.head? = some op → op.level < k) :
    pLevel f k (cl (printE false e) ++ rest) = some (norm e, rest) :=
  pLevel_of_unary (g := cost e) (fun f hf => h.unary f rest hf hst) (10 - k) k (by omega) hop f (by omega)

theorem Good.exprF {e : Expr} (h : Good e) (f : Nat) (rest : List PTok) (hf : cost e + 12 ≤ f)
    (hc : closes rest.head? = true) : pExpr f (cl (printE false e) ++ rest) = some (norm e, rest) := by
  obtain ⟨hst, hb, hq, hcol, _⟩ := closes_spec hc
  obtain ⟨f', rfl⟩ : ∃ f', f = f' + 1 := ⟨f - 1, by omega⟩
  exact pExpr_of_level (h.level 0 (by omega) f' rest (by omega) hst (fun op hop => by rw [hb] at hop; cases hop)) hq hcol

theorem pUnary_of_nonprefix (f : Nat) (t : PTok) (r : List PTok) (h1 : t ≠ .op .sub) (h2 : t ≠ .tilde)
    (h3 : t ≠ .bang) : pUnary (f + 1) (t :: r) = pTerm f (t :: r) := by
  cases t with
  | op b => cases b <;> simp_all [pUnary]
  | _ => simp_all [pUnary]

/-- an expression that prints the same with and without `SuppressParens` and is read by `pUnary` -/
theorem good_of_unary {e : Expr} (hsame : printE true e = printE false e)
    (hU : ∀ f rest, cost e ≤ f → stopsTerm rest.head? = true →
      pUnary f (cl (printE false e) ++ rest) = some (norm e, rest))
    (hT : negLit e = false → ∀ f rest, cost e ≤ f → stopsTerm rest.head? = true →
      pTerm f (cl (printE false e) ++ rest) = some (norm e, rest))
    (hH : ∃ t r, cl (printE false e) = t :: r ∧ startsExpr (some t) = true) : Good e := by
  refine ⟨hU, hT, ?_, hH⟩
  intro f rest hf hc
  obtain ⟨hst, hb, hq, hcol, _⟩ := closes_spec hc
  obtain ⟨f', rfl⟩ : ∃ f', f = f' + 1 := ⟨f - 1, by omega⟩
  rw [hsame]
  exact pExpr_of_level
    (pLevel_of_unary (g := cost e) (fun f hf => hU f rest hf hst) 10 0 (by omega)
      (fun op hop => by rw [hb] at hop; cases hop) f' (by omega)) hq hcol

/-- a term whose first token is not a prefix operator -/
theorem good_of_term {e : Expr} (hsame : printE true e = printE false e) (hc : 2 ≤ cost e)
    (hT : ∀ f rest, cost e ≤ f + 1 → stopsTerm rest.head? = true →
      pTerm f (cl (printE false e) ++ rest) = some (norm e, rest))
    (hH : ∃ t r, cl (printE false e) = t :: r ∧ startsExpr (some t) = true ∧ t ≠ .op .sub ∧ t ≠ .tilde ∧ t ≠ .bang) :
    Good e := by
  obtain ⟨t, r, htr, hs, h1, h2, h3⟩ := hH
  refine good_of_unary hsame ?_ (fun _ f rest hf hst => hT f rest (by omega) hst) ⟨t, r, htr, hs⟩
  intro f rest hf hst
  obtain ⟨f', rfl⟩ : ∃ f', f = f' + 1 := ⟨f - 1, by omega⟩
  have := hT f' rest (by omega) hst
  rw [htr] at this ⊢
  rw [List.cons_append, pUnary_of_nonprefix f' t _ h1 h2 h3]
  exact this

/-! ## variables -/

theorem int32_neg_mul_neg_one (n : Int32) : (-n) * (-1) = n := by
  rw [Int32.mul_neg, Int32.mul_one, Int32.neg_neg]

theorem pVarName_name (sg : Option Sigil) (nm : VarName) (rest : List PTok)
    (hok : varOK { sigil := sg, name := nm } = true) :
    pVarName sg (cl (nameToks nm) ++ rest) = some ({ sigil := sg, name := nm }, rest) := by
  cases nm with
  | normal id =>
    have : identOK id = true := by simpa [varOK] using hok
    simp [nameToks, cl_ident this, pVarName]
  | reg n =>
    rcases shape_printI32 n with ⟨_, hn⟩ | ⟨_, hp⟩
    · obtain ⟨r, hr, hv⟩ := numToks_neg hn
      simp [nameToks, hr, pVarName, hv, int32_neg_mul_neg_one]
    · have hv := hp.2.2.2
      simp [nameToks, numToks_plain hp, pVarName, hv]

theorem pVar_varToks (v : Var) (rest : List PTok) (hok : varOK v = true) :
    pVar (cl (varToks v) ++ rest) = some (v, rest) := by
  obtain ⟨sg, nm⟩ := v
  have hn := pVarName_name sg nm rest hok
  cases sg with
  | none =>
    cases nm with
    | normal id =>
      have : identOK id = true := by simpa [varOK] using hok
      simp [varToks, sigilToks, nameToks, cl_ident this, pVar, pVarName]
    | reg n =>
      have hn' := hn
      simp only [nameToks] at hn'
      simpa [varToks, sigilToks, nameToks, pVar] using hn'
  | some s =>
    cases s <;> simpa [varToks, sigilToks, pVar] using hn


theorem pVarPost_stop (v : Var) (rest : List PTok) (h : stopsTerm rest.head? = true) :
    pVarPost v rest = some (.var v, rest) := by
  obtain ⟨_, _, h3, h4, h5⟩ := stopsTerm_spec h
  simp [pVarPost, h3, h4, h5]

/-- `ExprTerm` on the tokens of a variable hands over to the postfix check -/
theorem pTerm_var (f : Nat) (v : Var) (rest : List PTok) (hok : varOK v = true)
    (h1 : rest.head? ≠ some .lp) (h2 : rest.head? ≠ some .dot) :
    pTerm (f + 1) (cl (varToks v) ++ rest) = pVarPost v rest := by
  have hv := pVar_varToks v rest hok
  obtain ⟨sg, nm⟩ := v
  cases sg with
  | none =>
    cases nm with
    | normal id =>
      have : identOK id = true := by simpa [varOK] using hok
      simp [varToks, sigilToks, nameToks, cl_ident this, pTerm, h1, h2]
    | reg n =>
      simp [varToks, sigilToks, nameToks] at hv ⊢
      simp [pTerm, hv]
  | some s =>
    cases nm with
    | normal id =>
      have : identOK id = true := by simpa [varOK] using hok
      cases s <;> (simp [varToks, sigilToks, nameToks, cl_ident this] at hv ⊢; simp [pTerm, hv])
    | reg n =>
      cases s <;> (simp [varToks, sigilToks, nameToks] at hv ⊢; simp [pTerm, hv])

theorem varToks_head (v : Var) (hok : varOK v = true) :
    ∃ t r, cl (varToks v) = t :: r ∧ startsExpr (some t) = true ∧ t ≠ .op .sub ∧ t ≠ .tilde ∧ t ≠ .bang := by
  obtain ⟨sg, nm⟩ := v
  cases sg with
  | none =>
    cases nm with
    | normal id =>
      have : identOK id = true := by simpa [varOK] using hok
      exact ⟨.ident id, [], by simp [varToks, sigilToks, nameToks, cl_ident this], rfl, by simp, by simp, by simp⟩
    | reg n => exact ⟨.reg, _, by simp [varToks, sigilToks, nameToks]; rfl, rfl, by simp, by simp, by simp⟩
  | some s =>
    cases s with
    | int => exact ⟨.dollar, _, by simp [varToks, sigilToks]; rfl, rfl, by simp, by simp, by simp⟩
    | float => exact ⟨.op .rem, _, by simp [varToks, sigilToks]; rfl, rfl, by simp, by simp, by simp⟩

theorem good_var (v : Var) (hok : varOK v = true) : Good (.var v) := by
  refine good_of_term rfl (by simp [cost]) ?_ (by simpa [printE] using varToks_head v hok)
  intro f rest hf hst
  obtain ⟨f', rfl⟩ : ∃ f', f = f' + 1 := ⟨f - 1, by simp [cost] at hf; omega⟩
  obtain ⟨h1, h2, _, _, _⟩ := stopsTerm_spec hst
  simp only [printE, norm]
  rw [pTerm_var f' v rest hok h1 h2, pVarPost_stop v rest hst]

theorem good_xcrement (pre inc : Bool) (v : Var) (hok : varOK v = true) : Good (.xcrement pre inc v) := by
  cases pre with
  | true =>
    refine good_of_term rfl (by simp [cost]) ?_ ?_
    · intro f rest hf hst
      obtain ⟨f', rfl⟩ : ∃ f', f = f' + 1 := ⟨f - 1, by simp [cost] at hf; omega⟩
      have hv := pVar_varToks v rest hok
      cases inc <;> simp [printE, norm, pTerm, hv]
    · cases inc
      · exact ⟨.dec, _, by simp [printE]; rfl, rfl, by simp, by simp, by simp⟩
      · exact ⟨.inc, _, by simp [printE]; rfl, rfl, by simp, by simp, by simp⟩
  | false =>
    refine good_of_term rfl (by simp [cost]) ?_ ?_
    · intro f rest hf hst
      obtain ⟨f', rfl⟩ : ∃ f', f = f' + 1 := ⟨f - 1, by simp [cost] at hf; omega⟩
      have := pTerm_var f' v ((if inc then PTok.inc else PTok.dec) :: rest) hok (by cases inc <;> simp) (by cases inc <;> simp)
      simp only [printE, norm, Bool.false_eq_true, if_false, List.map_append, List.map_cons, List.map_nil,
        cl_xcr, List.append_assoc, List.cons_append, List.nil_append]
      rw [this]
      cases inc <;> simp [pVarPost]
    · obtain ⟨t, r, htr, hs, h1, h2, h3⟩ := varToks_head v hok
      exact ⟨t, r ++ [if inc then PTok.inc else PTok.dec], by simp [printE, htr], hs, h1, h2, h3⟩

/-! ## literals -/

theorem good_litInt (v : Int32) (f : IntFormat) : Good (.litInt v f) := by
  rcases printInt_shape f v with ⟨ht, hn⟩ | ⟨ht, hn⟩ | ⟨hneg, hn⟩ | ⟨hp, hn⟩
  · refine good_of_term rfl (by simp [cost]) ?_ ⟨.ident falseText, [], by rw [show printE false (.litInt v f) = numToks (printInt f v) from rfl, ht]; decide, rfl, by simp, by simp, by simp⟩
    intro g rest hg hst
    obtain ⟨g', rfl⟩ : ∃ g', g = g' + 1 := ⟨g - 1, by simp [cost] at hg; omega⟩
    obtain ⟨h1, h2, _, _, _⟩ := stopsTerm_spec hst
    have hnum : numToks falseText = [.word falseText] := by decide
    simp [printE, norm, ht, hn, hnum, pTerm, h1, h2, pVarPost_stop _ rest hst]
  · refine good_of_term rfl (by simp [cost]) ?_ ⟨.ident trueText, [], by rw [show printE false (.litInt v f) = numToks (printInt f v) from rfl, ht]; decide, rfl, by simp, by simp, by simp⟩
    intro g rest hg hst
    obtain ⟨g', rfl⟩ : ∃ g', g = g' + 1 := ⟨g - 1, by simp [cost] at hg; omega⟩
    obtain ⟨h1, h2, _, _, _⟩ := stopsTerm_spec hst
    have hnum : numToks trueText = [.word trueText] := by decide
    simp [printE, norm, ht, hn, hnum, pTerm, h1, h2, pVarPost_stop _ rest hst]
  · obtain ⟨r, hr, hv⟩ := numToks_neg hneg
    refine good_of_unary rfl ?_ ?_ ⟨.op .sub, [.int r], by simp [printE, hr], rfl⟩
    · intro g rest hg hst
      obtain ⟨g', rfl⟩ : ∃ g', g = g' + 2 := ⟨g - 2, by simp [cost] at hg; omega⟩
      simp [printE, norm, hn, hr, pUnary, pTerm, hv]
    · intro hnl
      obtain ⟨r', hr', _⟩ := hneg
      simp [negLit, hr'] at hnl
  · have hv := hp.2.2.2
    refine good_of_term rfl (by simp [cost]) ?_ ⟨.int (printInt f v), [], by simp [printE, numToks_plain hp], rfl, by simp, by simp, by simp⟩
    intro g rest hg hst
    obtain ⟨g', rfl⟩ : ∃ g', g = g' + 1 := ⟨g - 1, by simp [cost] at hg; omega⟩
    simp [printE, norm, hn, numToks_plain hp, pTerm, hv]

theorem good_litFloat (neg : Bool) (b : FloatBody) : Good (.litFloat neg b) := by
  cases b with
  | num t =>
    cases neg with
    | false =>
      refine good_of_term rfl (by simp [cost]) ?_ ⟨.float t, [], by simp [printE, floatToks], rfl, by simp, by simp, by simp⟩
      intro g rest hg hst
      obtain ⟨g', rfl⟩ : ∃ g', g = g' + 1 := ⟨g - 1, by simp [cost] at hg; omega⟩
      simp [printE, norm, normFloat, wrapNeg, floatToks, pTerm]
    | true =>
      refine good_of_unary rfl ?_ (by simp [negLit]) ⟨.op .sub, [.float t], by simp [printE, floatToks], rfl⟩
      intro g rest hg hst
      obtain ⟨g', rfl⟩ : ∃ g', g = g' + 2 := ⟨g - 2, by simp [cost] at hg; omega⟩
      simp [printE, norm, normFloat, wrapNeg, floatToks, pUnary, pTerm]
  | inf =>
    cases neg with
    | false =>
      refine good_of_term rfl (by simp [cost]) ?_ ⟨.ident infText, [], by simp [printE, floatToks], rfl, by simp, by simp, by simp⟩
      intro g rest hg hst
      obtain ⟨g', rfl⟩ : ∃ g', g = g' + 1 := ⟨g - 1, by simp [cost] at hg; omega⟩
      obtain ⟨h1, h2, _, _, _⟩ := stopsTerm_spec hst
      simp [printE, norm, normFloat, wrapNeg, floatToks, pTerm, h1, h2, pVarPost_stop _ rest hst]
    | true =>
      refine good_of_unary rfl ?_ (by simp [negLit]) ⟨.op .sub, [.ident infText], by simp [printE, floatToks], rfl⟩
      intro g rest hg hst
      obtain ⟨g', rfl⟩ : ∃ g', g = g' + 2 := ⟨g - 2, by simp [cost] at hg; omega⟩
      obtain ⟨h1, h2, _, _, _⟩ := stopsTerm_spec hst
      simp [printE, norm, normFloat, wrapNeg, floatToks, pUnary, pTerm, h1, h2, pVarPost_stop _ rest hst]
  | nan =>
    refine good_of_term rfl (by simp [cost]) ?_ ⟨.ident nanText, [], by simp [printE, floatToks], rfl, by simp, by simp, by simp⟩
    intro g rest hg hst
    obtain ⟨g', rfl⟩ : ∃ g', g = g' + 1 := ⟨g - 1, by simp [cost] at hg; omega⟩
    obtain ⟨h1, h2, _, _, _⟩ := stopsTerm_spec hst
    simp [printE, norm, normFloat, floatToks, pTerm, h1, h2, pVarPost_stop _ rest hst]

theorem good_litString (s : List Char) : Good (.litString s) := by
  refine good_of_term rfl (by simp [cost]) ?_ ⟨.str (escapeString s), [], by simp [printE], rfl, by simp, by simp, by simp⟩
  intro g rest hg hst
  obtain ⟨g', rfl⟩ : ∃ g', g = g' + 1 := ⟨g - 1, by simp [cost] at hg; omega⟩
  have := string_escape_roundtrip s
  unfold unescapeString at this
  simp [printE, norm, pTerm, this]

theorem good_labelProp (kw : LabelKw) (l : List Char) (hl : identOK l = true) : Good (.labelProp kw l) := by
  refine good_of_term rfl (by simp [cost]) ?_ ⟨.labelKw kw, _, by simp [printE]; rfl, rfl, by simp, by simp, by simp⟩
  intro g rest hg hst
  obtain ⟨g', rfl⟩ : ∃ g', g = g' + 1 := ⟨g - 1, by simp [cost] at hg; omega⟩
  simp [printE, norm, pTerm, cl_ident hl]

theorem good_enumConst (en id : List Char) (h1 : identOK en = true) (h2 : identOK id = true) : Good (.enumConst en id) := by
  refine good_of_term rfl (by simp [cost]) ?_ ⟨.ident en, _, by simp [printE, cl_ident h1]; rfl, rfl, by simp, by simp, by simp⟩
  intro g rest hg hst
  obtain ⟨g', rfl⟩ : ∃ g', g = g' + 1 := ⟨g - 1, by simp [cost] at hg; omega⟩
  simp [printE, norm, pTerm, cl_ident h1, cl_ident h2]


/-! ## parenthesised compounds -/

/-- an expression that `fmt_optional_parens` wraps: everything follows from reading its inside -/
theorem good_of_inner {e : Expr} (hwrap : printE false e = tLp :: (printE true e ++ [tRp])) (hc : 3 ≤ cost e)
    (hin : ∀ f rest, cost e ≤ f + 2 → closes rest.head? = true →
      pExpr f (cl (printE true e) ++ rest) = some (norm e, rest)) : Good e := by
  have hT : ∀ f rest, cost e ≤ f + 1 → pTerm f (cl (printE false e) ++ rest) = some (norm e, rest) := by
    intro f rest hf
    obtain ⟨f', rfl⟩ : ∃ f', f = f' + 1 := ⟨f - 1, by omega⟩
    have h := hin f' (.rp :: rest) (by omega) rfl
    simp [hwrap, pTerm, h]
  refine ⟨?_, fun _ f rest hf _ => hT f rest (by omega), fun f rest hf hc => hin f rest (by omega) hc,
    ⟨.lp, _, by rw [hwrap]; rfl, rfl⟩⟩
  intro f rest hf _
  obtain ⟨f', rfl⟩ : ∃ f', f = f' + 1 := ⟨f - 1, by omega⟩
  have := hT f' rest (by omega)
  rw [hwrap] at this ⊢
  simp only [List.map_cons, cl_lp, List.cons_append] at this ⊢
  rw [pUnary_of_nonprefix f' .lp _ (by simp) (by simp) (by simp)]
  exact this

theorem pLevel_step {f k : Nat} {toks r : List PTok} {a : Expr} (hk : ¬ 10 ≤ k)
    (h : pLevel f (k + 1) toks = some (a, r)) : pLevel (f + 1) k toks = pLoop f k a r := by
  simp only [pLevel, hk, if_false, h]

theorem pLoop_step_op {f k : Nat} {a b : Expr} {op : BinOp} {r r2 : List PTok} (h : op.level = k)
    (h2 : pLevel f (k + 1) r = some (b, r2)) :
    pLoop (f + 1) k a (.op op :: r) = pLoop f k (.binop a op b) r2 := by
  simp [pLoop, binOpOf, h, h2]

theorem BinOp.level_le (op : BinOp) : op.level ≤ 9 := by cases op <;> simp [BinOp.level]

theorem good_binop {a b : Expr} (op : BinOp) (ha : Good a) (hb : Good b) : Good (.binop a op b) := by
  refine good_of_inner (by simp [printE, wrap]) (by simp [cost]) ?_
  intro f rest hf hc
  obtain ⟨hst, hbo, hq, hcol, _⟩ := closes_spec hc
  have hL := BinOp.level_le op
  simp only [cost] at hf
  -- tier of the operator
  have base : ∀ g, max (cost a) (cost b) + 13 - op.level ≤ g →
      pLevel g op.level (cl (printE false a) ++ (.op op :: (cl (printE false b) ++ rest))) =
        some (.binop (norm a) op (norm b), rest) := by
    intro g hg
    obtain ⟨g', rfl⟩ : ∃ g', g = g' + 3 := ⟨g - 3, by omega⟩
    have h10 : ¬ 10 ≤ op.level := by omega
    have h1 := ha.level (op.level + 1) (by omega) (g' + 2) (.op op :: (cl (printE false b) ++ rest)) (by omega)
      rfl (fun op' hop' => by simp [binOpOf] at hop'; subst hop'; omega)
    have h2 := hb.level (op.level + 1) (by omega) (g' + 1) rest (by omega) hst
      (fun op' hop' => by rw [hbo] at hop'; cases hop')
    have h3 := pLoop_stop g' op.level (.binop (norm a) op (norm b)) rest
      (fun op' hop' => by rw [hbo] at hop'; cases hop')
    rw [pLevel_step h10 h1, pLoop_step_op rfl h2]
    exact h3
  obtain ⟨f', rfl⟩ : ∃ f', f = f' + 1 := ⟨f - 1, by omega⟩
  have h0 := pLevel_lift (k0 := op.level) (by omega) (by omega) base hbo op.level 0 (by omega) f' (by omega)
  have := pExpr_of_level h0 hq hcol
  simpa [printE, wrap, norm] using this

theorem pTernRhs_good {x : Expr} (hx : Good x) (g : Nat) (rest : List PTok) (hg : cost x + 12 ≤ g)
    (hst : stopsTerm rest.head? = true) (hbo : binOpOf rest.head? = none) (hq : rest.head? ≠ some .quest) :
    pTernRhs g (cl (printE false x) ++ rest) = some (norm x, rest) := by
  obtain ⟨g', rfl⟩ : ∃ g', g = g' + 1 := ⟨g - 1, by omega⟩
  exact pTernRhs_of_level (hx.level 0 (by omega) g' rest (by omega) hst (fun op hop => by rw [hbo] at hop; cases hop)) hq

theorem good_ternary {c l r : Expr} (hc : Good c) (hl : Good l) (hr : Good r) : Good (.ternary c l r) := by
  refine good_of_inner (by simp [printE, wrap]) (by simp [cost]) ?_
  intro f rest hf hcl
  obtain ⟨hst, hbo, hq, hcol, _⟩ := closes_spec hcl
  simp only [cost] at hf
  obtain ⟨f', rfl⟩ : ∃ f', f = f' + 1 := ⟨f - 1, by omega⟩
  have h1 := hc.level 0 (by omega) f' (.quest :: (cl (printE false l) ++ (.colon :: (cl (printE false r) ++ rest))))
    (by omega) rfl (fun op hop => by simp [binOpOf] at hop)
  have h2 := pTernRhs_good hl f' (.colon :: (cl (printE false r) ++ rest)) (by omega) rfl rfl (by simp)
  have h3 := pTernRhs_good hr f' rest (by omega) hst hbo hq
  simp [printE, wrap, norm, pExpr, h1, h2, h3]

/-- the three operators written in front of their operand -/
theorem prefix_tok (op : UnOp) (hp : op.isPrefix = true) :
    ∃ pt, classify op.tok = pt ∧ startsExpr (some pt) = true ∧
      ∀ g r x r2, pTerm g r = some (x, r2) → pUnary (g + 1) (pt :: r) = some (.unop op x, r2) := by
  cases op with
  | neg => exact ⟨.op .sub, by decide, rfl, fun g r x r2 h => by simp [pUnary, h]⟩
  | not => exact ⟨.bang, by decide, rfl, fun g r x r2 h => by simp [pUnary, h]⟩
  | bitNot => exact ⟨.tilde, by decide, rfl, fun g r x r2 h => by simp [pUnary, h]⟩
  | _ => exact absurd hp (by decide)

theorem good_prefix {x : Expr} (op : UnOp) (hp : op.isPrefix = true) (hx : Good x) (hneg : negLit x = false) :
    Good (.unop op x) := by
  obtain ⟨pt, hpt, _, hun⟩ := prefix_tok op hp
  refine good_of_inner (by simp [printE, hp, wrap]) (by simp [cost]) ?_
  intro f rest hf hcl
  obtain ⟨hst, hbo, hq, hcol, _⟩ := closes_spec hcl
  simp only [cost] at hf
  obtain ⟨f', rfl⟩ : ∃ f', f = f' + 1 := ⟨f - 1, by omega⟩
  have hU : ∀ g, cost x + 1 ≤ g → pUnary g ((pt :: cl (printE false x)) ++ rest) = some (.unop op (norm x), rest) := by
    intro g hg
    obtain ⟨g', rfl⟩ : ∃ g', g = g' + 1 := ⟨g - 1, by omega⟩
    rw [List.cons_append]
    exact hun _ _ _ _ (hx.term hneg g' rest (by omega) hst)
  have h0 := pLevel_of_unary hU 10 0 (by omega) (fun op' hop' => by rw [hbo] at hop'; cases hop') f' (by omega)
  have := pExpr_of_level h0 hq hcol
  simpa [printE, hp, wrap, norm, hpt] using this

theorem good_func {x : Expr} (u : UnOp) (hp : u.isPrefix = false) (hx : Good x) : Good (.unop u x) := by
  have hpr : printE false (.unop u x) = u.tok :: tLp :: (printE true x ++ [tRp]) := by simp [printE, hp]
  have hT : ∀ f rest, cost (.unop u x) ≤ f + 1 → pTerm f (cl (printE false (.unop u x)) ++ rest) = some (norm (.unop u x), rest) := by
    intro f rest hf
    simp only [cost] at hf
    obtain ⟨f', rfl⟩ : ∃ f', f = f' + 1 := ⟨f - 1, by omega⟩
    have h := hx.inner f' (.rp :: rest) (by omega) rfl
    rcases cl_unop_func u hp with hc | ⟨rfl, hc⟩ | ⟨rfl, hc⟩ <;> simp [hpr, hc, pTerm, h, norm]
  refine good_of_term (by simp [printE, hp]) (by simp [cost]) (fun f rest hf _ => hT f rest hf) ?_
  rcases cl_unop_func u hp with hc | ⟨rfl, hc⟩ | ⟨rfl, hc⟩
  · exact ⟨.func u, _, by rw [hpr, List.map_cons, hc], rfl, by simp, by simp, by simp⟩
  · exact ⟨.dollar, _, by rw [hpr, List.map_cons, hc], rfl, by simp, by simp, by simp⟩
  · exact ⟨.op .rem, _, by rw [hpr, List.map_cons, hc], rfl, by simp, by simp, by simp⟩


/-! ## calls -/

theorem startsExpr_ne {t : PTok} (h : startsExpr (some t) = true) :
    t ≠ .rp ∧ t ≠ .at ∧ t ≠ .colon ∧ t ≠ .comma ∧ t ≠ .quest := by
  cases t <;> simp_all [startsExpr]

/-- the plain arguments of a call, up to and including the closing parenthesis -/
def ArgsOK (as : Exprs) : Prop :=
  ∀ f rest, costAs as ≤ f →
    pItems f (cl (printArgs as) ++ .rp :: rest) = some ((.nil, normAs as), rest)

/-- pseudo-arguments followed by plain arguments -/
def ItemsOK (ps : Pseudos) (as : Exprs) : Prop :=
  ∀ f rest, costPs ps (costAs as) ≤ f →
    pItems f (cl (printItems ps as.isNil (printArgs as)) ++ .rp :: rest) = some ((normPs ps, normAs as), rest)

theorem argsOK_nil : ArgsOK .nil := by
  intro f rest hf
  simp only [costAs] at hf
  obtain ⟨f', rfl⟩ : ∃ f', f = f' + 1 := ⟨f - 1, by omega⟩
  simp [printArgs, pItems, normAs]

theorem argsOK_cons {e : Expr} {es : Exprs} (he : Good e) (hes : ArgsOK es) : ArgsOK (.cons e es) := by
  intro f rest hf
  simp only [costAs] at hf
  obtain ⟨f', rfl⟩ : ∃ f', f = f' + 1 := ⟨f - 1, by omega⟩
  obtain ⟨t, r, htr, hs⟩ := he.head
  obtain ⟨n1, n2, _, _, _⟩ := startsExpr_ne hs
  cases es with
  | nil =>
    have hE := he.exprF f' (.rp :: rest) (by omega) rfl
    have hhead : (cl (printE false e) ++ .rp :: rest).head? = some t := by rw [htr]; rfl
    simp only [printArgs, Exprs.isNil, if_true, List.append_nil, normAs]
    simp only [pItems, hhead, hE]
    simp [n1, n2]
  | cons e' es' =>
    have hE := he.exprF f' (.comma :: (cl (printArgs (.cons e' es')) ++ .rp :: rest)) (by omega) rfl
    have hR := hes f' rest (by omega)
    have hhead : (cl (printE false e) ++ .comma :: (cl (printArgs (.cons e' es')) ++ .rp :: rest)).head? = some t := by
      rw [htr]; rfl
    have hform : cl (printArgs (.cons e (.cons e' es'))) ++ .rp :: rest =
        cl (printE false e) ++ .comma :: (cl (printArgs (.cons e' es')) ++ .rp :: rest) := by
      simp [printArgs, Exprs.isNil]
    rw [hform]
    simp only [pItems, hhead, hE]
    simp [n1, n2, hR, Pseudos.isNil, normAs]

theorem itemsOK_nil {as : Exprs} (ha : ArgsOK as) : ItemsOK .nil as := by
  intro f rest hf
  simpa [printItems, normPs] using ha f rest (by simpa [costPs] using hf)

theorem itemsOK_cons {k : PseudoKind} {e : Expr} {ps : Pseudos} {as : Exprs} (he : Good e)
    (hps : ItemsOK ps as) : ItemsOK (.cons k e ps) as := by
  intro f rest hf
  simp only [costPs] at hf
  obtain ⟨f', rfl⟩ : ∃ f', f = f' + 1 := ⟨f - 1, by omega⟩
  have hR := hps f' rest (by omega)
  by_cases hlast : (ps.isNil && as.isNil) = true
  · -- the last item
    have hps' : ps = .nil := by cases ps <;> simp_all [Pseudos.isNil]
    have has' : as = .nil := by cases as <;> simp_all [Exprs.isNil]
    subst hps'; subst has'
    have hE := he.exprF f' (.rp :: rest) (by omega) rfl
    have hform : cl (printItems (.cons k e .nil) Exprs.nil.isNil (printArgs .nil)) ++ .rp :: rest =
        .at :: .ident k.text :: .assign :: (cl (printE false e) ++ .rp :: rest) := by
      simp [printItems, printArgs, Pseudos.isNil, Exprs.isNil]
    rw [hform]
    simp [pItems, hE, normPs, normAs]
  · have hE := he.exprF f' (.comma :: (cl (printItems ps as.isNil (printArgs as)) ++ .rp :: rest)) (by omega) rfl
    have hform : cl (printItems (.cons k e ps) as.isNil (printArgs as)) ++ .rp :: rest =
        .at :: .ident k.text :: .assign :: (cl (printE false e) ++
          .comma :: (cl (printItems ps as.isNil (printArgs as)) ++ .rp :: rest)) := by
      simp [printItems, hlast]
    rw [hform]
    simp [pItems, hE, hR, normPs]

theorem natDigits10_canon (n : Nat) (hn : 1 ≤ n) :
    ∃ c r, natDigits 10 n = c :: r ∧ isDigit c = true ∧ c ≠ '0' ∧ r.all isDigit = true := by
  induction n using Nat.strongRecOn with
  | _ n ih =>
    by_cases hlt : n < 10
    · have key : ∀ d, d < 10 → 1 ≤ d → isDigit (digitChar d) = true ∧ digitChar d ≠ '0' := by decide
      exact ⟨digitChar n, [], natDigits_lt hlt, (key n hlt hn).1, (key n hlt hn).2, rfl⟩
    · obtain ⟨c, r, hcr, h1, h2, h3⟩ := ih (n / 10) (Nat.div_lt_self (by omega) (by omega)) (by omega)
      refine ⟨c, r ++ [digitChar (n % 10)], ?_, h1, h2, ?_⟩
      · rw [natDigits_ge (by omega) (by omega), hcr]; rfl
      · simp [h3, isDigit_digitChar (n % 10) (Nat.mod_lt _ (by omega))]

theorem insOpcode_natDigits (n : Nat) (hn : n < 65536) : insOpcode (natDigits 10 n) = some n := by
  have hp := parseDigits_natDigits (b := 10) (by omega) (by omega) n []
  simp only [List.append_nil, parseDigitsFrom] at hp
  have hc : isCanonicalInt (natDigits 10 n) = true := by
    by_cases h0 : n = 0
    · subst h0; decide
    · obtain ⟨c, r, hcr, h1, h2, h3⟩ := natDigits10_canon n (by omega)
      rw [hcr]
      unfold isCanonicalInt
      split
      · simp at *
      · rename_i heq; simp at heq; exact absurd heq.1 h2
      · rename_i c' r' _ heq
        simp at heq
        obtain ⟨rfl, rfl⟩ := heq
        simp [h1, h2, h3]
  simp [insOpcode, hc, hp, hn]

theorem good_call {name : CallName} {ps : Pseudos} {as : Exprs} (hname : name.ok = true)
    (hitems : ItemsOK ps as) : Good (.call name ps as) := by
  have hT : ∀ f rest, cost (.call name ps as) ≤ f + 1 →
      pTerm f (cl (printE false (.call name ps as)) ++ rest) = some (norm (.call name ps as), rest) := by
    intro f rest hf
    simp only [cost] at hf
    obtain ⟨f', rfl⟩ : ∃ f', f = f' + 1 := ⟨f - 1, by omega⟩
    have hI := hitems f' rest (by omega)
    cases name with
    | normal id =>
      have hid : identOK id = true := by simpa [CallName.ok] using hname
      simp [printE, CallName.tok, cl_ident hid, pTerm, hI, norm]
    | ins n =>
      have hn : n < 65536 := by simpa [CallName.ok] using hname
      simp [printE, CallName.tok, cl_ins, pTerm, insOpcode_natDigits n hn, hI, norm]
  refine good_of_term (by simp [printE]) (by simp [cost]) (fun f rest hf _ => hT f rest hf) ?_
  cases name with
  | normal id =>
    have hid : identOK id = true := by simpa [CallName.ok] using hname
    exact ⟨.ident id, _, by simp [printE, CallName.tok, cl_ident hid]; rfl, rfl, by simp, by simp, by simp⟩
  | ins n => exact ⟨.ins (natDigits 10 n), _, by simp [printE, CallName.tok, cl_ins]; rfl, rfl, by simp, by simp, by simp⟩

/-! ## difficulty switches -/

def CasesOK (cs : Cases) : Prop :=
  ∀ f rest, costCs cs ≤ f → closes rest.head? = true →
    pSwitch f (cl (printCasesT cs) ++ rest) = some (normCs cs, rest)

theorem casesT_head (cs : Cases) (rest : List PTok) :
    (cl (printCasesT cs) ++ rest).head? = if cs.isNil then rest.head? else some .colon := by
  cases cs <;> simp [printCasesT, Cases.isNil]

theorem casesT_head_stops (cs : Cases) (rest : List PTok) (hc : closes rest.head? = true) :
    stopsTerm (cl (printCasesT cs) ++ rest).head? = true ∧ binOpOf (cl (printCasesT cs) ++ rest).head? = none ∧
      startsExpr (cl (printCasesT cs) ++ rest).head? = false ∧ (cl (printCasesT cs) ++ rest).head? ≠ some .quest := by
  obtain ⟨h1, h2, h3, _, h5⟩ := closes_spec hc
  rw [casesT_head]
  split
  · exact ⟨h1, h2, h5, h3⟩
  · exact ⟨rfl, rfl, rfl, by simp⟩

theorem casesOK_nil : CasesOK .nil := by
  intro f rest hf hc
  obtain ⟨_, _, _, hcol, _⟩ := closes_spec hc
  simp only [costCs] at hf
  obtain ⟨f', rfl⟩ : ∃ f', f = f' + 1 := ⟨f - 1, by omega⟩
  simp [printCasesT, pSwitch, hcol, normCs]

theorem casesOK_blank {cs : Cases} (h : CasesOK cs) : CasesOK (.blank cs) := by
  intro f rest hf hc
  simp only [costCs] at hf
  obtain ⟨f', rfl⟩ : ∃ f', f = f' + 1 := ⟨f - 1, by omega⟩
  obtain ⟨_, _, hs, _⟩ := casesT_head_stops cs rest hc
  have hR := h f' rest (by omega) hc
  have hform : cl (printCasesT (.blank cs)) ++ rest = .colon :: (cl (printCasesT cs) ++ rest) := by
    simp [printCasesT]
  rw [hform]
  simp only [pSwitch, List.head?_cons, List.tail_cons, hs, hR, ↓reduceIte, Bool.false_eq_true, normCs]

theorem casesOK_some {e : Expr} {cs : Cases} (he : Good e) (h : CasesOK cs) : CasesOK (.some e cs) := by
  intro f rest hf hc
  simp only [costCs] at hf
  obtain ⟨f', rfl⟩ : ∃ f', f = f' + 1 := ⟨f - 1, by omega⟩
  obtain ⟨hst, hbo, _, _⟩ := casesT_head_stops cs rest hc
  obtain ⟨t, r, htr, hs⟩ := he.head
  have hR := h f' rest (by omega) hc
  have hL := he.level 0 (by omega) f' (cl (printCasesT cs) ++ rest) (by omega) hst
    (fun op hop => by rw [hbo] at hop; cases hop)
  have hhead : (cl (printE false e) ++ (cl (printCasesT cs) ++ rest)).head? = some t := by rw [htr]; rfl
  have hform : cl (printCasesT (.some e cs)) ++ rest = .colon :: (cl (printE false e) ++ (cl (printCasesT cs) ++ rest)) := by
    simp [printCasesT]
  rw [hform]
  simp [pSwitch, hhead, hs, hL, hR, normCs]

theorem good_switch {e : Expr} {cs : Cases} (he : Good e) (hne : cs.isNil = false) (hcs : CasesOK cs) :
    Good (.diffSwitch (.some e cs)) := by
  refine good_of_inner (by simp [printE, wrap]) (by simp [cost, costCs]) ?_
  intro f rest hf hc
  simp only [cost, costCs] at hf
  obtain ⟨f', rfl⟩ : ∃ f', f = f' + 1 := ⟨f - 1, by omega⟩
  obtain ⟨hst, hbo, _, hq⟩ := casesT_head_stops cs rest hc
  have hcolon : (cl (printCasesT cs) ++ rest).head? = some .colon := by rw [casesT_head]; simp [hne]
  have hL := he.level 0 (by omega) f' (cl (printCasesT cs) ++ rest) (by omega) hst
    (fun op hop => by rw [hbo] at hop; cases hop)
  have hR := hcs f' rest (by omega) hc
  have hform : cl (printE true (.diffSwitch (.some e cs))) ++ rest =
      cl (printE false e) ++ (cl (printCasesT cs) ++ rest) := by
    simp [printE, printCases, wrap]
  rw [hform]
  simp only [pExpr, hL, hcolon, hR, norm, normCs]
  simp


/-! ## the induction -/

theorem negLit_of_startsMinus {x : Expr} (h : startsMinus x = false) : negLit x = false := by
  cases x <;> simp_all [startsMinus, negLit]
  all_goals (rename_i pre inc v; cases pre <;> cases inc <;> simp_all [startsMinus, negLit])

theorem textOf_ts_numToks_neg (r : List Char) : textOf (ts (numToks ('-' :: r))) = '-' :: r := by
  simp [numToks, ts, textOf, EP.chars, tokChars, tMinus]

/-- a negative number starts with `-`, a difficulty character -/
theorem startsDiffChar_of_negLit {x : Expr} (h : negLit x = true) : startsDiffChar x = true := by
  cases x with
  | litInt v f =>
    have hh : (printInt f v).head? = some '-' := by simpa [negLit] using h
    cases hp : printInt f v with
    | nil => rw [hp] at hh; simp at hh
    | cons c t =>
      rw [hp] at hh
      simp only [List.head?_cons, Option.some.injEq] at hh
      subst hh
      simp [startsDiffChar, firstChar, printText, printP, hp, textOf_ts_numToks_neg]
      decide
  | litFloat neg b =>
    cases b <;> cases neg <;> simp_all [negLit]
    all_goals (simp [startsDiffChar, firstChar, printText, printP, floatToks, ts, textOf, EP.chars, tokChars, tMinus]; decide)
  | _ => simp [negLit] at h

mutual
theorem good : ∀ (e : Expr), NoGlue e = true → Good e
  | .ternary c l r, h => by
    simp only [NoGlue, Bool.and_eq_true] at h
    exact good_ternary (good c h.1.1) (good l h.1.2) (good r h.2)
  | .binop a op b, h => by
    simp only [NoGlue, Bool.and_eq_true] at h
    exact good_binop op (good a h.1) (good b h.2)
  | .unop op x, h => by
    simp only [NoGlue, Bool.and_eq_true] at h
    have hx := good x h.1
    cases op with
    | neg => exact good_prefix .neg rfl hx (negLit_of_startsMinus (by simpa using h.2))
    | bitNot => exact good_prefix .bitNot rfl hx (by simpa using h.2)
    | not =>
      refine good_prefix .not rfl hx ?_
      cases hn : negLit x with
      | false => rfl
      | true => have := startsDiffChar_of_negLit hn; simp [this] at h
    | sin => exact good_func .sin rfl hx
    | cos => exact good_func .cos rfl hx
    | tan => exact good_func .tan rfl hx
    | asin => exact good_func .asin rfl hx
    | acos => exact good_func .acos rfl hx
    | atan => exact good_func .atan rfl hx
    | sqrt => exact good_func .sqrt rfl hx
    | encI => exact good_func .encI rfl hx
    | encF => exact good_func .encF rfl hx
    | castI => exact good_func .castI rfl hx
    | castF => exact good_func .castF rfl hx
  | .xcrement pre inc v, h => good_xcrement pre inc v (by simpa [NoGlue] using h)
  | .var v, h => good_var v (by simpa [NoGlue] using h)
  | .call name ps as, h => by
    simp only [NoGlue, Bool.and_eq_true] at h
    exact good_call h.1.1 (goodPs ps h.1.2 as (goodAs as h.2))
  | .diffSwitch (.some e cs), h => by
    simp only [NoGlue, Bool.and_eq_true, Bool.not_eq_true'] at h
    exact good_switch (good e h.1.1) h.1.2 (goodCs cs h.2)
  | .diffSwitch .nil, h => by simp [NoGlue] at h
  | .diffSwitch (.blank _), h => by simp [NoGlue] at h
  | .litInt v f, _ => good_litInt v f
  | .litFloat neg b, _ => good_litFloat neg b
  | .litString s, _ => good_litString s
  | .labelProp kw l, h => good_labelProp kw l (by simpa [NoGlue] using h)
  | .enumConst en id, h => by
    simp only [NoGlue, Bool.and_eq_true] at h
    exact good_enumConst en id h.1 h.2
theorem goodAs : ∀ (as : Exprs), NoGlueAs as = true → ArgsOK as
  | .nil, _ => argsOK_nil
  | .cons e es, h => by
    simp only [NoGlueAs, Bool.and_eq_true] at h
    exact argsOK_cons (good e h.1) (goodAs es h.2)
theorem goodPs : ∀ (ps : Pseudos), NoGluePs ps = true → ∀ (as : Exprs), ArgsOK as → ItemsOK ps as
  | .nil, _, _, ha => itemsOK_nil ha
  | .cons k e ps, h, as, ha => by
    simp only [NoGluePs, Bool.and_eq_true] at h
    exact itemsOK_cons (good e h.1) (goodPs ps h.2 as ha)
theorem goodCs : ∀ (cs : Cases), NoGlueCs cs = true → CasesOK cs
  | .nil, _ => casesOK_nil
  | .blank cs, h => casesOK_blank (goodCs cs (by simpa [NoGlueCs] using h))
  | .some e cs, h => by
    simp only [NoGlueCs, Bool.and_eq_true] at h
    exact casesOK_some (good e h.1) (goodCs cs h.2)
end

/-! ## C08, expression layer: a printed expression parses back to the same tree -/

/-- with explicit fuel -/
theorem expr_print_parse_fuel (e : Expr) (h : NoGlue e = true) (fuel : Nat) (hf : cost e + 12 ≤ fuel) :
    parseToksFuel fuel (printExpr e) = some (norm e) := by
  have := (good e h).exprF fuel [] hf rfl
  simp only [List.append_nil] at this
  simp [parseToksFuel, printExpr, this]

/-- where the parentheses are suppressed (right-hand side of an assignment, `if (..)`, `sin(..)`) -/
theorem expr_print_parse_sup_fuel (e : Expr) (h : NoGlue e = true) (fuel : Nat) (hf : cost e + 12 ≤ fuel) :
    parseToksFuel fuel (printE true e) = some (norm e) := by
  have := (good e h).inner fuel [] hf rfl
  simp only [List.append_nil] at this
  simp [parseToksFuel, this]


/-- The same inside any context that closes the expression: `)`, `,`, `]`, `;` or the end of the
input (the interface for the statements that embed expressions: `x = e;`, `if (e)`, `f(e, ..)`,
`interrupt[e]:`), with or without `SuppressParens`. -/
theorem expr_print_parse_in_context (e : Expr) (h : NoGlue e = true) (sup : Bool) (fuel : Nat)
    (hf : cost e + 12 ≤ fuel) (rest : List PTok) (hc : closes rest.head? = true) :
    pExpr fuel (cl (printE sup e) ++ rest) = some (norm e, rest) := by
  cases sup
  · exact (good e h).exprF fuel rest hf hc
  · exact (good e h).inner fuel rest hf hc

/-! ## the fuel `parseExpr` supplies suffices -/

theorem numToks_len (s : List Char) : 1 ≤ (numToks s).length := by
  unfold numToks
  split
  · simp
  · split <;> simp

theorem varToks_len (v : Var) : 1 ≤ (varToks v).length := by
  obtain ⟨sg, nm⟩ := v
  cases nm <;> simp [varToks, nameToks, List.length_append] <;> omega

theorem floatToks_len (neg : Bool) (b : FloatBody) : 1 ≤ (floatToks neg b).length := by
  cases b <;> cases neg <;> simp [floatToks]

theorem cost_pos (e : Expr) : 4 ≤ cost e := by
  cases e <;> simp [cost] <;> omega

theorem len_true_le_false (e : Expr) : (printE true e).length ≤ (printE false e).length := by
  cases e <;> simp [printE, wrap]
  all_goals first | omega | (split <;> simp)

theorem casesT_len (cs : Cases) (h : cs.isNil = false) : 1 ≤ (printCasesT cs).length := by
  cases cs <;> simp_all [printCasesT, Cases.isNil]

mutual
theorem cost_le : ∀ (e : Expr), NoGlue e = true → cost e ≤ 40 * (printE true e).length
  | .ternary c l r, h => by
    simp only [NoGlue, Bool.and_eq_true] at h
    have h1 := cost_le c h.1.1; have h2 := cost_le l h.1.2; have h3 := cost_le r h.2
    have g1 := len_true_le_false c; have g2 := len_true_le_false l; have g3 := len_true_le_false r
    simp only [cost, printE, wrap, if_true, List.length_append, List.length_cons]
    omega
  | .binop a op b, h => by
    simp only [NoGlue, Bool.and_eq_true] at h
    have h1 := cost_le a h.1; have h2 := cost_le b h.2
    have g1 := len_true_le_false a; have g2 := len_true_le_false b
    simp only [cost, printE, wrap, if_true, List.length_append, List.length_cons]
    omega
  | .unop op x, h => by
    simp only [NoGlue, Bool.and_eq_true] at h
    have h1 := cost_le x h.1
    have g1 := len_true_le_false x
    simp only [cost, printE]
    split <;> simp only [wrap, if_true, List.length_append, List.length_cons, List.length_nil] <;> omega
  | .xcrement pre inc v, _ => by
    have := varToks_len v
    simp only [cost, printE]
    split <;> simp only [List.length_append, List.length_cons, List.length_nil] <;> omega
  | .var v, _ => by
    have := varToks_len v
    simp only [cost, printE]; omega
  | .call name ps as, h => by
    simp only [NoGlue, Bool.and_eq_true] at h
    have h1 := costPs_le ps h.1.2 as.isNil (printArgs as) (costAs as) (costAs_le as h.2)
    simp only [cost, printE, List.length_append, List.length_cons, List.length_nil]
    omega
  | .diffSwitch (.some e cs), h => by
    simp only [NoGlue, Bool.and_eq_true, Bool.not_eq_true'] at h
    have h1 := cost_le e h.1.1; have g1 := len_true_le_false e
    have h2 := costCs_le cs h.2
    have h3 := casesT_len cs h.1.2
    have h4 := cost_pos e
    simp only [cost, costCs, printE, printCases, wrap, if_true, List.length_append]
    omega
  | .diffSwitch .nil, h => by simp [NoGlue] at h
  | .diffSwitch (.blank _), h => by simp [NoGlue] at h
  | .litInt v f, _ => by
    have := numToks_len (printInt f v)
    simp only [cost, printE]; omega
  | .litFloat neg b, _ => by
    have := floatToks_len neg b
    simp only [cost, printE]; omega
  | .litString s, _ => by simp [cost, printE]
  | .labelProp kw l, _ => by simp [cost, printE]
  | .enumConst en id, _ => by simp [cost, printE]
theorem costAs_le : ∀ (as : Exprs), NoGlueAs as = true → costAs as ≤ 40 * (printArgs as).length + 21
  | .nil, _ => by simp [costAs]
  | .cons e es, h => by
    simp only [NoGlueAs, Bool.and_eq_true] at h
    have h1 := cost_le e h.1; have g1 := len_true_le_false e; have h4 := cost_pos e
    have h2 := costAs_le es h.2
    simp only [costAs, printArgs, List.length_append]
    omega
theorem costPs_le : ∀ (ps : Pseudos), NoGluePs ps = true → ∀ (b : Bool) (t : List Tok) (c : Nat),
    c ≤ 40 * t.length + 21 → costPs ps c ≤ 40 * (printItems ps b t).length + 21
  | .nil, _, _, _, _, hc => by simpa [costPs, printItems] using hc
  | .cons k e ps, h, b, t, c, hc => by
    simp only [NoGluePs, Bool.and_eq_true] at h
    have h1 := cost_le e h.1; have g1 := len_true_le_false e
    have h2 := costPs_le ps h.2 b t c hc
    simp only [costPs, printItems, List.length_append, List.length_cons]
    omega
theorem costCs_le : ∀ (cs : Cases), NoGlueCs cs = true → costCs cs ≤ 40 * (printCasesT cs).length + 1
  | .nil, _ => by simp [costCs]
  | .blank cs, h => by
    have h2 := costCs_le cs (by simpa [NoGlueCs] using h)
    simp only [costCs, printCasesT, List.length_cons]
    omega
  | .some e cs, h => by
    simp only [NoGlueCs, Bool.and_eq_true] at h
    have h1 := cost_le e h.1; have g1 := len_true_le_false e
    have h2 := costCs_le cs h.2
    simp only [costCs, printCasesT, List.length_append, List.length_cons]
    omega
end

theorem fuel_suffices (e : Expr) (h : NoGlue e = true) : cost e + 12 ≤ fuelFor (printExpr e) := by
  have h1 := cost_le e h
  have h2 := len_true_le_false e
  simp only [fuelFor, printExpr]
  omega

theorem fuel_suffices_sup (e : Expr) (h : NoGlue e = true) : cost e + 12 ≤ fuelFor (printE true e) := by
  have h1 := cost_le e h
  simp only [fuelFor]
  omega

/-- **C08, expressions: printed tokens parse back to the same tree.**  For every expression
without a glue site, the parser accepts the tokens the formatter writes and builds the same
expression up to `norm`: same operators with the same grouping (every nested operator comes back
under the same parent because the printer parenthesises it), same calls, arguments, switch cases
with the same holes, same variables, same literals. -/
theorem expr_print_parse (e : Expr) (h : NoGlue e = true) : parseExpr (printExpr e) = some (norm e) :=
  expr_print_parse_fuel e h _ (fuel_suffices e h)

/-- the same where `SuppressParens` is in effect (no outer parentheses are written) -/
theorem expr_print_parse_sup (e : Expr) (h : NoGlue e = true) : parseExpr (printE true e) = some (norm e) :=
  expr_print_parse_sup_fuel e h _ (fuel_suffices_sup e h)

/-! ## tokens and text -/

theorem toksOf_append (a b : List EP) : toksOf (a ++ b) = toksOf a ++ toksOf b := by
  induction a with
  | nil => rfl
  | cons x xs ih => cases x <;> simp [toksOf, ih]

theorem toksOf_ts (l : List Tok) : toksOf (ts l) = l := by
  induction l with
  | nil => rfl
  | cons x xs ih => simpa [ts, toksOf] using ih

theorem toksOf_wrapP (sup : Bool) (ps : List EP) : toksOf (wrapP sup ps) = wrap sup (toksOf ps) := by
  cases sup <;> simp [wrapP, wrap, toksOf, toksOf_append]

mutual
/-- the pieces with the white space removed are the tokens -/
theorem toksOf_printP : ∀ (e : Expr) (sup : Bool), toksOf (printP sup e) = printE sup e
  | .ternary c l r, sup => by
    simp [printP, printE, toksOf_wrapP, toksOf_append, toksOf, toksOf_printP c, toksOf_printP l, toksOf_printP r]
  | .binop a op b, sup => by
    simp [printP, printE, toksOf_wrapP, toksOf_append, toksOf, toksOf_printP a, toksOf_printP b]
  | .unop op x, sup => by
    simp only [printP, printE]
    split <;> simp [toksOf_wrapP, toksOf_append, toksOf, toksOf_printP x]
  | .xcrement pre inc v, sup => by simp [printP, printE, toksOf_ts]
  | .var v, sup => by simp [printP, printE, toksOf_ts]
  | .call name ps as, sup => by
    simp [printP, printE, toksOf, toksOf_append, toksOf_printItemsP ps as.isNil _ _ (toksOf_printArgsP as)]
  | .diffSwitch cs, sup => by
    simp only [printP, printE, toksOf_wrapP, toksOf_append, toksOf_printCasesP cs]
    split <;> split <;> simp [toksOf]
  | .litInt v f, sup => by simp [printP, printE, toksOf_ts]
  | .litFloat neg b, sup => by simp [printP, printE, toksOf_ts]
  | .litString s, sup => by simp [printP, printE, toksOf]
  | .labelProp kw l, sup => by simp [printP, printE, toksOf_ts]
  | .enumConst en id, sup => by simp [printP, printE, toksOf_ts]
theorem toksOf_printItemsP : ∀ (ps : Pseudos) (b : Bool) (tp : List EP) (t : List Tok), toksOf tp = t →
    toksOf (printItemsP ps b tp) = printItems ps b t
  | .nil, _, _, _, h => by simpa [printItemsP, printItems] using h
  | .cons k e ps, b, tp, t, h => by
    simp only [printItemsP, printItems, toksOf, toksOf_append, toksOf_printP e, toksOf_printItemsP ps b tp t h]
    split <;> simp [toksOf]
theorem toksOf_printArgsP : ∀ (as : Exprs), toksOf (printArgsP as) = printArgs as
  | .nil => rfl
  | .cons e es => by
    simp only [printArgsP, printArgs, toksOf_append, toksOf_printP e, toksOf_printArgsP es]
    split <;> simp [toksOf]
theorem toksOf_printCasesP : ∀ (cs : Cases), toksOf (printCasesP cs) = printCases cs
  | .nil => rfl
  | .blank cs => by simp [printCasesP, printCases, toksOf_printCasesTP cs]
  | .some e cs => by simp [printCasesP, printCases, toksOf_append, toksOf_printP e, toksOf_printCasesTP cs]
theorem toksOf_printCasesTP : ∀ (cs : Cases), toksOf (printCasesTP cs) = printCasesT cs
  | .nil => rfl
  | .blank cs => by simp [printCasesTP, printCasesT, toksOf, toksOf_printCasesTP cs]
  | .some e cs => by simp [printCasesTP, printCasesT, toksOf, toksOf_append, toksOf_printP e, toksOf_printCasesTP cs]
end

/-- The joined text lexes to the tokens that were written.  This is what fails at a glue site;
the correspondence check evaluates it on every generated expression. -/
def LexOK (e : Expr) : Prop := lex (printText e) = (printExpr e, .eof)

instance (e : Expr) : Decidable (LexOK e) := by unfold LexOK; exact inferInstance

/-- **C08, expressions, on text**: when the written tokens survive the lexer, the printed text
parses back to the same tree. -/
theorem expr_print_parse_text (e : Expr) (h : NoGlue e = true) (hl : LexOK e) :
    parseText (printText e) = some (norm e) := by
  unfold parseText
  rw [hl]
  exact expr_print_parse e h


/-! ## printing again -/

/- `HintFree`: every integer literal carries the format the parser assigns (`SIGNED`): the radix
of a decompiled literal is a hint that the text does not carry -/
mutual
def HintFree : Expr → Bool
  | .ternary c l r => HintFree c && HintFree l && HintFree r
  | .binop a _ b => HintFree a && HintFree b
  | .unop _ x => HintFree x
  | .call _ ps as => HintFreePs ps && HintFreeAs as
  | .diffSwitch cs => HintFreeCs cs
  | .litInt _ f => f == signedDec
  | _ => true
def HintFreePs : Pseudos → Bool
  | .nil => true
  | .cons _ e ps => HintFree e && HintFreePs ps
def HintFreeAs : Exprs → Bool
  | .nil => true
  | .cons e es => HintFree e && HintFreeAs es
def HintFreeCs : Cases → Bool
  | .nil => true
  | .blank cs => HintFreeCs cs
  | .some e cs => HintFree e && HintFreeCs cs
end

theorem normInt_signedDec (v : Int32) (h : (printInt signedDec v).head? ≠ some '-') :
    normInt v signedDec = .litInt v signedDec := by
  have hn : ¬ v.toInt < 0 := by
    intro hv
    exact h ((printInt_head_minus_iff signedDec v).mpr ⟨rfl, hv⟩)
  simp [normInt, signedDec, hn]

mutual
theorem print_norm : ∀ (e : Expr) (sup : Bool), NoNegLit e = true → HintFree e = true →
    printE sup (norm e) = printE sup e
  | .ternary c l r, sup, h, g => by
    simp only [NoNegLit, HintFree, Bool.and_eq_true] at h g
    simp [norm, printE, print_norm c false h.1.1 g.1.1, print_norm l false h.1.2 g.1.2, print_norm r false h.2 g.2]
  | .binop a op b, sup, h, g => by
    simp only [NoNegLit, HintFree, Bool.and_eq_true] at h g
    simp [norm, printE, print_norm a false h.1 g.1, print_norm b false h.2 g.2]
  | .unop op x, sup, h, g => by
    simp only [NoNegLit, HintFree] at h g
    simp [norm, printE, print_norm x false h g, print_norm x true h g]
  | .xcrement pre inc v, sup, _, _ => rfl
  | .var v, sup, _, _ => rfl
  | .call name ps as, sup, h, g => by
    simp only [NoNegLit, HintFree, Bool.and_eq_true] at h g
    have h1 := print_normAs as h.2 g.2
    have h2 := print_normPs ps h.1 g.1 (normAs as).isNil (printArgs (normAs as))
    have h3 : (normAs as).isNil = as.isNil := by cases as <;> rfl
    simp only [norm, printE, h2]
    rw [h1, h3]
  | .diffSwitch cs, sup, h, g => by
    simp only [NoNegLit, HintFree] at h g
    have h1 := print_normCs cs h g
    have h2 := print_normCsT cs h g
    cases cs <;> simp_all [norm, normCs, printE, printCases]
  | .litInt v f, sup, h, g => by
    have hf : f = signedDec := by simpa [HintFree] using g
    subst hf
    have hh : (printInt signedDec v).head? ≠ some '-' := by simpa [NoNegLit, negLit] using h
    simp [norm, normInt_signedDec v hh]
  | .litFloat neg b, sup, h, _ => by
    cases b <;> cases neg <;> simp_all [NoNegLit, negLit, norm, normFloat, wrapNeg, printE, floatToks, varToks, sigilToks, nameToks]
  | .litString s, sup, _, _ => rfl
  | .labelProp kw l, sup, _, _ => rfl
  | .enumConst en id, sup, _, _ => rfl
theorem print_normPs : ∀ (ps : Pseudos), NoNegLitPs ps = true → HintFreePs ps = true → ∀ (b : Bool) (t : List Tok),
    printItems (normPs ps) b t = printItems ps b t
  | .nil, _, _, _, _ => rfl
  | .cons k e ps, h, g, b, t => by
    simp only [NoNegLitPs, HintFreePs, Bool.and_eq_true] at h g
    have h3 : (normPs ps).isNil = ps.isNil := by cases ps <;> rfl
    simp [normPs, printItems, print_norm e false h.1 g.1, print_normPs ps h.2 g.2 b t, h3]
theorem print_normAs : ∀ (as : Exprs), NoNegLitAs as = true → HintFreeAs as = true →
    printArgs (normAs as) = printArgs as
  | .nil, _, _ => rfl
  | .cons e es, h, g => by
    simp only [NoNegLitAs, HintFreeAs, Bool.and_eq_true] at h g
    have h3 : (normAs es).isNil = es.isNil := by cases es <;> rfl
    simp [normAs, printArgs, print_norm e false h.1 g.1, print_normAs es h.2 g.2, h3]
theorem print_normCs : ∀ (cs : Cases), NoNegLitCs cs = true → HintFreeCs cs = true →
    printCases (normCs cs) = printCases cs
  | .nil, _, _ => rfl
  | .blank cs, h, g => by
    simp only [NoNegLitCs, HintFreeCs] at h g
    simp [normCs, printCases, print_normCsT cs h g]
  | .some e cs, h, g => by
    simp only [NoNegLitCs, HintFreeCs, Bool.and_eq_true] at h g
    simp [normCs, printCases, print_norm e false h.1 g.1, print_normCsT cs h.2 g.2]
theorem print_normCsT : ∀ (cs : Cases), NoNegLitCs cs = true → HintFreeCs cs = true →
    printCasesT (normCs cs) = printCasesT cs
  | .nil, _, _ => rfl
  | .blank cs, h, g => by
    simp only [NoNegLitCs, HintFreeCs] at h g
    simp [normCs, printCasesT, print_normCsT cs h g]
  | .some e cs, h, g => by
    simp only [NoNegLitCs, HintFreeCs, Bool.and_eq_true] at h g
    simp [normCs, printCasesT, print_norm e false h.1 g.1, print_normCsT cs h.2 g.2]
end

/-- **C08, expressions: printing the re-parsed expression gives the same tokens again**, for
expressions whose literals print without a sign and carry no radix hint (what the parser builds
from text without `-` glued literals). -/
theorem expr_print_idempotent (e : Expr) (h : NoNegLit e = true) (g : HintFree e = true) :
    printExpr (norm e) = printExpr e := print_norm e false h g

/-- print, parse, print: the text of the second print equals the first, and it parses again to
the same tree -/
theorem expr_print_parse_print (e : Expr) (hg : NoGlue e = true) (h : NoNegLit e = true) (g : HintFree e = true) :
    ∃ e', parseExpr (printExpr e) = some e' ∧ printExpr e' = printExpr e ∧ parseExpr (printExpr e') = some e' := by
  refine ⟨norm e, expr_print_parse e hg, expr_print_idempotent e h g, ?_⟩
  rw [expr_print_idempotent e h g]
  exact expr_print_parse e hg




/-! ## layout of expressions: the width changes only white space and trailing commas -/

theorem ess_xw (st : LSt) (p : Piece) : ess (xw st p).out = ess st.out ++ ess [p] := by
  unfold xw
  split <;> simp [ess]

mutual
theorem xinl_ess (tw : Nat) : ∀ (d : XDoc) (st st' : LSt), xinl tw d st = some st' →
    ess st'.out = ess st.out ++ d.toks
  | .tok k, st, st', h => by
    simp only [xinl, Option.some.injEq] at h
    subst h
    simp [ess_xw, ess_tok, XDoc.toks]
  | .sp, st, st', h => by
    simp only [xinl, Option.some.injEq] at h
    subst h
    simp [ess_xw, ess_space, XDoc.toks]
  | .args items, st, st', h => by
    simp only [xinl] at h
    split at h
    · simp at h
    · rename_i st1 h1
      have ih := xinlItems_ess tw items true _ _ h1
      split at h
      · simp at h
      · simp only [Option.some.injEq] at h
        subst h
        simp [ess_xw, ess_tok, ih, XDoc.toks]
  | .seq ds, st, st', h => by
    simp only [xinl] at h
    simpa [XDoc.toks] using xinlSeq_ess tw ds st st' h
theorem xinlItems_ess (tw : Nat) : ∀ (ds : XDocs) (first : Bool) (st st' : LSt), xinlItems tw ds first st = some st' →
    ess st'.out = ess st.out ++ ds.toksItems first
  | .nil, first, st, st', h => by
    simp only [xinlItems, Option.some.injEq] at h
    subst h
    simp [XDocs.toksItems]
  | .cons d ds, first, st, st', h => by
    simp only [xinlItems] at h
    split at h
    · simp at h
    · rename_i st1 h1
      have ih1 := xinl_ess tw d _ _ h1
      split at h
      · simp at h
      · have ih2 := xinlItems_ess tw ds false _ _ h
        rw [ih2, ih1]
        cases first <;> simp [ess_xw, ess_comma, ess_space, XDocs.toksItems]
theorem xinlSeq_ess (tw : Nat) : ∀ (ds : XDocs) (st st' : LSt), xinlSeq tw ds st = some st' →
    ess st'.out = ess st.out ++ ds.toksSeq
  | .nil, st, st', h => by
    simp only [xinlSeq, Option.some.injEq] at h
    subst h
    simp [XDocs.toksSeq]
  | .cons d ds, st, st', h => by
    simp only [xinlSeq] at h
    split at h
    · simp at h
    · rename_i st1 h1
      have ih1 := xinl_ess tw d _ _ h1
      have ih2 := xinlSeq_ess tw ds _ _ h
      rw [ih2, ih1]
      simp [XDocs.toksSeq]
end

/-- the items with the separators written the way the block style writes them -/
def xtoksSep : XDocs → List Piece
  | .nil => []
  | .cons d ds => d.toks ++ (if ds.isNil then [] else [.comma]) ++ xtoksSep ds

theorem xtoks_eq_toksSep : ∀ (ds : XDocs),
    ds.toksItems true = xtoksSep ds ∧ ds.toksItems false = (if ds.isNil then [] else .comma :: xtoksSep ds)
  | .nil => by simp [XDocs.toksItems, xtoksSep, XDocs.isNil]
  | .cons d .nil => by simp [XDocs.toksItems, xtoksSep, XDocs.isNil]
  | .cons d (.cons d' ds') => by
    have ih := xtoks_eq_toksSep (.cons d' ds')
    have h2 : (XDocs.cons d' ds').toksItems false = .comma :: xtoksSep (.cons d' ds') := by simpa [XDocs.isNil] using ih.2
    constructor
    · rw [xtoksSep, XDocs.toksItems, h2]; simp [XDocs.isNil]
    · rw [xtoksSep, XDocs.toksItems, h2]; simp [XDocs.isNil]

mutual
theorem xblk_ess (tw : Nat) : ∀ (d : XDoc) (st : LSt), ess (xblk tw d st).out = ess st.out ++ d.toks
  | .tok k, st => by simp [xblk, ess_xw, ess_tok, XDoc.toks]
  | .sp, st => by simp [xblk, ess_xw, ess_space, XDoc.toks]
  | .args items, st => by
    simp only [xblk]
    split
    · rename_i st' h
      exact xinl_ess tw _ _ _ h
    · rw [ess_xw, ess_tok, ess_with_indent, xblkItems_ess tw items, ess_with_indent, ess_newline, ess_xw, ess_tok]
      simp [XDoc.toks, (xtoks_eq_toksSep items).1]
  | .seq ds, st => by
    simp only [xblk]
    simpa [XDoc.toks] using xblkSeq_ess tw ds st
theorem xblkItems_ess (tw : Nat) : ∀ (ds : XDocs) (st : LSt), ess (xblkItems tw ds st).out = ess st.out ++ xtoksSep ds
  | .nil, st => by simp [xblkItems, xtoksSep]
  | .cons d ds, st => by
    simp only [xblkItems]
    rw [xblkItems_ess tw ds, ess_newline, ess_xw, xblk_ess tw d]
    cases h : ds.isNil <;> simp [xtoksSep, ess_comma, ess_tcomma, h]
theorem xblkSeq_ess (tw : Nat) : ∀ (ds : XDocs) (st : LSt), ess (xblkSeq tw ds st).out = ess st.out ++ ds.toksSeq
  | .nil, st => by simp [xblkSeq, XDocs.toksSeq]
  | .cons d ds, st => by
    simp only [xblkSeq]
    rw [xblkSeq_ess tw ds, xblk_ess tw d]
    simp [XDocs.toksSeq]
end

/-- **layout of an expression changes only white space and trailing commas**: at every width the
rendered pieces contain the same tokens and separating commas -/
theorem expr_layout_tokens (w : Nat) (e : Expr) : ess (renderExprPieces w e) = (exprDocs false e).toksSeq := by
  unfold renderExprPieces
  rw [xblkSeq_ess]
  simp [LSt.init, ess]

theorem expr_layout_width_independent (w w' : Nat) (e : Expr) :
    ess (renderExprPieces w e) = ess (renderExprPieces w' e) := by
  rw [expr_layout_tokens, expr_layout_tokens]



/-! ## the laid-out tokens are the tokens of `printE` -/

/-- a separating comma as the token it is -/
def commaTok (ps : List Piece) : List Piece :=
  ps.map fun p => match p with
    | .comma => .tok [',']
    | p => p

def tokTexts (l : List Tok) : List Piece := l.map fun t => .tok (tokChars t)

theorem commaTok_append (a b : List Piece) : commaTok (a ++ b) = commaTok a ++ commaTok b := by simp [commaTok]
theorem tokTexts_append (a b : List Tok) : tokTexts (a ++ b) = tokTexts a ++ tokTexts b := by simp [tokTexts]
theorem tokTexts_cons (t : Tok) (b : List Tok) : tokTexts (t :: b) = .tok (tokChars t) :: tokTexts b := by simp [tokTexts]
@[simp] theorem tokTexts_nil : tokTexts [] = [] := rfl
@[simp] theorem commaTok_nil : commaTok [] = [] := rfl

theorem commaTok_cons_tok (s : List Char) (r : List Piece) : commaTok (.tok s :: r) = .tok s :: commaTok r := by
  simp [commaTok]

theorem toksSeq_append : ∀ (a b : XDocs), (a.append b).toksSeq = a.toksSeq ++ b.toksSeq
  | .nil, b => by simp [XDocs.append, XDocs.toksSeq]
  | .cons d ds, b => by simp [XDocs.append, XDocs.toksSeq, toksSeq_append ds b]

theorem toksSeq_ofToks : ∀ (l : List Tok), commaTok (XDocs.ofToks l).toksSeq = tokTexts l
  | [] => rfl
  | t :: r => by
    have := toksSeq_ofToks r
    simp [XDocs.ofToks, XDocs.toksSeq, XDoc.toks, commaTok, tokTexts] at this ⊢
    exact this

theorem toksSeq_wrapD (sup : Bool) (ds : XDocs) (l : List Tok) (h : commaTok ds.toksSeq = tokTexts l) :
    commaTok (wrapD sup ds).toksSeq = tokTexts (wrap sup l) := by
  cases sup
  · simp only [wrapD, wrap, Bool.false_eq_true, if_false, XDocs.toksSeq, XDoc.toks, toksSeq_append, commaTok_append,
      commaTok_cons_tok, commaTok_nil, List.cons_append, List.nil_append, List.append_nil, tokTexts_cons, tokTexts_append,
      tokTexts_nil, h]
  · simpa [wrapD, wrap] using h

theorem toksSeq_spTokSp (t : Tok) (rest : XDocs) : (spTokSp t rest).toksSeq = .tok (tokChars t) :: rest.toksSeq := by
  simp [spTokSp, XDocs.toksSeq, XDoc.toks]


theorem argDocs_isNil (as : Exprs) : (argDocs as).isNil = as.isNil := by cases as <;> rfl
theorem itemDocs_isNil (ps : Pseudos) (rest : XDocs) : (itemDocs ps rest).isNil = (ps.isNil && rest.isNil) := by
  cases ps <;> simp [itemDocs, XDocs.isNil, Pseudos.isNil]

mutual
theorem docs_toks : ∀ (e : Expr) (sup : Bool), commaTok (exprDocs sup e).toksSeq = tokTexts (printE sup e)
  | .ternary c l r, sup => by
    simp only [exprDocs, printE]
    apply toksSeq_wrapD
    simp [toksSeq_append, toksSeq_spTokSp, commaTok_append, commaTok_cons_tok, tokTexts_append, tokTexts_cons,
      docs_toks c false, docs_toks l false, docs_toks r false]
  | .binop a op b, sup => by
    simp only [exprDocs, printE]
    apply toksSeq_wrapD
    simp [toksSeq_append, toksSeq_spTokSp, commaTok_append, commaTok_cons_tok, tokTexts_append, tokTexts_cons,
      docs_toks a false, docs_toks b false]
  | .unop op x, sup => by
    simp only [exprDocs, printE]
    split
    · apply toksSeq_wrapD
      simp [XDocs.toksSeq, XDoc.toks, commaTok_cons_tok, tokTexts_cons, docs_toks x false]
    · simp only [XDocs.toksSeq, XDoc.toks, toksSeq_append, commaTok_append, commaTok_cons_tok, commaTok_nil, tokTexts_append,
        tokTexts_cons, tokTexts_nil, docs_toks x true, List.cons_append, List.nil_append, List.append_nil]
  | .xcrement pre inc v, sup => by simp only [exprDocs, printE]; exact toksSeq_ofToks _
  | .var v, sup => by simp only [exprDocs, printE]; exact toksSeq_ofToks _
  | .call name ps as, sup => by
    have h := items_toks ps (argDocs as) (printArgs as) as.isNil (args_toks as) (argDocs_isNil as)
    simp only [exprDocs, printE, XDocs.toksSeq, XDoc.toks, (xtoks_eq_toksSep _).1]
    simp only [commaTok_append, commaTok_cons_tok, commaTok_nil, tokTexts_append, tokTexts_cons, tokTexts_nil, h,
      List.cons_append, List.nil_append, List.append_nil]
    rfl
  | .diffSwitch cs, sup => by
    simp only [exprDocs, printE]
    apply toksSeq_wrapD
    have h := cases_toks cs
    split <;> split <;> simp [toksSeq_append, XDocs.toksSeq, XDoc.toks, h]
  | .litInt v f, sup => by simp only [exprDocs, printE]; exact toksSeq_ofToks _
  | .litFloat neg b, sup => by simp only [exprDocs, printE]; exact toksSeq_ofToks _
  | .litString s, sup => by simp [exprDocs, printE, XDocs.toksSeq, XDoc.toks, commaTok, tokTexts]
  | .labelProp kw l, sup => by simp only [exprDocs, printE]; exact toksSeq_ofToks _
  | .enumConst en id, sup => by simp only [exprDocs, printE]; exact toksSeq_ofToks _
theorem args_toks : ∀ (as : Exprs), commaTok (xtoksSep (argDocs as)) = tokTexts (printArgs as)
  | .nil => rfl
  | .cons e es => by
    simp only [argDocs, xtoksSep, printArgs, argDocs_isNil, XDoc.toks, commaTok_append, tokTexts_append,
      docs_toks e false, args_toks es]
    cases es <;> simp [Exprs.isNil, commaTok, tokTexts, tokChars, tComma]
theorem items_toks : ∀ (ps : Pseudos) (rest : XDocs) (t : List Tok) (b : Bool),
    commaTok (xtoksSep rest) = tokTexts t → rest.isNil = b →
    commaTok (xtoksSep (itemDocs ps rest)) = tokTexts (printItems ps b t)
  | .nil, rest, t, b, h, _ => by simpa [itemDocs, printItems] using h
  | .cons k e ps, rest, t, b, h, hb => by
    simp only [itemDocs, xtoksSep, printItems, itemDocs_isNil, hb, XDoc.toks, XDocs.toksSeq, commaTok_append,
      commaTok_cons_tok, tokTexts_append, tokTexts_cons, docs_toks e false, items_toks ps rest t b h hb, List.cons_append,
      List.nil_append, List.append_assoc]
    cases h : (ps.isNil && b) <;> simp [commaTok, tokTexts, tokChars, tComma, tAt, tAssign]
theorem cases_toks : ∀ (cs : Cases), commaTok (caseDocs cs).toksSeq = tokTexts (printCases cs)
  | .nil => rfl
  | .blank cs => by simpa [caseDocs, printCases] using casesT_toks cs
  | .some e cs => by
    simp [caseDocs, printCases, toksSeq_append, commaTok_append, tokTexts_append, docs_toks e false, casesT_toks cs]
theorem casesT_toks : ∀ (cs : Cases), commaTok (caseDocsT cs).toksSeq = tokTexts (printCasesT cs)
  | .nil => rfl
  | .blank cs => by
    simp [caseDocsT, printCasesT, toksSeq_spTokSp, commaTok_cons_tok, tokTexts_cons, casesT_toks cs]
  | .some e cs => by
    simp [caseDocsT, printCasesT, toksSeq_spTokSp, toksSeq_append, commaTok_append, commaTok_cons_tok, tokTexts_append,
      tokTexts_cons, docs_toks e false, casesT_toks cs]
end

/-- **C08, expressions at every width**: whatever the target width, the tokens of the laid-out
expression (inline or block argument lists; the trailing commas of the block style dropped, as the
grammar's `SeparatedTrailing` allows) are the tokens `printExpr e` that `expr_print_parse` is about. -/
theorem expr_layout_printExpr (w : Nat) (e : Expr) :
    commaTok (ess (renderExprPieces w e)) = tokTexts (printExpr e) := by
  rw [expr_layout_tokens]
  exact docs_toks e false


/-! ## examples and the glue sites -/

section examples
def vx : Expr := .var { sigil := none, name := .normal ['x'] }
def vI0 : Expr := .var { sigil := some .int, name := .reg (-10001) }
/-- `(x + ((3 * -4) << $REG[-10001]))` -/
def ex1 : Expr := .binop vx .add (.binop (.binop (.litInt 3 signedDec) .mul (.litInt (-4) signedDec)) .shl vI0)
/-- `((!x) ? (x :  : 0x7 :  ) : ins_23(@mask=0b101, sin(x - x), %REG[5]++))` -/
def ex2 : Expr :=
  .ternary (.unop .not vx)
    (.diffSwitch (.some vx (.blank (.some (.litInt 7 ⟨false, .hex⟩) (.blank .nil)))))
    (.call (.ins 23) (.cons .mask (.litInt 5 ⟨false, .bin⟩) .nil)
      (.cons (.unop .sin (.binop vx .sub vx)) (.cons (.xcrement false true ⟨some .float, .reg 5⟩) .nil)))

example : NoGlue ex1 = true ∧ printText ex1 = "(x + ((3 * -4) << $REG[-10001]))".toList := by decide +kernel
example : NoGlue ex2 = true ∧
    printText ex2 = "((!x) ? (x :  : 0x7 :  ) : ins_23(@mask=0b101, sin(x - x), %REG[5]++))".toList := by decide +kernel
example : LexOK ex1 := by decide +kernel
example : parseText (printText ex1) = some (norm ex1) := by decide +kernel
example : parseExpr (printExpr ex2) = some (norm ex2) ∧ norm ex2 ≠ ex2 := by decide +kernel
/-- `(x * f(3, (!x)))`: inside the fragment of `expr_print_idempotent` / `expr_print_parse_print` -/
def ex3 : Expr := .binop vx .mul (.call (.normal ['f']) .nil (.cons (.litInt 3 signedDec) (.cons (.unop .not vx) .nil)))
example : NoGlue ex3 = true ∧ NoNegLit ex3 = true ∧ HintFree ex3 = true ∧ norm ex3 = ex3 ∧
    printExpr (norm ex3) = printExpr ex3 := by decide +kernel

/-- grouping is kept: the two ways of nesting the same operators print and parse differently -/
example : parseText "((a - b) - c)".toList ≠ parseText "(a - (b - c))".toList ∧
    parseText "a - b - c".toList = parseText "((a - b) - c)".toList ∧
    parseText "a + b * c".toList = parseText "(a + (b * c))".toList ∧
    parseText "a ? b : c ? d : e".toList = parseText "(a ? b : (c ? d : e))".toList ∧
    parseText "a ? b : c : d".toList = none ∧ parseText "a : b ? c : d".toList = none ∧
    parseText "- -x".toList = none ∧ parseText "-(-x)".toList ≠ none := by decide +kernel
end examples

/-- **The glue sites, on the expression level** (known findings "operator-glued-to-operand"):
each conjunct is an expression outside `NoGlue` whose printed text does not parse back.
`-(-3)` and `-(--x)` print `(--3)` / `(---x)`; `~(-1)` prints `(~-1)` (two prefix operators);
`!Enemy` / `!4` / `!(-1)` print a `DifficultyStr` token.  For `-(--x)` the tokens that were
written would parse (`expr tokens`), it is the lexer that fuses them: `LexOK` fails. -/
theorem glue_sites_fail :
    let neg3 : Expr := .litInt (-3) signedDec
    let predec : Expr := .xcrement true false { sigil := none, name := .normal ['x'] }
    (NoGlue (.unop .neg neg3) = false ∧ printText (.unop .neg neg3) = "(--3)".toList ∧
      parseText (printText (.unop .neg neg3)) = none) ∧
    (NoGlue (.unop .neg predec) = false ∧ printText (.unop .neg predec) = "(---x)".toList ∧
      parseText (printText (.unop .neg predec)) = none ∧
      parseExpr (printExpr (.unop .neg predec)) = some (.unop .neg predec) ∧ ¬ LexOK (.unop .neg predec)) ∧
    (NoGlue (.unop .bitNot neg3) = false ∧ parseText (printText (.unop .bitNot neg3)) = none) ∧
    (NoGlue (.unop .not neg3) = false ∧ parseText (printText (.unop .not neg3)) = none) ∧
    (NoGlue (.unop .not (.litInt 4 signedDec)) = false ∧ parseText (printText (.unop .not (.litInt 4 signedDec))) = none) ∧
    (NoGlue (.unop .not (.var { sigil := none, name := .normal "Enemy".toList })) = false ∧
      parseText (printText (.unop .not (.var { sigil := none, name := .normal "Enemy".toList }))) = none) := by
  decide +kernel

/-- a negative literal reads back as the operator applied to the magnitude, and printing that
adds parentheses (known finding "negative-literal-gains-parens"): idempotence needs `NoNegLit` -/
theorem negative_literal_gains_parens :
    parseText (printText (.litInt (-3) signedDec)) = some (.unop .neg (.litInt 3 signedDec)) ∧
    printText (.litInt (-3) signedDec) = "-3".toList ∧
    printText (.unop .neg (.litInt 3 signedDec)) = "(-3)".toList ∧
    NoNegLit (.litInt (-3) signedDec) = false := by decide +kernel

/-! ## the full property (not proved: the statement grammar and floats are searched) -/

/-- The statement of C08 over an abstract script type: `print w` at every width is accepted by
`parse` and denotes the same script, and printing again reproduces the text.  The theorems above
establish the literal layer of it (and refute it at the glue sites); the rest is searched on the
implementation. -/
def printed_scripts_parse_back_full {Script : Type} (print : Nat → Script → List Char)
    (parse : List Char → Option Script) (denote : Script → Script) : Prop :=
  ∀ (w : Nat) (x : Script), ∃ y, parse (print w x) = some y ∧ denote y = denote x ∧ print w y = print w x

/-- What is proved of `printed_scripts_parse_back_full`: the literal layer (integers in every
format, strings), the layout layer (width only changes whitespace and trailing commas, for nested
lists and for whole expressions) and the expression layer (printed tokens parse back to the same
tree, printing again gives the same tokens).
Missing: the statement / item / meta grammar around expressions, float literals and the lexing of
the joined expression text (`LexOK`), which are searched / compared on the implementation; and the
property is false at the glue sites (`unary_glue_minus`, `unary_glue_not`, `glue_sites_fail`). -/
theorem printed_scripts_parse_back_partial :
    (∀ f v, evalLiteral (printInt f v) = .int v) ∧
    (∀ s, lex (escapeString s) = ([.str (escapeString s)], .eof) ∧ parseStringLiteral (escapeString s) = .ok s) ∧
    (∀ w d, ess (renderPieces w d) = d.toks) ∧
    (∀ e, NoGlue e = true → parseExpr (printExpr e) = some (norm e)) ∧
    (∀ e, NoNegLit e = true → HintFree e = true → printExpr (norm e) = printExpr e) ∧
    (∀ w e, commaTok (ess (renderExprPieces w e)) = tokTexts (printExpr e)) :=
  ⟨int_print_parse, string_print_lex_parse, layout_tokens, expr_print_parse, expr_print_idempotent,
    expr_layout_printExpr⟩


/-! # the statement layer

C08, STATEMENT layer: printed statements and blocks parse back to the same statement / block.

Model: `Model/FmtStmt.lean` (`printKind` … the tokens `impl Format for ast::Stmt / StmtKind / Block`
write; `pKind` … a recursive-descent parser for the statement rules of the grammar; `rKind` … the
layout).  The expression layer is used through its interface theorems
(`C08.good`, `C08.expr_print_parse_in_context`, `C08.goodAs`).

* `stmt_print_parse` / `block_print_parse`: for every statement / block inside `OKS` / `OKB`
  (embedded expressions `NoGlue`, names that are identifier tokens, declarations of plain
  identifiers, a difficulty label only on a physical statement, no `+ ++x:` label) the parser
  accepts the printed tokens and returns the same tree up to `normK` (expressions in their normal
  form, `at_symbol` set).
* `stmt_print_idempotent`, `stmt_print_parse_print`.
* `stmt_layout_tokens` / `block_layout_tokens`: at every width at which the formatter does not
  trip its label assertion the laid-out tokens are the tokens of `printStmt` / `printBlock`.
-/

open TruthModel.FmtStmt

/-! ## classification of the statement tokens -/

@[simp] theorem cl_semi : classify tSemi = .semi := by decide
@[simp] theorem cl_lbrace : classify tLbrace = .bad := by decide
@[simp] theorem cl_rbrace : classify tRbrace = .bad := by decide
@[simp] theorem cl_plus : classify tPlus = .op .add := by decide
@[simp] theorem cl_async : classify tAsync = .bad := by decide
@[simp] theorem cl_else : classify tElse = .bad := by decide
@[simp] theorem cl_while : classify tWhile = .bad := by decide

@[simp] theorem sk_lbrace : sk tLbrace = .lbrace := by decide
@[simp] theorem sk_rbrace : sk tRbrace = .rbrace := by decide
@[simp] theorem sk_semi : sk tSemi = .other := by decide
@[simp] theorem sk_colon : sk tColon = .other := by decide
@[simp] theorem sk_lp : sk tLp = .other := by decide
@[simp] theorem sk_rp : sk tRp = .other := by decide
@[simp] theorem sk_lb : sk tLb = .other := by decide
@[simp] theorem sk_rb : sk tRb = .other := by decide
@[simp] theorem sk_at : sk tAt = .other := by decide
@[simp] theorem sk_comma : sk tComma = .other := by decide
@[simp] theorem sk_plus : sk tPlus = .other := by decide
@[simp] theorem sk_minus : sk tMinus = .other := by decide
@[simp] theorem sk_dollar : sk tDollar = .other := by decide
@[simp] theorem sk_percent : sk tPercent = .other := by decide
@[simp] theorem sk_reg : sk tReg = .other := by decide
@[simp] theorem sk_return : sk tReturn = .kReturn := by decide
@[simp] theorem sk_else : sk tElse = .kElse := by decide
@[simp] theorem sk_do : sk tDo = .kDo := by decide
@[simp] theorem sk_while : sk tWhile = .kWhile := by decide
@[simp] theorem sk_times : sk tTimes = .kTimes := by decide
@[simp] theorem sk_loop : sk tLoop = .kLoop := by decide
@[simp] theorem sk_goto : sk tGoto = .kGoto := by decide
@[simp] theorem sk_break : sk tBreak = .kBreak := by decide
@[simp] theorem sk_interrupt : sk tInterrupt = .kInterrupt := by decide
@[simp] theorem sk_async : sk tAsync = .kAsync := by decide
@[simp] theorem sk_assign : sk tAssign = .aop .assign := by decide
@[simp] theorem sk_int (s : List Char) : sk (.int s) = .other := rfl
@[simp] theorem sk_float (s : List Char) : sk (.float s) = .other := rfl
@[simp] theorem sk_str (s : List Char) : sk (.str s) = .other := rfl
@[simp] theorem sk_aop (op : AssignOp) : sk op.tok = .aop op := by cases op <;> decide
@[simp] theorem sk_condkw (kw : CondKw) : sk kw.tok = (match kw with | .if_ => .kIf | .unless => .kUnless) := by
  cases kw <;> decide
@[simp] theorem sk_ty (k : TypeKw) : sk k.tok = .ty k := by cases k <;> decide
@[simp] theorem sk_xcr (inc : Bool) : sk (xcrTok inc) = .other := by cases inc <;> decide
@[simp] theorem sk_labelKw (k : LabelKw) : sk (.word k.text) = .other := by cases k <;> decide

theorem cl_aop_ne_semi (op : AssignOp) : classify op.tok ≠ .semi := by cases op <;> decide
theorem cl_aop_ne_colon (op : AssignOp) : classify op.tok ≠ .colon := by cases op <;> decide

/-- the words `wordSK` knows -/
def stmtKeywords : List (List Char) :=
  [['r', 'e', 't', 'u', 'r', 'n'], ['i', 'f'], ['u', 'n', 'l', 'e', 's', 's'], ['e', 'l', 's', 'e'], ['d', 'o'],
   ['w', 'h', 'i', 'l', 'e'], ['t', 'i', 'm', 'e', 's'], ['l', 'o', 'o', 'p'], ['g', 'o', 't', 'o'], ['b', 'r', 'e', 'a', 'k'],
   ['i', 'n', 't', 'e', 'r', 'r', 'u', 'p', 't'], ['a', 's', 'y', 'n', 'c'], ['i', 'n', 't'], ['f', 'l', 'o', 'a', 't'],
   ['s', 't', 'r', 'i', 'n', 'g'], ['v', 'a', 'r'], ['v', 'o', 'i', 'd']]

theorem wordSK_other (w : List Char) (h : w ∉ stmtKeywords) : wordSK w = .other := by
  simp only [stmtKeywords, List.mem_cons, List.not_mem_nil, or_false, not_or] at h
  simp [wordSK, h]

theorem stmtKeywords_facts : ∀ w ∈ stmtKeywords, identOK w = false ∧ wordSK w ≠ .lbrace ∧ wordSK w ≠ .rbrace ∧
    (wordSK w = .kElse → wordClass w = .bad) := by decide

/-- a word that is an identifier for the grammar is no statement keyword -/
theorem sk_ident {w : List Char} (h : identOK w = true) : sk (.word w) = .other := by
  by_cases hm : w ∈ stmtKeywords
  · have := (stmtKeywords_facts w hm).1
    rw [h] at this; cases this
  · exact wordSK_other w hm

theorem sk_punct_cases (s : List Char) :
    (s = ['{'] ∧ sk (.punct s) = .lbrace) ∨ (s = ['}'] ∧ sk (.punct s) = .rbrace) ∨
    (∃ op, sk (.punct s) = .aop op) ∨ sk (.punct s) = .other := by
  by_cases h1 : s = ['{']
  · left; exact ⟨h1, by simp [sk, h1]⟩
  · by_cases h2 : s = ['}']
    · right; left; exact ⟨h2, by subst h2; decide⟩
    · cases h3 : assignOpOfText s with
      | none => right; right; right; simp [sk, h1, h2, h3]
      | some op => right; right; left; exact ⟨op, by simp [sk, h1, h2, h3]⟩

/-- the tokens that open / close a block and `else` are not tokens an expression starts with -/
theorem startsExpr_sk {t : Tok} (h : startsExpr (some (classify t)) = true) :
    sk t ≠ .lbrace ∧ sk t ≠ .rbrace ∧ sk t ≠ .kElse := by
  cases t with
  | punct s =>
    rcases sk_punct_cases s with ⟨rfl, _⟩ | ⟨rfl, _⟩ | ⟨op, ho⟩ | ho
    · revert h; decide
    · revert h; decide
    · rw [ho]; simp
    · rw [ho]; simp
  | word w =>
    by_cases hm : w ∈ stmtKeywords
    · obtain ⟨_, h2, h3, h4⟩ := stmtKeywords_facts w hm
      refine ⟨h2, h3, ?_⟩
      intro he
      have hb : classify (.word w) = .bad := h4 he
      rw [hb] at h
      cases h
    · have : sk (.word w) = .other := wordSK_other w hm
      rw [this]; simp
  | int s => simp [sk]
  | float s => simp [sk]
  | str s => simp [sk]
  | difficulty s => simp [sk]

/-! ## the expression parser on raw tokens -/

theorem hd_eq (toks : List Tok) : (toks.map classify).head? = hd toks := by
  cases toks <;> rfl

theorem drop_map_len (a b : List Tok) : (a ++ b).drop ((a ++ b).length - (b.map classify).length) = b := by
  have : (a ++ b).length - (b.map classify).length = a.length := by simp
  rw [this]
  exact List.drop_left' rfl

/-- `Expr` inside a context that closes it (`)`, `,`, `]`, `;`), parentheses suppressed or not -/
theorem exprAt_print (e : Expr) (h : NoGlue e = true) (sup : Bool) (f : Nat) (hf : cost e + 12 ≤ f)
    (rest : List Tok) (hc : closes (hd rest) = true) : exprAt f (printE sup e ++ rest) = some (norm e, rest) := by
  unfold exprAt
  rw [List.map_append, expr_print_parse_in_context e h sup f hf (rest.map classify) (by rw [hd_eq]; exact hc)]
  simp only
  rw [drop_map_len]

/-- `ExprNoColon` in front of a token that no operator tier continues with (`;`, `:`, `async` …) -/
theorem exprNCAt_print (e : Expr) (h : NoGlue e = true) (f : Nat) (hf : cost e + 11 ≤ f)
    (rest : List Tok) (hst : stopsTerm (hd rest) = true) (hb : binOpOf (hd rest) = none) :
    exprNCAt f (printE false e ++ rest) = some (norm e, rest) := by
  unfold exprNCAt
  rw [List.map_append, (good e h).level 0 (by omega) f (rest.map classify) (by omega) (by rw [hd_eq]; exact hst)
    (fun op hop => by rw [hd_eq, hb] at hop; cases hop)]
  simp only
  rw [drop_map_len]

theorem itemsAt_print (as : Exprs) (h : NoGlueAs as = true) (f : Nat) (hf : costAs as ≤ f) (rest : List Tok) :
    itemsAt f (printArgs as ++ tRp :: rest) = some ((.nil, normAs as), rest) := by
  unfold itemsAt
  have := goodAs as h f (rest.map classify) hf
  rw [List.map_append, List.map_cons, cl_rp, this]
  simp only
  have h2 := drop_map_len (printArgs as ++ [tRp]) rest
  simpa using h2

/-! ## small steps of the statement parser -/

@[simp] theorem hd_cons (t : Tok) (r : List Tok) : hd (t :: r) = some (classify t) := rfl
@[simp] theorem hs_cons (t : Tok) (r : List Tok) : hs (t :: r) = some (sk t) := rfl
@[simp] theorem hd_nil : hd [] = none := rfl
@[simp] theorem hs_nil : hs [] = none := rfl

theorem braces_append (ts rest : List Tok) : braces ts ++ rest = tLbrace :: (ts ++ tRbrace :: rest) := by
  simp [braces]

/-- the first token of a printed expression starts an expression -/
theorem printE_head (e : Expr) (h : NoGlue e = true) :
    ∃ t0 r0, printE false e = t0 :: r0 ∧ startsExpr (some (classify t0)) = true := by
  obtain ⟨t, r, htr, hs⟩ := (good e h).head
  cases hp : printE false e with
  | nil => rw [hp] at htr; cases htr
  | cons t0 r0 =>
    rw [hp] at htr
    simp only [List.map_cons, List.cons.injEq] at htr
    exact ⟨t0, r0, rfl, by rw [htr.1]; exact hs⟩

theorem startsExpr_ne_semi {t : PTok} (h : startsExpr (some t) = true) : t ≠ .semi ∧ t ≠ .colon ∧ t ≠ .rp := by
  cases t <;> simp_all [startsExpr]

theorem pLitIntSigned_print (t : Int32) (rest : List Tok) :
    pLitIntSigned (numToks (printI32 t) ++ rest) = some (t, rest) := by
  rcases shape_printI32 t with ⟨_, hn⟩ | ⟨_, hp⟩
  · obtain ⟨r, hr, hv⟩ := numToks_neg hn
    rw [hr]
    simp [pLitIntSigned, tMinus, hv]
    decide
  · have hv := hp.2.2.2
    rw [numToks_plain hp]
    simp [pLitIntSigned, hv]

theorem pJump_print (j : Jump) (h : jumpOK j = true) (rest : List Tok) :
    pJump (jumpToks j ++ tSemi :: rest) = some (j, tSemi :: rest) := by
  cases j with
  | brk => simp [jumpToks, pJump]
  | goto d t =>
    have hd' : identOK d = true := by simpa [jumpOK] using h
    cases t with
    | none => simp [jumpToks, pJump, cl_ident hd']
    | some v =>
      have := pLitIntSigned_print v (tSemi :: rest)
      simp [jumpToks, pJump, cl_ident hd', this]

theorem jumpToks_head (j : Jump) : ∃ t0 r0, jumpToks j = t0 :: r0 ∧ (sk t0 = .kGoto ∨ sk t0 = .kBreak) := by
  cases j with
  | brk => exact ⟨tBreak, [], rfl, Or.inr sk_break⟩
  | goto d t => cases t <;> exact ⟨tGoto, _, rfl, Or.inl sk_goto⟩

theorem pParenExpr_print (c : Expr) (h : NoGlue c = true) (f : Nat) (hf : cost c + 12 ≤ f) (rest : List Tok) :
    pParenExpr f (tLp :: (printE true c ++ tRp :: rest)) = some (norm c, rest) := by
  have := exprAt_print c h true f hf (tRp :: rest) (by simp [closes])
  simp [pParenExpr, this]

/-! ## fuel that suffices for a printed statement -/

def needAsync : Async → Nat
  | .id e => cost e + 11
  | _ => 0

def needD : List (Var × Option Expr) → Nat
  | [] => 0
  | (_, none) :: rest => needD rest + 1
  | (_, some e) :: rest => max (cost e + 13) (needD rest + 1)

mutual
def needK : Kind → Nat
  | .jump _ => 1
  | .ret none => 1
  | .ret (some e) => cost e + 13
  | .condJump _ c _ => cost c + 13
  | .condChain _ c b rest => max (cost c + 12) (max (needB b) (needC rest)) + 1
  | .loop b => needB b + 1
  | .while_ c b => max (cost c + 12) (needB b) + 1
  | .doWhile b c => max (needB b) (cost c + 12) + 1
  | .times _ n b => max (cost n + 12) (needB b) + 1
  | .expr e => cost e + 13
  | .block b => needB b + 1
  | .assign _ _ e => cost e + 13
  | .decl _ vars => needD vars + 1
  | .callSub _ as _ args => max (costAs args + 16) (needAsync as) + 1
  | .label _ => 1
  | .interrupt e => cost e + 13
  | .absTime _ => 1
  | .relTime d => cost d + 12
def needB : Block → Nat
  | .nil => 1
  | .cons _ k rest => max (needK k + 2) (needB rest + 1)
def needC : Chain → Nat
  | .nil => 1
  | .els b => needB b + 1
  | .elif _ c b rest => max (cost c + 12) (max (needB b) (needC rest)) + 1
end

/-! ## the leading tokens -/

theorem lead_of_sk_kw {t : Tok} {r : List Tok} {l : Lead}
    (h : (sk t = .kReturn ∧ l = .ret) ∨ (sk t = .kIf ∧ l = .cond .if_) ∨ (sk t = .kUnless ∧ l = .cond .unless) ∨
      (sk t = .kDo ∧ l = .doW) ∨ (sk t = .kWhile ∧ l = .whileW) ∨ (sk t = .kTimes ∧ l = .times) ∨ (sk t = .kLoop ∧ l = .loop) ∨
      (sk t = .kGoto ∧ l = .jump) ∨ (sk t = .kBreak ∧ l = .jump) ∨ (sk t = .kInterrupt ∧ l = .interrupt) ∨ (sk t = .lbrace ∧ l = .lbrace)) :
    lead (t :: r) = l := by
  rcases h with ⟨h, rfl⟩ | ⟨h, rfl⟩ | ⟨h, rfl⟩ | ⟨h, rfl⟩ | ⟨h, rfl⟩ | ⟨h, rfl⟩ | ⟨h, rfl⟩ | ⟨h, rfl⟩ | ⟨h, rfl⟩ | ⟨h, rfl⟩ | ⟨h, rfl⟩ <;>
    simp [lead, h]

theorem lead_other {t : Tok} {r : List Tok} (h : sk t = .other ∨ ∃ op, sk t = .aop op) :
    lead (t :: r) = leadByClass t r := by
  rcases h with h | ⟨op, h⟩ <;> simp [lead, h]

theorem lead_lp (r : List Tok) : lead (tLp :: r) = .generic := by
  rw [lead_other (Or.inl sk_lp)]; simp [leadByClass]

theorem varToks_cases (v : Var) (hok : varOK v = true) :
    (∃ id, varToks v = [.word id] ∧ identOK id = true) ∨ (∃ r0, varToks v = tReg :: r0) ∨
    (∃ r0, varToks v = tDollar :: r0) ∨ (∃ r0, varToks v = tPercent :: r0) := by
  obtain ⟨sg, nm⟩ := v
  cases sg with
  | none =>
    cases nm with
    | normal id => exact Or.inl ⟨id, rfl, by simpa [varOK] using hok⟩
    | reg n => exact Or.inr (Or.inl ⟨_, rfl⟩)
  | some s =>
    cases s with
    | int => exact Or.inr (Or.inr (Or.inl ⟨_, rfl⟩))
    | float => exact Or.inr (Or.inr (Or.inr ⟨_, rfl⟩))

theorem lead_varToks (v : Var) (hok : varOK v = true) (X : List Tok) (hX : hd X ≠ some .colon) :
    lead (varToks v ++ X) = .generic := by
  rcases varToks_cases v hok with ⟨id, hv, hid⟩ | ⟨r0, hv⟩ | ⟨r0, hv⟩ | ⟨r0, hv⟩
  · rw [hv, List.singleton_append, lead_other (Or.inl (sk_ident hid))]
    simp [leadByClass, cl_ident hid, hX]
  · rw [hv, List.cons_append, lead_other (Or.inl sk_reg)]; simp [leadByClass]
  · rw [hv, List.cons_append, lead_other (Or.inl sk_dollar)]; simp [leadByClass]
  · rw [hv, List.cons_append, lead_other (Or.inl sk_percent)]; simp [leadByClass]

theorem sk_insWord (ds : List Char) : sk (.word (insPrefix ++ ds)) = .other := by
  apply wordSK_other
  simp [stmtKeywords, insPrefix]

theorem lead_func (u : UnOp) (hp : u.isPrefix = false) (r : List Tok) : lead (u.tok :: tLp :: r) = .generic := by
  have hsk : sk u.tok = .other ∨ sk u.tok = .ty .int ∨ sk u.tok = .ty .float := by
    cases u <;> first | (exact absurd hp (by decide)) | decide
  rcases hsk with h | h | h
  · rw [lead_other (Or.inl h)]
    rcases cl_unop_func u hp with hc | ⟨_, hc⟩ | ⟨_, hc⟩ <;> simp [leadByClass, hc]
  · simp [lead, h]
  · simp [lead, h]

/-- an expression statement is read by the rules for statements that begin with an expression -/
theorem lead_expr (e : Expr) (h : NoGlue e = true) (rest : List Tok) :
    lead (printE false e ++ tSemi :: rest) = .generic := by
  cases e with
  | ternary c l r => simp [printE, wrap, lead_lp]
  | binop a op b => simp [printE, wrap, lead_lp]
  | unop op x =>
    by_cases hp : op.isPrefix = true
    · simp [printE, hp, wrap, lead_lp]
    · have hp' : op.isPrefix = false := by simpa using hp
      simp [printE, hp', lead_func op hp']
  | xcrement pre inc v =>
    have hok : varOK v = true := by simpa [NoGlue] using h
    cases pre with
    | true =>
      simp only [printE, if_true, List.cons_append]
      rw [lead_other (Or.inl (sk_xcr inc))]
      cases inc <;> simp [leadByClass]
    | false =>
      simp only [printE, Bool.false_eq_true, if_false, List.append_assoc]
      exact lead_varToks v hok _ (by cases inc <;> simp)
  | var v =>
    have hok : varOK v = true := by simpa [NoGlue] using h
    simp only [printE]
    exact lead_varToks v hok _ (by simp)
  | call name ps as =>
    simp only [NoGlue, Bool.and_eq_true] at h
    cases name with
    | normal id =>
      have hid : identOK id = true := by simpa [CallName.ok] using h.1.1
      simp only [printE, CallName.tok, List.cons_append]
      rw [lead_other (Or.inl (sk_ident hid))]
      simp [leadByClass, cl_ident hid]
    | ins n =>
      simp only [printE, CallName.tok, List.cons_append]
      rw [lead_other (Or.inl (sk_insWord _))]
      simp [leadByClass, cl_ins]
  | diffSwitch cs =>
    cases cs with
    | some e cs' => simp [printE, wrap, lead_lp]
    | nil => simp [NoGlue] at h
    | blank _ => simp [NoGlue] at h
  | litInt v f =>
    simp only [printE]
    rcases printInt_shape f v with ⟨ht, _⟩ | ⟨ht, _⟩ | ⟨hneg, _⟩ | ⟨hp, _⟩
    · rw [ht]
      have : numToks falseText = [.word falseText] := by decide
      rw [this, List.singleton_append, lead_other (Or.inl (by decide))]
      simp [leadByClass]
    · rw [ht]
      have : numToks trueText = [.word trueText] := by decide
      rw [this, List.singleton_append, lead_other (Or.inl (by decide))]
      simp [leadByClass]
    · obtain ⟨r, hr, _⟩ := numToks_neg hneg
      rw [hr]
      simp only [List.cons_append, List.nil_append]
      rw [lead_other (Or.inl sk_minus)]
      simp [leadByClass]
    · rw [numToks_plain hp, List.singleton_append, lead_other (Or.inl (sk_int _))]
      simp [leadByClass]
  | litFloat neg b =>
    simp only [printE]
    cases b <;> cases neg <;> simp only [floatToks, Bool.false_eq_true, if_false, if_true, List.nil_append, List.cons_append]
    all_goals first
      | (rw [lead_other (Or.inl (sk_float _))]; simp [leadByClass]; done)
      | (rw [lead_other (Or.inl sk_minus)]; simp [leadByClass]; done)
      | (rw [lead_other (Or.inl (by decide))]; simp [leadByClass]; done)
  | litString s =>
    simp only [printE, List.singleton_append]
    rw [lead_other (Or.inl (sk_str _))]; simp [leadByClass]
  | labelProp kw l =>
    simp only [printE, List.cons_append]
    rw [lead_other (Or.inl (sk_labelKw kw))]; simp [leadByClass]
  | enumConst en id =>
    simp only [NoGlue, Bool.and_eq_true] at h
    simp only [printE, List.cons_append]
    rw [lead_other (Or.inl (sk_ident h.1))]
    simp [leadByClass, cl_ident h.1]

theorem varToks_not_str (v : Var) (X : List Tok) (s : List Char) (r : List Tok) : varToks v ++ X ≠ .str s :: r := by
  obtain ⟨sg, nm⟩ := v
  cases sg with
  | none => cases nm <;> simp [varToks, sigilToks, nameToks, tReg]
  | some x => cases x <;> simp [varToks, sigilToks, tDollar, tPercent]

/-- only a string literal begins with a string token, and it is that token alone -/
theorem printE_str_head (e : Expr) :
    (∀ s r, printE false e ≠ .str s :: r) ∨ ∃ s, printE false e = [.str s] := by
  cases e with
  | litString s => exact Or.inr ⟨_, rfl⟩
  | ternary c l r => left; intro s r; simp [printE, wrap, tLp]
  | binop a op b => left; intro s r; simp [printE, wrap, tLp]
  | unop op x =>
    left; intro s r
    simp only [printE]
    split
    · simp [wrap, tLp]
    · cases op <;> simp [UnOp.tok, tMinus, tDollar, tPercent]
  | xcrement pre inc v =>
    left; intro s r
    cases pre
    · simpa [printE] using varToks_not_str v _ s r
    · cases inc <;> simp [printE, xcrTok, tInc, tDec]
  | var v =>
    left; intro s r
    simpa [printE] using varToks_not_str v [] s r
  | call name ps as => left; intro s r; cases name <;> simp [printE, CallName.tok]
  | diffSwitch cs => left; intro s r; simp [printE, wrap, tLp]
  | litInt v f =>
    left; intro s r
    simp only [printE, numToks]
    split
    · simp [tMinus]
    · split <;> simp
  | litFloat neg b => left; intro s r; cases b <;> cases neg <;> simp [printE, floatToks, tMinus]
  | labelProp kw l => left; intro s r; simp [printE]
  | enumConst en id => left; intro s r; simp [printE]

/-! ## the first token of a statement -/

theorem diffLabelAt_absent_of_sk {t0 : Tok} {r : List Tok} (h : sk t0 ≠ .lbrace) : diffLabelAt (t0 :: r) = .absent := by
  unfold diffLabelAt
  split
  · rename_i a s b c heq
    simp only [List.cons.injEq] at heq
    obtain ⟨rfl, _⟩ := heq
    simp [h]
  · rfl

theorem diffLabelAt_second (t0 t1 : Tok) (r : List Tok) (h : ∀ s, t1 ≠ .str s) : diffLabelAt (t0 :: t1 :: r) = .absent := by
  unfold diffLabelAt
  split
  · rename_i a s b c heq
    simp only [List.cons.injEq] at heq
    exact absurd heq.2.1 (h s)
  · rfl

theorem diffLabelAt_third (t0 : Tok) (s : List Char) (t2 : Tok) (r : List Tok) (h : sk t2 ≠ .rbrace) :
    diffLabelAt (t0 :: .str s :: t2 :: r) = .absent := by
  simp [diffLabelAt, h]

theorem diffLabelAt_two (t0 t1 : Tok) : diffLabelAt [t0, t1] = .absent := by
  unfold diffLabelAt
  split
  · rename_i a s b c heq
    simp at heq
  · rfl

/-- what the block loop and the difficulty-label rule need to know about the first tokens of a
statement: it does not start with `}` or `else`; only a block starts with `{`; and a leading
string token is followed by `;` -/
structure HeadOK (toks : List Tok) (isBlock : Prop) : Prop where
  ne : ∃ t0 r0, toks = t0 :: r0 ∧ sk t0 ≠ .rbrace ∧ sk t0 ≠ .kElse ∧ (sk t0 = .lbrace → isBlock) ∧
    ((∀ s, t0 ≠ .str s) ∨ r0 = [tSemi])

theorem headOK_of {t0 : Tok} {r0 : List Tok} {P : Prop} (h1 : sk t0 ≠ .rbrace) (h2 : sk t0 ≠ .kElse) (h3 : sk t0 ≠ .lbrace)
    (h4 : ∀ s, t0 ≠ .str s) : HeadOK (t0 :: r0) P :=
  ⟨t0, r0, rfl, h1, h2, fun h => absurd h h3, Or.inl h4⟩

theorem numToks_printI32_head (t : Int32) (X : List Tok) :
    ∃ t0 r0, numToks (printI32 t) ++ X = t0 :: r0 ∧ sk t0 = .other ∧ ∀ s, t0 ≠ .str s := by
  rcases shape_printI32 t with ⟨_, hn⟩ | ⟨_, hp⟩
  · obtain ⟨r, hr, _⟩ := numToks_neg hn
    exact ⟨tMinus, _, by rw [hr]; rfl, sk_minus, by simp [tMinus]⟩
  · exact ⟨.int _, _, by rw [numToks_plain hp]; rfl, rfl, by simp⟩

theorem varToks_head_sk (v : Var) (hok : varOK v = true) (X : List Tok) :
    ∃ t0 r0, varToks v ++ X = t0 :: r0 ∧ sk t0 = .other ∧ ∀ s, t0 ≠ .str s := by
  rcases varToks_cases v hok with ⟨id, hv, hid⟩ | ⟨r0, hv⟩ | ⟨r0, hv⟩ | ⟨r0, hv⟩
  · exact ⟨_, _, by rw [hv]; rfl, sk_ident hid, by simp⟩
  · exact ⟨_, _, by rw [hv]; rfl, sk_reg, by simp [tReg]⟩
  · exact ⟨_, _, by rw [hv]; rfl, sk_dollar, by simp [tDollar]⟩
  · exact ⟨_, _, by rw [hv]; rfl, sk_percent, by simp [tPercent]⟩

theorem kind_head (k : Kind) (h : OKK k = true) : HeadOK (printKind k) (∃ b, k = .block b) := by
  cases k with
  | jump j =>
    obtain ⟨t0, r0, hj, hs⟩ := jumpToks_head j
    simp only [printKind, hj, List.cons_append]
    rcases hs with hs | hs <;> exact headOK_of (by simp [hs]) (by simp [hs]) (by simp [hs]) (by
      intro s hs'; subst hs'; simp at hs)
  | ret v =>
    cases v <;> (simp only [printKind]; exact headOK_of (by simp) (by simp) (by simp) (by simp [tReturn]))
  | condJump kw c j =>
    simp only [printKind]
    cases kw <;> exact headOK_of (by simp) (by simp) (by simp) (by simp [CondKw.tok])
  | condChain kw c b rest =>
    simp only [printKind]
    cases kw <;> exact headOK_of (by simp) (by simp) (by simp) (by simp [CondKw.tok])
  | loop b => simp only [printKind]; exact headOK_of (by simp) (by simp) (by simp) (by simp [tLoop])
  | while_ c b => simp only [printKind]; exact headOK_of (by simp) (by simp) (by simp) (by simp [tWhile])
  | doWhile b c => simp only [printKind]; exact headOK_of (by simp) (by simp) (by simp) (by simp [tDo])
  | times clb n b => simp only [printKind]; exact headOK_of (by simp) (by simp) (by simp) (by simp [tTimes])
  | expr e =>
    have he : NoGlue e = true := by simpa [OKK] using h
    obtain ⟨t0, r0, hp, hs⟩ := printE_head e he
    obtain ⟨h1, h2, h3⟩ := startsExpr_sk hs
    simp only [printKind, hp, List.cons_append]
    refine ⟨t0, _, rfl, h2, h3, fun hl => absurd hl h1, ?_⟩
    rcases printE_str_head e with hn | ⟨s, hs1⟩
    · left; intro s hs'; subst hs'; exact hn s r0 hp
    · right
      rw [hs1] at hp
      simp only [List.cons.injEq] at hp
      rw [← hp.2]; rfl
  | block b =>
    simp only [printKind, braces]
    exact ⟨tLbrace, _, rfl, by simp, by simp, fun _ => ⟨b, rfl⟩, Or.inl (by simp [tLbrace])⟩
  | assign v op e =>
    have hv : varOK v = true := by simp only [OKK, Bool.and_eq_true] at h; exact h.1
    obtain ⟨t0, r0, hp, hs, hstr⟩ := varToks_head_sk v hv (op.tok :: (printE true e ++ [tSemi]))
    simp only [printKind, hp]
    exact headOK_of (by simp [hs]) (by simp [hs]) (by simp [hs]) hstr
  | decl ty vars => simp only [printKind]; exact headOK_of (by simp) (by simp) (by simp) (by simp [TypeKw.tok])
  | callSub atSym as f args =>
    have hf : identOK f = true := by simp only [OKK, Bool.and_eq_true] at h; exact h.1.1.1
    cases atSym
    · simp only [printKind, Bool.false_eq_true, if_false, List.nil_append]
      exact headOK_of (by simp [sk_ident hf]) (by simp [sk_ident hf]) (by simp [sk_ident hf]) (by simp)
    · simp only [printKind, if_true, List.cons_append, List.nil_append]
      exact headOK_of (by simp) (by simp) (by simp) (by simp [tAt])
  | label n =>
    have hn : identOK n = true := by simpa [OKK] using h
    simp only [printKind]
    exact headOK_of (by simp [sk_ident hn]) (by simp [sk_ident hn]) (by simp [sk_ident hn]) (by simp)
  | interrupt e => simp only [printKind]; exact headOK_of (by simp) (by simp) (by simp) (by simp [tInterrupt])
  | absTime t =>
    obtain ⟨t0, r0, hp, hs, hstr⟩ := numToks_printI32_head t [tColon]
    simp only [printKind, hp]
    exact headOK_of (by simp [hs]) (by simp [hs]) (by simp [hs]) hstr
  | relTime d => simp only [printKind]; exact headOK_of (by simp) (by simp) (by simp) (by simp [tPlus])

/-- the first token of `diffToks d ++ printKind k ++ X` is neither `}` nor `else` -/
theorem stmt_head_sk (d : Option (List Char)) (k : Kind) (h : OKK k = true) (X : List Tok) :
    hs (diffToks d ++ (printKind k ++ X)) ≠ some .rbrace ∧ hs (diffToks d ++ (printKind k ++ X)) ≠ some .kElse := by
  cases d with
  | some s => simp [diffToks]
  | none =>
    obtain ⟨t0, r0, hp, h1, h2, _, _⟩ := (kind_head k h).ne
    simp [diffToks, hp, h1, h2]

theorem items_head_sk (b : Block) (h : OKB b = true) (X : List Tok) :
    hs (printStmts b ++ tRbrace :: X) ≠ some .kElse := by
  cases b with
  | nil => simp [printStmts]
  | cons d k rest =>
    simp only [OKB, Bool.and_eq_true] at h
    simp only [printStmts, List.append_assoc]
    exact (stmt_head_sk d k h.1.2 _).2

/-- a statement without difficulty label is not mistaken for one with a label -/
theorem diffLabelAt_kind (k : Kind) (h : OKK k = true) (X : List Tok) : diffLabelAt (printKind k ++ X) = .absent := by
  obtain ⟨t0, r0, hp, _, _, hb, _⟩ := (kind_head k h).ne
  by_cases hl : sk t0 = .lbrace
  · obtain ⟨b, rfl⟩ := hb hl
    simp only [printKind, braces, List.cons_append]
    cases b with
    | nil => exact diffLabelAt_second _ _ _ (by simp [tRbrace])
    | cons d k' rest =>
      simp only [OKK, OKB, Bool.and_eq_true] at h
      cases d with
      | some s => simp only [printStmts, diffToks, List.cons_append]; exact diffLabelAt_second _ _ _ (by simp [tLbrace])
      | none =>
        obtain ⟨t1, r1, hp1, _, _, _, hstr⟩ := (kind_head k' h.1.2).ne
        simp only [printStmts, diffToks, List.nil_append, hp1, List.cons_append, List.append_assoc]
        rcases hstr with hn | rfl
        · exact diffLabelAt_second _ _ _ hn
        · cases t1 with
          | str s => exact diffLabelAt_third _ _ _ _ (by simp)
          | _ => exact diffLabelAt_second _ _ _ (by simp)
  · rw [hp, List.cons_append]
    exact diffLabelAt_absent_of_sk hl

/-! ## declarations, explicit sub calls, statements that begin with an expression -/

theorem declVarOK_eq {v : Var} (h : declVarOK v = true) : ∃ w, v = { sigil := none, name := .normal w } ∧ identOK w = true := by
  obtain ⟨sg, nm⟩ := v
  cases sg <;> cases nm <;> simp_all [declVarOK]

theorem pDeclItems_print : ∀ (vars : List (Var × Option Expr)), vars ≠ [] → declOK vars = true → ∀ f rest, needD vars ≤ f →
    pDeclItems f (declToks vars ++ tSemi :: rest) = some (normDecl vars, tSemi :: rest)
  | [], hne, _, _, _, _ => absurd rfl hne
  | (v, none) :: vs, _, h, f, rest, hf => by
    simp only [declOK, Bool.and_eq_true] at h
    obtain ⟨w, rfl, hw⟩ := declVarOK_eq h.1
    simp only [needD] at hf
    obtain ⟨f', rfl⟩ : ∃ f', f = f' + 1 := ⟨f - 1, by omega⟩
    cases vs with
    | nil => simp [declToks, varToks, sigilToks, nameToks, pDeclItems, cl_ident hw, normDecl]
    | cons x xs =>
      have ih := pDeclItems_print (x :: xs) (by simp) h.2 f' rest (by omega)
      simp [declToks, varToks, sigilToks, nameToks, pDeclItems, cl_ident hw, normDecl, ih]
  | (v, some e) :: vs, _, h, f, rest, hf => by
    simp only [declOK, Bool.and_eq_true] at h
    obtain ⟨w, rfl, hw⟩ := declVarOK_eq h.1.1
    simp only [needD] at hf
    obtain ⟨f', rfl⟩ : ∃ f', f = f' + 1 := ⟨f - 1, by omega⟩
    cases vs with
    | nil =>
      have he := exprAt_print e h.1.2 false f' (by omega) (tSemi :: rest) (by simp [closes])
      simp [declToks, varToks, sigilToks, nameToks, pDeclItems, cl_ident hw, normDecl, he]
    | cons x xs =>
      have ih := pDeclItems_print (x :: xs) (by simp) h.2 f' rest (by omega)
      have he := exprAt_print e h.1.2 false f' (by omega) (tComma :: (declToks (x :: xs) ++ tSemi :: rest)) (by simp [closes])
      simp [declToks, varToks, sigilToks, nameToks, pDeclItems, cl_ident hw, normDecl, he, ih]

theorem declToks_head (vars : List (Var × Option Expr)) (hne : vars ≠ []) (h : declOK vars = true) (X : List Tok) :
    ∃ w r0, declToks vars ++ X = .word w :: r0 ∧ identOK w = true := by
  cases vars with
  | nil => exact absurd rfl hne
  | cons x xs =>
    obtain ⟨v, oe⟩ := x
    cases oe with
    | none =>
      simp only [declOK, Bool.and_eq_true] at h
      obtain ⟨w, rfl, hw⟩ := declVarOK_eq h.1
      simp only [declToks, varToks, sigilToks, nameToks, List.nil_append, List.cons_append]
      exact ⟨w, _, rfl, hw⟩
    | some e =>
      simp only [declOK, Bool.and_eq_true] at h
      obtain ⟨w, rfl, hw⟩ := declVarOK_eq h.1.1
      simp only [declToks, varToks, sigilToks, nameToks, List.nil_append, List.cons_append]
      exact ⟨w, _, rfl, hw⟩

theorem pDecl_print (ty : TypeKw) (vars : List (Var × Option Expr)) (hty : (ty == .int || ty == .float || ty == .var) = true)
    (h : declOK vars = true) (f : Nat) (hf : needD vars ≤ f) (rest : List Tok) :
    pDecl f ty (declToks vars ++ tSemi :: rest) = some (.decl ty (normDecl vars), rest) := by
  have h1 : ¬ (ty = .string ∨ ty = .void) := by cases ty <;> simp_all
  by_cases hne : vars = []
  · subst hne
    simp [pDecl, h1, declToks, normDecl]
  · obtain ⟨w, r0, hw, hid⟩ := declToks_head vars hne h (tSemi :: rest)
    have hnot : hd (declToks vars ++ tSemi :: rest) ≠ some .semi := by rw [hw]; simp [cl_ident hid]
    simp [pDecl, h1, hnot, pDeclItems_print vars hne h f rest hf]

theorem pAsyncTail_print (as : Async) (h : asyncOK as = true) (f : Nat) (hf : needAsync as ≤ f) (rest : List Tok) :
    pAsyncTail f (asyncToks as ++ tSemi :: rest) = some (normAsync as, rest) := by
  cases as with
  | none => simp [asyncToks, pAsyncTail, normAsync]
  | plain => simp [asyncToks, pAsyncTail, normAsync]
  | id e =>
    have he : NoGlue e = true := by simpa [asyncOK] using h
    obtain ⟨t0, r0, hp, hs⟩ := printE_head e he
    have hne := (startsExpr_ne_semi hs).1
    have hx := exprNCAt_print e he f (by simpa [needAsync] using hf) (tSemi :: rest) (by simp [stopsTerm]) (by simp [binOpOf])
    have hh : hd (printE false e ++ tSemi :: rest) ≠ some .semi := by rw [hp]; simpa using hne
    simp [asyncToks, pAsyncTail, normAsync, hh, hx]

theorem aop_stops (op : AssignOp) : stopsTerm (some (classify op.tok)) = true ∧ binOpOf (some (classify op.tok)) = none := by
  cases op <;> decide

theorem varToks_hd_ne_lp (v : Var) (hok : varOK v = true) (X : List Tok) : hd (varToks v ++ X) ≠ some .lp := by
  rcases varToks_cases v hok with ⟨id, hv, hid⟩ | ⟨r0, hv⟩ | ⟨r0, hv⟩ | ⟨r0, hv⟩ <;> rw [hv] <;> simp [cl_ident, *]

theorem pGeneric_expr (e : Expr) (h : NoGlue e = true) (f : Nat) (hf : cost e + 11 ≤ f) (rest : List Tok) :
    pGeneric f (printE false e ++ tSemi :: rest) = some (.expr (norm e), rest) := by
  have hx := exprNCAt_print e h f hf (tSemi :: rest) (by simp [stopsTerm]) (by simp [binOpOf])
  simp [pGeneric, hx]

theorem pGeneric_assign (v : Var) (op : AssignOp) (e : Expr) (hv : varOK v = true) (h : NoGlue e = true) (f : Nat)
    (hf : cost e + 12 ≤ f) (rest : List Tok) :
    pGeneric f (varToks v ++ op.tok :: (printE true e ++ tSemi :: rest)) = some (.assign v op (norm e), rest) := by
  have hc := cost_pos e
  have hx := exprNCAt_print (.var v) (by simpa [NoGlue] using hv) f (by simp [cost]; omega)
    (op.tok :: (printE true e ++ tSemi :: rest)) (by simpa using (aop_stops op).1) (by simpa using (aop_stops op).2)
  have he := exprAt_print e h true f hf (tSemi :: rest) (by simp [closes])
  have hlp := varToks_hd_ne_lp v hv (op.tok :: (printE true e ++ tSemi :: rest))
  simp only [printE, norm] at hx
  simp [pGeneric, hx, cl_aop_ne_semi op, varOfExpr, hlp, he]

theorem pGeneric_callSub (as : Async) (fn : List Char) (args : Exprs) (hf' : identOK fn = true) (ha : NoGlueAs args = true)
    (has : asyncOK as = true) (hne : as ≠ .none) (f : Nat) (hf : max (costAs args + 16) (needAsync as) ≤ f) (rest : List Tok) :
    pGeneric f (.word fn :: tLp :: (printArgs args ++ tRp :: (asyncToks as ++ tSemi :: rest))) =
      some (.callSub true (normAsync as) fn (normAs args), rest) := by
  have hng : NoGlue (.call (.normal fn) .nil args) = true := by simp [NoGlue, CallName.ok, hf', NoGluePs, ha]
  obtain ⟨X, hX⟩ : ∃ X, asyncToks as ++ tSemi :: rest = tAsync :: X := by
    cases as with
    | none => exact absurd rfl hne
    | plain => exact ⟨_, rfl⟩
    | id e => exact ⟨_, rfl⟩
  have hx := exprNCAt_print (.call (.normal fn) .nil args) hng f (by simp [cost, costPs]; omega) (tAsync :: X)
    (by simp [stopsTerm]) (by simp [binOpOf])
  have hform : (Tok.word fn :: tLp :: (printArgs args ++ tRp :: (asyncToks as ++ tSemi :: rest))) =
      printE false (.call (.normal fn) .nil args) ++ tAsync :: X := by
    simp [printE, CallName.tok, FmtExpr.printItems, hX]
  have ht := pAsyncTail_print as has f (by omega) rest
  rw [hX] at ht
  rw [hform]
  simp only [pGeneric, hx, norm, normPs]
  simp [printE, CallName.tok, cl_ident hf', Pseudos.isNil, ht]

theorem pAtCall_print (as : Async) (fn : List Char) (args : Exprs) (hf' : identOK fn = true) (ha : NoGlueAs args = true)
    (has : asyncOK as = true) (f : Nat) (hf : max (costAs args + 16) (needAsync as) ≤ f) (rest : List Tok) :
    pAtCall f (.word fn :: tLp :: (printArgs args ++ tRp :: (asyncToks as ++ tSemi :: rest))) =
      some (.callSub true (normAsync as) fn (normAs args), rest) := by
  have hi := itemsAt_print args ha f (by omega) (asyncToks as ++ tSemi :: rest)
  have ht := pAsyncTail_print as has f (by omega) rest
  simp [pAtCall, cl_ident hf', hi, Pseudos.isNil, ht]

/-! ## the induction over statements, blocks and chains -/

theorem lead_cond (kw : CondKw) (r : List Tok) : lead (kw.tok :: r) = .cond kw := by
  cases kw <;> exact lead_of_sk_kw (by simp)

theorem normK_isPhysical (k : Kind) : (normK k).isPhysical = k.isPhysical := by
  cases k <;> try rfl
  all_goals (rename_i v; cases v <;> rfl)

theorem exprAt_var (v : Var) (hok : varOK v = true) (f : Nat) (hf : 16 ≤ f) (rest : List Tok)
    (hr : hd rest = some .assign) : exprAt f (varToks v ++ rest) = some (.var v, rest) := by
  obtain ⟨f', rfl⟩ : ∃ f', f = f' + 1 := ⟨f - 1, by omega⟩
  have hl := (good_var v hok).level 0 (by omega) f' (rest.map classify) (by simp [cost]; omega)
    (by rw [hd_eq, hr]; rfl) (fun op hop => by rw [hd_eq, hr] at hop; cases hop)
  have := pExpr_of_level hl (by rw [hd_eq, hr]; simp) (by rw [hd_eq, hr]; simp)
  simp only [printE, norm] at this
  unfold exprAt
  rw [List.map_append, this]
  simp only
  rw [drop_map_len]

theorem parse_escape (s : List Char) : parseStringLiteral (escapeString s) = .ok s := by
  have := string_escape_roundtrip s
  unfold unescapeString at this
  simpa using this

mutual
theorem pKind_print : ∀ (k : Kind), OKK k = true → ∀ (f : Nat) (rest : List Tok), needK k ≤ f → hs rest ≠ some .kElse →
    pKind f (printKind k ++ rest) = some (normK k, rest)
  | .jump j, h, f, rest, hf, _ => by
    simp only [needK] at hf
    obtain ⟨f', rfl⟩ : ∃ f', f = f' + 1 := ⟨f - 1, by omega⟩
    have hj : jumpOK j = true := by simpa [OKK] using h
    obtain ⟨t0, r0, hjt, hsk⟩ := jumpToks_head j
    have hl : lead (printKind (.jump j) ++ rest) = .jump := by
      simp only [printKind, hjt, List.cons_append]
      exact lead_of_sk_kw (by rcases hsk with h | h <;> simp [h])
    have hp := pJump_print j hj rest
    simp only [pKind, hl]
    simp [printKind, hp, normK]
  | .ret none, _, f, rest, hf, _ => by
    simp only [needK] at hf
    obtain ⟨f', rfl⟩ : ∃ f', f = f' + 1 := ⟨f - 1, by omega⟩
    have hl : lead (printKind (.ret none) ++ rest) = .ret := lead_of_sk_kw (by simp)
    simp only [pKind, hl]
    simp [printKind, normK]
  | .ret (some e), h, f, rest, hf, _ => by
    simp only [needK] at hf
    obtain ⟨f', rfl⟩ : ∃ f', f = f' + 1 := ⟨f - 1, by omega⟩
    have he : NoGlue e = true := by simpa [OKK] using h
    have hl : lead (printKind (.ret (some e)) ++ rest) = .ret := lead_of_sk_kw (by simp)
    obtain ⟨t0, r0, hp, hs⟩ := printE_head e he
    have hne : hd (printE false e ++ tSemi :: rest) ≠ some .semi := by rw [hp]; simpa using (startsExpr_ne_semi hs).1
    have hx := exprAt_print e he false f' (by omega) (tSemi :: rest) (by simp [closes])
    simp only [pKind, hl]
    simp [printKind, hne, hx, normK]
  | .condJump kw c j, h, f, rest, hf, _ => by
    simp only [OKK, Bool.and_eq_true] at h
    simp only [needK] at hf
    obtain ⟨f', rfl⟩ : ∃ f', f = f' + 1 := ⟨f - 1, by omega⟩
    have hl : lead (printKind (.condJump kw c j) ++ rest) = .cond kw := lead_cond kw _
    have hp := pParenExpr_print c h.1 f' (by omega) (jumpToks j ++ tSemi :: rest)
    obtain ⟨t0, r0, hjt, hsk⟩ := jumpToks_head j
    have hnb : hs (jumpToks j ++ tSemi :: rest) ≠ some .lbrace := by
      rw [hjt]; rcases hsk with h | h <;> simp [h]
    have hj := pJump_print j h.2 rest
    simp only [pKind, hl]
    simp [printKind, hp, hnb, hj, normK]
  | .condChain kw c b ch, h, f, rest, hf, hne => by
    simp only [OKK, Bool.and_eq_true] at h
    simp only [needK] at hf
    obtain ⟨f', rfl⟩ : ∃ f', f = f' + 1 := ⟨f - 1, by omega⟩
    have hl : lead (printKind (.condChain kw c b ch) ++ rest) = .cond kw := lead_cond kw _
    have hp := pParenExpr_print c h.1.1 f' (by omega) (tLbrace :: (printStmts b ++ tRbrace :: (printChain ch ++ rest)))
    have ihb := pItemsB_print b h.1.2 f' (printChain ch ++ rest) (by omega)
    have ihc := pChain_print ch h.2 f' rest (by omega) hne
    simp only [pKind, hl]
    simp [printKind, braces, hp, ihb, ihc, normK]
  | .loop b, h, f, rest, hf, _ => by
    simp only [needK] at hf
    obtain ⟨f', rfl⟩ : ∃ f', f = f' + 1 := ⟨f - 1, by omega⟩
    have hb : OKB b = true := by simpa [OKK] using h
    have hl : lead (printKind (.loop b) ++ rest) = .loop := lead_of_sk_kw (by simp)
    have ihb := pItemsB_print b hb f' rest (by omega)
    simp only [pKind, hl]
    simp [printKind, braces, ihb, normK]
  | .while_ c b, h, f, rest, hf, _ => by
    simp only [OKK, Bool.and_eq_true] at h
    simp only [needK] at hf
    obtain ⟨f', rfl⟩ : ∃ f', f = f' + 1 := ⟨f - 1, by omega⟩
    have hl : lead (printKind (.while_ c b) ++ rest) = .whileW := lead_of_sk_kw (by simp)
    have hp := pParenExpr_print c h.1 f' (by omega) (tLbrace :: (printStmts b ++ tRbrace :: rest))
    have ihb := pItemsB_print b h.2 f' rest (by omega)
    simp only [pKind, hl]
    simp [printKind, braces, hp, ihb, normK]
  | .doWhile b c, h, f, rest, hf, _ => by
    simp only [OKK, Bool.and_eq_true] at h
    simp only [needK] at hf
    obtain ⟨f', rfl⟩ : ∃ f', f = f' + 1 := ⟨f - 1, by omega⟩
    have hl : lead (printKind (.doWhile b c) ++ rest) = .doW := lead_of_sk_kw (by simp)
    have hp := pParenExpr_print c h.2 f' (by omega) (tSemi :: rest)
    have ihb := pItemsB_print b h.1 f' (tWhile :: tLp :: (printE true c ++ tRp :: tSemi :: rest)) (by omega)
    simp only [pKind, hl]
    simp [printKind, braces, hp, ihb, normK]
  | .times clb n b, h, f, rest, hf, _ => by
    simp only [OKK, Bool.and_eq_true] at h
    simp only [needK] at hf
    obtain ⟨f', rfl⟩ : ∃ f', f = f' + 1 := ⟨f - 1, by omega⟩
    have hl : lead (printKind (.times clb n b) ++ rest) = .times := lead_of_sk_kw (by simp)
    have hc := cost_pos n
    have hx := exprAt_print n h.1.2 true f' (by omega) (tRp :: tLbrace :: (printStmts b ++ tRbrace :: rest)) (by simp [closes])
    have ihb := pItemsB_print b h.2 f' rest (by omega)
    cases clb with
    | none =>
      simp only [pKind, hl]
      simp [printKind, braces, clobberToks, hx, ihb, normK]
    | some v =>
      have hv : varOK v = true := by simpa using h.1.1
      have hxv := exprAt_var v hv f' (by omega) (tAssign :: (printE true n ++ tRp :: tLbrace :: (printStmts b ++ tRbrace :: rest))) (by simp)
      have hlp := varToks_hd_ne_lp v hv (tAssign :: (printE true n ++ tRp :: tLbrace :: (printStmts b ++ tRbrace :: rest)))
      simp only [pKind, hl]
      simp [printKind, braces, clobberToks, hxv, varOfExpr, hlp, hx, ihb, normK]
  | .expr e, h, f, rest, hf, _ => by
    simp only [needK] at hf
    obtain ⟨f', rfl⟩ : ∃ f', f = f' + 1 := ⟨f - 1, by omega⟩
    have he : NoGlue e = true := by simpa [OKK] using h
    have hl : lead (printKind (.expr e) ++ rest) = .generic := by
      simp only [printKind, List.append_assoc, List.singleton_append]; exact lead_expr e he rest
    have hg := pGeneric_expr e he f' (by omega) rest
    simp only [pKind, hl]
    simpa [printKind, normK] using hg
  | .block b, h, f, rest, hf, _ => by
    simp only [needK] at hf
    obtain ⟨f', rfl⟩ : ∃ f', f = f' + 1 := ⟨f - 1, by omega⟩
    have hb : OKB b = true := by simpa [OKK] using h
    have hl : lead (printKind (.block b) ++ rest) = .lbrace := lead_of_sk_kw (by simp)
    have ihb := pItemsB_print b hb f' rest (by omega)
    simp only [pKind, hl]
    simp [printKind, braces, ihb, normK]
  | .assign v op e, h, f, rest, hf, _ => by
    simp only [OKK, Bool.and_eq_true] at h
    simp only [needK] at hf
    obtain ⟨f', rfl⟩ : ∃ f', f = f' + 1 := ⟨f - 1, by omega⟩
    have hl : lead (printKind (.assign v op e) ++ rest) = .generic := by
      simp only [printKind, List.append_assoc]
      exact lead_varToks v h.1 _ (by simpa using cl_aop_ne_colon op)
    have hg := pGeneric_assign v op e h.1 h.2 f' (by omega) rest
    simp only [pKind, hl]
    simpa [printKind, normK] using hg
  | .decl ty vars, h, f, rest, hf, _ => by
    simp only [OKK, Bool.and_eq_true] at h
    simp only [needK] at hf
    obtain ⟨f', rfl⟩ : ∃ f', f = f' + 1 := ⟨f - 1, by omega⟩
    have hnlp : hd (declToks vars ++ tSemi :: rest) ≠ some .lp := by
      by_cases hne : vars = []
      · subst hne; simp [declToks]
      · obtain ⟨w, r0, hw, hid⟩ := declToks_head vars hne h.2 (tSemi :: rest)
        rw [hw]; simp [cl_ident hid]
    have hl : lead (printKind (.decl ty vars) ++ rest) = .decl ty := by
      simp [printKind, lead, hnlp]
    have hd' := pDecl_print ty vars h.1 h.2 f' (by omega) rest
    simp only [pKind, hl]
    simpa [printKind, normK] using hd'
  | .callSub atSym as fn args, h, f, rest, hf, _ => by
    simp only [OKK, Bool.and_eq_true] at h
    simp only [needK] at hf
    obtain ⟨f', rfl⟩ : ∃ f', f = f' + 1 := ⟨f - 1, by omega⟩
    cases atSym with
    | true =>
      have hl : lead (printKind (.callSub true as fn args) ++ rest) = .atCall := by
        simp only [printKind, if_true, List.cons_append, List.nil_append]
        rw [lead_other (Or.inl sk_at)]; simp [leadByClass]
      have hg := pAtCall_print as fn args h.1.1.1 h.1.1.2 h.1.2 f' (by omega) rest
      simp only [pKind, hl]
      simpa [printKind, normK] using hg
    | false =>
      have hne : as ≠ .none := by
        intro hh; subst hh; simp at h
      have hl : lead (printKind (.callSub false as fn args) ++ rest) = .generic := by
        simp only [printKind, Bool.false_eq_true, if_false, List.cons_append, List.nil_append]
        rw [lead_other (Or.inl (sk_ident h.1.1.1))]; simp [leadByClass, cl_ident h.1.1.1]
      have hg := pGeneric_callSub as fn args h.1.1.1 h.1.1.2 h.1.2 hne f' (by omega) rest
      simp only [pKind, hl]
      simpa [printKind, normK] using hg
  | .label n, h, f, rest, hf, _ => by
    simp only [needK] at hf
    obtain ⟨f', rfl⟩ : ∃ f', f = f' + 1 := ⟨f - 1, by omega⟩
    have hn : identOK n = true := by simpa [OKK] using h
    have hl : lead (printKind (.label n) ++ rest) = .label n := by
      simp only [printKind, List.cons_append, List.nil_append]
      rw [lead_other (Or.inl (sk_ident hn))]; simp [leadByClass, cl_ident hn]
    simp only [pKind, hl]
    simp [printKind, normK]
  | .interrupt e, h, f, rest, hf, _ => by
    simp only [needK] at hf
    obtain ⟨f', rfl⟩ : ∃ f', f = f' + 1 := ⟨f - 1, by omega⟩
    have he : NoGlue e = true := by simpa [OKK] using h
    have hl : lead (printKind (.interrupt e) ++ rest) = .interrupt := lead_of_sk_kw (by simp)
    have hx := exprAt_print e he false f' (by omega) (tRb :: tColon :: rest) (by simp [closes])
    simp only [pKind, hl]
    simp [printKind, hx, normK]
  | .absTime t, _, f, rest, hf, _ => by
    simp only [needK] at hf
    obtain ⟨f', rfl⟩ : ∃ f', f = f' + 1 := ⟨f - 1, by omega⟩
    rcases shape_printI32 t with ⟨_, hn⟩ | ⟨_, hp⟩
    · obtain ⟨r, hr, hv⟩ := numToks_neg hn
      have hl : lead (printKind (.absTime t) ++ rest) = .absTime r true := by
        simp only [printKind, hr, List.cons_append, List.nil_append]
        rw [lead_other (Or.inl sk_minus)]; simp [leadByClass]
      simp only [pKind, hl]
      simp [printKind, hr, hv, normK]
    · have hv := hp.2.2.2
      have hl : lead (printKind (.absTime t) ++ rest) = .absTime (printI32 t) false := by
        simp only [printKind, numToks_plain hp, List.cons_append, List.nil_append]
        rw [lead_other (Or.inl (sk_int _))]; simp [leadByClass]
      simp only [pKind, hl]
      simp [printKind, numToks_plain hp, hv, normK]
  | .relTime d, h, f, rest, hf, _ => by
    simp only [OKK, Bool.and_eq_true] at h
    simp only [needK] at hf
    obtain ⟨f', rfl⟩ : ∃ f', f = f' + 1 := ⟨f - 1, by omega⟩
    have hl : lead (printKind (.relTime d) ++ rest) = .relTime := by
      simp only [printKind, List.cons_append]
      rw [lead_other (Or.inl sk_plus)]; simp [leadByClass]
    have hx := exprNCAt_print d h.1 f' (by omega) (tColon :: rest) (by simp [stopsTerm]) (by simp [binOpOf])
    simp only [pKind, hl]
    simp [printKind, hx, normK]
theorem pItemsB_print : ∀ (b : Block), OKB b = true → ∀ (f : Nat) (rest : List Tok), needB b ≤ f →
    pItemsB f (printStmts b ++ tRbrace :: rest) = some (normB b, rest)
  | .nil, _, f, rest, hf => by
    simp only [needB] at hf
    obtain ⟨f', rfl⟩ : ∃ f', f = f' + 1 := ⟨f - 1, by omega⟩
    simp [printStmts, pItemsB, normB]
  | .cons d k b, h, f, rest, hf => by
    simp only [OKB, Bool.and_eq_true] at h
    simp only [needB] at hf
    obtain ⟨g, rfl⟩ : ∃ g, f = g + 1 := ⟨f - 1, by omega⟩
    have hhead := (stmt_head_sk d k h.1.2 (printStmts b ++ tRbrace :: rest)).1
    have ihb := pItemsB_print b h.2 g rest (by omega)
    have hst : pStmt g (diffToks d ++ (printKind k ++ (printStmts b ++ tRbrace :: rest))) =
        some ((d, normK k), printStmts b ++ tRbrace :: rest) := by
      obtain ⟨f', rfl⟩ : ∃ f', g = f' + 1 := ⟨g - 1, by omega⟩
      have ihk := pKind_print k h.1.2 f' (printStmts b ++ tRbrace :: rest) (by omega) (items_head_sk b h.2 rest)
      cases d with
      | none =>
        have hd := diffLabelAt_kind k h.1.2 (printStmts b ++ tRbrace :: rest)
        simp only [diffToks, List.nil_append, pStmt, hd, ihk]
      | some s =>
        have hph : k.isPhysical = true := by simpa using h.1.1
        simp only [diffToks, List.cons_append, List.nil_append, pStmt]
        simp [diffLabelAt, parse_escape, ihk, normK_isPhysical, hph]
    simp only [printStmts, List.append_assoc, pItemsB]
    simp only [hst, ihb]
    simp [hhead, normB]
theorem pChain_print : ∀ (c : Chain), OKC c = true → ∀ (f : Nat) (rest : List Tok), needC c ≤ f → hs rest ≠ some .kElse →
    pChain f (printChain c ++ rest) = some (normC c, rest)
  | .nil, _, f, rest, hf, hne => by
    simp only [needC] at hf
    obtain ⟨f', rfl⟩ : ∃ f', f = f' + 1 := ⟨f - 1, by omega⟩
    simp [printChain, pChain, hne, normC]
  | .els b, h, f, rest, hf, _ => by
    simp only [needC] at hf
    obtain ⟨f', rfl⟩ : ∃ f', f = f' + 1 := ⟨f - 1, by omega⟩
    have hb : OKB b = true := by simpa [OKC] using h
    have ihb := pItemsB_print b hb f' rest (by omega)
    simp [printChain, braces, pChain, ihb, normC]
  | .elif kw c b ch, h, f, rest, hf, hne => by
    simp only [OKC, Bool.and_eq_true] at h
    simp only [needC] at hf
    obtain ⟨f', rfl⟩ : ∃ f', f = f' + 1 := ⟨f - 1, by omega⟩
    have hp := pParenExpr_print c h.1.1 f' (by omega) (tLbrace :: (printStmts b ++ tRbrace :: (printChain ch ++ rest)))
    have ihb := pItemsB_print b h.1.2 f' (printChain ch ++ rest) (by omega)
    have ihc := pChain_print ch h.2 f' rest (by omega) hne
    cases kw <;> simp [printChain, braces, pChain, hp, ihb, ihc, normC]
end

theorem pStmt_print (d : Option (List Char)) (k : Kind) (hd' : (d.isNone || k.isPhysical) = true) (hk : OKK k = true)
    (g : Nat) (hg : needK k + 1 ≤ g) (rest : List Tok) (hne : hs rest ≠ some .kElse) :
    pStmt g (diffToks d ++ (printKind k ++ rest)) = some ((d, normK k), rest) := by
  obtain ⟨f', rfl⟩ : ∃ f', g = f' + 1 := ⟨g - 1, by omega⟩
  have ihk := pKind_print k hk f' rest (by omega) hne
  cases d with
  | none =>
    have hd := diffLabelAt_kind k hk rest
    simp only [diffToks, List.nil_append, pStmt, hd, ihk]
  | some s =>
    have hph : k.isPhysical = true := by simpa using hd'
    simp only [diffToks, List.cons_append, List.nil_append, pStmt]
    simp [diffLabelAt, parse_escape, ihk, normK_isPhysical, hph]

/-! ## the fuel `parseStmt` / `parseBlock` supply suffices -/

theorem needD_le : ∀ (vars : List (Var × Option Expr)), declOK vars = true → needD vars ≤ 40 * (declToks vars).length + 20
  | [], _ => by simp [needD]
  | (v, none) :: vs, h => by
    simp only [declOK, Bool.and_eq_true] at h
    have ih := needD_le vs h.2
    have hv := varToks_len v
    simp only [needD, declToks, List.length_append]
    omega
  | (v, some e) :: vs, h => by
    simp only [declOK, Bool.and_eq_true] at h
    have ih := needD_le vs h.2
    have hv := varToks_len v
    have h1 := cost_le e h.1.2
    have h2 := len_true_le_false e
    simp only [needD, declToks, List.length_append, List.length_cons]
    omega

theorem printKind_len (k : Kind) (h : OKK k = true) : 1 ≤ (printKind k).length := by
  obtain ⟨t0, r0, hp, _⟩ := (kind_head k h).ne
  rw [hp]; simp

mutual
theorem needK_le : ∀ (k : Kind), OKK k = true → needK k ≤ 40 * (printKind k).length + 20
  | .jump j, _ => by simp [needK]
  | .ret none, _ => by simp [needK]
  | .ret (some e), h => by
    have he : NoGlue e = true := by simpa [OKK] using h
    have h1 := cost_le e he; have h2 := len_true_le_false e
    simp only [needK, printKind, List.length_append, List.length_cons, List.length_nil]
    omega
  | .condJump kw c j, h => by
    simp only [OKK, Bool.and_eq_true] at h
    have h1 := cost_le c h.1
    simp only [needK, printKind, List.length_append, List.length_cons]
    omega
  | .condChain kw c b ch, h => by
    simp only [OKK, Bool.and_eq_true] at h
    have h1 := cost_le c h.1.1
    have h2 := needB_le b h.1.2
    have h3 := needC_le ch h.2
    simp only [needK, printKind, braces, List.length_append, List.length_cons, List.length_nil]
    omega
  | .loop b, h => by
    have h2 := needB_le b (by simpa [OKK] using h)
    simp only [needK, printKind, braces, List.length_append, List.length_cons, List.length_nil]
    omega
  | .while_ c b, h => by
    simp only [OKK, Bool.and_eq_true] at h
    have h1 := cost_le c h.1
    have h2 := needB_le b h.2
    simp only [needK, printKind, braces, List.length_append, List.length_cons, List.length_nil]
    omega
  | .doWhile b c, h => by
    simp only [OKK, Bool.and_eq_true] at h
    have h1 := cost_le c h.2
    have h2 := needB_le b h.1
    simp only [needK, printKind, braces, List.length_append, List.length_cons, List.length_nil]
    omega
  | .times clb n b, h => by
    simp only [OKK, Bool.and_eq_true] at h
    have h1 := cost_le n h.1.2
    have h2 := needB_le b h.2
    simp only [needK, printKind, braces, List.length_append, List.length_cons, List.length_nil]
    omega
  | .expr e, h => by
    have he : NoGlue e = true := by simpa [OKK] using h
    have h1 := cost_le e he; have h2 := len_true_le_false e
    simp only [needK, printKind, List.length_append, List.length_cons, List.length_nil]
    omega
  | .block b, h => by
    have h2 := needB_le b (by simpa [OKK] using h)
    simp only [needK, printKind, braces, List.length_append, List.length_cons, List.length_nil]
    omega
  | .assign v op e, h => by
    simp only [OKK, Bool.and_eq_true] at h
    have h1 := cost_le e h.2
    simp only [needK, printKind, List.length_append, List.length_cons, List.length_nil]
    omega
  | .decl ty vars, h => by
    simp only [OKK, Bool.and_eq_true] at h
    have h1 := needD_le vars h.2
    simp only [needK, printKind, List.length_append, List.length_cons, List.length_nil]
    omega
  | .callSub atSym as fn args, h => by
    simp only [OKK, Bool.and_eq_true] at h
    have h1 := costAs_le args h.1.1.2
    have h2 : needAsync as ≤ 40 * (asyncToks as).length := by
      cases as with
      | none => simp [needAsync]
      | plain => simp [needAsync]
      | id e =>
        have he : NoGlue e = true := by simpa [asyncOK] using h.1.2
        have h1 := cost_le e he; have h2 := len_true_le_false e
        simp only [needAsync, asyncToks, List.length_cons]
        omega
    simp only [needK, printKind, List.length_append, List.length_cons, List.length_nil]
    omega
  | .label n, _ => by simp [needK]
  | .interrupt e, h => by
    have he : NoGlue e = true := by simpa [OKK] using h
    have h1 := cost_le e he; have h2 := len_true_le_false e
    simp only [needK, printKind, List.length_append, List.length_cons, List.length_nil]
    omega
  | .absTime t, _ => by simp [needK]
  | .relTime d, h => by
    simp only [OKK, Bool.and_eq_true] at h
    have h1 := cost_le d h.1; have h2 := len_true_le_false d
    simp only [needK, printKind, List.length_append, List.length_cons, List.length_nil]
    omega
theorem needB_le : ∀ (b : Block), OKB b = true → needB b ≤ 40 * (printStmts b).length + 40
  | .nil, _ => by simp [needB]
  | .cons d k b, h => by
    simp only [OKB, Bool.and_eq_true] at h
    have h1 := needK_le k h.1.2
    have h2 := needB_le b h.2
    have h3 := printKind_len k h.1.2
    simp only [needB, printStmts, List.length_append]
    omega
theorem needC_le : ∀ (c : Chain), OKC c = true → needC c ≤ 40 * (printChain c).length + 40
  | .nil, _ => by simp [needC]
  | .els b, h => by
    have h2 := needB_le b (by simpa [OKC] using h)
    simp only [needC, printChain, braces, List.length_append, List.length_cons, List.length_nil]
    omega
  | .elif kw c b ch, h => by
    simp only [OKC, Bool.and_eq_true] at h
    have h1 := cost_le c h.1.1
    have h2 := needB_le b h.1.2
    have h3 := needC_le ch h.2
    simp only [needC, printChain, braces, List.length_append, List.length_cons, List.length_nil]
    omega
end

/-! ## C08, statement layer: a printed statement / block parses back to the same tree -/

/-- with explicit fuel and inside any context that does not continue with `else` -/
theorem stmt_print_parse_in_context (s : Stmt) (h : OKS s = true) (fuel : Nat) (hf : needK s.kind + 1 ≤ fuel)
    (rest : List Tok) (hne : hs rest ≠ some .kElse) :
    pStmt fuel (printStmt s ++ rest) = some ((s.diff, normK s.kind), rest) := by
  simp only [OKS, Bool.and_eq_true] at h
  have := pStmt_print s.diff s.kind h.1 h.2 fuel hf rest hne
  simpa [printStmt] using this

/-- **C08, statements: printed tokens parse back to the same statement.**  For every statement
inside `OKS` (embedded expressions without glue sites, names that are identifier tokens, …) the
statement parser accepts the tokens the formatter writes and builds the same statement up to
`normS`: the same kind with the same labels, jump targets and times, assign-ops, declared
variables, nested blocks statement by statement, `else` parts on the same chain, and every
embedded expression as `expr_print_parse` returns it. -/
theorem stmt_print_parse (s : Stmt) (h : OKS s = true) : parseStmt (printStmt s) = some (normS s) := by
  have hk : OKK s.kind = true := by simp only [OKS, Bool.and_eq_true] at h; exact h.2
  have hb := needK_le s.kind hk
  have hlen : (printKind s.kind).length ≤ (printStmt s).length := by simp [printStmt]
  have := stmt_print_parse_in_context s h (stmtFuel (printStmt s)) (by simp only [stmtFuel]; omega) [] (by simp)
  simp only [List.append_nil] at this
  simp [parseStmt, parseStmtFuel, this, normS]

/-- **C08, blocks: a printed block parses back to the same block**, every statement of it in order -/
theorem block_print_parse_fuel (b : Block) (h : OKB b = true) (fuel : Nat) (hf : needB b ≤ fuel) :
    parseBlockFuel fuel (printBlock b) = some (normB b) := by
  have := pItemsB_print b h fuel [] hf
  simp [parseBlockFuel, printBlock, braces, this]

theorem block_print_parse (b : Block) (h : OKB b = true) : parseBlock (printBlock b) = some (normB b) := by
  have hb := needB_le b h
  exact block_print_parse_fuel b h _ (by simp only [stmtFuel, printBlock, braces, List.length_cons, List.length_append]; omega)

/-- on text: when the joined text lexes to the written tokens (compared with the real lexer on
every generated statement, `stoks`), the printed text parses back to the same statement -/
theorem stmt_print_parse_text (s : Stmt) (h : OKS s = true) (text : List Char)
    (hl : lex text = (printStmt s, .eof)) : parseStmtText text = some (normS s) := by
  unfold parseStmtText
  rw [hl]
  exact stmt_print_parse s h

/-! ## printing again -/

/-- the literals of the expression print without a sign and carry no radix hint
(`expr_print_idempotent`) -/
def idemE (e : Expr) : Bool := NoNegLit e && HintFree e

def idemDecl : List (Var × Option Expr) → Bool
  | [] => true
  | (_, none) :: rest => idemDecl rest
  | (_, some e) :: rest => idemE e && idemDecl rest

def idemAsync : Async → Bool
  | .id e => idemE e
  | _ => true

mutual
/-- every embedded expression is inside the fragment of `expr_print_idempotent`, and an explicit
sub call carries the `@` the parser always sets -/
def IdemK : Kind → Bool
  | .jump _ => true
  | .ret none => true
  | .ret (some e) => idemE e
  | .condJump _ c _ => idemE c
  | .condChain _ c b rest => idemE c && IdemB b && IdemC rest
  | .loop b => IdemB b
  | .while_ c b => idemE c && IdemB b
  | .doWhile b c => IdemB b && idemE c
  | .times _ n b => idemE n && IdemB b
  | .expr e => idemE e
  | .block b => IdemB b
  | .assign _ _ e => idemE e
  | .decl _ vars => idemDecl vars
  | .callSub atSym as _ args => atSym && idemAsync as && NoNegLitAs args && HintFreeAs args
  | .label _ => true
  | .interrupt e => idemE e
  | .absTime _ => true
  | .relTime d => idemE d
def IdemB : Block → Bool
  | .nil => true
  | .cons _ k rest => IdemK k && IdemB rest
def IdemC : Chain → Bool
  | .nil => true
  | .els b => IdemB b
  | .elif _ c b rest => idemE c && IdemB b && IdemC rest
end

theorem printE_norm_idem (e : Expr) (sup : Bool) (h : idemE e = true) : printE sup (norm e) = printE sup e := by
  simp only [idemE, Bool.and_eq_true] at h
  exact print_norm e sup h.1 h.2

theorem normDecl_isEmpty (vars : List (Var × Option Expr)) : (normDecl vars).isEmpty = vars.isEmpty := by
  cases vars with
  | nil => rfl
  | cons x xs => obtain ⟨v, oe⟩ := x; cases oe <;> rfl

theorem declToks_norm : ∀ (vars : List (Var × Option Expr)), idemDecl vars = true → declToks (normDecl vars) = declToks vars
  | [], _ => rfl
  | (v, none) :: vs, h => by
    simp only [idemDecl] at h
    simp [normDecl, declToks, declToks_norm vs h, normDecl_isEmpty]
  | (v, some e) :: vs, h => by
    simp only [idemDecl, Bool.and_eq_true] at h
    simp [normDecl, declToks, declToks_norm vs h.2, normDecl_isEmpty, printE_norm_idem e false h.1]

mutual
theorem printKind_norm : ∀ (k : Kind), IdemK k = true → printKind (normK k) = printKind k
  | .jump j, _ => rfl
  | .ret none, _ => rfl
  | .ret (some e), h => by simp [normK, printKind, printE_norm_idem e false (by simpa [IdemK] using h)]
  | .condJump kw c j, h => by simp [normK, printKind, printE_norm_idem c true (by simpa [IdemK] using h)]
  | .condChain kw c b ch, h => by
    simp only [IdemK, Bool.and_eq_true] at h
    simp [normK, printKind, printE_norm_idem c true h.1.1, printStmts_norm b h.1.2, printChain_norm ch h.2]
  | .loop b, h => by simp [normK, printKind, printStmts_norm b (by simpa [IdemK] using h)]
  | .while_ c b, h => by
    simp only [IdemK, Bool.and_eq_true] at h
    simp [normK, printKind, printE_norm_idem c true h.1, printStmts_norm b h.2]
  | .doWhile b c, h => by
    simp only [IdemK, Bool.and_eq_true] at h
    simp [normK, printKind, printE_norm_idem c true h.2, printStmts_norm b h.1]
  | .times clb n b, h => by
    simp only [IdemK, Bool.and_eq_true] at h
    simp [normK, printKind, printE_norm_idem n true h.1, printStmts_norm b h.2]
  | .expr e, h => by simp [normK, printKind, printE_norm_idem e false (by simpa [IdemK] using h)]
  | .block b, h => by simp [normK, printKind, printStmts_norm b (by simpa [IdemK] using h)]
  | .assign v op e, h => by simp [normK, printKind, printE_norm_idem e true (by simpa [IdemK] using h)]
  | .decl ty vars, h => by simp [normK, printKind, declToks_norm vars (by simpa [IdemK] using h)]
  | .callSub atSym as fn args, h => by
    simp only [IdemK, Bool.and_eq_true] at h
    have ha : asyncToks (normAsync as) = asyncToks as := by
      cases as with
      | none => rfl
      | plain => rfl
      | id e => simp [normAsync, asyncToks, printE_norm_idem e false (by simpa [idemAsync] using h.1.1.2)]
    simp [normK, printKind, h.1.1.1, ha, print_normAs args h.1.2 h.2]
  | .label n, _ => rfl
  | .interrupt e, h => by simp [normK, printKind, printE_norm_idem e false (by simpa [IdemK] using h)]
  | .absTime t, _ => rfl
  | .relTime d, h => by simp [normK, printKind, printE_norm_idem d false (by simpa [IdemK] using h)]
theorem printStmts_norm : ∀ (b : Block), IdemB b = true → printStmts (normB b) = printStmts b
  | .nil, _ => rfl
  | .cons d k b, h => by
    simp only [IdemB, Bool.and_eq_true] at h
    simp [normB, printStmts, printKind_norm k h.1, printStmts_norm b h.2]
theorem printChain_norm : ∀ (c : Chain), IdemC c = true → printChain (normC c) = printChain c
  | .nil, _ => rfl
  | .els b, h => by simp [normC, printChain, printStmts_norm b (by simpa [IdemC] using h)]
  | .elif kw c b ch, h => by
    simp only [IdemC, Bool.and_eq_true] at h
    simp [normC, printChain, printE_norm_idem c true h.1.1, printStmts_norm b h.1.2, printChain_norm ch h.2]
end

/-- **C08, statements: printing the re-parsed statement gives the same tokens again**, when the
embedded expressions are inside the fragment of `expr_print_idempotent` and an explicit sub call
has its `@` -/
theorem stmt_print_idempotent (s : Stmt) (h : IdemK s.kind = true) : printStmt (normS s) = printStmt s := by
  simp [printStmt, normS, printKind_norm s.kind h]

theorem block_print_idempotent (b : Block) (h : IdemB b = true) : printBlock (normB b) = printBlock b := by
  simp [printBlock, printStmts_norm b h]

/-- print, parse, print: the second print equals the first, and it parses again to the same statement -/
theorem stmt_print_parse_print (s : Stmt) (hok : OKS s = true) (h : IdemK s.kind = true) :
    ∃ s', parseStmt (printStmt s) = some s' ∧ printStmt s' = printStmt s ∧ parseStmt (printStmt s') = some s' := by
  refine ⟨normS s, stmt_print_parse s hok, stmt_print_idempotent s h, ?_⟩
  rw [stmt_print_idempotent s h]
  exact stmt_print_parse s hok

theorem block_print_parse_print (b : Block) (hok : OKB b = true) (h : IdemB b = true) :
    ∃ b', parseBlock (printBlock b) = some b' ∧ printBlock b' = printBlock b ∧ parseBlock (printBlock b') = some b' := by
  refine ⟨normB b, block_print_parse b hok, block_print_idempotent b h, ?_⟩
  rw [block_print_idempotent b h]
  exact block_print_parse b hok

/-! ## layout of statements: the width changes only white space, line breaks and trailing commas -/

/-- the tokens a run of documents denotes, separating commas as tokens -/
def ct (ds : XDocs) : List Piece := commaTok ds.toksSeq

@[simp] theorem ct_nil : ct .nil = [] := rfl
@[simp] theorem ct_cons_tok (t : Tok) (ds : XDocs) : ct (.cons (.tok t) ds) = .tok (tokChars t) :: ct ds := by
  simp [ct, XDocs.toksSeq, XDoc.toks, commaTok_cons_tok]
@[simp] theorem ct_cons_tk (t : Tok) (ds : XDocs) : ct (.cons (tk t) ds) = .tok (tokChars t) :: ct ds := ct_cons_tok t ds
@[simp] theorem ct_cons_sp (ds : XDocs) : ct (.cons .sp ds) = ct ds := by
  simp [ct, XDocs.toksSeq, XDoc.toks]
@[simp] theorem ct_append (a b : XDocs) : ct (a.append b) = ct a ++ ct b := by
  simp [ct, toksSeq_append, commaTok_append]
@[simp] theorem ct_ofToks (l : List Tok) : ct (XDocs.ofToks l) = tokTexts l := toksSeq_ofToks l
@[simp] theorem ct_exprDocs (sup : Bool) (e : Expr) : ct (exprDocs sup e) = tokTexts (printE sup e) := docs_toks e sup
@[simp] theorem ct_ofList_nil : ct (XDocs.ofList []) = [] := rfl
@[simp] theorem ct_ofList_cons (d : XDoc) (r : List XDoc) : ct (XDocs.ofList (d :: r)) = ct (.cons d (XDocs.ofList r)) := rfl
@[simp] theorem ct_cons_args (as : Exprs) (ds : XDocs) :
    ct (.cons (.args (argDocs as)) ds) = .tok ['('] :: (tokTexts (printArgs as) ++ .tok [')'] :: ct ds) := by
  simp only [ct, XDocs.toksSeq, XDoc.toks, (xtoks_eq_toksSep _).1, commaTok_append, commaTok_cons_tok, args_toks,
    List.cons_append, List.append_assoc, List.nil_append]

theorem tokTexts_singleton (t : Tok) : tokTexts [t] = [.tok (tokChars t)] := rfl

theorem jumpDocs_ct (j : Jump) : ct (jumpDocs j) = tokTexts (jumpToks j) := by
  cases j with
  | brk => simp [jumpDocs, jumpToks, tokTexts_cons]
  | goto d t => cases t <;> simp [jumpDocs, jumpToks, tokTexts_cons]

theorem diffDocs_ct (d : Option (List Char)) : ct (diffDocs d) = tokTexts (diffToks d) := by
  cases d <;> simp [diffDocs, diffToks, tokTexts_cons]

theorem declDocs_ct : ∀ (vars : List (Var × Option Expr)) (first : Bool),
    ct (declDocs vars first) = (if first || vars.isEmpty then [] else [.tok [',']]) ++ tokTexts (declToks vars)
  | [], first => by simp [declDocs, declToks]
  | (v, none) :: vs, first => by
    have ih := declDocs_ct vs false
    cases first <;> cases vs <;> simp_all [declDocs, declToks, tokTexts_cons, tokTexts_append, tokChars, tComma]
  | (v, some e) :: vs, first => by
    have ih := declDocs_ct vs false
    cases first <;> cases vs <;> simp_all [declDocs, declToks, tokTexts_cons, tokTexts_append, tokChars, tComma]

theorem asyncDocs_ct (as : Async) : ct (asyncDocs as) = tokTexts (asyncToks as) := by
  cases as <;> simp [asyncDocs, asyncToks, tokTexts_cons]

theorem clobberDocs_ct (clb : Option Var) : ct (clobberDocs clb) = tokTexts (clobberToks clb) := by
  cases clb <;> simp [clobberDocs, clobberToks, tokTexts_cons, tokTexts_append]

theorem condDocs_ct (kw : Tok) (c : Expr) :
    ct (condDocs kw c) = .tok (tokChars kw) :: .tok (tokChars tLp) :: (tokTexts (printE true c) ++ [.tok (tokChars tRp)]) := by
  simp [condDocs]

/-- the essential pieces of the state, commas as tokens -/
def T (st : FSt) : List Piece := commaTok (ess st.l.out)

theorem T_docs (tw : Nat) (ds : XDocs) (st : FSt) : T (st.docs tw ds) = T st ++ ct ds := by
  simp [T, FSt.docs, xblkSeq_ess, commaTok_append, ct]

theorem T_tok (t : Tok) (st : FSt) : T (st.tok t) = T st ++ [.tok (tokChars t)] := by
  simp [T, FSt.tok, ess_xw, ess_tok, commaTok]

theorem T_nextLine (st : FSt) : T st.nextLine = T st := by
  unfold FSt.nextLine
  split
  · rfl
  · simp [T, ess_newline]

theorem T_openB (st : FSt) : T st.openB = T st ++ [.tok (tokChars tLbrace)] := by
  simp only [FSt.openB]
  show T ((st.tok tLbrace).nextLine) = _
  rw [T_nextLine, T_tok]

theorem T_closeB (st : FSt) : T st.closeB = T st ++ [.tok (tokChars tRbrace)] := by
  simp only [FSt.closeB]
  rw [T_tok]
  rfl

theorem T_label (tw : Nat) (ds : XDocs) (st st' : FSt) (h : st.label tw ds = .ok st') : T st' = T st ++ ct ds := by
  unfold FSt.label at h
  split at h
  · dsimp only at h
    split at h
    · simp only [Outcome.ok.injEq] at h
      subst h
      rw [T_nextLine]
      simp [T, xblkSeq_ess, commaTok_append, ct]
    · cases h
  · simp only [Outcome.ok.injEq] at h
    subst h
    simp [T, ess_xw, ess_space, xblkSeq_ess, commaTok_append, ct]

theorem T_with (st : FSt) (a b : Bool) : T { st with suppress := a, prevInt := b } = T st := rfl
theorem T_with_s (st : FSt) (a : Bool) : T { st with suppress := a } = T st := rfl

mutual
theorem rKind_toks (tw : Nat) : ∀ (k : Kind) (st st' : FSt), rKind tw k st = .ok st' → T st' = T st ++ tokTexts (printKind k)
  | .jump j, st, st', h => by
    simp only [rKind, Outcome.ok.injEq] at h; subst h
    simp [T_docs, jumpDocs_ct, printKind, tokTexts_append, tokTexts_cons]
  | .ret none, st, st', h => by
    simp only [rKind, Outcome.ok.injEq] at h; subst h
    simp [T_docs, printKind, tokTexts_cons]
  | .ret (some e), st, st', h => by
    simp only [rKind, Outcome.ok.injEq] at h; subst h
    simp [T_docs, printKind, tokTexts_append, tokTexts_cons]
  | .condJump kw c j, st, st', h => by
    simp only [rKind, Outcome.ok.injEq] at h; subst h
    simp [T_docs, condDocs_ct, jumpDocs_ct, printKind, tokTexts_append, tokTexts_cons]
  | .condChain kw c b ch, st, st', h => by
    simp only [rKind] at h
    cases hR : rItems tw b (st.docs tw (condDocs kw.tok c)).openB with
    | ok st1 =>
      rw [hR] at h
      have h1 := rItems_toks tw b _ _ hR
      have h2 := rChain_toks tw ch _ _ h
      rw [h2, T_closeB, h1, T_openB, T_docs]
      simp [condDocs_ct, printKind, braces, tokTexts_append, tokTexts_cons]
    | err c => rw [hR] at h; cases h
    | panic p => rw [hR] at h; cases h
  | .loop b, st, st', h => by
    simp only [rKind] at h
    cases hR : rItems tw b (st.docs tw (XDocs.ofList [tk tLoop, .sp])).openB with
    | ok st1 =>
      rw [hR] at h
      simp only [Outcome.ok.injEq] at h; subst h
      rw [T_closeB, rItems_toks tw b _ _ hR, T_openB, T_docs]
      simp [printKind, braces, tokTexts_append, tokTexts_cons]
    | err c => rw [hR] at h; cases h
    | panic p => rw [hR] at h; cases h
  | .while_ c b, st, st', h => by
    simp only [rKind] at h
    cases hR : rItems tw b (st.docs tw (condDocs tWhile c)).openB with
    | ok st1 =>
      rw [hR] at h
      simp only [Outcome.ok.injEq] at h; subst h
      rw [T_closeB, rItems_toks tw b _ _ hR, T_openB, T_docs]
      simp [condDocs_ct, printKind, braces, tokTexts_append, tokTexts_cons]
    | err c => rw [hR] at h; cases h
    | panic p => rw [hR] at h; cases h
  | .doWhile b c, st, st', h => by
    simp only [rKind] at h
    cases hR : rItems tw b (st.docs tw (XDocs.ofList [tk tDo, .sp])).openB with
    | ok st1 =>
      rw [hR] at h
      simp only [Outcome.ok.injEq] at h; subst h
      rw [T_docs, T_closeB, rItems_toks tw b _ _ hR, T_openB, T_docs]
      simp [printKind, braces, tokTexts_append, tokTexts_cons]
    | err c => rw [hR] at h; cases h
    | panic p => rw [hR] at h; cases h
  | .times clb n b, st, st', h => by
    simp only [rKind] at h
    cases hR : rItems tw b (st.docs tw (.cons (tk tTimes) (.cons (tk tLp)
        ((clobberDocs clb).append ((exprDocs true n).append (XDocs.ofList [tk tRp, .sp])))))).openB with
    | ok st1 =>
      rw [hR] at h
      simp only [Outcome.ok.injEq] at h; subst h
      rw [T_closeB, rItems_toks tw b _ _ hR, T_openB, T_docs]
      simp [clobberDocs_ct, printKind, braces, tokTexts_append, tokTexts_cons]
    | err c => rw [hR] at h; cases h
    | panic p => rw [hR] at h; cases h
  | .expr e, st, st', h => by
    simp only [rKind, Outcome.ok.injEq] at h; subst h
    simp [T_docs, printKind, tokTexts_append, tokTexts_cons]
  | .block b, st, st', h => by
    simp only [rKind] at h
    cases hR : rItems tw b st.openB with
    | ok st1 =>
      rw [hR] at h
      simp only [Outcome.ok.injEq] at h; subst h
      rw [T_closeB, rItems_toks tw b _ _ hR, T_openB]
      simp [printKind, braces, tokTexts_append, tokTexts_cons]
    | err c => rw [hR] at h; cases h
    | panic p => rw [hR] at h; cases h
  | .assign v op e, st, st', h => by
    simp only [rKind, Outcome.ok.injEq] at h; subst h
    simp [T_docs, printKind, tokTexts_append, tokTexts_cons]
  | .decl ty vars, st, st', h => by
    simp only [rKind, Outcome.ok.injEq] at h; subst h
    simp [T_docs, declDocs_ct, printKind, tokTexts_append, tokTexts_cons]
  | .callSub atSym as fn args, st, st', h => by
    simp only [rKind, Outcome.ok.injEq] at h; subst h
    cases atSym <;> simp [T_docs, asyncDocs_ct, printKind, tokTexts_append, tokTexts_cons, tokChars, tLp, tRp]
  | .label n, st, st', h => by
    simp only [rKind] at h
    cases hR : st.label tw (XDocs.ofList [tk (.word n), tk tColon]) with
    | ok st1 =>
      rw [hR] at h
      simp only [Outcome.ok.injEq] at h; subst h
      rw [T_with_s, T_label tw _ _ _ hR]
      simp [printKind, tokTexts_cons]
    | err c => rw [hR] at h; cases h
    | panic p => rw [hR] at h; cases h
  | .interrupt e, st, st', h => by
    simp only [rKind] at h
    cases hR : (if st.prevInt then st else st.nextLine).label tw
        (.cons (tk tInterrupt) (.cons (tk tLb) ((exprDocs false e).append (XDocs.ofList [tk tRb, tk tColon])))) with
    | ok st1 =>
      rw [hR] at h
      simp only [Outcome.ok.injEq] at h; subst h
      rw [T_with, T_label tw _ _ _ hR]
      have : T (if st.prevInt then st else st.nextLine) = T st := by split <;> simp [T_nextLine]
      rw [this]
      simp [printKind, tokTexts_append, tokTexts_cons]
    | err c => rw [hR] at h; cases h
    | panic p => rw [hR] at h; cases h
  | .absTime t, st, st', h => by
    simp only [rKind] at h
    cases hR : st.label tw ((XDocs.ofToks (numToks (printI32 t))).append (.cons (tk tColon) .nil)) with
    | ok st1 =>
      rw [hR] at h
      simp only [Outcome.ok.injEq] at h; subst h
      rw [T_with_s, T_label tw _ _ _ hR]
      simp [printKind, tokTexts_append, tokTexts_cons]
    | err c => rw [hR] at h; cases h
    | panic p => rw [hR] at h; cases h
  | .relTime d, st, st', h => by
    simp only [rKind] at h
    cases hR : st.label tw (.cons (tk tPlus) ((exprDocs false d).append (.cons (tk tColon) .nil))) with
    | ok st1 =>
      rw [hR] at h
      simp only [Outcome.ok.injEq] at h; subst h
      rw [T_with_s, T_label tw _ _ _ hR]
      simp [printKind, tokTexts_append, tokTexts_cons]
    | err c => rw [hR] at h; cases h
    | panic p => rw [hR] at h; cases h
theorem rItems_toks (tw : Nat) : ∀ (b : Block) (st st' : FSt), rItems tw b st = .ok st' → T st' = T st ++ tokTexts (printStmts b)
  | .nil, st, st', h => by
    simp only [rItems, Outcome.ok.injEq] at h; subst h
    simp [printStmts]
  | .cons d k b, st, st', h => by
    simp only [rItems] at h
    cases hR : rKind tw k (st.docs tw (diffDocs d)) with
    | ok st1 =>
      rw [hR] at h
      rw [rItems_toks tw b _ _ h, T_nextLine, rKind_toks tw k _ _ hR, T_docs, diffDocs_ct]
      simp [printStmts, tokTexts_append]
    | err c => rw [hR] at h; cases h
    | panic p => rw [hR] at h; cases h
theorem rChain_toks (tw : Nat) : ∀ (c : Chain) (st st' : FSt), rChain tw c st = .ok st' → T st' = T st ++ tokTexts (printChain c)
  | .nil, st, st', h => by
    simp only [rChain, Outcome.ok.injEq] at h; subst h
    simp [printChain]
  | .els b, st, st', h => by
    simp only [rChain] at h
    cases hR : rItems tw b (st.docs tw (XDocs.ofList [.sp, tk tElse, .sp])).openB with
    | ok st1 =>
      rw [hR] at h
      simp only [Outcome.ok.injEq] at h; subst h
      rw [T_closeB, rItems_toks tw b _ _ hR, T_openB, T_docs]
      simp [printChain, braces, tokTexts_append, tokTexts_cons]
    | err c => rw [hR] at h; cases h
    | panic p => rw [hR] at h; cases h
  | .elif kw c b ch, st, st', h => by
    simp only [rChain] at h
    cases hR : rItems tw b (st.docs tw (.cons .sp (.cons (tk tElse) (.cons .sp (condDocs kw.tok c))))).openB with
    | ok st1 =>
      rw [hR] at h
      rw [rChain_toks tw ch _ _ h, T_closeB, rItems_toks tw b _ _ hR, T_openB, T_docs]
      simp [condDocs_ct, printChain, braces, tokTexts_append, tokTexts_cons]
    | err c => rw [hR] at h; cases h
    | panic p => rw [hR] at h; cases h
end

/-- **layout of a statement changes only white space, line breaks and trailing commas**: at every
width at which the formatter does not trip its label assertion, the laid-out pieces contain exactly
the tokens of `printStmt s` (the tokens `stmt_print_parse` is about) -/
theorem stmt_layout_tokens (w : Nat) (s : Stmt) (ps : List Piece) (h : renderStmtPieces w s = .ok ps) :
    commaTok (ess ps) = tokTexts (printStmt s) := by
  unfold renderStmtPieces at h
  cases hR : rKind (w - 1) s.kind (FSt.init.docs (w - 1) (diffDocs s.diff)) with
  | ok st =>
    rw [hR] at h
    simp only [Outcome.ok.injEq] at h
    subst h
    have := rKind_toks (w - 1) s.kind _ _ hR
    rw [T_docs, diffDocs_ct] at this
    simpa [T, FSt.init, LSt.init, ess, commaTok, printStmt, tokTexts_append] using this
  | err c => rw [hR] at h; cases h
  | panic p => rw [hR] at h; cases h

theorem block_layout_tokens (w : Nat) (b : Block) (ps : List Piece) (h : renderBlockPieces w b = .ok ps) :
    commaTok (ess ps) = tokTexts (printBlock b) := by
  unfold renderBlockPieces at h
  cases hR : rItems (w - 1) b FSt.init.openB with
  | ok st =>
    rw [hR] at h
    simp only [Outcome.ok.injEq] at h
    subst h
    have h1 := rItems_toks (w - 1) b _ _ hR
    have h2 := T_closeB st
    rw [h1, T_openB] at h2
    simpa [T, FSt.init, LSt.init, ess, commaTok, printBlock, braces, tokTexts_append, tokTexts_cons] using h2
  | err c => rw [hR] at h; cases h
  | panic p => rw [hR] at h; cases h

/-- the token sequence does not depend on the width -/
theorem stmt_layout_width_independent (w w' : Nat) (s : Stmt) (ps ps' : List Piece)
    (h : renderStmtPieces w s = .ok ps) (h' : renderStmtPieces w' s = .ok ps') : commaTok (ess ps) = commaTok (ess ps') := by
  rw [stmt_layout_tokens w s ps h, stmt_layout_tokens w' s ps' h']

theorem block_layout_width_independent (w w' : Nat) (b : Block) (ps ps' : List Piece)
    (h : renderBlockPieces w b = .ok ps) (h' : renderBlockPieces w' b = .ok ps') : commaTok (ess ps) = commaTok (ess ps') := by
  rw [block_layout_tokens w b ps h, block_layout_tokens w' b ps' h']

/-- **C08, statements at every width**: whatever the target width, the tokens of the laid-out
statement are tokens that parse back to the same statement -/
theorem stmt_print_parse_at_width (w : Nat) (s : Stmt) (hok : OKS s = true) (ps : List Piece)
    (h : renderStmtPieces w s = .ok ps) :
    ∃ toks, commaTok (ess ps) = tokTexts toks ∧ parseStmt toks = some (normS s) :=
  ⟨printStmt s, stmt_layout_tokens w s ps h, stmt_print_parse s hok⟩

theorem block_print_parse_at_width (w : Nat) (b : Block) (hok : OKB b = true) (ps : List Piece)
    (h : renderBlockPieces w b = .ok ps) :
    ∃ toks, commaTok (ess ps) = tokTexts toks ∧ parseBlock toks = some (normB b) :=
  ⟨printBlock b, block_layout_tokens w b ps h, block_print_parse b hok⟩

/-! ## examples, the glue site of the statement level, and the label assertion -/

section stmtExamples
def sx : Expr := .var { sigil := none, name := .normal ['x'] }
def si (n : Int32) : Expr := .litInt n signedDec
def sCall : Expr := .call (.normal ['f']) .nil (.cons (si 1) (.cons (.binop sx .add (si 2)) .nil))
/-- a block with a call, a difficulty-labelled assignment to a register, every kind of label -/
def sBlock : Block :=
  .cons none (.expr sCall) (.cons (some ['E', 'N']) (.assign ⟨some .int, .reg 3⟩ .shl (.binop sx .mul (.litInt (-4) ⟨true, .hex⟩)))
    (.cons none (.label ['l', 'b', 'l']) (.cons none (.interrupt (si 1)) (.cons none (.interrupt (si 2))
      (.cons none (.absTime (-30)) (.cons none (.relTime (si 5)) .nil))))))
/-- `if (x == 0) {..} else unless (x) { goto L @ -5; } else { int a = 1,b; @g(x) async x; times(c = 3) { do { } while (x); } }` -/
def sStmt : Stmt :=
  ⟨none, .condChain .if_ (.binop sx .eq (si 0)) sBlock
    (.elif .unless sx (.cons none (.jump (.goto ['L'] (some (-5)))) .nil)
      (.els (.cons none (.decl .int [(⟨none, .normal ['a']⟩, some (si 1)), (⟨none, .normal ['b']⟩, none)])
        (.cons none (.callSub true (.id sx) ['g'] (.cons sx .nil))
          (.cons none (.times (some ⟨none, .normal ['c']⟩) (si 3) (.cons none (.doWhile .nil sx) .nil)) .nil)))))⟩

example : OKS sStmt = true ∧ IdemK sStmt.kind = false ∧ normS sStmt ≠ sStmt := by decide +kernel
example : parseStmt (printStmt sStmt) = some (normS sStmt) := by decide +kernel
/-- `loop { f(1, (x + 2)); lbl: {"E"}: interrupt[1]: interrupt[2]: }` -/
def sSmall : Stmt :=
  ⟨none, .loop (.cons none (.expr sCall) (.cons none (.label ['l', 'b', 'l'])
    (.cons (some ['E']) (.interrupt (si 1)) (.cons none (.interrupt (si 2)) .nil))))⟩
example : OKS sSmall = true ∧
    renderStmt 1000 sSmall = .ok "loop {\n    f(1, (x + 2));\nlbl:\n    {\"E\"}:  \ninterrupt[1]:\ninterrupt[2]:\n}".toList ∧
    renderStmt 12 sSmall =
      .ok "loop {\n    f(\n        1,\n        (x + 2),\n    );\nlbl:\n    {\"E\"}:  \ninterrupt[1]:\ninterrupt[2]:\n}".toList := by
  decide +kernel
/-- the text at width `w` parses back to `normS s` -/
def parsesBackAt (w : Nat) (s : Stmt) : Bool :=
  match renderStmt w s with
  | .ok t => parseStmtText t == some (normS s)
  | _ => false
/-- at width 12 the argument list of `f(..)` is written one item per line; the text still parses back -/
example : parsesBackAt 12 sSmall = true ∧ parsesBackAt 1000 sSmall = true := by decide +kernel
/-- a statement inside the fragment of `stmt_print_idempotent` / `stmt_print_parse_print` -/
def sIdem : Stmt := ⟨some ['H'], .condJump .unless (.binop sx .lt (si 3)) (.goto ['e', 'n', 'd'] none)⟩
example : OKS sIdem = true ∧ IdemK sIdem.kind = true ∧ printStmt (normS sIdem) = printStmt sIdem := by decide +kernel

/-- `else` binds to the chain whose block was just closed; a second `else` is rejected; a body must be a block -/
example : parseStmtText "if (a) { if (b) { } else { } }".toList ≠ parseStmtText "if (a) { if (b) { } } else { }".toList ∧
    parseStmtText "if (a) { } else { } else { }".toList = none ∧
    parseStmtText "if (a) if (b) { } else { }".toList = none ∧
    parseStmtText "x = a : b;".toList ≠ none ∧ parseStmtText "a : b;".toList = none ∧
    parseStmtText "-10:".toList = some ⟨none, .absTime (-10)⟩ ∧ parseStmtText "+-10:".toList ≠ none ∧
    parseStmtText "{\"E\"}: lbl:".toList = none ∧ parseStmtText "int(x);".toList ≠ none ∧
    parseStmtText "f() async;".toList = some ⟨none, .callSub true .plain ['f'] .nil⟩ := by decide +kernel
end stmtExamples

/-- **The glue site of the statement level** (known finding "plus-before-plus"): a relative time
label whose delta begins with `++` is outside `OKS`; the tokens that were written would parse, but
the text `+++x:` is lexed `++` `+` `x` `:` and rejected. -/
theorem rel_label_plus_glue :
    let s : Stmt := ⟨none, .relTime (.xcrement true true { sigil := none, name := .normal ['x'] })⟩
    OKS s = false ∧ renderStmt 100 s = .ok "+++x:\n".toList ∧ parseStmtText "+++x:\n".toList = none ∧
      parseStmt (printStmt s) = some s := by
  decide +kernel

/-- **The label assertion** (known finding "Detected line break in label"): an interrupt label
whose expression holds a call that does not fit the width makes the formatter panic; at a larger
width the same statement is printed. -/
theorem label_break_panics :
    let s : Stmt := ⟨none, .interrupt sCall⟩
    renderStmt 8 s = .panic labelPanic ∧ renderStmt 80 s = .ok "\ninterrupt[f(1, (x + 2))]:\n".toList := by
  decide +kernel

/-! ## the full property at the statement level -/

/-- C08 for statements: at every width the printed text parses to a statement that denotes the
same statement and prints the same again. -/
def stmts_parse_back_full : Prop :=
  ∀ (w : Nat) (s : Stmt), ∃ text s', renderStmt w s = .ok text ∧ parseStmtText text = some s' ∧ normS s' = normS s ∧
    renderStmt w s' = .ok text

/-- it is false as stated: `+ ++x:` prints text that does not parse -/
theorem stmts_parse_back_full_false : ¬ stmts_parse_back_full := by
  intro h
  obtain ⟨text, s', h1, h2, _⟩ := h 100 ⟨none, .relTime (.xcrement true true { sigil := none, name := .normal ['x'] })⟩
  have := rel_label_plus_glue
  simp only at this
  rw [this.2.1] at h1
  simp only [Outcome.ok.injEq] at h1
  subst h1
  rw [this.2.2.1] at h2
  cases h2

/-- What is proved of `stmts_parse_back_full`: on the token level, for the statements / blocks of
`OKS` / `OKB`, at every width at which the formatter does not panic, the written tokens parse back
to the same statement; printing again gives the same tokens inside `IdemK`.
Missing: that the joined text lexes to the written tokens (compared with the real lexer on every
generated statement; false at `+ ++x:` and at the glue sites of the expressions inside), items
(`const` declarations, functions, `script`, `meta`), float digits, comments. -/
theorem stmts_parse_back_partial :
    (∀ s, OKS s = true → parseStmt (printStmt s) = some (normS s)) ∧
    (∀ b, OKB b = true → parseBlock (printBlock b) = some (normB b)) ∧
    (∀ s, IdemK s.kind = true → printStmt (normS s) = printStmt s) ∧
    (∀ w s ps, renderStmtPieces w s = .ok ps → commaTok (ess ps) = tokTexts (printStmt s)) ∧
    (∀ w b ps, renderBlockPieces w b = .ok ps → commaTok (ess ps) = tokTexts (printBlock b)) :=
  ⟨stmt_print_parse, block_print_parse, stmt_print_idempotent, stmt_layout_tokens, block_layout_tokens⟩


/-! ## when the label assertion cannot fire

The formatter's only panic on statements is a line break inside a label written in the margin;
a line break needs an argument list.  A statement whose interrupt labels and relative time labels
contain no call is therefore printed at every width. -/

mutual
/-- the expression contains no call (no argument list that could be broken) -/
def noCall : Expr → Bool
  | .ternary c l r => noCall c && noCall l && noCall r
  | .binop a _ b => noCall a && noCall b
  | .unop _ x => noCall x
  | .call _ _ _ => false
  | .diffSwitch cs => noCallCs cs
  | _ => true
def noCallCs : Cases → Bool
  | .nil => true
  | .blank cs => noCallCs cs
  | .some e cs => noCall e && noCallCs cs
end

mutual
/-- no argument list among the documents -/
def flatD : XDoc → Bool
  | .tok _ => true
  | .sp => true
  | .args _ => false
  | .seq ds => flatDs ds
def flatDs : XDocs → Bool
  | .nil => true
  | .cons d ds => flatD d && flatDs ds
end

theorem nlCount_append (a b : List Piece) : nlCount (a ++ b) = nlCount a + nlCount b := by
  simp [nlCount, List.filter_append]

theorem nlCount_xw (st : LSt) (p : Piece) (hp : p ≠ .nl) : nlCount (xw st p).out = nlCount st.out := by
  have h1 : nlCount [p] = 0 := by
    cases p <;> simp_all [nlCount]
  unfold xw
  split
  · simp only [nlCount_append]
    have : nlCount [Piece.pad st.indent, p] = 0 := by
      cases p <;> simp_all [nlCount]
    omega
  · simp only [nlCount_append]; omega

mutual
theorem xblk_flat (tw : Nat) : ∀ (d : XDoc) (st : LSt), flatD d = true → nlCount (xblk tw d st).out = nlCount st.out
  | .tok k, st, _ => by simp only [xblk]; exact nlCount_xw st _ (by simp)
  | .sp, st, _ => by simp only [xblk]; exact nlCount_xw st _ (by simp)
  | .args items, st, h => by simp [flatD] at h
  | .seq ds, st, h => by
    simp only [flatD] at h
    simp only [xblk]
    exact xblkSeq_flat tw ds st h
theorem xblkSeq_flat (tw : Nat) : ∀ (ds : XDocs) (st : LSt), flatDs ds = true → nlCount (xblkSeq tw ds st).out = nlCount st.out
  | .nil, st, _ => rfl
  | .cons d ds, st, h => by
    simp only [flatDs, Bool.and_eq_true] at h
    simp only [xblkSeq]
    rw [xblkSeq_flat tw ds _ h.2, xblk_flat tw d st h.1]
end

theorem flat_append : ∀ (a b : XDocs), flatDs (a.append b) = (flatDs a && flatDs b)
  | .nil, b => by simp [XDocs.append, flatDs]
  | .cons d ds, b => by simp [XDocs.append, flatDs, flat_append ds b, Bool.and_assoc]

theorem flat_ofToks : ∀ (l : List Tok), flatDs (XDocs.ofToks l) = true
  | [] => rfl
  | t :: r => by simp [XDocs.ofToks, flatDs, flatD, flat_ofToks r]

theorem flat_wrapD (sup : Bool) (ds : XDocs) (h : flatDs ds = true) : flatDs (wrapD sup ds) = true := by
  cases sup <;> simp [wrapD, flatDs, flatD, flat_append, h]

theorem flat_spTokSp (t : Tok) (rest : XDocs) (h : flatDs rest = true) : flatDs (spTokSp t rest) = true := by
  simp [spTokSp, flatDs, flatD, h]

mutual
theorem exprDocs_flat : ∀ (e : Expr) (sup : Bool), noCall e = true → flatDs (exprDocs sup e) = true
  | .ternary c l r, sup, h => by
    simp only [noCall, Bool.and_eq_true] at h
    simp only [exprDocs]
    apply flat_wrapD
    rw [flat_append, exprDocs_flat c false h.1.1]
    simp [flat_spTokSp, flat_append, exprDocs_flat l false h.1.2, exprDocs_flat r false h.2]
  | .binop a op b, sup, h => by
    simp only [noCall, Bool.and_eq_true] at h
    simp only [exprDocs]
    apply flat_wrapD
    rw [flat_append, exprDocs_flat a false h.1]
    simp [flat_spTokSp, exprDocs_flat b false h.2]
  | .unop op x, sup, h => by
    simp only [noCall] at h
    simp only [exprDocs]
    split
    · apply flat_wrapD
      simp [flatDs, flatD, exprDocs_flat x false h]
    · simp [flatDs, flatD, flat_append, exprDocs_flat x true h]
  | .xcrement pre inc v, sup, _ => by simp only [exprDocs]; exact flat_ofToks _
  | .var v, sup, _ => by simp only [exprDocs]; exact flat_ofToks _
  | .call name ps as, sup, h => by simp [noCall] at h
  | .diffSwitch cs, sup, h => by
    simp only [noCall] at h
    simp only [exprDocs]
    apply flat_wrapD
    have hc := caseDocs_flat cs h
    split <;> split <;> simp [flat_append, flatDs, flatD, hc]
  | .litInt v f, sup, _ => by simp only [exprDocs]; exact flat_ofToks _
  | .litFloat neg b, sup, _ => by simp only [exprDocs]; exact flat_ofToks _
  | .litString s, sup, _ => by simp [exprDocs, flatDs, flatD]
  | .labelProp kw l, sup, _ => by simp only [exprDocs]; exact flat_ofToks _
  | .enumConst en id, sup, _ => by simp only [exprDocs]; exact flat_ofToks _
theorem caseDocs_flat : ∀ (cs : Cases), noCallCs cs = true → flatDs (caseDocs cs) = true
  | .nil, _ => rfl
  | .blank cs, h => by
    simp only [noCallCs] at h
    simp only [caseDocs]; exact caseDocsT_flat cs h
  | .some e cs, h => by
    simp only [noCallCs, Bool.and_eq_true] at h
    simp [caseDocs, flat_append, exprDocs_flat e false h.1, caseDocsT_flat cs h.2]
theorem caseDocsT_flat : ∀ (cs : Cases), noCallCs cs = true → flatDs (caseDocsT cs) = true
  | .nil, _ => rfl
  | .blank cs, h => by
    simp only [noCallCs] at h
    simp only [caseDocsT]; exact flat_spTokSp _ _ (caseDocsT_flat cs h)
  | .some e cs, h => by
    simp only [noCallCs, Bool.and_eq_true] at h
    simp only [caseDocsT]
    apply flat_spTokSp
    simp [flat_append, exprDocs_flat e false h.1, caseDocsT_flat cs h.2]
end

/-- a label without argument lists is written without tripping the assertion -/
theorem label_ok (tw : Nat) (ds : XDocs) (st : FSt) (h : flatDs ds = true) : ∃ st', st.label tw ds = .ok st' := by
  unfold FSt.label
  split
  · dsimp only
    rw [if_pos (xblkSeq_flat tw ds _ h)]
    exact ⟨_, rfl⟩
  · exact ⟨_, rfl⟩

mutual
/-- the interrupt labels and relative time labels of the statement contain no call -/
def FlatK : Kind → Bool
  | .condChain _ _ b rest => FlatB b && FlatC rest
  | .loop b => FlatB b
  | .while_ _ b => FlatB b
  | .doWhile b _ => FlatB b
  | .times _ _ b => FlatB b
  | .block b => FlatB b
  | .interrupt e => noCall e
  | .relTime d => noCall d
  | _ => true
def FlatB : Block → Bool
  | .nil => true
  | .cons _ k rest => FlatK k && FlatB rest
def FlatC : Chain → Bool
  | .nil => true
  | .els b => FlatB b
  | .elif _ _ b rest => FlatB b && FlatC rest
end

mutual
theorem rKind_ok (tw : Nat) : ∀ (k : Kind) (st : FSt), FlatK k = true → ∃ st', rKind tw k st = .ok st'
  | .jump j, st, _ => ⟨_, rfl⟩
  | .ret none, st, _ => ⟨_, rfl⟩
  | .ret (some e), st, _ => ⟨_, rfl⟩
  | .condJump kw c j, st, _ => ⟨_, rfl⟩
  | .condChain kw c b ch, st, h => by
    simp only [FlatK, Bool.and_eq_true] at h
    obtain ⟨st1, h1⟩ := rItems_ok tw b (st.docs tw (condDocs kw.tok c)).openB h.1
    obtain ⟨st2, h2⟩ := rChain_ok tw ch st1.closeB h.2
    exact ⟨st2, by simp only [rKind, h1, h2]⟩
  | .loop b, st, h => by
    obtain ⟨st1, h1⟩ := rItems_ok tw b (st.docs tw (XDocs.ofList [tk tLoop, .sp])).openB (by simpa [FlatK] using h)
    exact ⟨_, by first | (simp only [rKind, h1]; done) | (simp only [rKind, h1]; rfl)⟩
  | .while_ c b, st, h => by
    obtain ⟨st1, h1⟩ := rItems_ok tw b (st.docs tw (condDocs tWhile c)).openB (by simpa [FlatK] using h)
    exact ⟨_, by first | (simp only [rKind, h1]; done) | (simp only [rKind, h1]; rfl)⟩
  | .doWhile b c, st, h => by
    obtain ⟨st1, h1⟩ := rItems_ok tw b (st.docs tw (XDocs.ofList [tk tDo, .sp])).openB (by simpa [FlatK] using h)
    exact ⟨_, by first | (simp only [rKind, h1]; done) | (simp only [rKind, h1]; rfl)⟩
  | .times clb n b, st, h => by
    obtain ⟨st1, h1⟩ := rItems_ok tw b (st.docs tw (.cons (tk tTimes) (.cons (tk tLp)
        ((clobberDocs clb).append ((exprDocs true n).append (XDocs.ofList [tk tRp, .sp])))))).openB (by simpa [FlatK] using h)
    exact ⟨_, by first | (simp only [rKind, h1]; done) | (simp only [rKind, h1]; rfl)⟩
  | .expr e, st, _ => ⟨_, rfl⟩
  | .block b, st, h => by
    obtain ⟨st1, h1⟩ := rItems_ok tw b st.openB (by simpa [FlatK] using h)
    exact ⟨_, by first | (simp only [rKind, h1]; done) | (simp only [rKind, h1]; rfl)⟩
  | .assign v op e, st, _ => ⟨_, rfl⟩
  | .decl ty vars, st, _ => ⟨_, rfl⟩
  | .callSub atSym as fn args, st, _ => ⟨_, rfl⟩
  | .label n, st, _ => by
    obtain ⟨st1, h1⟩ := label_ok tw (XDocs.ofList [tk (.word n), tk tColon]) st (by simp [XDocs.ofList, flatDs, flatD, tk])
    exact ⟨_, by first | (simp only [rKind, h1]; done) | (simp only [rKind, h1]; rfl)⟩
  | .interrupt e, st, h => by
    have he : noCall e = true := by simpa [FlatK] using h
    obtain ⟨st1, h1⟩ := label_ok tw (.cons (tk tInterrupt) (.cons (tk tLb) ((exprDocs false e).append (XDocs.ofList [tk tRb, tk tColon]))))
      (if st.prevInt then st else st.nextLine) (by simp [XDocs.ofList, flatDs, flatD, tk, flat_append, exprDocs_flat e false he])
    exact ⟨_, by first | (simp only [rKind, h1]; done) | (simp only [rKind, h1]; rfl)⟩
  | .absTime t, st, _ => by
    obtain ⟨st1, h1⟩ := label_ok tw ((XDocs.ofToks (numToks (printI32 t))).append (.cons (tk tColon) .nil)) st
      (by simp [flatDs, flatD, tk, flat_append, flat_ofToks])
    exact ⟨_, by first | (simp only [rKind, h1]; done) | (simp only [rKind, h1]; rfl)⟩
  | .relTime d, st, h => by
    have hd' : noCall d = true := by simpa [FlatK] using h
    obtain ⟨st1, h1⟩ := label_ok tw (.cons (tk tPlus) ((exprDocs false d).append (.cons (tk tColon) .nil))) st
      (by simp [flatDs, flatD, tk, flat_append, exprDocs_flat d false hd'])
    exact ⟨_, by first | (simp only [rKind, h1]; done) | (simp only [rKind, h1]; rfl)⟩
theorem rItems_ok (tw : Nat) : ∀ (b : Block) (st : FSt), FlatB b = true → ∃ st', rItems tw b st = .ok st'
  | .nil, st, _ => ⟨_, rfl⟩
  | .cons d k b, st, h => by
    simp only [FlatB, Bool.and_eq_true] at h
    obtain ⟨st1, h1⟩ := rKind_ok tw k (st.docs tw (diffDocs d)) h.1
    obtain ⟨st2, h2⟩ := rItems_ok tw b st1.nextLine h.2
    exact ⟨st2, by simp only [rItems, h1, h2]⟩
theorem rChain_ok (tw : Nat) : ∀ (c : Chain) (st : FSt), FlatC c = true → ∃ st', rChain tw c st = .ok st'
  | .nil, st, _ => ⟨_, rfl⟩
  | .els b, st, h => by
    obtain ⟨st1, h1⟩ := rItems_ok tw b (st.docs tw (XDocs.ofList [.sp, tk tElse, .sp])).openB (by simpa [FlatC] using h)
    exact ⟨_, by first | (simp only [rChain, h1]; done) | (simp only [rChain, h1]; rfl)⟩
  | .elif kw c b ch, st, h => by
    simp only [FlatC, Bool.and_eq_true] at h
    obtain ⟨st1, h1⟩ := rItems_ok tw b (st.docs tw (.cons .sp (.cons (tk tElse) (.cons .sp (condDocs kw.tok c))))).openB h.1
    obtain ⟨st2, h2⟩ := rChain_ok tw ch st1.closeB h.2
    exact ⟨st2, by simp only [rChain, h1, h2]⟩
end

/-- a statement whose labels contain no call is printed at every width -/
theorem stmt_renders (w : Nat) (s : Stmt) (h : FlatK s.kind = true) : ∃ ps, renderStmtPieces w s = .ok ps := by
  obtain ⟨st, hst⟩ := rKind_ok (w - 1) s.kind (FSt.init.docs (w - 1) (diffDocs s.diff)) h
  exact ⟨st.l.out, by simp only [renderStmtPieces, hst]⟩

theorem block_renders (w : Nat) (b : Block) (h : FlatB b = true) : ∃ ps, renderBlockPieces w b = .ok ps := by
  obtain ⟨st, hst⟩ := rItems_ok (w - 1) b FSt.init.openB h
  exact ⟨st.closeB.l.out, by simp only [renderBlockPieces, hst]⟩

/-- **C08, statements at every width, unconditionally for statements whose labels hold no call**:
the formatter prints the statement at every width, and the tokens of that text parse back to it -/
theorem stmt_print_parse_every_width (w : Nat) (s : Stmt) (hok : OKS s = true) (hfl : FlatK s.kind = true) :
    ∃ ps toks, renderStmtPieces w s = .ok ps ∧ commaTok (ess ps) = tokTexts toks ∧ parseStmt toks = some (normS s) := by
  obtain ⟨ps, hps⟩ := stmt_renders w s hfl
  exact ⟨ps, printStmt s, hps, stmt_layout_tokens w s ps hps, stmt_print_parse s hok⟩

theorem block_print_parse_every_width (w : Nat) (b : Block) (hok : OKB b = true) (hfl : FlatB b = true) :
    ∃ ps toks, renderBlockPieces w b = .ok ps ∧ commaTok (ess ps) = tokTexts toks ∧ parseBlock toks = some (normB b) := by
  obtain ⟨ps, hps⟩ := block_renders w b hfl
  exact ⟨ps, printBlock b, hps, block_layout_tokens w b ps hps, block_print_parse b hok⟩

example : OKS sStmt = true ∧ FlatK sStmt.kind = true ∧ FlatK (Kind.interrupt sCall) = false := by decide +kernel


end TruthModel.C08
