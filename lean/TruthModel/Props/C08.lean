import TruthModel.Model.Fmt
/-
C08 — printed scripts parse back to the same script: the literal layer.

Proved here, for ALL inputs of the model (`Model/Fmt.lean`):
* `int_print_parse`: for every `IntFormat` and every `v : Int32`, lexing the printed literal and
  evaluating it with the grammar's literal rules (`parse_u32_literal`, `as i32`, sign folding by
  wrapping negation, the built-in constants `true`/`false`) gives back `v` — including
  `i32::MIN` in every radix and the `0xffffffff` style of the unsigned formats.
* `string_escape_roundtrip` / `string_print_lex_parse`: for every `List Char` (NUL, quotes,
  backslashes, CR/LF, any scalar value), the printed literal is one string token and
  `parse_string_literal` returns the original characters.
* `printInt_head_minus_iff`: the printed literal starts with `-` exactly for negative values in
  signed formats (so a non-negative literal never starts with `-`).
* the token-glue defect of the formatter (fmt.rs 900-902 writes a prefix operator directly in
  front of its operand): `unary_glue_minus` (every negative literal in a signed format under a
  unary minus lexes as the token `--` and is not read as a literal), `unary_glue_not` (`!` in
  front of any of `-*ENHLWXYZO4567` lexes as a DifficultyStr token), with concrete witnesses.

* `layout_tokens`: for every document of nested comma-separated lists and every width, the
  tokens and separating commas of the rendered text are those of the document: the
  inline-vs-block decision (`try_inline`, `backtrack_inline_if_long`) only changes whitespace and
  the trailing comma.

Not proved (searched on the implementation by the harness): the expression / statement grammar,
float literals (`showF32`/`readF32` are Rust's `Display`/`FromStr`).
The full property is kept as `printed_scripts_parse_back_full`.
-/
namespace TruthModel.C08
open TruthModel TruthModel.Fmt

/-! ## digits in base 2 / 10 / 16 (no bound on the number) -/

theorem digitVal_digitChar : ∀ d, d < 16 → digitVal (digitChar d) = some d := by decide

theorem natDigitsAux_fuel {b : Nat} (hb : 2 ≤ b) (n : Nat) :
    ∀ fuel, n ≤ fuel → natDigitsAux b fuel n = natDigitsAux b n n := by
  induction n using Nat.strongRecOn with
  | _ n ih =>
    intro fuel hf
    by_cases hlt : n < b
    · cases fuel with
      | zero =>
        have : n = 0 := by omega
        subst this; rfl
      | succ f =>
        cases n with
        | zero => simp [natDigitsAux, hlt]
        | succ m => simp [natDigitsAux, hlt]
    · obtain ⟨f, rfl⟩ : ∃ f, fuel = f + 1 := ⟨fuel - 1, by omega⟩
      obtain ⟨m, rfl⟩ : ∃ m, n = m + 1 := ⟨n - 1, by omega⟩
      have hdiv : (m + 1) / b < m + 1 := Nat.div_lt_self (by omega) (by omega)
      simp only [natDigitsAux, hlt, if_false]
      rw [ih _ hdiv f (by omega), ih _ hdiv m (by omega)]

theorem natDigits_lt {b n : Nat} (h : n < b) : natDigits b n = [digitChar n] := by
  unfold natDigits
  cases n with
  | zero => rfl
  | succ m => simp [natDigitsAux, h]

theorem natDigits_ge {b n : Nat} (hb : 2 ≤ b) (h : b ≤ n) :
    natDigits b n = natDigits b (n / b) ++ [digitChar (n % b)] := by
  unfold natDigits
  obtain ⟨m, rfl⟩ : ∃ m, n = m + 1 := ⟨n - 1, by omega⟩
  have hdiv : (m + 1) / b < m + 1 := Nat.div_lt_self (by omega) (by omega)
  have hlt : ¬ (m + 1 < b) := by omega
  simp only [natDigitsAux, hlt, if_false]
  rw [natDigitsAux_fuel hb _ m (by omega)]

/-- induction over the digit string of a number -/
theorem natDigits_induction {b : Nat} (hb : 2 ≤ b) (P : Nat → List Char → Prop)
    (base : ∀ n, n < b → P n [digitChar n])
    (step : ∀ n, b ≤ n → P (n / b) (natDigits b (n / b)) →
      P n (natDigits b (n / b) ++ [digitChar (n % b)])) :
    ∀ n, P n (natDigits b n) := by
  intro n
  induction n using Nat.strongRecOn with
  | _ n ih =>
    by_cases hlt : n < b
    · rw [natDigits_lt hlt]; exact base n hlt
    · have hge : b ≤ n := by omega
      rw [natDigits_ge hb hge]
      exact step n hge (ih _ (Nat.div_lt_self (by omega) (by omega)))

/-- reading the digits of `n` (base `b`, most significant first) continues from the value `n` -/
theorem parseDigits_natDigits {b : Nat} (hb : 2 ≤ b) (hb16 : b ≤ 16) (n : Nat) :
    ∀ ys, parseDigitsFrom b 0 (natDigits b n ++ ys) = parseDigitsFrom b n ys := by
  refine natDigits_induction hb (fun n ds => ∀ ys, parseDigitsFrom b 0 (ds ++ ys) = parseDigitsFrom b n ys) ?_ ?_ n
  · intro n hn ys
    simp [parseDigitsFrom, digitVal_digitChar n (by omega), hn]
  · intro n hn ih ys
    have hm : n % b < b := Nat.mod_lt _ (by omega)
    rw [List.append_assoc, ih]
    simp only [List.cons_append, List.nil_append, parseDigitsFrom, digitVal_digitChar (n % b) (by omega), hm, if_true]
    rw [Nat.mul_comm, Nat.div_add_mod]

/-- every character of a digit string is the digit character of a value below the base -/
theorem natDigits_mem {b : Nat} (hb : 2 ≤ b) (n : Nat) :
    ∀ c ∈ natDigits b n, ∃ d, d < b ∧ c = digitChar d := by
  refine natDigits_induction hb (fun _ ds => ∀ c ∈ ds, ∃ d, d < b ∧ c = digitChar d) ?_ ?_ n
  · intro n hn c hc
    simp at hc
    exact ⟨n, hn, hc⟩
  · intro n _ ih c hc
    rcases List.mem_append.mp hc with h | h
    · exact ih c h
    · simp at h
      exact ⟨n % b, Nat.mod_lt _ (by omega), h⟩

theorem natDigits_ne_nil {b : Nat} (hb : 2 ≤ b) (n : Nat) : natDigits b n ≠ [] := by
  refine natDigits_induction hb (fun _ ds => ds ≠ []) ?_ ?_ n
  · intro n _; simp
  · intro n _ _; simp

theorem isDigit_digitChar : ∀ d, d < 10 → isDigit (digitChar d) = true := by decide
theorem isHex_digitChar : ∀ d, d < 16 → isHex (digitChar d) = true := by decide
theorem isBin_digitChar : ∀ d, d < 2 → isBin (digitChar d) = true := by decide

theorem natDigits10_isDigit (n : Nat) : ∀ c ∈ natDigits 10 n, isDigit c = true := by
  intro c hc
  obtain ⟨d, hd, rfl⟩ := natDigits_mem (by omega) n c hc
  exact isDigit_digitChar d hd

theorem natDigits16_isHex (n : Nat) : ∀ c ∈ natDigits 16 n, isHex c = true := by
  intro c hc
  obtain ⟨d, hd, rfl⟩ := natDigits_mem (by omega) n c hc
  exact isHex_digitChar d hd

theorem natDigits2_isBin (n : Nat) : ∀ c ∈ natDigits 2 n, isBin c = true := by
  intro c hc
  obtain ⟨d, hd, rfl⟩ := natDigits_mem (by omega) n c hc
  exact isBin_digitChar d hd

/-! ## `u32::from_str_radix` on printed digits -/

theorem isDigit_isHex {c : Char} (h : isDigit c = true) : isHex c = true := by simp [isHex, h]
theorem isBin_isHex {c : Char} (h : isBin c = true) : isHex c = true := by
  simp only [isBin, Bool.or_eq_true, beq_iff_eq] at h
  rcases h with rfl | rfl <;> decide

theorem fromStrRadix_natDigits {b : Nat} (hb : 2 ≤ b) (hb16 : b ≤ 16) (n : Nat) (hn : n < 4294967296) :
    fromStrRadixU32 b (natDigits b n) = some (UInt32.ofNat n) := by
  have hne := natDigits_ne_nil hb n
  have hhex : ∀ c ∈ natDigits b n, isHex c = true := by
    intro c hc
    obtain ⟨d, hd, rfl⟩ := natDigits_mem hb n c hc
    exact isHex_digitChar d (by omega)
  have hparse := parseDigits_natDigits hb hb16 n []
  simp only [List.append_nil, parseDigitsFrom] at hparse
  cases hds : natDigits b n with
  | nil => exact absurd hds hne
  | cons c t =>
    have hc : isHex c = true := hhex c (by rw [hds]; simp)
    have hplus : c ≠ '+' := by
      intro h; subst h; revert hc; decide
    have hminus : c ≠ '-' := by
      intro h; subst h; revert hc; decide
    rw [hds] at hparse
    unfold fromStrRadixU32
    have h1 : (c :: t = []) = False := by simp
    have h2 : (c :: t = ['+'] ∨ c :: t = ['-']) = False := by simp [hplus, hminus]
    simp only [h1, h2, if_false]
    have h3 : stripPlus (c :: t) = c :: t := by
      unfold stripPlus
      split
      · rename_i r heq
        simp at heq
        exact absurd heq.1 hplus
      · rfl
    rw [h3, hparse]
    simp [hn]

/-! ## token level: a printed integer literal is one INT token -/

theorem spanLen_all (p : Char → Bool) (s : List Char) (h : ∀ c ∈ s, p c = true) : spanLen p s = s.length := by
  induction s with
  | nil => rfl
  | cons c cs ih =>
    have hc : p c = true := h c (by simp)
    have := ih (fun x hx => h x (by simp [hx]))
    simp [spanLen, hc, this]

/-- `s` is lexed as exactly one INT token when it is at the head of the input and ends it -/
structure IntTokStr (s : List Char) : Prop where
  ne : s ≠ []
  nows : ∀ h t, s = h :: t → isWs h = false
  one : lexOne s = .tok (.int s) s.length

theorem lexAll_intTok {s : List Char} (h : IntTokStr s) (f : Nat) : lexAll (f + 2) s = ([.int s], .eof) := by
  cases hs : s with
  | nil => exact absurd hs h.ne
  | cons c cs =>
    have hws : isWs c = false := h.nows c cs hs
    have hone := h.one
    rw [hs] at hone
    have hd : dropWs (c :: cs) = c :: cs := by simp [dropWs, hws]
    rw [show f + 2 = (f + 1) + 1 from rfl, lexAll, hd]
    simp only [hone, List.drop_length]
    rw [lexAll]
    simp [dropWs]

theorem lex_intTok {s : List Char} (h : IntTokStr s) : lex s = ([.int s], .eof) := by
  unfold lex
  cases hs : s with
  | nil => exact absurd hs h.ne
  | cons c cs =>
    have := lexAll_intTok h cs.length
    rw [hs] at this
    simpa using this

/-- facts about a character known to be a decimal digit, by enumeration -/
theorem isDigit_cases {c : Char} (h : isDigit c = true) (P : Char → Prop)
    (all : ∀ x ∈ ['0', '1', '2', '3', '4', '5', '6', '7', '8', '9'], P x) : P c := by
  apply all
  simpa [isDigit] using h

theorem lexOne_of_lens {s : List Char} (hne : s ≠ [])
    (hc : ∀ t, s ≠ '/' :: t) (hp : punctLen s = 0) (hi : intLen s = s.length) (hf : floatLen s = 0)
    (hw : wordLen s = 0) (hd : diffLen s = 0) (hq : strLen s = 0) :
    lexOne s = .tok (.int s) s.length := by
  have hlen : s.length ≠ 0 := by
    cases s with
    | nil => exact absurd rfl hne
    | cons _ _ => simp
  unfold lexOne
  split
  · rename_i t; exact absurd rfl (hc _)
  · rename_i t; exact absurd rfl (hc _)
  · simp only [hp, hi, hf, hw, hd, hq, Nat.max_zero, Nat.zero_max]
    simp [hlen, Ne.symm hlen, List.take_length]

theorem intTok_dec {ds : List Char} (hne : ds ≠ []) (hall : ∀ c ∈ ds, isDigit c = true) : IntTokStr ds := by
  cases hds : ds with
  | nil => exact absurd hds hne
  | cons c cs =>
    have hc : isDigit c = true := hall c (by rw [hds]; simp)
    have hall' : ∀ x ∈ c :: cs, isDigit x = true := by rw [← hds]; exact hall
    refine ⟨by simp, ?_, ?_⟩
    · intro h t heq
      simp at heq
      rw [← heq.1]
      exact isDigit_cases hc (fun x => isWs x = false) (by decide)
    · have hspan : spanLen isDigit (c :: cs) = (c :: cs).length := spanLen_all _ _ hall'
      apply lexOne_of_lens (by simp)
      · intro t heq
        simp at heq
        have : isDigit '/' = true := by rw [heq.1] at hc; exact hc
        revert this; decide
      · have : isPunctStart c = false := isDigit_cases hc (fun x => isPunctStart x = false) (by decide)
        simp [punctLen, this]
      · -- the `0x` / `0b` alternative needs a non-digit second character
        unfold intLen
        rw [hspan]
        split
        · rename_i c' r heq
          simp at heq
          have hc' : isDigit c' = true := hall' c' (by rw [heq.2]; simp)
          have hx : ¬ (c' = 'x' ∨ c' = 'X') := isDigit_cases hc' (fun x => ¬ (x = 'x' ∨ x = 'X')) (by decide)
          have hb : ¬ (c' = 'b' ∨ c' = 'B') := isDigit_cases hc' (fun x => ¬ (x = 'b' ∨ x = 'B')) (by decide)
          simp [hx, hb]
        · simp
      · unfold floatLen
        simp only [hspan, List.drop_length]
        simp
      · have : isIdentStart c = false := isDigit_cases hc (fun x => isIdentStart x = false) (by decide)
        simp [wordLen, this]
      · have : c ≠ '!' := isDigit_cases hc (fun x => x ≠ '!') (by decide)
        unfold diffLen
        split
        · rename_i r heq; simp at heq; exact absurd heq.1 this
        · rfl
      · have : c ≠ '"' := isDigit_cases hc (fun x => x ≠ '"') (by decide)
        unfold strLen
        split
        · rename_i r heq; simp at heq; exact absurd heq.1 this
        · rfl

/-- `0x` + hex digits, `0b` + binary digits -/
theorem intTok_radix {x : Char} {hs : List Char} (p : Char → Bool)
    (hx : (x = 'x' ∧ p = isHex) ∨ (x = 'b' ∧ p = isBin))
    (hne : hs ≠ []) (hall : ∀ c ∈ hs, p c = true) : IntTokStr ('0' :: x :: hs) := by
  have hspan : spanLen p hs = hs.length := spanLen_all _ _ hall
  have hlen : hs.length ≠ 0 := by
    cases hs with
    | nil => exact absurd rfl hne
    | cons _ _ => simp
  refine ⟨by simp, ?_, ?_⟩
  · intro h t heq
    simp at heq
    rw [← heq.1]; decide
  · apply lexOne_of_lens (by simp)
    · intro t heq; simp at heq
    · have : isPunctStart '0' = false := by decide
      simp [punctLen, this]
    · rcases hx with ⟨rfl, rfl⟩ | ⟨rfl, rfl⟩
      · have h0 : isDigit 'x' = false := by decide
        have hz : isDigit '0' = true := by decide
        simp [intLen, spanLen, h0, hz, hspan, hlen]
      · have h0 : isDigit 'b' = false := by decide
        have hz : isDigit '0' = true := by decide
        simp [intLen, spanLen, h0, hz, hspan, hlen]
    · rcases hx with ⟨rfl, _⟩ | ⟨rfl, _⟩
      · have h0 : isDigit 'x' = false := by decide
        have hz : isDigit '0' = true := by decide
        simp [floatLen, spanLen, h0, hz]
      · have h0 : isDigit 'b' = false := by decide
        have hz : isDigit '0' = true := by decide
        simp [floatLen, spanLen, h0, hz]
    · have : isIdentStart '0' = false := by decide
      simp [wordLen, this]
    · simp [diffLen]
    · simp [strLen]

/-- a `-` in front of something that does not start with `=` or `-` is the token `-` -/
theorem lexOne_minus {d : Char} {t : List Char} (h1 : d ≠ '=') (h2 : d ≠ '-') :
    lexOne ('-' :: d :: t) = .tok (.punct ['-']) 1 := by
  simp [lexOne, punctLen, isPunctStart, punctTable, intLen, floatLen, wordLen, diffLen,
    strLen, spanLen, isDigit, isIdentStart, Ne.symm h1, Ne.symm h2]

theorem lexAll_minus {d : Char} {t : List Char} (h1 : d ≠ '=') (h2 : d ≠ '-') (f : Nat) :
    lexAll (f + 1) ('-' :: d :: t) = (.punct ['-'] :: (lexAll f (d :: t)).1, (lexAll f (d :: t)).2) := by
  have hws : isWs '-' = false := by decide
  have hd : dropWs ('-' :: d :: t) = '-' :: d :: t := by simp [dropWs, hws]
  rw [lexAll, hd]
  simp only [lexOne_minus h1 h2, List.drop_succ_cons, List.drop_zero]

theorem lex_minus_intTok {s : List Char} (h : IntTokStr s) (h1 : ∀ d t, s = d :: t → d ≠ '=' ∧ d ≠ '-') :
    lex ('-' :: s) = ([.punct ['-'], .int s], .eof) := by
  cases hs : s with
  | nil => exact absurd hs h.ne
  | cons d t =>
    obtain ⟨a, b⟩ := h1 d t hs
    unfold lex
    have hl : ('-' :: d :: t).length + 1 = (t.length + 2) + 1 := by simp
    rw [hl, lexAll_minus a b]
    have := lexAll_intTok h t.length
    rw [hs] at this
    rw [this]

/-! ## the literal rules on printed digits -/

theorem litIntUnsigned_dec (n : Nat) (hn : n < 4294967296) :
    litIntUnsigned (natDigits 10 n) = some (UInt32.ofNat n).toInt32 := by
  have hall := natDigits10_isDigit n
  have hfs := fromStrRadix_natDigits (b := 10) (by omega) (by omega) n hn
  unfold litIntUnsigned parseU32Literal
  split
  · rename_i r heq; exact absurd (hall 'x' (by rw [heq]; simp)) (by decide)
  · rename_i r heq; exact absurd (hall 'X' (by rw [heq]; simp)) (by decide)
  · rename_i r heq; exact absurd (hall 'b' (by rw [heq]; simp)) (by decide)
  · rename_i r heq; exact absurd (hall 'B' (by rw [heq]; simp)) (by decide)
  · simp [hfs]

theorem litIntUnsigned_hex (n : Nat) (hn : n < 4294967296) :
    litIntUnsigned ('0' :: 'x' :: natDigits 16 n) = some (UInt32.ofNat n).toInt32 := by
  simp [litIntUnsigned, parseU32Literal, fromStrRadix_natDigits (b := 16) (by omega) (by omega) n hn]

theorem litIntUnsigned_bin (n : Nat) (hn : n < 4294967296) :
    litIntUnsigned ('0' :: 'b' :: natDigits 2 n) = some (UInt32.ofNat n).toInt32 := by
  simp [litIntUnsigned, parseU32Literal, fromStrRadix_natDigits (b := 2) (by omega) (by omega) n hn]

theorem uval_lt (v : Int32) : uval v < 4294967296 := by
  have := UInt32.toNat_lt v.toUInt32
  simpa [uval] using this

theorem ofNat_uval (v : Int32) : (UInt32.ofNat (uval v)).toInt32 = v := by
  simp [uval, UInt32.ofNat_toNat, Int32.toInt32_toUInt32]

/-! ### evaluation of the four printed shapes -/

theorem intTok_natDigits10 (n : Nat) : IntTokStr (natDigits 10 n) :=
  intTok_dec (natDigits_ne_nil (by omega) n) (natDigits10_isDigit n)

theorem intTok_hexLit (n : Nat) : IntTokStr ('0' :: 'x' :: natDigits 16 n) :=
  intTok_radix isHex (Or.inl ⟨rfl, rfl⟩) (natDigits_ne_nil (by omega) n) (natDigits16_isHex n)

theorem intTok_binLit (n : Nat) : IntTokStr ('0' :: 'b' :: natDigits 2 n) :=
  intTok_radix isBin (Or.inr ⟨rfl, rfl⟩) (natDigits_ne_nil (by omega) n) (natDigits2_isBin n)

theorem eval_pos {s : List Char} {v : Int32} (h : IntTokStr s) (hv : litIntUnsigned s = some v) :
    evalLiteral s = .int v := by
  simp [evalLiteral, lex_intTok h, evalLitTokens, hv]

theorem eval_neg {s : List Char} {v : Int32} (h : IntTokStr s)
    (h1 : ∀ d t, s = d :: t → d ≠ '=' ∧ d ≠ '-') (hv : litIntUnsigned s = some v) :
    evalLiteral ('-' :: s) = .int (-v) := by
  simp [evalLiteral, lex_minus_intTok h h1, evalLitTokens, hv]

theorem head_dec (n : Nat) : ∀ d t, natDigits 10 n = d :: t → d ≠ '=' ∧ d ≠ '-' := by
  intro d t h
  have hd : isDigit d = true := natDigits10_isDigit n d (by rw [h]; simp)
  exact isDigit_cases hd (fun x => x ≠ '=' ∧ x ≠ '-') (by decide)

theorem head_zero (x : Char) (r : List Char) : ∀ d t, '0' :: x :: r = d :: t → d ≠ '=' ∧ d ≠ '-' := by
  intro d t h
  simp at h
  rw [← h.1]; decide

theorem eval_printI32 (v : Int32) : evalLiteral (printI32 v) = .int v := by
  unfold printI32
  split
  · have := eval_neg (intTok_natDigits10 (uval (-v))) (head_dec _) (litIntUnsigned_dec _ (uval_lt _))
    rw [this, ofNat_uval, Int32.neg_neg]
  · have := eval_pos (intTok_natDigits10 (uval v)) (litIntUnsigned_dec _ (uval_lt _))
    rw [this, ofNat_uval]

theorem eval_signedHex (v : Int32) : evalLiteral (signedRadix ['0', 'x'] 16 v) = .int v := by
  unfold signedRadix
  split
  · have := eval_neg (intTok_hexLit (uval (-v))) (head_zero _ _) (litIntUnsigned_hex _ (uval_lt _))
    simp only [List.cons_append, List.nil_append]
    rw [this, ofNat_uval, Int32.neg_neg]
  · have := eval_pos (intTok_hexLit (uval v)) (litIntUnsigned_hex _ (uval_lt _))
    simp only [List.cons_append, List.nil_append]
    rw [this, ofNat_uval]

theorem eval_signedBin (v : Int32) : evalLiteral (signedRadix ['0', 'b'] 2 v) = .int v := by
  unfold signedRadix
  split
  · have := eval_neg (intTok_binLit (uval (-v))) (head_zero _ _) (litIntUnsigned_bin _ (uval_lt _))
    simp only [List.cons_append, List.nil_append]
    rw [this, ofNat_uval, Int32.neg_neg]
  · have := eval_pos (intTok_binLit (uval v)) (litIntUnsigned_bin _ (uval_lt _))
    simp only [List.cons_append, List.nil_append]
    rw [this, ofNat_uval]

theorem eval_unsignedDec (v : Int32) : evalLiteral (natDigits 10 (uval v)) = .int v := by
  rw [eval_pos (intTok_natDigits10 (uval v)) (litIntUnsigned_dec _ (uval_lt _)), ofNat_uval]

theorem eval_unsignedHex (v : Int32) : evalLiteral ('0' :: 'x' :: natDigits 16 (uval v)) = .int v := by
  rw [eval_pos (intTok_hexLit (uval v)) (litIntUnsigned_hex _ (uval_lt _)), ofNat_uval]

theorem eval_unsignedBin (v : Int32) : evalLiteral ('0' :: 'b' :: natDigits 2 (uval v)) = .int v := by
  rw [eval_pos (intTok_binLit (uval v)) (litIntUnsigned_bin _ (uval_lt _)), ofNat_uval]

/-- **C08, integer literals.**  For every format (signed/unsigned x dec/hex/bin/bool) and every
`v : Int32`, lexing the printed text and applying the grammar's literal rules with sign folding
gives `v`. -/
theorem int_print_parse (f : IntFormat) (v : Int32) : evalLiteral (printInt f v) = .int v := by
  obtain ⟨signed, radix⟩ := f
  cases radix <;> cases signed <;> simp only [printInt]
  · exact eval_unsignedDec v
  · exact eval_printI32 v
  · exact eval_unsignedHex v
  · exact eval_signedHex v
  · exact eval_unsignedBin v
  · exact eval_signedBin v
  · split
    · rename_i h; subst h; decide
    · split
      · rename_i h; subst h; decide
      · simp only [Bool.false_eq_true, if_false]; exact eval_unsignedHex v
  · split
    · rename_i h; subst h; decide
    · split
      · rename_i h; subst h; decide
      · simp only [if_true]; exact eval_printI32 v

example : printInt ⟨true, .hex⟩ (-16) = "-0x10".toList := by decide
example : printInt ⟨true, .hex⟩ (-2147483648) = "-0x80000000".toList := by decide
example : printInt ⟨false, .hex⟩ (-48) = "0xffffffd0".toList := by decide
example : printInt ⟨true, .bin⟩ (-4) = "-0b100".toList := by decide
example : printInt ⟨false, .bool⟩ (-2) = "0xfffffffe".toList := by decide
example : printInt ⟨true, .dec⟩ (-2147483648) = "-2147483648".toList := by decide
example : evalLiteral "-2147483648".toList = .int (-2147483648) := by decide
example : evalLiteral "4294967296".toList = .badInt := by decide

/-! ## the sign of the printed text -/

theorem natDigits_head_ne_minus {b : Nat} (hb : 2 ≤ b) (hb16 : b ≤ 16) (n : Nat) :
    (natDigits b n).head? ≠ some '-' := by
  cases h : natDigits b n with
  | nil => simp
  | cons c t =>
    have hc : isHex c = true := by
      obtain ⟨d, hd, rfl⟩ := natDigits_mem hb n c (by rw [h]; simp)
      exact isHex_digitChar d (by omega)
    simp only [List.head?_cons, ne_eq, Option.some.injEq]
    intro hm; subst hm; revert hc; decide

/-- The printed literal starts with `-` exactly for negative values in signed formats; in
particular a non-negative literal never starts with `-`, and neither does any unsigned one. -/
theorem printInt_head_minus_iff (f : IntFormat) (v : Int32) :
    (printInt f v).head? = some '-' ↔ (f.signed = true ∧ v.toInt < 0) := by
  have d10 := natDigits_head_ne_minus (b := 10) (by omega) (by omega)
  obtain ⟨signed, radix⟩ := f
  have hI : (printI32 v).head? = some '-' ↔ v.toInt < 0 := by
    unfold printI32
    split
    · rename_i h; simp [h]
    · rename_i h; simp [h, d10]
  have hS : ∀ (x : Char) (b : Nat), 2 ≤ b → b ≤ 16 → ((signedRadix ['0', x] b v).head? = some '-' ↔ v.toInt < 0) := by
    intro x b _ _
    unfold signedRadix
    split
    · rename_i h; simp [h]
    · rename_i h; simp [h]
  have h0 : (0 : Int32).toInt = 0 := by decide
  have h1 : (1 : Int32).toInt = 1 := by decide
  cases radix <;> cases signed <;> simp only [printInt]
  · simp [d10]
  · simpa using hI
  · simp
  · simpa using hS 'x' 16 (by omega) (by omega)
  · simp
  · simpa using hS 'b' 2 (by omega) (by omega)
  · split
    · simp
    · split
      · simp
      · simp
  · split
    · rename_i h; subst h; simp [h0]
    · split
      · rename_i h; subst h; simp [h1]
      · simpa using hI

theorem printInt_nonneg_no_minus (f : IntFormat) (v : Int32) (h : 0 ≤ v.toInt) :
    (printInt f v).head? ≠ some '-' := by
  intro hm
  have := ((printInt_head_minus_iff f v).mp hm).2
  omega

example : (0 : Int32).toInt ≥ 0 ∧ (printInt ⟨true, .dec⟩ 7).head? = some '7' := by decide

/-! ## the token-glue defect (the formatter writes a prefix operator directly before its operand) -/

theorem lexOne_minus_minus (t : List Char) : lexOne ('-' :: '-' :: t) = .tok (.punct ['-', '-']) 2 := by
  simp [lexOne, punctLen, isPunctStart, punctTable, intLen, floatLen, wordLen, diffLen,
    strLen, spanLen, isDigit, isIdentStart]

/-- A token list that starts with `--` is not an integer literal, signed or not. -/
theorem evalLitTokens_minus_minus (r : List Tok) : evalLitTokens (.punct ['-', '-'] :: r) = .other := by
  unfold evalLitTokens
  split <;> simp_all

/-- **The unary-minus glue defect, all instances.**  For every signed format and every negative
`v`, the text that the formatter writes for `-(literal v)` — the operator immediately followed by
the printed literal — starts with the single token `--` (pre-decrement), and the literal rules
do not read it as a number.  So `print` is not injective into parseable text there; a space or
parentheses between the operator and an operand that starts with `-` would repair it. -/
theorem unary_glue_minus (f : IntFormat) (v : Int32) (hs : f.signed = true) (hv : v.toInt < 0) :
    (∃ r e, lex (printUnary '-' (printInt f v)) = (.punct ['-', '-'] :: r, e)) ∧
    evalLiteral (printUnary '-' (printInt f v)) = .other := by
  have hhead := (printInt_head_minus_iff f v).mpr ⟨hs, hv⟩
  cases hp : printInt f v with
  | nil => rw [hp] at hhead; simp at hhead
  | cons c t =>
    rw [hp] at hhead
    simp only [List.head?_cons, Option.some.injEq] at hhead
    subst hhead
    have hws : isWs '-' = false := by decide
    have hl : lex (printUnary '-' ('-' :: t)) =
        (.punct ['-', '-'] :: (lexAll (t.length + 2) t).1, (lexAll (t.length + 2) t).2) := by
      simp [lex, printUnary, lexAll, dropWs, hws, lexOne_minus_minus]
    refine ⟨⟨_, _, hl⟩, ?_⟩
    unfold evalLiteral
    rw [hl]
    split
    · rename_i toks heq
      simp only [Prod.mk.injEq] at heq
      rw [← heq.1]
      exact evalLitTokens_minus_minus _
    · rfl

/-- witness (DESIGN.md section 8: `ins_200(I0, -3)` under `UnOp(op="-")` decompiles to `I0 = --3;`) -/
theorem unary_glue_minus_witness :
    lex (printUnary '-' (printInt ⟨true, .dec⟩ (-3))) = ([.punct ['-', '-'], .int ['3']], .eof) ∧
    evalLiteral (printUnary '-' (printInt ⟨true, .dec⟩ (-3))) = .other ∧
    evalLiteral ("-(-3)".toList.filter (fun c => c != '(' && c != ')')) = .other := by decide

example : (⟨true, .dec⟩ : IntFormat).signed = true ∧ (-3 : Int32).toInt < 0 := by decide

/-- source-level instance: `-2147483648` is `-(2147483648 as i32)` = `-(MIN)`, printed `--2147483648` -/
theorem unary_glue_min_witness :
    litIntUnsigned "2147483648".toList = some (-2147483648) ∧
    printUnary '-' (printInt ⟨true, .dec⟩ (-2147483648)) = "--2147483648".toList ∧
    evalLiteral "--2147483648".toList = .other := by decide

/-- **The `!` glue defect.**  `!` directly followed by any of `-*ENHLWXYZO4567` is lexed as one
DifficultyStr token of at least two characters (a token no grammar rule accepts), not as the
operator `!`. -/
theorem unary_glue_not (c : Char) (t : List Char) (hc : isDiffChar c = true) :
    ∃ n, 2 ≤ n ∧ lexOne (printUnary '!' (c :: t)) = .tok (.difficulty (('!' :: c :: t).take n)) n := by
  refine ⟨spanLen isDiffChar t + 2, by omega, ?_⟩
  have hne : c ≠ '=' := by
    intro h; subst h; revert hc; decide
  have hd : isDigit '!' = false := by decide
  have hi : isIdentStart '!' = false := by decide
  simp [printUnary, lexOne, punctLen, isPunctStart, punctTable, intLen, floatLen, wordLen,
    diffLen, strLen, spanLen, hc, hd, hi, Ne.symm hne]

/-- negative literals under `!` (`!-1`), literals starting with 4-7 (`!4`), identifiers starting
with one of `ENHLWXYZO` (`!Enemy`) -/
theorem unary_glue_not_witness :
    lex (printUnary '!' (printInt ⟨true, .dec⟩ (-1))) = ([.difficulty ['!', '-'], .int ['1']], .eof) ∧
    lex (printUnary '!' (printInt ⟨true, .dec⟩ 4)) = ([.difficulty ['!', '4']], .eof) ∧
    lex "!Enemy".toList = ([.difficulty ['!', 'E'], .word "nemy".toList], .eof) ∧
    evalLiteral (printUnary '!' (printInt ⟨true, .dec⟩ 4)) = .other := by decide

example : isDiffChar '-' = true ∧ isDiffChar '4' = true ∧ isDiffChar 'E' = true := by decide

/-- every negative literal of a signed format under `!` is affected (`-` is in the class) -/
theorem unary_glue_not_negative (f : IntFormat) (v : Int32) (hs : f.signed = true) (hv : v.toInt < 0) :
    ∃ n s, 2 ≤ n ∧ lexOne (printUnary '!' (printInt f v)) = .tok (.difficulty s) n := by
  have hhead := (printInt_head_minus_iff f v).mpr ⟨hs, hv⟩
  cases hp : printInt f v with
  | nil => rw [hp] at hhead; simp at hhead
  | cons c t =>
    rw [hp] at hhead
    simp only [List.head?_cons, Option.some.injEq] at hhead
    subst hhead
    obtain ⟨n, hn, h⟩ := unary_glue_not '-' t (by decide)
    exact ⟨n, _, hn, h⟩

/-! ## strings -/

theorem unescapeLoop_escapeBody (s : List Char) :
    ∀ rest out, unescapeLoop (escapeBody s ++ rest) false out = unescapeLoop rest false (out ++ s) := by
  induction s with
  | nil => intro rest out; simp [escapeBody]
  | cons c cs ih =>
    intro rest out
    have hcons : escapeBody (c :: cs) = escapeChar c ++ escapeBody cs := by simp [escapeBody]
    rw [hcons, List.append_assoc]
    have key : unescapeLoop (escapeChar c ++ (escapeBody cs ++ rest)) false out
        = unescapeLoop (escapeBody cs ++ rest) false (out ++ [c]) := by
      unfold escapeChar
      split
      · rename_i h; subst h; simp [unescapeLoop, unescapeChar]
      · split
        · rename_i h; subst h; simp [unescapeLoop, unescapeChar]
        · split
          · rename_i h; subst h; simp [unescapeLoop, unescapeChar]
          · split
            · rename_i h; subst h; simp [unescapeLoop, unescapeChar]
            · split
              · rename_i h; subst h; simp [unescapeLoop, unescapeChar]
              · rename_i h3 _ _
                simp [unescapeLoop, h3]
    rw [key, ih]
    simp

/-- **C08, strings** (the statement of the task: `unescape (escape s) = s`).  For every list of
characters — NUL, quotes, backslashes, CR/LF, any multi-byte scalar value — parsing the printed
literal gives back the characters; in particular `parse_string_literal` neither rejects nor
panics on printed text. -/
theorem string_escape_roundtrip (s : List Char) : unescapeString (escapeString s) = .ok s := by
  unfold unescapeString parseStringLiteral escapeString
  have h1 : ¬ (('"' :: (escapeBody s ++ ['"'])).length < 2) := by simp
  have hl : ('"' :: (escapeBody s ++ ['"'])).getLast? = some '"' := by
    rw [← List.cons_append, List.getLast?_concat]
  have h2 : ¬ (('"' :: (escapeBody s ++ ['"'])).head? ≠ some '"' ∨ ('"' :: (escapeBody s ++ ['"'])).getLast? ≠ some '"') := by
    simp [hl]
  simp only [h1, h2, if_false, List.tail_cons, List.dropLast_concat]
  have := unescapeLoop_escapeBody s [] []
  simp only [List.append_nil, List.nil_append] at this
  rw [this]
  simp [unescapeLoop]

example : escapeString ['a', '"', '\\', '\n', '\r', '\x00', 'é', '日'] = "\"a\\\"\\\\\\n\\r\\0é日\"".toList := by decide
example : unescapeString "\"\\t\"".toList = .err "invalid escape character" := by decide

/-- the printed body followed by the closing quote is matched by the string rule of the lexer up to
and including that quote -/
theorem strBodyLen_escapeBody (s : List Char) :
    ∀ rest, strBodyLen (escapeBody s ++ '"' :: rest) false = some ((escapeBody s).length + 1) := by
  induction s with
  | nil => intro rest; simp [escapeBody, strBodyLen]
  | cons c cs ih =>
    intro rest
    have hcons : escapeBody (c :: cs) = escapeChar c ++ escapeBody cs := by simp [escapeBody]
    rw [hcons, List.append_assoc]
    unfold escapeChar
    split
    · simp [strBodyLen, ih]
    · split
      · simp [strBodyLen, ih]
      · split
        · simp [strBodyLen, ih]
        · split
          · simp [strBodyLen, ih]
          · split
            · simp [strBodyLen, ih]
            · rename_i h1 h2 _ _
              have hq : c ≠ '"' := h1
              have hb : c ≠ '\\' := h2
              simp [strBodyLen, hq, hb, ih]

/-- A printed string literal at the head of the input is exactly one STRING token. -/
theorem lexOne_escapeString (s rest : List Char) :
    lexOne (escapeString s ++ rest) = .tok (.str (escapeString s)) (escapeString s).length := by
  have hb := strBodyLen_escapeBody s rest
  have hq : strLen (escapeString s ++ rest) = (escapeString s).length := by
    simp [escapeString, strLen, hb]
  have hp : isPunctStart '"' = false := by decide
  have hd : isDigit '"' = false := by decide
  have hi : isIdentStart '"' = false := by decide
  have hlen : (escapeString s).length ≠ 0 := by simp [escapeString]
  have htake : (escapeString s ++ rest).take (escapeString s).length = escapeString s := by simp
  have hrest : lexOne (escapeString s ++ rest) =
      .tok (.str ((escapeString s ++ rest).take (escapeString s).length)) (escapeString s).length := by
    have hx : escapeString s ++ rest = '"' :: (escapeBody s ++ '"' :: rest) := by simp [escapeString]
    unfold lexOne
    rw [hq]
    rw [hx]
    simp [punctLen, hp, intLen, floatLen, wordLen, diffLen, spanLen, hd, hi]
    simp [escapeString] at hlen ⊢
  rw [hrest, htake]

/-- **C08, strings, end to end**: the printed literal alone is lexed as one string token whose
text `parse_string_literal` turns back into `s`. -/
theorem string_print_lex_parse (s : List Char) :
    lex (escapeString s) = ([.str (escapeString s)], .eof) ∧
    parseStringLiteral (escapeString s) = .ok s := by
  refine ⟨?_, string_escape_roundtrip s⟩
  have h := lexOne_escapeString s []
  simp only [List.append_nil] at h
  have hws : isWs '"' = false := by decide
  have hx : escapeString s = '"' :: (escapeBody s ++ ['"']) := rfl
  unfold lex
  rw [hx] at h ⊢
  have hd : dropWs ('"' :: (escapeBody s ++ ['"'])) = '"' :: (escapeBody s ++ ['"']) := by simp [dropWs, hws]
  rw [show ('"' :: (escapeBody s ++ ['"'])).length + 1 = ((escapeBody s ++ ['"']).length + 1) + 1 from rfl, lexAll, hd]
  simp only [h, List.drop_length]
  rw [lexAll]
  simp [dropWs]

/-! ## layout: inline vs block style changes only whitespace and the trailing comma

`Doc` is the comma-separated-list skeleton of a script (call arguments, parameter lists, meta
arrays/objects); `blk` is `fmt_comma_separated` with the `try_inline` backtracking, `ess` keeps what
the parser sees (tokens and separating commas; the grammar's `SeparatedTrailing` also accepts the
trailing comma of the block style, which `ess` drops). -/

theorem ess_append (a b : List Piece) : ess (a ++ b) = ess a ++ ess b := by simp [ess]

theorem ess_write (st : LSt) (p : Piece) : ess (st.write p).out = ess st.out ++ ess [p] := by
  unfold LSt.write
  split <;> simp [ess]

theorem ess_newline (st : LSt) : ess st.newline.out = ess st.out := by
  simp [LSt.newline, ess]

theorem ess_tok (s : List Char) : ess [.tok s] = [.tok s] := by simp [ess]
theorem ess_comma : ess [.comma] = [.comma] := by simp [ess]
theorem ess_tcomma : ess [.tcomma] = [] := by simp [ess]
theorem ess_space : ess [.space] = [] := by simp [ess]

mutual
theorem inl_ess (tw : Nat) : ∀ (d : Doc) (st st' : LSt), inl tw d st = some st' →
    ess st'.out = ess st.out ++ d.toks
  | .atom s, st, st', h => by
    simp only [inl, Option.some.injEq] at h
    subst h
    simp [ess_write, ess_tok, Doc.toks]
  | .list op cl items, st, st', h => by
    simp only [inl] at h
    split at h
    · simp at h
    · rename_i st1 h1
      have ih := inlItems_ess tw items true _ _ h1
      split at h
      · simp at h
      · simp only [Option.some.injEq] at h
        subst h
        simp [ess_write, ess_tok, ih, Doc.toks]
theorem inlItems_ess (tw : Nat) : ∀ (ds : Docs) (first : Bool) (st st' : LSt), inlItems tw ds first st = some st' →
    ess st'.out = ess st.out ++ ds.toks first
  | .nil, first, st, st', h => by
    simp only [inlItems, Option.some.injEq] at h
    subst h
    simp [Docs.toks]
  | .cons d ds, first, st, st', h => by
    simp only [inlItems] at h
    split at h
    · simp at h
    · rename_i st1 h1
      have ih1 := inl_ess tw d _ _ h1
      split at h
      · simp at h
      · have ih2 := inlItems_ess tw ds false _ _ h
        rw [ih2, ih1]
        cases first <;> simp [ess_write, ess_comma, ess_space, Docs.toks]
end

/-- the token sequence of an item list with the separators written the way the block style writes
them: after every item but the last -/
def toksSep : Docs → List Piece
  | .nil => []
  | .cons d ds => d.toks ++ (if ds.isNil then [] else [.comma]) ++ toksSep ds

theorem toks_eq_toksSep : ∀ (ds : Docs),
    ds.toks true = toksSep ds ∧ ds.toks false = (if ds.isNil then [] else .comma :: toksSep ds)
  | .nil => by simp [Docs.toks, toksSep, Docs.isNil]
  | .cons d .nil => by simp [Docs.toks, toksSep, Docs.isNil]
  | .cons d (.cons d' ds') => by
    have ih := toks_eq_toksSep (.cons d' ds')
    have h2 : (Docs.cons d' ds').toks false = .comma :: toksSep (.cons d' ds') := by simpa [Docs.isNil] using ih.2
    constructor
    · rw [toksSep, Docs.toks, h2]; simp [Docs.isNil]
    · rw [toksSep, Docs.toks, h2]; simp [Docs.isNil]

theorem ess_with_indent (st : LSt) (n : Nat) : ess ({ st with indent := n }).out = ess st.out := rfl

mutual
theorem blk_ess (tw : Nat) : ∀ (d : Doc) (st : LSt), ess (blk tw d st).out = ess st.out ++ d.toks
  | .atom s, st => by simp [blk, ess_write, ess_tok, Doc.toks]
  | .list op cl items, st => by
    simp only [blk]
    split
    · rename_i st' h
      exact inl_ess tw _ _ _ h
    · rw [ess_write, ess_tok, ess_with_indent, blkItems_ess tw items, ess_with_indent, ess_newline, ess_write, ess_tok]
      simp [Doc.toks, (toks_eq_toksSep items).1]
theorem blkItems_ess (tw : Nat) : ∀ (ds : Docs) (st : LSt), ess (blkItems tw ds st).out = ess st.out ++ toksSep ds
  | .nil, st => by simp [blkItems, toksSep]
  | .cons d ds, st => by
    simp only [blkItems]
    rw [blkItems_ess tw ds, ess_newline, ess_write, blk_ess tw d]
    cases h : ds.isNil <;> simp [toksSep, ess_comma, ess_tcomma, h]
end

/-- **layout changes only whitespace and trailing commas** -/
theorem layout_tokens (w : Nat) (d : Doc) : ess (renderPieces w d) = d.toks := by
  unfold renderPieces
  rw [blk_ess]
  simp [LSt.init, ess]

theorem layout_width_independent (w w' : Nat) (d : Doc) : ess (renderPieces w d) = ess (renderPieces w' d) := by
  rw [layout_tokens, layout_tokens]

example : render 6 (.list ['['] [']'] (.cons (.atom ['1', '0']) (.cons (.atom ['2', '3']) .nil))) = "[\n    10,\n    23,\n]".toList := by decide
example : render 9 (.list ['['] [']'] (.cons (.atom ['1', '0']) (.cons (.atom ['2', '3']) .nil))) = "[10, 23]".toList := by decide

/-! ## the full property (not proved: the expression and statement grammar and floats are searched) -/

/-- The statement of C08 over an abstract script type: `print w` at every width is accepted by
`parse` and denotes the same script, and printing again reproduces the text.  The theorems above
establish the literal layer of it (and refute it at the glue sites); the rest is searched on the
implementation. -/
def printed_scripts_parse_back_full {Script : Type} (print : Nat → Script → List Char)
    (parse : List Char → Option Script) (denote : Script → Script) : Prop :=
  ∀ (w : Nat) (x : Script), ∃ y, parse (print w x) = some y ∧ denote y = denote x ∧ print w y = print w x

/-- What is proved of `printed_scripts_parse_back_full`: the literal layer (integers in every
format, strings) and the layout layer (width only changes whitespace and trailing commas).
Missing: the expression / statement grammar between the two layers and float literals, which are
searched on the implementation; and the property is false at the glue sites (`unary_glue_minus`,
`unary_glue_not`). -/
theorem printed_scripts_parse_back_partial :
    (∀ f v, evalLiteral (printInt f v) = .int v) ∧
    (∀ s, lex (escapeString s) = ([.str (escapeString s)], .eof) ∧ parseStringLiteral (escapeString s) = .ok s) ∧
    (∀ w d, ess (renderPieces w d) = d.toks) :=
  ⟨int_print_parse, string_print_lex_parse, layout_tokens⟩

end TruthModel.C08
